(* Frames of the functions that create sessions or deliver messages: new_session,
   handle_response, handle_message; "no session is lost" (SessF) for the functions that run before
   a session is created in a step. *)
From Coq Require Import List Arith NArith Bool Lia.
From Discv5V Require Import Model.Handler Proofs.HandlerB_Base Proofs.HandlerB_Frame.
Import ListNotations.
Local Open Scope N_scope.

(* ------------------------------------------------------------------------------------------ *)
(* SessF ("no session is lost") for the functions that never access the session cache.  With session
   expiry every access (sess_get) may remove the entry it looks up, so send_request, the release of
   pending requests and the implicit tick do NOT have this property any more. *)

Definition QF (s s' : st) : Prop := SessF (hs s) (hs s').
Lemma QF_refl s : QF s s. Proof. apply SessF_refl. Qed.
Lemma QF_trans a b d : QF a b -> QF b d -> QF a d. Proof. apply SessF_trans. Qed.
Lemma QF_same s s' : sessions (hs s') = sessions (hs s) -> QF s s'.
Proof. apply SessF_same. Qed.

Lemma sessions_push_pending h na q : sessions (push_pending h na q) = sessions h.
Proof. unfold push_pending. destruct (alist_get na (pending h)); reflexivity. Qed.

Lemma sessions_ar_remove_requests h na : sessions (fst (ar_remove_requests h na)) = sessions h.
Proof. unfold ar_remove_requests. destruct (alist_get na (active h)); reflexivity. Qed.

(* fail_session without removal keeps the session list *)
Lemma fail_session_keep c s na err : sessions (hs (fail_session c s na err false)) = sessions (hs s).
Proof.
  unfold fail_session.
  set (s2 := match alist_get na (pending (hs s)) with Some l => _ | None => s end).
  assert (H2 : sessions (hs s2) = sessions (hs s)).
  { unfold s2. destruct (alist_get na (pending (hs s))) as [l |]; [| reflexivity].
    set (s1 := with_hs s _). change (sessions (hs s)) with (sessions (hs s1)).
    apply (fold_left_rel (fun a b : st => sessions (hs b) = sessions (hs a))); [reflexivity | congruence |].
    intros a q. destruct (pq_ext q); reflexivity. }
  pose proof (sessions_ar_remove_requests (hs s2) na) as H3.
  destruct (ar_remove_requests (hs s2) na) as [h3 reqs]. cbn [fst] in H3.
  rewrite <- H2, <- H3. change (sessions h3) with (sessions (hs (with_hs s2 h3))).
  apply (fold_left_rel (fun a b : st => sessions (hs b) = sessions (hs a))); [reflexivity | congruence |].
  intros a r. destruct (rc_ext r); reflexivity.
Qed.

Lemma fail_request_keep c s r err : sessions (hs (fail_request c s r err false)) = sessions (hs s).
Proof. unfold fail_request. rewrite fail_session_keep. destruct (rc_ext r); reflexivity. Qed.

Lemma QF_handle_request_timeout c s na r now : QF s (handle_request_timeout c s na r now).
Proof.
  unfold handle_request_timeout. destruct (N.leb (cfg_retries c) (rc_retries r)).
  - apply QF_same. rewrite fail_request_keep. reflexivity.
  - apply QF_same. reflexivity.
Qed.

Lemma QF_fire_request c s n na now : QF s (fire_request c s n na now).
Proof.
  unfold fire_request. destruct (alist_get na (active (hs s))) as [l |].
  - destruct (remove_first _ l) as [[r l'] |].
    + eapply QF_trans; [| apply QF_handle_request_timeout]. apply QF_same. reflexivity.
    + apply QF_same. reflexivity.
  - apply QF_same. reflexivity.
Qed.

Lemma QF_fire_group c s g d ft : QF s (fire_group c s g d ft).
Proof.
  unfold fire_group. apply (fold_left_rel QF); [apply QF_refl | apply QF_trans |].
  intros a x. destruct (nmap_deadline (fst x) (nmap (hs a))) as [d' |]; [| apply QF_refl].
  destruct (N.eqb d' d); [apply QF_fire_request | apply QF_refl].
Qed.

(* ------------------------------------------------------------------------------------------ *)
(* new_session *)

(* [SessN na se h h']: like SessD, but a session under [na] may additionally hold keys of [se], or be a
   new one descending from [se] (there was none under [na], or the one there had expired and was
   purged). *)
Definition SessN (na : naddr) (se : session) (h h' : hstate) : Prop :=
  forall na' se', In (na', se') (sessions h') ->
    (exists se0, In (na', se0) (sessions h) /\ s_counter se0 <= s_counter se' /\
       forall k, In k (sess_keys se') -> In k (sess_keys se0) \/ (na' = na /\ In k (sess_keys se)))
    \/ (na' = na /\ sess_desc se se').

Lemma SessD_SessN na se h h' : SessD h h' -> SessN na se h h'.
Proof.
  intros H na' se' Hin. left. destruct (H _ _ Hin) as [se0 [H1 [H2 H3]]].
  exists se0. split; [exact H1 | split; [exact H3 |]]. intros k Hk. left. apply H2. exact Hk.
Qed.

Lemma SessN_D na se a b d : SessN na se a b -> SessD b d -> SessN na se a d.
Proof.
  intros HN HD na' se' Hin. destruct (HD _ _ Hin) as [se1 [H1 [H2 H3]]].
  destruct (HN _ _ H1) as [[se0 [H4 [H5 H6]]] | [H4 H6]].
  - left. exists se0. split; [exact H4 | split; [lia |]]. intros k Hk. apply H6. apply H2. exact Hk.
  - right. split; [exact H4 |]. eapply sess_desc_trans; [exact H6 |]. split; assumption.
Qed.

Lemma SessD_N na se a b d : SessD a b -> SessN na se b d -> SessN na se a d.
Proof.
  intros HD HN na' se' Hin.
  destruct (HN _ _ Hin) as [[se1 [H4 [H5 H6]]] | [H4 H6]].
  - left. destruct (HD _ _ H4) as [se0 [H1 [H2 H3]]].
    exists se0. split; [exact H1 | split; [lia |]]. intros k Hk.
    destruct (H6 k Hk) as [H7 | H7]; [left; apply H2; exact H7 | right; exact H7].
  - right. split; [exact H4 | exact H6].
Qed.

(* the frame of new_session and of the steps built around it *)
Definition NS (na : naddr) (se : session) (s s' : st) : Prop :=
  challenges (hs s') = challenges (hs s) /\ SessN na se (hs s) (hs s') /\ OutsExt quiet_out s s' /\
  UPres (hs s) (hs s').

Lemma NS_Quiet_after na se a b d : NS na se a b -> Quiet b d -> NS na se a d.
Proof.
  intros [E1 [N1 [O1 U1]]] [[E2 [D2 U2]] O2]. split; [congruence | split; [| split]].
  - eapply SessN_D; eauto.
  - eapply OutsExt_trans; eauto.
  - intros H. apply U2. apply U1. exact H.
Qed.

Lemma NoDup_tl {A} (l : list A) : NoDup l -> NoDup (tl l).
Proof. destruct l; cbn; [auto |]. intros H; inversion H; auto. Qed.
Lemma map_tl' {A B} (f : A -> B) (l : list A) : map f (tl l) = tl (map f l).
Proof. destruct l; reflexivity. Qed.

Lemma NS_Quiet_before na se a b d : Quiet a b -> NS na se b d -> NS na se a d.
Proof.
  intros [[E1 [D1 U1]] O1] [E2 [N2 [O2 U2]]]. split; [congruence | split; [| split]].
  - eapply SessD_N; eauto.
  - eapply OutsExt_trans; eauto.
  - intros H. apply U2. apply U1. exact H.
Qed.

Lemma NS_new_session c s na se skip now : NS na se s (new_session c s na se skip now).
Proof.
  unfold new_session.
  eapply NS_Quiet_before; [apply QuietF_Quiet; apply (QuietF_remove_expired c s) |].
  generalize (remove_expired_sessions c s). clear s. intros s.
  pose proof (QH_sess_get c (hs s) na) as Hg. pose proof (sess_get_got c (hs s) na) as Hgot.
  pose proof (sess_get_stored c (hs s) na) as Hst.
  destruct (sess_get c (hs s) na) as [h1 cur]. cbn [fst snd] in Hg, Hgot, Hst.
  destruct cur as [cs |].
  - (* Session::update *)
    set (cs' := {| s_enc := s_enc se; s_dec := s_dec se; s_old := Some (s_enc cs, s_dec cs);
                   s_await := s_await se; s_counter := s_counter cs; s_used := s_used cs |}).
    assert (H1 : NS na se s (with_hs s (sess_put h1 na cs'))).
    { split; [cbn; apply Hg | split; [| split; [apply OutsExt_same; reflexivity |]]].
      2:{ destruct Hg as [_ [_ Ug]]. intros HU. apply Ug in HU. unfold SessUniq in *.
          cbn [hs with_hs sess_put sessions set_sessions]. rewrite alist_set_keys; [exact HU |].
          apply in_map_iff. exists (na, cs). split; [reflexivity | apply Hgot; reflexivity]. }
      destruct (Hst _ eq_refl) as [s00 [Eg [_ Et]]]. subst cs.
      intros na' se' H. cbn [hs with_hs sess_put sessions set_sessions] in H.
      apply In_alist_set in H. destruct H as [H | H].
      - inversion H; subst na' se'. left. exists s00. split; [apply alist_get_In; exact Eg |].
        split; [cbn; lia |]. intros k Hk. unfold sess_keys in Hk. cbn in Hk.
        destruct Hk as [Hk | [Hk | [Hk | [Hk | []]]]]; subst k.
        + right. split; [reflexivity | left; reflexivity].
        + right. split; [reflexivity | right; left; reflexivity].
        + left. left. reflexivity.
        + left. right. left. reflexivity.
      - left. destruct Hg as [_ [Dg _]]. destruct (Dg _ _ H) as [se0 [H1 [H2 H3]]].
        exists se0. split; [exact H1 | split; [exact H3 |]]. intros k Hk. left. apply H2. exact Hk. }
    eapply NS_Quiet_after; [exact H1 |].
    destruct (fix_d2a c).
    + eapply Quiet_trans; [apply Quiet_replay | apply Quiet_send_pending_requests].
    + apply Quiet_replay.
  - eapply NS_Quiet_after; [| apply Quiet_send_pending_requests].
    split; [cbn; apply Hg | split; [| split; [apply OutsExt_same; reflexivity |]]].
    2:{ destruct Hg as [_ [_ Ug]]. intros HU. apply Ug in HU. unfold SessUniq in *.
        cbn [hs with_hs sess_insert sessions set_sessions].
        pose proof (to_back_NoDup na (touch se (cfg_clock c)) _ HU) as HN.
        destruct (Nat.ltb _ _); [| exact HN]. rewrite map_tl'. apply NoDup_tl. exact HN. }
    intros na' se' H. cbn [hs with_hs sess_insert sessions set_sessions] in H.
    assert (H' : In (na', se') (alist_remove na (sessions h1) ++ [(na, touch se (cfg_clock c))])).
    { destruct (Nat.ltb _ _); [apply tl_In |]; exact H. }
    apply in_app_or in H'. destruct H' as [H' | [H' | []]].
    + apply In_alist_remove in H'. left. destruct Hg as [_ [Dg _]]. destruct (Dg _ _ H') as [se0 [H1 [H2 H3]]].
      exists se0. split; [exact H1 | split; [exact H3 |]]. intros k Hk. left. apply H2. exact Hk.
    + inversion H'; subst na' se'. right. split; [reflexivity | apply touch_desc].
Qed.

(* ------------------------------------------------------------------------------------------ *)
(* handle_response *)

Lemma handle_response_frame c s na rid rb now :
  let s' := handle_response c s na rid rb now in
  challenges (hs s') = challenges (hs s) /\ sessions (hs s') = sessions (hs s) /\
  OutsExt (eq (OEvent (HResponse na rid rb))) s s'.
Proof.
  cbn zeta. unfold handle_response.
  pose proof (QH_ar_remove_request (hs s) na rid) as [Hc _].
  assert (Hs : sessions (fst (ar_remove_request (hs s) na rid)) = sessions (hs s)).
  { unfold ar_remove_request. destruct (alist_get na (active (hs s))); [| reflexivity].
    destruct (remove_first _ l) as [[r l'] |]; reflexivity. }
  destruct (ar_remove_request (hs s) na rid) as [h1 found]. cbn [fst] in Hc, Hs.
  destruct found as [r |]; [| split; [reflexivity | split; [reflexivity | apply OutsExt_refl]]].
  assert (Hfin : forall x : st, challenges (hs x) = challenges (hs s) -> sessions (hs x) = sessions (hs s) ->
            outs x = outs s ->
            let s' := emit x (OEvent (HResponse na rid rb)) in
            challenges (hs s') = challenges (hs s) /\ sessions (hs s') = sessions (hs s) /\
            OutsExt (eq (OEvent (HResponse na rid rb))) s s').
  { intros x H1 H2 H3. cbn zeta. split; [exact H1 | split; [exact H2 |]].
    exists [OEvent (HResponse na rid rb)]. cbn [emit outs]. rewrite H3. split; [reflexivity | auto]. }
  destruct rb as [total recs | tag].
  - destruct (N.ltb 1 total).
    + destruct (rc_remaining r) as [rem |].
      * destruct (negb (N.eqb (rem - 1) 0)); apply Hfin; cbn; auto.
      * apply Hfin; cbn; auto.
    + apply Hfin; cbn; auto.
  - apply Hfin; cbn; auto.
Qed.

(* ------------------------------------------------------------------------------------------ *)
(* handle_message *)

(* the datagram body [ct] decrypts to [m] under a decryption key (current or previous) of the session
   stored under exactly [na], with the datagram's own nonce and authenticated data *)
Definition Delivered (h : hstate) (na : naddr) (n : nonce) (aad : N) (ct : ctext) (m : msg) : Prop :=
  exists se k, alist_get na (sessions h) = Some se /\
    (k = s_dec se \/ exists oe, s_old se = Some (oe, k)) /\ ct = CEnc k n m aad.

Lemma decrypt_message_Some se n aad ct se' m :
  decrypt_message se n aad ct = (se', Some m) ->
  exists k, (k = s_dec se \/ exists oe, s_old se = Some (oe, k)) /\ ct = CEnc k n m aad.
Proof.
  unfold decrypt_message. destruct (decrypt (s_dec se) n aad ct) as [m0 |] eqn:E1.
  - intros H. assert (m0 = m) by congruence. subst m0. clear H. exists (s_dec se). split; [left; reflexivity | apply decrypt_Some; exact E1].
  - destruct (s_old se) as [[oe od] |]; [| discriminate].
    destruct (decrypt od n aad ct) as [m0 |] eqn:E2; [| discriminate].
    intros H; inversion H; subst. exists od. split; [right; exists oe; reflexivity | apply decrypt_Some; exact E2].
Qed.

(* what handle_message may emit *)
Definition msg_out_ok (h : hstate) (na : naddr) (n : nonce) (aad : N) (ct : ctext) (o : output) : Prop :=
  match o with
  | OWire _ _ => False
  | OEvent (HWhoAreYou na' n') => na' = na /\ n' = n
  | OEvent (HRequestFailed _ _) => True
  | OEvent (HExpiredSessions _) => True
  | OEvent (HRequest na' rid body) => na' = na /\ Delivered h na n aad ct (MReq rid body)
  | OEvent (HResponse na' rid rb) => na' = na /\ Delivered h na n aad ct (MResp rid rb)
  | OEvent (HEstablished e a inc) =>
      a = snd na /\ inc = false /\ verify_enr e na = true /\
      exists rid rb, Delivered h na n aad ct (MResp rid rb)
  | OEvent (HUnverifiable e a nid) =>
      a = snd na /\ nid = fst na /\ exists rid rb, Delivered h na n aad ct (MResp rid rb)
  end.

Lemma failed_msg_ok h na n aad ct o : failed_out o -> msg_out_ok h na n aad ct o.
Proof. destruct o as [[]|]; cbn; tauto. Qed.

Definition MF (na : naddr) (n : nonce) (aad : N) (ct : ctext) (s s' : st) : Prop :=
  QH (hs s) (hs s') /\ OutsExt (msg_out_ok (hs s) na n aad ct) s s'.

Lemma QuietF_MF na n aad ct h0 s s' :
  QuietF s s' -> QH (hs s) (hs s') /\ OutsExt (msg_out_ok h0 na n aad ct) s s'.
Proof.
  intros [H O]. split; [exact H |]. eapply OutsExt_weaken; [| exact O]. apply failed_msg_ok.
Qed.

Lemma handle_message_frame c s na n aad ct now : MF na n aad ct s (handle_message c s na n aad ct now).
Proof.
  unfold MF, handle_message.
  pose proof (QH_sess_get c (hs s) na) as Hg. pose proof (sess_get_got c (hs s) na) as Hgot.
  pose proof (sess_get_stored c (hs s) na) as Hst.
  destruct (sess_get c (hs s) na) as [h1 se]. cbn [fst snd] in Hg, Hgot, Hst.
  destruct se as [se |].
  2:{ split; [exact Hg |]. exists [OEvent (HWhoAreYou na n)]. split; [reflexivity |].
      constructor; [cbn; auto | constructor]. }
  pose proof (decrypt_message_desc se n aad ct) as Hd.
  pose proof (decrypt_message_Some se n aad ct) as Hm.
  destruct (decrypt_message se n aad ct) as [se' m]. cbn [fst] in Hd.
  set (s2 := with_hs (with_hs s h1) (sess_put (hs (with_hs s h1)) na se')).
  assert (H2 : QH (hs s) (hs s2)).
  { eapply QH_trans; [exact Hg |]. cbn [s2 hs with_hs]. eapply QH_sess_put; [apply Hgot; reflexivity | exact Hd]. }
  assert (O2 : outs s2 = outs s) by reflexivity.
  assert (Hin2 : In (na, se') (sessions (hs s2))).
  { cbn [s2 hs with_hs sess_put sessions set_sessions]. apply alist_set_has. }
  assert (Hdel : forall m0, m = Some m0 -> Delivered (hs s) na n aad ct m0).
  { intros m0 ->. destruct (Hm se' m0 eq_refl) as [k [Hk Hc]].
    destruct (Hst _ eq_refl) as [s00 [Eg [_ Et]]]. rewrite Et in Hk. exists s00, k. auto. }
  (* combine: s -> s2 (nothing emitted) -> s' *)
  assert (Hcomb : forall s', QH (hs s2) (hs s') -> OutsExt (msg_out_ok (hs s) na n aad ct) s2 s' ->
            QH (hs s) (hs s') /\ OutsExt (msg_out_ok (hs s) na n aad ct) s s').
  { intros s' Hq Ho. split; [eapply QH_trans; eauto |].
    destruct Ho as [l [E F]]. exists l. rewrite E, O2. auto. }
  destruct m as [[rid body | rid rb | j] |].
  - (* request *)
    apply Hcomb; [apply QH_refl |]. apply OutsExt_emit. cbn. split; [reflexivity | apply Hdel; reflexivity].
  - (* response *)
    assert (Hresp : QH (hs s) (hs (handle_response c s2 na rid rb now)) /\
              OutsExt (msg_out_ok (hs s) na n aad ct) s (handle_response c s2 na rid rb now)).
    { destruct (handle_response_frame c s2 na rid rb now) as [E1 [E2 O]].
      apply Hcomb; [apply QH_same; assumption |].
      eapply OutsExt_weaken; [| exact O]. intros o <-. cbn. split; [reflexivity | apply Hdel; reflexivity]. }
    destruct (s_await se') as [arid |]; [| exact Hresp].
    destruct (N.eqb rid arid); [| exact Hresp].
    set (se'' := {| s_enc := s_enc se'; s_dec := s_dec se'; s_old := s_old se'; s_await := None;
                    s_counter := s_counter se'; s_used := s_used se' |}).
    set (s3a := with_hs s2 (sess_put (hs s2) na se'')).
    assert (H3a : QuietF s2 s3a).
    { apply QuietF_with_hs. eapply QH_sess_put; [exact Hin2 |]. split; [apply incl_refl | cbn; lia]. }
    set (s3 := if fix_d2b c then _ else s3a).
    assert (H3 : QuietF s2 s3).
    { unfold s3. destruct (fix_d2b c); [| exact H3a].
      pose proof (QH_ar_remove_request (hs s3a) na rid) as Hr.
      destruct (ar_remove_request (hs s3a) na rid) as [h4 found]. cbn [fst] in Hr.
      destruct found; [| exact H3a].
      eapply QuietF_trans; [exact H3a |]. eapply QuietF_trans; [apply QuietF_with_hs; exact Hr |].
      unfold remove_expected. apply QuietF_with_hs. apply QH_same; reflexivity. }
    assert (Hfail : forall x err, QuietF s2 x ->
              QH (hs s) (hs (fail_session c x na err true)) /\
              OutsExt (msg_out_ok (hs s) na n aad ct) s (fail_session c x na err true)).
    { intros x err Hx.
      assert (Hq : QuietF s2 (fail_session c x na err true))
        by (eapply QuietF_trans; [exact Hx | apply QuietF_fail_session]).
      destruct (QuietF_MF na n aad ct (hs s) _ _ Hq) as [Hq1 Hq2]. apply Hcomb; assumption. }
    destruct rb as [total recs | tag]; [| apply Hfail; exact H3].
    destruct (rev recs) as [| e recs']; [apply Hfail; exact H3 |].
    destruct (verify_enr e na) eqn:Ev.
    + destruct H3 as [H3h [l [El Fl]]]. apply Hcomb; [exact H3h |].
      exists (l ++ [OEvent (HEstablished e (snd na) false)]). cbn [emit outs]. rewrite El, app_assoc.
      split; [reflexivity |]. apply Forall_app. split.
      * eapply Forall_impl; [| exact Fl]. apply failed_msg_ok.
      * constructor; [| constructor]. cbn. split; [reflexivity | split; [reflexivity | split; [exact Ev |]]].
        exists rid, (RNodes total recs). apply Hdel. reflexivity.
    + set (o := OEvent (HUnverifiable e (snd na) (fst na))).
      assert (Ho : msg_out_ok (hs s) na n aad ct o).
      { cbn. split; [reflexivity | split; [reflexivity |]]. exists rid, (RNodes total recs). apply Hdel. reflexivity. }
      pose proof (QuietF_fail_session c (emit s3 o) na ERR_INVALID_REMOTE_ENR true) as [Hf1 Hf2].
      destruct H3 as [H3h [l [El Fl]]]. apply Hcomb.
      * eapply QH_trans; [exact H3h | exact Hf1].
      * destruct Hf2 as [l2 [El2 Fl2]]. exists (l ++ [o] ++ l2). rewrite El2. cbn [emit outs]. rewrite El.
        rewrite <- !app_assoc. split; [reflexivity |]. apply Forall_app. split.
        -- eapply Forall_impl; [| exact Fl]. apply failed_msg_ok.
        -- apply Forall_app. split; [constructor; [exact Ho | constructor] |].
           eapply Forall_impl; [| exact Fl2]. apply failed_msg_ok.
  - (* undecodable plaintext *)
    apply Hcomb; [apply QH_refl | apply OutsExt_refl].
  - (* decryption failed *)
    pose proof (QuietF_fail_session c s2 na ERR_INVALID_REMOTE_PACKET true) as Hq.
    destruct (has_challenge (hs (fail_session c s2 na ERR_INVALID_REMOTE_PACKET true)) na).
    + destruct (QuietF_MF na n aad ct (hs s) _ _ Hq) as [Hq1 Hq2]. apply Hcomb; assumption.
    + destruct Hq as [Hq1 [l [El Fl]]]. apply Hcomb; [exact Hq1 |].
      exists (l ++ [OEvent (HWhoAreYou na n)]). cbn [emit outs]. rewrite El, app_assoc.
      split; [reflexivity |]. apply Forall_app. split.
      * eapply Forall_impl; [| exact Fl]. apply failed_msg_ok.
      * constructor; [cbn; auto | constructor].
Qed.
