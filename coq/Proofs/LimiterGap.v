(* Gap-closing proofs for C18: the window bound stated about the FILTER (Filter::initial_pass /
   final_pass / handle_inbound as driven by arbitrary histories [frun]), for the three quotas:
   per source IP, per node id and in total.  Proofs/Limiter.v proves the bound for one Limiter
   ([window_bound]); here every filter history is shown to drive each of its limiters through a
   limiter history in which every datagram the filter lets through was accepted by that limiter. *)
From Coq Require Import List NArith Bool Lia.
From Discv5V Require Import Generated.Params Model.Limiter Proofs.Limiter.
Import ListNotations.
Local Open Scope N_scope.

(* ---------------------------------------------------------------------------------------------- *)
(* limiter histories: append *)

Lemma lrun_app H1 : forall l H2,
  lrun l (H1 ++ H2) =
  (fst (lrun (fst (lrun l H1)) H2), snd (lrun l H1) ++ snd (lrun (fst (lrun l H1)) H2)).
Proof.
  induction H1 as [|e H1 IH]; intros l H2; cbn [app lrun fst snd].
  - destruct (lrun l H2); reflexivity.
  - destruct (lstep l e) as [l1 v]. rewrite IH. destruct (lrun l1 H1) as [l2 vs]. cbn [fst snd].
    destruct (lrun l2 H2); reflexivity.
Qed.

Lemma lrun_length H : forall l, length (snd (lrun l H)) = length H.
Proof.
  induction H as [|e H IH]; intro l; cbn [lrun]; [reflexivity|].
  destruct (lstep l e) as [l1 v]. specialize (IH l1). destruct (lrun l1 H). cbn [snd length] in *. congruence.
Qed.

Lemma accepted_tokens_app key H1 : forall vs1 H2 vs2, length vs1 = length H1 ->
  accepted_tokens key (H1 ++ H2) (vs1 ++ vs2) = accepted_tokens key H1 vs1 + accepted_tokens key H2 vs2.
Proof.
  induction H1 as [|e H1 IH]; intros vs1 H2 vs2 L; destruct vs1 as [|v vs1]; try discriminate.
  - reflexivity.
  - cbn [app]. cbn [length] in L. injection L as L. specialize (IH vs1 H2 vs2 L).
    destruct e as [el k n|el]; destruct v as [v|]; cbn [accepted_tokens]; rewrite IH; lia.
Qed.

Definition acc (key : N) (l : limiter) (H : list levent) : N := accepted_tokens key H (snd (lrun l H)).

Lemma acc_app key l H1 H2 : acc key l (H1 ++ H2) = acc key l H1 + acc key (fst (lrun l H1)) H2.
Proof. unfold acc. rewrite lrun_app. cbn [snd]. apply accepted_tokens_app. apply lrun_length. Qed.

Lemma acc_nil key l : acc key l [] = 0.
Proof. reflexivity. Qed.

(* ---------------------------------------------------------------------------------------------- *)
(* the three limiters of the RateLimiter *)

Inductive which := WIp | WNode | WTotal.

Definition rl_get (w : which) (r : rate_limiter) : option limiter :=
  match w with WIp => ip_rl r | WNode => node_rl r | WTotal => Some (total_rl r) end.

Definition targets (w : which) (k : limit_kind) : bool :=
  match w, k with
  | WIp, KIp _ => true | WNode, KNode _ => true | WTotal, KTotal => true
  | _, _ => false
  end.

Definition key_of (k : limit_kind) : N :=
  match k with KTotal => 0 | KNode id => id | KIp ip => ip end.

(* [hist_ok w r l now r' H]: the calls made at time [now] take limiter [w] of [r] (= [l]) to that
   of [r'] through the limiter history [H] *)
Definition hist_ok (w : which) (r : rate_limiter) (l : limiter) (now : N) (r' : rate_limiter)
  (H : list levent) : Prop :=
  init_time r' = init_time r /\ rl_get w r' = Some (fst (lrun l H)) /\
  Forall (fun e => levent_time e = now - init_time r) H.

Lemma hist_nil w r l now : rl_get w r = Some l -> hist_ok w r l now r [].
Proof. intro E. split; [reflexivity|]. split; [exact E|constructor]. Qed.

Lemma hist_trans w r l now r1 H1 r2 H2 :
  hist_ok w r l now r1 H1 -> hist_ok w r1 (fst (lrun l H1)) now r2 H2 -> hist_ok w r l now r2 (H1 ++ H2).
Proof.
  intros (A1 & B1 & C1) (A2 & B2 & C2). split; [congruence|]. split.
  - rewrite lrun_app. cbn [fst]. exact B2.
  - apply Forall_app. split; [exact C1|]. rewrite A1 in C2. exact C2.
Qed.

(* one call of RateLimiter::allows *)
Lemma rl_allows_hist w r now k l :
  rl_get w r = Some l ->
  exists H, hist_ok w r l now (fst (rl_allows r now k)) H /\
    (targets w k = true -> verdict_ok (snd (rl_allows r now k)) = true -> acc (key_of k) l H = 1).
Proof.
  intro E.
  assert (One : forall key, targets w k = true ->
            forall r', init_time r' = init_time r ->
            rl_get w r' = Some (fst (allows l (now - init_time r) key 1)) ->
            hist_ok w r l now r' [LAllows (now - init_time r) key 1]).
  { intros key _ r' I G. split; [exact I|]. split.
    - cbn [lrun lstep]. destruct (allows l (now - init_time r) key 1). exact G.
    - constructor; [reflexivity|constructor]. }
  assert (A1 : forall key v, snd (allows l (now - init_time r) key 1) = v -> verdict_ok v = true ->
            acc key l [LAllows (now - init_time r) key 1] = 1).
  { intros key v Ev Hv. unfold acc. cbn [lrun lstep]. destruct (allows l (now - init_time r) key 1) as [l1 v1].
    cbn [snd] in *. subst v1. cbn [accepted_tokens]. rewrite N.eqb_refl, Hv. reflexivity. }
  destruct w, k; cbn [targets key_of rl_get] in *; unfold rl_allows.
  - (* WIp, KTotal *) exists []. destruct (allows (total_rl r) _ 0 1). cbn [fst snd]. split; [|discriminate].
    split; [reflexivity|]. split; [exact E|constructor].
  - exists []. destruct (node_rl r) as [ln|].
    + destruct (allows ln _ id 1). cbn [fst snd]. split; [|discriminate].
      split; [reflexivity|]. split; [exact E|constructor].
    + split; [|discriminate]. apply hist_nil. exact E.
  - rewrite E. exists [LAllows (now - init_time r) ip 1].
    destruct (allows l (now - init_time r) ip 1) as [l1 v1] eqn:Ea. cbn [fst snd]. split.
    + apply (One ip eq_refl); [reflexivity|]. cbn [rl_get ip_rl]. rewrite Ea. reflexivity.
    + intros _ Hv. apply (A1 ip v1); [rewrite Ea; reflexivity|exact Hv].
  - (* WNode, KTotal *) exists []. destruct (allows (total_rl r) _ 0 1). cbn [fst snd]. split; [|discriminate].
    split; [reflexivity|]. split; [exact E|constructor].
  - rewrite E. exists [LAllows (now - init_time r) id 1].
    destruct (allows l (now - init_time r) id 1) as [l1 v1] eqn:Ea. cbn [fst snd]. split.
    + apply (One id eq_refl); [reflexivity|]. cbn [rl_get node_rl]. rewrite Ea. reflexivity.
    + intros _ Hv. apply (A1 id v1); [rewrite Ea; reflexivity|exact Hv].
  - exists []. destruct (ip_rl r) as [li|].
    + destruct (allows li _ ip 1). cbn [fst snd]. split; [|discriminate].
      split; [reflexivity|]. split; [exact E|constructor].
    + split; [|discriminate]. apply hist_nil. exact E.
  - (* WTotal, KTotal *) injection E as E. subst l. exists [LAllows (now - init_time r) 0 1].
    destruct (allows (total_rl r) (now - init_time r) 0 1) as [l1 v1] eqn:Ea. cbn [fst snd]. split.
    + apply (One 0 eq_refl); [reflexivity|]. cbn [rl_get total_rl]. rewrite Ea. reflexivity.
    + intros _ Hv. apply (A1 0 v1); [rewrite Ea; reflexivity|exact Hv].
  - exists []. destruct (node_rl r) as [ln|].
    + destruct (allows ln _ id 1). cbn [fst snd]. split; [|discriminate].
      split; [reflexivity|]. split; [exact E|constructor].
    + split; [|discriminate]. apply hist_nil. exact E.
  - exists []. destruct (ip_rl r) as [li|].
    + destruct (allows li _ ip 1). cbn [fst snd]. split; [|discriminate].
      split; [reflexivity|]. split; [exact E|constructor].
    + split; [|discriminate]. apply hist_nil. exact E.
Qed.

(* RateLimiter::prune *)
Lemma rl_prune_hist w r now l :
  rl_get w r = Some l -> hist_ok w r l now (rl_prune r now) [LPrune (now - init_time r)].
Proof.
  intro E. split; [reflexivity|]. split; [|constructor; [reflexivity|constructor]].
  cbn [lrun lstep fst]. destruct w; cbn [rl_get rl_prune ip_rl node_rl total_rl] in *.
  - rewrite E. reflexivity.
  - rewrite E. reflexivity.
  - injection E as <-. reflexivity.
Qed.

(* ---------------------------------------------------------------------------------------------- *)
(* which limiter calls the two passes make, and what a "true" means *)

Lemma initial_pass_rate f p ip now r :
  enabled f = true -> rate f = Some r ->
  let '(f', p', ok) := initial_pass f p ip now in
  let r1 := fst (rl_allows r now (KIp ip)) in
  let v1 := snd (rl_allows r now (KIp ip)) in
  let r2 := fst (rl_allows r1 now KTotal) in
  let v2 := snd (rl_allows r1 now KTotal) in
  (rate f' = Some r /\ (ok = true -> mem ip (permit_ips p) = true)) \/
  (mem ip (permit_ips p) = false /\ rate f' = Some r1 /\ ok = false) \/
  (mem ip (permit_ips p) = false /\ rate f' = Some r2 /\ verdict_ok v1 = true /\ ok = verdict_ok v2).
Proof.
  intros En Rt. unfold initial_pass. destruct (mem ip (permit_ips p)) eqn:M; [left; auto|].
  destruct (has_key ip (ban_ips p)); [left; split; [exact Rt|discriminate]|].
  rewrite En, Rt. cbn [negb].
  destruct (rl_allows r now (KIp ip)) as [r1 v1]. cbn [fst snd].
  destruct (verdict_ok v1) eqn:V; cbn [negb].
  - destruct (rl_allows r1 now KTotal) as [r2 v2]. cbn [fst snd]. right. right. auto.
  - right. left. auto.
Qed.

Lemma final_pass_rate f p ip id now r :
  enabled f = true -> rate f = Some r ->
  let '(f', p', ok) := final_pass f p ip id now in
  let r1 := fst (rl_allows r now (KNode id)) in
  let v1 := snd (rl_allows r now (KNode id)) in
  (rate f' = Some r /\ (ok = true -> mem id (permit_nodes p) = true)) \/
  (mem id (permit_nodes p) = false /\ rate f' = Some r1 /\ (ok = true -> verdict_ok v1 = true)).
Proof.
  intros En Rt. unfold final_pass. destruct (mem id (permit_nodes p)) eqn:M; [left; auto|].
  destruct (has_key id (ban_nodes p)); [left; split; [exact Rt|discriminate]|].
  rewrite En, Rt. cbn [negb].
  destruct (rl_allows r now (KNode id)) as [r1 v1]. cbn [fst snd].
  destruct (verdict_ok v1) eqn:V.
  - cbn [max_nodes_per_ip with_rate]. destruct (max_nodes_per_ip f) as [m|].
    + destruct (note_known _ ip id) as [k' n]. destruct (m <=? n); right; cbn; auto.
    + right. cbn. auto.
  - destruct (max_bans_per_ip f) as [m|].
    + destruct (lru_get ip (banned_nodes f)) as [cnt|].
      * destruct (m <=? cnt + 1); right; cbn; repeat split; auto; discriminate.
      * right; cbn; repeat split; auto; discriminate.
    + right; cbn; repeat split; auto; discriminate.
Qed.

(* ---------------------------------------------------------------------------------------------- *)
(* what is counted *)

Definition not_ip_drop (x : fate) : bool := match x with DropIpStage => false | _ => true end.

(* an unsolicited datagram of a source IP in [P] got through the IP stage *)
Definition ip_stage_pass (P : N -> bool) (e : fevent) (o : fobs) : N :=
  match e, o with
  | FInitial ip, OBool true => if P ip then 1 else 0
  | FInbound false ip _, OFate x => if P ip && not_ip_drop x then 1 else 0
  | _, _ => 0
  end.

(* an unsolicited datagram of node id [y] got through the node stage *)
Definition node_stage_pass (y : N) (e : fevent) (o : fobs) : N :=
  match e, o with
  | FFinal _ id, OBool true => if id =? y then 1 else 0
  | FInbound false _ (Some (Some id)), OFate Deliver => if id =? y then 1 else 0
  | _, _ => 0
  end.

Fixpoint count_obs (c : fevent -> fobs -> N) (evs : list (fevent * N)) (os : list fobs) : N :=
  match evs, os with
  | (e, _) :: evs', o :: os' => c e o + count_obs c evs' os'
  | _, _ => 0
  end.

(* arrival times do not go back *)
Fixpoint mono_ev (cur : N) (evs : list (fevent * N)) : Prop :=
  match evs with
  | [] => True
  | (_, now) :: r => cur <= now /\ mono_ev now r
  end.

(* ---------------------------------------------------------------------------------------------- *)
(* the generic run lemma *)

Section Run.
  Variable w : which.
  Variable key : N.
  Variable cnt : fevent -> fobs -> N.
  Variable ok_p : pbl -> Prop.
  Variable ok_e : fevent -> Prop.
  Hypothesis step_claim : forall f p e now r l,
    enabled f = true -> rate f = Some r -> rl_get w r = Some l -> ok_p p -> ok_e e ->
    let '(f', p', o) := fstep f p e now in
    enabled f' = true /\ ok_p p' /\
    exists r' H, rate f' = Some r' /\ hist_ok w r l now r' H /\ cnt e o <= acc key l H.

  Lemma frun_hist : forall evs f p r l cur B,
    enabled f = true -> rate f = Some r -> rl_get w r = Some l -> ok_p p ->
    Forall (fun x => ok_e (fst x)) evs -> mono_ev cur evs -> Forall (fun x => snd x <= B) evs ->
    exists H, mono_from (cur - init_time r) H /\ all_before (B - init_time r) H /\
              count_obs cnt evs (snd (frun f p evs)) <= acc key l H.
  Proof.
    induction evs as [|[e now] evs IH]; intros f p r l cur B En Rt G Op Oe M Bf.
    - exists []. cbn. split; [exact I|]. split; [constructor|lia].
    - inversion Oe as [|x y Oe1 Oer]; subst. inversion Bf as [|x y Bf1 Bfr]; subst.
      destruct M as [M1 Mr]. cbn [fst snd] in *. cbn [frun].
      pose proof (step_claim f p e now r l En Rt G Op Oe1) as S.
      destruct (fstep f p e now) as [[f1 p1] o].
      destruct S as (En1 & Op1 & r1 & H1 & Rt1 & (I1 & G1 & T1) & C1).
      destruct (IH f1 p1 r1 (fst (lrun l H1)) now B En1 Rt1 G1 Op1 Oer Mr Bfr) as (H2 & M2 & B2 & C2).
      destruct (frun f1 p1 evs) as [[f2 p2] os]. cbn [snd count_obs] in *.
      exists (H1 ++ H2). rewrite I1 in M2, B2. split; [|split].
      + clear - T1 M2 M1. induction H1 as [|h H1 IHh]; cbn [app].
        * eapply mono_from_weaken; [|exact M2]. lia.
        * inversion T1 as [|a b Ta Tb]; subst. cbn [mono_from]. rewrite Ta. split; [lia|].
          destruct H1 as [|h' H1'].
          -- exact M2.
          -- specialize (IHh Tb). cbn [app mono_from] in *. inversion Tb as [|a b Ta' Tb']; subst.
             rewrite Ta'. split; [lia|]. rewrite Ta' in IHh. exact (proj2 IHh).
      + unfold all_before in *. apply Forall_app. split; [|exact B2].
        eapply Forall_impl; [|exact T1]. intros a Ha. cbn beta in Ha. rewrite Ha. lia.
      + rewrite acc_app. lia.
  Qed.
End Run.

(* ---------------------------------------------------------------------------------------------- *)
(* the step claims *)

Lemma with_rate_enabled f r : enabled (with_rate f r) = enabled f. Proof. reflexivity. Qed.

Definition no_permit_ip (P : N -> bool) (e : fevent) : Prop :=
  match e with FPermitIp ip true => P ip = false | _ => True end.
Definition ips_unpermitted (P : N -> bool) (p : pbl) : Prop :=
  forall ip, P ip = true -> mem ip (permit_ips p) = false.

Definition no_permit_node (y : N) (e : fevent) : Prop :=
  match e with FPermitNode id true => id <> y | _ => True end.

(* handle_inbound, generic part: the rate limiter after the datagram, as limiter histories *)
Lemma handle_inbound_hist w f p ip d now r l :
  enabled f = true -> rate f = Some r -> rl_get w r = Some l ->
  let '(f', p', x) := handle_inbound f p false ip d now in
  exists r' H, rate f' = Some r' /\ hist_ok w r l now r' H /\
    (mem ip (permit_ips p) = false -> not_ip_drop x = true ->
       match w with WIp => 1 <= acc ip l H | WTotal => 1 <= acc 0 l H | WNode => True end) /\
    (forall id, d = Some (Some id) -> mem id (permit_nodes p) = false -> x = Deliver ->
       match w with WNode => 1 <= acc id l H | _ => True end).
Proof.
  intros En Rt G. unfold handle_inbound.
  pose proof (initial_pass_rate f p ip now r En Rt) as S1.
  pose proof (initial_pass_shape f p ip now) as Sh1.
  destruct (initial_pass f p ip now) as [[f1 p1] ok1]. cbv zeta in S1.
  destruct Sh1 as (_ & En1 & Pi1 & Pn1 & _ & _). rewrite En in En1.
  (* the history of the IP stage *)
  assert (S : exists r1 H1, rate f1 = Some r1 /\ hist_ok w r l now r1 H1 /\
             (mem ip (permit_ips p) = false -> ok1 = true ->
                match w with WIp => 1 <= acc ip l H1 | WTotal => 1 <= acc 0 l H1 | WNode => True end)).
  { destruct S1 as [(R1 & K1)|[(Mp & R1 & K1)|(Mp & R1 & V1 & K1)]].
    - exists r, []. split; [exact R1|]. split; [apply hist_nil; exact G|].
      intros Mp Ok. rewrite (K1 Ok) in Mp. discriminate.
    - destruct (rl_allows_hist w r now (KIp ip) l G) as (H1 & Hh & _).
      exists (fst (rl_allows r now (KIp ip))), H1. split; [exact R1|]. split; [exact Hh|].
      intros _ Ok. congruence.
    - destruct (rl_allows_hist w r now (KIp ip) l G) as (H1 & Hh & A1).
      destruct Hh as (I1 & G1 & T1).
      destruct (rl_allows_hist w (fst (rl_allows r now (KIp ip))) now KTotal (fst (lrun l H1)) G1) as (H2 & Hh2 & A2).
      exists (fst (rl_allows (fst (rl_allows r now (KIp ip))) now KTotal)), (H1 ++ H2).
      split; [exact R1|]. split; [eapply hist_trans; [split; [exact I1|split; eassumption]|exact Hh2]|].
      intros _ Ok. destruct w; cbn [targets key_of] in *.
      + rewrite acc_app, (A1 eq_refl V1). lia.
      + exact Logic.I.
      + rewrite acc_app, (A2 eq_refl ltac:(congruence)). lia. }
  destruct S as (r1 & H1 & R1 & Hh1 & C1).
  destruct ok1; cbn [negb].
  - destruct d as [[id|]|].
    + (* the node stage *)
      pose proof (final_pass_rate f1 p1 ip id now r1 En1 R1) as S2.
      destruct (final_pass f1 p1 ip id now) as [[f2 p2] ok2]. cbv zeta in S2.
      destruct Hh1 as (I1 & G1 & T1).
      destruct S2 as [(R2 & K2)|(Mp & R2 & K2)].
      * exists r1, H1. split; [exact R2|]. split; [split; [exact I1|split; assumption]|]. split.
        -- intros Mp _. apply C1; auto.
        -- intros id' E Mp Dl. injection E as <-. destruct ok2; [|discriminate].
           rewrite <- Pn1, (K2 eq_refl) in Mp. discriminate.
      * destruct (rl_allows_hist w r1 now (KNode id) (fst (lrun l H1)) G1) as (H2 & Hh2 & A2).
        exists (fst (rl_allows r1 now (KNode id))), (H1 ++ H2). split; [exact R2|].
        split; [eapply hist_trans; [split; [exact I1|split; eassumption]|exact Hh2]|].
        split.
        -- intros Mq _. specialize (C1 Mq eq_refl). destruct w; try exact Logic.I; rewrite acc_app; lia.
        -- intros id' E Mq Dl. injection E as <-. destruct ok2; [|discriminate].
           destruct w; try exact Logic.I. cbn [targets key_of] in A2.
           rewrite acc_app, (A2 eq_refl (K2 eq_refl)). lia.
    + exists r1, H1. split; [exact R1|]. split; [exact Hh1|]. split; [intros; apply C1; auto|discriminate].
    + exists r1, H1. split; [exact R1|]. split; [exact Hh1|]. split; [intros; apply C1; auto|discriminate].
  - exists r1, H1. split; [exact R1|]. split; [exact Hh1|]. split; [discriminate|discriminate].
Qed.

(* the three step claims share everything but the counted quantity *)
Lemma fstep_enabled f p e now : enabled (fst (fst (fstep f p e now))) = enabled f.
Proof.
  destruct e; cbn [fstep].
  - pose proof (initial_pass_shape f p ip now) as S. destruct (initial_pass f p ip now) as [[f1 p1] b]. cbn. tauto.
  - pose proof (final_pass_shape f p ip id now) as S. destruct (final_pass f p ip id now) as [[f1 p1] b]. cbn. tauto.
  - pose proof (handle_inbound_shape f p exempt ip decoded now) as S.
    destruct (handle_inbound f p exempt ip decoded now) as [[f1 p1] b]. cbn. tauto.
  - reflexivity.
  - reflexivity.
  - reflexivity.
  - reflexivity.
  - destruct add; reflexivity.
  - destruct add; reflexivity.
Qed.

Lemma fstep_permit_ips f p e now :
  permit_ips (snd (fst (fstep f p e now))) =
  match e with FPermitIp ip add => add_or_remove add ip (permit_ips p) | _ => permit_ips p end.
Proof.
  destruct e; cbn [fstep].
  - pose proof (initial_pass_shape f p ip now) as S. destruct (initial_pass f p ip now) as [[f1 p1] b]. cbn. tauto.
  - pose proof (final_pass_shape f p ip id now) as S. destruct (final_pass f p ip id now) as [[f1 p1] b]. cbn. tauto.
  - pose proof (handle_inbound_shape f p exempt ip decoded now) as S.
    destruct (handle_inbound f p exempt ip decoded now) as [[f1 p1] b]. cbn. tauto.
  - reflexivity.
  - reflexivity.
  - reflexivity.
  - reflexivity.
  - destruct add; reflexivity.
  - destruct add; reflexivity.
Qed.

Lemma fstep_permit_nodes f p e now :
  permit_nodes (snd (fst (fstep f p e now))) =
  match e with FPermitNode id add => add_or_remove add id (permit_nodes p) | _ => permit_nodes p end.
Proof.
  destruct e; cbn [fstep].
  - pose proof (initial_pass_shape f p ip now) as S. destruct (initial_pass f p ip now) as [[f1 p1] b]. cbn. tauto.
  - pose proof (final_pass_shape f p ip id now) as S. destruct (final_pass f p ip id now) as [[f1 p1] b]. cbn. tauto.
  - pose proof (handle_inbound_shape f p exempt ip decoded now) as S.
    destruct (handle_inbound f p exempt ip decoded now) as [[f1 p1] b]. cbn. tauto.
  - reflexivity.
  - reflexivity.
  - reflexivity.
  - reflexivity.
  - destruct add; reflexivity.
  - destruct add; reflexivity.
Qed.

(* the limiter histories of one filter event, with what each kind of "pass" implies *)
Lemma fstep_hist w f p e now r l :
  enabled f = true -> rate f = Some r -> rl_get w r = Some l ->
  let '(f', p', o) := fstep f p e now in
  exists r' H, rate f' = Some r' /\ hist_ok w r l now r' H /\
    (forall P, ips_unpermitted P p ->
       match w with
       | WIp => forall x, P x = true -> ip_stage_pass (N.eqb x) e o <= acc x l H
       | WTotal => ip_stage_pass P e o <= acc 0 l H
       | WNode => True
       end) /\
    (forall y, mem y (permit_nodes p) = false ->
       match w with WNode => node_stage_pass y e o <= acc y l H | _ => True end).
Proof.
  intros En Rt G. destruct e; cbn [fstep].
  - (* FInitial *)
    pose proof (initial_pass_rate f p ip now r En Rt) as S1.
    destruct (initial_pass f p ip now) as [[f1 p1] ok1]. cbv zeta in S1.
    destruct S1 as [(R1 & K1)|[(Mp & R1 & K1)|(Mp & R1 & V1 & K1)]].
    + exists r, []. split; [exact R1|]. split; [apply hist_nil; exact G|]. split.
      * intros P UP. destruct w; try exact Logic.I.
        -- intros x Px. cbn [ip_stage_pass]. destruct ok1; [|lia].
           destruct (N.eqb_spec x ip) as [->|NE]; [|lia]. rewrite (UP ip Px) in K1. discriminate (K1 eq_refl).
        -- cbn [ip_stage_pass]. destruct ok1; [|lia]. destruct (P ip) eqn:Pi; [|lia].
           rewrite (UP ip Pi) in K1. discriminate (K1 eq_refl).
      * intros y _. destruct w; try exact Logic.I. cbn. lia.
    + destruct (rl_allows_hist w r now (KIp ip) l G) as (H1 & Hh & _).
      exists (fst (rl_allows r now (KIp ip))), H1. split; [exact R1|]. split; [exact Hh|]. subst ok1. split.
      * intros P UP. destruct w; try exact Logic.I; cbn [ip_stage_pass]; intros; lia.
      * intros y _. destruct w; try exact Logic.I. cbn. lia.
    + destruct (rl_allows_hist w r now (KIp ip) l G) as (H1 & Hh & A1).
      destruct Hh as (I1 & G1 & T1).
      destruct (rl_allows_hist w (fst (rl_allows r now (KIp ip))) now KTotal (fst (lrun l H1)) G1) as (H2 & Hh2 & A2).
      exists (fst (rl_allows (fst (rl_allows r now (KIp ip))) now KTotal)), (H1 ++ H2).
      split; [exact R1|]. split; [eapply hist_trans; [split; [exact I1|split; eassumption]|exact Hh2]|].
      split.
      * intros P UP. destruct w; try exact Logic.I; cbn [targets key_of] in *.
        -- intros x Px. cbn [ip_stage_pass]. destruct ok1; [|lia].
           destruct (N.eqb_spec x ip) as [->|NE]; [|lia]. rewrite acc_app, (A1 eq_refl V1). lia.
        -- cbn [ip_stage_pass]. destruct ok1; [|lia]. destruct (P ip); [|lia].
           rewrite acc_app, (A2 eq_refl ltac:(congruence)). lia.
      * intros y _. destruct w; try exact Logic.I. cbn. lia.
  - (* FFinal *)
    pose proof (final_pass_rate f p ip id now r En Rt) as S2.
    destruct (final_pass f p ip id now) as [[f2 p2] ok2]. cbv zeta in S2.
    destruct S2 as [(R2 & K2)|(Mp & R2 & K2)].
    + exists r, []. split; [exact R2|]. split; [apply hist_nil; exact G|]. split.
      * intros P UP. destruct w; try exact Logic.I; cbn; intros; lia.
      * intros y My. destruct w; try exact Logic.I. cbn [node_stage_pass]. destruct ok2; [|lia].
        destruct (N.eqb_spec id y) as [->|NE]; [|lia]. rewrite (K2 eq_refl) in My. discriminate.
    + destruct (rl_allows_hist w r now (KNode id) l G) as (H2 & Hh2 & A2).
      exists (fst (rl_allows r now (KNode id))), H2. split; [exact R2|]. split; [exact Hh2|]. split.
      * intros P UP. destruct w; try exact Logic.I; cbn; intros; lia.
      * intros y My. destruct w; try exact Logic.I. cbn [node_stage_pass]. destruct ok2; [|lia].
        destruct (N.eqb_spec id y) as [->|NE]; [|lia]. cbn [targets key_of] in A2.
        rewrite (A2 eq_refl (K2 eq_refl)). lia.
  - (* FInbound *)
    destruct exempt.
    + (* solicited: both passes are bypassed, nothing is counted *)
      rewrite handle_inbound_exempt.
      exists r, []. split; [exact Rt|]. split; [apply hist_nil; exact G|]. split.
      * intros P UP. destruct w; try exact Logic.I; cbn; intros; lia.
      * intros y _. destruct w; try exact Logic.I. cbn. lia.
    + pose proof (handle_inbound_hist w f p ip decoded now r l En Rt G) as S.
      destruct (handle_inbound f p false ip decoded now) as [[f1 p1] x].
      destruct S as (r1 & H1 & R1 & Hh1 & C1 & C2).
      exists r1, H1. split; [exact R1|]. split; [exact Hh1|]. split.
      * intros P UP. destruct w; try exact Logic.I.
        -- intros y Py. cbn [ip_stage_pass]. destruct (N.eqb_spec y ip) as [->|NE]; cbn [andb]; [|lia].
           destruct (not_ip_drop x) eqn:D; [|lia]. apply C1; auto.
        -- cbn [ip_stage_pass]. destruct (P ip) eqn:Pi; cbn [andb]; [|lia].
           destruct (not_ip_drop x) eqn:D; [|lia]. apply C1; auto.
      * intros y My. destruct w; try exact Logic.I. cbn [node_stage_pass].
        destruct decoded as [[id|]|]; try lia. destruct x; try lia.
        destruct (N.eqb_spec id y) as [->|NE]; [|lia]. apply (C2 y); auto.
  - (* FPruneLimiter *)
    exists (rl_prune r now), [LPrune (now - init_time r)]. unfold prune_limiter. rewrite Rt. cbn [option_map rate with_rate].
    split; [reflexivity|]. split; [apply rl_prune_hist; exact G|]. split.
    + intros P UP. destruct w; try exact Logic.I; cbn; intros; lia.
    + intros y _. destruct w; try exact Logic.I. cbn. lia.
  - exists r, []. split; [exact Rt|]. split; [apply hist_nil; exact G|]. split.
    + intros P UP. destruct w; try exact Logic.I; cbn; intros; lia.
    + intros y _. destruct w; try exact Logic.I. cbn. lia.
  - exists r, []. split; [exact Rt|]. split; [apply hist_nil; exact G|]. split.
    + intros P UP. destruct w; try exact Logic.I; cbn; intros; lia.
    + intros y _. destruct w; try exact Logic.I. cbn. lia.
  - exists r, []. split; [exact Rt|]. split; [apply hist_nil; exact G|]. split.
    + intros P UP. destruct w; try exact Logic.I; cbn; intros; lia.
    + intros y _. destruct w; try exact Logic.I. cbn. lia.
  - exists r, []. split; [destruct add; exact Rt|]. split; [apply hist_nil; exact G|]. split.
    + intros P UP. destruct w; try exact Logic.I; destruct add; cbn; intros; lia.
    + intros y _. destruct w; try exact Logic.I. destruct add; cbn; lia.
  - exists r, []. split; [destruct add; exact Rt|]. split; [apply hist_nil; exact G|]. split.
    + intros P UP. destruct w; try exact Logic.I; destruct add; cbn; intros; lia.
    + intros y _. destruct w; try exact Logic.I. destruct add; cbn; lia.
Qed.

(* ---------------------------------------------------------------------------------------------- *)
(* the permit lists along a history *)

Lemma ips_unpermitted_step P f p e now :
  ips_unpermitted P p -> no_permit_ip P e -> ips_unpermitted P (snd (fst (fstep f p e now))).
Proof.
  intros U Ne ip Pi. rewrite fstep_permit_ips. destruct e; try (apply U; exact Pi).
  apply mem_add_or_remove; [apply U; exact Pi|]. intros -> ->. cbn in Ne. congruence.
Qed.

Lemma node_unpermitted_step y f p e now :
  mem y (permit_nodes p) = false -> no_permit_node y e ->
  mem y (permit_nodes (snd (fst (fstep f p e now)))) = false.
Proof.
  intros U Ne. rewrite fstep_permit_nodes. destruct e; try exact U.
  apply mem_add_or_remove; [exact U|]. intros ->. exact Ne.
Qed.

(* ---------------------------------------------------------------------------------------------- *)
(* the window bounds of the filter *)

Lemma window_shift l H A B init key :
  wfl l -> linv l (A - init) -> mono_from (A - init) H -> all_before (B - init) H ->
  init <= A -> A <= B -> (B - init) + tau l + tau l < U64 ->
  tt l * acc key l H <= tau l + (B - A).
Proof.
  intros W I M Bf IA AB Hov.
  pose proof (window_bound l H (A - init) (B - init) key W I M Bf ltac:(lia) Hov) as Hw.
  unfold acc. lia.
Qed.

(* per source IP: of the unsolicited datagrams of IP [x] (not permit-listed during the window) *)
Theorem filter_window_ip evs f p r l A B x :
  enabled f = true -> rate f = Some r -> ip_rl r = Some l -> wfl l -> linv l (A - init_time r) ->
  mem x (permit_ips p) = false -> Forall (fun e => no_permit_ip (N.eqb x) (fst e)) evs ->
  init_time r <= A -> mono_ev A evs -> Forall (fun e => snd e <= B) evs -> A <= B ->
  (B - init_time r) + tau l + tau l < U64 ->
  tt l * count_obs (ip_stage_pass (N.eqb x)) evs (snd (frun f p evs)) <= tau l + (B - A).
Proof.
  intros En Rt G W I Mx Np IA M Bf AB Hov.
  assert (UP : ips_unpermitted (N.eqb x) p).
  { intros ip E. apply N.eqb_eq in E. subst ip. exact Mx. }
  destruct (frun_hist WIp x (ip_stage_pass (N.eqb x)) (ips_unpermitted (N.eqb x)) (no_permit_ip (N.eqb x)))
    with (evs := evs) (f := f) (p := p) (r := r) (l := l) (cur := A) (B := B) as (H & MH & BH & CH); auto.
  - clear. intros f p e now r l En Rt G Op Oe.
    pose proof (fstep_hist WIp f p e now r l En Rt G) as S.
    pose proof (fstep_enabled f p e now) as E1. pose proof (ips_unpermitted_step _ f p e now Op Oe) as E2.
    destruct (fstep f p e now) as [[f1 p1] o]. cbn [fst snd] in *.
    destruct S as (r1 & H & R1 & Hh & C1 & _).
    split; [congruence|]. split; [exact E2|]. exists r1, H. split; [exact R1|]. split; [exact Hh|].
    apply (C1 (N.eqb x) Op x). apply N.eqb_refl.
  - pose proof (window_shift l H A B (init_time r) x W I MH BH IA AB Hov) as Hw.
    assert (tt l * count_obs (ip_stage_pass (N.eqb x)) evs (snd (frun f p evs)) <= tt l * acc x l H)
      by (apply N.mul_le_mono_l; exact CH).
    lia.
Qed.

(* in total: of the unsolicited datagrams of the source IPs in [P] (none of them permit-listed
   during the window; datagrams of permit-listed IPs bypass the limiter) *)
Theorem filter_window_total evs f p r A B (P : N -> bool) :
  enabled f = true -> rate f = Some r -> wfl (total_rl r) -> linv (total_rl r) (A - init_time r) ->
  ips_unpermitted P p -> Forall (fun e => no_permit_ip P (fst e)) evs ->
  init_time r <= A -> mono_ev A evs -> Forall (fun e => snd e <= B) evs -> A <= B ->
  (B - init_time r) + tau (total_rl r) + tau (total_rl r) < U64 ->
  tt (total_rl r) * count_obs (ip_stage_pass P) evs (snd (frun f p evs)) <= tau (total_rl r) + (B - A).
Proof.
  intros En Rt W I UP Np IA M Bf AB Hov. set (l := total_rl r) in *.
  destruct (frun_hist WTotal 0 (ip_stage_pass P) (ips_unpermitted P) (no_permit_ip P))
    with (evs := evs) (f := f) (p := p) (r := r) (l := l) (cur := A) (B := B) as (H & MH & BH & CH); auto.
  - clear. intros f p e now r l En Rt G Op Oe.
    pose proof (fstep_hist WTotal f p e now r l En Rt G) as S.
    pose proof (fstep_enabled f p e now) as E1. pose proof (ips_unpermitted_step _ f p e now Op Oe) as E2.
    destruct (fstep f p e now) as [[f1 p1] o]. cbn [fst snd] in *.
    destruct S as (r1 & H & R1 & Hh & C1 & _).
    split; [congruence|]. split; [exact E2|]. exists r1, H. split; [exact R1|]. split; [exact Hh|].
    apply (C1 P Op).
  - pose proof (window_shift l H A B (init_time r) 0 W I MH BH IA AB Hov) as Hw.
    assert (tt l * count_obs (ip_stage_pass P) evs (snd (frun f p evs)) <= tt l * acc 0 l H)
      by (apply N.mul_le_mono_l; exact CH).
    lia.
Qed.

(* per node id: of the unsolicited datagrams of node id [y] (not permit-listed during the window) *)
Theorem filter_window_node evs f p r l A B y :
  enabled f = true -> rate f = Some r -> node_rl r = Some l -> wfl l -> linv l (A - init_time r) ->
  mem y (permit_nodes p) = false -> Forall (fun e => no_permit_node y (fst e)) evs ->
  init_time r <= A -> mono_ev A evs -> Forall (fun e => snd e <= B) evs -> A <= B ->
  (B - init_time r) + tau l + tau l < U64 ->
  tt l * count_obs (node_stage_pass y) evs (snd (frun f p evs)) <= tau l + (B - A).
Proof.
  intros En Rt G W I My Np IA M Bf AB Hov.
  destruct (frun_hist WNode y (node_stage_pass y) (fun p => mem y (permit_nodes p) = false) (no_permit_node y))
    with (evs := evs) (f := f) (p := p) (r := r) (l := l) (cur := A) (B := B) as (H & MH & BH & CH); auto.
  - clear. intros f p e now r l En Rt G Op Oe.
    pose proof (fstep_hist WNode f p e now r l En Rt G) as S.
    pose proof (fstep_enabled f p e now) as E1. pose proof (node_unpermitted_step y f p e now Op Oe) as E2.
    destruct (fstep f p e now) as [[f1 p1] o]. cbn [fst snd] in *.
    destruct S as (r1 & H & R1 & Hh & _ & C2).
    split; [congruence|]. split; [exact E2|]. exists r1, H. split; [exact R1|]. split; [exact Hh|].
    apply (C2 y Op).
  - pose proof (window_shift l H A B (init_time r) y W I MH BH IA AB Hov) as Hw.
    assert (tt l * count_obs (node_stage_pass y) evs (snd (frun f p evs)) <= tt l * acc y l H)
      by (apply N.mul_le_mono_l; exact CH).
    lia.
Qed.

(* the number of datagrams: (tau + window) / t, and burst + rate * window when max_tokens divides
   the period *)
Lemma tokens_form n tau_ t_ win : 0 < t_ -> t_ * n <= tau_ + win -> n <= (tau_ + win) / t_.
Proof. intros Ht H. apply N.div_le_lower_bound; [lia|exact H]. Qed.

Lemma burst_rate_form n period m l win :
  from_quota period m = Some l -> (m | period) -> tt l * n <= tau l + win ->
  n <= m + (win * m) / period.
Proof.
  intros Hq Hd H.
  destruct (from_quota_spec _ _ _ Hq) as (Etau & _ & _ & Hm & _).
  destruct (from_quota_divisible _ _ _ Hq Hd) as [Hdiv Ht].
  pose proof (tokens_form n (tau l) (tt l) win Ht H) as H1.
  rewrite Hdiv in H1 at 1. rewrite N.div_add_l in H1 by lia.
  rewrite <- Etau. rewrite Hdiv. rewrite (N.mul_comm m (tt l)). rewrite N.div_mul_cancel_r by lia. exact H1.
Qed.

(* the hypotheses on a non-trivial history: quotas 3 per 1000 ns per IP, 100 per 1000 ns in total;
   IP 9 sends a burst of 5 at time 50 (3 pass, the fourth bans it), IP 8 one datagram *)
Example filter_window_ip_example :
  exists iq tq,
    from_quota 1000 3 = Some iq /\ from_quota 1000 100 = Some tq /\
    let r := {| init_time := 10; total_rl := tq; node_rl := None; ip_rl := Some iq |} in
    let f := new_filter true (Some r) (Some 5000) None None in
    let evs := [(FInbound false 9 None, 50); (FInitial 9, 50); (FInbound false 9 (Some None), 50);
                (FInitial 9, 50); (FInitial 8, 60); (FPruneLimiter, 70); (FInitial 9, 80)] in
    mono_ev 50 evs /\ Forall (fun e => no_permit_ip (N.eqb 9) (fst e)) evs /\
    count_obs (ip_stage_pass (N.eqb 9)) evs (snd (frun f empty_pbl evs)) = 3 /\
    (tau iq + (80 - 50)) / tt iq = 3.
Proof.
  do 2 eexists. split; [reflexivity|]. split; [reflexivity|]. cbv zeta.
  split; [cbn; lia|]. split; [repeat constructor|]. vm_compute. split; reflexivity.
Qed.

(* ---------------------------------------------------------------------------------------------- *)
(* the ban / permit decision table at the level of one unsolicited datagram (handle_inbound) *)

Lemma inbound_banned_ip f p ip d now :
  mem ip (permit_ips p) = false -> has_key ip (ban_ips p) = true ->
  handle_inbound f p false ip d now = (f, p, DropIpStage).
Proof. intros M Bn. unfold handle_inbound. rewrite (initial_banned f p ip now M Bn). reflexivity. Qed.

Lemma inbound_permitted_ip f p ip d now :
  mem ip (permit_ips p) = true -> snd (handle_inbound f p false ip d now) <> DropIpStage.
Proof.
  intros M. unfold handle_inbound. rewrite (initial_permit f p ip now M). cbn [negb].
  destruct d as [[id|]|]; try (cbn; discriminate).
  destruct (final_pass f p ip id now) as [[f2 p2] ok2]. cbn. destruct ok2; discriminate.
Qed.

Lemma inbound_banned_node f p ip id now :
  mem id (permit_nodes p) = false -> has_key id (ban_nodes p) = true ->
  snd (handle_inbound f p false ip (Some (Some id)) now) = DropIpStage \/
  snd (handle_inbound f p false ip (Some (Some id)) now) = DropNodeStage.
Proof.
  intros M Bn. unfold handle_inbound. pose proof (initial_pass_shape f p ip now) as S.
  destruct (initial_pass f p ip now) as [[f1 p1] ok1]. destruct S as (_ & _ & _ & Pn & Bnn & _).
  destruct ok1; cbn [negb]; [|left; reflexivity].
  rewrite (final_banned f1 p1 ip id now); [right; reflexivity|congruence|congruence].
Qed.

Lemma inbound_permitted_node f p ip id now :
  mem id (permit_nodes p) = true ->
  snd (handle_inbound f p false ip (Some (Some id)) now) <> DropNodeStage.
Proof.
  intros M. unfold handle_inbound. pose proof (initial_pass_shape f p ip now) as S.
  destruct (initial_pass f p ip now) as [[f1 p1] ok1]. destruct S as (_ & _ & _ & Pn & _ & _).
  destruct ok1; cbn [negb]; [|cbn; discriminate].
  rewrite (final_permit f1 p1 ip id now); [cbn; discriminate|congruence].
Qed.
