(* C04 drain, complement: where the bound on the armed deadlines of a reachable state comes from.
   Every timer is armed at (time of the step, or fire time of an expired timer) + cfg_timeout, and
   an expired timer fires no later than one grid step after the time of the step.  Hence in a run
   whose event times are all <= T every armed deadline is <= T + cfg_grid + cfg_timeout, i.e. below
   [next_bound c T]: the first tick of a drain schedule may be any time later than
   T + cfg_grid + cfg_timeout, the same spacing as between two ticks. *)
From Coq Require Import List Arith NArith Bool Lia.
From Discv5V Require Import Model.Handler Proofs.HandlerInv Proofs.HandlerA_Ledger Proofs.HandlerA_Nonce
  Proofs.HandlerA_Progress Proofs.HandlerA_Drain.
Import ListNotations.

Section DL.
Variables (c : config) (B now : N).
Hypothesis L : (now + cfg_timeout c < B)%N.

Definition nc_same (h' h : hstate) : Prop := nmap h' = nmap h /\ challenges h' = challenges h.
Lemma dl_nc : forall h h', nc_same h' h -> dl_below B h -> dl_below B h'.
Proof. intros h h' [E1 E2]. apply dl_below_same; assumption. Qed.

Lemma sess_get_nc : forall h na, nc_same (fst (sess_get c h na)) h.
Proof. intros h na. destruct (sess_get_frame c h na) as (_ & A & _ & B' & _). split; assumption. Qed.
Lemma remove_expired_sessions_nc : forall s, nc_same (hs (remove_expired_sessions c s)) (hs s).
Proof. intros s. destruct (remove_expired_sessions_frame c s) as (_ & A & _ & B' & _). split; assumption. Qed.

Lemma send_request_dl : forall s ct ext rid body,
  dl_below B (hs s) -> dl_below B (hs (fst (send_request c s ct ext rid body now))).
Proof.
  intros s ct ext rid body H.
  pose proof (send_request_shape c s ct ext rid body now) as X. cbv zeta in X.
  destruct X as [[_ ->]|[[_ (h1 & C1 & _ & E1)]|[_ (h1 & r & p & E1 & C1 & _)]]].
  - exact H.
  - rewrite E1. eapply dl_below_same; [| |eapply dl_below_core; [exact C1|exact H]];
      unfold push_pending; destruct (alist_get _ (pending h1)); reflexivity.
  - rewrite E1. apply dl_below_ar_insert; [|exact L]. eapply dl_below_core; [exact C1|exact H].
Qed.

Lemma send_pending_requests_dl : forall s na, dl_below B (hs s) -> dl_below B (hs (send_pending_requests c s na now)).
Proof. intros s na H. apply (proj1 (proj2 (send_pending_requests_facts c s na now))); assumption. Qed.

Lemma fail_session_dl : forall s na err rm, dl_below B (hs s) -> dl_below B (hs (fail_session c s na err rm)).
Proof. intros s na err rm H. apply (proj1 (proj2 (fail_session_facts c s na err rm))). exact H. Qed.

Lemma fail_request_dl : forall s r err rm, dl_below B (hs s) -> dl_below B (hs (fail_request c s r err rm)).
Proof. intros s r err rm H. apply (proj1 (proj2 (fail_request_facts c s r err rm))). exact H. Qed.

Lemma ar_update_packet_dl : forall h old p, dl_below B h -> dl_below B (ar_update_packet c h old p now).
Proof.
  intros h old p [H1 H2]. rewrite ar_update_packet_eq.
  destruct (nmap_get old (nmap h)) as [na|]; [|split; assumption]. cbv zeta.
  assert (X : Forall (fun e : nonce * naddr * N => (snd e < B)%N)
                (nmap_insert (pkt_nonce p) na (now + cfg_timeout c) (nmap_remove old (nmap h)))).
  { unfold nmap_insert. apply Forall_app. split; [apply nmap_remove_Forall, nmap_remove_Forall; exact H1|].
    constructor; [exact L|constructor]. }
  destruct (alist_get na (active h)); split; cbn [set_active nmap challenges]; assumption.
Qed.

Lemma replay_active_requests_dl : forall s na skip,
  dl_below B (hs s) -> dl_below B (hs (replay_active_requests c s na skip now)).
Proof.
  intros s na skip H. unfold replay_active_requests.
  pose proof (sess_get_nc (hs s) na) as H1.
  destruct (sess_get c (hs s) na) as [h1 se]. cbn [fst] in H1.
  destruct se as [se0|]; [|cbn [with_hs hs]; eapply dl_nc; [exact H1|exact H]].
  match goal with |- context [fold_left ?f ?l (with_hs s h1, se0, [])] =>
    assert (X : hs (fst (fst (fold_left f l (with_hs s h1, se0, [])))) = h1) end.
  { apply (fold_left_inv (fun acc : st * session * list (nonce * packet) => hs (fst (fst acc)) = h1)).
    - intros [[s' se'] pk] r _ Ha. cbn [fst] in Ha.
      pose proof (encrypt_message_hs c s' na se' (MReq (rc_rid r) (rc_body r))) as Y.
      destruct (encrypt_message c s' na se' (MReq (rc_rid r) (rc_body r))) as [[s'' se''] p].
      cbn [fst] in *. congruence.
    - reflexivity. }
  match goal with |- context [fold_left ?f ?l (with_hs s h1, se0, [])] =>
    destruct (fold_left f l (with_hs s h1, se0, [])) as [[s2 se2] pkts] end.
  cbn [fst] in X.
  apply (fold_left_inv (fun s' => dl_below B (hs s'))).
  - intros s' x _ Hs'. cbn [send emit with_hs hs]. apply ar_update_packet_dl. exact Hs'.
  - cbn [with_hs hs]. rewrite X. eapply dl_nc; [|eapply dl_nc; [exact H1|exact H]]. split; reflexivity.
Qed.

Lemma new_session_dl : forall s na se skip, dl_below B (hs s) -> dl_below B (hs (new_session c s na se skip now)).
Proof.
  intros s na se skip H. unfold new_session.
  assert (H0 : dl_below B (hs (remove_expired_sessions c s))).
  { eapply dl_nc; [apply remove_expired_sessions_nc|exact H]. }
  clear H. revert H0. generalize (remove_expired_sessions c s). clear s. intros s H.
  pose proof (sess_get_nc (hs s) na) as H1.
  destruct (sess_get c (hs s) na) as [h1 cur]. cbn [fst] in H1.
  assert (H2 : dl_below B h1) by (eapply dl_nc; eauto).
  destruct cur as [cs|].
  - match goal with |- context [replay_active_requests c ?s1 na skip now] =>
      assert (X : dl_below B (hs (replay_active_requests c s1 na skip now))) end.
    { apply replay_active_requests_dl. cbn [with_hs hs]. eapply dl_nc; [|exact H2]. split; reflexivity. }
    destruct (fix_d2a c); [apply send_pending_requests_dl|]; exact X.
  - apply send_pending_requests_dl. cbn [with_hs hs]. eapply dl_nc; [|exact H2]. split; reflexivity.
Qed.

Lemma send_response_dl : forall s na rid rb, dl_below B (hs s) -> dl_below B (hs (send_response c s na rid rb)).
Proof.
  intros s na rid rb H. unfold send_response.
  pose proof (sess_get_nc (hs s) na) as H1.
  destruct (sess_get c (hs s) na) as [h1 se]. cbn [fst] in H1.
  destruct se as [se|]; [|cbn [with_hs hs]; eapply dl_nc; [exact H1|exact H]].
  pose proof (encrypt_message_hs c (with_hs s h1) na se (MResp rid rb)) as Y.
  destruct (encrypt_message c (with_hs s h1) na se (MResp rid rb)) as [[s2 se'] p].
  cbn [fst with_hs hs] in Y. cbn [send emit with_hs hs]. rewrite Y.
  eapply dl_nc; [|eapply dl_nc; [exact H1|exact H]]. split; reflexivity.
Qed.

Lemma send_challenge_dl : forall s na n known, dl_below B (hs s) -> dl_below B (hs (send_challenge c s na n known now)).
Proof.
  intros s na n known [H1 H2]. unfold send_challenge.
  destruct (has_challenge (hs s) na); [split; assumption|].
  destruct (pop_pk (dr s)) as [[[[idn x2] cd] x4] d'].
  split; cbn [send emit with_hs hs add_expected set_challenges nmap challenges]; [exact H1|].
  apply Forall_app. split; [exact H2|]. constructor; [exact L|constructor].
Qed.

Lemma ar_remove_request_dl : forall h na rid h1 found,
  ar_remove_request h na rid = (h1, found) -> dl_below B h -> dl_below B h1.
Proof.
  intros h na rid h1 found E [H1 H2]. unfold ar_remove_request in E.
  destruct (alist_get na (active h)) as [l|]; [|inversion E; subst; split; assumption].
  destruct (remove_first (fun r0 => N.eqb (rc_rid r0) rid) l) as [[r0 l']|]; inversion E; subst; [|split; assumption].
  split; cbn [set_active nmap challenges]; [apply nmap_remove_Forall; exact H1|exact H2].
Qed.

Lemma handle_response_dl : forall s na rid rb, dl_below B (hs s) -> dl_below B (hs (handle_response c s na rid rb now)).
Proof.
  intros s na rid rb H. unfold handle_response.
  destruct (ar_remove_request (hs s) na rid) as [h1 found] eqn:R.
  destruct found as [r|]; [|exact H].
  pose proof (ar_remove_request_dl _ _ _ _ _ R H) as H1.
  assert (RI : forall rem ev, dl_below B (hs (emit (with_hs (with_hs s h1)
             (ar_insert c (hs (with_hs s h1)) na
                {| rc_contact := rc_contact r; rc_pkt := rc_pkt r; rc_ext := rc_ext r; rc_rid := rc_rid r;
                   rc_body := rc_body r; rc_hs_sent := rc_hs_sent r; rc_retries := rc_retries r;
                   rc_remaining := rem; rc_init := rc_init r |} now)) ev))).
  { intros rem ev. cbn [emit with_hs hs]. apply dl_below_ar_insert; [exact H1|exact L]. }
  assert (F : forall ev, dl_below B (hs (emit (remove_expected (with_hs s h1) (snd na)) ev))).
  { intros ev. cbn [emit remove_expected with_hs hs]. eapply dl_nc; [|exact H1]. split; reflexivity. }
  cbv zeta. destruct rb as [total recs|tag]; [|apply F].
  destruct (N.ltb 1 total); [|apply F].
  destruct (rc_remaining r) as [rem|]; [|apply RI].
  destruct (negb (N.eqb (rem - 1) 0)); [apply RI|apply F].
Qed.

Lemma handle_message_dl : forall s na n aad ct, dl_below B (hs s) -> dl_below B (hs (handle_message c s na n aad ct now)).
Proof.
  intros s na n aad ct H. unfold handle_message.
  pose proof (sess_get_nc (hs s) na) as H1.
  destruct (sess_get c (hs s) na) as [h1 se]. cbn [fst] in H1.
  destruct se as [se|]; [|cbn [emit with_hs hs]; eapply dl_nc; [exact H1|exact H]].
  destruct (decrypt_message se n aad ct) as [se' m].
  set (s2 := with_hs (with_hs s h1) (sess_put (hs (with_hs s h1)) na se')).
  assert (H2 : dl_below B (hs s2)).
  { subst s2. cbn [with_hs hs]. eapply dl_nc; [|eapply dl_nc; [exact H1|exact H]]. split; reflexivity. }
  clearbody s2.
  destruct m as [[rid body|rid rb|j]|].
  - exact H2.
  - assert (HR : dl_below B (hs (handle_response c s2 na rid rb now))) by (apply handle_response_dl; assumption).
    destruct (s_await se') as [arid|]; [|exact HR].
    destruct (N.eqb rid arid); [|exact HR].
    match goal with |- context [fail_session c ?x na ERR_INVALID_REMOTE_ENR true] => set (s3 := x) end.
    assert (H3 : dl_below B (hs s3)).
    { subst s3.
      match goal with |- dl_below B (hs (if fix_d2b c then ?a else ?b)) => assert (H3 : dl_below B (hs b)) end.
      { cbn [with_hs hs]. eapply dl_nc; [|exact H2]. split; reflexivity. }
      destruct (fix_d2b c); [|exact H3].
      match goal with |- context [ar_remove_request ?h na rid] =>
        destruct (ar_remove_request h na rid) as [h4 found] eqn:R end.
      destruct found as [r|]; [|exact H3].
      cbn [remove_expected with_hs hs]. eapply dl_nc; [|eapply ar_remove_request_dl; [exact R|exact H3]].
      split; reflexivity. }
    clearbody s3.
    assert (HF : forall s', hs s' = hs s3 -> dl_below B (hs (fail_session c s' na ERR_INVALID_REMOTE_ENR true))).
    { intros s' Es'. apply fail_session_dl. rewrite Es'. exact H3. }
    destruct rb as [total recs|tag]; [|apply HF; reflexivity].
    destruct (rev recs) as [|e t]; [apply HF; reflexivity|].
    destruct (verify_enr e na); [exact H3|]. apply HF. reflexivity.
  - exact H2.
  - match goal with |- context [has_challenge (hs ?x) na] => assert (H3 : dl_below B (hs x)) end.
    { apply fail_session_dl. exact H2. }
    destruct (has_challenge _ na); exact H3.
Qed.

Lemma handle_auth_message_dl : forall s na n aad sg eph eph_ok rec ct,
  dl_below B (hs s) -> dl_below B (hs (handle_auth_message c s na n aad sg eph eph_ok rec ct now)).
Proof.
  intros s na n aad sg eph eph_ok rec ct H. unfold handle_auth_message.
  destruct (chall_get na (challenges (hs s))) as [ch|] eqn:G; [|exact H].
  assert (H1 : dl_below B (hs (with_hs s (set_challenges (hs s) (chall_remove na (challenges (hs s))))))).
  { destruct H as [A1 A2]. split; cbn [with_hs hs set_challenges nmap challenges]; [exact A1|].
    apply chall_remove_Forall. exact A2. }
  set (s1 := with_hs s (set_challenges (hs s) (chall_remove na (challenges (hs s))))) in *. clearbody s1.
  destruct (establish c (fst na) ch sg eph eph_ok rec) as [se e| |].
  - apply handle_message_dl, new_session_dl.
    eapply dl_nc; [|exact H1]. destruct (verify_enr e na); split; reflexivity.
  - destruct H1 as [A1 A2]. split; cbn [with_hs hs set_challenges nmap challenges]; [exact A1|].
    apply Forall_app. split; [exact A2|]. constructor; [exact L|constructor].
  - apply fail_session_dl. eapply dl_nc; [|exact H1]. destruct (fix_d6 c); split; reflexivity.
Qed.

Lemma ar_remove_by_nonce_dl : forall h n h1 found,
  ar_remove_by_nonce h n = (h1, found) -> dl_below B h -> dl_below B h1.
Proof.
  intros h n h1 found R [H1 H2]. unfold ar_remove_by_nonce in R.
  destruct (nmap_get n (nmap h)) as [na|]; [|inversion R; subst; split; assumption].
  assert (X : forall a, dl_below B (set_active h a (nmap_remove n (nmap h)))).
  { intros a. split; cbn [set_active nmap challenges]; [apply nmap_remove_Forall; exact H1|exact H2]. }
  destruct (alist_get na (active h)) as [l|]; [|inversion R; subst; apply X].
  destruct (remove_first (fun r => nonce_eqb (rc_nonce r) n) l) as [[r l']|]; inversion R; subst; apply X.
Qed.

Lemma handle_challenge_dl : forall s src n seq cd,
  dl_below B (hs s) -> dl_below B (hs (handle_challenge c s src n seq cd now)).
Proof.
  intros s src n seq cd H. unfold handle_challenge.
  destruct (nmap_get n (nmap (hs s))) as [na0|]; [|exact H].
  destruct (ar_remove_by_nonce (hs s) n) as [h1 found] eqn:R.
  pose proof (ar_remove_by_nonce_dl _ _ _ _ R H) as H1.
  destruct found as [[na r]|]; [|exact H1].
  destruct (negb (N.eqb (snd na) src)).
  { cbn [with_hs hs]. apply dl_below_ar_insert; [exact H1|exact L]. }
  destruct (rc_hs_sent r || c_ed (rc_contact r)).
  { apply fail_request_dl. eapply dl_nc; [|exact H1]. destruct (fix_d6 c); split; reflexivity. }
  destruct (pop_pk (dr (with_hs s h1))) as [[[[cn rr] aad] eph] d']. cbn [with_hs hs].
  destruct (c_enr (rc_contact r)) as [e|].
  - apply new_session_dl. cbn [emit send with_hs hs]. apply dl_below_ar_insert; [exact H1|exact L].
  - destruct (pop_rid _) as [irid d''].
    match goal with |- context [send_request c ?s5 ?ct false irid 0%N now] =>
      pose proof (send_request_dl s5 ct false irid 0%N) as X;
      destruct (send_request c s5 ct false irid 0%N now) as [s6 ok] end.
    cbn [fst] in X. apply new_session_dl. apply X. cbn [emit send with_hs hs].
    apply dl_below_ar_insert; [exact H1|exact L].
Qed.

Lemma step_event_dl : forall s0 e, dl_below B (hs s0) -> dl_below B (hs (step_event c s0 e now)).
Proof.
  intros s0 e H. destruct e as [ct rid body|na rid rb|na n known|from p|]; cbn [step_event].
  - pose proof (send_request_dl s0 ct true rid body H) as X.
    destruct (send_request c s0 ct true rid body now) as [s1 ok]. cbn [fst] in X. destruct ok; exact X.
  - apply send_response_dl. exact H.
  - apply send_challenge_dl. exact H.
  - destruct p.
    + apply handle_message_dl. exact H.
    + apply handle_challenge_dl. exact H.
    + apply handle_auth_message_dl. exact H.
  - exact H.
Qed.
End DL.

Theorem step_dl_below : forall c h e now d B,
  (next_bound c now <= B)%N -> dl_below B h -> dl_below B (fst (step c h e now d)).
Proof.
  intros c h e now d B LB H. rewrite step_unfold. cbn [fst].
  apply (step_event_dl (with_clock c now) B now).
  { change (now + cfg_timeout c < B)%N. unfold next_bound in LB. lia. }
  apply (proj1 (proj2 (fire_due_facts_wc c now now TICK_FUEL {| hs := h; dr := d; outs := [] |})) B LB). exact H.
Qed.

(* all event times of a run are at most T *)
Definition times_le (T : N) (evs : list (event * N * draws)) : Prop :=
  Forall (fun x => (snd (fst x) <= T)%N) evs.

Lemma run_dl_below : forall c T evs h, times_le T evs -> dl_below (next_bound c T) h ->
  dl_below (next_bound c T) (fst (run c h evs)).
Proof.
  intros c T. induction evs as [|[[e now] d] rest IH]; intros h HT H; [exact H|].
  inversion HT; subst. cbn [fst snd] in *. rewrite run_cons_fst. apply IH; [assumption|].
  apply step_dl_below; [unfold next_bound; lia|exact H].
Qed.

Theorem reachable_dl_below : forall c T evs, times_le T evs ->
  dl_below (next_bound c T) (fst (run c init_state evs)).
Proof. intros c T evs HT. apply run_dl_below; [exact HT|]. split; constructor. Qed.

(* DRAIN, with the first tick placed relative to the event times of the run: all events of the run
   happen at times <= T, the first tick is later than T + grid + timeout, each further tick later
   than its predecessor by more than grid + timeout *)
Theorem drain_after : forall c evs ticks T,
  fixed_cfg c -> fresh_run c init_state evs -> times_le T evs ->
  let h := fst (run c init_state evs) in
  tick_schedule c (next_bound c T) ticks -> fresh_run c h ticks ->
  drain_bound c h <= length ticks ->
  let h' := fst (run c h ticks) in
  (active h' = [] /\ pending h' = [] /\ challenges h' = [] /\ nmap h' = [] /\ expected h' = []) /\
  forall x, In x (ext_rids h) -> In (x, true) (run_tagged c h ticks).
Proof.
  intros c evs ticks T FX F HT h TS FT W.
  apply (drain c evs ticks (next_bound c T)); auto. apply reachable_dl_below. exact HT.
Qed.

Example ex_drain_after_hypotheses :
  let c := ex_cfg true in
  let h := fst (run c init_state ex_drain_events) in
  times_le 30 ex_drain_events /\ tick_schedule c (next_bound c 30) ex_drain_ticks.
Proof. split; [repeat constructor; vm_compute; discriminate|vm_compute; repeat split; discriminate]. Qed.

Check reachable_dl_below : forall c T evs, times_le T evs ->
  dl_below (next_bound c T) (fst (run c init_state evs)).
Check drain_after : forall c evs ticks T,
  fixed_cfg c -> fresh_run c init_state evs -> times_le T evs ->
  let h := fst (run c init_state evs) in
  tick_schedule c (next_bound c T) ticks -> fresh_run c h ticks ->
  drain_bound c h <= length ticks ->
  let h' := fst (run c h ticks) in
  (active h' = [] /\ pending h' = [] /\ challenges h' = [] /\ nmap h' = [] /\ expected h' = []) /\
  forall x, In x (ext_rids h) -> In (x, true) (run_tagged c h ticks).
Print Assumptions reachable_dl_below.
Print Assumptions drain_after.
Print Assumptions ex_drain_after_hypotheses.
