(* Gap-closing lemmas for C16 (IP filters of Model/KBucket.v):
   - the filter refuses EXACTLY when the limit would be exceeded ("a change that would exceed a limit
     is refused");
   - what the table operations answer when the filter refuses;
   - records without an IPv4 address are never refused by insert_or_update / update_node because of
     a filter ("nodes without an IPv4 address are unaffected", at the level of the table API). *)
From Coq Require Import List Arith NArith Lia Bool.
From Discv5V Require Import Generated.Params Lib.ListX Lib.ListY Model.KBucket
  Proofs.KBucketInv Proofs.KBucketTable Proofs.KBucketPending Proofs.KBucketEntries Proofs.Subnet.
Import ListNotations.

(* the other records of the same /24: everything in [others] except copies of [v] itself *)
Definition same_subnet_others (v : val) (s : N) (others : list val) : nat :=
  count (fun o => negb (val_eqb o v) && in_sub s o) others.

Lemma ip_filter_loop_exact v s limit : forall others cnt,
  cnt < limit ->
  (ip_filter_loop v s others cnt limit = true <-> cnt + same_subnet_others v s others < limit).
Proof.
  unfold same_subnet_others.
  induction others as [|o others IH]; intros cnt Hc; cbn [ip_filter_loop].
  - unfold count. simpl. split; [lia|reflexivity].
  - rewrite count_cons. destruct (val_eqb o v); cbn [negb andb].
    + rewrite (IH cnt Hc). lia.
    + unfold in_sub at 1. destruct (vsub o) as [s'|].
      * destruct (N.eqb s' s).
        -- destruct (Nat.leb_spec limit (S cnt)) as [L|L].
           ++ split; [discriminate|lia].
           ++ rewrite (IH (S cnt) L). lia.
        -- destruct (Nat.leb_spec limit cnt) as [L|L]; [lia|]. rewrite (IH cnt Hc). lia.
      * destruct (Nat.leb_spec limit cnt) as [L|L]; [lia|]. rewrite (IH cnt Hc). lia.
Qed.

(* The filter accepts [v] iff [v] has no IPv4 address, or fewer than [limit] OTHER records of the
   list share its /24: it refuses exactly the changes that would take the count above the limit. *)
Theorem ip_filter_exact limit v others :
  0 < limit ->
  (ip_filter limit v others = true <->
   match vsub v with None => True | Some s => same_subnet_others v s others < limit end).
Proof.
  intros Hl. unfold ip_filter. destruct (vsub v) as [s|]; [|tauto].
  rewrite (ip_filter_loop_exact v s limit others 0 Hl). lia.
Qed.

Corollary ip_filter_refuses limit v others s :
  0 < limit -> vsub v = Some s ->
  (ip_filter limit v others = false <-> limit <= same_subnet_others v s others).
Proof.
  intros Hl Hs. pose proof (ip_filter_exact limit v others Hl) as H. rewrite Hs in H.
  destruct (ip_filter limit v others); split; intro X; try discriminate; try reflexivity.
  - assert (same_subnet_others v s others < limit) by (apply H; reflexivity). lia.
  - destruct (Nat.lt_ge_cases (same_subnet_others v s others) limit) as [L|L]; [|assumption].
    apply H in L. discriminate.
Qed.

(* ------------------------------------------------------------------------------------------ *)
(* What insert_or_update answers when a filter refuses *)

Section Refusal.
Variable c : config.
Hypothesis Hbf : bfilter c = Some ip_bucket_filter.
Hypothesis Htf : tfilter c = Some ip_table_filter.

(* the table limit: a record that is not already stored under [k] with the same content, and
   whose /24 is shared by LT other records of the table (pending ones included), is refused with
   FailureReason::TableFilter *)
Lemma insert_refused_table t k v conn inc now i s :
  bucket_index (local t) k = Some i -> vsub v = Some s ->
  (forall n, get k (nodes (get_bucket t i)) = Some n -> val_eqb (nval n) v = false) ->
  LT <= same_subnet_others v s (table_values t) ->
  snd (t_insert_or_update c t k v conn inc now) = TFailed FTableFilter.
Proof.
  intros Hi Hs Hdup Hcnt. unfold t_insert_or_update.
  assert (P : passes_table_filter c t k v = false).
  { unfold passes_table_filter. rewrite Htf, Hi.
    assert (D : match get k (nodes (get_bucket t i)) with Some n => val_eqb (nval n) v | None => false end = false).
    { destruct (get k (nodes (get_bucket t i))) as [n|]; [apply Hdup; reflexivity|reflexivity]. }
    rewrite D. apply (ip_filter_refuses LT v (table_values t) s LT_pos Hs). exact Hcnt. }
  rewrite P, Hi. destruct (applied_bucket c t i now) as [b app]. reflexivity.
Qed.

(* the bucket limit: a new key whose record passes the table filter but whose /24 is shared by LB
   other nodes of its bucket (after the bucket's due pending node has been applied) is refused with
   FailureReason::BucketFilter, and nothing but that pending application changes *)
Lemma insert_refused_bucket t k v conn inc now i s :
  bucket_index (local t) k = Some i -> vsub v = Some s ->
  passes_table_filter c t k v = true ->
  position k (nodes (fst (applied_bucket c t i now))) = None ->
  LB <= same_subnet_others v s (values (nodes (fst (applied_bucket c t i now)))) ->
  t_insert_or_update c t k v conn inc now =
    (set_bucket t i (fst (applied_bucket c t i now)) (snd (applied_bucket c t i now)), TFailed FBucketFilter).
Proof.
  intros Hi Hs P Hpos Hcnt. unfold t_insert_or_update. rewrite P, Hi.
  destruct (applied_bucket c t i now) as [b app]. cbn [fst snd negb] in *. rewrite Hpos.
  unfold b_insert. cbn [set_stamp nkey nval]. rewrite Hpos. rewrite Hbf. cbn [run_filter].
  assert (F : ip_bucket_filter v (values (nodes b)) = false).
  { apply (ip_filter_refuses LB v (values (nodes b)) s LB_pos Hs). exact Hcnt. }
  rewrite F. reflexivity.
Qed.

(* ------------------------------------------------------------------------------------------ *)
(* Records without an IPv4 address *)

Lemma passes_no_ip t k v : vsub v = None -> passes_table_filter c t k v = true.
Proof.
  intro H. unfold passes_table_filter. rewrite Htf.
  destruct (match bucket_index (local t) k with
            | Some i => match get k (nodes (get_bucket t i)) with Some n => val_eqb (nval n) v | None => false end
            | None => false end); [reflexivity|].
  apply no_ip_unaffected. exact H.
Qed.

Lemma b_update_value_no_ip b k v :
  vsub v = None -> forall f, snd (b_update_value c b k v) = UFailed f -> f = FKeyNonExistent.
Proof.
  intros H f. unfold b_update_value. destruct (position k (nodes b)) as [pos|].
  - destruct (nth_error (nodes b) pos) as [old|]; [|cbn; congruence].
    destruct (val_eqb (nval old) v); [cbn; intro X; discriminate X|].
    rewrite Hbf. cbn [run_filter]. unfold ip_bucket_filter. rewrite (no_ip_unaffected _ v _ H).
    cbn. intro X; discriminate X.
  - destruct (pend b) as [p|]; [|cbn; congruence].
    destruct (N.eqb (nkey (pn p)) k); cbn; intro X; [discriminate X|congruence].
Qed.

Lemma b_insert_passes_not_filtered b n now :
  run_filter (bfilter c) (nval n) (values (nodes b)) = true -> snd (b_insert c b n now) <> BFailedFilter.
Proof.
  intro F. unfold b_insert. cbv zeta. cbn [set_stamp nkey nval nconn nin].
  destruct (position (nkey n) (nodes b)); [cbn; discriminate|]. rewrite F. cbn [negb]. cbv iota.
  destruct (nconn n).
  - destruct (nin n && is_max_incoming c b); [cbn; discriminate|]. destruct (is_full b).
    + destruct (fcp b) as [[|q]|]; destruct (pend b); try (cbn; discriminate); destruct (nodes b); cbn; discriminate.
    + destruct (match pend b with Some p => N.eqb (nkey (pn p)) (nkey n) | None => false end); cbn; discriminate.
  - destruct (is_full b); [cbn; discriminate|].
    destruct (fcp b); destruct (match pend b with Some p => N.eqb (nkey (pn p)) (nkey n) | None => false end);
      cbn; discriminate.
Qed.

(* insert_or_update of a record without an IPv4 address never fails because of a filter *)
Theorem no_ip_insert_never_filtered t k v conn inc now :
  vsub v = None ->
  snd (t_insert_or_update c t k v conn inc now) <> TFailed FTableFilter /\
  snd (t_insert_or_update c t k v conn inc now) <> TFailed FBucketFilter.
Proof.
  intro H. unfold t_insert_or_update. rewrite (passes_no_ip t k v H).
  destruct (bucket_index (local t) k) as [i|]; [|cbn; split; discriminate].
  destruct (applied_bucket c t i now) as [b app]. cbn [negb].
  destruct (position k (nodes b)) as [pos|] eqn:Hpos.
  - destruct (b_update_status c b k conn (Some inc) now) as [b1 sr].
    destruct sr; try (cbn; split; discriminate).
    all: pose proof (b_update_value_no_ip b1 k v H) as Hv;
         destruct (b_update_value c b1 k v) as [b2 vr]; cbn [fst snd] in *;
         destruct vr as [| | | f|]; cbn; try (split; discriminate);
         rewrite (Hv f eq_refl); split; discriminate.
  - pose proof (b_insert_passes_not_filtered b {| nkey := k; nval := v; nconn := conn; nin := inc; nstamp := now |} now) as Hn.
    cbn [nval] in Hn. rewrite Hbf in Hn. cbn [run_filter] in Hn. unfold ip_bucket_filter in Hn.
    specialize (Hn (no_ip_unaffected _ v _ H)).
    destruct (b_insert c b {| nkey := k; nval := v; nconn := conn; nin := inc; nstamp := now |} now) as [b' r].
    cbn [fst snd] in *. destruct r; try congruence; split; discriminate.
Qed.

(* ---- update_node ---- *)

(* replacing the element found by find_index by another one that satisfies the predicate *)
Lemma find_index_replace {A} (q : A -> bool) (l : list A) : forall pos old x,
  find_index q l = Some pos -> nth_error l pos = Some old -> q x = true ->
  find_index q (insert_at pos x (remove_at pos l)) = Some pos /\
  nth_error (insert_at pos x (remove_at pos l)) pos = Some x /\
  remove_at pos (insert_at pos x (remove_at pos l)) = remove_at pos l.
Proof.
  induction l as [|y l IH]; intros pos old x F Nth Qx; [discriminate|].
  cbn [find_index] in F. destruct (q y) eqn:Qy.
  - injection F as <-. cbn [remove_at insert_at find_index nth_error]. rewrite Qx. auto.
  - destruct (find_index q l) as [i|] eqn:Fi; [|discriminate]. cbn [option_map] in F. injection F as <-.
    cbn [nth_error] in Nth. destruct (IH i old x eq_refl Nth Qx) as (A1 & A2 & A3).
    cbn [remove_at insert_at find_index nth_error]. rewrite Qy, A1, A2, A3. auto.
Qed.

(* update_status fails with BucketFilter only if the filter refuses the STORED value of the node *)
Lemma b_update_status_filter b k conn dir now :
  snd (b_update_status c b k conn dir now) = UFailed FBucketFilter ->
  exists pos old, position k (nodes b) = Some pos /\ nth_error (nodes b) pos = Some old /\
                  ip_bucket_filter (nval old) (values (remove_at pos (nodes b))) = false.
Proof.
  unfold b_update_status. destruct (position k (nodes b)) as [pos|] eqn:P.
  - destruct (nth_error (nodes b) pos) as [old|] eqn:Nth; [|cbn; discriminate].
    set (n := {| nkey := nkey old; nval := nval old; nconn := conn;
                 nin := match dir with Some d => d | None => nin old end; nstamp := nstamp old |}).
    set (b1 := {| nodes := remove_at pos (nodes b); fcp := _; pend := _ |}).
    intro H. exists pos, old. split; [first [exact P|reflexivity]|]. split; [first [exact Nth|reflexivity]|].
    destruct (ip_bucket_filter (nval old) (values (remove_at pos (nodes b)))) eqn:F; [|reflexivity]. exfalso.
    pose proof (b_insert_passes_not_filtered b1 n now) as Hn. cbn [nval nodes n b1] in Hn.
    rewrite Hbf in Hn. cbn [run_filter] in Hn. specialize (Hn F).
    destruct (b_insert c b1 n now) as [b2 r]. cbn [snd] in *.
    destruct r; cbn in H; try discriminate; try congruence.
    repeat match type of H with (if ?x then _ else _) = _ => destruct x end; discriminate.
  - destruct (pend b) as [p|]; [|cbn; discriminate]. destruct (N.eqb (nkey (pn p)) k); cbn; discriminate.
Qed.

Lemma b_update_status_not_table b k conn dir now :
  snd (b_update_status c b k conn dir now) <> UFailed FTableFilter.
Proof.
  unfold b_update_status. destruct (position k (nodes b)) as [pos|].
  - destruct (nth_error (nodes b) pos) as [old|]; [|cbn; discriminate].
    match goal with |- context [b_insert c ?bb ?nn now] => destruct (b_insert c bb nn now) as [b2 r] end.
    destruct r; cbn; try discriminate.
    match goal with |- context [if ?x then _ else _] => destruct x end; [discriminate|].
    match goal with |- context [if ?x then _ else _] => destruct x end; discriminate.
  - destruct (pend b) as [p|]; [|cbn; discriminate]. destruct (N.eqb (nkey (pn p)) k); cbn; discriminate.
Qed.

(* update_node with a record without an IPv4 address never fails because of a filter.  Hypothesis:
   a STORED record equal to the offered one (Rust ==; equality of vid in the model) has no IPv4
   address either - true of every table the service builds, where vsub is a function of vid *)
Theorem no_ip_update_never_filtered t k v state now :
  vsub v = None -> (forall o, In o (table_values t) -> val_eqb o v = true -> vsub o = None) ->
  snd (t_update_node c t k v state now) <> UFailed FTableFilter /\
  snd (t_update_node c t k v state now) <> UFailed FBucketFilter.
Proof.
  intros H Eq0. unfold t_update_node. rewrite (passes_no_ip t k v H).
  destruct (bucket_index (local t) k) as [i|]; [|cbn; split; discriminate].
  assert (Eq : forall n, In n (nodes (fst (applied_bucket c t i now))) -> val_eqb (nval n) v = true -> vsub (nval n) = None).
  { intros n Hn. apply Eq0. rewrite table_values_entries. apply in_map_iff. exists (ent n). split; [reflexivity|].
    apply in_tentries. exists i. unfold applied_bucket in Hn.
    pose proof (b_apply_pending_entries c (get_bucket t i) now) as Hi.
    destruct (b_apply_pending c (get_bucket t i) now) as [b0 a0]. cbn [fst] in *.
    apply (Hi (ent n)). apply in_bentries_node. exact Hn. }
  destruct (applied_bucket c t i now) as [b app]. cbn [negb fst] in *.
  pose proof (b_update_value_no_ip b k v H) as Hv.
  (* the node of k in the bucket after update_value carries a value without IPv4 address *)
  assert (Hnode : forall pos old, position k (nodes (fst (b_update_value c b k v))) = Some pos ->
            nth_error (nodes (fst (b_update_value c b k v))) pos = Some old ->
            (forall f, snd (b_update_value c b k v) <> UFailed f) -> vsub (nval old) = None).
  { unfold b_update_value. destruct (position k (nodes b)) as [pos0|] eqn:P0.
    - destruct (nth_error (nodes b) pos0) as [old0|] eqn:N0; [|intros ? ? ? ? Hf; exfalso; eapply Hf; reflexivity].
      destruct (val_eqb (nval old0) v) eqn:Ev.
      + cbn [fst snd]. intros pos old P N' _. rewrite P0 in P. injection P as <-. rewrite N0 in N'. injection N' as <-.
        apply Eq; [eapply nth_error_In; exact N0|exact Ev].
      + rewrite Hbf. cbn [run_filter]. unfold ip_bucket_filter. rewrite (no_ip_unaffected _ v _ H). cbn [negb fst snd nodes].
        intros pos old P N' _.
        assert (Qx : N.eqb (nkey (set_val old0 v)) k = true).
        { cbn [set_val nkey]. destruct (position_some _ _ _ P0) as (o' & No' & Ko'). rewrite N0 in No'. injection No' as <-.
          apply N.eqb_eq. exact Ko'. }
        destruct (find_index_replace (fun n => N.eqb (nkey n) k) (nodes b) pos0 old0 (set_val old0 v) P0 N0 Qx) as (A1 & A2 & _).
        unfold position in P. rewrite A1 in P. injection P as <-. rewrite A2 in N'. injection N' as <-. exact H.
    - destruct (pend b) as [p|].
      + destruct (N.eqb (nkey (pn p)) k); cbn [fst snd nodes]; intros pos old P; congruence.
      + cbn [fst snd]. intros pos old P; congruence. }
  destruct (b_update_value c b k v) as [b1 ur]. cbn [fst snd] in *.
  assert (St : forall s, snd (b_update_status c b1 k s None now) <> UFailed FTableFilter /\
                         ((forall f, ur <> UFailed f) -> snd (b_update_status c b1 k s None now) <> UFailed FBucketFilter)).
  { intro s. split; [apply b_update_status_not_table|]. intros Nf X.
    destruct (b_update_status_filter b1 k s None now X) as (pos & old & P & N' & F).
    assert (Vn : vsub (nval old) = None) by (apply (Hnode pos old P N'); exact Nf).
    unfold ip_bucket_filter in F. rewrite (no_ip_unaffected _ _ _ Vn) in F. discriminate. }
  destruct ur as [| | |f|].
  4: { cbn. rewrite (Hv f eq_refl). split; discriminate. }
  all: destruct state as [s|]; [|cbn; split; discriminate].
  all: destruct (St s) as [S1 S2]; specialize (S2 ltac:(intros f0; discriminate)).
  all: destruct (b_update_status c b1 k s None now) as [b2 sr]; cbn [fst snd] in *.
  all: destruct sr as [| | |f'|]; cbn; try (split; discriminate); split; assumption.
Qed.
End Refusal.
