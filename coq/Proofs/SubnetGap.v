(* Gap-closing lemmas for C16 (IP filters of Model/KBucket.v):
   - the filter refuses EXACTLY when the limit would be exceeded ("a change that would exceed a limit
     is refused");
   - what the table operations answer when the filter refuses;
   - records without an IPv4 address are never refused by insert_or_update / update_node because of
     a filter ("nodes without an IPv4 address are unaffected", at the level of the table API). *)
From Coq Require Import List Arith NArith Lia Bool.
From Discv5V Require Import Generated.Params Lib.ListX Lib.ListY Model.KBucket
  Proofs.KBucketInv Proofs.KBucketTable Proofs.KBucketPending Proofs.Subnet.
Import ListNotations.

(* the other records of the same /24: everything in [others] except copies of [v] itself *)
Definition same_subnet_others (v : val) (s : N) (others : list val) : nat :=
  count (fun o => negb (val_eqb o v) && in_sub s o) others.

Lemma ip_filter_loop_exact v s limit : forall others cnt,
  cnt < limit ->
  (ip_filter_loop v s others cnt limit = true <-> cnt + same_subnet_others v s others < limit).
Proof.
  unfold same_subnet_others.
  induction others as [|o others IH]; intros cnt Hc; cbn [ip_filter_loop].
  - unfold count. simpl. split; [lia|reflexivity].
  - rewrite count_cons. destruct (val_eqb o v); cbn [negb andb].
    + rewrite (IH cnt Hc). lia.
    + unfold in_sub at 1. destruct (vsub o) as [s'|].
      * destruct (N.eqb s' s).
        -- destruct (Nat.leb_spec limit (S cnt)) as [L|L].
           ++ split; [discriminate|lia].
           ++ rewrite (IH (S cnt) L). lia.
        -- destruct (Nat.leb_spec limit cnt) as [L|L]; [lia|]. rewrite (IH cnt Hc). lia.
      * destruct (Nat.leb_spec limit cnt) as [L|L]; [lia|]. rewrite (IH cnt Hc). lia.
Qed.

(* The filter accepts [v] iff [v] has no IPv4 address, or fewer than [limit] OTHER records of the
   list share its /24: it refuses exactly the changes that would take the count above the limit. *)
Theorem ip_filter_exact limit v others :
  0 < limit ->
  (ip_filter limit v others = true <->
   match vsub v with None => True | Some s => same_subnet_others v s others < limit end).
Proof.
  intros Hl. unfold ip_filter. destruct (vsub v) as [s|]; [|tauto].
  rewrite (ip_filter_loop_exact v s limit others 0 Hl). lia.
Qed.

Corollary ip_filter_refuses limit v others s :
  0 < limit -> vsub v = Some s ->
  (ip_filter limit v others = false <-> limit <= same_subnet_others v s others).
Proof.
  intros Hl Hs. pose proof (ip_filter_exact limit v others Hl) as H. rewrite Hs in H.
  destruct (ip_filter limit v others); split; intro X; try discriminate; try reflexivity.
  - assert (same_subnet_others v s others < limit) by (apply H; reflexivity). lia.
  - destruct (Nat.lt_ge_cases (same_subnet_others v s others) limit) as [L|L]; [|assumption].
    apply H in L. discriminate.
Qed.

(* ------------------------------------------------------------------------------------------ *)
(* What insert_or_update answers when a filter refuses *)

Section Refusal.
Variable c : config.
Hypothesis Hbf : bfilter c = Some ip_bucket_filter.
Hypothesis Htf : tfilter c = Some ip_table_filter.

(* the table limit: a record that is not already stored under [k] with the same content, and
   whose /24 is shared by LT other records of the table (pending ones included), is refused with
   FailureReason::TableFilter *)
Lemma insert_refused_table t k v conn inc now i s :
  bucket_index (local t) k = Some i -> vsub v = Some s ->
  (forall n, get k (nodes (get_bucket t i)) = Some n -> val_eqb (nval n) v = false) ->
  LT <= same_subnet_others v s (table_values t) ->
  snd (t_insert_or_update c t k v conn inc now) = TFailed FTableFilter.
Proof.
  intros Hi Hs Hdup Hcnt. unfold t_insert_or_update.
  assert (P : passes_table_filter c t k v = false).
  { unfold passes_table_filter. rewrite Htf, Hi.
    assert (D : match get k (nodes (get_bucket t i)) with Some n => val_eqb (nval n) v | None => false end = false).
    { destruct (get k (nodes (get_bucket t i))) as [n|]; [apply Hdup; reflexivity|reflexivity]. }
    rewrite D. apply (ip_filter_refuses LT v (table_values t) s LT_pos Hs). exact Hcnt. }
  rewrite P, Hi. destruct (applied_bucket c t i now) as [b app]. reflexivity.
Qed.

(* the bucket limit: a new key whose record passes the table filter but whose /24 is shared by LB
   other nodes of its bucket (after the bucket's due pending node has been applied) is refused with
   FailureReason::BucketFilter, and nothing but that pending application changes *)
Lemma insert_refused_bucket t k v conn inc now i s :
  bucket_index (local t) k = Some i -> vsub v = Some s ->
  passes_table_filter c t k v = true ->
  position k (nodes (fst (applied_bucket c t i now))) = None ->
  LB <= same_subnet_others v s (values (nodes (fst (applied_bucket c t i now)))) ->
  t_insert_or_update c t k v conn inc now =
    (set_bucket t i (fst (applied_bucket c t i now)) (snd (applied_bucket c t i now)), TFailed FBucketFilter).
Proof.
  intros Hi Hs P Hpos Hcnt. unfold t_insert_or_update. rewrite P, Hi.
  destruct (applied_bucket c t i now) as [b app]. cbn [fst snd negb] in *. rewrite Hpos.
  unfold b_insert. cbn [set_stamp nkey nval]. rewrite Hpos. rewrite Hbf. cbn [run_filter].
  assert (F : ip_bucket_filter v (values (nodes b)) = false).
  { apply (ip_filter_refuses LB v (values (nodes b)) s LB_pos Hs). exact Hcnt. }
  rewrite F. reflexivity.
Qed.

(* ------------------------------------------------------------------------------------------ *)
(* Records without an IPv4 address *)

Lemma passes_no_ip t k v : vsub v = None -> passes_table_filter c t k v = true.
Proof.
  intro H. unfold passes_table_filter. rewrite Htf.
  destruct (match bucket_index (local t) k with
            | Some i => match get k (nodes (get_bucket t i)) with Some n => val_eqb (nval n) v | None => false end
            | None => false end); [reflexivity|].
  apply no_ip_unaffected. exact H.
Qed.

Lemma b_update_value_no_ip b k v :
  vsub v = None -> forall f, snd (b_update_value c b k v) = UFailed f -> f = FKeyNonExistent.
Proof.
  intros H f. unfold b_update_value. destruct (position k (nodes b)) as [pos|].
  - destruct (nth_error (nodes b) pos) as [old|]; [|cbn; congruence].
    destruct (val_eqb (nval old) v); [cbn; intro X; discriminate X|].
    rewrite Hbf. cbn [run_filter]. unfold ip_bucket_filter. rewrite (no_ip_unaffected _ v _ H).
    cbn. intro X; discriminate X.
  - destruct (pend b) as [p|]; [|cbn; congruence].
    destruct (N.eqb (nkey (pn p)) k); cbn; intro X; [discriminate X|congruence].
Qed.

Lemma b_insert_passes_not_filtered b n now :
  run_filter (bfilter c) (nval n) (values (nodes b)) = true -> snd (b_insert c b n now) <> BFailedFilter.
Proof.
  intro F. unfold b_insert. cbv zeta. cbn [set_stamp nkey nval nconn nin].
  destruct (position (nkey n) (nodes b)); [cbn; discriminate|]. rewrite F. cbn [negb]. cbv iota.
  destruct (nconn n).
  - destruct (nin n && is_max_incoming c b); [cbn; discriminate|]. destruct (is_full b).
    + destruct (fcp b) as [[|q]|]; destruct (pend b); try (cbn; discriminate); destruct (nodes b); cbn; discriminate.
    + destruct (match pend b with Some p => N.eqb (nkey (pn p)) (nkey n) | None => false end); cbn; discriminate.
  - destruct (is_full b); [cbn; discriminate|].
    destruct (fcp b); destruct (match pend b with Some p => N.eqb (nkey (pn p)) (nkey n) | None => false end);
      cbn; discriminate.
Qed.

(* insert_or_update of a record without an IPv4 address never fails because of a filter *)
Theorem no_ip_insert_never_filtered t k v conn inc now :
  vsub v = None ->
  snd (t_insert_or_update c t k v conn inc now) <> TFailed FTableFilter /\
  snd (t_insert_or_update c t k v conn inc now) <> TFailed FBucketFilter.
Proof.
  intro H. unfold t_insert_or_update. rewrite (passes_no_ip t k v H).
  destruct (bucket_index (local t) k) as [i|]; [|cbn; split; discriminate].
  destruct (applied_bucket c t i now) as [b app]. cbn [negb].
  destruct (position k (nodes b)) as [pos|] eqn:Hpos.
  - destruct (b_update_status c b k conn (Some inc) now) as [b1 sr].
    destruct sr; try (cbn; split; discriminate).
    all: pose proof (b_update_value_no_ip b1 k v H) as Hv;
         destruct (b_update_value c b1 k v) as [b2 vr]; cbn [fst snd] in *;
         destruct vr as [| | | f|]; cbn; try (split; discriminate);
         rewrite (Hv f eq_refl); split; discriminate.
  - pose proof (b_insert_passes_not_filtered b {| nkey := k; nval := v; nconn := conn; nin := inc; nstamp := now |} now) as Hn.
    cbn [nval] in Hn. rewrite Hbf in Hn. cbn [run_filter] in Hn. unfold ip_bucket_filter in Hn.
    specialize (Hn (no_ip_unaffected _ v _ H)).
    destruct (b_insert c b {| nkey := k; nval := v; nconn := conn; nin := inc; nstamp := now |} now) as [b' r].
    cbn [fst snd] in *. destruct r; try congruence; split; discriminate.
Qed.
End Refusal.
