(* Concrete runs of the handler model (evaluated with vm_compute) showing that the hypotheses of the
   C01/C02/C03/C19 theorems are satisfied by non-trivial reachable states. *)
From Coq Require Import List NArith Bool.
From Discv5V Require Import Model.Handler Proofs.HandlerB_Base Proofs.HandlerB_Frame Proofs.HandlerB_Session
  Proofs.HandlerB_Auth Proofs.HandlerB_Step Proofs.HandlerB_Fresh Proofs.HandlerB_Nonce.
Import ListNotations.
Local Open Scope N_scope.

Definition ex_cfg : config :=
  {| cfg_local := 1; cfg_enr := {| e_id := 1; e_seq := 1; e_ip4 := None; e_ip6 := None |};
     cfg_retries := 1; cfg_timeout := 1000; cfg_listen := []; cfg_capacity := 10%nat;
     cfg_session_ttl := 1000000; cfg_clock := 0; cfg_grid := 0;
     fix_d1 := true; fix_d2a := true; fix_d2b := true; fix_d6 := true |}.
Example ex_cfg_fixed : fixed_cfg ex_cfg.
Proof. repeat split. Qed.

Definition enr7 : enr := {| e_id := 7; e_seq := 1; e_ip4 := Some 100; e_ip6 := None |}.
Definition enr8 : enr := {| e_id := 8; e_seq := 1; e_ip4 := Some 200; e_ip6 := None |}.
Definition nod : draws := {| d_pk := []; d_rid := []; d_rev := [] |}.
Definition dk (l : list (N * N * N * N)) : draws := {| d_pk := l; d_rid := []; d_rev := [] |}.
(* the key node 7 derives for the challenge data 5 and its ephemeral key 3 *)
Definition kd7 : key := mk_key 3 1 5 7 1 false.

(* an incoming handshake: node 7 at address 100 sends a packet we cannot decrypt, the service answers
   WhoAreYou with its record of node 7, node 7 completes the handshake (carrying request 9), we answer,
   node 7 sends request 10 under the session *)
Definition ev_unknown := (EvInbound 100 (PMsg 7 (1, 1) 50 (CJunk 50)), 10, nod).
Definition ev_whoareyou := (EvWhoAreYou (7, 100) (1, 1) (Some enr7), 11, dk [(11, 0, 5, 0)]).
Definition pkt_handshake := PHs 7 (2, 2) 51 (Sig 7 5 3 1) 3 true None (CEnc kd7 (2, 2) (MReq 9 0) 51).
Definition ev_handshake := (EvInbound 100 pkt_handshake, 12, nod).
Definition ev_response := (EvResponse (7, 100) 9 (ROther 1), 13, dk [(0, 77, 52, 0)]).
Definition pkt_request := PMsg 7 (3, 3) 53 (CEnc kd7 (3, 3) (MReq 10 0) 53).
Definition ev_request := (EvInbound 100 pkt_request, 14, nod).
Definition evs_in : list (event * N * draws) := [ev_unknown; ev_whoareyou; ev_handshake; ev_response; ev_request].

Example evs_in_wf : evs_wf evs_in.
Proof. repeat constructor. Qed.

(* the state with the outstanding challenge *)
Definition h_challenged : hstate := fst (run ex_cfg init_state [ev_unknown; ev_whoareyou]).
Example h_challenged_has_challenge :
  challenges h_challenged = [((7, 100), {| ch_cd := 5; ch_enr := Some enr7 |}, 1011)].
Proof. vm_compute. reflexivity. Qed.
Example h_challenged_ChallOK : ChallOK h_challenged /\ ChallUniq h_challenged.
Proof. apply (run_ChallInv ex_cfg [ev_unknown; ev_whoareyou]). repeat constructor. Qed.

(* the handshake step: hypotheses and conclusion of incoming_identity *)
Example handshake_step :
  step ex_cfg h_challenged (EvInbound 100 pkt_handshake) 12 nod =
  (fst (run ex_cfg init_state [ev_unknown; ev_whoareyou; ev_handshake]),
   [OEvent (HEstablished enr7 100 true); OEvent (HRequest (7, 100) 9 0)]).
Proof. vm_compute. reflexivity. Qed.
Example handshake_step_attributes :
  exists o, In o [OEvent (HEstablished enr7 100 true); OEvent (HRequest (7, 100) 9 0)] /\ attributing o.
Proof. exists (OEvent (HEstablished enr7 100 true)). split; [left; reflexivity | exact I]. Qed.

(* the state with the session, and the delivery of request 10 *)
Definition h_session : hstate := fst (run ex_cfg init_state [ev_unknown; ev_whoareyou; ev_handshake; ev_response]).
Example h_session_has_session :
  alist_get (7, 100) (sessions h_session) =
  Some {| s_enc := mk_key 3 1 5 7 1 true; s_dec := kd7; s_old := None; s_await := None; s_counter := 1; s_used := 13 |}.
Proof. vm_compute. reflexivity. Qed.
(* the only change of the state: the access stamps the session with the time of the step *)
Example request_step :
  step ex_cfg h_session (EvInbound 100 pkt_request) 14 nod =
  (set_sessions h_session
     [((7, 100), {| s_enc := mk_key 3 1 5 7 1 true; s_dec := kd7; s_old := None; s_await := None;
                    s_counter := 1; s_used := 14 |})],
   [OEvent (HRequest (7, 100) 10 0)]).
Proof. vm_compute. reflexivity. Qed.
(* the same ciphertext with another nonce, other authenticated data, or from another address *)
Example request_step_tampered_nonce :
  snd (step ex_cfg h_session (EvInbound 100 (PMsg 7 (3, 4) 53 (CEnc kd7 (3, 3) (MReq 10 0) 53))) 14 nod) =
  [OEvent (HWhoAreYou (7, 100) (3, 4))].
Proof. vm_compute. reflexivity. Qed.
Example request_step_other_address :
  snd (step ex_cfg h_session (EvInbound 102 pkt_request) 14 nod) = [OEvent (HWhoAreYou (7, 102) (3, 3))].
Proof. vm_compute. reflexivity. Qed.

(* replaying the handshake packet *)
Example handshake_replayed :
  step ex_cfg (fst (run ex_cfg init_state [ev_unknown; ev_whoareyou; ev_handshake])) (EvInbound 100 pkt_handshake) 13 nod =
  (fst (run ex_cfg init_state [ev_unknown; ev_whoareyou; ev_handshake]), []).
Proof. vm_compute. reflexivity. Qed.

(* the counter of the session: 0 after the handshake, 1 after the response was encrypted *)
Example counter_after_response :
  option_map s_counter (alist_get (7, 100) (sessions (fst (run ex_cfg init_state [ev_unknown; ev_whoareyou; ev_handshake])))) = Some 0 /\
  option_map s_counter (alist_get (7, 100) (sessions h_session)) = Some 1 /\
  snd (run ex_cfg init_state [ev_unknown; ev_whoareyou; ev_handshake; ev_response]) =
  [[OEvent (HWhoAreYou (7, 100) (1, 1))]; [OWire (7, 100) (PWho (1, 1) 11 1 5)];
   [OEvent (HEstablished enr7 100 true); OEvent (HRequest (7, 100) 9 0)];
   [OWire (7, 100) (PMsg 1 (1, 77) 52 (CEnc (mk_key 3 1 5 7 1 true) (1, 77) (MResp 9 (ROther 1)) 52))]].
Proof. vm_compute. repeat split; reflexivity. Qed.

(* an outgoing handshake: a request to node 8 at address 200 goes out as a random packet, node 8
   answers WHOAREYOU, we send the handshake; a second WHOAREYOU (echoing the handshake packet's nonce)
   fails the request *)
Definition ct8 : contact := {| c_id := 8; c_addr := 200; c_enr := Some enr8; c_ed := false |}.
Definition ev_app_request := (EvRequest ct8 20 0, 10, dk [(4, 4, 60, 0)]).
Definition ev_who1 := (EvInbound 200 (PWho (4, 4) 12 0 6), 11, dk [(5, 5, 61, 9)]).
Definition ev_who2 := (EvInbound 200 (PWho (5, 5) 13 0 8), 12, dk [(6, 6, 62, 10)]).
Definition h_inflight : hstate := fst (run ex_cfg init_state [ev_app_request]).
Definition h_hs_sent : hstate := fst (run ex_cfg init_state [ev_app_request; ev_who1]).

Example inflight_nonce : nmap_get (4, 4) (nmap h_inflight) = Some (8, 200).
Proof. vm_compute. reflexivity. Qed.
Example who1_step :
  snd (step ex_cfg h_inflight (EvInbound 200 (PWho (4, 4) 12 0 6)) 11 (dk [(5, 5, 61, 9)])) =
  [OWire (8, 200) (PHs 1 (5, 5) 61 (Sig 1 6 9 8) 9 true (Some (cfg_enr ex_cfg))
                     (CEnc (mk_key 9 8 6 1 8 false) (5, 5) (MReq 20 0) 61));
   OEvent (HEstablished enr8 200 false)].
Proof. vm_compute. reflexivity. Qed.
Example who1_wrong_source :
  snd (step ex_cfg h_inflight (EvInbound 201 (PWho (4, 4) 12 0 6)) 11 (dk [(5, 5, 61, 9)])) = [].
Proof. vm_compute. reflexivity. Qed.
Example who1_unknown_nonce :
  step ex_cfg h_inflight (EvInbound 200 (PWho (4, 5) 12 0 6)) 11 (dk [(5, 5, 61, 9)]) = (h_inflight, []).
Proof. vm_compute. reflexivity. Qed.
Example hs_sent_request :
  exists h1 r, ar_remove_by_nonce h_hs_sent (5, 5) = (h1, Some ((8, 200), r)) /\ rc_hs_sent r = true /\
               rc_ext r = true /\ rc_rid r = 20.
Proof. vm_compute. eexists. eexists. repeat split. Qed.
Example who2_step :
  step ex_cfg h_hs_sent (EvInbound 200 (PWho (5, 5) 13 0 8)) 12 (dk [(6, 6, 62, 10)]) =
  (init_state, [OEvent (HRequestFailed 20 ERR_INVALID_REMOTE_PACKET)]).
Proof. vm_compute. reflexivity. Qed.
Example h_hs_sent_session_key :
  option_map s_enc (alist_get (8, 200) (sessions h_hs_sent)) = Some (mk_key 9 8 6 1 8 false) /\
  key_for ex_cfg 8 (mk_key 9 8 6 1 8 false).
Proof. split; [vm_compute; reflexivity | right; repeat split]. Qed.
