(* C19, trace level: the invariant behind "no (key, nonce) pair is used for two different message
   packets".  This file: definitions, the invariant J, and how the primitive operations preserve it.

   History H = all outputs so far.  A "message ciphertext" is a PMsg packet whose body is a CEnc term
   (handshake packets carry a ciphertext under a raw random nonce: their nonces are oracle draws, like
   the id-nonces, and are outside this theorem).  G = ghost list of all keys ever installed in a
   session. *)
From Coq Require Import List Arith NArith Bool Lia.
From Discv5V Require Import Model.Handler Proofs.HandlerB_Base Proofs.HandlerB_Frame Proofs.HandlerB_Session
  Proofs.HandlerB_Auth Proofs.HandlerB_Step Proofs.HandlerB_Nonce.
Import ListNotations.
Local Open Scope N_scope.

Definition is_cpkt (p : packet) : Prop :=
  match p with PMsg _ _ _ (CEnc _ _ _ _) => True | _ => False end.
Definition cpkt_of (o : output) : option (key * nonce * packet) :=
  match o with
  | OWire _ (PMsg s n a (CEnc k n' m a')) => Some (k, n', PMsg s n a (CEnc k n' m a'))
  | _ => None
  end.

(* the property: two message ciphertexts under the same key and nonce are the same packet *)
Definition NoReuse (H : list output) : Prop :=
  forall o1 o2 k n p1 p2, In o1 H -> In o2 H ->
    cpkt_of o1 = Some (k, n, p1) -> cpkt_of o2 = Some (k, n, p2) -> p1 = p2.

Definition Used (H : list output) (k : key) (cnt : N) : Prop :=
  exists o r p, In o H /\ cpkt_of o = Some (k, (cnt, r), p).
Definition InH (H : list output) (p : packet) : Prop := exists d, In (OWire d p) H.
Definition PktOK (H : list output) (r : rcall) : Prop := is_cpkt (rc_pkt r) -> InH H (rc_pkt r).

Lemma cpkt_of_wire d p : is_cpkt p -> exists k n, cpkt_of (OWire d p) = Some (k, n, p).
Proof. destruct p as [s n a [k n' m a' | j] | |]; cbn; try contradiction. eauto. Qed.
Lemma cpkt_of_not d p : ~ is_cpkt p -> cpkt_of (OWire d p) = None.
Proof. destruct p as [s n a [k n' m a' | j] | |]; cbn; try reflexivity. intros H; exfalso; apply H; exact I. Qed.
Lemma cpkt_of_Some o k n p : cpkt_of o = Some (k, n, p) -> exists d, o = OWire d p /\ is_cpkt p.
Proof.
  destruct o as [e | d [s n0 a [k0 n' m a' | j] | |]]; cbn; try discriminate.
  intros H; inversion H; subst. exists d. split; [reflexivity | exact I].
Qed.
Lemma cpkt_of_same d d' p : cpkt_of (OWire d p) = cpkt_of (OWire d' p).
Proof. destruct p as [s n a [k n' m a' | j] | |]; reflexivity. Qed.

Lemma InH_app H X p : InH H p -> InH (H ++ X) p.
Proof. intros [d Hd]. exists d. apply in_or_app. left; exact Hd. Qed.
Lemma InH_last H d p : InH (H ++ [OWire d p]) p.
Proof. exists d. apply in_or_app. right; left; reflexivity. Qed.
Lemma PktOK_app H X r : PktOK H r -> PktOK (H ++ X) r.
Proof. intros Hr Hc. apply InH_app. auto. Qed.
Lemma Used_app H X k cnt : Used H k cnt -> Used (H ++ X) k cnt.
Proof. intros [o [r [p [Hin E]]]]. exists o, r, p. split; [apply in_or_app; left; exact Hin | exact E]. Qed.

Record J (H : list output) (G : list key) (h : hstate) : Prop := {
  J_A : forall k cnt, Used H k cnt -> forall na se, In (na, se) (sessions h) -> In k (sess_keys se) ->
        cnt <= s_counter se;
  J_B : forall na l r, In (na, l) (active h) -> In r l -> PktOK H r;
  J_K : forall na1 se1 na2 se2 k, In (na1, se1) (sessions h) -> In (na2, se2) (sessions h) ->
        In k (sess_keys se1) -> In k (sess_keys se2) -> na1 = na2;
  J_U : SessUniq h;
  J_D : NoReuse H;
  J_G1 : forall na se k, In (na, se) (sessions h) -> In k (sess_keys se) -> In k G;
  J_G2 : forall k cnt, Used H k cnt -> In k G
}.

Lemma J_init G : J [] G init_state.
Proof.
  split.
  - intros k cnt [o [r [p [[] _]]]].
  - intros na l r [].
  - intros na1 se1 na2 se2 k [].
  - constructor.
  - intros o1 o2 k n p1 p2 [].
  - intros na se k [].
  - intros k cnt [o [r [p [[] _]]]].
Qed.

(* every request of the new active table was there before, or its packet is known *)
Definition ActSubP (H : list output) (h h' : hstate) : Prop :=
  forall na l r, In (na, l) (active h') -> In r l ->
    (exists na0 l0, In (na0, l0) (active h) /\ In r l0) \/ PktOK H r.
Lemma ActSubP_same H h h' : active h' = active h -> ActSubP H h h'.
Proof. intros E na l r H1 H2. rewrite E in H1. left; eauto. Qed.
Lemma ActSubP_trans H a b d : ActSubP H a b -> ActSubP H b d -> ActSubP H a d.
Proof.
  intros H1 H2 na l r Hin Hr. destruct (H2 _ _ _ Hin Hr) as [[na0 [l0 [H3 H4]]] | H3]; [| right; exact H3].
  exact (H1 _ _ _ H3 H4).
Qed.

(* P1: the state changes, the history does not *)
Lemma J_state H G h h' : J H G h -> SessD h h' -> UPres h h' -> ActSubP H h h' -> J H G h'.
Proof.
  intros [A B K U D G1 G2] HD HU HA. split.
  - intros k cnt Hu na se' Hin Hk. destruct (HD _ _ Hin) as [se [H1 [H2 H3]]].
    pose proof (A k cnt Hu na se H1 (H2 k Hk)). lia.
  - intros na l r Hin Hr. destruct (HA _ _ _ Hin Hr) as [[na0 [l0 [H1 H2]]] | H1]; [exact (B _ _ _ H1 H2) | exact H1].
  - intros na1 se1 na2 se2 k H1 H2 K1 K2.
    destruct (HD _ _ H1) as [sa [Ha [Ia _]]]. destruct (HD _ _ H2) as [sb [Hb [Ib _]]].
    exact (K _ _ _ _ k Ha Hb (Ia k K1) (Ib k K2)).
  - apply HU. exact U.
  - exact D.
  - intros na se' k Hin Hk. destruct (HD _ _ Hin) as [se [H1 [H2 _]]]. exact (G1 _ _ _ H1 (H2 k Hk)).
  - exact G2.
Qed.

(* P2: an output that is not a message ciphertext *)
Lemma Used_snoc_none H o k cnt : cpkt_of o = None -> Used (H ++ [o]) k cnt -> Used H k cnt.
Proof.
  intros Hn [o' [r [p [Hin E]]]]. apply in_app_or in Hin. destruct Hin as [Hin | [Hin | []]].
  - exists o', r, p. auto.
  - subst. congruence.
Qed.
Lemma J_emit_none H G h o : J H G h -> cpkt_of o = None -> J (H ++ [o]) G h.
Proof.
  intros [A B K U D G1 G2] Hn. split; auto.
  - intros k cnt Hu. apply (A k cnt). eapply Used_snoc_none; eauto.
  - intros na l r Hin Hr. apply PktOK_app. eauto.
  - intros o1 o2 k n p1 p2 H1 H2 E1 E2.
    apply in_app_or in H1. apply in_app_or in H2.
    destruct H1 as [H1 | [H1 | []]]; [| subst; congruence].
    destruct H2 as [H2 | [H2 | []]]; [| subst; congruence].
    exact (D _ _ _ _ _ _ H1 H2 E1 E2).
  - intros k cnt Hu. apply (G2 k cnt). eapply Used_snoc_none; eauto.
Qed.

(* P3: a packet that was sent before is sent again *)
Lemma Used_snoc_old H d p k cnt : InH H p -> Used (H ++ [OWire d p]) k cnt -> Used H k cnt.
Proof.
  intros [d' Hd'] [o' [r [p' [Hin E]]]]. apply in_app_or in Hin. destruct Hin as [Hin | [Hin | []]].
  - exists o', r, p'. auto.
  - subst. exists (OWire d' p), r, p'. split; [exact Hd' |]. rewrite (cpkt_of_same d' d). exact E.
Qed.
Lemma J_emit_old H G h d p : J H G h -> InH H p -> J (H ++ [OWire d p]) G h.
Proof.
  intros [A B K U D G1 G2] Hold. split; auto.
  - intros k cnt Hu. apply (A k cnt). eapply Used_snoc_old; eauto.
  - intros na l r Hin Hr. apply PktOK_app. eauto.
  - destruct Hold as [d' Hd'].
    assert (Hrep : forall o, In o (H ++ [OWire d p]) -> exists o', In o' H /\ cpkt_of o' = cpkt_of o).
    { intros o Hin. apply in_app_or in Hin. destruct Hin as [Hin | [Hin | []]]; [eauto |].
      subst. exists (OWire d' p). split; [exact Hd' | apply cpkt_of_same]. }
    intros o1 o2 k n p1 p2 H1 H2 E1 E2.
    destruct (Hrep _ H1) as [o1' [H1' E1']]. destruct (Hrep _ H2) as [o2' [H2' E2']].
    rewrite <- E1' in E1. rewrite <- E2' in E2. exact (D _ _ _ _ _ _ H1' H2' E1 E2).
  - intros k cnt Hu. apply (G2 k cnt). eapply Used_snoc_old; eauto.
Qed.

(* a packet that is either not a message ciphertext or was sent before *)
Lemma J_emit_pkt H G h d p : J H G h -> (is_cpkt p -> InH H p) -> J (H ++ [OWire d p]) G h.
Proof.
  intros HJ Hp. destruct p as [s n a [k n' m a' | j] | |].
  - apply J_emit_old; [exact HJ | apply Hp; exact I].
  - apply J_emit_none; [exact HJ | reflexivity].
  - apply J_emit_none; [exact HJ | reflexivity].
  - apply J_emit_none; [exact HJ | reflexivity].
Qed.

(* P4: encrypt under the session stored under [na], store the incremented counter, send *)
Lemma J_encrypt H G h na se d src r aad m :
  J H G h -> In (na, se) (sessions h) ->
  J (H ++ [OWire d (PMsg src (s_counter se + 1, r) aad (CEnc (s_enc se) (s_counter se + 1, r) m aad))])
    G (sess_put h na (bump se)).
Proof.
  intros HJ Hin. pose proof HJ as [A B K U D G1 G2].
  set (w := OWire d (PMsg src (s_counter se + 1, r) aad (CEnc (s_enc se) (s_counter se + 1, r) m aad))).
  assert (Hkse : In (s_enc se) (sess_keys se)) by (left; reflexivity).
  assert (Hq : QH h (sess_put h na (bump se))) by (eapply QH_sess_put; [exact Hin | apply bump_desc]).
  destruct Hq as [_ [HD HU]].
  assert (Hu' : forall k cnt, Used (H ++ [w]) k cnt -> Used H k cnt \/ (k = s_enc se /\ cnt = s_counter se + 1)).
  { intros k cnt [o' [r' [p' [Ho E]]]]. apply in_app_or in Ho. destruct Ho as [Ho | [Ho | []]].
    - left. exists o', r', p'. auto.
    - right. subst o'. cbn in E. inversion E; subst. auto. }
  assert (Hnew : forall x, In (na, x) (sessions (sess_put h na (bump se))) -> x = bump se).
  { intros x Hx. cbn [sess_put sessions set_sessions] in Hx. eapply alist_set_uniq; [exact U | exact Hx]. }
  split.
  - intros k cnt Hu na' se' Hin' Hk. destruct (Hu' _ _ Hu) as [Hu0 | [-> ->]].
    + destruct (HD _ _ Hin') as [se0 [H1 [H2 H3]]]. pose proof (A k cnt Hu0 na' se0 H1 (H2 k Hk)). lia.
    + destruct (HD _ _ Hin') as [se0 [H1 [H2 H3]]].
      assert (na' = na) by (exact (K _ _ _ _ _ H1 Hin (H2 _ Hk) Hkse)). subst na'.
      rewrite (Hnew _ Hin'). cbn. lia.
  - intros na' l r0 Hl Hr. apply PktOK_app. exact (B _ _ _ Hl Hr).
  - intros na1 se1 na2 se2 k H1 H2 K1 K2.
    destruct (HD _ _ H1) as [sa [Ha [Ia _]]]. destruct (HD _ _ H2) as [sb [Hb [Ib _]]].
    exact (K _ _ _ _ k Ha Hb (Ia k K1) (Ib k K2)).
  - apply HU. exact U.
  - intros o1 o2 k n p1 p2 H1 H2 E1 E2.
    apply in_app_or in H1. apply in_app_or in H2.
    assert (Hclash : forall o p, In o H -> cpkt_of o = Some (s_enc se, (s_counter se + 1, r), p) -> False).
    { intros o p Ho E. assert (Hu : Used H (s_enc se) (s_counter se + 1)) by (exists o, r, p; auto).
      pose proof (A _ _ Hu na se Hin Hkse). lia. }
    destruct H1 as [H1 | [H1 | []]]; destruct H2 as [H2 | [H2 | []]].
    + exact (D _ _ _ _ _ _ H1 H2 E1 E2).
    + subst o2. cbn in E2. inversion E2; subst. exfalso. exact (Hclash _ _ H1 E1).
    + subst o1. cbn in E1. inversion E1; subst. exfalso. exact (Hclash _ _ H2 E2).
    + subst o1 o2. cbn in E1, E2. congruence.
  - intros na' se' k Hin' Hk. destruct (HD _ _ Hin') as [se0 [H1 [H2 _]]]. exact (G1 _ _ _ H1 (H2 k Hk)).
  - intros k cnt Hu. destruct (Hu' _ _ Hu) as [Hu0 | [-> _]]; [exact (G2 _ _ Hu0) | exact (G1 _ _ _ Hin Hkse)].
Qed.

(* ------------------------------------------------------------------------------------------ *)
(* the invariant on the step monad: history before the step ++ outputs so far *)

Definition JJ (hist : list output) (G : list key) (s : st) : Prop := J (hist ++ outs s) G (hs s).
Definition JP (s s' : st) : Prop := forall hist G, JJ hist G s -> JJ hist G s'.
Lemma JP_refl s : JP s s.
Proof. intros hist G H; exact H. Qed.
Lemma JP_trans a b d : JP a b -> JP b d -> JP a d.
Proof. intros H1 H2 hist G H. apply H2. apply H1. exact H. Qed.

Lemma JJ_with_hs hist G s h :
  JJ hist G s -> SessD (hs s) h -> UPres (hs s) h -> ActSubP (hist ++ outs s) (hs s) h -> JJ hist G (with_hs s h).
Proof. intros HJ HD HU HA. unfold JJ. cbn [hs outs with_hs]. eapply J_state; eauto. Qed.
Lemma JJ_with_hs_QH hist G s h :
  JJ hist G s -> QH (hs s) h -> ActSubP (hist ++ outs s) (hs s) h -> JJ hist G (with_hs s h).
Proof. intros HJ [_ [HD HU]] HA. apply JJ_with_hs; assumption. Qed.
Lemma JJ_dr hist G s d : JJ hist G s -> JJ hist G {| hs := hs s; dr := d; outs := outs s |}.
Proof. intros H; exact H. Qed.
Lemma JJ_emit_none hist G s o : JJ hist G s -> cpkt_of o = None -> JJ hist G (emit s o).
Proof. intros HJ Hn. unfold JJ. cbn [emit outs hs]. rewrite app_assoc. apply J_emit_none; assumption. Qed.
Lemma JJ_emit_event hist G s e : JJ hist G s -> JJ hist G (emit s (OEvent e)).
Proof. intros HJ. apply JJ_emit_none; [exact HJ | reflexivity]. Qed.
Lemma JJ_send_pkt hist G s na p :
  JJ hist G s -> (is_cpkt p -> InH (hist ++ outs s) p) -> JJ hist G (send s na p).
Proof. intros HJ Hp. unfold JJ, send. cbn [emit outs hs]. rewrite app_assoc. apply J_emit_pkt; assumption. Qed.

(* the expected-responses table is not part of the invariant *)
Lemma JJ_add_expected hist G s a : JJ hist G s -> JJ hist G (add_expected s a).
Proof.
  intros HJ. unfold add_expected. apply JJ_with_hs; [exact HJ | apply SessD_same; reflexivity |
    apply UPres_same; reflexivity | apply ActSubP_same; reflexivity].
Qed.
Lemma JJ_remove_expected hist G s a : JJ hist G s -> JJ hist G (remove_expected s a).
Proof.
  intros HJ. unfold remove_expected. apply JJ_with_hs; [exact HJ | apply SessD_same; reflexivity |
    apply UPres_same; reflexivity | apply ActSubP_same; reflexivity].
Qed.

(* events only *)
Lemma JJ_events hist G s s' :
  JJ hist G s -> QH (hs s) (hs s') -> ActSubP (hist ++ outs s) (hs s) (hs s') ->
  OutsExt (fun o => cpkt_of o = None) s s' -> JJ hist G s'.
Proof.
  intros HJ [_ [HD HU]] HA [l [El Fl]]. unfold JJ in *. rewrite El.
  assert (H1 : J (hist ++ outs s) G (hs s')) by (eapply J_state; eauto).
  clear HJ HA El. rewrite app_assoc. induction l as [| o l IH] using rev_ind; [rewrite app_nil_r; exact H1 |].
  rewrite app_assoc. apply Forall_app in Fl. destruct Fl as [Fl Fo]. inversion Fo; subst.
  apply J_emit_none; [apply IH; exact Fl | assumption].
Qed.
Lemma failed_out_none o : failed_out o -> cpkt_of o = None.
Proof. destruct o as [[] |]; cbn; tauto. Qed.

(* ------------------------------------------------------------------------------------------ *)
(* the active-requests table: where requests come from *)

Lemma remove_first_In {A} (p : A -> bool) l x l' :
  remove_first p l = Some (x, l') -> In x l /\ incl l' l.
Proof.
  revert x l'. induction l as [| a l IH]; cbn [remove_first]; [discriminate |].
  intros x l'. destruct (p a).
  - intros H; inversion H; subst. split; [left; reflexivity | apply incl_tl; apply incl_refl].
  - destruct (remove_first p l) as [[y r] |]; [| discriminate]. intros H; inversion H; subst.
    destruct (IH _ _ eq_refl) as [H1 H2]. split; [right; exact H1 |].
    intros z [Hz | Hz]; [left; exact Hz | right; apply H2; exact Hz].
Qed.

Lemma In_put_list na l act na' l' :
  In (na', l') (put_list na l act) -> In (na', l') act \/ l' = l.
Proof.
  unfold put_list. destruct l as [| x l0].
  - intros H. left. eapply In_alist_remove; eauto.
  - intros H. apply In_alist_set in H. destruct H as [H | H]; [right; inversion H; reflexivity | left; exact H].
Qed.

(* ar_insert: the old requests and the new one *)
Lemma ActSubP_ar_insert H c h na r now : PktOK H r -> ActSubP H h (ar_insert c h na r now).
Proof.
  intros Hr na' l r' Hin Hr'. unfold ar_insert in Hin. cbn [active set_active] in Hin.
  destruct (alist_get na (active h)) as [cur |] eqn:Eg.
  - apply In_alist_set in Hin. destruct Hin as [Hin | Hin].
    + inversion Hin; subst. apply in_app_or in Hr'. destruct Hr' as [Hr' | [Hr' | []]].
      * left. exists na, cur. split; [apply alist_get_In; exact Eg | exact Hr'].
      * subst. right. exact Hr.
    + left. eauto.
  - apply in_app_or in Hin. destruct Hin as [Hin | [Hin | []]].
    + left. eauto.
    + inversion Hin; subst. destruct Hr' as [Hr' | []]. subst. right. exact Hr.
Qed.

Lemma ActSubP_ar_remove_by_nonce H h n : ActSubP H h (fst (ar_remove_by_nonce h n)).
Proof.
  unfold ar_remove_by_nonce. destruct (nmap_get n (nmap h)) as [na |]; [| apply ActSubP_same; reflexivity].
  destruct (alist_get na (active h)) as [l |] eqn:Eg; [| apply ActSubP_same; reflexivity].
  destruct (remove_first _ l) as [[r l'] |] eqn:Er; cbn [fst].
  - intros na' l0 r' Hin Hr'. cbn [active set_active] in Hin. left.
    apply In_put_list in Hin. destruct Hin as [Hin | ->]; [eauto |].
    destruct (remove_first_In _ _ _ _ Er) as [_ Hi]. exists na, l. split; [apply alist_get_In; exact Eg | apply Hi; exact Hr'].
  - intros na' l0 r' Hin Hr'. cbn [active set_active] in Hin. left.
    apply In_put_list in Hin. destruct Hin as [Hin | ->]; [eauto |].
    exists na, l. split; [apply alist_get_In; exact Eg | exact Hr'].
Qed.
Lemma ar_remove_by_nonce_found h n na r :
  snd (ar_remove_by_nonce h n) = Some (na, r) -> exists na0 l0, In (na0, l0) (active h) /\ In r l0.
Proof.
  unfold ar_remove_by_nonce. destruct (nmap_get n (nmap h)) as [na1 |]; [| discriminate].
  destruct (alist_get na1 (active h)) as [l |] eqn:Eg; [| discriminate].
  destruct (remove_first _ l) as [[r0 l'] |] eqn:Er; cbn [snd]; [| discriminate].
  intros E; inversion E; subst. destruct (remove_first_In _ _ _ _ Er) as [Hi _].
  exists na, l. split; [apply alist_get_In; exact Eg | exact Hi].
Qed.

Lemma ActSubP_ar_remove_request H h na rid : ActSubP H h (fst (ar_remove_request h na rid)).
Proof.
  unfold ar_remove_request. destruct (alist_get na (active h)) as [l |] eqn:Eg; [| apply ActSubP_same; reflexivity].
  destruct (remove_first _ l) as [[r l'] |] eqn:Er; cbn [fst]; [| apply ActSubP_same; reflexivity].
  intros na' l0 r' Hin Hr'. cbn [active set_active] in Hin. left.
  apply In_put_list in Hin. destruct Hin as [Hin | ->]; [eauto |].
  destruct (remove_first_In _ _ _ _ Er) as [_ Hi]. exists na, l. split; [apply alist_get_In; exact Eg | apply Hi; exact Hr'].
Qed.
Lemma ar_remove_request_found h na rid r :
  snd (ar_remove_request h na rid) = Some r -> exists na0 l0, In (na0, l0) (active h) /\ In r l0.
Proof.
  unfold ar_remove_request. destruct (alist_get na (active h)) as [l |] eqn:Eg; [| discriminate].
  destruct (remove_first _ l) as [[r0 l'] |] eqn:Er; cbn [snd]; [| discriminate].
  intros E; inversion E; subst. destruct (remove_first_In _ _ _ _ Er) as [Hi _].
  exists na, l. split; [apply alist_get_In; exact Eg | exact Hi].
Qed.

Lemma ActSubP_ar_remove_requests H h na : ActSubP H h (fst (ar_remove_requests h na)).
Proof.
  unfold ar_remove_requests. destruct (alist_get na (active h)) as [l |]; [| apply ActSubP_same; reflexivity].
  cbn [fst]. intros na' l0 r' Hin Hr'. cbn [active set_active] in Hin. left.
  apply In_alist_remove in Hin. eauto.
Qed.

(* ar_update_packet: old requests, or an old request with the new packet *)
Lemma ActSubP_ar_update_packet H c h old p now :
  (is_cpkt p -> InH H p) -> ActSubP H h (ar_update_packet c h old p now).
Proof.
  intros Hp. unfold ar_update_packet. destruct (nmap_get old (nmap h)) as [na |]; [| apply ActSubP_same; reflexivity].
  destruct (alist_get na (active h)) as [l |] eqn:Eg; [| apply ActSubP_same; reflexivity].
  intros na' l0 r' Hin Hr'. cbn [active set_active] in Hin.
  apply In_alist_set in Hin. destruct Hin as [Hin | Hin]; [| left; eauto].
  inversion Hin; subst na' l0. clear Hin.
  assert (Hupd : forall l1 done r1,
            In r1 ((fix upd (l : list rcall) (done : bool) : list rcall :=
                      match l with
                      | [] => []
                      | r :: rest =>
                        if negb done && nonce_eqb (rc_nonce r) old then
                          {| rc_contact := rc_contact r; rc_pkt := p; rc_ext := rc_ext r; rc_rid := rc_rid r;
                             rc_body := rc_body r; rc_hs_sent := rc_hs_sent r; rc_retries := rc_retries r;
                             rc_remaining := rc_remaining r; rc_init := rc_init r |} :: upd rest true
                        else r :: upd rest done
                      end) l1 done) -> In r1 l1 \/ rc_pkt r1 = p).
  { induction l1 as [| x l1 IH]; intros done r1; [intros [] |].
    destruct (negb done && nonce_eqb (rc_nonce x) old).
    - intros [H1 | H1]; [right; subst; reflexivity |]. destruct (IH _ _ H1); [left; right; assumption | right; assumption].
    - intros [H1 | H1]; [left; left; exact H1 |]. destruct (IH _ _ H1); [left; right; assumption | right; assumption]. }
  destruct (Hupd _ _ _ Hr') as [H1 | H1].
  - left. exists na, l. split; [apply alist_get_In; exact Eg | exact H1].
  - right. unfold PktOK. rewrite H1. exact Hp.
Qed.
