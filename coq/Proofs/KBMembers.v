(* Where the (key, value) pairs of a routing table come from: every operation of Model/KBucket.v
   only moves, drops or re-labels the pairs that are there, except for the pair it is given.
   Used by Proofs/Serve.v (C11, C14) and Proofs/Admission.v (C12). *)
From Coq Require Import List Arith NArith Bool Lia.
From Discv5V Require Import Generated.Params Lib.ListX Model.KBucket.
Import ListNotations.

Definition kv (n : node) : N * val := (nkey n, nval n).

(* the pairs of a bucket: its nodes and its pending node *)
Definition bmem (b : bucket) : list (N * val) :=
  map kv (nodes b) ++ match pend b with Some p => [kv (pn p)] | None => [] end.
Definition tmem (t : table) : list (N * val) := flat_map bmem (buckets t).

Lemma In_bmem b x :
  In x (bmem b) <-> (exists n, In n (nodes b) /\ kv n = x) \/ (exists p, pend b = Some p /\ kv (pn p) = x).
Proof.
  unfold bmem. rewrite in_app_iff, in_map_iff. split.
  - intros [(n & H1 & H2)|H]; [left; eauto|]. right. destruct (pend b) as [p|]; simpl in H; [|tauto].
    destruct H as [H|[]]. eauto.
  - intros [(n & H1 & H2)|(p & H1 & H2)]; [left; eauto|]. right. rewrite H1. simpl. auto.
Qed.

Lemma kv_set_stamp n now : kv (set_stamp n now) = kv n.
Proof. reflexivity. Qed.

Lemma position_nth_error k l pos old :
  position k l = Some pos -> nth_error l pos = Some old -> nkey old = k /\ In old l.
Proof.
  unfold position. intros Hp Hn. split; [|eapply nth_error_In; eauto].
  destruct (find_index_some _ _ _ Hp) as (Hlt & Hk & _).
  specialize (Hk old). rewrite (nth_error_nth _ _ _ Hn) in Hk. now apply N.eqb_eq in Hk.
Qed.

Lemma position_some_in k l pos : position k l = Some pos -> exists old, nth_error l pos = Some old /\ nkey old = k /\ In old l.
Proof.
  intros Hp. destruct (find_index_some _ _ _ Hp) as (Hlt & _ & _).
  destruct (nth_error l pos) as [old|] eqn:E.
  - exists old. split; [reflexivity|]. eapply position_nth_error; eauto.
  - apply nth_error_None in E. lia.
Qed.

(* ------------------------------------------------------------------------------------------ *)
(* buckets *)

Ltac bm := unfold bmem; cbn [nodes pend fcp]; repeat rewrite in_app_iff; repeat rewrite in_map_iff.

Lemma bmem_same_nodes_pend b b' :
  nodes b' = nodes b -> pend b' = pend b -> bmem b' = bmem b.
Proof. intros H1 H2. unfold bmem. now rewrite H1, H2. Qed.

Lemma b_insert_mem c b n0 now x :
  In x (bmem (fst (b_insert c b n0 now))) -> In x (bmem b) \/ x = kv n0.
Proof.
  unfold b_insert.
  set (n := set_stamp n0 now).
  assert (Hn : kv n = kv n0) by reflexivity.
  assert (Hclear : forall (flag : bool) b', In x (bmem (if flag then {| nodes := nodes b'; fcp := fcp b'; pend := None |} else b')) -> In x (bmem b')).
  { intros [|] b'; [|auto]. bm. intros [H|[]]. now left. }
  assert (Happ : forall f p0, In x (bmem {| nodes := nodes b ++ [n]; fcp := f; pend := p0 |}) ->
                  p0 = pend b -> In x (bmem b) \/ x = kv n0).
  { intros f p0 H ->. revert H. bm. intros [(m & Hm & Hin)|H].
    - apply in_app_iff in Hin. destruct Hin as [Hin|[<-|[]]]; [left; left; eauto|right; congruence].
    - left. now right. }
  assert (Hpend : forall f pp, In x (bmem {| nodes := nodes b; fcp := f; pend := Some {| pn := n; preplace := pp |} |}) ->
                  In x (bmem b) \/ x = kv n0).
  { intros f pp. bm. intros [H|[<-|[]]]; [left; left; exact H|right; exact Hn]. }
  destruct (position (nkey n) (nodes b)); [auto|].
  destruct (negb (run_filter _ _ _)); [auto|].
  destruct (nconn n).
  - destruct (nin n && is_max_incoming c b); [auto|].
    destruct (is_full b).
    + destruct (fcp b) as [[|q]|], (pend b) eqn:Ep; cbn [fst]; auto;
        destruct (nodes b) eqn:En; cbn [fst]; auto; apply Hpend.
    + cbn [fst]. intros H. apply Hclear in H. eapply Happ; eauto.
  - destruct (is_full b); [auto|].
    destruct (fcp b) as [p|]; cbn [fst]; intros H; apply Hclear in H.
    + revert H. bm. intros [(m & Hm & Hin)|H].
      * apply In_insert_at in Hin. destruct Hin as [->|Hin]; [right; congruence|left; left; eauto].
      * left. now right.
    + eapply Happ; eauto.
Qed.

Lemma bmem_node b n : In n (nodes b) -> In (kv n) (bmem b).
Proof. intros H. apply In_bmem. left. eauto. Qed.
Lemma bmem_pend b p : pend b = Some p -> In (kv (pn p)) (bmem b).
Proof. intros H. apply In_bmem. right. eauto. Qed.

(* destructs a membership hypothesis of a literal bucket *)
Ltac bmh H :=
  apply In_bmem in H; cbn [nodes pend fcp] in H;
  let m := fresh "m" in let Hm := fresh "Hm" in let pp := fresh "pp" in
  destruct H as [(m & Hm & <-)|(pp & Hm & <-)].

Lemma b_apply_pending_mem c b now x :
  In x (bmem (fst (b_apply_pending c b now))) -> In x (bmem b).
Proof.
  unfold b_apply_pending. destruct (pend b) as [p|] eqn:Ep; [|auto].
  set (b0 := {| nodes := nodes b; fcp := fcp b; pend := None |}).
  assert (H0 : forall y, In y (bmem b0) -> In y (bmem b)).
  { intros y Hy. unfold b0 in Hy. bmh Hy; [now apply bmem_node|discriminate]. }
  assert (Hp : In (kv (pn p)) (bmem b)) by now apply bmem_pend.
  destruct (N.leb (preplace p) now); [|auto].
  destruct (is_full b0).
  - destruct (nodes b0) as [|h rest] eqn:En; [cbn [fst]; auto|].
    assert (Hrest : forall m, In m rest -> In (kv m) (bmem b)).
    { intros m Hm. apply H0. apply bmem_node. rewrite En. now right. }
    destruct (nconn h); [cbn [fst]; auto|].
    destruct (negb _); [cbn [fst]; auto|].
    destruct (_ && _ && _); [cbn [fst]; auto|].
    destruct (nconn (set_stamp (pn p) now)).
    + cbn [fst]. intros H. bmh H; [|discriminate]. apply in_app_iff in Hm.
      destruct Hm as [Hm|[<-|[]]]; auto.
    + destruct (fcp b0) as [[|q]|]; cbn [fst]; auto.
      * intros H. bmh H; [|discriminate]. apply In_insert_at in Hm. destruct Hm as [->|Hm]; auto.
      * intros H. bmh H; [|discriminate]. apply in_app_iff in Hm. destruct Hm as [Hm|[<-|[]]]; auto.
  - destruct (b_insert c b0 (pn p) now) as [b1 r] eqn:Ei.
    assert (H1 : forall y, In y (bmem b1) -> In y (bmem b)).
    { intros y Hy. replace b1 with (fst (b_insert c b0 (pn p) now)) in Hy by now rewrite Ei.
      apply b_insert_mem in Hy. destruct Hy as [Hy| ->]; auto. }
    destruct r; cbn [fst]; auto.
Qed.

Lemma b_update_status_mem c b k conn dir now x :
  In x (bmem (fst (b_update_status c b k conn dir now))) -> In x (bmem b).
Proof.
  unfold b_update_status. destruct (position k (nodes b)) as [pos|] eqn:Epos.
  - destruct (nth_error (nodes b) pos) as [old|] eqn:Eold; [|auto].
    destruct (position_nth_error _ _ _ _ Epos Eold) as (Hk & Hin).
    match goal with |- context [b_insert c ?b1 ?n now] => set (B1 := b1); set (nn := n) end.
    assert (H1 : forall y, In y (bmem B1) -> In y (bmem b)).
    { intros y Hy. unfold B1 in Hy. bmh Hy.
      - apply bmem_node. eapply In_remove_at; eauto.
      - apply bmem_pend. destruct (Nat.eqb pos 0 && conn); [discriminate|exact Hm]. }
    assert (Hn : In (kv nn) (bmem b)) by (apply (bmem_node b old); exact Hin).
    intros H.
    assert (H' : In x (bmem (fst (b_insert c B1 nn now)))).
    { destruct (b_insert c B1 nn now) as [b2 r]; destruct r; exact H. }
    apply b_insert_mem in H'. destruct H' as [H'| ->]; auto.
  - destruct (pend b) as [p|] eqn:Ep; [|auto].
    destruct (N.eqb (nkey (pn p)) k); [|auto].
    cbn [fst]. intros H. bmh H; [now apply bmem_node|].
    inversion Hm; subst pp. apply (bmem_pend b p Ep).
Qed.

(* update_value: the only new pair is (k, v), and only under a key that is already there *)
Lemma b_update_value_mem c b k v x :
  In x (bmem (fst (b_update_value c b k v))) ->
  In x (bmem b) \/ (x = (k, v) /\ exists v0, In (k, v0) (bmem b)).
Proof.
  unfold b_update_value. destruct (position k (nodes b)) as [pos|] eqn:Epos.
  - destruct (nth_error (nodes b) pos) as [old|] eqn:Eold; [|auto].
    destruct (position_nth_error _ _ _ _ Epos Eold) as (Hk & Hin).
    assert (Hold : In (k, nval old) (bmem b)).
    { rewrite <- Hk. apply (bmem_node b old Hin). }
    destruct (val_eqb (nval old) v); [auto|].
    destruct (negb _); cbn [fst]; intros H; bmh H.
    + left. apply bmem_node. eapply In_remove_at; eauto.
    + left. now apply bmem_pend.
    + apply In_insert_at in Hm. destruct Hm as [->|Hm].
      * right. split; [unfold kv, set_val; cbn; now rewrite Hk|eauto].
      * left. apply bmem_node. eapply In_remove_at; eauto.
    + left. now apply bmem_pend.
  - destruct (pend b) as [p|] eqn:Ep; [|auto].
    destruct (N.eqb (nkey (pn p)) k) eqn:Ek; [|auto]. apply N.eqb_eq in Ek.
    cbn [fst]. intros H. bmh H; [left; now apply bmem_node|].
    inversion Hm; subst pp. right. split; [unfold kv, set_val; cbn; now rewrite Ek|].
    exists (nval (pn p)). rewrite <- Ek. apply (bmem_pend b p Ep).
Qed.

Lemma b_remove_mem c b k now x :
  In x (bmem (fst (b_remove c b k now))) -> In x (bmem b).
Proof.
  unfold b_remove. destruct (position k (nodes b)) as [pos|]; [|auto]. cbn [fst].
  intros H. apply b_apply_pending_mem in H. bmh H.
  - apply bmem_node. eapply In_remove_at; eauto.
  - now apply bmem_pend.
Qed.

Lemma b_update_pending_mem b conn inc x :
  In x (bmem (b_update_pending b conn inc)) -> In x (bmem b).
Proof.
  unfold b_update_pending. destruct (pend b) as [p|] eqn:Ep; [|auto].
  intros H. bmh H; [now apply bmem_node|]. inversion Hm; subst pp. apply (bmem_pend b p Ep).
Qed.

(* ------------------------------------------------------------------------------------------ *)
(* tables *)

Lemma get_bucket_mem t i x : In x (bmem (get_bucket t i)) -> In x (tmem t).
Proof.
  unfold get_bucket, tmem. intros H. apply in_flat_map.
  destruct (Nat.lt_ge_cases i (length (buckets t))) as [Hlt|Hge].
  - exists (nth i (buckets t) empty_bucket). split; [apply nth_In; exact Hlt|exact H].
  - rewrite nth_overflow in H by exact Hge. destruct H.
Qed.

Lemma In_upd_at {A} i (f : A -> A) l y :
  In y (upd_at i f l) -> In y l \/ exists z, nth_error l i = Some z /\ y = f z.
Proof.
  revert i; induction l as [|a l IH]; intros [|i]; simpl; try tauto.
  - intros [<-|H]; [right; eauto|left; now right].
  - intros [<-|H]; [left; now left|]. destruct (IH _ H) as [H'|H']; [left; now right|right; exact H'].
Qed.

Lemma set_bucket_mem t i b app x :
  In x (tmem (set_bucket t i b app)) -> In x (bmem b) \/ In x (tmem t).
Proof.
  unfold tmem, set_bucket. cbn [buckets]. intros H. apply in_flat_map in H.
  destruct H as (b' & Hb' & Hx). apply In_upd_at in Hb'.
  destruct Hb' as [Hb'|(z & _ & ->)]; [right; apply in_flat_map; eauto|left; exact Hx].
Qed.

Lemma set_bucket_local t i b app : local (set_bucket t i b app) = local t.
Proof. reflexivity. Qed.

Lemma get_set_bucket_same t i b app :
  (i < length (buckets t))%nat -> get_bucket (set_bucket t i b app) i = b.
Proof. intros H. unfold get_bucket, set_bucket. cbn [buckets]. now rewrite nth_upd_at_same. Qed.

Lemma get_set_bucket_other t i j b app :
  i <> j -> get_bucket (set_bucket t i b app) j = get_bucket t j.
Proof. intros H. unfold get_bucket, set_bucket. cbn [buckets]. now rewrite nth_upd_at_other. Qed.

Lemma get_set_bucket_overflow t i b app :
  (length (buckets t) <= i)%nat -> get_bucket (set_bucket t i b app) i = empty_bucket.
Proof.
  intros H. unfold get_bucket, set_bucket. cbn [buckets].
  apply nth_overflow. now rewrite upd_at_length.
Qed.

Lemma set_bucket_length t i b app : length (buckets (set_bucket t i b app)) = length (buckets t).
Proof. unfold set_bucket. cbn [buckets]. apply upd_at_length. Qed.

Lemma applied_bucket_mem c t i now x :
  In x (bmem (fst (applied_bucket c t i now))) -> In x (tmem t).
Proof.
  unfold applied_bucket. destruct (b_apply_pending c (get_bucket t i) now) as [b a] eqn:E.
  cbn [fst]. intros H. apply (get_bucket_mem t i).
  replace b with (fst (b_apply_pending c (get_bucket t i) now)) in H by now rewrite E.
  now apply b_apply_pending_mem in H.
Qed.

Lemma bucket_index_not_self loc k i : bucket_index loc k = Some i -> k <> loc.
Proof.
  unfold bucket_index. intros H ->. rewrite N.lxor_nilpotent in H. discriminate.
Qed.

(* a uniform way to use the bucket lemmas at table level *)
Lemma set_applied_mem c t i now (b' : bucket) app x (P : Prop) :
  (forall y, In y (bmem b') -> In y (bmem (fst (applied_bucket c t i now))) \/ P) ->
  In x (tmem (set_bucket t i b' app)) -> In x (tmem t) \/ (In x (bmem b') /\ P).
Proof.
  intros Hb H. apply set_bucket_mem in H. destruct H as [H|H]; [|now left].
  destruct (Hb _ H) as [H'|HP]; [left; eapply applied_bucket_mem; eauto|right; auto].
Qed.

Lemma t_update_node_status_mem c t k conn dir now x :
  In x (tmem (fst (t_update_node_status c t k conn dir now))) -> In x (tmem t).
Proof.
  unfold t_update_node_status. destruct (bucket_index (local t) k) as [i|]; [|auto].
  destruct (applied_bucket c t i now) as [b app] eqn:Ea.
  destruct (b_update_status c b k conn dir now) as [b' r] eqn:Eu. cbn [fst].
  intros H. apply set_bucket_mem in H. destruct H as [H|H]; [|exact H].
  replace b' with (fst (b_update_status c b k conn dir now)) in H by now rewrite Eu.
  apply b_update_status_mem in H.
  apply (applied_bucket_mem c t i now). now rewrite Ea.
Qed.

Lemma t_update_node_status_local c t k conn dir now :
  local (fst (t_update_node_status c t k conn dir now)) = local t.
Proof.
  unfold t_update_node_status. destruct (bucket_index (local t) k) as [i|]; [|auto].
  destruct (applied_bucket c t i now) as [b app]. destruct (b_update_status c b k conn dir now). reflexivity.
Qed.

Lemma t_remove_mem c t k now x : In x (tmem (fst (t_remove c t k now))) -> In x (tmem t).
Proof.
  unfold t_remove. destruct (bucket_index (local t) k) as [i|]; [|auto].
  destruct (applied_bucket c t i now) as [b app] eqn:Ea.
  destruct (b_remove c b k now) as [b' r] eqn:Eu. cbn [fst].
  intros H. apply set_bucket_mem in H. destruct H as [H|H]; [|exact H].
  replace b' with (fst (b_remove c b k now)) in H by now rewrite Eu.
  apply b_remove_mem in H. apply (applied_bucket_mem c t i now). now rewrite Ea.
Qed.

Lemma t_remove_local c t k now : local (fst (t_remove c t k now)) = local t.
Proof.
  unfold t_remove. destruct (bucket_index (local t) k) as [i|]; [|auto].
  destruct (applied_bucket c t i now) as [b app]. destruct (b_remove c b k now). reflexivity.
Qed.

(* insert_or_update: the only new pair is (k, v), and k is not the local key *)
Lemma t_insert_or_update_mem c t k v conn inc now x :
  In x (tmem (fst (t_insert_or_update c t k v conn inc now))) ->
  In x (tmem t) \/ (x = (k, v) /\ k <> local t).
Proof.
  unfold t_insert_or_update.
  destruct (bucket_index (local t) k) as [i|] eqn:Ei; [|auto].
  pose proof (bucket_index_not_self _ _ _ Ei) as Hself.
  destruct (applied_bucket c t i now) as [b app] eqn:Ea.
  assert (Hb : forall y, In y (bmem b) -> In y (tmem t)).
  { intros y Hy. apply (applied_bucket_mem c t i now). now rewrite Ea. }
  destruct (negb _).
  - cbn [fst]. intros H. apply set_bucket_mem in H. destruct H as [H|H]; [|auto].
    apply b_remove_mem in H. auto.
  - destruct (position k (nodes b)).
    + destruct (b_update_status c b k conn (Some inc) now) as [b1 sr] eqn:Es.
      assert (Hb1 : forall y, In y (bmem b1) -> In y (tmem t)).
      { intros y Hy. replace b1 with (fst (b_update_status c b k conn (Some inc) now)) in Hy by now rewrite Es.
        apply b_update_status_mem in Hy. auto. }
      assert (Hfin : In x (tmem (set_bucket t i (fst (b_update_value c b1 k v)) app)) ->
                     In x (tmem t) \/ x = (k, v) /\ k <> local t).
      { intros H. apply set_bucket_mem in H. destruct H as [H|H]; [|auto].
        apply b_update_value_mem in H. destruct H as [H|(-> & _)]; auto. }
      destruct sr; cbn [fst];
        try (destruct (b_update_value c b1 k v) as [b2 vr]; cbn [fst] in *; exact Hfin).
      intros H. apply set_bucket_mem in H. destruct H as [H|H]; auto.
    + match goal with |- context [b_insert c b ?n now] => set (nn := n) end.
      destruct (b_insert c b nn now) as [b' r] eqn:Eb. cbn [fst].
      intros H. apply set_bucket_mem in H. destruct H as [H|H]; [|auto].
      replace b' with (fst (b_insert c b nn now)) in H by now rewrite Eb.
      apply b_insert_mem in H. destruct H as [H| ->]; auto.
Qed.

Lemma t_insert_or_update_local c t k v conn inc now :
  local (fst (t_insert_or_update c t k v conn inc now)) = local t.
Proof.
  unfold t_insert_or_update. destruct (bucket_index (local t) k) as [i|]; [|auto].
  destruct (applied_bucket c t i now) as [b app]. destruct (negb _); [reflexivity|].
  destruct (position k (nodes b)).
  - destruct (b_update_status c b k conn (Some inc) now) as [b1 sr].
    destruct sr; try reflexivity; destruct (b_update_value c b1 k v); reflexivity.
  - destruct (b_insert c b _ now). reflexivity.
Qed.

(* update_node: the only new pair is (k, v), under a key that was already in the table *)
Lemma t_update_node_mem c t k v state now x :
  In x (tmem (fst (t_update_node c t k v state now))) ->
  In x (tmem t) \/ (x = (k, v) /\ k <> local t /\ exists v0, In (k, v0) (tmem t)).
Proof.
  unfold t_update_node.
  destruct (bucket_index (local t) k) as [i|] eqn:Ei; [|auto].
  pose proof (bucket_index_not_self _ _ _ Ei) as Hself.
  destruct (applied_bucket c t i now) as [b app] eqn:Ea.
  assert (Hb : forall y, In y (bmem b) -> In y (tmem t)).
  { intros y Hy. apply (applied_bucket_mem c t i now). now rewrite Ea. }
  destruct (negb _).
  - cbn [fst]. intros H. apply set_bucket_mem in H. destruct H as [H|H]; [|auto].
    apply b_remove_mem in H. auto.
  - destruct (b_update_value c b k v) as [b1 ur] eqn:Eu.
    assert (Hb1 : forall y, In y (bmem b1) -> In y (tmem t) \/ (y = (k, v) /\ k <> local t /\ exists v0, In (k, v0) (tmem t))).
    { intros y Hy. replace b1 with (fst (b_update_value c b k v)) in Hy by now rewrite Eu.
      apply b_update_value_mem in Hy. destruct Hy as [Hy|(-> & v0 & Hv0)]; [auto|].
      right. split; [reflexivity|]. split; [exact Hself|]. exists v0. auto. }
    assert (Hsame : In x (tmem (set_bucket t i b1 app)) -> In x (tmem t) \/ (x = (k, v) /\ k <> local t /\ exists v0, In (k, v0) (tmem t))).
    { intros H. apply set_bucket_mem in H. destruct H as [H|H]; auto. }
    assert (Hstat : forall s, In x (tmem (set_bucket t i (fst (b_update_status c b1 k s None now)) app)) ->
                    In x (tmem t) \/ (x = (k, v) /\ k <> local t /\ exists v0, In (k, v0) (tmem t))).
    { intros s H. apply set_bucket_mem in H. destruct H as [H|H]; [|auto].
      apply b_update_status_mem in H. auto. }
    destruct ur; try exact Hsame;
      (destruct state as [s|];
       [specialize (Hstat s); destruct (b_update_status c b1 k s None now) as [b2 sr]; cbn [fst] in *; exact Hstat
       |cbn [fst]; exact Hsame]).
Qed.

Lemma t_update_node_local c t k v state now :
  local (fst (t_update_node c t k v state now)) = local t.
Proof.
  unfold t_update_node. destruct (bucket_index (local t) k) as [i|]; [|auto].
  destruct (applied_bucket c t i now) as [b app]. destruct (negb _); [reflexivity|].
  destruct (b_update_value c b k v) as [b1 ur].
  destruct ur; try reflexivity;
    (destruct state as [s|]; [destruct (b_update_status c b1 k s None now)|]; reflexivity).
Qed.

(* entry + action: only AInsert brings a new pair *)
Lemma t_entry_mem c t k a now x :
  In x (tmem (fst (t_entry c t k a now))) ->
  In x (tmem t) \/ (exists v conn inc, a = AInsert v conn inc /\ x = (k, v) /\ k <> local t).
Proof.
  unfold t_entry.
  destruct (bucket_index (local t) k) as [i|] eqn:Ei; [|auto].
  pose proof (bucket_index_not_self _ _ _ Ei) as Hself.
  destruct (applied_bucket c t i now) as [b app] eqn:Ea.
  assert (Hb : forall y, In y (bmem b) -> In y (tmem t)).
  { intros y Hy. apply (applied_bucket_mem c t i now). now rewrite Ea. }
  assert (Hdef : In x (tmem (set_bucket t i b app)) -> In x (tmem t) \/ (exists v conn inc, a = AInsert v conn inc /\ x = (k, v) /\ k <> local t)).
  { intros H. apply set_bucket_mem in H. destruct H as [H|H]; auto. }
  assert (Hrem : In x (tmem (set_bucket t i (fst (b_remove c b k now)) app)) -> In x (tmem t) \/ (exists v conn inc, a = AInsert v conn inc /\ x = (k, v) /\ k <> local t)).
  { intros H. apply set_bucket_mem in H. destruct H as [H|H]; [|auto]. apply b_remove_mem in H. auto. }
  destruct (classify b k), a; cbn [fst]; try exact Hdef; try exact Hrem.
  - destruct (b_update_status c b k conn0 dir now) as [b' r] eqn:Eu. cbn [fst].
    intros H. apply set_bucket_mem in H. destruct H as [H|H]; [|auto].
    replace b' with (fst (b_update_status c b k conn0 dir now)) in H by now rewrite Eu.
    apply b_update_status_mem in H. auto.
  - intros H. apply set_bucket_mem in H. destruct H as [H|H]; [|auto].
    apply b_update_pending_mem in H. auto.
  - match goal with |- context [b_insert c b ?n now] => set (nn := n) end.
    destruct (b_insert c b nn now) as [b' r] eqn:Eb. cbn [fst].
    intros H. apply set_bucket_mem in H. destruct H as [H|H]; [|auto].
    replace b' with (fst (b_insert c b nn now)) in H by now rewrite Eb.
    apply b_insert_mem in H. destruct H as [H| ->]; [auto|].
    right. exists v, conn, inc. auto.
Qed.

Lemma t_entry_local c t k a now : local (fst (t_entry c t k a now)) = local t.
Proof.
  unfold t_entry. destruct (bucket_index (local t) k) as [i|]; [|auto].
  destruct (applied_bucket c t i now) as [b app].
  destruct (classify b k), a; cbn [fst]; try reflexivity.
  - destruct (b_update_status c b k conn0 dir now). reflexivity.
  - destruct (b_insert c b _ now). reflexivity.
Qed.

(* keys *)
Definition tkeys (t : table) : list N := map fst (tmem t).

Lemma In_tkeys t k : In k (tkeys t) <-> exists v, In (k, v) (tmem t).
Proof.
  unfold tkeys. rewrite in_map_iff. split.
  - intros ((k', v) & <- & H). eauto.
  - intros (v & H). exists (k, v). auto.
Qed.
