(* Proofs about the session-cache model Model/Lru.v (C15).

   Contents
   1. basic facts about find / del;
   2. the invariant of reachable caches under a monotone clock: keys distinct, stored times
      non-decreasing from the front to the back and not later than the clock;
   3. len_bounded, get_never_stale (and its refutation for the pinned get_mut), evicts_lru;
   4. the abstract specification (a finite map key -> (value, last-use time) with LRU eviction and
      the ttl test on every read access) and the refinement theorem;
   5. the stored time of an entry is the time of the last operation of the history that used it. *)
From Coq Require Import List NArith Bool Lia Sorted.
From Discv5V Require Import Model.Lru.
Import ListNotations.
Local Open Scope N_scope.

Definition keys (c : cache) : list N := map ekey c.
Definition wf (c : cache) : Prop := NoDup (keys c).
Definition tle (a b : entry) : Prop := etime a <= etime b.
Definition tsorted (c : cache) : Prop := StronglySorted tle c.
Definition bounded (c : cache) (hi : N) : Prop := Forall (fun e => etime e <= hi) c.
Definition inv (c : cache) (hi : N) : Prop := wf c /\ tsorted c /\ bounded c hi.

(* list facts *)
Lemma NoDup_snoc {A} (l : list A) x : NoDup l -> ~ In x l -> NoDup (l ++ [x]).
Proof.
  induction l as [|a l IH]; cbn [app]; intros ND NI; [constructor; [intros []|constructor]|].
  inversion ND; subst. constructor.
  - rewrite in_app_iff. cbn [In]. intros [H|[H|[]]]; [tauto|]. subst. apply NI. left. reflexivity.
  - apply IH; [assumption|]. intro H. apply NI. right. exact H.
Qed.

Lemma NoDup_app_l {A} (l1 l2 : list A) : NoDup (l1 ++ l2) -> NoDup l1.
Proof.
  induction l1 as [|a l IH]; cbn [app]; intro H; [constructor|]. inversion H; subst.
  constructor; [|apply IH; assumption]. intro Hi. apply H2. apply in_or_app. left. exact Hi.
Qed.

Lemma NoDup_app_disj {A} (l1 l2 : list A) x : NoDup (l1 ++ l2) -> In x l1 -> In x l2 -> False.
Proof.
  induction l1 as [|a l IH]; cbn [app In]; intros H H1 H2; [tauto|]. inversion H; subst.
  destruct H1 as [->|H1]; [|eauto]. apply H4. apply in_or_app. right. exact H2.
Qed.

(* ---------------------------------------------------------------------------------------------- *)
(* 1. find / del *)

Lemma find_app a b k :
  find (a ++ b) k = match find a k with Some x => Some x | None => find b k end.
Proof. induction a as [|e a IH]; cbn [find app]; [reflexivity|]. destruct (ekey e =? k); auto. Qed.

Lemma find_del_same c k : find (del c k) k = None.
Proof.
  induction c as [|e c IH]; cbn [del filter find]; [reflexivity|]. fold (del c k).
  destruct (ekey e =? k) eqn:E; cbn [negb]; [exact IH|]. cbn [find]. rewrite E. exact IH.
Qed.

Lemma find_del_other c k k' : k' <> k -> find (del c k) k' = find c k'.
Proof.
  intro H. induction c as [|e c IH]; cbn [del filter find]; [reflexivity|]. fold (del c k).
  destruct (ekey e =? k) eqn:E; cbn [negb].
  - apply N.eqb_eq in E. destruct (ekey e =? k') eqn:E'; [apply N.eqb_eq in E'; congruence|exact IH].
  - cbn [find]. destruct (ekey e =? k'); [reflexivity|exact IH].
Qed.

Lemma find_none_iff c k : find c k = None <-> ~ In k (keys c).
Proof.
  induction c as [|e c IH]; cbn [find keys map In]; [tauto|]. fold (keys c).
  destruct (ekey e =? k) eqn:E.
  - apply N.eqb_eq in E. split; [discriminate|]. intro H. exfalso. apply H. left. exact E.
  - apply N.eqb_neq in E. rewrite IH. tauto.
Qed.

Lemma find_some_in c k v t : find c k = Some (v, t) -> In (k, v, t) c.
Proof.
  induction c as [|e c IH]; cbn [find In]; [discriminate|].
  destruct (ekey e =? k) eqn:E.
  - apply N.eqb_eq in E. intro H. injection H as <- <-. left. destruct e as [[a b] d]. cbn in *. subst. reflexivity.
  - intro H. right. exact (IH H).
Qed.

Lemma in_find c k v t : wf c -> In (k, v, t) c -> find c k = Some (v, t).
Proof.
  unfold wf. induction c as [|e c IH]; cbn [find In keys map]; [tauto|]. fold (keys c).
  intros ND [->|H].
  - cbn. rewrite N.eqb_refl. reflexivity.
  - inversion ND as [|x l NI ND']; subst. destruct (ekey e =? k) eqn:E.
    + apply N.eqb_eq in E. exfalso. apply NI. rewrite E. change k with (ekey (k, v, t)). apply in_map. exact H.
    + exact (IH ND' H).
Qed.

Lemma keys_del c k : keys (del c k) = filter (fun x => negb (x =? k)) (keys c).
Proof.
  induction c as [|e c IH]; cbn [del filter keys map]; [reflexivity|]. fold (del c k) (keys c).
  destruct (ekey e =? k); cbn [negb keys map]; fold (keys (del c k)); rewrite IH; reflexivity.
Qed.

Lemma in_keys_del c k k' : In k' (keys (del c k)) <-> k' <> k /\ In k' (keys c).
Proof.
  rewrite keys_del, filter_In. split; intros [A B].
  - split; [|exact A]. apply negb_true_iff, N.eqb_neq in B. exact B.
  - split; [exact B|]. apply negb_true_iff, N.eqb_neq. exact A.
Qed.

Lemma wf_del c k : wf c -> wf (del c k).
Proof. unfold wf. rewrite keys_del. apply NoDup_filter. Qed.

Lemma in_del c k e : In e (del c k) -> In e c.
Proof. unfold del. rewrite filter_In. tauto. Qed.

Lemma SS_filter' {A} (R : A -> A -> Prop) p l : StronglySorted R l -> StronglySorted R (filter p l).
Proof.
  induction 1 as [|a l S IH F]; cbn [filter]; [constructor|].
  destruct (p a); [|exact IH]. constructor; [exact IH|].
  rewrite Forall_forall in *. intros x Hx. apply filter_In in Hx. apply F. tauto.
Qed.

Lemma tsorted_del c k : tsorted c -> tsorted (del c k).
Proof. apply SS_filter'. Qed.

Lemma bounded_del c k hi : bounded c hi -> bounded (del c k) hi.
Proof. unfold bounded. rewrite !Forall_forall. intros H e He. apply H. eapply in_del; eauto. Qed.

Lemma bounded_mono c hi hi' : hi <= hi' -> bounded c hi -> bounded c hi'.
Proof. unfold bounded. intros L. apply Forall_impl. intros; lia. Qed.

Lemma del_length_le c k : (length (del c k) <= length c)%nat.
Proof.
  unfold del. induction c as [|e c IH]; cbn [filter length]; [lia|].
  destruct (negb (ekey e =? k)); cbn [length]; lia.
Qed.

Lemma del_length_lt c k x : find c k = Some x -> (length (del c k) < length c)%nat.
Proof.
  induction c as [|e c IH]; cbn [find del filter length]; [discriminate|]. fold (del c k).
  destruct (ekey e =? k); cbn [negb length].
  - intros _. pose proof (del_length_le c k). lia.
  - intro H. specialize (IH H). lia.
Qed.

Lemma del_absent c k : find c k = None -> del c k = c.
Proof.
  induction c as [|e c IH]; cbn [find del filter]; [reflexivity|]. fold (del c k).
  destruct (ekey e =? k); [discriminate|]. cbn [negb]. intro H. rewrite (IH H). reflexivity.
Qed.

Lemma SS_snoc' {A} (R : A -> A -> Prop) l x :
  StronglySorted R l -> Forall (fun y => R y x) l -> StronglySorted R (l ++ [x]).
Proof.
  induction 1 as [|a l S IH F]; cbn [app]; intro Hx.
  - constructor; constructor.
  - inversion Hx; subst. constructor; [apply IH; assumption|].
    apply Forall_app. split; [exact F|]. constructor; [assumption|constructor].
Qed.

(* appending the refreshed / new entry at the back *)
Lemma inv_push c hi k v now :
  inv c hi -> hi <= now -> find c k = None -> inv (c ++ [(k, v, now)]) now.
Proof.
  intros (W & S & B) L F. split; [|split].
  - unfold wf, keys. rewrite map_app. cbn [map]. fold (keys c).
    apply NoDup_snoc; [exact W|apply find_none_iff; exact F].
  - apply SS_snoc'; [exact S|]. unfold bounded in B. revert B. apply Forall_impl. unfold tle. cbn. intros; lia.
  - unfold bounded. apply Forall_app. split.
    + eapply bounded_mono; eauto.
    + constructor; [cbn; lia|constructor].
Qed.

Lemma inv_del c hi k : inv c hi -> inv (del c k) hi.
Proof. intros (W & S & B). repeat split; auto using wf_del, tsorted_del, bounded_del. Qed.

Lemma inv_mono c hi hi' : hi <= hi' -> inv c hi -> inv c hi'.
Proof. intros L (W & S & B). repeat split; auto. eapply bounded_mono; eauto. Qed.

Lemma inv_tl c hi : inv c hi -> inv (tl c) hi.
Proof.
  intros (W & S & B). destruct c as [|e c]; [repeat split; assumption|]. cbn [tl].
  unfold wf, keys in *. cbn [map] in W. inversion W; inversion S; inversion B; subst. repeat split; assumption.
Qed.

(* set_val keeps keys and times *)
Lemma keys_set_val c k v : keys (set_val c k v) = keys c.
Proof.
  unfold keys, set_val. rewrite map_map. apply map_ext_in. intros e _.
  destruct (ekey e =? k) eqn:E; [|reflexivity]. apply N.eqb_eq in E. cbn. auto.
Qed.

Lemma times_set_val c k v : map etime (set_val c k v) = map etime c.
Proof.
  unfold set_val. rewrite map_map. apply map_ext. intros e. destruct (ekey e =? k); reflexivity.
Qed.

Lemma SS_map_iff {A B} (R : B -> B -> Prop) (f : A -> B) l :
  StronglySorted (fun x y => R (f x) (f y)) l <-> StronglySorted R (map f l).
Proof.
  induction l as [|a l IH]; cbn [map]; split; intro H; try constructor; inversion H; subst.
  - apply IH. assumption.
  - rewrite Forall_map. assumption.
  - apply IH. assumption.
  - rewrite <- Forall_map. assumption.
Qed.

Lemma inv_set_val c hi k v : inv c hi -> inv (set_val c k v) hi.
Proof.
  intros (W & S & B). split; [|split].
  - unfold wf. rewrite keys_set_val. exact W.
  - unfold tsorted, tle in *. apply (SS_map_iff N.le etime). rewrite times_set_val. apply (SS_map_iff N.le etime). exact S.
  - unfold bounded in *. rewrite <- (Forall_map etime (fun t => t <= hi)) in *. rewrite times_set_val. exact B.
Qed.

Lemma find_set_val c k v k' :
  find (set_val c k v) k' =
  if k' =? k then option_map (fun x => (v, snd x)) (find c k) else find c k'.
Proof.
  induction c as [|e c IH]; cbn [set_val map find option_map].
  - destruct (k' =? k); reflexivity.
  - fold (set_val c k v). rewrite IH. clear IH. destruct e as [[a b] d]. cbn [ekey eval etime fst snd].
    destruct (N.eqb_spec a k) as [->|E]; cbn [ekey eval etime fst snd].
    + destruct (N.eqb_spec k' k) as [->|E'].
      * rewrite N.eqb_refl. reflexivity.
      * destruct (N.eqb_spec k k'); [congruence|reflexivity].
    + destruct (N.eqb_spec k' k) as [->|E'].
      * destruct (N.eqb_spec a k); [congruence|reflexivity].
      * reflexivity.
Qed.

(* remove_expired_values pops a prefix *)
Lemma remove_expired_split cfg c now c' ks :
  remove_expired_values cfg c now = (c', ks) ->
  exists pre, c = pre ++ c' /\ ks = keys pre /\
              Forall (fun e => expired cfg (etime e) now = true) pre /\
              match c' with [] => True | e :: _ => expired cfg (etime e) now = false end.
Proof.
  revert c' ks. induction c as [|e c IH]; cbn [remove_expired_values]; intros c' ks H.
  - injection H as <- <-. exists []. repeat split; constructor.
  - destruct (expired cfg (etime e) now) eqn:E.
    + destruct (remove_expired_values cfg c now) as [c1 k1] eqn:R. injection H as <- <-.
      destruct (IH _ _ eq_refl) as (pre & -> & -> & F & T).
      exists (e :: pre). repeat split; auto.
    + injection H as <- <-. exists []. repeat split; auto.
Qed.

(* ---------------------------------------------------------------------------------------------- *)
(* 2. the invariant is preserved by every operation when the clock does not go back *)

Lemma insert_inv cfg c hi k v now : inv c hi -> hi <= now -> inv (insert cfg c k v now) now.
Proof.
  intros I L. unfold insert.
  assert (I1 : inv (del c k ++ [(k, v, now)]) now).
  { apply inv_push with (hi := hi); [apply inv_del; exact I|exact L|apply find_del_same]. }
  destruct (capacity cfg <? _); [apply inv_tl|]; exact I1.
Qed.

Lemma get_mut_inv fixed cfg c hi k now :
  inv c hi -> hi <= now -> inv (fst (get_mut fixed cfg c k now)) now.
Proof.
  intros I L. unfold get_mut. destruct (find c k) as [[v t]|].
  - destruct (fixed && expired cfg t now); cbn [fst].
    + eapply inv_mono; [exact L|]. apply inv_del. exact I.
    + apply inv_push with (hi := hi); [apply inv_del; exact I|exact L|apply find_del_same].
  - cbn [fst]. eapply inv_mono; eauto.
Qed.

Lemma remove_expired_inv cfg c hi now :
  inv c hi -> inv (fst (remove_expired_values cfg c now)) hi.
Proof.
  intro I. destruct (remove_expired_values cfg c now) as [c' ks] eqn:R. cbn [fst].
  destruct (remove_expired_split _ _ _ _ _ R) as (pre & -> & _). clear R.
  induction pre as [|e pre IH]; [exact I|]. apply IH. apply (inv_tl _ _ I).
Qed.

Lemma step_inv fixed cfg c hi o now :
  inv c hi -> hi <= now -> inv (fst (step fixed cfg c o now)) now.
Proof.
  intros I L. destruct o as [k v|k|k w|k|k| |]; cbn [step].
  - cbn [fst]. eapply insert_inv; eauto.
  - unfold get. pose proof (get_mut_inv fixed cfg c hi k now I L) as H.
    destruct (get_mut fixed cfg c k now) as [c' r]. exact H.
  - pose proof (get_mut_inv fixed cfg c hi k now I L) as H.
    destruct (get_mut fixed cfg c k now) as [c' r]. cbn [fst] in H.
    destruct r as [x|]; [destruct w as [v'|]|]; cbn [fst]; auto using inv_set_val.
  - cbn [fst]. eapply inv_mono; eauto.
  - unfold remove. cbn [fst]. eapply inv_mono; [exact L|]. apply inv_del. exact I.
  - cbn [fst]. eapply inv_mono; eauto.
  - pose proof (remove_expired_inv cfg c hi now I) as H.
    destruct (remove_expired_values cfg c now) as [c' ks]. cbn [fst] in *. eapply inv_mono; eauto.
Qed.

(* histories with a clock that never goes back *)
Fixpoint mono_from (hi : N) (tr : list (op * N)) : Prop :=
  match tr with
  | [] => True
  | (_, now) :: rest => hi <= now /\ mono_from now rest
  end.
Definition mono (tr : list (op * N)) : Prop := mono_from 0 tr.

Definition last_time (hi : N) (tr : list (op * N)) : N := fold_left (fun _ x => snd x) tr hi.

Lemma run_from_inv fixed cfg tr : forall c hi,
  inv c hi -> mono_from hi tr -> inv (fst (run_from fixed cfg c tr)) (last_time hi tr).
Proof.
  induction tr as [|[o now] rest IH]; intros c hi I M; cbn [run_from last_time fold_left fst snd].
  - exact I.
  - destruct M as [L M]. pose proof (step_inv fixed cfg c hi o now I L) as I1.
    destruct (step fixed cfg c o now) as [c1 r]. cbn [fst] in I1.
    specialize (IH c1 now I1 M). destruct (run_from fixed cfg c1 rest) as [c2 rs]. exact IH.
Qed.

Lemma inv_empty : inv empty 0.
Proof. repeat split; constructor. Qed.

Lemma reachable_inv fixed cfg tr :
  mono tr -> inv (fst (run fixed cfg tr)) (last_time 0 tr).
Proof. intro M. apply run_from_inv; [exact inv_empty|exact M]. Qed.

(* ---------------------------------------------------------------------------------------------- *)
(* 3a. len_bounded - no hypothesis on the clock, on the capacity or on [fixed] *)

Definition within (cfg : config) (c : cache) : Prop := len c <= capacity cfg.

Lemma remove_expired_length cfg c now :
  (length (fst (remove_expired_values cfg c now)) <= length c)%nat.
Proof.
  destruct (remove_expired_values cfg c now) as [c' ks] eqn:R. cbn [fst].
  destruct (remove_expired_split _ _ _ _ _ R) as (pre & -> & _). rewrite app_length. lia.
Qed.

Lemma get_mut_length fixed cfg c k now :
  (length (fst (get_mut fixed cfg c k now)) <= length c)%nat.
Proof.
  unfold get_mut. destruct (find c k) as [[v t]|] eqn:F; cbn [fst]; [|lia].
  pose proof (del_length_lt c k _ F).
  destruct (fixed && expired cfg t now); cbn [fst]; [lia|]. rewrite app_length. cbn [length]. lia.
Qed.

Lemma step_within fixed cfg c o now : within cfg c -> within cfg (fst (step fixed cfg c o now)).
Proof.
  unfold within, len. intro H. destruct o as [k v|k|k w|k|k| |]; cbn [step].
  - cbn [fst]. unfold insert.
    set (c1 := del c k ++ [(k, v, now)]).
    assert (L1 : (length c1 <= length c + 1)%nat).
    { unfold c1. rewrite app_length. cbn [length]. pose proof (del_length_le c k). lia. }
    destruct (capacity cfg <? N.of_nat (length c1)) eqn:E.
    + unfold pop_front. destruct c1 as [|e r]; cbn [tl length] in *; lia.
    + apply N.ltb_ge in E. exact E.
  - unfold get. pose proof (get_mut_length fixed cfg c k now).
    destruct (get_mut fixed cfg c k now) as [c' r]. cbn [fst] in *. lia.
  - pose proof (get_mut_length fixed cfg c k now) as G.
    destruct (get_mut fixed cfg c k now) as [c' r]. cbn [fst] in G.
    assert (length (set_val c' k 0) = length c') by apply map_length.
    destruct r as [x|]; [destruct w as [v'|]|]; cbn [fst]; try lia.
    unfold set_val. rewrite map_length. lia.
  - cbn [fst]. exact H.
  - unfold remove. cbn [fst]. pose proof (del_length_le c k). lia.
  - cbn [fst]. exact H.
  - pose proof (remove_expired_length cfg c now).
    destruct (remove_expired_values cfg c now) as [c' ks]. cbn [fst] in *. lia.
Qed.

Lemma run_from_within fixed cfg tr : forall c,
  within cfg c -> within cfg (fst (run_from fixed cfg c tr)).
Proof.
  induction tr as [|[o now] rest IH]; intros c H; cbn [run_from]; [exact H|].
  pose proof (step_within fixed cfg c o now H) as H1.
  destruct (step fixed cfg c o now) as [c1 r]. cbn [fst] in H1.
  specialize (IH c1 H1). destruct (run_from fixed cfg c1 rest) as [c2 rs]. exact IH.
Qed.

Theorem len_bounded fixed cfg tr : len (fst (run fixed cfg tr)) <= capacity cfg.
Proof. apply (run_from_within fixed cfg tr empty). unfold within, len, empty. cbn. lia. Qed.

(* ---------------------------------------------------------------------------------------------- *)
(* 3b. get_never_stale *)

(* `time + ttl >= now` is the code's notion of "used within the ttl" *)
Theorem get_mut_never_stale cfg c k now c' v :
  get_mut true cfg c k now = (c', Some v) ->
  exists t, find c k = Some (v, t) /\ now <= t + ttl cfg.
Proof.
  unfold get_mut. destruct (find c k) as [[v0 t]|]; [|discriminate]. cbn [andb].
  destruct (expired cfg t now) eqn:E; [discriminate|]. intro H. injection H as _ <-.
  exists t. split; [reflexivity|]. unfold expired in E. apply N.ltb_ge in E. exact E.
Qed.

Theorem peek_never_stale cfg c k now v :
  peek cfg c k now = Some v -> exists t, find c k = Some (v, t) /\ now <= t + ttl cfg.
Proof.
  unfold peek. destruct (find c k) as [[v0 t]|]; [|discriminate].
  destruct (expired cfg t now) eqn:E; [discriminate|]. intro H. injection H as <-.
  exists t. split; [reflexivity|]. unfold expired in E. apply N.ltb_ge in E. exact E.
Qed.

(* ... and an expired entry is gone after the access (the next exchange starts from "no session") *)
Theorem get_mut_expired_removed cfg c k now v t :
  find c k = Some (v, t) -> t + ttl cfg < now ->
  get_mut true cfg c k now = (del c k, None) /\ find (del c k) k = None.
Proof.
  intros F L. unfold get_mut. rewrite F. cbn [andb]. unfold expired.
  apply N.ltb_lt in L. rewrite L. split; [reflexivity|apply find_del_same].
Qed.

(* a fresh entry is returned and refreshed *)
Theorem get_mut_fresh fixed cfg c k now v t :
  find c k = Some (v, t) -> now <= t + ttl cfg ->
  get_mut fixed cfg c k now = (del c k ++ [(k, v, now)], Some v).
Proof.
  intros F L. unfold get_mut. rewrite F. unfold expired.
  apply N.ltb_ge in L. rewrite L, andb_false_r. reflexivity.
Qed.

(* The pinned get_mut (and get, which delegates to it) returns and refreshes an entry that has
   been idle for longer than the ttl: D7. *)
Definition d7_cfg : config := {| ttl := 10; capacity := 2 |}.
Definition d7_history : list (op * N) := [(Insert 1 7, 0)].

Theorem get_never_stale_refuted :
  exists cfg tr k now v t,
    mono tr /\
    let c := fst (run false cfg tr) in
    find c k = Some (v, t) /\ t + ttl cfg < now /\
    get false cfg c k now = ([(k, v, now)], Some v) /\
    get_mut false cfg c k now = ([(k, v, now)], Some v).
Proof.
  exists d7_cfg, d7_history, 1, 100, 7, 0. vm_compute. repeat split; try discriminate; reflexivity.
Qed.

(* ---------------------------------------------------------------------------------------------- *)
(* 3c. evicts_lru *)

Lemma tsorted_head_min e r : tsorted (e :: r) -> forall e', In e' (e :: r) -> etime e <= etime e'.
Proof.
  intros S e' [<-|H]; [lia|]. inversion S as [|a l _ F]; subst. rewrite Forall_forall in F. exact (F _ H).
Qed.

(* inserting a new key into a full cache drops exactly the front entry, which is the one with the
   smallest last-use time; every other entry stays, in the same order *)
Theorem evicts_lru cfg c hi k v now :
  inv c hi -> hi <= now -> 1 <= capacity cfg -> len c = capacity cfg -> find c k = None ->
  exists e rest,
    c = e :: rest /\
    insert cfg c k v now = rest ++ [(k, v, now)] /\
    (forall e', In e' c -> etime e <= etime e') /\
    etime e <= now.
Proof.
  intros (W & S & B) L C Len F. unfold insert. rewrite (del_absent _ _ F).
  rewrite app_length. cbn [length]. unfold len in Len.
  assert (E : capacity cfg <? N.of_nat (length c + 1) = true) by (apply N.ltb_lt; lia).
  rewrite E. destruct c as [|e rest]; [cbn in Len; lia|].
  exists e, rest. cbn [app pop_front tl]. repeat split.
  - apply tsorted_head_min. exact S.
  - unfold bounded in B. inversion B; subst. lia.
Qed.

(* below capacity, or when the key is already held, nothing is dropped *)
Theorem insert_no_eviction cfg c k v now :
  wf c -> (len c < capacity cfg \/ (len c <= capacity cfg /\ find c k <> None)) ->
  insert cfg c k v now = del c k ++ [(k, v, now)].
Proof.
  intros W H. unfold insert. rewrite app_length. cbn [length]. unfold len in H.
  assert (E : capacity cfg <? N.of_nat (length (del c k) + 1) = false).
  { apply N.ltb_ge. destruct H as [H|[H F]].
    - pose proof (del_length_le c k). lia.
    - destruct (find c k) as [x|] eqn:Fx; [|congruence]. pose proof (del_length_lt c k x Fx). lia. }
  rewrite E. reflexivity.
Qed.

(* ---------------------------------------------------------------------------------------------- *)
(* 4. the abstract specification and the refinement *)

(* A finite map from key to (value, time of last use). *)
Definition amap := N -> option (N * N).
Definition aempty : amap := fun _ => None.
Definition aupd (m : amap) (k : N) (x : option (N * N)) : amap :=
  fun k' => if k' =? k then x else m k'.
Definition aeq (m m' : amap) : Prop := forall k, m k = m' k.
Definition card (m : amap) (n : nat) : Prop :=
  exists l, NoDup l /\ (forall k, In k l <-> m k <> None) /\ length l = n.
(* k0 holds an entry whose last use is not later than that of any other entry *)
Definition is_lru (m : amap) (k0 : N) : Prop :=
  exists v0 t0, m k0 = Some (v0, t0) /\ forall k v t, m k = Some (v, t) -> t0 <= t.
(* what a read access at time [now] may see: only entries used within the ttl *)
Definition aview (cfg : config) (m : amap) (now k : N) : option N :=
  match m k with
  | Some (v, t) => if t + ttl cfg <? now then None else Some v
  | None => None
  end.

Definition written (w : option N) (v : N) : N := match w with Some v' => v' | None => v end.

Inductive astep (cfg : config) : amap -> op -> N -> out -> amap -> Prop :=
| A_insert_fit m k v now n m' :
    card (aupd m k (Some (v, now))) n -> N.of_nat n <= capacity cfg ->
    aeq m' (aupd m k (Some (v, now))) ->
    astep cfg m (Insert k v) now OUnit m'
| A_insert_evict m k v now n k0 m' :
    card (aupd m k (Some (v, now))) n -> capacity cfg < N.of_nat n ->
    is_lru (aupd m k (Some (v, now))) k0 ->
    aeq m' (aupd (aupd m k (Some (v, now))) k0 None) ->
    astep cfg m (Insert k v) now OUnit m'
| A_get m k now m' :
    (* the entry is visible only if used within the ttl; then it is refreshed, else dropped *)
    aeq m' (aupd m k (option_map (fun v => (v, now)) (aview cfg m now k))) ->
    astep cfg m (Get k) now (OVal (aview cfg m now k)) m'
| A_get_mut m k w now m' :
    aeq m' (aupd m k (option_map (fun v => (written w v, now)) (aview cfg m now k))) ->
    astep cfg m (GetMut k w) now (OVal (aview cfg m now k)) m'
| A_peek m k now m' :
    aeq m' m -> astep cfg m (Peek k) now (OVal (aview cfg m now k)) m'
| A_remove m k now m' :
    aeq m' (aupd m k None) -> astep cfg m (Remove k) now (OVal (option_map fst (m k))) m'
| A_len m now n m' :
    card m n -> aeq m' m -> astep cfg m Len now (OLen (N.of_nat n)) m'
| A_remove_expired m now ks m' :
    NoDup ks ->
    (forall k, In k ks <-> exists v t, m k = Some (v, t) /\ t + ttl cfg < now) ->
    (forall k, m' k = if existsb (N.eqb k) ks then None else m k) ->
    astep cfg m RemoveExpired now (OKeys ks) m'.

Inductive aruns (cfg : config) : amap -> list (op * N) -> list out -> amap -> Prop :=
| aruns_nil m : aruns cfg m [] [] m
| aruns_cons m o now r m1 rest rs m2 :
    astep cfg m o now r m1 -> aruns cfg m1 rest rs m2 ->
    aruns cfg m ((o, now) :: rest) (r :: rs) m2.

(* the abstraction function: forget the order *)
Definition abs (c : cache) : amap := find c.

Lemma card_abs c : wf c -> card (abs c) (length c).
Proof.
  intro W. exists (keys c). split; [exact W|]. split.
  - intro k. unfold abs. pose proof (find_none_iff c k) as [A B]. split.
    + intros Hi Hn. exact (A Hn Hi).
    + intro Hn. destruct (in_dec N.eq_dec k (keys c)) as [Hi|Hi]; [exact Hi|]. exfalso. exact (Hn (B Hi)).
  - apply map_length.
Qed.

Lemma card_aeq m m' n : aeq m m' -> card m n -> card m' n.
Proof.
  intros E (l & ND & I & L). exists l. repeat split; auto; intro H.
  - rewrite <- E. apply I. exact H.
  - apply I. rewrite E. exact H.
Qed.

Lemma abs_push c k v now :
  aeq (abs (del c k ++ [(k, v, now)])) (aupd (abs c) k (Some (v, now))).
Proof.
  intro k'. unfold abs, aupd. rewrite find_app. destruct (k' =? k) eqn:E.
  - apply N.eqb_eq in E. subst k'. rewrite find_del_same. cbn. rewrite N.eqb_refl. reflexivity.
  - apply N.eqb_neq in E. rewrite (find_del_other _ _ _ E). destruct (find c k'); [reflexivity|].
    cbn. apply N.eqb_neq in E. rewrite N.eqb_sym, E. reflexivity.
Qed.

Lemma abs_del c k : aeq (abs (del c k)) (aupd (abs c) k None).
Proof.
  intro k'. unfold abs, aupd. destruct (k' =? k) eqn:E.
  - apply N.eqb_eq in E. subst. apply find_del_same.
  - apply N.eqb_neq in E. apply find_del_other. exact E.
Qed.

Lemma abs_tl e r : wf (e :: r) -> aeq (abs r) (aupd (abs (e :: r)) (ekey e) None).
Proof.
  intros W k'. unfold abs, aupd. cbn [find]. destruct (k' =? ekey e) eqn:E.
  - apply N.eqb_eq in E. subst. apply find_none_iff. unfold wf, keys in W. cbn [map] in W. inversion W. assumption.
  - rewrite N.eqb_sym, E. reflexivity.
Qed.

Lemma aview_abs cfg c k now : aview cfg (abs c) now k = peek cfg c k now.
Proof. reflexivity. Qed.

Lemma aeq_trans m1 m2 m3 : aeq m1 m2 -> aeq m2 m3 -> aeq m1 m3.
Proof. intros A B k. rewrite A. apply B. Qed.

Lemma aupd_aeq m m' k x : aeq m m' -> aeq (aupd m k x) (aupd m' k x).
Proof. intros E k'. unfold aupd. destruct (k' =? k); auto. Qed.

Lemma get_mut_spec cfg c k now :
  snd (get_mut true cfg c k now) = aview cfg (abs c) now k /\
  aeq (abs (fst (get_mut true cfg c k now)))
      (aupd (abs c) k (option_map (fun v => (v, now)) (aview cfg (abs c) now k))).
Proof.
  unfold get_mut, aview. change (abs c k) with (find c k).
  destruct (find c k) as [[v t]|] eqn:F; cbn [andb]; unfold expired.
  - destruct (t + ttl cfg <? now); cbn [fst snd option_map]; split; try reflexivity.
    + apply abs_del.
    + apply abs_push.
  - cbn [fst snd option_map]. split; [reflexivity|]. intro k'. unfold aupd, abs.
    destruct (N.eqb_spec k' k) as [->|]; [exact F|reflexivity].
Qed.

(* one step of the repaired cache is a step of the specification *)
Lemma step_refines cfg c hi o now :
  inv c hi -> hi <= now ->
  astep cfg (abs c) o now (snd (step true cfg c o now)) (abs (fst (step true cfg c o now))).
Proof.
  intros I L. pose proof I as (W & S & B). destruct o as [k v|k|k w|k|k| |]; cbn [step].
  - (* insert *)
    cbn [fst snd]. unfold insert. set (c1 := del c k ++ [(k, v, now)]).
    assert (I1 : inv c1 now).
    { apply inv_push with (hi := hi); [apply inv_del; exact I|exact L|apply find_del_same]. }
    destruct I1 as (W1 & S1 & B1).
    assert (C1 : card (aupd (abs c) k (Some (v, now))) (length c1)).
    { eapply card_aeq; [apply abs_push|]. apply card_abs. exact W1. }
    pose proof (abs_push c k v now) as P. fold c1 in P. clearbody c1.
    destruct (capacity cfg <? N.of_nat (length c1)) eqn:E.
    + apply N.ltb_lt in E. destruct c1 as [|e r]; [cbn in E; lia|].
      apply A_insert_evict with (n := length (e :: r)) (k0 := ekey e); auto.
      * exists (eval e), (etime e). split.
        -- rewrite <- (P (ekey e)). unfold abs. cbn [find]. rewrite N.eqb_refl. reflexivity.
        -- intros k' v' t' H. rewrite <- (P k') in H. unfold abs in H.
           apply find_some_in in H. apply (tsorted_head_min e r S1 _ H).
      * cbn [pop_front tl]. eapply aeq_trans; [apply abs_tl; exact W1|].
        apply aupd_aeq. exact P.
    + apply N.ltb_ge in E. apply A_insert_fit with (n := length c1); auto.
  - (* get *)
    unfold get. destruct (get_mut_spec cfg c k now) as [R A].
    destruct (get_mut true cfg c k now) as [c' r]. cbn [fst snd] in *. subst r. apply A_get. exact A.
  - (* get_mut, optionally writing through the reference *)
    destruct (get_mut_spec cfg c k now) as [R A].
    destruct (get_mut true cfg c k now) as [c' r]. cbn [fst snd] in R, A. subst r.
    destruct (aview cfg (abs c) now k) as [x|] eqn:V.
    + destruct w as [v'|]; cbn [fst snd]; rewrite <- V; apply A_get_mut; rewrite V; cbn [option_map written] in *.
      * intro k'. unfold abs. rewrite find_set_val. pose proof (A k) as Ak. pose proof (A k') as Ak'.
        unfold abs, aupd in *. rewrite N.eqb_refl in Ak. destruct (k' =? k).
        -- rewrite Ak. reflexivity.
        -- exact Ak'.
      * exact A.
    + cbn [fst snd]. rewrite <- V. apply A_get_mut. rewrite V. exact A.
  - (* peek *)
    cbn [fst snd]. rewrite <- aview_abs. apply A_peek. intro; reflexivity.
  - (* remove *)
    unfold remove. cbn [fst snd]. apply (A_remove cfg (abs c) k now). apply abs_del.
  - (* len *)
    cbn [fst snd]. unfold len. apply A_len; [apply card_abs; exact W|intro; reflexivity].
  - (* remove_expired_values *)
    destruct (remove_expired_values cfg c now) as [c' ks] eqn:R. cbn [fst snd].
    destruct (remove_expired_split _ _ _ _ _ R) as (pre & -> & -> & FE & HD). clear R.
    assert (Wk : NoDup (keys pre ++ keys c')) by (unfold wf, keys in W; rewrite map_app in W; exact W).
    (* every entry of the kept suffix is alive, by the order of the times *)
    assert (AL : forall e, In e c' -> expired cfg (etime e) now = false).
    { destruct c' as [|e0 r]; [intros e []|]. intros e He.
      assert (S' : tsorted (e0 :: r)).
      { clear -S. induction pre as [|p pre IH]; [exact S|]. apply IH. cbn [app] in S. inversion S; assumption. }
      pose proof (tsorted_head_min e0 r S' e He) as M. unfold expired in *.
      apply N.ltb_ge in HD. apply N.ltb_ge. lia. }
    apply A_remove_expired.
    + apply NoDup_app_l in Wk. exact Wk.
    + intro k. split.
      * intro Hk. unfold keys in Hk. apply in_map_iff in Hk. destruct Hk as ([[k0 v] t] & <- & He).
        exists v, t. split.
        -- unfold abs. apply in_find; [exact W|]. apply in_or_app. left. exact He.
        -- rewrite Forall_forall in FE. specialize (FE _ He). unfold expired in FE. cbn in FE. apply N.ltb_lt in FE. exact FE.
      * intros (v & t & Hf & Hl). unfold abs in Hf. apply find_some_in in Hf. apply in_app_or in Hf.
        destruct Hf as [Hf|Hf].
        -- change k with (ekey (k, v, t)). apply in_map. exact Hf.
        -- specialize (AL _ Hf). unfold expired in AL. cbn in AL. apply N.ltb_ge in AL. lia.
    + intro k. unfold abs. rewrite find_app. destruct (existsb (N.eqb k) (keys pre)) eqn:Ex.
      * apply existsb_exists in Ex. destruct Ex as (x & Hx & Ek). apply N.eqb_eq in Ek. subst x.
        apply find_none_iff. intro Hc. apply (NoDup_app_disj _ _ k Wk); assumption.
      * assert (NI : ~ In k (keys pre)).
        { intro Hk. assert (existsb (N.eqb k) (keys pre) = true); [|congruence].
          apply existsb_exists. exists k. split; [exact Hk|apply N.eqb_refl]. }
        apply find_none_iff in NI. rewrite NI. reflexivity.
Qed.

Lemma run_from_refines cfg tr : forall c hi,
  inv c hi -> mono_from hi tr ->
  aruns cfg (abs c) tr (snd (run_from true cfg c tr)) (abs (fst (run_from true cfg c tr))).
Proof.
  induction tr as [|[o now] rest IH]; intros c hi I M; cbn [run_from].
  - cbn [fst snd]. constructor.
  - destruct M as [L M].
    pose proof (step_refines cfg c hi o now I L) as A.
    pose proof (step_inv true cfg c hi o now I L) as I1.
    destruct (step true cfg c o now) as [c1 r]. cbn [fst snd] in *.
    specialize (IH c1 now I1 M). destruct (run_from true cfg c1 rest) as [c2 rs]. cbn [fst snd] in *.
    econstructor; eauto.
Qed.

(* Every history with a clock that never goes back, run on the (repaired) cache from the empty
   state, is a run of the abstract map with the same results. *)
Theorem refinement cfg tr :
  mono tr ->
  aruns cfg aempty tr (snd (run true cfg tr)) (abs (fst (run true cfg tr))).
Proof. intro M. apply (run_from_refines cfg tr empty 0 inv_empty M). Qed.

(* The specification itself never shows an entry outside its ttl and never exceeds the capacity in
   its reachable states; the first is by definition of aview: *)
Lemma aview_within_ttl cfg m now k v :
  aview cfg m now k = Some v -> exists t, m k = Some (v, t) /\ now <= t + ttl cfg.
Proof.
  unfold aview. destruct (m k) as [[v0 t]|]; [|discriminate].
  destruct (t + ttl cfg <? now) eqn:E; [discriminate|]. intro H. injection H as <-.
  exists t. split; [reflexivity|]. apply N.ltb_ge in E. exact E.
Qed.

(* ---------------------------------------------------------------------------------------------- *)
(* 5. the stored time of an entry is the time of the last operation of the history that used it
      (inserted it, or read it successfully through get / get_mut); no hypothesis on the clock *)

Definition usesb (k : N) (o : op) (r : out) : bool :=
  match o, r with
  | Insert k' _, _ => k' =? k
  | Get k', OVal (Some _) => k' =? k
  | GetMut k' _, OVal (Some _) => k' =? k
  | _, _ => false
  end.

Fixpoint last_use_time (tr : list (op * N)) (outs : list out) (k : N) (acc : option N) : option N :=
  match tr, outs with
  | (o, now) :: rest, r :: rs => last_use_time rest rs k (if usesb k o r then Some now else acc)
  | _, _ => acc
  end.

Lemma wf_push c k v now : wf c -> wf (del c k ++ [(k, v, now)]).
Proof.
  intro W. unfold wf, keys. rewrite map_app. cbn [map]. fold (keys (del c k)).
  apply NoDup_snoc; [apply wf_del; exact W|]. apply find_none_iff. apply find_del_same.
Qed.

Lemma wf_tl c : wf c -> wf (tl c).
Proof. destruct c as [|e c]; [auto|]. unfold wf, keys. cbn [map tl]. intro H. inversion H; assumption. Qed.

Lemma wf_suffix pre c : wf (pre ++ c) -> wf c.
Proof. induction pre as [|e pre IH]; [auto|]. intro H. apply IH. apply (wf_tl _ H). Qed.

Lemma get_mut_wf fixed cfg c k now : wf c -> wf (fst (get_mut fixed cfg c k now)).
Proof.
  intro W. unfold get_mut. destruct (find c k) as [[v t]|]; [|exact W].
  destruct (fixed && expired cfg t now); cbn [fst]; [apply wf_del|apply wf_push]; exact W.
Qed.

Lemma step_wf fixed cfg c o now : wf c -> wf (fst (step fixed cfg c o now)).
Proof.
  intro W. destruct o as [k v|k|k w|k|k| |]; cbn [step].
  - cbn [fst]. unfold insert. destruct (capacity cfg <? _); [apply wf_tl|]; apply wf_push; exact W.
  - unfold get. pose proof (get_mut_wf fixed cfg c k now W). destruct (get_mut fixed cfg c k now). assumption.
  - pose proof (get_mut_wf fixed cfg c k now W) as H. destruct (get_mut fixed cfg c k now) as [c' r].
    cbn [fst] in H. destruct r; [destruct w|]; cbn [fst]; auto. unfold wf. rewrite keys_set_val. exact H.
  - exact W.
  - unfold remove. cbn [fst]. apply wf_del. exact W.
  - exact W.
  - destruct (remove_expired_values cfg c now) as [c' ks] eqn:R. cbn [fst].
    destruct (remove_expired_split _ _ _ _ _ R) as (pre & -> & _). eapply wf_suffix; eauto.
Qed.

Lemma find_sub c c' k v t :
  wf c -> (forall e, In e c' -> In e c) -> find c' k = Some (v, t) -> find c k = Some (v, t).
Proof. intros W Sub F. apply in_find; [exact W|]. apply Sub. apply find_some_in. exact F. Qed.

Lemma find_push c k v now k' :
  find (del c k ++ [(k, v, now)]) k' = if k' =? k then Some (v, now) else find c k'.
Proof. exact (abs_push c k v now k'). Qed.

Lemma get_mut_time fixed cfg c k0 now k v t acc :
  wf c -> (forall v t, find c k = Some (v, t) -> acc = Some t) ->
  find (fst (get_mut fixed cfg c k0 now)) k = Some (v, t) ->
  (if usesb k (Get k0) (OVal (snd (get_mut fixed cfg c k0 now))) then Some now else acc) = Some t.
Proof.
  intros W A. unfold get_mut. destruct (find c k0) as [[v0 t0]|] eqn:F.
  - destruct (fixed && expired cfg t0 now); cbn [fst snd usesb].
    + intro H. destruct (N.eqb_spec k k0) as [->|NE]; [rewrite find_del_same in H; discriminate|].
      rewrite (find_del_other _ _ _ NE) in H. eauto.
    + rewrite find_push. rewrite (N.eqb_sym k0 k). destruct (k =? k0).
      * intro H. injection H as _ <-. reflexivity.
      * intro H. eauto.
  - cbn [fst snd usesb]. intro H. eauto.
Qed.

Lemma step_time fixed cfg c o now k v t acc :
  wf c -> (forall v t, find c k = Some (v, t) -> acc = Some t) ->
  find (fst (step fixed cfg c o now)) k = Some (v, t) ->
  (if usesb k o (snd (step fixed cfg c o now)) then Some now else acc) = Some t.
Proof.
  intros W A. destruct o as [k0 v0|k0|k0 w|k0|k0| |]; cbn [step].
  - cbn [fst snd usesb]. unfold insert. intro H.
    assert (H1 : find (del c k0 ++ [(k0, v0, now)]) k = Some (v, t)).
    { destruct (capacity cfg <? _); [|exact H].
      eapply find_sub; [apply wf_push; exact W| |exact H].
      intros e He. destruct (del c k0 ++ [(k0, v0, now)]); [destruct He|right; exact He]. }
    rewrite find_push in H1. rewrite (N.eqb_sym k0 k). destruct (k =? k0).
    + injection H1 as _ <-. reflexivity.
    + eauto.
  - unfold get. pose proof (get_mut_time fixed cfg c k0 now k v t acc W A) as G.
    destruct (get_mut fixed cfg c k0 now) as [c' r]. exact G.
  - pose proof (get_mut_time fixed cfg c k0 now k) as G.
    destruct (get_mut fixed cfg c k0 now) as [c' r]. cbn [fst snd] in G.
    assert (forall c'' , (c'' = c' \/ exists v', c'' = set_val c' k0 v') ->
            find c'' k = Some (v, t) -> exists v1, find c' k = Some (v1, t)) as SV.
    { intros c'' [->|[v' ->]] H; [eauto|]. rewrite find_set_val in H.
      destruct (k =? k0) eqn:E; [|eauto]. apply N.eqb_eq in E. subst k0.
      destruct (find c' k) as [[v1 t1]|]; [|discriminate]. cbn in H. injection H as _ <-. eauto. }
    destruct r as [x|]; [destruct w as [v'|]|]; cbn [fst snd]; intro H.
    + destruct (SV _ (or_intror (ex_intro _ v' eq_refl)) H) as (v1 & H1). exact (G v1 t acc W A H1).
    + exact (G v t acc W A H).
    + exact (G v t acc W A H).
  - cbn [fst snd usesb]. eauto.
  - unfold remove. cbn [fst snd usesb]. intro H.
    destruct (N.eqb_spec k k0) as [->|NE]; [rewrite find_del_same in H; discriminate|].
    rewrite (find_del_other _ _ _ NE) in H. eauto.
  - cbn [fst snd usesb]. eauto.
  - destruct (remove_expired_values cfg c now) as [c' ks] eqn:R. cbn [fst snd usesb].
    destruct (remove_expired_split _ _ _ _ _ R) as (pre & -> & _). intro H.
    apply (A v). eapply find_sub; [exact W| |exact H]. intros e He. apply in_or_app. right. exact He.
Qed.

Lemma run_from_time fixed cfg tr : forall c k v t acc,
  wf c -> (forall v t, find c k = Some (v, t) -> acc = Some t) ->
  find (fst (run_from fixed cfg c tr)) k = Some (v, t) ->
  last_use_time tr (snd (run_from fixed cfg c tr)) k acc = Some t.
Proof.
  induction tr as [|[o now] rest IH]; intros c k v t acc W A; cbn [run_from].
  - cbn [fst snd last_use_time]. eauto.
  - pose proof (step_wf fixed cfg c o now W) as W1.
    pose proof (fun v t => step_time fixed cfg c o now k v t acc W A) as A1.
    destruct (step fixed cfg c o now) as [c1 r]. cbn [fst snd] in *.
    specialize (IH c1 k v t (if usesb k o r then Some now else acc) W1 A1).
    destruct (run_from fixed cfg c1 rest) as [c2 rs]. cbn [fst snd last_use_time] in *. exact IH.
Qed.

Theorem stored_time_is_last_use fixed cfg tr k v t :
  find (fst (run fixed cfg tr)) k = Some (v, t) ->
  last_use_time tr (snd (run fixed cfg tr)) k None = Some t.
Proof.
  apply run_from_time; [constructor|]. intros v0 t0 H. discriminate.
Qed.

(* get_never_stale in terms of the history: whatever happened before, an access that returns a
   value at time [now] finds the last use of that key not more than ttl in the past *)
Theorem get_never_stale_history cfg tr k now v :
  snd (get_mut true cfg (fst (run true cfg tr)) k now) = Some v ->
  exists t, last_use_time tr (snd (run true cfg tr)) k None = Some t /\ now <= t + ttl cfg.
Proof.
  intro H. destruct (get_mut true cfg (fst (run true cfg tr)) k now) as [c' r] eqn:G. cbn [snd] in H. subst r.
  destruct (get_mut_never_stale _ _ _ _ _ _ G) as (t & F & L).
  exists t. split; [|exact L]. eapply stored_time_is_last_use; eauto.
Qed.
