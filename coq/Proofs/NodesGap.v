(* C11, part 2: the records ACCEPTED from a multi-packet NODES answer.
   Proofs/Nodes.v characterises the filter of one packet (kept_exact); here the collection over
   the packets of one request (active_nodes_responses) is followed to the point where the records
   are handed to discovered() (PDone) or processed as a partial result after a failure (FPartial):
   - everything handed on is a record of one of the packets received, at a requested distance;
   - as long as packets are stored, what is stored is exactly the concatenation of the filtered
     packets, and the completing packet hands on exactly that plus its own filtered records
     (or, if it claims a total <= 1, only its own filtered records: the stored ones are dropped). *)
From Coq Require Import List Arith NArith Bool Lia.
From Discv5V Require Import Generated.Params Model.Nodes Proofs.Nodes.
Import ListNotations.
Local Open Scope N_scope.

(* the records a step hands on to discovered() *)
Definition handed_on (o : step_out) : option (list enr) :=
  match o with
  | SONodes (PDone _ l) => Some l
  | SOFail (FPartial l) => Some l
  | _ => None
  end.

(* the records carried by the NODES packets of a stream *)
Fixpoint pkt_records (ps : list pkt) : list enr :=
  match ps with
  | [] => []
  | PktNodes _ nodes :: r => nodes ++ pkt_records r
  | PktFail :: r => pkt_records r
  end.

Section Collect.
  Variable fx : fixes.
  Variable maxn : nat.
  Variable peer : N.
  Variable ds : list N.
  Hypothesis H4 : fix_d4 fx = true.
  Hypothesis H1 : fix_enr1 fx = true.

  Definition good (S : list enr) (r : enr) : Prop := on_distance peer ds r = true /\ In r S.

  (* the state of a request of the service itself (no user callback) for [peer] / [ds] whose
     stored records are all good w.r.t. the records [S] seen so far *)
  Definition st_ok (S : list enr) (st : option active_req) : Prop :=
    match st with
    | None => True
    | Some ar => ar_peer ar = peer /\ ar_ds ar = ds /\ ar_user ar = false /\
                 match ar_partial ar with
                 | Some c => forall r, In r (nr_received c) -> good S r
                 | None => True
                 end
    end.

  Lemma kept_good nodes r S :
    In r (fst (filter_response fx peer ds nodes)) -> good (S ++ nodes) r.
  Proof.
    rewrite kept_exact by assumption. intros H. apply filter_In in H. destruct H as (Hin & Hd).
    split; [exact Hd|]. apply in_or_app. now right.
  Qed.

  Lemma good_mono S S' r : good S r -> good (S ++ S') r.
  Proof. intros (Hd & Hin). split; [exact Hd|]. apply in_or_app. now left. Qed.

  Lemma on_pkt_ok S st p :
    st_ok S st ->
    let S' := S ++ pkt_records [p] in
    st_ok S' (fst (on_pkt fx maxn st p)) /\
    forall l, handed_on (snd (on_pkt fx maxn st p)) = Some l -> forall r, In r l -> good S' r.
  Proof.
    intros Hok. cbv zeta. destruct p as [total nodes|]; cbn [on_pkt pkt_records]; rewrite ?app_nil_r.
    - unfold on_nodes. destruct st as [ar|]; [|cbn; split; [exact I|discriminate]].
      destruct Hok as (Hp & Hd & Hu & Hpart). rewrite Hu, Hp, Hd.
      pose proof (fun r => kept_good nodes r S) as Hk.
      destruct (filter_response fx peer ds nodes) as [kept banned]. cbn [fst] in Hk.
      set (cur := match ar_partial ar with Some c => c | None => nr_default end).
      assert (Hcur : forall r, In r (nr_received cur) -> good (S ++ nodes) r).
      { intros r Hr. unfold cur in Hr. destruct (ar_partial ar) as [c0|].
        - apply good_mono. now apply Hpart.
        - destruct Hr. }
      destruct (1 <? total).
      + destruct (_ && _ && _); cbn [fst snd handed_on st_ok ar_peer ar_ds ar_user ar_partial nr_received].
        * split; [|discriminate]. split; [reflexivity|]. split; [reflexivity|]. split; [reflexivity|].
          intros r Hr. apply in_app_or in Hr. destruct Hr as [Hr|Hr]; auto.
        * split; [exact I|]. intros l Hl r Hr. inversion Hl; subst l.
          apply in_app_or in Hr. destruct Hr as [Hr|Hr]; auto.
      + cbn [fst snd handed_on st_ok]. split; [exact I|]. intros l Hl r Hr. inversion Hl; subst l. auto.
    - unfold on_failure. destruct st as [ar|]; [|cbn; split; [exact I|discriminate]].
      destruct Hok as (Hp & Hd & Hu & Hpart). rewrite Hu.
      destruct (ar_partial ar) as [c0|]; [|cbn; split; [exact I|discriminate]].
      destruct (Nat.eqb _ _); cbn [fst snd handed_on st_ok]; split; try exact I; try discriminate.
      intros l Hl r Hr. inversion Hl; subst l. now apply Hpart.
  Qed.

  Lemma run_pkts_ok ps : forall S st,
    st_ok S st ->
    forall o l, In o (run_pkts fx maxn st ps) -> handed_on o = Some l ->
    forall r, In r l -> good (S ++ pkt_records ps) r.
  Proof.
    induction ps as [|p ps IH]; intros S st Hok o l Ho Hl r Hr; cbn [run_pkts] in Ho; [destruct Ho|].
    destruct (on_pkt_ok S st p Hok) as (Hok' & Hh).
    destruct (on_pkt fx maxn st p) as [st' o'] eqn:E. cbn [fst snd] in *.
    assert (Eps : pkt_records (p :: ps) = pkt_records [p] ++ pkt_records ps).
    { destruct p; cbn [pkt_records]; rewrite ?app_nil_r; reflexivity. }
    rewrite Eps, app_assoc.
    destruct Ho as [<-|Ho].
    - apply good_mono. eapply Hh; eauto.
    - eapply IH; eauto.
  Qed.

  (* soundness of the collection: whatever is handed to discovered() - at completion or as the
     partial result after a failure - is a record of one of the packets of this request at a
     requested distance from the responder *)
  Theorem handed_on_only_requested ps o l :
    In o (run_pkts fx maxn (Some {| ar_peer := peer; ar_ds := ds; ar_user := false; ar_partial := None |}) ps) ->
    handed_on o = Some l ->
    forall r, In r l -> on_distance peer ds r = true /\ In r (pkt_records ps).
  Proof.
    intros Ho Hl r Hr.
    assert (Hok : st_ok [] (Some {| ar_peer := peer; ar_ds := ds; ar_user := false; ar_partial := None |})).
    { cbn. auto. }
    exact (run_pkts_ok ps [] _ Hok o l Ho Hl r Hr).
  Qed.

  (* exactness while packets are being stored *)
  Definition nodes_of (p : N * list enr) : pkt := PktNodes (fst p) (snd p).
  Definition filtered (pre : list (N * list enr)) : list enr :=
    flat_map (fun p => filter (on_distance peer ds) (snd p)) pre.

  Definition fresh : option active_req :=
    Some {| ar_peer := peer; ar_ds := ds; ar_user := false; ar_partial := None |}.

  Definition stored_state (pre : list (N * list enr)) : option active_req :=
    match pre with
    | [] => fresh
    | _ => Some {| ar_peer := peer; ar_ds := ds; ar_user := false;
                   ar_partial := Some {| nr_count := S (length pre); nr_received := filtered pre |} |}
    end.

  Definition is_stored (o : step_out) : bool :=
    match o with SONodes (PStored _) => true | _ => false end.

  Lemma filtered_snoc pre p : filtered (pre ++ [p]) = filtered pre ++ filter (on_distance peer ds) (snd p).
  Proof. unfold filtered. rewrite flat_map_app. cbn [flat_map]. now rewrite app_nil_r. Qed.

  Lemma cur_of_stored pre :
    match stored_state pre with
    | Some ar => ar_user ar = false /\ ar_peer ar = peer /\ ar_ds ar = ds /\
                 nr_count (match ar_partial ar with Some c => c | None => nr_default end) = S (length pre) /\
                 nr_received (match ar_partial ar with Some c => c | None => nr_default end) = filtered pre
    | None => False
    end.
  Proof. destruct pre; cbn; auto. Qed.

  (* if every packet of [pre] was answered "stored", the state is the concatenation of the
     filtered packets, and the next packet is decided on it *)
  Lemma stored_prefix pre :
    forallb is_stored (run_pkts fx maxn fresh (map nodes_of pre)) = true ->
    final_state fx maxn fresh (map nodes_of pre) = stored_state pre.
  Proof.
    induction pre as [|p pre IH] using rev_ind; [reflexivity|].
    rewrite map_app. cbn [map].
    assert (Hrun : forall ps st q, run_pkts fx maxn st (ps ++ [q]) =
                     run_pkts fx maxn st ps ++ [snd (on_pkt fx maxn (final_state fx maxn st ps) q)]).
    { induction ps as [|x ps IHps]; intros st q; cbn [app run_pkts final_state].
      - destruct (on_pkt fx maxn st q); reflexivity.
      - destruct (on_pkt fx maxn st x) as [st' o] eqn:E. cbn [fst]. now rewrite IHps. }
    assert (Hfin : forall ps st q, final_state fx maxn st (ps ++ [q]) =
                     fst (on_pkt fx maxn (final_state fx maxn st ps) q)).
    { induction ps as [|x ps IHps]; intros st q; cbn [app final_state]; [reflexivity|]. now rewrite IHps. }
    rewrite Hrun, Hfin, forallb_app. intros H. apply andb_prop in H. destruct H as (Hpre & Hlast).
    rewrite (IH Hpre) in *. cbn [forallb] in Hlast. rewrite andb_true_r in Hlast.
    pose proof (cur_of_stored pre) as Hc.
    destruct (stored_state pre) as [ar|]; [|destruct Hc].
    destruct Hc as (Hu & Hp & Hd & Hcnt & Hrec).
    unfold nodes_of in *. cbn [on_pkt] in *. unfold on_nodes in *. rewrite Hu, Hp, Hd in *.
    pose proof (kept_exact fx peer ds (snd p) H4 H1) as Hk.
    destruct (filter_response fx peer ds (snd p)) as [kept banned]. cbn [fst] in Hk. subst kept.
    destruct (1 <? fst p); [|discriminate].
    destruct (_ && _ && _); [|discriminate].
    cbn [fst]. rewrite Hcnt, Hrec.
    unfold stored_state. destruct (pre ++ [p]) eqn:E; [destruct pre; discriminate|].
    rewrite <- E. rewrite app_length, filtered_snoc. cbn [length]. rewrite Nat.add_1_r. reflexivity.
  Qed.

  (* the completing packet: after a stored prefix, a packet that completes the request hands on
     exactly the filtered records of all packets (total > 1) or of itself only (total <= 1) *)
  Theorem completion_exact pre total nodes b l :
    forallb is_stored (run_pkts fx maxn fresh (map nodes_of pre)) = true ->
    snd (on_pkt fx maxn (final_state fx maxn fresh (map nodes_of pre)) (PktNodes total nodes))
      = SONodes (PDone b l) ->
    l = (if 1 <? total then filtered pre else []) ++ filter (on_distance peer ds) nodes.
  Proof.
    intros Hpre. rewrite (stored_prefix pre Hpre).
    pose proof (cur_of_stored pre) as Hc.
    destruct (stored_state pre) as [ar|]; [|destruct Hc].
    destruct Hc as (Hu & Hp & Hd & Hcnt & Hrec).
    cbn [on_pkt]. unfold on_nodes. rewrite Hu, Hp, Hd.
    pose proof (kept_exact fx peer ds nodes H4 H1) as Hk.
    destruct (filter_response fx peer ds nodes) as [kept banned]. cbn [fst] in Hk. subst kept.
    destruct (1 <? total).
    - destruct (_ && _ && _); cbn [snd]; intros H; inversion H. now rewrite Hrec.
    - cbn [snd]. intros H; inversion H. reflexivity.
  Qed.
End Collect.
