(* Proofs about the packet codec model (Model/Packet.v): C05. *)
From Coq Require Import List NArith Arith Bool Lia.
From Discv5V Require Import Generated.Params Lib.Bytes Model.Packet.
Import ListNotations.

(* ---- the constants, re-checked against the regenerated Params.v on every run ---- *)
Lemma min_packet_size_inst : (MIN_PACKET_SIZE = IV_LENGTH + STATIC_HEADER_LENGTH + 24)%N.
Proof. reflexivity. Qed.
Lemma static_header_inst :
  (STATIC_HEADER_LENGTH = PROTOCOL_ID_LENGTH + 2 + 1 + MESSAGE_NONCE_LENGTH + 2)%N.
Proof. reflexivity. Qed.
Lemma whoareyou_authdata_inst : (ID_NONCE_LENGTH + 8 = 24)%N.
Proof. reflexivity. Qed.
Lemma min_le_max_inst : (MIN_PACKET_SIZE <= MAX_PACKET_SIZE)%N.
Proof. discriminate. Qed.

Lemma IVL_eq : IVL = 16%nat. Proof. reflexivity. Qed.
Lemma SHL_eq : SHL = 23%nat. Proof. reflexivity. Qed.
Lemma NONCEL_eq : NONCEL = 12%nat. Proof. reflexivity. Qed.
Lemma IDNL_eq : IDNL = 16%nat. Proof. reflexivity. Qed.
Lemma MIN_eq : MIN_PACKET_SIZE = 63%N. Proof. reflexivity. Qed.
Lemma MAX_eq : MAX_PACKET_SIZE = 1280%N. Proof. reflexivity. Qed.
(* "discv5", version 0x0001 *)
Lemma protocol_id_eq : protocol_id = [100; 105; 115; 99; 118; 53]%N. Proof. reflexivity. Qed.
Lemma protocol_version_eq : protocol_version = [0; 1]%N. Proof. reflexivity. Qed.
Lemma protocol_id_length : length protocol_id = 6%nat. Proof. reflexivity. Qed.
Lemma protocol_version_length : length protocol_version = 2%nat. Proof. reflexivity. Qed.

#[global] Hint Rewrite app_length firstn_length skipn_length xor_stream_length to_be_length
  protocol_id_length protocol_version_length : blen.

Ltac blen := autorewrite with blen in *.

Definition is_nil (l : bytes) : bool := match l with [] => true | _ => false end.

Section Proofs.
  Variable ks : bytes -> bytes -> nat -> N.
  Variable enr : Type.
  Variable enr_encode : enr -> bytes.
  Variable enr_decode : bytes -> option enr.

  Notation decode := (decode ks enr_decode).
  Notation encode := (encode ks enr_encode).
  Notation kind_decode := (kind_decode enr_decode).

  (* ---- PacketKind::decode without the checked operations ---- *)
  Definition kind_decode_spec (flag : N) (ad : bytes) : res (pkind enr) :=
    match flag with
    | 0%N => if negb (length ad =? 32)%nat then Err InvalidAuthDataSize else Ok (KMessage ad)
    | 1%N => if negb (length ad =? 24)%nat then Err InvalidAuthDataSize
             else Ok (KWhoAreYou (firstn 16 ad) (from_be (skipn 16 ad)))
    | 2%N =>
      if (length ad <? 34)%nat then Err InvalidAuthDataSize else
      let s := N.to_nat (nth 32 ad 0%N) in
      let k := N.to_nat (nth 33 ad 0%N) in
      if (length ad <? 34 + (s + k))%nat then Err InvalidAuthDataSize else
      let rem := skipn 34 ad in
      if (s + k <? length rem)%nat then
        match enr_decode (skipn (s + k) rem) with
        | None => Err InvalidEnr
        | Some e => Ok (KHandshake (firstn 32 ad) (firstn s rem) (firstn k (skipn s rem)) (Some e))
        end
      else Ok (KHandshake (firstn 32 ad) (firstn s rem) (firstn k (skipn s rem)) None)
    | _ => Err UnknownPacket
    end.

  Lemma kind_decode_view flag ad : kind_decode flag ad = kind_decode_spec flag ad.
  Proof.
    unfold Packet.kind_decode, kind_decode_spec.
    destruct flag as [|[p|[p|p|]|]]; try reflexivity.
    - (* 0 *)
      destruct (length ad =? 32)%nat eqn:H32; cbn [negb]; [|reflexivity].
      unfold nodeid_parse. rewrite H32. reflexivity.
    - (* 2 *)
      destruct (length ad <? 34)%nat eqn:H34; [reflexivity|].
      apply Nat.ltb_ge in H34.
      rewrite slice_to_some by lia. cbn [chk bind].
      unfold nodeid_parse. rewrite firstn_length, Nat.min_l by lia. cbn [Nat.eqb].
      rewrite !index_some by lia. cbn [chk bind].
      change (32 + 1)%nat with 33%nat. change (32 + 2)%nat with 34%nat.
      set (s := N.to_nat (nth 32 ad 0%N)). set (k := N.to_nat (nth 33 ad 0%N)).
      destruct (length ad <? 34 + (s + k))%nat eqn:Hsk; [reflexivity|].
      apply Nat.ltb_ge in Hsk.
      rewrite slice_from_some by lia. cbn [chk bind].
      assert (Hrem : length (skipn 34 ad) = (length ad - 34)%nat) by apply skipn_length.
      rewrite !slice_some by lia. cbn [chk bind].
      rewrite Nat.sub_0_r, skipn_O.
      replace (s + k - s)%nat with k by lia.
      destruct (s + k <? length (skipn 34 ad))%nat eqn:Hrec; [|reflexivity].
      apply Nat.ltb_lt in Hrec.
      rewrite slice_from_some by lia. reflexivity.
    - (* 1 *)
      destruct (length ad =? 24)%nat eqn:H24; cbn [negb]; [|reflexivity].
      apply Nat.eqb_eq in H24.
      rewrite IDNL_eq.
      rewrite slice_to_some by lia. cbn [chk bind].
      rewrite slice_from_some by lia. cbn [chk bind].
      rewrite skipn_length, H24. reflexivity.
  Qed.

  (* ---- Packet::decode without the checked operations ---- *)
  (* the unmasked static header, the claimed auth-data size and the unmasked auth-data of a datagram *)
  Definition sh_of (local data : bytes) : bytes :=
    xor_stream (ks (firstn 16 local) (firstn 16 data)) 0 (firstn 23 (skipn 16 data)).
  Definition asz_of (local data : bytes) : nat := N.to_nat (from_be (skipn 21 (sh_of local data))).
  Definition ad_of (local data : bytes) : bytes :=
    xor_stream (ks (firstn 16 local) (firstn 16 data)) 23 (firstn (asz_of local data) (skipn 39 data)).

  Definition decode_spec (local data : bytes) : res (packet enr * bytes) :=
    if (MAX_PACKET_SIZE <? len data)%N then Err TooLarge else
    if (len data <? MIN_PACKET_SIZE)%N then Err TooSmall else
    let sh := sh_of local data in
    if negb (bytes_eqb (firstn 6 sh) protocol_id) then Err HeaderDecryptionFailed else
    if negb (bytes_eqb (firstn 2 (skipn 6 sh)) protocol_version)
    then Err (InvalidVersion (from_be (firstn 2 (skipn 6 sh)))) else
    let asz := asz_of local data in
    if (length data - 39 <? asz)%nat then Err InvalidAuthDataSize else
    let ad := ad_of local data in
    match kind_decode_spec (nth 8 sh 0%N) ad with
    | Ok kind =>
      let message := skipn (39 + asz) data in
      if negb (is_nil message) && is_whoareyou kind then Err UnknownPacket else
      Ok ({| p_iv := from_be (firstn 16 data); p_nonce := firstn 12 (skipn 9 sh);
             p_kind := kind; p_message := message |},
          firstn 16 data ++ sh ++ ad)
    | Err e => Err e
    | Panic => Panic
    end.

  Lemma len_range data :
    (MAX_PACKET_SIZE <? len data)%N = false -> (len data <? MIN_PACKET_SIZE)%N = false ->
    (63 <= length data <= 1280)%nat.
  Proof.
    rewrite MAX_eq, MIN_eq. unfold len. intros H1 H2.
    apply N.ltb_ge in H1, H2. lia.
  Qed.

  Lemma decode_view local data : decode local data = decode_spec local data.
  Proof.
    unfold Packet.decode, decode_spec.
    destruct (MAX_PACKET_SIZE <? len data)%N eqn:Hmax; [reflexivity|].
    destruct (len data <? MIN_PACKET_SIZE)%N eqn:Hmin; [reflexivity|].
    pose proof (len_range data Hmax Hmin) as Hlen.
    rewrite IVL_eq, SHL_eq, NONCEL_eq.
    rewrite slice_to_some by lia. cbn [chk bind].
    rewrite slice_some by lia. cbn [chk bind].
    change (16 + 23 - 16)%nat with 23%nat. change (16 + 23)%nat with 39%nat.
    fold (sh_of local data). set (sh := sh_of local data).
    assert (Hsh : length sh = 23%nat).
    { unfold sh, sh_of. rewrite xor_stream_length, firstn_length, skipn_length. lia. }
    rewrite Hsh. cbn [Nat.eqb negb].
    rewrite slice_to_some by lia. cbn [chk bind].
    destruct (bytes_eqb (firstn 6 sh) protocol_id) eqn:Hpid; cbn [negb]; [|reflexivity].
    rewrite slice_some by lia. cbn [chk bind]. change (8 - 6)%nat with 2%nat.
    destruct (bytes_eqb (firstn 2 (skipn 6 sh)) protocol_version) eqn:Hver; cbn [negb].
    2:{ rewrite firstn_length, skipn_length, Hsh. reflexivity. }
    rewrite index_some by lia. cbn [chk bind].
    rewrite slice_some by lia. cbn [chk bind]. change (9 + 12 - 9)%nat with 12%nat.
    change (23 <? 2)%nat with false. cbv iota. change (23 - 2)%nat with 21%nat.
    rewrite slice_from_some by lia. cbn [chk bind].
    rewrite skipn_length, Hsh. cbn [Nat.sub Nat.eqb negb].
    change (N.to_nat (from_be (skipn 21 sh))) with (asz_of local data). set (asz := asz_of local data).
    rewrite slice_from_some by lia. cbn [chk bind].
    rewrite skipn_length.
    destruct (length data - 39 <? asz)%nat eqn:Hasz; [reflexivity|].
    apply Nat.ltb_ge in Hasz.
    rewrite slice_some by lia. cbn [chk bind].
    replace (39 + asz - 39)%nat with asz by lia.
    change (xor_stream (ks (firstn 16 local) (firstn 16 data)) 23 (firstn asz (skipn 39 data)))
      with (ad_of local data). rewrite kind_decode_view.
    destruct (kind_decode_spec (nth 8 sh 0%N) (ad_of local data)) as [kind|e|]; cbn [bind]; try reflexivity.
    rewrite slice_from_some by lia. cbn [chk bind].
    fold (is_nil (skipn (39 + asz) data)).
    destruct (negb (is_nil (skipn (39 + asz) data)) && is_whoareyou kind); [reflexivity|].
    rewrite firstn_length, Nat.min_l by lia. reflexivity.
  Qed.

  (* ================= decode_total ================= *)
  Lemma kind_decode_spec_total flag ad : kind_decode_spec flag ad <> Panic.
  Proof.
    unfold kind_decode_spec.
    destruct flag as [|[p|[p|p|]|]];
      repeat match goal with
             | |- context [if ?c then _ else _] => destruct c
             | |- context [match enr_decode ?x with _ => _ end] => destruct (enr_decode x)
             end; discriminate.
  Qed.

  Theorem decode_total local data : decode local data <> Panic.
  Proof.
    rewrite decode_view. unfold decode_spec.
    repeat match goal with
           | |- context [if ?c then _ else _] => destruct c; try discriminate
           end.
    pose proof (kind_decode_spec_total (nth 8 (sh_of local data) 0%N) (ad_of local data)) as H.
    destruct (kind_decode_spec (nth 8 (sh_of local data) 0%N) (ad_of local data)); try congruence;
      try discriminate.
    destruct (negb (is_nil (skipn (39 + asz_of local data) data)) && is_whoareyou a); discriminate.
  Qed.

  (* ================= strictness ================= *)
  Definition size_ok (data : bytes) : Prop :=
    (MIN_PACKET_SIZE <= len data /\ len data <= MAX_PACKET_SIZE)%N.
  (* the unmasked static header carries the expected protocol id and version *)
  Definition header_ok (local data : bytes) : Prop :=
    size_ok data /\ firstn 6 (sh_of local data) = protocol_id
    /\ firstn 2 (skipn 6 (sh_of local data)) = protocol_version.
  Definition flag_of (local data : bytes) : N := nth 8 (sh_of local data) 0%N.
  (* bytes after the static header *)
  Definition remaining_of (data : bytes) : nat := (length data - 39)%nat.
  Definition sig_size_of (local data : bytes) : nat := N.to_nat (nth 32 (ad_of local data) 0%N).
  Definition key_size_of (local data : bytes) : nat := N.to_nat (nth 33 (ad_of local data) 0%N).

  Lemma size_tests data : size_ok data ->
    (MAX_PACKET_SIZE <? len data)%N = false /\ (len data <? MIN_PACKET_SIZE)%N = false.
  Proof. intros [H1 H2]. split; apply N.ltb_ge; assumption. Qed.

  Lemma size_ok_nat data : size_ok data -> (63 <= length data <= 1280)%nat.
  Proof. intros H. destruct (size_tests data H). apply len_range; assumption. Qed.

  Theorem strict_too_small local data :
    (len data < MIN_PACKET_SIZE)%N -> decode local data = Err TooSmall.
  Proof.
    intro H. rewrite decode_view. unfold decode_spec.
    pose proof min_le_max_inst.
    replace (MAX_PACKET_SIZE <? len data)%N with false by (symmetry; apply N.ltb_ge; lia).
    apply N.ltb_lt in H. rewrite H. reflexivity.
  Qed.

  Theorem strict_too_large local data :
    (MAX_PACKET_SIZE < len data)%N -> decode local data = Err TooLarge.
  Proof.
    intro H. rewrite decode_view. unfold decode_spec. apply N.ltb_lt in H. rewrite H. reflexivity.
  Qed.

  Theorem strict_protocol_id local data :
    size_ok data -> firstn 6 (sh_of local data) <> protocol_id ->
    decode local data = Err HeaderDecryptionFailed.
  Proof.
    intros Hs H. rewrite decode_view. unfold decode_spec.
    destruct (size_tests data Hs) as [-> ->].
    apply bytes_eqb_neq in H. cbv zeta. rewrite H. reflexivity.
  Qed.

  Theorem strict_version local data :
    size_ok data -> firstn 6 (sh_of local data) = protocol_id ->
    firstn 2 (skipn 6 (sh_of local data)) <> protocol_version ->
    decode local data = Err (InvalidVersion (from_be (firstn 2 (skipn 6 (sh_of local data))))).
  Proof.
    intros Hs Hp H. rewrite decode_view. unfold decode_spec.
    destruct (size_tests data Hs) as [-> ->].
    apply bytes_eqb_eq in Hp. apply bytes_eqb_neq in H. cbv zeta. rewrite Hp, H. reflexivity.
  Qed.

  (* what is left of decode once the static header has been accepted *)
  Lemma decode_header_ok local data : header_ok local data ->
    decode local data =
    if (remaining_of data <? asz_of local data)%nat then Err InvalidAuthDataSize else
    match kind_decode_spec (flag_of local data) (ad_of local data) with
    | Ok kind =>
      let message := skipn (39 + asz_of local data) data in
      if negb (is_nil message) && is_whoareyou kind then Err UnknownPacket else
      Ok ({| p_iv := from_be (firstn 16 data); p_nonce := firstn 12 (skipn 9 (sh_of local data));
             p_kind := kind; p_message := message |},
          firstn 16 data ++ sh_of local data ++ ad_of local data)
    | Err e => Err e
    | Panic => Panic
    end.
  Proof.
    intros (Hs & Hp & Hv). rewrite decode_view. unfold decode_spec.
    destruct (size_tests data Hs) as [-> ->].
    apply bytes_eqb_eq in Hp, Hv. cbv zeta. rewrite Hp, Hv. reflexivity.
  Qed.

  Theorem strict_authdata_exceeds local data :
    header_ok local data -> (remaining_of data < asz_of local data)%nat ->
    decode local data = Err InvalidAuthDataSize.
  Proof.
    intros Hh H. rewrite (decode_header_ok _ _ Hh). apply Nat.ltb_lt in H. rewrite H. reflexivity.
  Qed.

  Lemma ad_of_length local data :
    (asz_of local data <= remaining_of data)%nat -> length (ad_of local data) = asz_of local data.
  Proof.
    unfold remaining_of, ad_of. intro H. rewrite xor_stream_length, firstn_length, skipn_length. lia.
  Qed.

  Theorem strict_unknown_kind local data :
    header_ok local data -> (asz_of local data <= remaining_of data)%nat ->
    flag_of local data <> 0%N -> flag_of local data <> 1%N -> flag_of local data <> 2%N ->
    decode local data = Err UnknownPacket.
  Proof.
    intros Hh Ha H0 H1 H2. rewrite (decode_header_ok _ _ Hh).
    apply Nat.ltb_ge in Ha. rewrite Ha.
    unfold kind_decode_spec. destruct (flag_of local data) as [|[p|[p|p|]|]]; congruence.
  Qed.

  (* whatever the claimed auth-data size *)
  Theorem strict_unknown_kind_rejected local data :
    header_ok local data ->
    flag_of local data <> 0%N -> flag_of local data <> 1%N -> flag_of local data <> 2%N ->
    decode local data = Err UnknownPacket \/ decode local data = Err InvalidAuthDataSize.
  Proof.
    intros Hh H0 H1 H2.
    destruct (Nat.le_gt_cases (asz_of local data) (remaining_of data)).
    - left. apply strict_unknown_kind; assumption.
    - right. apply strict_authdata_exceeds; assumption.
  Qed.

  Theorem strict_message_authdata local data :
    header_ok local data -> (asz_of local data <= remaining_of data)%nat ->
    flag_of local data = 0%N -> asz_of local data <> 32%nat ->
    decode local data = Err InvalidAuthDataSize.
  Proof.
    intros Hh Ha Hf H. rewrite (decode_header_ok _ _ Hh).
    pose proof (ad_of_length _ _ Ha) as Hl.
    apply Nat.ltb_ge in Ha. rewrite Ha, Hf. unfold kind_decode_spec. rewrite Hl.
    apply Nat.eqb_neq in H. rewrite H. reflexivity.
  Qed.

  Theorem strict_whoareyou_authdata local data :
    header_ok local data -> (asz_of local data <= remaining_of data)%nat ->
    flag_of local data = 1%N -> asz_of local data <> 24%nat ->
    decode local data = Err InvalidAuthDataSize.
  Proof.
    intros Hh Ha Hf H. rewrite (decode_header_ok _ _ Hh).
    pose proof (ad_of_length _ _ Ha) as Hl.
    apply Nat.ltb_ge in Ha. rewrite Ha, Hf. unfold kind_decode_spec. rewrite Hl.
    apply Nat.eqb_neq in H. rewrite H. reflexivity.
  Qed.

  Theorem strict_handshake_authdata_fixed local data :
    header_ok local data -> (asz_of local data <= remaining_of data)%nat ->
    flag_of local data = 2%N -> (asz_of local data < 34)%nat ->
    decode local data = Err InvalidAuthDataSize.
  Proof.
    intros Hh Ha Hf H. rewrite (decode_header_ok _ _ Hh).
    pose proof (ad_of_length _ _ Ha) as Hl.
    apply Nat.ltb_ge in Ha. rewrite Ha, Hf. unfold kind_decode_spec. rewrite Hl.
    apply Nat.ltb_lt in H. rewrite H. reflexivity.
  Qed.

  Theorem strict_handshake_authdata_sig_key local data :
    header_ok local data -> (asz_of local data <= remaining_of data)%nat ->
    flag_of local data = 2%N ->
    (asz_of local data < 34 + sig_size_of local data + key_size_of local data)%nat ->
    decode local data = Err InvalidAuthDataSize.
  Proof.
    intros Hh Ha Hf H. rewrite (decode_header_ok _ _ Hh).
    pose proof (ad_of_length _ _ Ha) as Hl.
    apply Nat.ltb_ge in Ha. rewrite Ha, Hf. unfold kind_decode_spec. rewrite Hl.
    destruct (asz_of local data <? 34)%nat; [reflexivity|].
    fold (sig_size_of local data). fold (key_size_of local data). cbv zeta.
    replace (asz_of local data <? 34 + (sig_size_of local data + key_size_of local data))%nat with true
      by (symmetry; apply Nat.ltb_lt; lia).
    reflexivity.
  Qed.

  Theorem strict_whoareyou_body local data :
    header_ok local data -> (asz_of local data < remaining_of data)%nat ->
    flag_of local data = 1%N ->
    decode local data = Err UnknownPacket \/ decode local data = Err InvalidAuthDataSize.
  Proof.
    intros Hh Ha Hf.
    destruct (Nat.eq_dec (asz_of local data) 24) as [E|E].
    2:{ right. apply strict_whoareyou_authdata; auto. lia. }
    left. rewrite (decode_header_ok _ _ Hh).
    assert (Ha' : (asz_of local data <= remaining_of data)%nat) by lia.
    pose proof (ad_of_length _ _ Ha') as Hl.
    apply Nat.ltb_ge in Ha'. rewrite Ha', Hf. unfold kind_decode_spec. rewrite Hl.
    replace (asz_of local data =? 24)%nat with true by (symmetry; apply Nat.eqb_eq; exact E).
    cbn [negb]. cbv zeta.
    assert (Hm : is_nil (skipn (39 + asz_of local data) data) = false).
    { unfold remaining_of in Ha.
      destruct (skipn (39 + asz_of local data) data) eqn:Es; [|reflexivity].
      apply (f_equal (@length N)) in Es. rewrite skipn_length in Es. cbn in Es. lia. }
    rewrite Hm. reflexivity.
  Qed.

  (* the precise form: a WHOAREYOU with the right auth-data and a body *)
  Theorem strict_whoareyou_body_exact local data :
    header_ok local data -> flag_of local data = 1%N -> asz_of local data = 24%nat ->
    (63 < length data)%nat -> decode local data = Err UnknownPacket.
  Proof.
    intros Hh Hf E Hl.
    destruct (strict_whoareyou_body local data Hh) as [H|H]; auto.
    - unfold remaining_of. lia.
    - exfalso. rewrite (decode_header_ok _ _ Hh) in H.
      assert (Ha' : (asz_of local data <= remaining_of data)%nat) by (unfold remaining_of; lia).
      pose proof (ad_of_length _ _ Ha') as Hl'.
      apply Nat.ltb_ge in Ha'. rewrite Ha', Hf in H. unfold kind_decode_spec in H.
      rewrite Hl' in H.
      replace (asz_of local data =? 24)%nat with true in H by (symmetry; apply Nat.eqb_eq; exact E).
      cbn [negb] in H. cbv zeta in H.
      destruct (negb (is_nil (skipn (39 + asz_of local data) data)) && _) in H; discriminate.
  Qed.

  (* ================= the authenticated data are the received bytes ================= *)
  Lemma decode_ok_inv local data p aad : decode local data = Ok (p, aad) ->
    header_ok local data /\ (asz_of local data <= remaining_of data)%nat /\
    aad = firstn 16 data ++ sh_of local data ++ ad_of local data /\
    p_iv p = from_be (firstn 16 data) /\
    p_nonce p = firstn 12 (skipn 9 (sh_of local data)) /\
    p_message p = skipn (39 + asz_of local data) data /\
    kind_decode_spec (flag_of local data) (ad_of local data) = Ok (p_kind p) /\
    (is_whoareyou (p_kind p) = true -> p_message p = []).
  Proof.
    rewrite decode_view. unfold decode_spec, header_ok, size_ok, flag_of, remaining_of.
    destruct (MAX_PACKET_SIZE <? len data)%N eqn:H1; [discriminate|].
    destruct (len data <? MIN_PACKET_SIZE)%N eqn:H2; [discriminate|].
    cbv zeta.
    destruct (bytes_eqb (firstn 6 (sh_of local data)) protocol_id) eqn:H3; [|discriminate].
    destruct (bytes_eqb (firstn 2 (skipn 6 (sh_of local data))) protocol_version) eqn:H4; [|discriminate].
    cbn [negb].
    destruct (length data - 39 <? asz_of local data)%nat eqn:H5; [discriminate|].
    destruct (kind_decode_spec (nth 8 (sh_of local data) 0%N) (ad_of local data)) as [k|e|] eqn:H6;
      try discriminate.
    destruct (is_nil (skipn (39 + asz_of local data) data)) eqn:H7;
      destruct (is_whoareyou k) eqn:H8; cbn [negb andb]; try discriminate;
      intro H; injection H as <- <-; cbn [p_iv p_nonce p_kind p_message];
      apply N.ltb_ge in H1, H2; apply bytes_eqb_eq in H3, H4; apply Nat.ltb_ge in H5;
      repeat split; auto; try congruence.
    intros _. change (skipn (39 + asz_of local data) data = []).
    destruct (skipn (39 + asz_of local data) data); [reflexivity|discriminate].
  Qed.

  Lemma unmask_join local data :
    (63 <= length data)%nat -> (asz_of local data <= remaining_of data)%nat ->
    sh_of local data ++ ad_of local data =
    xor_stream (ks (firstn 16 local) (firstn 16 data)) 0
      (firstn (23 + asz_of local data) (skipn 16 data)).
  Proof.
    unfold remaining_of. intros Hl Ha. unfold sh_of, ad_of.
    rewrite firstn_plus, xor_stream_app, skipn_skipn.
    rewrite firstn_length, skipn_length, Nat.min_l by lia. reflexivity.
  Qed.

  (* DESIGN: aad = take 16 bs ++ unmask (slice bs 16 (39 + authsize)) *)
  Theorem aad_is_received_bytes local data p aad : decode local data = Ok (p, aad) ->
    aad = firstn 16 data ++
          xor_stream (ks (firstn 16 local) (firstn 16 data)) 0
            (firstn (23 + asz_of local data) (skipn 16 data))
    /\ p_message p = skipn (16 + 23 + asz_of local data) data
    /\ (16 + 23 + asz_of local data <= length data)%nat.
  Proof.
    intro H. apply decode_ok_inv in H as (Hh & Ha & Haad & _ & _ & Hm & _).
    destruct Hh as (Hs & _). apply size_ok_nat in Hs.
    rewrite <- unmask_join by lia. unfold remaining_of in Ha. repeat split; auto. lia.
  Qed.

  (* the datagram is determined by its authenticated data and its body *)
  Theorem datagram_from_aad_and_body local data p aad : decode local data = Ok (p, aad) ->
    data = firstn 16 aad ++
           xor_stream (ks (firstn 16 local) (firstn 16 aad)) 0 (skipn 16 aad) ++ p_message p.
  Proof.
    intro H. destruct (aad_is_received_bytes _ _ _ _ H) as (Ha & Hm & Hl).
    assert (H16 : length (firstn 16 data) = 16%nat) by (rewrite firstn_length; lia).
    rewrite Ha. rewrite firstn_app_exact by (symmetry; exact H16).
    rewrite skipn_app_exact by (symmetry; exact H16).
    rewrite xor_stream_invol, Hm.
    replace (16 + 23 + asz_of local data)%nat with (16 + (23 + asz_of local data))%nat by lia.
    rewrite <- skipn_skipn. rewrite firstn_skipn. rewrite firstn_skipn. reflexivity.
  Qed.

  Theorem decode_injective local d1 d2 p1 p2 a1 a2 :
    decode local d1 = Ok (p1, a1) -> decode local d2 = Ok (p2, a2) ->
    a1 = a2 -> p_message p1 = p_message p2 -> d1 = d2.
  Proof.
    intros H1 H2 Ea Em.
    rewrite (datagram_from_aad_and_body _ _ _ _ H1), (datagram_from_aad_and_body _ _ _ _ H2).
    rewrite Ea, Em. reflexivity.
  Qed.

  (* ================= everything that is accepted passed every rule ================= *)
  Theorem decode_accepts_only local data p aad : decode local data = Ok (p, aad) ->
    header_ok local data /\ (asz_of local data <= remaining_of data)%nat /\
    (   (flag_of local data = 0%N /\ asz_of local data = 32%nat)
     \/ (flag_of local data = 1%N /\ asz_of local data = 24%nat /\ length data = 63%nat)
     \/ (flag_of local data = 2%N
         /\ (34 + sig_size_of local data + key_size_of local data <= asz_of local data)%nat)).
  Proof.
    intro H. pose proof (decode_ok_inv _ _ _ _ H) as (Hh & Ha & _).
    split; [exact Hh|]. split; [exact Ha|].
    destruct (N.eq_dec (flag_of local data) 0) as [F0|F0].
    { left. split; [exact F0|]. destruct (Nat.eq_dec (asz_of local data) 32); auto.
      rewrite strict_message_authdata in H by auto. discriminate. }
    destruct (N.eq_dec (flag_of local data) 1) as [F1|F1].
    { right. left. split; [exact F1|].
      destruct (Nat.eq_dec (asz_of local data) 24) as [E|E].
      2:{ rewrite strict_whoareyou_authdata in H by auto. discriminate. }
      split; [exact E|].
      destruct Hh as (Hs & Hp & Hv). pose proof (size_ok_nat _ Hs).
      destruct (Nat.eq_dec (length data) 63); auto.
      rewrite strict_whoareyou_body_exact in H; try discriminate; auto; [split; auto|lia]. }
    destruct (N.eq_dec (flag_of local data) 2) as [F2|F2].
    { right. right. split; [exact F2|].
      destruct (Nat.le_gt_cases (34 + sig_size_of local data + key_size_of local data) (asz_of local data));
        auto.
      rewrite strict_handshake_authdata_sig_key in H by auto. discriminate. }
    rewrite strict_unknown_kind in H by auto. discriminate.
  Qed.

  (* ================= layout of the encoder ================= *)
  Theorem encode_layout (p : packet enr) dst :
    encode p dst =
      to_be 16 (p_iv p)
      ++ xor_stream (ks (firstn 16 dst) (to_be 16 (p_iv p))) 0
           (protocol_id ++ protocol_version ++ to_be 1 (kind_flag (p_kind p)) ++ p_nonce p
            ++ to_be 2 (len (kind_encode enr_encode (p_kind p))) ++ kind_encode enr_encode (p_kind p))
      ++ p_message p.
  Proof. reflexivity. Qed.

  Theorem authdata_layout (k : pkind enr) :
    kind_encode enr_encode k =
    match k with
    | KMessage src => src
    | KWhoAreYou idn seq => idn ++ to_be 8 seq
    | KHandshake src sig key rec =>
      src ++ to_be 1 (len sig) ++ to_be 1 (len key) ++ sig ++ key
          ++ match rec with Some e => enr_encode e | None => [] end
    end.
  Proof. destruct k; reflexivity. Qed.

  (* the static header of an encoded packet, and the split of the header *)
  Definition static_header (p : packet enr) : bytes :=
    protocol_id ++ protocol_version ++ to_be 1 (kind_flag (p_kind p)) ++ p_nonce p
      ++ to_be 2 (len (kind_encode enr_encode (p_kind p))).

  Lemma header_split p :
    header_encode enr_encode p = static_header p ++ kind_encode enr_encode (p_kind p).
  Proof. unfold header_encode, static_header. rewrite <- !app_assoc. reflexivity. Qed.

  Lemma static_header_length p : length (p_nonce p) = 12%nat -> length (static_header p) = 23%nat.
  Proof. intro H. unfold static_header. blen. rewrite H. reflexivity. Qed.

  (* the views of a datagram assembled from its parts *)
  Lemma views_compose local iv st ad body :
    length iv = 16%nat -> length st = 23%nat ->
    let data := iv ++ xor_stream (ks (firstn 16 local) iv) 0 (st ++ ad) ++ body in
    firstn 16 data = iv /\ sh_of local data = st /\
    (from_be (skipn 21 st) = len ad ->
       asz_of local data = length ad /\ ad_of local data = ad
       /\ skipn (39 + length ad) data = body).
  Proof.
    intros Hiv Hst data.
    assert (E16 : firstn 16 data = iv) by (apply firstn_app_exact; auto).
    assert (S16 : skipn 16 data = xor_stream (ks (firstn 16 local) iv) 0 (st ++ ad) ++ body)
      by (apply skipn_app_exact; auto).
    assert (Esh : sh_of local data = st).
    { unfold sh_of. rewrite E16, S16, xor_stream_app, <- app_assoc.
      rewrite firstn_app_exact by (rewrite xor_stream_length; auto).
      apply xor_stream_invol. }
    split; [exact E16|]. split; [exact Esh|].
    intro Hsz.
    assert (Easz : asz_of local data = length ad).
    { unfold asz_of. rewrite Esh, Hsz. unfold len. apply Nat2N.id. }
    assert (S39 : skipn 39 data = xor_stream (ks (firstn 16 local) iv) 23 ad ++ body).
    { change 39%nat with (16 + 23)%nat. rewrite <- skipn_skipn, S16, xor_stream_app, <- app_assoc.
      rewrite skipn_app_exact by (rewrite xor_stream_length; auto). rewrite Hst. reflexivity. }
    split; [exact Easz|]. split.
    - unfold ad_of. rewrite Easz, E16, S39.
      rewrite firstn_app_exact by (rewrite xor_stream_length; auto).
      apply xor_stream_invol.
    - rewrite <- skipn_skipn, S39.
      apply skipn_app_exact. rewrite xor_stream_length. reflexivity.
  Qed.

  (* two error variants of PacketError are dead code in Packet::decode: the static header always
     has 23 bytes after the size guards, and NodeId::parse only sees 32-byte slices *)
  Lemma kind_decode_spec_errors flag ad e : kind_decode_spec flag ad = Err e ->
    e = InvalidAuthDataSize \/ e = InvalidEnr \/ e = UnknownPacket.
  Proof.
    unfold kind_decode_spec.
    destruct flag as [|[p|[p|p|]|]];
      repeat match goal with
             | |- context [if ?c then _ else _] => destruct c
             | |- context [match enr_decode ?x with _ => _ end] => destruct (enr_decode x)
             end; intro H; inversion H; auto.
  Qed.

  Theorem decode_dead_errors local data :
    decode local data <> Err InvalidNodeId /\ forall n, decode local data <> Err (HeaderLengthInvalid n).
  Proof.
    rewrite decode_view. unfold decode_spec.
    pose proof (kind_decode_spec_errors (nth 8 (sh_of local data) 0%N) (ad_of local data)) as H.
    split; [|intro n];
      repeat match goal with
             | |- context [if ?c then _ else _] => destruct c; try discriminate
             end;
      destruct (kind_decode_spec (nth 8 (sh_of local data) 0%N) (ad_of local data)) as [k|e|];
      try discriminate;
      try (destruct (H e eq_refl) as [->|[->| ->]]; discriminate);
      repeat match goal with
             | |- context [if ?c then _ else _] => destruct c; try discriminate
             end.
  Qed.

  Theorem encode_length (p : packet enr) dst :
    length (encode p dst) =
    (16 + (6 + 2 + 1 + length (p_nonce p) + 2 + length (kind_encode enr_encode (p_kind p)))
     + length (p_message p))%nat.
  Proof.
    rewrite encode_layout. rewrite !app_length, xor_stream_length, !app_length, !to_be_length.
    rewrite protocol_id_length, protocol_version_length. lia.
  Qed.

  (* ================= a datagram masked for another id ================= *)
  Theorem wrong_id_needs_collision (p : packet enr) dst dst' q aad :
    decode dst' (encode p dst) = Ok (q, aad) ->
    forall i, (i < 8)%nat ->
      ks (firstn 16 dst') (to_be 16 (p_iv p)) i = ks (firstn 16 dst) (to_be 16 (p_iv p)) i.
  Proof.
    intros H i Hi. apply decode_ok_inv in H as ((Hs & Hp & Hv) & _).
    set (iv := to_be 16 (p_iv p)) in *.
    set (k := ks (firstn 16 dst) iv). set (k' := ks (firstn 16 dst') iv).
    set (rest := to_be 1 (kind_flag (p_kind p)) ++ p_nonce p
                 ++ to_be 2 (len (kind_encode enr_encode (p_kind p)))
                 ++ kind_encode enr_encode (p_kind p)).
    set (pv := protocol_id ++ protocol_version).
    assert (Hdata : encode p dst = iv ++ xor_stream k 0 (pv ++ rest) ++ p_message p).
    { rewrite encode_layout. unfold pv, rest. rewrite <- !app_assoc. reflexivity. }
    assert (Hiv : length iv = 16%nat) by apply to_be_length.
    assert (Hpv : length pv = 8%nat) by reflexivity.
    (* the first 8 bytes of the header as unmasked by dst' *)
    assert (H8 : firstn 8 (sh_of dst' (encode p dst)) = xor_stream k' 0 (xor_stream k 0 pv)).
    { unfold sh_of. rewrite Hdata.
      rewrite firstn_app_exact by auto. rewrite skipn_app_exact by auto.
      fold k'. rewrite xor_stream_firstn, firstn_firstn. change (Nat.min 8 23) with 8%nat.
      rewrite xor_stream_app, <- app_assoc.
      rewrite firstn_app_exact by (rewrite xor_stream_length; auto). reflexivity. }
    assert (H8' : firstn 8 (sh_of dst' (encode p dst)) = pv).
    { change 8%nat with (6 + 2)%nat. rewrite firstn_plus, Hp, Hv. reflexivity. }
    rewrite H8' in H8. symmetry in H8.
    pose proof (xor_stream_same_result k k' 0 pv H8 i) as R. rewrite Hpv in R. apply R. exact Hi.
  Qed.

  (* ================= round trip ================= *)
  Definition kind_wf (k : pkind enr) : Prop :=
    match k with
    | KMessage src => length src = 32%nat
    | KWhoAreYou idn seq => length idn = 16%nat /\ (seq < 2 ^ 64)%N
    | KHandshake src sig key _ => length src = 32%nat /\ (length sig <= 255)%nat /\ (length key <= 255)%nat
    end.
  Definition packet_wf (p : packet enr) : Prop :=
    (p_iv p < 2 ^ 128)%N /\ length (p_nonce p) = 12%nat /\ kind_wf (p_kind p)
    /\ (is_whoareyou (p_kind p) = true -> p_message p = []).

  Lemma to_be_1 x : (x < 256)%N -> to_be 1 x = [x].
  Proof. intro H. cbn. rewrite N.div_1_r, N.mod_small by exact H. reflexivity. Qed.

  Section RoundTrip.
    Hypothesis enr_round_trip : forall e, enr_decode (enr_encode e) = Some e.
    Hypothesis enr_encode_nonempty : forall e, enr_encode e <> [].

    Lemma kind_decode_encode k : kind_wf k ->
      kind_decode_spec (kind_flag k) (kind_encode enr_encode k) = Ok k.
    Proof.
      destruct k as [src|idn seq|src sig key rec]; cbn [kind_wf kind_flag kind_encode kind_decode_spec].
      - intros ->. reflexivity.
      - intros [Hi Hs]. rewrite app_length, to_be_length, Hi. cbn [Nat.add Nat.eqb negb].
        rewrite firstn_app_exact, skipn_app_exact by auto.
        rewrite from_be_to_be by exact Hs. reflexivity.
      - intros (Hsrc & Hsig & Hkey).
        rewrite !to_be_1 by (unfold len; lia).
        set (r := match rec with Some e => enr_encode e | None => [] end).
        assert (Hlen : length (src ++ [len sig] ++ [len key] ++ sig ++ key ++ r)
                       = (34 + (length sig + length key) + length r)%nat).
        { rewrite !app_length. cbn [length]. lia. }
        rewrite Hlen.
        replace (34 + (length sig + length key) + length r <? 34)%nat with false
          by (symmetry; apply Nat.ltb_ge; lia).
        assert (H32 : nth 32 (src ++ [len sig] ++ [len key] ++ sig ++ key ++ r) 0%N = len sig).
        { rewrite app_nth2 by lia. rewrite Hsrc. reflexivity. }
        assert (H33 : nth 33 (src ++ [len sig] ++ [len key] ++ sig ++ key ++ r) 0%N = len key).
        { rewrite app_nth2 by lia. rewrite Hsrc. reflexivity. }
        rewrite H32, H33. unfold len. rewrite !Nat2N.id. cbv zeta.
        replace (34 + (length sig + length key) + length r <? 34 + (length sig + length key))%nat
          with false by (symmetry; apply Nat.ltb_ge; lia).
        assert (Hrem : skipn 34 (src ++ [N.of_nat (length sig)] ++ [N.of_nat (length key)] ++ sig ++ key ++ r)
                       = sig ++ key ++ r).
        { change (src ++ [N.of_nat (length sig)] ++ [N.of_nat (length key)] ++ sig ++ key ++ r)
            with (src ++ N.of_nat (length sig) :: N.of_nat (length key) :: (sig ++ key ++ r)).
          replace (src ++ N.of_nat (length sig) :: N.of_nat (length key) :: (sig ++ key ++ r))
            with ((src ++ [N.of_nat (length sig); N.of_nat (length key)]) ++ (sig ++ key ++ r))
            by (rewrite <- app_assoc; reflexivity).
          apply skipn_app_exact. rewrite app_length, Hsrc. reflexivity. }
        rewrite Hrem.
        rewrite (firstn_app_exact src) by (symmetry; exact Hsrc).
        replace (skipn (length sig + length key) (sig ++ key ++ r)) with r.
        2:{ rewrite app_assoc. symmetry. apply skipn_app_exact. rewrite app_length. reflexivity. }
        rewrite (firstn_app_exact sig) by auto.
        rewrite (skipn_app_exact sig) by auto.
        rewrite (firstn_app_exact key) by auto.
        rewrite !app_length.
        destruct rec as [e|]; subst r.
        + replace (length sig + length key <? length sig + (length key + length (enr_encode e)))%nat
            with true.
          2:{ symmetry. apply Nat.ltb_lt. pose proof (enr_encode_nonempty e).
              destruct (enr_encode e); [congruence|cbn [length]; lia]. }
          rewrite enr_round_trip. reflexivity.
        + cbn [length]. rewrite Nat.add_0_r, Nat.ltb_irrefl. reflexivity.
    Qed.

    Theorem decode_encode (p : packet enr) dst :
      packet_wf p -> size_ok (encode p dst) ->
      decode dst (encode p dst) = Ok (p, authenticated_data enr_encode p).
    Proof.
      intros (Hiv & Hn & Hk & Hw) Hs.
      pose proof (size_ok_nat _ Hs) as Hsz.
      set (iv := to_be 16 (p_iv p)).
      set (ad := kind_encode enr_encode (p_kind p)).
      assert (Hdata : encode p dst
                      = iv ++ xor_stream (ks (firstn 16 dst) iv) 0 (static_header p ++ ad) ++ p_message p).
      { unfold Packet.encode, encrypt_header. rewrite header_split. reflexivity. }
      assert (Hivl : length iv = 16%nat) by apply to_be_length.
      pose proof (static_header_length p Hn) as Hstl.
      (* the auth-data fits the u16 size field *)
      assert (Had : (len ad < 65536)%N).
      { rewrite Hdata in Hsz. rewrite !app_length, xor_stream_length, app_length in Hsz.
        unfold len. lia. }
      assert (Hskip21 : skipn 21 (static_header p) = to_be 2 (len ad)).
      { unfold static_header. fold ad. rewrite !app_assoc.
        apply skipn_app_exact. blen. rewrite Hn. reflexivity. }
      assert (Hfb : from_be (skipn 21 (static_header p)) = len ad).
      { rewrite Hskip21. apply from_be_to_be. exact Had. }
      destruct (views_compose dst iv (static_header p) ad (p_message p) Hivl Hstl)
        as (E16 & Esh & Erest).
      destruct (Erest Hfb) as (Easz & Ead & Ebody).
      rewrite <- Hdata in *.
      assert (Hh : header_ok dst (encode p dst)).
      { split; [exact Hs|]. rewrite Esh. unfold static_header. split.
        - apply firstn_app_exact. reflexivity.
        - rewrite skipn_app_exact by reflexivity. apply firstn_app_exact. reflexivity. }
      rewrite (decode_header_ok _ _ Hh).
      unfold remaining_of, flag_of. rewrite Easz, Ead, Esh, Ebody, E16.
      replace (length (encode p dst) - 39 <? length ad)%nat with false.
      2:{ symmetry. apply Nat.ltb_ge. rewrite Hdata, !app_length, xor_stream_length, app_length. lia. }
      assert (Hflag : nth 8 (static_header p) 0%N = kind_flag (p_kind p)).
      { unfold static_header. rewrite app_nth2 by (rewrite protocol_id_length; lia).
        rewrite app_nth2 by (rewrite protocol_id_length, protocol_version_length; lia).
        rewrite protocol_id_length, protocol_version_length.
        destruct (p_kind p); reflexivity. }
      rewrite Hflag. unfold ad. rewrite (kind_decode_encode _ Hk). cbv zeta.
      assert (Hnil : negb (is_nil (p_message p)) && is_whoareyou (p_kind p) = false).
      { destruct (is_whoareyou (p_kind p)) eqn:W; [|apply andb_false_r].
        rewrite (Hw eq_refl). reflexivity. }
      rewrite Hnil.
      assert (Hnonce : firstn 12 (skipn 9 (static_header p)) = p_nonce p).
      { unfold static_header.
        replace (protocol_id ++ protocol_version ++ to_be 1 (kind_flag (p_kind p)) ++ p_nonce p
                 ++ to_be 2 (len (kind_encode enr_encode (p_kind p))))
          with ((protocol_id ++ protocol_version ++ to_be 1 (kind_flag (p_kind p)))
                  ++ p_nonce p ++ to_be 2 (len (kind_encode enr_encode (p_kind p))))
          by (rewrite <- !app_assoc; reflexivity).
        rewrite skipn_app_exact by reflexivity.
        apply firstn_app_exact. auto. }
      rewrite Hnonce. unfold iv. rewrite from_be_to_be by exact Hiv.
      unfold authenticated_data. rewrite header_split.
      destruct p; reflexivity.
    Qed.
  End RoundTrip.

End Proofs.
