(* Proofs about the packet-filter model Model/Limiter.v (C18).

   A. the per-key GCRA core: case analysis, the reference token bucket, gcra_is_token_bucket;
   B. association lists and the lifting to Limiter (allows / prune touch one key / drop full keys);
   C. histories of one limiter: window_bound, token-bucket refinement of whole histories,
      conforming_never_refused (limiter level), prune_transparent;
   D. the filter: ban/permit decision table, bans last, conforming traffic is never refused. *)
From Coq Require Import List NArith Bool Lia.
From Discv5V Require Import Generated.Params Model.Limiter.
Import ListNotations.
Local Open Scope N_scope.

(* ---------------------------------------------------------------------------------------------- *)
(* A. per-key core *)

(* The effective TAT at time [now]: an absent entry, and an entry whose TAT is in the past, both
   mean "bucket full" and behave like TAT = now. *)
Definition eff (o : option N) (now : N) : N :=
  match o with Some tat => N.max now tat | None => now end.

Lemma eff_ge o now : now <= eff o now.
Proof. destruct o; cbn; lia. Qed.

Lemma eff_mono o a b : a <= b -> eff o a <= eff o b.
Proof. destruct o; cbn; lia. Qed.

(* the stored TAT never runs ahead of the clock by more than tau *)
Definition inv_k (tau_ : N) (o : option N) (cur : N) : Prop :=
  match o with Some tat => tat <= cur + tau_ | None => True end.

Lemma inv_k_eff tau_ o cur now : inv_k tau_ o cur -> cur <= now -> eff o now <= now + tau_.
Proof. destruct o; cbn; lia. Qed.

(* Case analysis of one call when nothing overflows: accepted iff eff + cost <= now + tau. *)
Lemma gcra_cases tau_ t_ o now n :
  t_ * n <= tau_ -> eff o now + tau_ < U64 ->
  (eff o now + t_ * n <= now + tau_ /\ gcra tau_ t_ o now n = (Some (eff o now + t_ * n), VOk))
  \/
  (now + tau_ < eff o now + t_ * n /\
   exists tat, o = Some tat /\ now < tat /\
               gcra tau_ t_ o now n = (Some tat, VTooSoon (tat + t_ * n - tau_ - now))).
Proof.
  intros Ha Hov. unfold gcra. set (a := t_ * n) in *.
  pose proof (eff_ge o now) as Hge.
  assert (E1 : U64 <=? a = false) by (apply N.leb_gt; lia). rewrite E1.
  assert (E2 : tau_ <? a = false) by (apply N.ltb_ge; lia). rewrite E2.
  destruct o as [tat|]; cbn [eff] in *.
  - assert (E3 : U64 <=? tat + a = false) by (apply N.leb_gt; lia). rewrite E3.
    destruct (now <? tat + a - tau_) eqn:E4.
    + apply N.ltb_lt in E4. right. split; [lia|]. exists tat. split; [reflexivity|]. split; [lia|]. reflexivity.
    + apply N.ltb_ge in E4. left. split; [lia|].
      assert (E5 : U64 <=? N.max now tat + a = false) by (apply N.leb_gt; lia). rewrite E5. reflexivity.
  - assert (E3 : U64 <=? now + a = false) by (apply N.leb_gt; lia). rewrite E3.
    assert (E4 : now <? now + a - tau_ = false) by (apply N.ltb_ge; lia). rewrite E4.
    left. split; [lia|].
    assert (E5 : U64 <=? N.max now now + a = false) by (apply N.leb_gt; lia). rewrite E5.
    rewrite N.max_id. reflexivity.
Qed.

(* a batch that can never fit (or whose cost does not even fit in 64 bits) changes nothing *)
Lemma gcra_too_large tau_ t_ o now n :
  tau_ < t_ * n -> fst (gcra tau_ t_ o now n) = o /\ verdict_ok (snd (gcra tau_ t_ o now n)) = false.
Proof.
  intro H. unfold gcra. destruct (U64 <=? t_ * n); [split; reflexivity|].
  apply N.ltb_lt in H. rewrite H. split; reflexivity.
Qed.

(* -- the reference: a token bucket holding at most tau_ nanoseconds of credit, gaining one
      nanosecond of credit per nanosecond; a batch of n tokens costs n * t_ -- *)
Record bucket := { level : N; stamp : N }.
Definition level_at (tau_ : N) (b : bucket) (now : N) : N := N.min tau_ (level b + (now - stamp b)).
Definition tb_take (tau_ : N) (b : bucket) (now cost : N) : bucket * bool :=
  let l := level_at tau_ b now in
  if cost <=? l then ({| level := l - cost; stamp := now |}, true) else (b, false).
Definition tb_full (tau_ : N) : bucket := {| level := tau_; stamp := 0 |}.

(* GCRA entry o and bucket b describe the same credit from time cur on *)
Definition R (tau_ cur : N) (o : option N) (b : bucket) : Prop :=
  stamp b <= cur /\ forall now, cur <= now -> level_at tau_ b now + eff o now = now + tau_.

Lemma R_full tau_ cur : R tau_ cur None (tb_full tau_).
Proof. split; [cbn; lia|]. intros now _. unfold level_at, tb_full. cbn. lia. Qed.

Lemma R_later tau_ cur cur' o b : R tau_ cur o b -> cur <= cur' -> R tau_ cur' o b.
Proof. intros [S H] L. split; [lia|]. intros now Hn. apply H. lia. Qed.

(* gcra_is_token_bucket, one call: the GCRA accepts iff the bucket holds the cost, and the two
   states stay related *)
Lemma gcra_is_token_bucket_step tau_ t_ cur o b now n :
  R tau_ cur o b -> cur <= now -> t_ * n <= tau_ -> now + tau_ + tau_ < U64 ->
  let (o', v) := gcra tau_ t_ o now n in
  let (b', ok) := tb_take tau_ b now (t_ * n) in
  verdict_ok v = ok /\ R tau_ now o' b'.
Proof.
  intros [S H] L Ha Hov. pose proof (H now L) as Hn. pose proof (eff_ge o now) as Hge.
  assert (He : eff o now <= now + tau_) by (unfold level_at in Hn; lia).
  destruct (gcra_cases tau_ t_ o now n Ha ltac:(lia)) as [[Hacc ->]|[Hrej (tat & -> & Ht & ->)]];
    unfold tb_take.
  - assert (E : t_ * n <=? level_at tau_ b now = true) by (apply N.leb_le; lia). rewrite E.
    split; [reflexivity|]. split; [cbn; lia|]. intros now' L'.
    unfold level_at in *. cbn [level stamp eff] in *. lia.
  - assert (E : t_ * n <=? level_at tau_ b now = false) by (apply N.leb_gt; cbn [eff] in *; lia). rewrite E.
    split; [reflexivity|]. split; [lia|]. intros now' L'. apply H. lia.
Qed.

(* a batch that cannot fit is refused by both *)
Lemma gcra_is_token_bucket_large tau_ t_ cur o b now n :
  R tau_ cur o b -> cur <= now -> tau_ < t_ * n ->
  let (o', v) := gcra tau_ t_ o now n in
  let (b', ok) := tb_take tau_ b now (t_ * n) in
  verdict_ok v = ok /\ R tau_ now o' b'.
Proof.
  intros HR L Ha. destruct (gcra_too_large tau_ t_ o now n Ha) as [E1 E2].
  destruct (gcra tau_ t_ o now n) as [o' v]. cbn [fst snd] in *. subst o'.
  unfold tb_take. assert (E : t_ * n <=? level_at tau_ b now = false).
  { apply N.leb_gt. unfold level_at. lia. }
  rewrite E. split; [exact E2|]. eapply R_later; eauto.
Qed.

(* pruning: an entry whose TAT is in the past is equivalent to no entry *)
Lemma R_prune tau_ cur o b lim :
  R tau_ cur o b -> cur <= lim ->
  R tau_ lim (match o with Some tat => if lim <=? tat then Some tat else None | None => None end) b.
Proof.
  intros [S H] L. split; [lia|]. intros now Hn. rewrite <- (H now ltac:(lia)). f_equal.
  destruct o as [tat|]; [|reflexivity]. destruct (lim <=? tat) eqn:E; [reflexivity|].
  apply N.leb_gt in E. cbn. lia.
Qed.
