(* Proofs about the packet-filter model Model/Limiter.v (C18).

   A. the per-key GCRA core: case analysis, the reference token bucket, gcra_is_token_bucket;
   B. association lists and the lifting to Limiter (allows / prune touch one key / drop full keys);
   C. histories of one limiter: window_bound, token-bucket refinement of whole histories,
      conforming_never_refused (limiter level), prune_transparent;
   D. the filter: ban/permit decision table, bans last, conforming traffic is never refused. *)
From Coq Require Import List NArith Bool Lia.
From Discv5V Require Import Generated.Params Model.Limiter.
Import ListNotations.
Local Open Scope N_scope.

(* ---------------------------------------------------------------------------------------------- *)
(* A. per-key core *)

(* The effective TAT at time [now]: an absent entry, and an entry whose TAT is in the past, both
   mean "bucket full" and behave like TAT = now. *)
Definition eff (o : option N) (now : N) : N :=
  match o with Some tat => N.max now tat | None => now end.

Lemma eff_ge o now : now <= eff o now.
Proof. destruct o; cbn; lia. Qed.

Lemma eff_mono o a b : a <= b -> eff o a <= eff o b.
Proof. destruct o; cbn; lia. Qed.

(* the stored TAT never runs ahead of the clock by more than tau *)
Definition inv_k (tau_ : N) (o : option N) (cur : N) : Prop :=
  match o with Some tat => tat <= cur + tau_ | None => True end.

Lemma inv_k_eff tau_ o cur now : inv_k tau_ o cur -> cur <= now -> eff o now <= now + tau_.
Proof. destruct o; cbn; lia. Qed.

(* Case analysis of one call when nothing overflows: accepted iff eff + cost <= now + tau. *)
Lemma gcra_cases tau_ t_ o now n :
  t_ * n <= tau_ -> eff o now + tau_ < U64 ->
  (eff o now + t_ * n <= now + tau_ /\ gcra tau_ t_ o now n = (Some (eff o now + t_ * n), VOk))
  \/
  (now + tau_ < eff o now + t_ * n /\
   exists tat, o = Some tat /\ now < tat /\
               gcra tau_ t_ o now n = (Some tat, VTooSoon (tat + t_ * n - tau_ - now))).
Proof.
  intros Ha Hov. unfold gcra. set (a := t_ * n) in *.
  pose proof (eff_ge o now) as Hge.
  assert (E1 : U64 <=? a = false) by (apply N.leb_gt; lia). rewrite E1.
  assert (E2 : tau_ <? a = false) by (apply N.ltb_ge; lia). rewrite E2.
  destruct o as [tat|]; cbn [eff] in *.
  - assert (E3 : U64 <=? tat + a = false) by (apply N.leb_gt; lia). rewrite E3.
    destruct (now <? tat + a - tau_) eqn:E4.
    + apply N.ltb_lt in E4. right. split; [lia|]. exists tat. split; [reflexivity|]. split; [lia|]. reflexivity.
    + apply N.ltb_ge in E4. left. split; [lia|].
      assert (E5 : U64 <=? N.max now tat + a = false) by (apply N.leb_gt; lia). rewrite E5. reflexivity.
  - assert (E3 : U64 <=? now + a = false) by (apply N.leb_gt; lia). rewrite E3.
    assert (E4 : now <? now + a - tau_ = false) by (apply N.ltb_ge; lia). rewrite E4.
    left. split; [lia|].
    assert (E5 : U64 <=? N.max now now + a = false) by (apply N.leb_gt; lia). rewrite E5.
    rewrite N.max_id. reflexivity.
Qed.

(* a batch that can never fit (or whose cost does not even fit in 64 bits) changes nothing *)
Lemma gcra_too_large tau_ t_ o now n :
  tau_ < t_ * n -> fst (gcra tau_ t_ o now n) = o /\ verdict_ok (snd (gcra tau_ t_ o now n)) = false.
Proof.
  intro H. unfold gcra. destruct (U64 <=? t_ * n); [split; reflexivity|].
  apply N.ltb_lt in H. rewrite H. split; reflexivity.
Qed.

(* -- the reference: a token bucket holding at most tau_ nanoseconds of credit, gaining one
      nanosecond of credit per nanosecond; a batch of n tokens costs n * t_ -- *)
Record bucket := { level : N; stamp : N }.
Definition level_at (tau_ : N) (b : bucket) (now : N) : N := N.min tau_ (level b + (now - stamp b)).
Definition tb_take (tau_ : N) (b : bucket) (now cost : N) : bucket * bool :=
  let l := level_at tau_ b now in
  if cost <=? l then ({| level := l - cost; stamp := now |}, true) else (b, false).
Definition tb_full (tau_ : N) : bucket := {| level := tau_; stamp := 0 |}.

(* GCRA entry o and bucket b describe the same credit from time cur on *)
Definition R (tau_ cur : N) (o : option N) (b : bucket) : Prop :=
  stamp b <= cur /\ forall now, cur <= now -> level_at tau_ b now + eff o now = now + tau_.

Lemma R_full tau_ cur : R tau_ cur None (tb_full tau_).
Proof. split; [cbn; lia|]. intros now _. unfold level_at, tb_full. cbn. lia. Qed.

Lemma R_later tau_ cur cur' o b : R tau_ cur o b -> cur <= cur' -> R tau_ cur' o b.
Proof. intros [S H] L. split; [lia|]. intros now Hn. apply H. lia. Qed.

(* gcra_is_token_bucket, one call: the GCRA accepts iff the bucket holds the cost, and the two
   states stay related *)
Lemma gcra_is_token_bucket_step tau_ t_ cur o b now n :
  R tau_ cur o b -> cur <= now -> t_ * n <= tau_ -> now + tau_ + tau_ < U64 ->
  let (o', v) := gcra tau_ t_ o now n in
  let (b', ok) := tb_take tau_ b now (t_ * n) in
  verdict_ok v = ok /\ R tau_ now o' b'.
Proof.
  intros [S H] L Ha Hov. pose proof (H now L) as Hn. pose proof (eff_ge o now) as Hge.
  assert (He : eff o now <= now + tau_) by (unfold level_at in Hn; lia).
  destruct (gcra_cases tau_ t_ o now n Ha ltac:(lia)) as [[Hacc ->]|[Hrej (tat & -> & Ht & ->)]];
    unfold tb_take.
  - assert (E : t_ * n <=? level_at tau_ b now = true) by (apply N.leb_le; lia). rewrite E.
    split; [reflexivity|]. split; [cbn; lia|]. intros now' L'.
    unfold level_at in *. cbn [level stamp eff] in *. lia.
  - assert (E : t_ * n <=? level_at tau_ b now = false) by (apply N.leb_gt; cbn [eff] in *; lia). rewrite E.
    split; [reflexivity|]. split; [lia|]. intros now' L'. apply H. lia.
Qed.

(* a batch that cannot fit is refused by both *)
Lemma gcra_is_token_bucket_large tau_ t_ cur o b now n :
  R tau_ cur o b -> cur <= now -> tau_ < t_ * n ->
  let (o', v) := gcra tau_ t_ o now n in
  let (b', ok) := tb_take tau_ b now (t_ * n) in
  verdict_ok v = ok /\ R tau_ now o' b'.
Proof.
  intros HR L Ha. destruct (gcra_too_large tau_ t_ o now n Ha) as [E1 E2].
  destruct (gcra tau_ t_ o now n) as [o' v]. cbn [fst snd] in *. subst o'.
  unfold tb_take. assert (E : t_ * n <=? level_at tau_ b now = false).
  { apply N.leb_gt. unfold level_at. lia. }
  rewrite E. split; [exact E2|]. eapply R_later; eauto.
Qed.

(* pruning: an entry whose TAT is in the past is equivalent to no entry *)
Lemma R_prune tau_ cur o b lim :
  R tau_ cur o b -> cur <= lim ->
  R tau_ lim (match o with Some tat => if lim <=? tat then Some tat else None | None => None end) b.
Proof.
  intros [S H] L. split; [lia|]. intros now Hn. rewrite <- (H now ltac:(lia)). f_equal.
  destruct o as [tat|]; [|reflexivity]. destruct (lim <=? tat) eqn:E; [reflexivity|].
  apply N.leb_gt in E. cbn. lia.
Qed.

(* ---------------------------------------------------------------------------------------------- *)
(* B. association lists; Limiter *)

Lemma lookup_set_same {A} k (x : A) l : lookup k (set k x l) = Some x.
Proof.
  induction l as [|[k' y] r IH]; cbn [set lookup]; [rewrite N.eqb_refl; reflexivity|].
  destruct (k' =? k) eqn:E; cbn [lookup]; [rewrite N.eqb_refl; reflexivity|]. rewrite E. exact IH.
Qed.

Lemma lookup_set_other {A} k k' (x : A) l : k' <> k -> lookup k' (set k x l) = lookup k' l.
Proof.
  intro H. induction l as [|[k0 y] r IH]; cbn [set lookup].
  - destruct (N.eqb_spec k k'); [congruence|reflexivity].
  - destruct (N.eqb_spec k0 k) as [->|E]; cbn [lookup].
    + destruct (N.eqb_spec k k'); [congruence|reflexivity].
    + destruct (k0 =? k'); [reflexivity|exact IH].
Qed.

Lemma keys_set {A} k (x : A) l k' : In k' (map fst (set k x l)) <-> k' = k \/ In k' (map fst l).
Proof.
  induction l as [|[k0 y] r IH]; cbn [set map fst In]; [intuition|].
  destruct (N.eqb_spec k0 k) as [->|E]; cbn [map fst In]; [intuition|]. rewrite IH. intuition.
Qed.

Lemma nodup_set {A} k (x : A) l : NoDup (map fst l) -> NoDup (map fst (set k x l)).
Proof.
  induction l as [|[k0 y] r IH]; cbn [set map fst]; intro H.
  - constructor; [intros []|constructor].
  - inversion H as [|a b NI ND]; subst. destruct (N.eqb_spec k0 k) as [->|E]; cbn [map fst].
    + constructor; assumption.
    + constructor; [|apply IH; exact ND]. rewrite keys_set. intros [->|Hi]; [congruence|tauto].
Qed.

Lemma lookup_none_notin {A} k (l : list (N * A)) : ~ In k (map fst l) -> lookup k l = None.
Proof.
  induction l as [|[k0 y] r IH]; cbn [lookup map fst In]; [reflexivity|]. intro H.
  destruct (N.eqb_spec k0 k) as [->|E]; [tauto|]. apply IH. tauto.
Qed.

Lemma lookup_filter {A} (p : N * A -> bool) k l :
  NoDup (map fst l) ->
  lookup k (List.filter p l) =
  match lookup k l with Some x => if p (k, x) then Some x else None | None => None end.
Proof.
  induction l as [|[k0 y] r IH]; cbn [List.filter lookup map fst]; [reflexivity|]. intro H.
  inversion H as [|a b NI ND]; subst. destruct (N.eqb_spec k0 k) as [->|E].
  - destruct (p (k, y)); cbn [lookup]; [rewrite N.eqb_refl; reflexivity|].
    apply lookup_none_notin. intro Hi. apply NI. apply in_map_iff in Hi.
    destruct Hi as (e & He & Hin). apply filter_In in Hin. rewrite <- He. apply in_map. tauto.
  - destruct (p (k0, y)); cbn [lookup]; [destruct (N.eqb_spec k0 k); [congruence|]|]; apply IH; exact ND.
Qed.

Lemma nodup_filter_keys {A} (p : N * A -> bool) l : NoDup (map fst l) -> NoDup (map fst (List.filter p l)).
Proof.
  induction l as [|[k0 y] r IH]; cbn [List.filter map fst]; intro H; [constructor|].
  inversion H as [|a b NI ND]; subst. destruct (p (k0, y)); cbn [map fst]; [|auto].
  constructor; [|auto]. intro Hi. apply NI. apply in_map_iff in Hi.
  destruct Hi as (e & He & Hin). apply filter_In in Hin. rewrite <- He. apply in_map. tauto.
Qed.

Definition wfl (l : limiter) : Prop := NoDup (map fst (tats l)).
(* every stored TAT is at most tau ahead of the clock *)
Definition linv (l : limiter) (cur : N) : Prop :=
  forall k, inv_k (tau l) (lookup k (tats l)) cur.

Lemma gcra_none tau_ t_ o now n : fst (gcra tau_ t_ o now n) = None -> o = None.
Proof.
  unfold gcra. destruct (U64 <=? t_ * n); [auto|]. destruct (tau_ <? t_ * n); [auto|].
  destruct (U64 <=? _); [discriminate|]. destruct (now <? _); [discriminate|].
  destruct (U64 <=? _); discriminate.
Qed.

Lemma allows_params l el k n : tau (fst (allows l el k n)) = tau l /\ tt (fst (allows l el k n)) = tt l.
Proof. unfold allows. destruct (gcra _ _ _ _ _). split; reflexivity. Qed.

Lemma allows_wfl l el k n : wfl l -> wfl (fst (allows l el k n)).
Proof.
  unfold wfl, allows. intro H. destruct (gcra _ _ _ _ _) as [[x|] v]; cbn [fst tats]; [apply nodup_set|]; exact H.
Qed.

Lemma allows_other l el k n k' :
  k' <> k -> lookup k' (tats (fst (allows l el k n))) = lookup k' (tats l).
Proof.
  intro H. unfold allows. destruct (gcra _ _ _ _ _) as [[x|] v]; cbn [fst tats]; [|reflexivity].
  apply lookup_set_other. exact H.
Qed.

Lemma allows_same l el k n :
  el < U64 ->
  lookup k (tats (fst (allows l el k n))) = fst (gcra (tau l) (tt l) (lookup k (tats l)) el n) /\
  snd (allows l el k n) = snd (gcra (tau l) (tt l) (lookup k (tats l)) el n).
Proof.
  intro H. unfold allows. rewrite (N.mod_small _ _ H).
  destruct (gcra (tau l) (tt l) (lookup k (tats l)) el n) as [[x|] v] eqn:G; cbn [fst snd tats].
  - split; [apply lookup_set_same|reflexivity].
  - split; [|reflexivity]. apply gcra_none with (tau_ := tau l) (t_ := tt l) (now := el) (n := n). rewrite G. reflexivity.
Qed.

Lemma prune_params l el : tau (prune l el) = tau l /\ tt (prune l el) = tt l.
Proof. split; reflexivity. Qed.

Lemma prune_wfl l el : wfl l -> wfl (prune l el).
Proof. unfold wfl, prune. cbn [tats]. apply nodup_filter_keys. Qed.

Lemma prune_lookup l el k :
  wfl l -> el < U64 ->
  lookup k (tats (prune l el)) =
  match lookup k (tats l) with Some tat => if el <=? tat then Some tat else None | None => None end.
Proof.
  intros W H. unfold prune. cbn [tats]. rewrite (N.mod_small _ _ H).
  rewrite (lookup_filter (fun e => el <=? snd e) k (tats l) W). reflexivity.
Qed.

(* what one call does, when nothing can overflow *)
Lemma allows_facts l cur el k n :
  wfl l -> linv l cur -> cur <= el -> el + tau l + tau l < U64 ->
  let l1 := fst (allows l el k n) in
  let v := snd (allows l el k n) in
  let o := lookup k (tats l) in
  linv l1 el /\
  (verdict_ok v = true ->
     lookup k (tats l1) = Some (eff o el + tt l * n) /\ eff o el + tt l * n <= el + tau l) /\
  (verdict_ok v = false -> lookup k (tats l1) = o).
Proof.
  intros W I L Hov. cbv zeta.
  assert (Hel : el < U64) by lia.
  destruct (allows_same l el k n Hel) as [Es Ev]. rewrite Ev.
  destruct (allows_params l el k n) as [Pt _].
  pose proof (inv_k_eff _ _ _ el (I k) L) as He.
  assert (Hcore :
    (verdict_ok (snd (gcra (tau l) (tt l) (lookup k (tats l)) el n)) = true ->
       fst (gcra (tau l) (tt l) (lookup k (tats l)) el n) = Some (eff (lookup k (tats l)) el + tt l * n) /\
       eff (lookup k (tats l)) el + tt l * n <= el + tau l) /\
    (verdict_ok (snd (gcra (tau l) (tt l) (lookup k (tats l)) el n)) = false ->
       fst (gcra (tau l) (tt l) (lookup k (tats l)) el n) = lookup k (tats l))).
  { destruct (N.le_gt_cases (tt l * n) (tau l)) as [Ha|Ha].
    - destruct (gcra_cases (tau l) (tt l) (lookup k (tats l)) el n Ha ltac:(lia))
        as [[Hacc ->]|[Hrej (tat & Eo & Ht & ->)]]; cbn [fst snd verdict_ok].
      + split; [intros _; split; [reflexivity|exact Hacc]|discriminate].
      + split; [discriminate|intros _; symmetry; exact Eo].
    - destruct (gcra_too_large (tau l) (tt l) (lookup k (tats l)) el n ltac:(lia)) as [E1 E2].
      rewrite E2. split; [discriminate|intros _; exact E1]. }
  destruct Hcore as [Hok Hno]. split; [|split].
  - intro k'. rewrite Pt. destruct (N.eq_dec k' k) as [->|NE].
    + rewrite Es. destruct (verdict_ok (snd (gcra (tau l) (tt l) (lookup k (tats l)) el n))) eqn:V.
      * destruct (Hok eq_refl) as [-> Hle]. cbn. exact Hle.
      * rewrite (Hno eq_refl). specialize (I k). destruct (lookup k (tats l)); cbn in *; lia.
    + rewrite (allows_other l el k n k' NE). specialize (I k'). destruct (lookup k' (tats l)); cbn in *; lia.
  - intro V. rewrite Es. exact (Hok V).
  - intro V. rewrite Es. exact (Hno V).
Qed.

Lemma prune_linv l cur el : wfl l -> linv l cur -> cur <= el -> el < U64 -> linv (prune l el) el.
Proof.
  intros W I L H k. rewrite (prune_lookup l el k W H). cbn [tau prune]. specialize (I k).
  destruct (lookup k (tats l)) as [tat|]; [|exact Logic.I]. destruct (el <=? tat); cbn in *; [lia|exact Logic.I].
Qed.

Lemma prune_eff l el k : wfl l -> el < U64 -> eff (lookup k (tats (prune l el))) el = eff (lookup k (tats l)) el.
Proof.
  intros W H. rewrite (prune_lookup l el k W H). destruct (lookup k (tats l)) as [tat|]; [|reflexivity].
  destruct (el <=? tat) eqn:E; [reflexivity|]. apply N.leb_gt in E. cbn. lia.
Qed.

(* ---------------------------------------------------------------------------------------------- *)
(* C. histories of one limiter *)

Fixpoint mono_from (cur : N) (evs : list levent) : Prop :=
  match evs with
  | [] => True
  | e :: r => cur <= levent_time e /\ mono_from (levent_time e) r
  end.
Definition all_before (B : N) (evs : list levent) : Prop := Forall (fun e => levent_time e <= B) evs.

(* the number of tokens of [key] let through by a history *)
Fixpoint accepted_tokens (key : N) (evs : list levent) (vs : list (option verdict)) : N :=
  match evs, vs with
  | LAllows _ k n :: evs', Some v :: vs' =>
    (if (k =? key) && verdict_ok v then n else 0) + accepted_tokens key evs' vs'
  | _ :: evs', _ :: vs' => accepted_tokens key evs' vs'
  | _, _ => 0
  end.

Lemma lrun_params evs : forall l, tau (fst (lrun l evs)) = tau l /\ tt (fst (lrun l evs)) = tt l.
Proof.
  induction evs as [|e r IH]; intro l; cbn [lrun]; [split; reflexivity|].
  destruct e as [el k n|el]; cbn [lstep].
  - destruct (allows_params l el k n) as [A B]. destruct (allows l el k n) as [l1 v]. cbn [fst] in *.
    destruct (IH l1) as [C D]. destruct (lrun l1 r). cbn [fst] in *. split; congruence.
  - destruct (IH (prune l el)) as [C D]. destruct (lrun (prune l el) r). cbn [fst] in *. split; assumption.
Qed.

Lemma window_bound_gen evs : forall l cur S A B key,
  wfl l -> linv l cur -> mono_from cur evs -> all_before B evs -> cur <= B ->
  B + tau l + tau l < U64 ->
  A + S <= eff (lookup key (tats l)) cur ->
  A + S + tt l * accepted_tokens key evs (snd (lrun l evs)) <= B + tau l.
Proof.
  induction evs as [|e r IH]; intros l cur S A B key W I M Bf CB Hov HS.
  - cbn [lrun snd accepted_tokens]. pose proof (inv_k_eff _ _ _ cur (I key) (N.le_refl _)). lia.
  - destruct M as [L M]. inversion Bf as [|x y Be Br]; subst. destruct e as [el k n|el]; cbn [levent_time] in *.
    + cbn [lrun lstep].
      pose proof (allows_facts l cur el k n W I L ltac:(lia)) as F. cbv zeta in F.
      pose proof (allows_wfl l el k n W) as W1. destruct (allows_params l el k n) as [Pt Ptt].
      pose proof (allows_other l el k n key) as Oth.
      destruct (allows l el k n) as [l1 v]. cbn [fst snd] in *.
      destruct F as (I1 & Fok & Fno).
      specialize (IH l1 el (S + (if (k =? key) && verdict_ok v then tt l * n else 0)) A B key W1 I1 M Br Be).
      rewrite Pt, Ptt in IH. destruct (lrun l1 r) as [l2 vs]. cbn [snd accepted_tokens] in *.
      assert (HS1 : A + (S + (if (k =? key) && verdict_ok v then tt l * n else 0)) <= eff (lookup key (tats l1)) el).
      { destruct (N.eqb_spec k key) as [->|NE]; cbn [andb].
        - destruct (verdict_ok v) eqn:V.
          + destruct (Fok eq_refl) as [-> _]. cbn [eff]. pose proof (eff_mono (lookup key (tats l)) cur el L). lia.
          + rewrite (Fno eq_refl). pose proof (eff_mono (lookup key (tats l)) cur el L). lia.
        - rewrite (Oth ltac:(congruence)). pose proof (eff_mono (lookup key (tats l)) cur el L). lia. }
      specialize (IH ltac:(lia) HS1).
      destruct ((k =? key) && verdict_ok v); lia.
    + cbn [lrun lstep].
      pose proof (prune_wfl l el W) as W1. pose proof (prune_linv l cur el W I L ltac:(lia)) as I1.
      pose proof (prune_eff l el key W ltac:(lia)) as E.
      specialize (IH (prune l el) el S A B key W1 I1 M Br Be). cbn [tau tt prune] in IH.
      destruct (lrun (prune l el) r) as [l2 vs]. cbn [snd accepted_tokens] in *.
      apply IH; [lia|]. cbn [tats prune] in *. rewrite E.
      pose proof (eff_mono (lookup key (tats l)) cur el L). lia.
Qed.

(* window_bound: whatever the state at the beginning of the window (any state the limiter can be in
   at time A), the tokens of one key let through during [A, B], with arrival times that do not go
   back and any interleaving of prune calls, cost at most tau + (B - A) nanoseconds of credit. *)
Theorem window_bound l evs A B key :
  wfl l -> linv l A -> mono_from A evs -> all_before B evs -> A <= B ->
  B + tau l + tau l < U64 ->
  tt l * accepted_tokens key evs (snd (lrun l evs)) <= tau l + (B - A).
Proof.
  intros W I M Bf AB Hov.
  pose proof (window_bound_gen evs l A 0 A B key W I M Bf AB Hov) as H.
  pose proof (eff_ge (lookup key (tats l)) A). lia.
Qed.

(* ... i.e. at most (tau + window) / t tokens, t = tau / max_tokens rounded down *)
Corollary window_bound_tokens l evs A B key :
  wfl l -> linv l A -> mono_from A evs -> all_before B evs -> A <= B ->
  B + tau l + tau l < U64 -> 0 < tt l ->
  accepted_tokens key evs (snd (lrun l evs)) <= (tau l + (B - A)) / tt l.
Proof.
  intros W I M Bf AB Hov Ht. apply N.div_le_lower_bound; [lia|].
  apply window_bound; assumption.
Qed.

(* ... which is burst + rate * window when max_tokens divides the period *)
Corollary window_bound_burst_rate l evs A B key m :
  wfl l -> linv l A -> mono_from A evs -> all_before B evs -> A <= B ->
  B + tau l + tau l < U64 -> 0 < tt l -> 0 < m -> tau l = m * tt l ->
  accepted_tokens key evs (snd (lrun l evs)) <= m + ((B - A) * m) / tau l.
Proof.
  intros W I M Bf AB Hov Ht Hm Hd.
  pose proof (window_bound_tokens l evs A B key W I M Bf AB Hov Ht) as H.
  rewrite Hd in H at 1. rewrite N.div_add_l in H by lia.
  rewrite Hd. rewrite (N.mul_comm m (tt l)). rewrite N.div_mul_cancel_r by lia. exact H.
Qed.

(* the limiters built by from_quota: t = period / max_tokens; exact when max_tokens | period *)
Lemma from_quota_spec period m l :
  from_quota period m = Some l ->
  tau l = period /\ tt l = period / m /\ tats l = [] /\ 0 < m /\ 0 < period /\ period < U64.
Proof.
  unfold from_quota. destruct (N.eqb_spec m 0); [discriminate|]. destruct (N.eqb_spec period 0); [discriminate|].
  destruct (U64 <=? period) eqn:E; [discriminate|]. apply N.leb_gt in E.
  intro H. injection H as <-. cbn. repeat split; lia.
Qed.

Lemma from_quota_divisible period m l :
  from_quota period m = Some l -> (m | period) -> tau l = m * tt l /\ 0 < tt l.
Proof.
  intros H [q Hq]. destruct (from_quota_spec _ _ _ H) as (A & B & _ & Hm & Hp & _).
  rewrite A, B. subst period. rewrite N.div_mul by lia. split; [lia|]. destruct q; lia.
Qed.

Lemma fresh_limiter_ok period m l cur : from_quota period m = Some l -> wfl l /\ linv l cur.
Proof.
  intro H. destruct (from_quota_spec _ _ _ H) as (_ & _ & E & _). unfold wfl, linv. rewrite E.
  split; [constructor|]. intro k. exact Logic.I.
Qed.

(* every reachable limiter state satisfies the hypotheses of window_bound *)
Lemma lrun_invariants evs : forall l cur B,
  wfl l -> linv l cur -> mono_from cur evs -> all_before B evs -> cur <= B -> B + tau l + tau l < U64 ->
  wfl (fst (lrun l evs)) /\ linv (fst (lrun l evs)) B.
Proof.
  induction evs as [|e r IH]; intros l cur B W I M Bf CB Hov.
  - cbn [lrun fst]. split; [exact W|]. intro k. specialize (I k). destruct (lookup k (tats l)); cbn in *; lia.
  - destruct M as [L M]. inversion Bf as [|x y Be Br]; subst. destruct e as [el k n|el]; cbn [levent_time lrun lstep] in *.
    + pose proof (allows_facts l cur el k n W I L ltac:(lia)) as F. cbv zeta in F.
      pose proof (allows_wfl l el k n W) as W1. destruct (allows_params l el k n) as [Pt _].
      destruct (allows l el k n) as [l1 v]. cbn [fst snd] in *. destruct F as (I1 & _).
      specialize (IH l1 el B W1 I1 M Br Be). rewrite Pt in IH. destruct (lrun l1 r). cbn [fst] in *. apply IH. lia.
    + pose proof (prune_wfl l el W) as W1. pose proof (prune_linv l cur el W I L ltac:(lia)) as I1.
      specialize (IH (prune l el) el B W1 I1 M Br Be). cbn [tau prune] in IH.
      destruct (lrun (prune l el) r). cbn [fst] in *. apply IH. lia.
Qed.

(* -- refinement of whole histories to the reference token bucket -- *)
Definition tbmap := list (N * bucket).
Definition tb_get (tau_ : N) (m : tbmap) (k : N) : bucket :=
  match lookup k m with Some b => b | None => tb_full tau_ end.
(* the reference ignores prune calls altogether *)
Definition tb_step (tau_ t_ : N) (m : tbmap) (e : levent) : tbmap * option bool :=
  match e with
  | LAllows el k n => let (b', ok) := tb_take tau_ (tb_get tau_ m k) el (t_ * n) in (set k b' m, Some ok)
  | LPrune _ => (m, None)
  end.
Fixpoint tb_run (tau_ t_ : N) (m : tbmap) (evs : list levent) : list (option bool) :=
  match evs with
  | [] => []
  | e :: r => let (m1, o) := tb_step tau_ t_ m e in o :: tb_run tau_ t_ m1 r
  end.

Definition Rel (l : limiter) (m : tbmap) (cur : N) : Prop :=
  forall k, R (tau l) cur (lookup k (tats l)) (tb_get (tau l) m k).

Lemma Rel_fresh period n l cur : from_quota period n = Some l -> Rel l [] cur.
Proof.
  intro H. destruct (from_quota_spec _ _ _ H) as (_ & _ & E & _). intro k. rewrite E. apply R_full.
Qed.

Lemma R_eff_bound tau_ cur o b now : R tau_ cur o b -> cur <= now -> eff o now <= now + tau_.
Proof. intros [_ H] L. specialize (H now L). lia. Qed.

Theorem gcra_is_token_bucket evs : forall l m cur B,
  wfl l -> Rel l m cur -> mono_from cur evs -> all_before B evs -> B + tau l + tau l < U64 ->
  map (option_map verdict_ok) (snd (lrun l evs)) = tb_run (tau l) (tt l) m evs.
Proof.
  induction evs as [|e r IH]; intros l m cur B W HR M Bf Hov; [reflexivity|].
  destruct M as [L M]. inversion Bf as [|x y Be Br]; subst.
  destruct e as [el k n|el]; cbn [levent_time lrun lstep tb_run tb_step] in *.
  - assert (Hel : el < U64) by lia.
    destruct (allows_same l el k n Hel) as [Es Ev]. destruct (allows_params l el k n) as [Pt Ptt].
    pose proof (allows_wfl l el k n W) as W1. pose proof (allows_other l el k n) as Oth.
    assert (Step :
      let (o', v) := gcra (tau l) (tt l) (lookup k (tats l)) el n in
      let (b', ok) := tb_take (tau l) (tb_get (tau l) m k) el (tt l * n) in
      verdict_ok v = ok /\ R (tau l) el o' b').
    { destruct (N.le_gt_cases (tt l * n) (tau l)) as [Ha|Ha].
      - apply gcra_is_token_bucket_step with (cur := cur); [apply HR|exact L|exact Ha|lia].
      - apply gcra_is_token_bucket_large with (cur := cur); [apply HR|exact L|exact Ha]. }
    destruct (allows l el k n) as [l1 v]. cbn [fst snd] in *.
    destruct (gcra (tau l) (tt l) (lookup k (tats l)) el n) as [o' v']. cbn [fst snd] in *. subst v'.
    destruct (tb_take (tau l) (tb_get (tau l) m k) el (tt l * n)) as [b' ok]. destruct Step as [Vok Rk].
    assert (HR1 : Rel l1 (set k b' m) el).
    { intro k'. rewrite Pt. unfold tb_get. destruct (N.eq_dec k' k) as [->|NE].
      - rewrite Es, lookup_set_same. exact Rk.
      - rewrite (Oth k' NE), (lookup_set_other k k' b' m NE). eapply R_later; [apply HR|exact L]. }
    specialize (IH l1 (set k b' m) el B W1 HR1 M Br). rewrite Pt, Ptt in IH.
    destruct (lrun l1 r) as [l2 vs]. cbn [snd map option_map] in *. rewrite Vok. f_equal. apply IH. exact Hov.
  - assert (Hel : el < U64) by lia.
    assert (HR1 : Rel (prune l el) m el).
    { intro k. cbn [tau prune]. change (tats (prune l el)) with (tats (prune l el)).
      rewrite (prune_lookup l el k W Hel). apply R_prune with (cur := cur); [apply HR|exact L]. }
    specialize (IH (prune l el) m el B (prune_wfl l el W) HR1 M Br). cbn [tau tt prune] in IH.
    destruct (lrun (prune l el) r) as [l2 vs]. cbn [snd map option_map] in *. f_equal. apply IH. exact Hov.
Qed.

(* conforming_never_refused, one limiter: if the reference token bucket accepts every arrival of a
   history, the limiter's verdict is Ok for every arrival - whatever prune calls are interleaved *)
Definition tb_accepts_all (tau_ t_ : N) (m : tbmap) (evs : list levent) : Prop :=
  Forall (fun o => o <> Some false) (tb_run tau_ t_ m evs).

Theorem conforming_never_refused_limiter l m cur B evs :
  wfl l -> Rel l m cur -> mono_from cur evs -> all_before B evs -> B + tau l + tau l < U64 ->
  tb_accepts_all (tau l) (tt l) m evs ->
  Forall (fun o => o = None \/ o = Some VOk) (snd (lrun l evs)).
Proof.
  intros W HR M Bf Hov Hall. unfold tb_accepts_all in Hall.
  rewrite <- (gcra_is_token_bucket evs l m cur B W HR M Bf Hov) in Hall.
  rewrite Forall_map in Hall. revert Hall. apply Forall_impl. intros [v|] H; [|left; reflexivity].
  right. destruct v; cbn in H; try congruence; reflexivity.
Qed.

(* -- prune_transparent: a history with prune calls and the same history without them give the same
      verdicts (including the waiting times), and equivalent final states -- *)
Definition no_prunes (evs : list levent) : list levent :=
  List.filter (fun e => match e with LPrune _ => false | _ => true end) evs.
Definition verdicts (vs : list (option verdict)) : list verdict :=
  flat_map (fun o => match o with Some v => [v] | None => [] end) vs.
(* same parameters, and every key has the same effective TAT from time cur on *)
Definition leq (cur : N) (l l' : limiter) : Prop :=
  tau l = tau l' /\ tt l = tt l' /\ forall k, eff (lookup k (tats l)) cur = eff (lookup k (tats l')) cur.

Lemma eff_eq_later o o' cur now : eff o cur = eff o' cur -> cur <= now -> eff o now = eff o' now.
Proof. destruct o, o'; cbn; lia. Qed.

Lemma gcra_eff_equiv tau_ t_ o o' now n :
  eff o now = eff o' now -> eff o now + tau_ < U64 ->
  snd (gcra tau_ t_ o now n) = snd (gcra tau_ t_ o' now n) /\
  eff (fst (gcra tau_ t_ o now n)) now = eff (fst (gcra tau_ t_ o' now n)) now.
Proof.
  intros E Hov. destruct (N.le_gt_cases (t_ * n) tau_) as [Ha|Ha].
  - destruct (gcra_cases tau_ t_ o now n Ha Hov) as [[Hacc ->]|[Hrej (tat & -> & Ht & ->)]];
    destruct (gcra_cases tau_ t_ o' now n Ha ltac:(lia)) as [[Hacc' ->]|[Hrej' (tat' & -> & Ht' & ->)]];
    cbn [fst snd eff] in *; try lia.
    + split; [reflexivity|lia].
    + assert (tat = tat') by lia. subst. split; reflexivity.
  - unfold gcra. destruct (U64 <=? t_ * n); [split; [reflexivity|exact E]|].
    apply N.ltb_lt in Ha. rewrite Ha. split; [reflexivity|exact E].
Qed.

Theorem prune_transparent evs : forall l l' cur B,
  wfl l -> wfl l' -> linv l cur -> leq cur l l' ->
  mono_from cur evs -> all_before B evs -> cur <= B -> B + tau l + tau l < U64 ->
  verdicts (snd (lrun l evs)) = verdicts (snd (lrun l' (no_prunes evs))) /\
  leq B (fst (lrun l evs)) (fst (lrun l' (no_prunes evs))).
Proof.
  induction evs as [|e r IH]; intros l l' cur B W W' I Q M Bf CB Hov.
  - cbn. split; [reflexivity|]. destruct Q as (A & C & D). repeat split; auto. intro k. eapply eff_eq_later; eauto.
  - destruct M as [L M]. inversion Bf as [|x y Be Br]; subst. destruct Q as (Qt & Qtt & Qe).
    destruct e as [el k n|el]; cbn [levent_time no_prunes List.filter lrun lstep] in *.
    + fold (no_prunes r).
      assert (Hel : el < U64) by lia.
      destruct (allows_same l el k n Hel) as [Es Ev]. destruct (allows_same l' el k n Hel) as [Es' Ev'].
      destruct (allows_params l el k n) as [Pt Ptt]. destruct (allows_params l' el k n) as [Pt' Ptt'].
      pose proof (allows_facts l cur el k n W I L ltac:(lia)) as F. cbv zeta in F. destruct F as (I1 & _).
      pose proof (allows_wfl l el k n W) as W1. pose proof (allows_wfl l' el k n W') as W1'.
      pose proof (allows_other l el k n) as Oth. pose proof (allows_other l' el k n) as Oth'.
      pose proof (inv_k_eff _ _ _ el (I k) L) as Hb.
      destruct (gcra_eff_equiv (tau l) (tt l) (lookup k (tats l)) (lookup k (tats l')) el n
                  (eff_eq_later _ _ _ _ (Qe k) L) ltac:(lia)) as [Gv Ge].
      rewrite <- Qt, <- Qtt in Es', Ev'.
      destruct (allows l el k n) as [l1 v]. destruct (allows l' el k n) as [l1' v']. cbn [fst snd] in *.
      assert (Q1 : leq el l1 l1').
      { repeat split; try congruence. intro k'. destruct (N.eq_dec k' k) as [->|NE].
        - rewrite Es, Es'. exact Ge.
        - rewrite (Oth k' NE), (Oth' k' NE). eapply eff_eq_later; eauto. }
      specialize (IH l1 l1' el B W1 W1' I1 Q1 M Br Be). rewrite Pt in IH.
      destruct (lrun l1 r) as [l2 vs]. destruct (lrun l1' (no_prunes r)) as [l2' vs'].
      cbn [fst snd verdicts flat_map app] in *. destruct (IH Hov) as [IHv IHq].
      split; [|exact IHq]. fold (verdicts vs) (verdicts vs'). rewrite Ev, Ev', Gv. f_equal. exact IHv.
    + fold (no_prunes r).
      assert (Hel : el < U64) by lia.
      assert (Q1 : leq el (prune l el) l').
      { repeat split; auto. intro k. rewrite (prune_eff l el k W Hel). eapply eff_eq_later; eauto. }
      specialize (IH (prune l el) l' el B (prune_wfl l el W) W' (prune_linv l cur el W I L Hel) Q1 M Br Be).
      cbn [tau prune] in IH.
      destruct (lrun (prune l el) r) as [l2 vs]. destruct (lrun l' (no_prunes r)) as [l2' vs'].
      cbn [fst snd verdicts flat_map app] in *. apply IH. exact Hov.
Qed.

Lemma leq_refl cur l : leq cur l l.
Proof. repeat split; reflexivity. Qed.
