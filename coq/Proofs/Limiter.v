(* Proofs about the packet-filter model Model/Limiter.v (C18).

   A. the per-key GCRA core: case analysis, the reference token bucket, gcra_is_token_bucket;
   B. association lists and the lifting to Limiter (allows / prune touch one key / drop full keys);
   C. histories of one limiter: window_bound, token-bucket refinement of whole histories,
      conforming_never_refused (limiter level), prune_transparent;
   D. the filter: ban/permit decision table, bans last, conforming traffic is never refused. *)
From Coq Require Import List NArith Bool Lia.
From Discv5V Require Import Generated.Params Model.Limiter.
Import ListNotations.
Local Open Scope N_scope.

(* ---------------------------------------------------------------------------------------------- *)
(* A. per-key core *)

(* The effective TAT at time [now]: an absent entry, and an entry whose TAT is in the past, both
   mean "bucket full" and behave like TAT = now. *)
Definition eff (o : option N) (now : N) : N :=
  match o with Some tat => N.max now tat | None => now end.

Lemma eff_ge o now : now <= eff o now.
Proof. destruct o; cbn; lia. Qed.

Lemma eff_mono o a b : a <= b -> eff o a <= eff o b.
Proof. destruct o; cbn; lia. Qed.

(* the stored TAT never runs ahead of the clock by more than tau *)
Definition inv_k (tau_ : N) (o : option N) (cur : N) : Prop :=
  match o with Some tat => tat <= cur + tau_ | None => True end.

Lemma inv_k_eff tau_ o cur now : inv_k tau_ o cur -> cur <= now -> eff o now <= now + tau_.
Proof. destruct o; cbn; lia. Qed.

(* Case analysis of one call when nothing overflows: accepted iff eff + cost <= now + tau. *)
Lemma gcra_cases tau_ t_ o now n :
  t_ * n <= tau_ -> eff o now + tau_ < U64 ->
  (eff o now + t_ * n <= now + tau_ /\ gcra tau_ t_ o now n = (Some (eff o now + t_ * n), VOk))
  \/
  (now + tau_ < eff o now + t_ * n /\
   exists tat, o = Some tat /\ now < tat /\
               gcra tau_ t_ o now n = (Some tat, VTooSoon (tat + t_ * n - tau_ - now))).
Proof.
  intros Ha Hov. unfold gcra. set (a := t_ * n) in *.
  pose proof (eff_ge o now) as Hge.
  assert (E1 : U64 <=? a = false) by (apply N.leb_gt; lia). rewrite E1.
  assert (E2 : tau_ <? a = false) by (apply N.ltb_ge; lia). rewrite E2.
  destruct o as [tat|]; cbn [eff] in *.
  - assert (E3 : U64 <=? tat + a = false) by (apply N.leb_gt; lia). rewrite E3.
    destruct (now <? tat + a - tau_) eqn:E4.
    + apply N.ltb_lt in E4. right. split; [lia|]. exists tat. split; [reflexivity|]. split; [lia|]. reflexivity.
    + apply N.ltb_ge in E4. left. split; [lia|].
      assert (E5 : U64 <=? N.max now tat + a = false) by (apply N.leb_gt; lia). rewrite E5. reflexivity.
  - assert (E3 : U64 <=? now + a = false) by (apply N.leb_gt; lia). rewrite E3.
    assert (E4 : now <? now + a - tau_ = false) by (apply N.ltb_ge; lia). rewrite E4.
    left. split; [lia|].
    assert (E5 : U64 <=? N.max now now + a = false) by (apply N.leb_gt; lia). rewrite E5.
    rewrite N.max_id. reflexivity.
Qed.

(* a batch that can never fit (or whose cost does not even fit in 64 bits) changes nothing *)
Lemma gcra_too_large tau_ t_ o now n :
  tau_ < t_ * n -> fst (gcra tau_ t_ o now n) = o /\ verdict_ok (snd (gcra tau_ t_ o now n)) = false.
Proof.
  intro H. unfold gcra. destruct (U64 <=? t_ * n); [split; reflexivity|].
  apply N.ltb_lt in H. rewrite H. split; reflexivity.
Qed.

(* -- the reference: a token bucket holding at most tau_ nanoseconds of credit, gaining one
      nanosecond of credit per nanosecond; a batch of n tokens costs n * t_ -- *)
Record bucket := { level : N; stamp : N }.
Definition level_at (tau_ : N) (b : bucket) (now : N) : N := N.min tau_ (level b + (now - stamp b)).
Definition tb_take (tau_ : N) (b : bucket) (now cost : N) : bucket * bool :=
  let l := level_at tau_ b now in
  if cost <=? l then ({| level := l - cost; stamp := now |}, true) else (b, false).
Definition tb_full (tau_ : N) : bucket := {| level := tau_; stamp := 0 |}.

(* GCRA entry o and bucket b describe the same credit from time cur on *)
Definition R (tau_ cur : N) (o : option N) (b : bucket) : Prop :=
  stamp b <= cur /\ forall now, cur <= now -> level_at tau_ b now + eff o now = now + tau_.

Lemma R_full tau_ cur : R tau_ cur None (tb_full tau_).
Proof. split; [cbn; lia|]. intros now _. unfold level_at, tb_full. cbn. lia. Qed.

Lemma R_later tau_ cur cur' o b : R tau_ cur o b -> cur <= cur' -> R tau_ cur' o b.
Proof. intros [S H] L. split; [lia|]. intros now Hn. apply H. lia. Qed.

(* gcra_is_token_bucket, one call: the GCRA accepts iff the bucket holds the cost, and the two
   states stay related *)
Lemma gcra_is_token_bucket_step tau_ t_ cur o b now n :
  R tau_ cur o b -> cur <= now -> t_ * n <= tau_ -> now + tau_ + tau_ < U64 ->
  let (o', v) := gcra tau_ t_ o now n in
  let (b', ok) := tb_take tau_ b now (t_ * n) in
  verdict_ok v = ok /\ R tau_ now o' b'.
Proof.
  intros [S H] L Ha Hov. pose proof (H now L) as Hn. pose proof (eff_ge o now) as Hge.
  assert (He : eff o now <= now + tau_) by (unfold level_at in Hn; lia).
  destruct (gcra_cases tau_ t_ o now n Ha ltac:(lia)) as [[Hacc ->]|[Hrej (tat & -> & Ht & ->)]];
    unfold tb_take.
  - assert (E : t_ * n <=? level_at tau_ b now = true) by (apply N.leb_le; lia). rewrite E.
    split; [reflexivity|]. split; [cbn; lia|]. intros now' L'.
    unfold level_at in *. cbn [level stamp eff] in *. lia.
  - assert (E : t_ * n <=? level_at tau_ b now = false) by (apply N.leb_gt; cbn [eff] in *; lia). rewrite E.
    split; [reflexivity|]. split; [lia|]. intros now' L'. apply H. lia.
Qed.

(* a batch that cannot fit is refused by both *)
Lemma gcra_is_token_bucket_large tau_ t_ cur o b now n :
  R tau_ cur o b -> cur <= now -> tau_ < t_ * n ->
  let (o', v) := gcra tau_ t_ o now n in
  let (b', ok) := tb_take tau_ b now (t_ * n) in
  verdict_ok v = ok /\ R tau_ now o' b'.
Proof.
  intros HR L Ha. destruct (gcra_too_large tau_ t_ o now n Ha) as [E1 E2].
  destruct (gcra tau_ t_ o now n) as [o' v]. cbn [fst snd] in *. subst o'.
  unfold tb_take. assert (E : t_ * n <=? level_at tau_ b now = false).
  { apply N.leb_gt. unfold level_at. lia. }
  rewrite E. split; [exact E2|]. eapply R_later; eauto.
Qed.

(* pruning: an entry whose TAT is in the past is equivalent to no entry *)
Lemma R_prune tau_ cur o b lim :
  R tau_ cur o b -> cur <= lim ->
  R tau_ lim (match o with Some tat => if lim <=? tat then Some tat else None | None => None end) b.
Proof.
  intros [S H] L. split; [lia|]. intros now Hn. rewrite <- (H now ltac:(lia)). f_equal.
  destruct o as [tat|]; [|reflexivity]. destruct (lim <=? tat) eqn:E; [reflexivity|].
  apply N.leb_gt in E. cbn. lia.
Qed.

(* ---------------------------------------------------------------------------------------------- *)
(* B. association lists; Limiter *)

Lemma lookup_set_same {A} k (x : A) l : lookup k (set k x l) = Some x.
Proof.
  induction l as [|[k' y] r IH]; cbn [set lookup]; [rewrite N.eqb_refl; reflexivity|].
  destruct (k' =? k) eqn:E; cbn [lookup]; [rewrite N.eqb_refl; reflexivity|]. rewrite E. exact IH.
Qed.

Lemma lookup_set_other {A} k k' (x : A) l : k' <> k -> lookup k' (set k x l) = lookup k' l.
Proof.
  intro H. induction l as [|[k0 y] r IH]; cbn [set lookup].
  - destruct (N.eqb_spec k k'); [congruence|reflexivity].
  - destruct (N.eqb_spec k0 k) as [->|E]; cbn [lookup].
    + destruct (N.eqb_spec k k'); [congruence|reflexivity].
    + destruct (k0 =? k'); [reflexivity|exact IH].
Qed.

Lemma keys_set {A} k (x : A) l k' : In k' (map fst (set k x l)) <-> k' = k \/ In k' (map fst l).
Proof.
  induction l as [|[k0 y] r IH]; cbn [set map fst In]; [intuition|].
  destruct (N.eqb_spec k0 k) as [->|E]; cbn [map fst In]; [intuition|]. rewrite IH. intuition.
Qed.

Lemma nodup_set {A} k (x : A) l : NoDup (map fst l) -> NoDup (map fst (set k x l)).
Proof.
  induction l as [|[k0 y] r IH]; cbn [set map fst]; intro H.
  - constructor; [intros []|constructor].
  - inversion H as [|a b NI ND]; subst. destruct (N.eqb_spec k0 k) as [->|E]; cbn [map fst].
    + constructor; assumption.
    + constructor; [|apply IH; exact ND]. rewrite keys_set. intros [->|Hi]; [congruence|tauto].
Qed.

Lemma lookup_none_notin {A} k (l : list (N * A)) : ~ In k (map fst l) -> lookup k l = None.
Proof.
  induction l as [|[k0 y] r IH]; cbn [lookup map fst In]; [reflexivity|]. intro H.
  destruct (N.eqb_spec k0 k) as [->|E]; [tauto|]. apply IH. tauto.
Qed.

Lemma lookup_filter {A} (p : N * A -> bool) k l :
  NoDup (map fst l) ->
  lookup k (List.filter p l) =
  match lookup k l with Some x => if p (k, x) then Some x else None | None => None end.
Proof.
  induction l as [|[k0 y] r IH]; cbn [List.filter lookup map fst]; [reflexivity|]. intro H.
  inversion H as [|a b NI ND]; subst. destruct (N.eqb_spec k0 k) as [->|E].
  - destruct (p (k, y)); cbn [lookup]; [rewrite N.eqb_refl; reflexivity|].
    apply lookup_none_notin. intro Hi. apply NI. apply in_map_iff in Hi.
    destruct Hi as (e & He & Hin). apply filter_In in Hin. rewrite <- He. apply in_map. tauto.
  - destruct (p (k0, y)); cbn [lookup]; [destruct (N.eqb_spec k0 k); [congruence|]|]; apply IH; exact ND.
Qed.

Lemma nodup_filter_keys {A} (p : N * A -> bool) l : NoDup (map fst l) -> NoDup (map fst (List.filter p l)).
Proof.
  induction l as [|[k0 y] r IH]; cbn [List.filter map fst]; intro H; [constructor|].
  inversion H as [|a b NI ND]; subst. destruct (p (k0, y)); cbn [map fst]; [|auto].
  constructor; [|auto]. intro Hi. apply NI. apply in_map_iff in Hi.
  destruct Hi as (e & He & Hin). apply filter_In in Hin. rewrite <- He. apply in_map. tauto.
Qed.

Definition wfl (l : limiter) : Prop := NoDup (map fst (tats l)).
(* every stored TAT is at most tau ahead of the clock *)
Definition linv (l : limiter) (cur : N) : Prop :=
  forall k, inv_k (tau l) (lookup k (tats l)) cur.

Lemma gcra_none tau_ t_ o now n : fst (gcra tau_ t_ o now n) = None -> o = None.
Proof.
  unfold gcra. destruct (U64 <=? t_ * n); [auto|]. destruct (tau_ <? t_ * n); [auto|].
  destruct (U64 <=? _); [discriminate|]. destruct (now <? _); [discriminate|].
  destruct (U64 <=? _); discriminate.
Qed.

Lemma allows_params l el k n : tau (fst (allows l el k n)) = tau l /\ tt (fst (allows l el k n)) = tt l.
Proof. unfold allows. destruct (gcra _ _ _ _ _). split; reflexivity. Qed.

Lemma allows_wfl l el k n : wfl l -> wfl (fst (allows l el k n)).
Proof.
  unfold wfl, allows. intro H. destruct (gcra _ _ _ _ _) as [[x|] v]; cbn [fst tats]; [apply nodup_set|]; exact H.
Qed.

Lemma allows_other l el k n k' :
  k' <> k -> lookup k' (tats (fst (allows l el k n))) = lookup k' (tats l).
Proof.
  intro H. unfold allows. destruct (gcra _ _ _ _ _) as [[x|] v]; cbn [fst tats]; [|reflexivity].
  apply lookup_set_other. exact H.
Qed.

Lemma allows_same l el k n :
  el < U64 ->
  lookup k (tats (fst (allows l el k n))) = fst (gcra (tau l) (tt l) (lookup k (tats l)) el n) /\
  snd (allows l el k n) = snd (gcra (tau l) (tt l) (lookup k (tats l)) el n).
Proof.
  intro H. unfold allows. rewrite (N.mod_small _ _ H).
  destruct (gcra (tau l) (tt l) (lookup k (tats l)) el n) as [[x|] v] eqn:G; cbn [fst snd tats].
  - split; [apply lookup_set_same|reflexivity].
  - split; [|reflexivity]. apply gcra_none with (tau_ := tau l) (t_ := tt l) (now := el) (n := n). rewrite G. reflexivity.
Qed.

Lemma prune_params l el : tau (prune l el) = tau l /\ tt (prune l el) = tt l.
Proof. split; reflexivity. Qed.

Lemma prune_wfl l el : wfl l -> wfl (prune l el).
Proof. unfold wfl, prune. cbn [tats]. apply nodup_filter_keys. Qed.

Lemma prune_lookup l el k :
  wfl l -> el < U64 ->
  lookup k (tats (prune l el)) =
  match lookup k (tats l) with Some tat => if el <=? tat then Some tat else None | None => None end.
Proof.
  intros W H. unfold prune. cbn [tats]. rewrite (N.mod_small _ _ H).
  rewrite (lookup_filter (fun e => el <=? snd e) k (tats l) W). reflexivity.
Qed.

(* what one call does, when nothing can overflow *)
Lemma allows_facts l cur el k n :
  wfl l -> linv l cur -> cur <= el -> el + tau l + tau l < U64 ->
  let l1 := fst (allows l el k n) in
  let v := snd (allows l el k n) in
  let o := lookup k (tats l) in
  linv l1 el /\
  (verdict_ok v = true ->
     lookup k (tats l1) = Some (eff o el + tt l * n) /\ eff o el + tt l * n <= el + tau l) /\
  (verdict_ok v = false -> lookup k (tats l1) = o).
Proof.
  intros W I L Hov. cbv zeta.
  assert (Hel : el < U64) by lia.
  destruct (allows_same l el k n Hel) as [Es Ev]. rewrite Ev.
  destruct (allows_params l el k n) as [Pt _].
  pose proof (inv_k_eff _ _ _ el (I k) L) as He.
  assert (Hcore :
    (verdict_ok (snd (gcra (tau l) (tt l) (lookup k (tats l)) el n)) = true ->
       fst (gcra (tau l) (tt l) (lookup k (tats l)) el n) = Some (eff (lookup k (tats l)) el + tt l * n) /\
       eff (lookup k (tats l)) el + tt l * n <= el + tau l) /\
    (verdict_ok (snd (gcra (tau l) (tt l) (lookup k (tats l)) el n)) = false ->
       fst (gcra (tau l) (tt l) (lookup k (tats l)) el n) = lookup k (tats l))).
  { destruct (N.le_gt_cases (tt l * n) (tau l)) as [Ha|Ha].
    - destruct (gcra_cases (tau l) (tt l) (lookup k (tats l)) el n Ha ltac:(lia))
        as [[Hacc ->]|[Hrej (tat & Eo & Ht & ->)]]; cbn [fst snd verdict_ok].
      + split; [intros _; split; [reflexivity|exact Hacc]|discriminate].
      + split; [discriminate|intros _; symmetry; exact Eo].
    - destruct (gcra_too_large (tau l) (tt l) (lookup k (tats l)) el n ltac:(lia)) as [E1 E2].
      rewrite E2. split; [discriminate|intros _; exact E1]. }
  destruct Hcore as [Hok Hno]. split; [|split].
  - intro k'. rewrite Pt. destruct (N.eq_dec k' k) as [->|NE].
    + rewrite Es. destruct (verdict_ok (snd (gcra (tau l) (tt l) (lookup k (tats l)) el n))) eqn:V.
      * destruct (Hok eq_refl) as [-> Hle]. cbn. exact Hle.
      * rewrite (Hno eq_refl). specialize (I k). destruct (lookup k (tats l)); cbn in *; lia.
    + rewrite (allows_other l el k n k' NE). specialize (I k'). destruct (lookup k' (tats l)); cbn in *; lia.
  - intro V. rewrite Es. exact (Hok V).
  - intro V. rewrite Es. exact (Hno V).
Qed.

Lemma prune_linv l cur el : wfl l -> linv l cur -> cur <= el -> el < U64 -> linv (prune l el) el.
Proof.
  intros W I L H k. rewrite (prune_lookup l el k W H). cbn [tau prune]. specialize (I k).
  destruct (lookup k (tats l)) as [tat|]; [|exact Logic.I]. destruct (el <=? tat); cbn in *; [lia|exact Logic.I].
Qed.

Lemma prune_eff l el k : wfl l -> el < U64 -> eff (lookup k (tats (prune l el))) el = eff (lookup k (tats l)) el.
Proof.
  intros W H. rewrite (prune_lookup l el k W H). destruct (lookup k (tats l)) as [tat|]; [|reflexivity].
  destruct (el <=? tat) eqn:E; [reflexivity|]. apply N.leb_gt in E. cbn. lia.
Qed.

(* ---------------------------------------------------------------------------------------------- *)
(* C. histories of one limiter *)

Fixpoint mono_from (cur : N) (evs : list levent) : Prop :=
  match evs with
  | [] => True
  | e :: r => cur <= levent_time e /\ mono_from (levent_time e) r
  end.
Definition all_before (B : N) (evs : list levent) : Prop := Forall (fun e => levent_time e <= B) evs.

(* the number of tokens of [key] let through by a history *)
Fixpoint accepted_tokens (key : N) (evs : list levent) (vs : list (option verdict)) : N :=
  match evs, vs with
  | LAllows _ k n :: evs', Some v :: vs' =>
    (if (k =? key) && verdict_ok v then n else 0) + accepted_tokens key evs' vs'
  | _ :: evs', _ :: vs' => accepted_tokens key evs' vs'
  | _, _ => 0
  end.

Lemma lrun_params evs : forall l, tau (fst (lrun l evs)) = tau l /\ tt (fst (lrun l evs)) = tt l.
Proof.
  induction evs as [|e r IH]; intro l; cbn [lrun]; [split; reflexivity|].
  destruct e as [el k n|el]; cbn [lstep].
  - destruct (allows_params l el k n) as [A B]. destruct (allows l el k n) as [l1 v]. cbn [fst] in *.
    destruct (IH l1) as [C D]. destruct (lrun l1 r). cbn [fst] in *. split; congruence.
  - destruct (IH (prune l el)) as [C D]. destruct (lrun (prune l el) r). cbn [fst] in *. split; assumption.
Qed.

Lemma window_bound_gen evs : forall l cur S A B key,
  wfl l -> linv l cur -> mono_from cur evs -> all_before B evs -> cur <= B ->
  B + tau l + tau l < U64 ->
  A + S <= eff (lookup key (tats l)) cur ->
  A + S + tt l * accepted_tokens key evs (snd (lrun l evs)) <= B + tau l.
Proof.
  induction evs as [|e r IH]; intros l cur S A B key W I M Bf CB Hov HS.
  - cbn [lrun snd accepted_tokens]. pose proof (inv_k_eff _ _ _ cur (I key) (N.le_refl _)). lia.
  - destruct M as [L M]. inversion Bf as [|x y Be Br]; subst. destruct e as [el k n|el]; cbn [levent_time] in *.
    + cbn [lrun lstep].
      pose proof (allows_facts l cur el k n W I L ltac:(lia)) as F. cbv zeta in F.
      pose proof (allows_wfl l el k n W) as W1. destruct (allows_params l el k n) as [Pt Ptt].
      pose proof (allows_other l el k n key) as Oth.
      destruct (allows l el k n) as [l1 v]. cbn [fst snd] in *.
      destruct F as (I1 & Fok & Fno).
      specialize (IH l1 el (S + (if (k =? key) && verdict_ok v then tt l * n else 0)) A B key W1 I1 M Br Be).
      rewrite Pt, Ptt in IH. destruct (lrun l1 r) as [l2 vs]. cbn [snd accepted_tokens] in *.
      assert (HS1 : A + (S + (if (k =? key) && verdict_ok v then tt l * n else 0)) <= eff (lookup key (tats l1)) el).
      { destruct (N.eqb_spec k key) as [->|NE]; cbn [andb].
        - destruct (verdict_ok v) eqn:V.
          + destruct (Fok eq_refl) as [-> _]. cbn [eff]. pose proof (eff_mono (lookup key (tats l)) cur el L). lia.
          + rewrite (Fno eq_refl). pose proof (eff_mono (lookup key (tats l)) cur el L). lia.
        - rewrite (Oth ltac:(congruence)). pose proof (eff_mono (lookup key (tats l)) cur el L). lia. }
      specialize (IH ltac:(lia) HS1).
      destruct ((k =? key) && verdict_ok v); lia.
    + cbn [lrun lstep].
      pose proof (prune_wfl l el W) as W1. pose proof (prune_linv l cur el W I L ltac:(lia)) as I1.
      pose proof (prune_eff l el key W ltac:(lia)) as E.
      specialize (IH (prune l el) el S A B key W1 I1 M Br Be). cbn [tau tt prune] in IH.
      destruct (lrun (prune l el) r) as [l2 vs]. cbn [snd accepted_tokens] in *.
      apply IH; [lia|]. cbn [tats prune] in *. rewrite E.
      pose proof (eff_mono (lookup key (tats l)) cur el L). lia.
Qed.

(* window_bound: whatever the state at the beginning of the window (any state the limiter can be in
   at time A), the tokens of one key let through during [A, B], with arrival times that do not go
   back and any interleaving of prune calls, cost at most tau + (B - A) nanoseconds of credit. *)
Theorem window_bound l evs A B key :
  wfl l -> linv l A -> mono_from A evs -> all_before B evs -> A <= B ->
  B + tau l + tau l < U64 ->
  tt l * accepted_tokens key evs (snd (lrun l evs)) <= tau l + (B - A).
Proof.
  intros W I M Bf AB Hov.
  pose proof (window_bound_gen evs l A 0 A B key W I M Bf AB Hov) as H.
  pose proof (eff_ge (lookup key (tats l)) A). lia.
Qed.

(* ... i.e. at most (tau + window) / t tokens, t = tau / max_tokens rounded down *)
Corollary window_bound_tokens l evs A B key :
  wfl l -> linv l A -> mono_from A evs -> all_before B evs -> A <= B ->
  B + tau l + tau l < U64 -> 0 < tt l ->
  accepted_tokens key evs (snd (lrun l evs)) <= (tau l + (B - A)) / tt l.
Proof.
  intros W I M Bf AB Hov Ht. apply N.div_le_lower_bound; [lia|].
  apply window_bound; assumption.
Qed.

(* ... which is burst + rate * window when max_tokens divides the period *)
Corollary window_bound_burst_rate l evs A B key m :
  wfl l -> linv l A -> mono_from A evs -> all_before B evs -> A <= B ->
  B + tau l + tau l < U64 -> 0 < tt l -> 0 < m -> tau l = m * tt l ->
  accepted_tokens key evs (snd (lrun l evs)) <= m + ((B - A) * m) / tau l.
Proof.
  intros W I M Bf AB Hov Ht Hm Hd.
  pose proof (window_bound_tokens l evs A B key W I M Bf AB Hov Ht) as H.
  rewrite Hd in H at 1. rewrite N.div_add_l in H by lia.
  rewrite Hd. rewrite (N.mul_comm m (tt l)). rewrite N.div_mul_cancel_r by lia. exact H.
Qed.

(* the limiters built by from_quota: t = period / max_tokens; exact when max_tokens | period *)
Lemma from_quota_spec period m l :
  from_quota period m = Some l ->
  tau l = period /\ tt l = period / m /\ tats l = [] /\ 0 < m /\ 0 < period /\ period < U64.
Proof.
  unfold from_quota. destruct (N.eqb_spec m 0); [discriminate|]. destruct (N.eqb_spec period 0); [discriminate|].
  destruct (U64 <=? period) eqn:E; [discriminate|]. apply N.leb_gt in E.
  intro H. injection H as <-. cbn. repeat split; lia.
Qed.

Lemma from_quota_divisible period m l :
  from_quota period m = Some l -> (m | period) -> tau l = m * tt l /\ 0 < tt l.
Proof.
  intros H [q Hq]. destruct (from_quota_spec _ _ _ H) as (A & B & _ & Hm & Hp & _).
  rewrite A, B. subst period. rewrite N.div_mul by lia. split; [lia|]. destruct q; lia.
Qed.

Lemma fresh_limiter_ok period m l cur : from_quota period m = Some l -> wfl l /\ linv l cur.
Proof.
  intro H. destruct (from_quota_spec _ _ _ H) as (_ & _ & E & _). unfold wfl, linv. rewrite E.
  split; [constructor|]. intro k. exact Logic.I.
Qed.

(* every reachable limiter state satisfies the hypotheses of window_bound *)
Lemma lrun_invariants evs : forall l cur B,
  wfl l -> linv l cur -> mono_from cur evs -> all_before B evs -> cur <= B -> B + tau l + tau l < U64 ->
  wfl (fst (lrun l evs)) /\ linv (fst (lrun l evs)) B.
Proof.
  induction evs as [|e r IH]; intros l cur B W I M Bf CB Hov.
  - cbn [lrun fst]. split; [exact W|]. intro k. specialize (I k). destruct (lookup k (tats l)); cbn in *; lia.
  - destruct M as [L M]. inversion Bf as [|x y Be Br]; subst. destruct e as [el k n|el]; cbn [levent_time lrun lstep] in *.
    + pose proof (allows_facts l cur el k n W I L ltac:(lia)) as F. cbv zeta in F.
      pose proof (allows_wfl l el k n W) as W1. destruct (allows_params l el k n) as [Pt _].
      destruct (allows l el k n) as [l1 v]. cbn [fst snd] in *. destruct F as (I1 & _).
      specialize (IH l1 el B W1 I1 M Br Be). rewrite Pt in IH. destruct (lrun l1 r). cbn [fst] in *. apply IH. lia.
    + pose proof (prune_wfl l el W) as W1. pose proof (prune_linv l cur el W I L ltac:(lia)) as I1.
      specialize (IH (prune l el) el B W1 I1 M Br Be). cbn [tau prune] in IH.
      destruct (lrun (prune l el) r). cbn [fst] in *. apply IH. lia.
Qed.

(* -- refinement of whole histories to the reference token bucket -- *)
Definition tbmap := list (N * bucket).
Definition tb_get (tau_ : N) (m : tbmap) (k : N) : bucket :=
  match lookup k m with Some b => b | None => tb_full tau_ end.
(* the reference ignores prune calls altogether *)
Definition tb_step (tau_ t_ : N) (m : tbmap) (e : levent) : tbmap * option bool :=
  match e with
  | LAllows el k n => let (b', ok) := tb_take tau_ (tb_get tau_ m k) el (t_ * n) in (set k b' m, Some ok)
  | LPrune _ => (m, None)
  end.
Fixpoint tb_run (tau_ t_ : N) (m : tbmap) (evs : list levent) : list (option bool) :=
  match evs with
  | [] => []
  | e :: r => let (m1, o) := tb_step tau_ t_ m e in o :: tb_run tau_ t_ m1 r
  end.

Definition Rel (l : limiter) (m : tbmap) (cur : N) : Prop :=
  forall k, R (tau l) cur (lookup k (tats l)) (tb_get (tau l) m k).

Lemma Rel_fresh period n l cur : from_quota period n = Some l -> Rel l [] cur.
Proof.
  intro H. destruct (from_quota_spec _ _ _ H) as (_ & _ & E & _). intro k. rewrite E. apply R_full.
Qed.

Lemma R_eff_bound tau_ cur o b now : R tau_ cur o b -> cur <= now -> eff o now <= now + tau_.
Proof. intros [_ H] L. specialize (H now L). lia. Qed.

Theorem gcra_is_token_bucket evs : forall l m cur B,
  wfl l -> Rel l m cur -> mono_from cur evs -> all_before B evs -> B + tau l + tau l < U64 ->
  map (option_map verdict_ok) (snd (lrun l evs)) = tb_run (tau l) (tt l) m evs.
Proof.
  induction evs as [|e r IH]; intros l m cur B W HR M Bf Hov; [reflexivity|].
  destruct M as [L M]. inversion Bf as [|x y Be Br]; subst.
  destruct e as [el k n|el]; cbn [levent_time lrun lstep tb_run tb_step] in *.
  - assert (Hel : el < U64) by lia.
    destruct (allows_same l el k n Hel) as [Es Ev]. destruct (allows_params l el k n) as [Pt Ptt].
    pose proof (allows_wfl l el k n W) as W1. pose proof (allows_other l el k n) as Oth.
    assert (Step :
      let (o', v) := gcra (tau l) (tt l) (lookup k (tats l)) el n in
      let (b', ok) := tb_take (tau l) (tb_get (tau l) m k) el (tt l * n) in
      verdict_ok v = ok /\ R (tau l) el o' b').
    { destruct (N.le_gt_cases (tt l * n) (tau l)) as [Ha|Ha].
      - apply gcra_is_token_bucket_step with (cur := cur); [apply HR|exact L|exact Ha|lia].
      - apply gcra_is_token_bucket_large with (cur := cur); [apply HR|exact L|exact Ha]. }
    destruct (allows l el k n) as [l1 v]. cbn [fst snd] in *.
    destruct (gcra (tau l) (tt l) (lookup k (tats l)) el n) as [o' v']. cbn [fst snd] in *. subst v'.
    destruct (tb_take (tau l) (tb_get (tau l) m k) el (tt l * n)) as [b' ok]. destruct Step as [Vok Rk].
    assert (HR1 : Rel l1 (set k b' m) el).
    { intro k'. rewrite Pt. unfold tb_get. destruct (N.eq_dec k' k) as [->|NE].
      - rewrite Es, lookup_set_same. exact Rk.
      - rewrite (Oth k' NE), (lookup_set_other k k' b' m NE). eapply R_later; [apply HR|exact L]. }
    specialize (IH l1 (set k b' m) el B W1 HR1 M Br). rewrite Pt, Ptt in IH.
    destruct (lrun l1 r) as [l2 vs]. cbn [snd map option_map] in *. rewrite Vok. f_equal. apply IH. exact Hov.
  - assert (Hel : el < U64) by lia.
    assert (HR1 : Rel (prune l el) m el).
    { intro k. cbn [tau prune]. change (tats (prune l el)) with (tats (prune l el)).
      rewrite (prune_lookup l el k W Hel). apply R_prune with (cur := cur); [apply HR|exact L]. }
    specialize (IH (prune l el) m el B (prune_wfl l el W) HR1 M Br). cbn [tau tt prune] in IH.
    destruct (lrun (prune l el) r) as [l2 vs]. cbn [snd map option_map] in *. f_equal. apply IH. exact Hov.
Qed.

(* conforming_never_refused, one limiter: if the reference token bucket accepts every arrival of a
   history, the limiter's verdict is Ok for every arrival - whatever prune calls are interleaved *)
Definition tb_accepts_all (tau_ t_ : N) (m : tbmap) (evs : list levent) : Prop :=
  Forall (fun o => o <> Some false) (tb_run tau_ t_ m evs).

Theorem conforming_never_refused_limiter l m cur B evs :
  wfl l -> Rel l m cur -> mono_from cur evs -> all_before B evs -> B + tau l + tau l < U64 ->
  tb_accepts_all (tau l) (tt l) m evs ->
  Forall (fun o => o = None \/ o = Some VOk) (snd (lrun l evs)).
Proof.
  intros W HR M Bf Hov Hall. unfold tb_accepts_all in Hall.
  rewrite <- (gcra_is_token_bucket evs l m cur B W HR M Bf Hov) in Hall.
  rewrite Forall_map in Hall. revert Hall. apply Forall_impl. intros [v|] H; [|left; reflexivity].
  right. destruct v; cbn in H; try congruence; reflexivity.
Qed.

(* -- prune_transparent: a history with prune calls and the same history without them give the same
      verdicts (including the waiting times), and equivalent final states -- *)
Definition no_prunes (evs : list levent) : list levent :=
  List.filter (fun e => match e with LPrune _ => false | _ => true end) evs.
Definition verdicts (vs : list (option verdict)) : list verdict :=
  flat_map (fun o => match o with Some v => [v] | None => [] end) vs.
(* same parameters, and every key has the same effective TAT from time cur on *)
Definition leq (cur : N) (l l' : limiter) : Prop :=
  tau l = tau l' /\ tt l = tt l' /\ forall k, eff (lookup k (tats l)) cur = eff (lookup k (tats l')) cur.

Lemma eff_eq_later o o' cur now : eff o cur = eff o' cur -> cur <= now -> eff o now = eff o' now.
Proof. destruct o, o'; cbn; lia. Qed.

Lemma gcra_eff_equiv tau_ t_ o o' now n :
  eff o now = eff o' now -> eff o now + tau_ < U64 ->
  snd (gcra tau_ t_ o now n) = snd (gcra tau_ t_ o' now n) /\
  eff (fst (gcra tau_ t_ o now n)) now = eff (fst (gcra tau_ t_ o' now n)) now.
Proof.
  intros E Hov. destruct (N.le_gt_cases (t_ * n) tau_) as [Ha|Ha].
  - destruct (gcra_cases tau_ t_ o now n Ha Hov) as [[Hacc ->]|[Hrej (tat & -> & Ht & ->)]];
    destruct (gcra_cases tau_ t_ o' now n Ha ltac:(lia)) as [[Hacc' ->]|[Hrej' (tat' & -> & Ht' & ->)]];
    cbn [fst snd eff] in *; try lia.
    + split; [reflexivity|lia].
    + assert (tat = tat') by lia. subst. split; reflexivity.
  - unfold gcra. destruct (U64 <=? t_ * n); [split; [reflexivity|exact E]|].
    apply N.ltb_lt in Ha. rewrite Ha. split; [reflexivity|exact E].
Qed.

Theorem prune_transparent evs : forall l l' cur B,
  wfl l -> wfl l' -> linv l cur -> leq cur l l' ->
  mono_from cur evs -> all_before B evs -> cur <= B -> B + tau l + tau l < U64 ->
  verdicts (snd (lrun l evs)) = verdicts (snd (lrun l' (no_prunes evs))) /\
  leq B (fst (lrun l evs)) (fst (lrun l' (no_prunes evs))).
Proof.
  induction evs as [|e r IH]; intros l l' cur B W W' I Q M Bf CB Hov.
  - cbn. split; [reflexivity|]. destruct Q as (A & C & D). repeat split; auto. intro k. eapply eff_eq_later; eauto.
  - destruct M as [L M]. inversion Bf as [|x y Be Br]; subst. destruct Q as (Qt & Qtt & Qe).
    destruct e as [el k n|el]; cbn [levent_time no_prunes List.filter lrun lstep] in *.
    + fold (no_prunes r).
      assert (Hel : el < U64) by lia.
      destruct (allows_same l el k n Hel) as [Es Ev]. destruct (allows_same l' el k n Hel) as [Es' Ev'].
      destruct (allows_params l el k n) as [Pt Ptt]. destruct (allows_params l' el k n) as [Pt' Ptt'].
      pose proof (allows_facts l cur el k n W I L ltac:(lia)) as F. cbv zeta in F. destruct F as (I1 & _).
      pose proof (allows_wfl l el k n W) as W1. pose proof (allows_wfl l' el k n W') as W1'.
      pose proof (allows_other l el k n) as Oth. pose proof (allows_other l' el k n) as Oth'.
      pose proof (inv_k_eff _ _ _ el (I k) L) as Hb.
      destruct (gcra_eff_equiv (tau l) (tt l) (lookup k (tats l)) (lookup k (tats l')) el n
                  (eff_eq_later _ _ _ _ (Qe k) L) ltac:(lia)) as [Gv Ge].
      rewrite <- Qt, <- Qtt in Es', Ev'.
      destruct (allows l el k n) as [l1 v]. destruct (allows l' el k n) as [l1' v']. cbn [fst snd] in *.
      assert (Q1 : leq el l1 l1').
      { repeat split; try congruence. intro k'. destruct (N.eq_dec k' k) as [->|NE].
        - rewrite Es, Es'. exact Ge.
        - rewrite (Oth k' NE), (Oth' k' NE). eapply eff_eq_later; eauto. }
      specialize (IH l1 l1' el B W1 W1' I1 Q1 M Br Be). rewrite Pt in IH.
      destruct (lrun l1 r) as [l2 vs]. destruct (lrun l1' (no_prunes r)) as [l2' vs'].
      cbn [fst snd verdicts flat_map app] in *. destruct (IH Hov) as [IHv IHq].
      split; [|exact IHq]. fold (verdicts vs) (verdicts vs'). rewrite Ev, Ev', Gv. f_equal. exact IHv.
    + fold (no_prunes r).
      assert (Hel : el < U64) by lia.
      assert (Q1 : leq el (prune l el) l').
      { repeat split; auto. intro k. rewrite (prune_eff l el k W Hel). eapply eff_eq_later; eauto. }
      specialize (IH (prune l el) l' el B (prune_wfl l el W) W' (prune_linv l cur el W I L Hel) Q1 M Br Be).
      cbn [tau prune] in IH.
      destruct (lrun (prune l el) r) as [l2 vs]. destruct (lrun l' (no_prunes r)) as [l2' vs'].
      cbn [fst snd verdicts flat_map app] in *. apply IH. exact Hov.
Qed.

Lemma leq_refl cur l : leq cur l l.
Proof. repeat split; reflexivity. Qed.

(* ---------------------------------------------------------------------------------------------- *)
(* D. the filter *)

(* D1. the ban / permit decision table *)

Lemma initial_permit f p ip now :
  mem ip (permit_ips p) = true -> initial_pass f p ip now = (f, p, true).
Proof. intro H. unfold initial_pass. rewrite H. reflexivity. Qed.

Lemma initial_banned f p ip now :
  mem ip (permit_ips p) = false -> has_key ip (ban_ips p) = true ->
  initial_pass f p ip now = (f, p, false).
Proof. intros H1 H2. unfold initial_pass. rewrite H1, H2. reflexivity. Qed.

Lemma final_permit f p ip id now :
  mem id (permit_nodes p) = true -> final_pass f p ip id now = (f, p, true).
Proof. intro H. unfold final_pass. rewrite H. reflexivity. Qed.

Lemma final_banned f p ip id now :
  mem id (permit_nodes p) = false -> has_key id (ban_nodes p) = true ->
  final_pass f p ip id now = (f, p, false).
Proof. intros H1 H2. unfold final_pass. rewrite H1, H2. reflexivity. Qed.

Lemma initial_disabled f p ip now :
  mem ip (permit_ips p) = false -> has_key ip (ban_ips p) = false -> enabled f = false ->
  initial_pass f p ip now = (f, p, true).
Proof. intros H1 H2 H3. unfold initial_pass. rewrite H1, H2, H3. reflexivity. Qed.

(* the IP limiter refuses: the datagram is dropped and the IP is banned until now + ban_duration *)
Lemma initial_ip_limit_bans f p ip now r :
  mem ip (permit_ips p) = false -> has_key ip (ban_ips p) = false -> enabled f = true ->
  rate f = Some r -> verdict_ok (snd (rl_allows r now (KIp ip))) = false ->
  let '(f', p', ok) := initial_pass f p ip now in
  ok = false /\ lookup ip (ban_ips p') = Some (option_map (fun d => now + d) (ban_duration f)) /\
  ban_nodes p' = ban_nodes p /\ permit_ips p' = permit_ips p /\ permit_nodes p' = permit_nodes p.
Proof.
  intros H1 H2 H3 H4 H5. unfold initial_pass. rewrite H1, H2, H3, H4. cbn [negb].
  destruct (rl_allows r now (KIp ip)) as [r1 v1]. cbn [snd] in H5. rewrite H5. cbn [negb].
  repeat split. cbn [with_ban_ip ban_ips]. apply lookup_set_same.
Qed.

(* only the total quota is exceeded: dropped, nobody is banned *)
Lemma initial_total_limit_no_ban f p ip now r :
  mem ip (permit_ips p) = false -> has_key ip (ban_ips p) = false -> enabled f = true ->
  rate f = Some r -> verdict_ok (snd (rl_allows r now (KIp ip))) = true ->
  verdict_ok (snd (rl_allows (fst (rl_allows r now (KIp ip))) now KTotal)) = false ->
  let '(f', p', ok) := initial_pass f p ip now in ok = false /\ p' = p.
Proof.
  intros H1 H2 H3 H4 H5 H6. unfold initial_pass. rewrite H1, H2, H3, H4. cbn [negb].
  destruct (rl_allows r now (KIp ip)) as [r1 v1]. cbn [fst snd] in *. rewrite H5. cbn [negb].
  destruct (rl_allows r1 now KTotal) as [r2 v2]. cbn [snd] in H6. rewrite H6. split; reflexivity.
Qed.

(* within the IP and the total quota: passed, the lists are untouched *)
Lemma initial_within_quota f p ip now r :
  mem ip (permit_ips p) = false -> has_key ip (ban_ips p) = false -> enabled f = true ->
  rate f = Some r -> verdict_ok (snd (rl_allows r now (KIp ip))) = true ->
  verdict_ok (snd (rl_allows (fst (rl_allows r now (KIp ip))) now KTotal)) = true ->
  initial_pass f p ip now =
  (with_rate f (Some (fst (rl_allows (fst (rl_allows r now (KIp ip))) now KTotal))), p, true).
Proof.
  intros H1 H2 H3 H4 H5 H6. unfold initial_pass. rewrite H1, H2, H3, H4. cbn [negb].
  destruct (rl_allows r now (KIp ip)) as [r1 v1]. cbn [fst snd] in *. rewrite H5. cbn [negb].
  destruct (rl_allows r1 now KTotal) as [r2 v2]. cbn [fst snd] in *. rewrite H6. reflexivity.
Qed.

(* the node limiter refuses: dropped, the node id is banned until now + ban_duration *)
Lemma final_node_limit_bans f p ip id now r :
  mem id (permit_nodes p) = false -> has_key id (ban_nodes p) = false -> enabled f = true ->
  rate f = Some r -> verdict_ok (snd (rl_allows r now (KNode id))) = false ->
  let '(f', p', ok) := final_pass f p ip id now in
  ok = false /\ lookup id (ban_nodes p') = Some (option_map (fun d => now + d) (ban_duration f)).
Proof.
  intros H1 H2 H3 H4 H5. unfold final_pass. rewrite H1, H2, H3, H4. cbn [negb].
  destruct (rl_allows r now (KNode id)) as [r1 v1]. cbn [snd] in H5. rewrite H5.
  destruct (max_bans_per_ip f) as [m|].
  - destruct (lru_get ip (banned_nodes f)) as [cnt|].
    + destruct (m <=? cnt + 1); (split; [reflexivity|]); cbn; apply lookup_set_same.
    + split; [reflexivity|]. cbn. apply lookup_set_same.
  - split; [reflexivity|]. cbn. apply lookup_set_same.
Qed.

(* solicited traffic (an expected response) bypasses both passes *)
Lemma handle_inbound_exempt f p ip d now :
  handle_inbound f p true ip d now =
  (f, p, match d with None => Unrecognized | Some _ => Deliver end).
Proof. unfold handle_inbound. cbn. destruct d as [[id|]|]; reflexivity. Qed.

(* unban_nodes_check keeps an entry while now < expiry (and permanent entries), drops it after *)
Definition wfp (p : pbl) : Prop := NoDup (map fst (ban_ips p)) /\ NoDup (map fst (ban_nodes p)).

Lemma unban_keeps_ip p now ip u :
  wfp p -> lookup ip (ban_ips p) = Some u ->
  lookup ip (ban_ips (unban_check p now)) =
  match u with None => Some None | Some x => if now <? x then Some (Some x) else None end.
Proof.
  intros [W _] H. unfold unban_check. cbn [ban_ips].
  rewrite (lookup_filter (still_banned now) ip (ban_ips p) W), H. unfold still_banned. cbn [snd].
  destruct u as [x|]; [destruct (now <? x)|]; reflexivity.
Qed.

Lemma unban_keeps_node p now id u :
  wfp p -> lookup id (ban_nodes p) = Some u ->
  lookup id (ban_nodes (unban_check p now)) =
  match u with None => Some None | Some x => if now <? x then Some (Some x) else None end.
Proof.
  intros [_ W] H. unfold unban_check. cbn [ban_nodes].
  rewrite (lookup_filter (still_banned now) id (ban_nodes p) W), H. unfold still_banned. cbn [snd].
  destruct u as [x|]; [destruct (now <? x)|]; reflexivity.
Qed.

(* D2. what the two passes can do to the lists, and: bans last *)

Ltac fin := cbn; repeat split; auto.

Lemma initial_pass_shape f p ip now :
  let '(f', p', ok) := initial_pass f p ip now in
  ban_duration f' = ban_duration f /\ enabled f' = enabled f /\
  permit_ips p' = permit_ips p /\ permit_nodes p' = permit_nodes p /\ ban_nodes p' = ban_nodes p /\
  (ban_ips p' = ban_ips p \/
   (ban_ips p' = set ip (ban_timeout f now) (ban_ips p) /\ ok = false)).
Proof.
  unfold initial_pass.
  destruct (mem ip (permit_ips p)); [fin|].
  destruct (has_key ip (ban_ips p)); [fin|].
  destruct (negb (enabled f)); [fin|].
  destruct (rate f) as [r|]; [|fin].
  destruct (rl_allows r now (KIp ip)) as [r1 v1].
  destruct (negb (verdict_ok v1)); [fin|].
  destruct (rl_allows r1 now KTotal) as [r2 v2]. fin.
Qed.

Lemma final_pass_shape f p ip id now :
  let '(f', p', ok) := final_pass f p ip id now in
  ban_duration f' = ban_duration f /\ enabled f' = enabled f /\
  permit_ips p' = permit_ips p /\ permit_nodes p' = permit_nodes p /\
  (ban_nodes p' = ban_nodes p \/ ban_nodes p' = set id (ban_timeout f now) (ban_nodes p)) /\
  (ban_ips p' = ban_ips p \/ ban_ips p' = set ip (ban_timeout f now) (ban_ips p)).
Proof.
  unfold final_pass.
  destruct (mem id (permit_nodes p)); [fin|].
  destruct (has_key id (ban_nodes p)); [fin|].
  destruct (negb (enabled f)); [fin|].
  destruct (rate f) as [r|].
  - destruct (rl_allows r now (KNode id)) as [r1 v1].
    destruct (verdict_ok v1).
    + cbn [max_nodes_per_ip with_rate]. destruct (max_nodes_per_ip f) as [m|]; [|fin].
      destruct (note_known _ ip id) as [k' n]. destruct (m <=? n); fin.
    + destruct (max_bans_per_ip f) as [m|]; [|fin].
      destruct (lru_get ip (banned_nodes f)) as [cnt|]; [|fin].
      destruct (m <=? cnt + 1); fin.
  - destruct (max_nodes_per_ip f) as [m|]; [|fin].
    destruct (note_known _ ip id) as [k' n]. destruct (m <=? n); fin.
Qed.

Lemma handle_inbound_shape f p ex ip d now :
  let '(f', p', x) := handle_inbound f p ex ip d now in
  ban_duration f' = ban_duration f /\ enabled f' = enabled f /\
  permit_ips p' = permit_ips p /\ permit_nodes p' = permit_nodes p /\
  (ban_nodes p' = ban_nodes p \/
   exists id, d = Some (Some id) /\ ban_nodes p' = set id (ban_timeout f now) (ban_nodes p)) /\
  (ban_ips p' = ban_ips p \/ ban_ips p' = set ip (ban_timeout f now) (ban_ips p)).
Proof.
  unfold handle_inbound. destruct ex.
  - cbn. destruct d as [[id|]|]; fin.
  - pose proof (initial_pass_shape f p ip now) as S1.
    destruct (initial_pass f p ip now) as [[f1 p1] ok1].
    destruct S1 as (A1 & A2 & A3 & A4 & A5 & A6).
    destruct ok1; cbn [negb].
    + destruct A6 as [A6|[_ A6]]; [|discriminate].
      destruct d as [[id|]|]; [|fin; rewrite A6; auto|fin; rewrite A6; auto].
      pose proof (final_pass_shape f1 p1 ip id now) as S2.
      destruct (final_pass f1 p1 ip id now) as [[f2 p2] ok2].
      destruct S2 as (B1 & B2 & B3 & B4 & B5 & B6).
      assert (T : ban_timeout f1 now = ban_timeout f now) by (unfold ban_timeout; rewrite A1; reflexivity).
      rewrite T in *.
      split; [congruence|]. split; [congruence|]. split; [congruence|]. split; [congruence|]. split.
      * destruct B5 as [B5|B5]; [left; congruence|right; exists id; split; [reflexivity|congruence]].
      * destruct B6 as [B6|B6]; [left; congruence|right; congruence].
    + repeat split; auto. destruct A6 as [A6|[A6 _]]; [left|right]; assumption.
Qed.

Definition banned_until (l : list (N * option N)) (k e : N) : Prop :=
  exists u, lookup k l = Some u /\ match u with None => True | Some x => e <= x end.

Lemma banned_until_has_key l k e : banned_until l k e -> has_key k l = true.
Proof. intros (u & H & _). unfold has_key. rewrite H. reflexivity. Qed.

Lemma banned_until_set l k e k' u :
  banned_until l k e -> (k' = k -> match u with None => True | Some x => e <= x end) ->
  banned_until (set k' u l) k e.
Proof.
  intros (u0 & H & Hu) Hn. destruct (N.eq_dec k' k) as [->|NE].
  - exists u. rewrite lookup_set_same. split; [reflexivity|exact (Hn eq_refl)].
  - exists u0. rewrite lookup_set_other by congruence. split; assumption.
Qed.

Lemma timeout_ok f now e :
  match ban_duration f with Some d => e <= now + d | None => True end ->
  match ban_timeout f now with None => True | Some x => e <= x end.
Proof. unfold ban_timeout. destruct (ban_duration f); cbn; auto. Qed.

Lemma mem_false_iff x l : mem x l = false <-> ~ In x l.
Proof.
  unfold mem. split.
  - intros H Hi. assert (existsb (N.eqb x) l = true); [|congruence].
    apply existsb_exists. exists x. split; [exact Hi|apply N.eqb_refl].
  - intro H. destruct (existsb (N.eqb x) l) eqn:E; [|reflexivity].
    apply existsb_exists in E. destruct E as (y & Hy & Ey). apply N.eqb_eq in Ey. subst. tauto.
Qed.

Lemma mem_add_or_remove add x y l :
  mem y l = false -> (add = true -> x <> y) -> mem y (add_or_remove add x l) = false.
Proof.
  rewrite !mem_false_iff. intros H Hx. unfold add_or_remove. destruct add.
  - destruct (mem x l); [exact H|]. rewrite in_app_iff. cbn. intros [Hi|[->|[]]]; [tauto|]. apply Hx; reflexivity.
  - rewrite filter_In. tauto.
Qed.

Lemma lookup_unset_other {A} k k' (l : list (N * A)) : k' <> k -> lookup k' (unset k l) = lookup k' l.
Proof.
  intro H. unfold unset. induction l as [|[k0 y] r IH]; cbn [List.filter lookup fst]; [reflexivity|].
  destruct (N.eqb_spec k0 k) as [->|E]; cbn [negb lookup].
  - destruct (N.eqb_spec k k'); [congruence|exact IH].
  - destruct (k0 =? k'); [reflexivity|exact IH].
Qed.

Lemma nodup_unset {A} k (l : list (N * A)) : NoDup (map fst l) -> NoDup (map fst (unset k l)).
Proof. apply nodup_filter_keys. Qed.

Lemma wfp_shape p p' ip id u u' :
  wfp p ->
  (ban_nodes p' = ban_nodes p \/ ban_nodes p' = set id u (ban_nodes p)) ->
  (ban_ips p' = ban_ips p \/ ban_ips p' = set ip u' (ban_ips p)) -> wfp p'.
Proof.
  intros [W1 W2] H1 H2. unfold wfp. destruct H1 as [-> | ->], H2 as [-> | ->]; split; auto using nodup_set.
Qed.

(* the events a ban of [ip] must survive: everything except the application's own calls on that
   address (Discv5::ban_ip / ban_ip_remove / permit_ip) *)
Definition keeps_ip_ban (ip : N) (ev : fevent) : Prop :=
  match ev with
  | FPermitIp ip' true => ip' <> ip
  | FBanIp ip' _ _ => ip' <> ip
  | _ => True
  end.
Definition denied_ip (ip : N) (ev : fevent) (o : fobs) : Prop :=
  match ev with
  | FInitial ip' => ip' = ip -> o = OBool false
  | FInbound false ip' _ => ip' = ip -> o = OFate DropIpStage
  | _ => True
  end.
Definition ip_banned (ip e : N) (p : pbl) : Prop :=
  wfp p /\ mem ip (permit_ips p) = false /\ banned_until (ban_ips p) ip e.

Lemma fstep_keeps_ip_ban f p ip e ev now :
  ip_banned ip e p -> now < e ->
  match ban_duration f with Some d => e <= now + d | None => True end ->
  keeps_ip_ban ip ev ->
  let '(f1, p1, o) := fstep f p ev now in
  ip_banned ip e p1 /\ ban_duration f1 = ban_duration f /\ denied_ip ip ev o.
Proof.
  intros (W & NP & BU) Hn Hd K. pose proof (timeout_ok f now e Hd) as HT. pose proof W as [W1 W2].
  unfold ip_banned.
  destruct ev as [ip'|ip' id|ex ip' d| | |ip' add|id add|ip' add dur|id add dur]; cbn [fstep].
  - (* initial_pass *)
    pose proof (initial_pass_shape f p ip' now) as S.
    destruct (N.eq_dec ip' ip) as [->|NE].
    + rewrite (initial_banned f p ip now NP (banned_until_has_key _ _ _ BU)).
      refine (conj (conj W (conj NP BU)) (conj eq_refl _)). cbn. reflexivity.
    + destruct (initial_pass f p ip' now) as [[f1 p1] ok]. destruct S as (A1 & A2 & A3 & A4 & A5 & A6).
      refine (conj (conj _ (conj _ _)) (conj A1 _)).
      * apply (wfp_shape p p1 ip' 0 None (ban_timeout f now) W); [left; exact A5|].
        destruct A6 as [A6|[A6 _]]; [left|right]; exact A6.
      * rewrite A3. exact NP.
      * destruct A6 as [A6|[A6 _]]; rewrite A6; [exact BU|].
        apply banned_until_set; [exact BU|congruence].
      * cbn. congruence.
  - (* final_pass *)
    pose proof (final_pass_shape f p ip' id now) as S.
    destruct (final_pass f p ip' id now) as [[f1 p1] ok]. destruct S as (A1 & A2 & A3 & A4 & A5 & A6).
    refine (conj (conj _ (conj _ _)) (conj A1 _)).
    + apply (wfp_shape p p1 ip' id (ban_timeout f now) (ban_timeout f now) W A5 A6).
    + rewrite A3. exact NP.
    + destruct A6 as [A6|A6]; rewrite A6; [exact BU|].
      apply banned_until_set; [exact BU|intros _; exact HT].
    + exact Logic.I.
  - (* handle_inbound *)
    pose proof (handle_inbound_shape f p ex ip' d now) as S.
    assert (D : ex = false -> ip' = ip -> handle_inbound f p ex ip' d now = (f, p, DropIpStage)).
    { intros -> ->. unfold handle_inbound.
      rewrite (initial_banned f p ip now NP (banned_until_has_key _ _ _ BU)). reflexivity. }
    destruct (handle_inbound f p ex ip' d now) as [[f1 p1] x]. destruct S as (A1 & A2 & A3 & A4 & A5 & A6).
    refine (conj (conj _ (conj _ _)) (conj A1 _)).
    + destruct A5 as [A5|(id & _ & A5)].
      * apply (wfp_shape p p1 ip' 0 None (ban_timeout f now) W); [left; exact A5|exact A6].
      * apply (wfp_shape p p1 ip' id (ban_timeout f now) (ban_timeout f now) W); [right; exact A5|exact A6].
    + rewrite A3. exact NP.
    + destruct A6 as [A6|A6]; rewrite A6; [exact BU|].
      apply banned_until_set; [exact BU|intros _; exact HT].
    + cbn. destruct ex; [exact Logic.I|]. intro E. specialize (D eq_refl E). congruence.
  - (* prune_limiter *)
    refine (conj (conj W (conj NP BU)) (conj eq_refl _)). exact Logic.I.
  - (* unban_nodes_check *)
    destruct BU as (u & Hu & Hx).
    refine (conj (conj (conj _ _) (conj NP _)) (conj eq_refl Logic.I)).
    + cbn. apply nodup_filter_keys. exact W1.
    + cbn. apply nodup_filter_keys. exact W2.
    + exists u. rewrite (unban_keeps_ip p now ip u W Hu). destruct u as [x|]; [|split; auto].
      assert (E : now <? x = true) by (apply N.ltb_lt; lia). rewrite E. split; auto.
  - (* permit_ip / permit_ip_remove *)
    cbn in K. refine (conj (conj W (conj _ BU)) (conj eq_refl Logic.I)).
    cbn [permit_ips]. apply mem_add_or_remove; [exact NP|]. intros ->. exact K.
  - (* permit_node / permit_node_remove *)
    refine (conj (conj W (conj NP BU)) (conj eq_refl Logic.I)).
  - (* ban_ip / ban_ip_remove on another address *)
    cbn in K. destruct BU as (u & Hu & Hx). destruct add; cbn.
    + refine (conj (conj (conj _ W2) (conj NP _)) (conj eq_refl Logic.I)); [apply nodup_set; exact W1|].
      exists u. rewrite lookup_set_other by congruence. auto.
    + refine (conj (conj (conj _ W2) (conj NP _)) (conj eq_refl Logic.I)); [apply nodup_unset; exact W1|].
      exists u. rewrite lookup_unset_other by congruence. auto.
  - (* ban_node / ban_node_remove *)
    destruct add; cbn.
    + refine (conj (conj (conj W1 _) (conj NP BU)) (conj eq_refl Logic.I)). apply nodup_set. exact W2.
    + refine (conj (conj (conj W1 _) (conj NP BU)) (conj eq_refl Logic.I)). apply nodup_unset. exact W2.
Qed.

Fixpoint all_obs (P : fevent -> fobs -> Prop) (evs : list (fevent * N)) (os : list fobs) : Prop :=
  match evs, os with
  | [], [] => True
  | (ev, _) :: r, o :: os' => P ev o /\ all_obs P r os'
  | _, _ => False
  end.

(* An IP that is banned until e (or for ever) and is not permit-listed is refused at the IP stage
   by every call before e - whatever else the filter processes, whenever the limiter is pruned and
   whenever the handler's unban check runs.  [e <= now + d]: a re-ban can only extend the ban. *)
Theorem ban_lasts_ip ip e evs : forall f p,
  ip_banned ip e p ->
  Forall (fun x => snd x < e /\
                   match ban_duration f with Some d => e <= snd x + d | None => True end /\
                   keeps_ip_ban ip (fst x)) evs ->
  all_obs (denied_ip ip) evs (snd (frun f p evs)).
Proof.
  induction evs as [|[ev now] r IH]; intros f p B H; cbn [frun]; [exact Logic.I|].
  inversion H as [|x y (Hn & Hd & K) Hr]; subst. cbn [fst snd] in *.
  pose proof (fstep_keeps_ip_ban f p ip e ev now B Hn Hd K) as S.
  destruct (fstep f p ev now) as [[f1 p1] o]. destruct S as (B1 & D1 & Dn).
  specialize (IH f1 p1 B1). rewrite D1 in IH. specialize (IH Hr).
  destruct (frun f1 p1 r) as [[f2 p2] os]. cbn [snd all_obs] in *. split; assumption.
Qed.

(* the same for a banned node id, at the node stage *)
Definition keeps_node_ban (id : N) (ev : fevent) : Prop :=
  match ev with
  | FPermitNode id' true => id' <> id
  | FBanNode id' _ _ => id' <> id
  | _ => True
  end.
Definition denied_node (id : N) (ev : fevent) (o : fobs) : Prop :=
  match ev with
  | FFinal _ id' => id' = id -> o = OBool false
  | FInbound false _ (Some (Some id')) => id' = id -> o = OFate DropIpStage \/ o = OFate DropNodeStage
  | _ => True
  end.
Definition node_banned (id e : N) (p : pbl) : Prop :=
  wfp p /\ mem id (permit_nodes p) = false /\ banned_until (ban_nodes p) id e.

Lemma fstep_keeps_node_ban f p id e ev now :
  node_banned id e p -> now < e ->
  match ban_duration f with Some d => e <= now + d | None => True end ->
  keeps_node_ban id ev ->
  let '(f1, p1, o) := fstep f p ev now in
  node_banned id e p1 /\ ban_duration f1 = ban_duration f /\ denied_node id ev o.
Proof.
  intros (W & NP & BU) Hn Hd K. pose proof (timeout_ok f now e Hd) as HT. pose proof W as [W1 W2].
  unfold node_banned.
  destruct ev as [ip'|ip' id'|ex ip' d| | |ip' add|id' add|ip' add dur|id' add dur]; cbn [fstep].
  - (* initial_pass *)
    pose proof (initial_pass_shape f p ip' now) as S.
    destruct (initial_pass f p ip' now) as [[f1 p1] ok]. destruct S as (A1 & A2 & A3 & A4 & A5 & A6).
    refine (conj (conj _ (conj _ _)) (conj A1 Logic.I)).
    + apply (wfp_shape p p1 ip' 0 None (ban_timeout f now) W); [left; exact A5|].
      destruct A6 as [A6|[A6 _]]; [left|right]; exact A6.
    + rewrite A4. exact NP.
    + rewrite A5. exact BU.
  - (* final_pass *)
    pose proof (final_pass_shape f p ip' id' now) as S.
    destruct (N.eq_dec id' id) as [->|NE].
    + rewrite (final_banned f p ip' id now NP (banned_until_has_key _ _ _ BU)).
      refine (conj (conj W (conj NP BU)) (conj eq_refl _)). cbn. reflexivity.
    + destruct (final_pass f p ip' id' now) as [[f1 p1] ok]. destruct S as (A1 & A2 & A3 & A4 & A5 & A6).
      refine (conj (conj _ (conj _ _)) (conj A1 _)).
      * apply (wfp_shape p p1 ip' id' (ban_timeout f now) (ban_timeout f now) W A5 A6).
      * rewrite A4. exact NP.
      * destruct A5 as [A5|A5]; rewrite A5; [exact BU|]. apply banned_until_set; [exact BU|congruence].
      * cbn. congruence.
  - (* handle_inbound *)
    pose proof (handle_inbound_shape f p ex ip' d now) as S.
    assert (D : ex = false -> d = Some (Some id) ->
                snd (handle_inbound f p ex ip' d now) = DropIpStage \/
                snd (handle_inbound f p ex ip' d now) = DropNodeStage).
    { intros -> ->. unfold handle_inbound.
      pose proof (initial_pass_shape f p ip' now) as S1.
      destruct (initial_pass f p ip' now) as [[f1 p1] ok1]. destruct S1 as (_ & _ & _ & B4 & B5 & _).
      destruct ok1; cbn [negb snd]; [|left; reflexivity].
      assert (NP1 : mem id (permit_nodes p1) = false) by (rewrite B4; exact NP).
      assert (BU1 : has_key id (ban_nodes p1) = true) by (rewrite B5; exact (banned_until_has_key _ _ _ BU)).
      rewrite (final_banned f1 p1 ip' id now NP1 BU1). right. reflexivity. }
    destruct (handle_inbound f p ex ip' d now) as [[f1 p1] x]. destruct S as (A1 & A2 & A3 & A4 & A5 & A6).
    refine (conj (conj _ (conj _ _)) (conj A1 _)).
    + destruct A5 as [A5|(id0 & _ & A5)].
      * apply (wfp_shape p p1 ip' 0 None (ban_timeout f now) W); [left; exact A5|exact A6].
      * apply (wfp_shape p p1 ip' id0 (ban_timeout f now) (ban_timeout f now) W); [right; exact A5|exact A6].
    + rewrite A4. exact NP.
    + destruct A5 as [A5|(id0 & _ & A5)]; rewrite A5; [exact BU|].
      apply banned_until_set; [exact BU|intros _; exact HT].
    + cbn. destruct ex; [exact Logic.I|]. destruct d as [[id'|]|]; try exact Logic.I.
      intros ->. cbn [snd] in D. destruct (D eq_refl eq_refl) as [-> | ->]; [left|right]; reflexivity.
  - (* prune_limiter *)
    refine (conj (conj W (conj NP BU)) (conj eq_refl Logic.I)).
  - (* unban_nodes_check *)
    destruct BU as (u & Hu & Hx).
    refine (conj (conj (conj _ _) (conj NP _)) (conj eq_refl Logic.I)).
    + cbn. apply nodup_filter_keys. exact W1.
    + cbn. apply nodup_filter_keys. exact W2.
    + exists u. rewrite (unban_keeps_node p now id u W Hu). destruct u as [x|]; [|split; auto].
      assert (E : now <? x = true) by (apply N.ltb_lt; lia). rewrite E. split; auto.
  - (* permit_ip / permit_ip_remove *)
    refine (conj (conj W (conj NP BU)) (conj eq_refl Logic.I)).
  - (* permit_node / permit_node_remove *)
    cbn in K. refine (conj (conj W (conj _ BU)) (conj eq_refl Logic.I)).
    cbn [permit_nodes]. apply mem_add_or_remove; [exact NP|]. intros ->. exact K.
  - (* ban_ip / ban_ip_remove *)
    destruct add; cbn.
    + refine (conj (conj (conj _ W2) (conj NP BU)) (conj eq_refl Logic.I)). apply nodup_set. exact W1.
    + refine (conj (conj (conj _ W2) (conj NP BU)) (conj eq_refl Logic.I)). apply nodup_unset. exact W1.
  - (* ban_node / ban_node_remove on another id *)
    cbn in K. destruct BU as (u & Hu & Hx). destruct add; cbn.
    + refine (conj (conj (conj W1 _) (conj NP _)) (conj eq_refl Logic.I)); [apply nodup_set; exact W2|].
      exists u. rewrite lookup_set_other by congruence. auto.
    + refine (conj (conj (conj W1 _) (conj NP _)) (conj eq_refl Logic.I)); [apply nodup_unset; exact W2|].
      exists u. rewrite lookup_unset_other by congruence. auto.
Qed.

Theorem ban_lasts_node id e evs : forall f p,
  node_banned id e p ->
  Forall (fun x => snd x < e /\
                   match ban_duration f with Some d => e <= snd x + d | None => True end /\
                   keeps_node_ban id (fst x)) evs ->
  all_obs (denied_node id) evs (snd (frun f p evs)).
Proof.
  induction evs as [|[ev now] r IH]; intros f p B H; cbn [frun]; [exact Logic.I|].
  inversion H as [|x y (Hn & Hd & K) Hr]; subst. cbn [fst snd] in *.
  pose proof (fstep_keeps_node_ban f p id e ev now B Hn Hd K) as S.
  destruct (fstep f p ev now) as [[f1 p1] o]. destruct S as (B1 & D1 & Dn).
  specialize (IH f1 p1 B1). rewrite D1 in IH. specialize (IH Hr).
  destruct (frun f1 p1 r) as [[f2 p2] os]. cbn [snd all_obs] in *. split; assumption.
Qed.

(* the state right after a limiter rejection satisfies the hypothesis of ban_lasts with
   e = now + ban_duration (or for ever when no duration is configured) *)
Lemma rejection_starts_ip_ban f p ip now r :
  wfp p -> mem ip (permit_ips p) = false -> has_key ip (ban_ips p) = false -> enabled f = true ->
  rate f = Some r -> verdict_ok (snd (rl_allows r now (KIp ip))) = false ->
  let '(f', p', ok) := initial_pass f p ip now in
  ok = false /\ ban_duration f' = ban_duration f /\
  forall e, match ban_duration f with Some d => e <= now + d | None => True end -> ip_banned ip e p'.
Proof.
  intros W H1 H2 H3 H4 H5.
  pose proof (initial_ip_limit_bans f p ip now r H1 H2 H3 H4 H5) as B.
  pose proof (initial_pass_shape f p ip now) as S.
  destruct (initial_pass f p ip now) as [[f' p'] ok].
  destruct B as (B1 & B2 & B3 & B4 & B5). destruct S as (A1 & _ & _ & _ & A5 & A6).
  split; [exact B1|]. split; [exact A1|]. intros e He. split; [|split].
  - apply (wfp_shape p p' ip 0 None (ban_timeout f now) W); [left; exact A5|].
    destruct A6 as [A6|[A6 _]]; [left|right]; exact A6.
  - rewrite B4. exact H1.
  - exists (option_map (fun d => now + d) (ban_duration f)). split; [exact B2|].
    destruct (ban_duration f); cbn; auto.
Qed.

Lemma rejection_starts_node_ban f p ip id now r :
  wfp p -> mem id (permit_nodes p) = false -> has_key id (ban_nodes p) = false -> enabled f = true ->
  rate f = Some r -> verdict_ok (snd (rl_allows r now (KNode id))) = false ->
  let '(f', p', ok) := final_pass f p ip id now in
  ok = false /\ ban_duration f' = ban_duration f /\
  forall e, match ban_duration f with Some d => e <= now + d | None => True end -> node_banned id e p'.
Proof.
  intros W H1 H2 H3 H4 H5.
  pose proof (final_node_limit_bans f p ip id now r H1 H2 H3 H4 H5) as B.
  pose proof (final_pass_shape f p ip id now) as S.
  destruct (final_pass f p ip id now) as [[f' p'] ok].
  destruct B as (B1 & B2). destruct S as (A1 & _ & _ & A4 & A5 & A6).
  split; [exact B1|]. split; [exact A1|]. intros e He. split; [|split].
  - apply (wfp_shape p p' ip id (ban_timeout f now) (ban_timeout f now) W A5 A6).
  - rewrite A4. exact H1.
  - exists (option_map (fun d => now + d) (ban_duration f)). split; [exact B2|].
    destruct (ban_duration f); cbn; auto.
Qed.

(* D3. conforming traffic is never refused *)

(* an unsolicited datagram: arrival time, source IP, what Packet::decode makes of it *)
Definition datagram := (N * N * option (option N))%type.
Definition inbound (ds : list datagram) : list (fevent * N) :=
  map (fun d : datagram => let '(now, ip, dec) := d in (FInbound false ip dec, now)) ds.

(* the calls the filter makes on its three limiters for these datagrams if none is dropped:
   per IP and in total for every datagram whose IP is not permit-listed, per node id for every
   decodable non-WHOAREYOU datagram whose node id is not permit-listed *)
Definition ip_calls (p : pbl) (init : N) (ds : list datagram) : list levent :=
  flat_map (fun d : datagram => let '(now, ip, _) := d in
              if mem ip (permit_ips p) then [] else [LAllows (now - init) ip 1]) ds.
Definition total_calls (p : pbl) (init : N) (ds : list datagram) : list levent :=
  flat_map (fun d : datagram => let '(now, ip, _) := d in
              if mem ip (permit_ips p) then [] else [LAllows (now - init) 0 1]) ds.
Definition node_calls (p : pbl) (init : N) (ds : list datagram) : list levent :=
  flat_map (fun d : datagram => let '(now, _, dec) := d in
              match dec with
              | Some (Some id) => if mem id (permit_nodes p) then [] else [LAllows (now - init) id 1]
              | _ => []
              end) ds.

Definition all_ok (l : limiter) (evs : list levent) : Prop :=
  Forall (fun o => o = None \/ o = Some VOk) (snd (lrun l evs)).
Definition all_ok_opt (ol : option limiter) (evs : list levent) : Prop :=
  match ol with Some l => all_ok l evs | None => True end.

Lemma all_ok_cons l el k n rest :
  all_ok l (LAllows el k n :: rest) ->
  snd (allows l el k n) = VOk /\ all_ok (fst (allows l el k n)) rest.
Proof.
  unfold all_ok. cbn [lrun lstep]. destruct (allows l el k n) as [l1 v]. cbn [fst snd].
  destruct (lrun l1 rest) as [l2 vs]. cbn [fst snd]. intro H. inversion H as [|x y Hx Hy]; subst. split; [|exact Hy].
  destruct Hx as [Hx|Hx]; congruence.
Qed.

Definition passed (o : fobs) : Prop := o = OFate Deliver \/ o = OFate Unrecognized.

Lemma with_rate_same f r : rate f = Some r -> with_rate f (Some r) = f.
Proof. destruct f. cbn. intros ->. reflexivity. Qed.

Lemma rl_allows_ip_ok r now ip rest :
  all_ok_opt (ip_rl r) (LAllows (now - init_time r) ip 1 :: rest) ->
  exists r1, rl_allows r now (KIp ip) = (r1, VOk) /\ init_time r1 = init_time r /\
             total_rl r1 = total_rl r /\ node_rl r1 = node_rl r /\ all_ok_opt (ip_rl r1) rest.
Proof.
  unfold rl_allows. destruct (ip_rl r) as [l|] eqn:E; cbn [all_ok_opt].
  - intro H. destruct (all_ok_cons _ _ _ _ _ H) as [V H'].
    destruct (allows l (now - init_time r) ip 1) as [l' v]. cbn [fst snd] in *. subst v.
    eexists. split; [reflexivity|]. cbn. auto.
  - intros _. exists r. rewrite E. cbn. auto.
Qed.

Lemma rl_allows_node_ok r now id rest :
  all_ok_opt (node_rl r) (LAllows (now - init_time r) id 1 :: rest) ->
  exists r1, rl_allows r now (KNode id) = (r1, VOk) /\ init_time r1 = init_time r /\
             total_rl r1 = total_rl r /\ ip_rl r1 = ip_rl r /\ all_ok_opt (node_rl r1) rest.
Proof.
  unfold rl_allows. destruct (node_rl r) as [l|] eqn:E; cbn [all_ok_opt].
  - intro H. destruct (all_ok_cons _ _ _ _ _ H) as [V H'].
    destruct (allows l (now - init_time r) id 1) as [l' v]. cbn [fst snd] in *. subst v.
    eexists. split; [reflexivity|]. cbn. auto.
  - intros _. exists r. rewrite E. cbn. auto.
Qed.

Lemma rl_allows_total_ok r now rest :
  all_ok (total_rl r) (LAllows (now - init_time r) 0 1 :: rest) ->
  exists r1, rl_allows r now KTotal = (r1, VOk) /\ init_time r1 = init_time r /\
             ip_rl r1 = ip_rl r /\ node_rl r1 = node_rl r /\ all_ok (total_rl r1) rest.
Proof.
  unfold rl_allows. intro H. destruct (all_ok_cons _ _ _ _ _ H) as [V H'].
  destruct (allows (total_rl r) (now - init_time r) 0 1) as [l' v]. cbn [fst snd] in *. subst v.
  eexists. split; [reflexivity|]. cbn. auto.
Qed.

(* one datagram *)
Lemma inbound_conform f p r now ip dec ipr totr noder :
  enabled f = true -> rate f = Some r -> max_nodes_per_ip f = None ->
  has_key ip (ban_ips p) = false ->
  (forall id, dec = Some (Some id) -> has_key id (ban_nodes p) = false) ->
  all_ok_opt (ip_rl r) (ip_calls p (init_time r) [(now, ip, dec)] ++ ipr) ->
  all_ok (total_rl r) (total_calls p (init_time r) [(now, ip, dec)] ++ totr) ->
  all_ok_opt (node_rl r) (node_calls p (init_time r) [(now, ip, dec)] ++ noder) ->
  exists r2 x,
    handle_inbound f p false ip dec now = (with_rate f (Some r2), p, x) /\ passed (OFate x) /\
    init_time r2 = init_time r /\
    all_ok_opt (ip_rl r2) ipr /\ all_ok (total_rl r2) totr /\ all_ok_opt (node_rl r2) noder.
Proof.
  intros En Rt Mn NBip NBnode Hip Htot Hnode.
  cbn [ip_calls total_calls node_calls flat_map] in Hip, Htot, Hnode. rewrite app_nil_r in Hip, Htot, Hnode.
  (* the IP stage *)
  assert (S1 : exists r1,
    initial_pass f p ip now = (with_rate f (Some r1), p, true) /\ init_time r1 = init_time r /\
    node_rl r1 = node_rl r /\ all_ok_opt (ip_rl r1) ipr /\ all_ok (total_rl r1) totr).
  { unfold initial_pass. destruct (mem ip (permit_ips p)).
    - exists r. rewrite (with_rate_same f r Rt). cbn [app] in *. auto.
    - rewrite NBip, En, Rt. cbn [negb app] in *.
      destruct (rl_allows_ip_ok r now ip ipr Hip) as (r1 & -> & I1 & T1 & N1 & Hip1). cbn [verdict_ok negb].
      rewrite <- T1, <- I1 in Htot.
      destruct (rl_allows_total_ok r1 now totr Htot) as (r2 & -> & I2 & P2 & N2 & Htot2). cbn [verdict_ok].
      exists r2. rewrite P2. repeat split; auto; congruence. }
  destruct S1 as (r1 & E1 & I1 & N1 & Hip1 & Htot1).
  unfold handle_inbound. rewrite E1. cbn [negb].
  destruct dec as [[id|]|].
  - (* the node stage *)
    unfold final_pass. destruct (mem id (permit_nodes p)).
    + exists r1, Deliver. cbn [app] in *. rewrite N1. repeat split; auto. left; reflexivity.
    + rewrite (NBnode id eq_refl). cbn [enabled with_rate negb rate app] in *. rewrite En. cbn [negb].
      rewrite <- N1, <- I1 in Hnode.
      destruct (rl_allows_node_ok r1 now id noder Hnode) as (r2 & -> & I2 & T2 & P2 & Hnode2). cbn [verdict_ok].
      cbn [max_nodes_per_ip with_rate]. rewrite Mn.
      exists r2, Deliver. rewrite T2, P2. repeat split; auto; try congruence. left; reflexivity.
  - exists r1, Deliver. cbn [app] in *. rewrite N1. repeat split; auto. left; reflexivity.
  - exists r1, Unrecognized. cbn [app] in *. rewrite N1. repeat split; auto. right; reflexivity.
Qed.

Lemma calls_cons_ip p init d ds : ip_calls p init (d :: ds) = ip_calls p init [d] ++ ip_calls p init ds.
Proof. unfold ip_calls. cbn [flat_map]. rewrite app_nil_r. reflexivity. Qed.
Lemma calls_cons_total p init d ds : total_calls p init (d :: ds) = total_calls p init [d] ++ total_calls p init ds.
Proof. unfold total_calls. cbn [flat_map]. rewrite app_nil_r. reflexivity. Qed.
Lemma calls_cons_node p init d ds : node_calls p init (d :: ds) = node_calls p init [d] ++ node_calls p init ds.
Proof. unfold node_calls. cbn [flat_map]. rewrite app_nil_r. reflexivity. Qed.

(* conforming_never_refused, filter level: if every call the filter makes on its limiters for a
   list of unsolicited datagrams is accepted, no sender is on a ban list and the nodes-per-IP rule is
   off, then no datagram is dropped and the ban lists stay as they are *)
Theorem conforming_passes ds : forall f p r,
  enabled f = true -> rate f = Some r -> max_nodes_per_ip f = None ->
  (forall now ip dec, In (now, ip, dec) ds ->
     has_key ip (ban_ips p) = false /\ forall id, dec = Some (Some id) -> has_key id (ban_nodes p) = false) ->
  all_ok_opt (ip_rl r) (ip_calls p (init_time r) ds) ->
  all_ok (total_rl r) (total_calls p (init_time r) ds) ->
  all_ok_opt (node_rl r) (node_calls p (init_time r) ds) ->
  let '(f', p', os) := frun f p (inbound ds) in p' = p /\ Forall passed os.
Proof.
  induction ds as [|[[now ip] dec] rest IH]; intros f p r En Rt Mn NB Hip Htot Hnode.
  - cbn. split; [reflexivity|constructor].
  - cbn [inbound map frun fstep].
    destruct (NB now ip dec (or_introl eq_refl)) as [NBip NBnode].
    rewrite calls_cons_ip in Hip. rewrite calls_cons_total in Htot. rewrite calls_cons_node in Hnode.
    destruct (inbound_conform f p r now ip dec _ _ _ En Rt Mn NBip NBnode Hip Htot Hnode)
      as (r2 & x & -> & Px & I2 & Hip2 & Htot2 & Hnode2).
    assert (NB' : forall now0 ip0 dec0, In (now0, ip0, dec0) rest ->
              has_key ip0 (ban_ips p) = false /\
              forall id, dec0 = Some (Some id) -> has_key id (ban_nodes p) = false).
    { intros now0 ip0 dec0 Hin. apply (NB now0 ip0 dec0). right. exact Hin. }
    specialize (IH (with_rate f (Some r2)) p r2 En eq_refl Mn NB'). rewrite I2 in IH.
    specialize (IH Hip2 Htot2 Hnode2). fold (inbound rest).
    destruct (frun (with_rate f (Some r2)) p (inbound rest)) as [[f3 p3] os]. destruct IH as [-> Hos].
    split; [reflexivity|]. constructor; assumption.
Qed.

(* ... and "every call is accepted" follows from the reference token buckets *)
Fixpoint mono_dg (cur : N) (ds : list datagram) : Prop :=
  match ds with
  | [] => True
  | (now, _, _) :: r => cur <= now /\ mono_dg now r
  end.

Lemma mono_from_weaken evs a b : a <= b -> mono_from b evs -> mono_from a evs.
Proof. destruct evs as [|e r]; cbn; [auto|]. intros L [H1 H2]. split; [lia|exact H2]. Qed.

Lemma calls_mono (g : datagram -> list levent) init :
  (forall d, g d = [] \/ exists k n, g d = [LAllows (fst (fst d) - init) k n]) ->
  forall ds cur, mono_dg cur ds -> mono_from (cur - init) (flat_map g ds).
Proof.
  intros Hg. induction ds as [|[[now ip] dec] r IH]; intros cur M; cbn [flat_map]; [exact Logic.I|].
  destruct M as [L M]. specialize (IH now M).
  destruct (Hg (now, ip, dec)) as [->|(k & n & ->)]; cbn [app fst].
  - apply mono_from_weaken with (b := now - init); [lia|exact IH].
  - cbn [mono_from levent_time]. split; [lia|exact IH].
Qed.

Lemma calls_before (g : datagram -> list levent) init B :
  (forall d, g d = [] \/ exists k n, g d = [LAllows (fst (fst d) - init) k n]) ->
  forall ds, Forall (fun d : datagram => fst (fst d) <= B) ds -> all_before (B - init) (flat_map g ds).
Proof.
  intros Hg. induction ds as [|d r IH]; intro H; cbn [flat_map]; [constructor|].
  inversion H as [|x y Hd Hr]; subst. unfold all_before. apply Forall_app. split; [|apply IH; exact Hr].
  destruct (Hg d) as [->|(k & n & ->)]; [constructor|]. constructor; [cbn; lia|constructor].
Qed.

(* a limiter of the filter conforms: the reference bucket, related to it at the start, accepts all
   the calls *)
Definition lim_conforms (ol : option limiter) (m : tbmap) (cur B : N) (calls : list levent) : Prop :=
  match ol with
  | Some l => wfl l /\ Rel l m cur /\ B + tau l + tau l < U64 /\ tb_accepts_all (tau l) (tt l) m calls
  | None => True
  end.

Lemma lim_conforms_all_ok ol m cur B calls :
  lim_conforms ol m cur B calls -> mono_from cur calls -> all_before B calls -> all_ok_opt ol calls.
Proof.
  destruct ol as [l|]; cbn; [|auto]. intros (W & HR & Hov & Hall) M Bf.
  exact (conforming_never_refused_limiter l m cur B calls W HR M Bf Hov Hall).
Qed.

Theorem conforming_never_refused ds f p r cur B mi mt mn :
  enabled f = true -> rate f = Some r -> max_nodes_per_ip f = None ->
  (forall now ip dec, In (now, ip, dec) ds ->
     has_key ip (ban_ips p) = false /\ forall id, dec = Some (Some id) -> has_key id (ban_nodes p) = false) ->
  mono_dg cur ds -> Forall (fun d : datagram => fst (fst d) <= B) ds ->
  lim_conforms (ip_rl r) mi (cur - init_time r) (B - init_time r) (ip_calls p (init_time r) ds) ->
  lim_conforms (Some (total_rl r)) mt (cur - init_time r) (B - init_time r) (total_calls p (init_time r) ds) ->
  lim_conforms (node_rl r) mn (cur - init_time r) (B - init_time r) (node_calls p (init_time r) ds) ->
  let '(f', p', os) := frun f p (inbound ds) in p' = p /\ Forall passed os.
Proof.
  intros En Rt Mn NB M Bf Cip Ctot Cnode.
  apply (conforming_passes ds f p r En Rt Mn NB).
  - apply (lim_conforms_all_ok _ _ _ _ _ Cip).
    + apply calls_mono; [|exact M]. intros [[now ip] dec]. cbn. destruct (mem ip (permit_ips p)); eauto.
    + apply calls_before; [|exact Bf]. intros [[now ip] dec]. cbn. destruct (mem ip (permit_ips p)); eauto.
  - apply (lim_conforms_all_ok (Some (total_rl r)) _ _ _ _ Ctot).
    + apply calls_mono; [|exact M]. intros [[now ip] dec]. cbn. destruct (mem ip (permit_ips p)); eauto.
    + apply calls_before; [|exact Bf]. intros [[now ip] dec]. cbn. destruct (mem ip (permit_ips p)); eauto.
  - apply (lim_conforms_all_ok _ _ _ _ _ Cnode).
    + apply calls_mono; [|exact M]. intros [[now ip] dec]. cbn.
      destruct dec as [[id|]|]; [destruct (mem id (permit_nodes p))|..]; eauto.
    + apply calls_before; [|exact Bf]. intros [[now ip] dec]. cbn.
      destruct dec as [[id|]|]; [destruct (mem id (permit_nodes p))|..]; eauto.
Qed.

(* a filter that is switched off, or has no rate limiter, only applies the ban / permit lists *)
Lemma initial_no_limits f p ip now :
  mem ip (permit_ips p) = false -> has_key ip (ban_ips p) = false -> (enabled f = false \/ rate f = None) ->
  initial_pass f p ip now = (f, p, true).
Proof.
  intros H1 H2 H. unfold initial_pass. rewrite H1, H2. destruct (enabled f); cbn [negb]; [|reflexivity].
  destruct H as [H|H]; [discriminate|]. rewrite H. reflexivity.
Qed.

(* ---------------------------------------------------------------------------------------------- *)
(* E. the receive task in front of the filter ([recv_inbound]): which source address is handed to
   the handler, which sources count as solicited, which packets meet the node stage *)

Lemma saddr_eqb_eq a b : saddr_eqb a b = true <-> a = b.
Proof.
  destruct a as [i1 p1 f1 s1], b as [i2 p2 f2 s2]. unfold saddr_eqb. cbn.
  rewrite !andb_true_iff, !N.eqb_eq. split.
  - intros [[[-> ->] ->] ->]. reflexivity.
  - intro H. injection H as -> -> -> ->. auto.
Qed.

(* the documented normalisation: IP and port are kept, flowinfo and scope id are zero afterwards *)
Lemma normalise_src_spec a :
  normalise_src a = {| sa_ip := sa_ip a; sa_port := sa_port a; sa_flow := 0; sa_scope := 0 |}.
Proof.
  unfold normalise_src. destruct a as [i p f s]. cbn.
  destruct (f =? 0) eqn:F; destruct (s =? 0) eqn:S; cbn; try reflexivity.
  apply N.eqb_eq in F, S. subst. reflexivity.
Qed.

Lemma normalise_src_fixed a : sa_flow a = 0 -> sa_scope a = 0 -> normalise_src a = a.
Proof. intros F S. rewrite normalise_src_spec. destruct a; cbn in *; subst; reflexivity. Qed.

Lemma normalise_src_idem a : normalise_src (normalise_src a) = normalise_src a.
Proof. rewrite !normalise_src_spec. reflexivity. Qed.

(* The source address handed to the handler (and used for the exemption lookup and the filter) is
   the datagram's source address with flowinfo and scope id zeroed - whether one or both of them were
   set - and nothing else changed: same IP (an IPv4-mapped IPv6 address stays what it is), same port. *)
Theorem inbound_forwards_normalised_source f p expected src packet now :
  let fwd := snd (recv_inbound f p expected src packet now) in
  fwd = normalise_src src /\
  sa_ip fwd = sa_ip src /\ sa_port fwd = sa_port src /\ sa_flow fwd = 0 /\ sa_scope fwd = 0.
Proof.
  unfold recv_inbound.
  destruct (handle_inbound f p (is_exempt expected (normalise_src src)) (sa_ip (normalise_src src))
              (option_map packet_src_id packet) now) as [[f' p'] x].
  cbn [snd]. rewrite normalise_src_spec. cbn. auto.
Qed.

Corollary inbound_source_already_normal f p expected src packet now :
  sa_flow src = 0 -> sa_scope src = 0 -> snd (recv_inbound f p expected src packet now) = src.
Proof.
  intros F S. destruct (inbound_forwards_normalised_source f p expected src packet now) as [H _].
  cbv zeta in H. rewrite H. apply normalise_src_fixed; assumption.
Qed.

(* A datagram is solicited only if expected_responses holds exactly its (normalised) socket
   address: entries that differ from the source in the IP or in the port exempt nothing. *)
Theorem exemption_is_per_socket_address f p expected src packet now :
  (forall e, In e expected -> sa_ip e <> sa_ip src \/ sa_port e <> sa_port src) ->
  recv_inbound f p expected src packet now = recv_inbound f p [] src packet now.
Proof.
  intro H. unfold recv_inbound.
  assert (E : is_exempt expected (normalise_src src) = false).
  { unfold is_exempt. apply not_true_is_false. intro T. apply existsb_exists in T.
    destruct T as (e & I & Q). apply saddr_eqb_eq in Q. rewrite normalise_src_spec in Q.
    destruct (H e I) as [D|D]; apply D; rewrite <- Q; reflexivity. }
  rewrite E. reflexivity.
Qed.

Lemma is_exempt_in expected a : is_exempt expected a = true <-> In a expected.
Proof.
  unfold is_exempt. rewrite existsb_exists. split.
  - intros (e & I & Q). apply saddr_eqb_eq in Q. subst. exact I.
  - intro I. exists a. split; [exact I|apply saddr_eqb_eq; reflexivity].
Qed.

(* ... and a datagram from an address in expected_responses bypasses both passes *)
Theorem exempted_source_bypasses_filter f p expected src packet now :
  In (normalise_src src) expected ->
  recv_inbound f p expected src packet now =
  (f, p, match packet with None => Unrecognized | Some _ => Deliver end, normalise_src src).
Proof.
  intro I. unfold recv_inbound. apply is_exempt_in in I. rewrite I, handle_inbound_exempt.
  destruct packet; reflexivity.
Qed.

(* an unsolicited datagram from a banned IP is dropped, whatever else is awaited from other ports
   or other addresses *)
Corollary unsolicited_banned_ip_dropped f p expected src packet now :
  (forall e, In e expected -> sa_ip e <> sa_ip src \/ sa_port e <> sa_port src) ->
  mem (sa_ip src) (permit_ips p) = false -> has_key (sa_ip src) (ban_ips p) = true ->
  recv_inbound f p expected src packet now = (f, p, DropIpStage, normalise_src src).
Proof.
  intros H M B. rewrite (exemption_is_per_socket_address f p expected src packet now H).
  unfold recv_inbound. cbn [is_exempt existsb]. unfold handle_inbound.
  replace (sa_ip (normalise_src src)) with (sa_ip src) by (rewrite normalise_src_spec; reflexivity).
  rewrite (initial_banned f p (sa_ip src) now M B). reflexivity.
Qed.

(* handshake packets carry a source id like message packets and are treated alike: they meet the
   node stage (ban / permit list of node ids, per-node quota) *)
Theorem handshake_packets_pass_node_stage f p expected src id now :
  recv_inbound f p expected src (Some (PHandshake id)) now =
  recv_inbound f p expected src (Some (PMessage id)) now.
Proof. reflexivity. Qed.

Corollary unsolicited_packet_from_banned_node_dropped f p expected src k id now :
  packet_src_id k = Some id ->
  is_exempt expected (normalise_src src) = false ->
  mem id (permit_nodes p) = false -> has_key id (ban_nodes p) = true ->
  let x := snd (fst (recv_inbound f p expected src (Some k) now)) in
  x = DropIpStage \/ x = DropNodeStage.
Proof.
  intros K E M B. unfold recv_inbound. rewrite E. cbn [option_map]. rewrite K.
  set (ip := sa_ip (normalise_src src)).
  unfold handle_inbound. pose proof (initial_pass_shape f p ip now) as S.
  destruct (initial_pass f p ip now) as [[f1 p1] ok1]. destruct S as (_ & _ & _ & Pn & Bnn & _).
  destruct ok1; cbn [negb]; [|left; reflexivity].
  rewrite (final_banned f1 p1 ip id now); [right; reflexivity|congruence|congruence].
Qed.

(* Every decodable packet reaches the handler when neither a ban nor a quota applies - whatever its
   kind and its source id (the local node's own id is an id like any other; the body is not looked
   at): with the filter switched off only the two ban lists can stop it. *)
Theorem unfiltered_packet_is_delivered f p expected src k now :
  enabled f = false ->
  has_key (sa_ip src) (ban_ips p) = false ->
  (forall id, packet_src_id k = Some id -> has_key id (ban_nodes p) = false) ->
  recv_inbound f p expected src (Some k) now = (f, p, Deliver, normalise_src src).
Proof.
  intros En Bi Bn. unfold recv_inbound.
  destruct (is_exempt expected (normalise_src src)).
  - rewrite handle_inbound_exempt. reflexivity.
  - unfold handle_inbound. cbv beta iota.
    replace (sa_ip (normalise_src src)) with (sa_ip src) by (rewrite normalise_src_spec; reflexivity).
    assert (I : initial_pass f p (sa_ip src) now = (f, p, true)).
    { unfold initial_pass. destruct (mem (sa_ip src) (permit_ips p)); [reflexivity|].
      rewrite Bi, En. reflexivity. }
    rewrite I. cbn [negb option_map].
    destruct (packet_src_id k) as [id|] eqn:K; [|reflexivity].
    assert (F : final_pass f p (sa_ip src) id now = (f, p, true)).
    { unfold final_pass. destruct (mem id (permit_nodes p)); [reflexivity|].
      rewrite (Bn id eq_refl), En. reflexivity. }
    rewrite F. reflexivity.
Qed.
