(* Proofs about the packet-filter model Model/Limiter.v (C18).

   A. the per-key GCRA core: case analysis, the reference token bucket, gcra_is_token_bucket;
   B. association lists and the lifting to Limiter (allows / prune touch one key / drop full keys);
   C. histories of one limiter: window_bound, token-bucket refinement of whole histories,
      conforming_never_refused (limiter level), prune_transparent;
   D. the filter: ban/permit decision table, bans last, conforming traffic is never refused. *)
From Coq Require Import List NArith Bool Lia.
From Discv5V Require Import Generated.Params Model.Limiter.
Import ListNotations.
Local Open Scope N_scope.

(* ---------------------------------------------------------------------------------------------- *)
(* A. per-key core *)

(* The effective TAT at time [now]: an absent entry, and an entry whose TAT is in the past, both
   mean "bucket full" and behave like TAT = now. *)
Definition eff (o : option N) (now : N) : N :=
  match o with Some tat => N.max now tat | None => now end.

Lemma eff_ge o now : now <= eff o now.
Proof. destruct o; cbn; lia. Qed.

Lemma eff_mono o a b : a <= b -> eff o a <= eff o b.
Proof. destruct o; cbn; lia. Qed.

(* the stored TAT never runs ahead of the clock by more than tau *)
Definition inv_k (tau_ : N) (o : option N) (cur : N) : Prop :=
  match o with Some tat => tat <= cur + tau_ | None => True end.

Lemma inv_k_eff tau_ o cur now : inv_k tau_ o cur -> cur <= now -> eff o now <= now + tau_.
Proof. destruct o; cbn; lia. Qed.

(* Case analysis of one call when nothing overflows: accepted iff eff + cost <= now + tau. *)
Lemma gcra_cases tau_ t_ o now n :
  t_ * n <= tau_ -> eff o now + tau_ < U64 ->
  (eff o now + t_ * n <= now + tau_ /\ gcra tau_ t_ o now n = (Some (eff o now + t_ * n), VOk))
  \/
  (now + tau_ < eff o now + t_ * n /\
   exists tat, o = Some tat /\ now < tat /\
               gcra tau_ t_ o now n = (Some tat, VTooSoon (tat + t_ * n - tau_ - now))).
Proof.
  intros Ha Hov. unfold gcra. set (a := t_ * n) in *.
  pose proof (eff_ge o now) as Hge.
  assert (E1 : U64 <=? a = false) by (apply N.leb_gt; lia). rewrite E1.
  assert (E2 : tau_ <? a = false) by (apply N.ltb_ge; lia). rewrite E2.
  destruct o as [tat|]; cbn [eff] in *.
  - assert (E3 : U64 <=? tat + a = false) by (apply N.leb_gt; lia). rewrite E3.
    destruct (now <? tat + a - tau_) eqn:E4.
    + apply N.ltb_lt in E4. right. split; [lia|]. exists tat. split; [reflexivity|]. split; [lia|]. reflexivity.
    + apply N.ltb_ge in E4. left. split; [lia|].
      assert (E5 : U64 <=? N.max now tat + a = false) by (apply N.leb_gt; lia). rewrite E5. reflexivity.
  - assert (E3 : U64 <=? now + a = false) by (apply N.leb_gt; lia). rewrite E3.
    assert (E4 : now <? now + a - tau_ = false) by (apply N.ltb_ge; lia). rewrite E4.
    left. split; [lia|].
    assert (E5 : U64 <=? N.max now now + a = false) by (apply N.leb_gt; lia). rewrite E5.
    rewrite N.max_id. reflexivity.
Qed.

(* a batch that can never fit (or whose cost does not even fit in 64 bits) changes nothing *)
Lemma gcra_too_large tau_ t_ o now n :
  tau_ < t_ * n -> fst (gcra tau_ t_ o now n) = o /\ verdict_ok (snd (gcra tau_ t_ o now n)) = false.
Proof.
  intro H. unfold gcra. destruct (U64 <=? t_ * n); [split; reflexivity|].
  apply N.ltb_lt in H. rewrite H. split; reflexivity.
Qed.

(* -- the reference: a token bucket holding at most tau_ nanoseconds of credit, gaining one
      nanosecond of credit per nanosecond; a batch of n tokens costs n * t_ -- *)
Record bucket := { level : N; stamp : N }.
Definition level_at (tau_ : N) (b : bucket) (now : N) : N := N.min tau_ (level b + (now - stamp b)).
Definition tb_take (tau_ : N) (b : bucket) (now cost : N) : bucket * bool :=
  let l := level_at tau_ b now in
  if cost <=? l then ({| level := l - cost; stamp := now |}, true) else (b, false).
Definition tb_full (tau_ : N) : bucket := {| level := tau_; stamp := 0 |}.

(* GCRA entry o and bucket b describe the same credit from time cur on *)
Definition R (tau_ cur : N) (o : option N) (b : bucket) : Prop :=
  stamp b <= cur /\ forall now, cur <= now -> level_at tau_ b now + eff o now = now + tau_.

Lemma R_full tau_ cur : R tau_ cur None (tb_full tau_).
Proof. split; [cbn; lia|]. intros now _. unfold level_at, tb_full. cbn. lia. Qed.

Lemma R_later tau_ cur cur' o b : R tau_ cur o b -> cur <= cur' -> R tau_ cur' o b.
Proof. intros [S H] L. split; [lia|]. intros now Hn. apply H. lia. Qed.

(* gcra_is_token_bucket, one call: the GCRA accepts iff the bucket holds the cost, and the two
   states stay related *)
Lemma gcra_is_token_bucket_step tau_ t_ cur o b now n :
  R tau_ cur o b -> cur <= now -> t_ * n <= tau_ -> now + tau_ + tau_ < U64 ->
  let (o', v) := gcra tau_ t_ o now n in
  let (b', ok) := tb_take tau_ b now (t_ * n) in
  verdict_ok v = ok /\ R tau_ now o' b'.
Proof.
  intros [S H] L Ha Hov. pose proof (H now L) as Hn. pose proof (eff_ge o now) as Hge.
  assert (He : eff o now <= now + tau_) by (unfold level_at in Hn; lia).
  destruct (gcra_cases tau_ t_ o now n Ha ltac:(lia)) as [[Hacc ->]|[Hrej (tat & -> & Ht & ->)]];
    unfold tb_take.
  - assert (E : t_ * n <=? level_at tau_ b now = true) by (apply N.leb_le; lia). rewrite E.
    split; [reflexivity|]. split; [cbn; lia|]. intros now' L'.
    unfold level_at in *. cbn [level stamp eff] in *. lia.
  - assert (E : t_ * n <=? level_at tau_ b now = false) by (apply N.leb_gt; cbn [eff] in *; lia). rewrite E.
    split; [reflexivity|]. split; [lia|]. intros now' L'. apply H. lia.
Qed.

(* a batch that cannot fit is refused by both *)
Lemma gcra_is_token_bucket_large tau_ t_ cur o b now n :
  R tau_ cur o b -> cur <= now -> tau_ < t_ * n ->
  let (o', v) := gcra tau_ t_ o now n in
  let (b', ok) := tb_take tau_ b now (t_ * n) in
  verdict_ok v = ok /\ R tau_ now o' b'.
Proof.
  intros HR L Ha. destruct (gcra_too_large tau_ t_ o now n Ha) as [E1 E2].
  destruct (gcra tau_ t_ o now n) as [o' v]. cbn [fst snd] in *. subst o'.
  unfold tb_take. assert (E : t_ * n <=? level_at tau_ b now = false).
  { apply N.leb_gt. unfold level_at. lia. }
  rewrite E. split; [exact E2|]. eapply R_later; eauto.
Qed.

(* pruning: an entry whose TAT is in the past is equivalent to no entry *)
Lemma R_prune tau_ cur o b lim :
  R tau_ cur o b -> cur <= lim ->
  R tau_ lim (match o with Some tat => if lim <=? tat then Some tat else None | None => None end) b.
Proof.
  intros [S H] L. split; [lia|]. intros now Hn. rewrite <- (H now ltac:(lia)). f_equal.
  destruct o as [tat|]; [|reflexivity]. destruct (lim <=? tat) eqn:E; [reflexivity|].
  apply N.leb_gt in E. cbn. lia.
Qed.

(* ---------------------------------------------------------------------------------------------- *)
(* B. association lists; Limiter *)

Lemma lookup_set_same {A} k (x : A) l : lookup k (set k x l) = Some x.
Proof.
  induction l as [|[k' y] r IH]; cbn [set lookup]; [rewrite N.eqb_refl; reflexivity|].
  destruct (k' =? k) eqn:E; cbn [lookup]; [rewrite N.eqb_refl; reflexivity|]. rewrite E. exact IH.
Qed.

Lemma lookup_set_other {A} k k' (x : A) l : k' <> k -> lookup k' (set k x l) = lookup k' l.
Proof.
  intro H. induction l as [|[k0 y] r IH]; cbn [set lookup].
  - destruct (N.eqb_spec k k'); [congruence|reflexivity].
  - destruct (N.eqb_spec k0 k) as [->|E]; cbn [lookup].
    + destruct (N.eqb_spec k k'); [congruence|reflexivity].
    + destruct (k0 =? k'); [reflexivity|exact IH].
Qed.

Lemma keys_set {A} k (x : A) l k' : In k' (map fst (set k x l)) <-> k' = k \/ In k' (map fst l).
Proof.
  induction l as [|[k0 y] r IH]; cbn [set map fst In]; [intuition|].
  destruct (N.eqb_spec k0 k) as [->|E]; cbn [map fst In]; [intuition|]. rewrite IH. intuition.
Qed.

Lemma nodup_set {A} k (x : A) l : NoDup (map fst l) -> NoDup (map fst (set k x l)).
Proof.
  induction l as [|[k0 y] r IH]; cbn [set map fst]; intro H.
  - constructor; [intros []|constructor].
  - inversion H as [|a b NI ND]; subst. destruct (N.eqb_spec k0 k) as [->|E]; cbn [map fst].
    + constructor; assumption.
    + constructor; [|apply IH; exact ND]. rewrite keys_set. intros [->|Hi]; [congruence|tauto].
Qed.

Lemma lookup_none_notin {A} k (l : list (N * A)) : ~ In k (map fst l) -> lookup k l = None.
Proof.
  induction l as [|[k0 y] r IH]; cbn [lookup map fst In]; [reflexivity|]. intro H.
  destruct (N.eqb_spec k0 k) as [->|E]; [tauto|]. apply IH. tauto.
Qed.

Lemma lookup_filter {A} (p : N * A -> bool) k l :
  NoDup (map fst l) ->
  lookup k (List.filter p l) =
  match lookup k l with Some x => if p (k, x) then Some x else None | None => None end.
Proof.
  induction l as [|[k0 y] r IH]; cbn [List.filter lookup map fst]; [reflexivity|]. intro H.
  inversion H as [|a b NI ND]; subst. destruct (N.eqb_spec k0 k) as [->|E].
  - destruct (p (k, y)); cbn [lookup]; [rewrite N.eqb_refl; reflexivity|].
    apply lookup_none_notin. intro Hi. apply NI. apply in_map_iff in Hi.
    destruct Hi as (e & He & Hin). apply filter_In in Hin. rewrite <- He. apply in_map. tauto.
  - destruct (p (k0, y)); cbn [lookup]; [destruct (N.eqb_spec k0 k); [congruence|]|]; apply IH; exact ND.
Qed.

Lemma nodup_filter_keys {A} (p : N * A -> bool) l : NoDup (map fst l) -> NoDup (map fst (List.filter p l)).
Proof.
  induction l as [|[k0 y] r IH]; cbn [List.filter map fst]; intro H; [constructor|].
  inversion H as [|a b NI ND]; subst. destruct (p (k0, y)); cbn [map fst]; [|auto].
  constructor; [|auto]. intro Hi. apply NI. apply in_map_iff in Hi.
  destruct Hi as (e & He & Hin). apply filter_In in Hin. rewrite <- He. apply in_map. tauto.
Qed.

Definition wfl (l : limiter) : Prop := NoDup (map fst (tats l)).
(* every stored TAT is at most tau ahead of the clock *)
Definition linv (l : limiter) (cur : N) : Prop :=
  forall k, inv_k (tau l) (lookup k (tats l)) cur.

Lemma gcra_none tau_ t_ o now n : fst (gcra tau_ t_ o now n) = None -> o = None.
Proof.
  unfold gcra. destruct (U64 <=? t_ * n); [auto|]. destruct (tau_ <? t_ * n); [auto|].
  destruct (U64 <=? _); [discriminate|]. destruct (now <? _); [discriminate|].
  destruct (U64 <=? _); discriminate.
Qed.

Lemma allows_params l el k n : tau (fst (allows l el k n)) = tau l /\ tt (fst (allows l el k n)) = tt l.
Proof. unfold allows. destruct (gcra _ _ _ _ _). split; reflexivity. Qed.

Lemma allows_wfl l el k n : wfl l -> wfl (fst (allows l el k n)).
Proof.
  unfold wfl, allows. intro H. destruct (gcra _ _ _ _ _) as [[x|] v]; cbn [fst tats]; [apply nodup_set|]; exact H.
Qed.

Lemma allows_other l el k n k' :
  k' <> k -> lookup k' (tats (fst (allows l el k n))) = lookup k' (tats l).
Proof.
  intro H. unfold allows. destruct (gcra _ _ _ _ _) as [[x|] v]; cbn [fst tats]; [|reflexivity].
  apply lookup_set_other. exact H.
Qed.

Lemma allows_same l el k n :
  el < U64 ->
  lookup k (tats (fst (allows l el k n))) = fst (gcra (tau l) (tt l) (lookup k (tats l)) el n) /\
  snd (allows l el k n) = snd (gcra (tau l) (tt l) (lookup k (tats l)) el n).
Proof.
  intro H. unfold allows. rewrite (N.mod_small _ _ H).
  destruct (gcra (tau l) (tt l) (lookup k (tats l)) el n) as [[x|] v] eqn:G; cbn [fst snd tats].
  - split; [apply lookup_set_same|reflexivity].
  - split; [|reflexivity]. apply gcra_none with (tau_ := tau l) (t_ := tt l) (now := el) (n := n). rewrite G. reflexivity.
Qed.

Lemma prune_params l el : tau (prune l el) = tau l /\ tt (prune l el) = tt l.
Proof. split; reflexivity. Qed.

Lemma prune_wfl l el : wfl l -> wfl (prune l el).
Proof. unfold wfl, prune. cbn [tats]. apply nodup_filter_keys. Qed.

Lemma prune_lookup l el k :
  wfl l -> el < U64 ->
  lookup k (tats (prune l el)) =
  match lookup k (tats l) with Some tat => if el <=? tat then Some tat else None | None => None end.
Proof.
  intros W H. unfold prune. cbn [tats]. rewrite (N.mod_small _ _ H).
  rewrite (lookup_filter (fun e => el <=? snd e) k (tats l) W). reflexivity.
Qed.

(* what one call does, when nothing can overflow *)
Lemma allows_facts l cur el k n :
  wfl l -> linv l cur -> cur <= el -> el + tau l + tau l < U64 ->
  let l1 := fst (allows l el k n) in
  let v := snd (allows l el k n) in
  let o := lookup k (tats l) in
  linv l1 el /\
  (verdict_ok v = true ->
     lookup k (tats l1) = Some (eff o el + tt l * n) /\ eff o el + tt l * n <= el + tau l) /\
  (verdict_ok v = false -> lookup k (tats l1) = o).
Proof.
  intros W I L Hov. cbv zeta.
  assert (Hel : el < U64) by lia.
  destruct (allows_same l el k n Hel) as [Es Ev]. rewrite Ev.
  destruct (allows_params l el k n) as [Pt _].
  pose proof (inv_k_eff _ _ _ el (I k) L) as He.
  assert (Hcore :
    (verdict_ok (snd (gcra (tau l) (tt l) (lookup k (tats l)) el n)) = true ->
       fst (gcra (tau l) (tt l) (lookup k (tats l)) el n) = Some (eff (lookup k (tats l)) el + tt l * n) /\
       eff (lookup k (tats l)) el + tt l * n <= el + tau l) /\
    (verdict_ok (snd (gcra (tau l) (tt l) (lookup k (tats l)) el n)) = false ->
       fst (gcra (tau l) (tt l) (lookup k (tats l)) el n) = lookup k (tats l))).
  { destruct (N.le_gt_cases (tt l * n) (tau l)) as [Ha|Ha].
    - destruct (gcra_cases (tau l) (tt l) (lookup k (tats l)) el n Ha ltac:(lia))
        as [[Hacc ->]|[Hrej (tat & Eo & Ht & ->)]]; cbn [fst snd verdict_ok].
      + split; [intros _; split; [reflexivity|exact Hacc]|discriminate].
      + split; [discriminate|intros _; symmetry; exact Eo].
    - destruct (gcra_too_large (tau l) (tt l) (lookup k (tats l)) el n ltac:(lia)) as [E1 E2].
      rewrite E2. split; [discriminate|intros _; exact E1]. }
  destruct Hcore as [Hok Hno]. split; [|split].
  - intro k'. rewrite Pt. destruct (N.eq_dec k' k) as [->|NE].
    + rewrite Es. destruct (verdict_ok (snd (gcra (tau l) (tt l) (lookup k (tats l)) el n))) eqn:V.
      * destruct (Hok eq_refl) as [-> Hle]. cbn. exact Hle.
      * rewrite (Hno eq_refl). specialize (I k). destruct (lookup k (tats l)); cbn in *; lia.
    + rewrite (allows_other l el k n k' NE). specialize (I k'). destruct (lookup k' (tats l)); cbn in *; lia.
  - intro V. rewrite Es. exact (Hok V).
  - intro V. rewrite Es. exact (Hno V).
Qed.

Lemma prune_linv l cur el : wfl l -> linv l cur -> cur <= el -> el < U64 -> linv (prune l el) el.
Proof.
  intros W I L H k. rewrite (prune_lookup l el k W H). cbn [tau prune]. specialize (I k).
  destruct (lookup k (tats l)) as [tat|]; [|exact Logic.I]. destruct (el <=? tat); cbn in *; [lia|exact Logic.I].
Qed.

Lemma prune_eff l el k : wfl l -> el < U64 -> eff (lookup k (tats (prune l el))) el = eff (lookup k (tats l)) el.
Proof.
  intros W H. rewrite (prune_lookup l el k W H). destruct (lookup k (tats l)) as [tat|]; [|reflexivity].
  destruct (el <=? tat) eqn:E; [reflexivity|]. apply N.leb_gt in E. cbn. lia.
Qed.
