(* C19, trace level, handshake packets included: "under one session key a node never encrypts two
   different messages with the same 12-byte nonce" for ALL datagrams that carry a ciphertext - message
   packets (PMsg, nonce = (counter, 8 random bytes)) and handshake packets (PHs, whose message is
   encrypted under the NEW initiator key with a raw random 12-byte nonce (cn, rr) drawn by
   Packet::new_authheader).  Proofs/HandlerB_Trace*.v prove the message-packet half ([NoReuse], invariant
   [J]); this file adds the handshake half with a second invariant [K] next to J:

   - a handshake packet is created only by handle_challenge, under the initiator key ke of the session
     that very call installs; [fresh_installs] says ke has never been installed before, so no earlier
     datagram is under ke (J: every message ciphertext is under an installed key; K: so is every
     handshake ciphertext) - two handshake packets under one key are therefore the same packet, sent
     again by the request timer (the stored packet, byte-identical);
   - later message packets under ke carry nonces (counter, r) with r drawn LATER than rr.  That
     (cn, rr) <> (counter, r) is a statement about the random number generator and the explicit
     hypothesis [fresh_hs_nonces]: the 8 random bytes rr of a handshake nonce are not drawn again
     later in the run.  Nothing is assumed about the random bytes of the message nonces (they may
     repeat: the counter separates them), nor about the four bytes cn;
   - [draws_suffice] (Proofs/HandlerA_Wire4.v): no step exhausts the draws it is given - the model's
     oracle returns zeros when its list is empty, which is not a behaviour of rand.

   Ghost state as in HandlerB_Trace.v (history H, installed keys G) plus P = the random nonce parts
   still to be drawn (rest of this step's draws ++ draws of the later steps). *)
From Coq Require Import List Arith NArith Bool Lia.
From Discv5V Require Import Model.Handler Proofs.HandlerA_Wire4.
From Discv5V Require Import Proofs.HandlerB_Base Proofs.HandlerB_Frame Proofs.HandlerB_Session
  Proofs.HandlerB_Auth Proofs.HandlerB_Step Proofs.HandlerB_Nonce Proofs.HandlerB_Trace Proofs.HandlerB_Trace2
  Proofs.HandlerB_Trace3.
Import ListNotations.
Local Open Scope N_scope.

(* ------------------------------------------------------------------------------------------ *)
(* datagrams that carry a ciphertext *)

Definition is_hpkt (p : packet) : Prop :=
  match p with PHs _ _ _ _ _ _ _ (CEnc _ _ _ _) => True | _ => False end.
Definition hpkt_of (o : output) : option (key * nonce * packet) :=
  match o with
  | OWire _ (PHs s n a sg e ok rc (CEnc k n' m a')) => Some (k, n', PHs s n a sg e ok rc (CEnc k n' m a'))
  | _ => None
  end.
(* message packet or handshake packet: (key, nonce of the ciphertext, the packet) *)
Definition apkt_of (o : output) : option (key * nonce * packet) :=
  match o with
  | OWire _ (PMsg s n a (CEnc k n' m a')) => Some (k, n', PMsg s n a (CEnc k n' m a'))
  | OWire _ (PHs s n a sg e ok rc (CEnc k n' m a')) => Some (k, n', PHs s n a sg e ok rc (CEnc k n' m a'))
  | _ => None
  end.

(* the property: two datagrams of either form whose ciphertexts are under the same key and the same
   nonce are the same packet (a byte-identical retransmission) *)
Definition NoReuseAll (H : list output) : Prop :=
  forall o1 o2 k n p1 p2, In o1 H -> In o2 H ->
    apkt_of o1 = Some (k, n, p1) -> apkt_of o2 = Some (k, n, p2) -> p1 = p2.

Lemma apkt_of_cases o x : apkt_of o = Some x -> cpkt_of o = Some x \/ hpkt_of o = Some x.
Proof.
  destruct o as [e | d [s n a [k n' m a' | j] | | s n a sg e ok rc [k n' m a' | j]]]; cbn; try discriminate; auto.
Qed.
Lemma hpkt_of_Some o k n p : hpkt_of o = Some (k, n, p) -> exists d, o = OWire d p /\ is_hpkt p.
Proof.
  destruct o as [e | d [s n0 a c | | s n0 a sg e ok rc [k0 n' m a' | j]]]; cbn; try discriminate.
  intros H; inversion H; subst. exists d. split; [reflexivity | exact I].
Qed.
Lemma hpkt_of_same d d' p : hpkt_of (OWire d p) = hpkt_of (OWire d' p).
Proof. destruct p as [s n a c | | s n a sg e ok rc [k n' m a' | j]]; reflexivity. Qed.
Lemma hpkt_of_not d p : ~ is_hpkt p -> hpkt_of (OWire d p) = None.
Proof.
  destruct p as [s n a c | | s n a sg e ok rc [k n' m a' | j]]; cbn; try reflexivity.
  intros H; exfalso; apply H; exact I.
Qed.
Lemma hpkt_of_wire d p : is_hpkt p -> exists k n, hpkt_of (OWire d p) = Some (k, n, p).
Proof. destruct p as [s n a c | | s n a sg e ok rc [k n' m a' | j]]; cbn; try contradiction. eauto. Qed.
Lemma cpkt_hpkt o x y : cpkt_of o = Some x -> hpkt_of o = Some y -> False.
Proof.
  destruct o as [e | d [s n a [k n' m a' | j] | | s n a sg e ok rc c]]; cbn; discriminate.
Qed.

(* a stored request whose packet is a handshake packet: the packet has been sent *)
Definition HP (H : list output) (r : rcall) : Prop := is_hpkt (rc_pkt r) -> InH H (rc_pkt r).
Lemma HP_app H X r : HP H r -> HP (H ++ X) r.
Proof. intros Hr Hc. apply InH_app. auto. Qed.
Lemma HP_msg H r : ~ is_hpkt (rc_pkt r) -> HP H r.
Proof. intros Hn Hc. contradiction. Qed.

(* ------------------------------------------------------------------------------------------ *)
(* the invariant.  P: the random nonce parts still to be drawn *)

Record K (H : list output) (G : list key) (P : list N) (h : hstate) : Prop := {
  (* the key of a handshake ciphertext has been installed *)
  K_G : forall o k n p, In o H -> hpkt_of o = Some (k, n, p) -> In k G;
  (* two handshake packets under one key are the same packet *)
  K_D : forall o1 o2 k n1 n2 p1 p2, In o1 H -> In o2 H ->
        hpkt_of o1 = Some (k, n1, p1) -> hpkt_of o2 = Some (k, n2, p2) -> p1 = p2;
  (* the random part of a handshake nonce will not be drawn again *)
  K_P : forall o k cn rr p, In o H -> hpkt_of o = Some (k, (cn, rr), p) -> ~ In rr P;
  (* no handshake ciphertext shares key and nonce with a message ciphertext *)
  K_X : forall o1 o2 k n p1 p2, In o1 H -> In o2 H ->
        hpkt_of o1 = Some (k, n, p1) -> cpkt_of o2 = Some (k, n, p2) -> False;
  K_B : forall na l r, In (na, l) (active h) -> In r l -> HP H r
}.

Lemma K_init G P : K [] G P init_state.
Proof. split; intros; contradiction. Qed.

Definition ActSubH (H : list output) (h h' : hstate) : Prop :=
  forall na l r, In (na, l) (active h') -> In r l ->
    (exists na0 l0, In (na0, l0) (active h) /\ In r l0) \/ HP H r.
Lemma ActSubH_same H h h' : active h' = active h -> ActSubH H h h'.
Proof. intros E na l r H1 H2. rewrite E in H1. left; eauto. Qed.
Lemma ActSubH_trans H a b d : ActSubH H a b -> ActSubH H b d -> ActSubH H a d.
Proof.
  intros H1 H2 na l r Hin Hr. destruct (H2 _ _ _ Hin Hr) as [[na0 [l0 [H3 H4]]] | H3]; [| right; exact H3].
  exact (H1 _ _ _ H3 H4).
Qed.

Lemma K_state H G P h h' : K H G P h -> ActSubH H h h' -> K H G P h'.
Proof.
  intros [KG KD KP KX KB] HA. split; auto.
  intros na l r Hin Hr. destruct (HA _ _ _ Hin Hr) as [[na0 [l0 [H1 H2]]] | H1]; [exact (KB _ _ _ H1 H2) | exact H1].
Qed.
Lemma K_pool H G P P' h : K H G P h -> incl P' P -> K H G P' h.
Proof.
  intros [KG KD KP KX KB] Hi. split; auto.
  intros o k cn rr p Ho E Hin. exact (KP _ _ _ _ _ Ho E (Hi _ Hin)).
Qed.
Lemma K_mono_G H G G' P h : K H G P h -> incl G G' -> K H G' P h.
Proof. intros [KG KD KP KX KB] Hi. split; auto. intros o k n p Ho E. apply Hi. eauto. Qed.

(* an output that carries no ciphertext *)
Lemma K_emit_none H G P h o : K H G P h -> cpkt_of o = None -> hpkt_of o = None -> K (H ++ [o]) G P h.
Proof.
  intros [KG KD KP KX KB] Hc Hh.
  assert (Hold : forall o', In o' (H ++ [o]) -> (exists x, hpkt_of o' = Some x) \/ (exists x, cpkt_of o' = Some x) -> In o' H).
  { intros o' Hin Hx. apply in_app_or in Hin. destruct Hin as [Hin | [Hin | []]]; [exact Hin |].
    subst o'. destruct Hx as [[x Hx] | [x Hx]]; congruence. }
  split.
  - intros o' k n p Ho E. apply (KG o' k n p); [apply Hold; [exact Ho | left; eauto] | exact E].
  - intros o1 o2 k n1 n2 p1 p2 H1 H2 E1 E2.
    apply (KD o1 o2 k n1 n2 p1 p2); [apply Hold; [exact H1 | left; eauto] | apply Hold; [exact H2 | left; eauto] | exact E1 | exact E2].
  - intros o' k cn rr p Ho E. apply (KP o' k cn rr p); [apply Hold; [exact Ho | left; eauto] | exact E].
  - intros o1 o2 k n p1 p2 H1 H2 E1 E2.
    apply (KX o1 o2 k n p1 p2); [apply Hold; [exact H1 | left; eauto] | apply Hold; [exact H2 | right; eauto] | exact E1 | exact E2].
  - intros na l r Hin Hr. apply HP_app. eauto.
Qed.

(* a packet that was sent before is sent again *)
Lemma K_emit_old H G P h d p : K H G P h -> InH H p -> K (H ++ [OWire d p]) G P h.
Proof.
  intros [KG KD KP KX KB] [d' Hd'].
  assert (Hrep : forall o, In o (H ++ [OWire d p]) ->
            exists o', In o' H /\ cpkt_of o' = cpkt_of o /\ hpkt_of o' = hpkt_of o).
  { intros o Hin. apply in_app_or in Hin. destruct Hin as [Hin | [Hin | []]]; [eauto |].
    subst. exists (OWire d' p). split; [exact Hd' | split; [apply cpkt_of_same | apply hpkt_of_same]]. }
  split.
  - intros o k n q Ho E. destruct (Hrep _ Ho) as [o' [H1 [_ E1]]]. rewrite <- E1 in E. eauto.
  - intros o1 o2 k n1 n2 p1 p2 H1 H2 E1 E2.
    destruct (Hrep _ H1) as [o1' [H1' [_ E1']]]. destruct (Hrep _ H2) as [o2' [H2' [_ E2']]].
    rewrite <- E1' in E1. rewrite <- E2' in E2. eauto.
  - intros o k cn rr q Ho E. destruct (Hrep _ Ho) as [o' [H1 [_ E1]]]. rewrite <- E1 in E. eauto.
  - intros o1 o2 k n p1 p2 H1 H2 E1 E2.
    destruct (Hrep _ H1) as [o1' [H1' [_ E1']]]. destruct (Hrep _ H2) as [o2' [H2' [E2' _]]].
    rewrite <- E1' in E1. rewrite <- E2' in E2. eauto.
  - intros na l r Hin Hr. apply HP_app. eauto.
Qed.

(* a packet that carries no ciphertext or was sent before *)
Lemma K_emit_pkt H G P h d p :
  K H G P h -> (is_cpkt p -> InH H p) -> (is_hpkt p -> InH H p) -> K (H ++ [OWire d p]) G P h.
Proof.
  intros HK Hc Hh. destruct p as [s n a [k n' m a' | j] | | s n a sg e ok rc [k n' m a' | j]].
  - apply K_emit_old; [exact HK | apply Hc; exact I].
  - apply K_emit_none; [exact HK | reflexivity | reflexivity].
  - apply K_emit_none; [exact HK | reflexivity | reflexivity].
  - apply K_emit_old; [exact HK | apply Hh; exact I].
  - apply K_emit_none; [exact HK | reflexivity | reflexivity].
Qed.

(* a new message ciphertext whose random nonce part is one of the parts still to be drawn *)
Lemma K_emit_msg H G P h d src cnt r aad k m :
  K H G P h -> In r P -> K (H ++ [OWire d (PMsg src (cnt, r) aad (CEnc k (cnt, r) m aad))]) G P h.
Proof.
  intros [KG KD KP KX KB] Hr.
  set (w := OWire d (PMsg src (cnt, r) aad (CEnc k (cnt, r) m aad))).
  assert (Hold : forall o', In o' (H ++ [w]) -> (exists x, hpkt_of o' = Some x) -> In o' H).
  { intros o' Hin [x Hx]. apply in_app_or in Hin. destruct Hin as [Hin | [Hin | []]]; [exact Hin |].
    subst o'. discriminate Hx. }
  split.
  - intros o' k' n p Ho E. apply (KG o' k' n p); [apply Hold; [exact Ho | eauto] | exact E].
  - intros o1 o2 k' n1 n2 p1 p2 H1 H2 E1 E2.
    apply (KD o1 o2 k' n1 n2 p1 p2); [apply Hold; [exact H1 | eauto] | apply Hold; [exact H2 | eauto] | exact E1 | exact E2].
  - intros o' k' cn' rr p Ho E. apply (KP o' k' cn' rr p); [apply Hold; [exact Ho | eauto] | exact E].
  - intros o1 o2 k' n p1 p2 H1 H2 E1 E2.
    assert (H1' : In o1 H) by (apply Hold; eauto).
    apply in_app_or in H2. destruct H2 as [H2 | [H2 | []]]; [exact (KX _ _ _ _ _ _ H1' H2 E1 E2) |].
    subst o2. cbn in E2. inversion E2; subst. exact (KP _ _ _ _ _ H1' E1 Hr).
  - intros na l r0 Hin Hr0. apply HP_app. eauto.
Qed.

(* a new handshake packet: under a key never installed, random nonce part not drawn again *)
Lemma K_emit_hs H G G' P h d src cn rr aad sg eph ok rc ke m :
  K H G P h -> (forall k cnt, Used H k cnt -> In k G) -> ~ In ke G -> ~ In rr P ->
  incl G G' -> In ke G' ->
  K (H ++ [OWire d (PHs src (cn, rr) aad sg eph ok rc (CEnc ke (cn, rr) m aad))]) G' P h.
Proof.
  intros [KG KD KP KX KB] HU Hke Hrr Hi Hke'.
  set (w := OWire d (PHs src (cn, rr) aad sg eph ok rc (CEnc ke (cn, rr) m aad))).
  assert (Hw : forall o k n p, In o (H ++ [w]) -> hpkt_of o = Some (k, n, p) ->
            In o H \/ (k = ke /\ n = (cn, rr) /\
                       p = PHs src (cn, rr) aad sg eph ok rc (CEnc ke (cn, rr) m aad))).
  { intros o k n p Hin E. apply in_app_or in Hin. destruct Hin as [Hin | [Hin | []]]; [left; exact Hin |].
    right. subst o. cbn in E. inversion E; subst. auto. }
  split.
  - intros o k n p Ho E. destruct (Hw _ _ _ _ Ho E) as [Ho' | [-> _]]; [apply Hi; eauto | exact Hke'].
  - intros o1 o2 k n1 n2 p1 p2 H1 H2 E1 E2.
    destruct (Hw _ _ _ _ H1 E1) as [H1' | [Ek1 [_ Ep1]]]; destruct (Hw _ _ _ _ H2 E2) as [H2' | [Ek2 [_ Ep2]]].
    + eauto.
    + exfalso. subst k. apply Hke. eauto.
    + exfalso. subst k. apply Hke. eauto.
    + congruence.
  - intros o k cn' rr' p Ho E. destruct (Hw _ _ _ _ Ho E) as [Ho' | [_ [En _]]]; [eauto |].
    inversion En; subst. exact Hrr.
  - intros o1 o2 k n p1 p2 H1 H2 E1 E2.
    assert (H2' : In o2 H).
    { apply in_app_or in H2. destruct H2 as [H2 | [H2 | []]]; [exact H2 | subst o2; discriminate E2]. }
    destruct (Hw _ _ _ _ H1 E1) as [H1' | [Ek [En _]]]; [exact (KX _ _ _ _ _ _ H1' H2' E1 E2) |].
    subst k n. apply Hke. apply (HU ke cn). exists o2, rr, p2. auto.
  - intros na l r0 Hin Hr0. apply HP_app. eauto.
Qed.

(* ------------------------------------------------------------------------------------------ *)
(* the active-requests table (as in HandlerB_Trace.v, for handshake packets) *)

Lemma ActSubH_ar_insert H c h na r now : HP H r -> ActSubH H h (ar_insert c h na r now).
Proof.
  intros Hr na' l r' Hin Hr'. unfold ar_insert in Hin. cbn [active set_active] in Hin.
  destruct (alist_get na (active h)) as [cur |] eqn:Eg.
  - apply In_alist_set in Hin. destruct Hin as [Hin | Hin].
    + inversion Hin; subst. apply in_app_or in Hr'. destruct Hr' as [Hr' | [Hr' | []]].
      * left. exists na, cur. split; [apply alist_get_In; exact Eg | exact Hr'].
      * subst. right. exact Hr.
    + left. eauto.
  - apply in_app_or in Hin. destruct Hin as [Hin | [Hin | []]].
    + left. eauto.
    + inversion Hin; subst. destruct Hr' as [Hr' | []]. subst. right. exact Hr.
Qed.

Lemma ActSubH_ar_remove_by_nonce H h n : ActSubH H h (fst (ar_remove_by_nonce h n)).
Proof.
  unfold ar_remove_by_nonce. destruct (nmap_get n (nmap h)) as [na |]; [| apply ActSubH_same; reflexivity].
  destruct (alist_get na (active h)) as [l |] eqn:Eg; [| apply ActSubH_same; reflexivity].
  destruct (remove_first _ l) as [[r l'] |] eqn:Er; cbn [fst].
  - intros na' l0 r' Hin Hr'. cbn [active set_active] in Hin. left.
    apply In_put_list in Hin. destruct Hin as [Hin | ->]; [eauto |].
    destruct (remove_first_In _ _ _ _ Er) as [_ Hi]. exists na, l. split; [apply alist_get_In; exact Eg | apply Hi; exact Hr'].
  - intros na' l0 r' Hin Hr'. cbn [active set_active] in Hin. left.
    apply In_put_list in Hin. destruct Hin as [Hin | ->]; [eauto |].
    exists na, l. split; [apply alist_get_In; exact Eg | exact Hr'].
Qed.

Lemma ActSubH_ar_remove_request H h na rid : ActSubH H h (fst (ar_remove_request h na rid)).
Proof.
  unfold ar_remove_request. destruct (alist_get na (active h)) as [l |] eqn:Eg; [| apply ActSubH_same; reflexivity].
  destruct (remove_first _ l) as [[r l'] |] eqn:Er; cbn [fst]; [| apply ActSubH_same; reflexivity].
  intros na' l0 r' Hin Hr'. cbn [active set_active] in Hin. left.
  apply In_put_list in Hin. destruct Hin as [Hin | ->]; [eauto |].
  destruct (remove_first_In _ _ _ _ Er) as [_ Hi]. exists na, l. split; [apply alist_get_In; exact Eg | apply Hi; exact Hr'].
Qed.

Lemma ActSubH_ar_remove_requests H h na : ActSubH H h (fst (ar_remove_requests h na)).
Proof.
  unfold ar_remove_requests. destruct (alist_get na (active h)) as [l |]; [| apply ActSubH_same; reflexivity].
  cbn [fst]. intros na' l0 r' Hin Hr'. cbn [active set_active] in Hin. left.
  apply In_alist_remove in Hin. eauto.
Qed.

Lemma ActSubH_ar_update_packet H c h old p now :
  (is_hpkt p -> InH H p) -> ActSubH H h (ar_update_packet c h old p now).
Proof.
  intros Hp. unfold ar_update_packet. destruct (nmap_get old (nmap h)) as [na |]; [| apply ActSubH_same; reflexivity].
  destruct (alist_get na (active h)) as [l |] eqn:Eg; [| apply ActSubH_same; reflexivity].
  intros na' l0 r' Hin Hr'. cbn [active set_active] in Hin.
  apply In_alist_set in Hin. destruct Hin as [Hin | Hin]; [| left; eauto].
  inversion Hin; subst na' l0. clear Hin.
  assert (Hupd : forall l1 done r1,
            In r1 ((fix upd (l : list rcall) (done : bool) : list rcall :=
                      match l with
                      | [] => []
                      | r :: rest =>
                        if negb done && nonce_eqb (rc_nonce r) old then
                          {| rc_contact := rc_contact r; rc_pkt := p; rc_ext := rc_ext r; rc_rid := rc_rid r;
                             rc_body := rc_body r; rc_hs_sent := rc_hs_sent r; rc_retries := rc_retries r;
                             rc_remaining := rc_remaining r; rc_init := rc_init r |} :: upd rest true
                        else r :: upd rest done
                      end) l1 done) -> In r1 l1 \/ rc_pkt r1 = p).
  { induction l1 as [| x l1 IH]; intros done r1; [intros [] |].
    destruct (negb done && nonce_eqb (rc_nonce x) old).
    - intros [H1 | H1]; [right; subst; reflexivity |]. destruct (IH _ _ H1); [left; right; assumption | right; assumption].
    - intros [H1 | H1]; [left; left; exact H1 |]. destruct (IH _ _ H1); [left; right; assumption | right; assumption]. }
  destruct (Hupd _ _ _ Hr') as [H1 | H1].
  - left. exists na, l. split; [apply alist_get_In; exact Eg | exact H1].
  - right. unfold HP. rewrite H1. exact Hp.
Qed.

Lemma ActSubH_fail_session H c s na err rm : ActSubH H (hs s) (hs (fail_session c s na err rm)).
Proof.
  unfold fail_session.
  set (s1 := if rm then with_hs (remove_expired_sessions c s) (sess_remove (hs (remove_expired_sessions c s)) na) else s).
  assert (E1 : active (hs s1) = active (hs s)).
  { unfold s1. destruct rm; [| reflexivity]. cbn [hs with_hs sess_remove active set_sessions].
    destruct (remove_expired_sessions_hs c s) as [E | E]; rewrite E; reflexivity. }
  set (s2 := match alist_get na (pending (hs s1)) with Some l => _ | None => s1 end).
  assert (E2 : active (hs s2) = active (hs s1)).
  { unfold s2. destruct (alist_get na (pending (hs s1))) as [l |]; [| reflexivity].
    rewrite active_fold_keep; [reflexivity |]. intros a q. destruct (pq_ext q); reflexivity. }
  pose proof (ActSubH_ar_remove_requests H (hs s2) na) as H3.
  destruct (ar_remove_requests (hs s2) na) as [h3 reqs]. cbn [fst] in H3.
  assert (E4 : forall x : st, active (hs (fold_left (fun s r =>
              let s' := if rc_ext r then emit s (OEvent (HRequestFailed (rc_rid r) err)) else s in
              remove_expected s' (snd na)) reqs x)) = active (hs x)).
  { apply active_fold_keep. intros a r. destruct (rc_ext r); reflexivity. }
  eapply ActSubH_trans; [apply ActSubH_same; exact E1 |].
  eapply ActSubH_trans; [apply ActSubH_same; exact E2 |].
  eapply ActSubH_trans; [exact H3 |]. apply ActSubH_same. rewrite E4. reflexivity.
Qed.

(* ------------------------------------------------------------------------------------------ *)
(* the invariant on the step monad.  [fut]: the random nonce parts of the draws of the later steps.
   If the draws of the step are exhausted nothing is claimed (the theorem assumes that no step
   exhausts its draws).  Stated on the components of the state. *)

Definition rnd (q : N * N * N * N) : N := snd (fst (fst q)).
Definition rpool (d : draws) : list N := map rnd (d_pk d).

Definition KC (hist : list output) (G : list key) (fut : list N) (h : hstate) (d : draws) (O : list output) : Prop :=
  d_pk d = [] \/ K (hist ++ O) G (rpool d ++ fut) h.
Definition KK (hist : list output) (G : list key) (fut : list N) (s : st) : Prop :=
  KC hist G fut (hs s) (dr s) (outs s).
(* functions that need nothing but K *)
Definition KQ (s s' : st) : Prop := forall hist G fut, KK hist G fut s -> KK hist G fut s'.
Lemma KQ_refl s : KQ s s.
Proof. intros hist G fut H; exact H. Qed.
Lemma KQ_trans a b d : KQ a b -> KQ b d -> KQ a d.
Proof. intros H1 H2 hist G fut H. apply H2. apply H1. exact H. Qed.

Lemma Sufd_exh d d' : Sufd d d' -> d_pk d = [] -> d_pk d' = [].
Proof. intros [p E] H. rewrite H in E. destruct p; [cbn in E; auto | discriminate]. Qed.
Lemma Sufd_rpool d d' fut : Sufd d d' -> incl (rpool d' ++ fut) (rpool d ++ fut).
Proof.
  intros [p E] x Hx. unfold rpool in *. rewrite E, map_app. apply in_app_or in Hx.
  apply in_or_app. destruct Hx as [Hx | Hx]; [left; apply in_or_app; right; exact Hx | right; exact Hx].
Qed.

Lemma KC_state hist G fut h h' d O : KC hist G fut h d O -> ActSubH (hist ++ O) h h' -> KC hist G fut h' d O.
Proof. intros [E | HK] HA; [left; exact E | right; eapply K_state; eauto]. Qed.
Lemma KC_dr hist G fut h d d' O : Sufd d d' -> KC hist G fut h d O -> KC hist G fut h d' O.
Proof.
  intros HS [E | HK]; [left; eapply Sufd_exh; eauto | right].
  eapply K_pool; [exact HK | apply Sufd_rpool; exact HS].
Qed.
Lemma KC_G hist G G' fut h d O : incl G G' -> KC hist G fut h d O -> KC hist G' fut h d O.
Proof. intros Hi [E | HK]; [left; exact E | right; eapply K_mono_G; eauto]. Qed.
Lemma KC_emit_none hist G fut h d O o :
  KC hist G fut h d O -> cpkt_of o = None -> hpkt_of o = None -> KC hist G fut h d (O ++ [o]).
Proof. intros [E | HK] Hc Hh; [left; exact E | right]. rewrite app_assoc. apply K_emit_none; assumption. Qed.
Lemma KC_emit_pkt hist G fut h d O dst p :
  KC hist G fut h d O -> (is_cpkt p -> InH (hist ++ O) p) -> (is_hpkt p -> InH (hist ++ O) p) ->
  KC hist G fut h d (O ++ [OWire dst p]).
Proof. intros [E | HK] Hc Hh; [left; exact E | right]. rewrite app_assoc. apply K_emit_pkt; assumption. Qed.

Lemma pop_pk_cons d q t : d_pk d = q :: t ->
  pop_pk d = (q, {| d_pk := t; d_rid := d_rid d; d_rev := d_rev d |}).
Proof. intros E. unfold pop_pk. rewrite E. reflexivity. Qed.
Lemma pop_pk_nil d : d_pk d = [] -> pop_pk d = ((0, 0, 0, 0), d).
Proof. intros E. unfold pop_pk. rewrite E. reflexivity. Qed.

(* Session::encrypt_message: the draw is popped and the packet goes out *)
Lemma KC_encrypt hist G fut h d O dst src cnt aad k m :
  KC hist G fut h d O ->
  KC hist G fut h (snd (pop_pk d))
     (O ++ [OWire dst (PMsg src (cnt, pk_r d) aad (CEnc k (cnt, pk_r d) m aad))]).
Proof.
  intros [E | HK]; [left; rewrite (pop_pk_nil _ E); exact E |].
  destruct (d_pk d) as [| q t] eqn:Ed; [left; rewrite (pop_pk_nil _ Ed); exact Ed |].
  right. unfold pk_r. rewrite (pop_pk_cons _ _ _ Ed). cbn [fst snd].
  rewrite app_assoc. eapply K_pool; [apply K_emit_msg; [exact HK |] |].
  - unfold rpool. rewrite Ed. left. reflexivity.
  - unfold rpool. rewrite Ed. cbn [d_pk map app]. apply incl_tl. apply incl_refl.
Qed.

Lemma KK_with_hs hist G fut s h :
  KK hist G fut s -> ActSubH (hist ++ outs s) (hs s) h -> KK hist G fut (with_hs s h).
Proof. intros HK HA. unfold KK. cbn [hs dr outs with_hs]. eapply KC_state; eauto. Qed.
Lemma KK_same_active hist G fut s h : KK hist G fut s -> active h = active (hs s) -> KK hist G fut (with_hs s h).
Proof. intros HK E. apply KK_with_hs; [exact HK | apply ActSubH_same; exact E]. Qed.
Lemma KK_dr hist G fut s d : Sufd (dr s) d -> KK hist G fut s -> KK hist G fut {| hs := hs s; dr := d; outs := outs s |}.
Proof. intros HS HK. unfold KK. cbn [hs dr outs]. eapply KC_dr; eauto. Qed.
Lemma KK_emit_none hist G fut s o :
  KK hist G fut s -> cpkt_of o = None -> hpkt_of o = None -> KK hist G fut (emit s o).
Proof. intros HK Hc Hh. unfold KK. cbn [emit hs dr outs]. apply KC_emit_none; assumption. Qed.
Lemma KK_emit_event hist G fut s e : KK hist G fut s -> KK hist G fut (emit s (OEvent e)).
Proof. intros HK. apply KK_emit_none; [exact HK | reflexivity | reflexivity]. Qed.
Lemma KK_send_pkt hist G fut s na p :
  KK hist G fut s -> (is_cpkt p -> InH (hist ++ outs s) p) -> (is_hpkt p -> InH (hist ++ outs s) p) ->
  KK hist G fut (send s na p).
Proof. intros HK Hc Hh. unfold KK, send. cbn [emit hs dr outs]. apply KC_emit_pkt; assumption. Qed.
Lemma KK_add_expected hist G fut s a : KK hist G fut s -> KK hist G fut (add_expected s a).
Proof. intros HK. unfold add_expected. apply KK_same_active; [exact HK | reflexivity]. Qed.
Lemma KK_remove_expected hist G fut s a : KK hist G fut s -> KK hist G fut (remove_expected s a).
Proof. intros HK. unfold remove_expected. apply KK_same_active; [exact HK | reflexivity]. Qed.
Lemma KK_G hist G G' fut s : incl G G' -> KK hist G fut s -> KK hist G' fut s.
Proof. apply KC_G. Qed.

(* encrypt, then any change of the state that adds only requests whose packet is a message packet *)
Lemma KK_encrypt_send hist G fut (s s' : st) dst src cnt aad k m :
  KK hist G fut s ->
  let o := OWire dst (PMsg src (cnt, pk_r (dr s)) aad (CEnc k (cnt, pk_r (dr s)) m aad)) in
  dr s' = snd (pop_pk (dr s)) -> outs s' = outs s ++ [o] ->
  ActSubH (hist ++ outs s ++ [o]) (hs s) (hs s') ->
  KK hist G fut s'.
Proof.
  intros HK o Ed Eo HA. unfold KK. rewrite Ed, Eo.
  eapply KC_state; [apply KC_encrypt; exact HK | exact HA].
Qed.

(* the history decides: events only *)
Lemma KK_events hist G fut s s' :
  KK hist G fut s -> dr s' = dr s -> ActSubH (hist ++ outs s) (hs s) (hs s') ->
  OutsExt (fun o => cpkt_of o = None /\ hpkt_of o = None) s s' -> KK hist G fut s'.
Proof.
  intros HK Ed HA [l [El Fl]]. unfold KK in *. rewrite Ed, El.
  assert (H1 : KC hist G fut (hs s') (dr s) (outs s)) by (eapply KC_state; eauto).
  clear HK HA El. induction l as [| o l IH] using rev_ind; [rewrite app_nil_r; exact H1 |].
  rewrite app_assoc. apply Forall_app in Fl. destruct Fl as [Fl Fo]. inversion Fo; subst.
  destruct H2 as [Hc Hh]. apply KC_emit_none; [apply IH; exact Fl | exact Hc | exact Hh].
Qed.
Lemma failed_out_nohs o : failed_out o -> cpkt_of o = None /\ hpkt_of o = None.
Proof. destruct o as [[] |]; cbn; tauto. Qed.

(* ------------------------------------------------------------------------------------------ *)
(* the handler functions that need nothing but K *)

Lemma KQ_is_awaiting c s na : KQ s (fst (is_awaiting_session c s na)).
Proof.
  intros hist G fut HK. unfold is_awaiting_session. pose proof (active_sess_get c (hs s) na) as E.
  destruct (sess_get c (hs s) na) as [h se]. cbn [fst] in E. destruct se; cbn [fst]; apply KK_same_active; assumption.
Qed.

Lemma KQ_send_request c s ct ext rid body now : KQ s (fst (send_request c s ct ext rid body now)).
Proof.
  intros hist G fut HK. unfold send_request.
  destruct (existsb (N.eqb (c_addr ct)) (cfg_listen c)); [exact HK |].
  set (na := c_naddr ct).
  assert (Ha : KK hist G fut (fst (if has_challenge (hs s) na then (s, true) else is_awaiting_session c s na))).
  { destruct (has_challenge (hs s) na); [exact HK | apply KQ_is_awaiting; exact HK]. }
  destruct (if has_challenge (hs s) na then (s, true) else is_awaiting_session c s na) as [s1 awaiting].
  cbn [fst] in Ha. destruct awaiting; cbn [fst].
  - apply KK_same_active; [exact Ha | apply active_push_pending].
  - pose proof (active_sess_get c (hs s1) na) as Eg.
    destruct (sess_get c (hs s1) na) as [h2 se]. cbn [fst] in Eg.
    assert (Hg : KK hist G fut (with_hs s1 h2)) by (apply KK_same_active; assumption).
    destruct se as [se |].
    + rewrite encrypt_message_eq. cbn [fst].
      eapply (KK_encrypt_send hist G fut (with_hs s1 h2) _ na); [exact Hg | reflexivity | reflexivity |].
      cbn [hs with_hs send emit add_expected outs dr].
      match goal with |- ActSubH ?H ?h0 (ar_insert _ ?h1 _ _ _) =>
        apply (ActSubH_trans H h0 h1); [apply ActSubH_same; reflexivity | apply ActSubH_ar_insert] end.
      intros [].
    + destruct (pop_pk (dr (with_hs s1 h2))) as [[[[cn r] aad] e0] d'] eqn:Ep. cbn [fst].
      match goal with |- KK _ _ _ (with_hs ?s5 (ar_insert _ _ _ ?call _)) =>
        assert (H5 : KK hist G fut s5) end.
      { apply KK_send_pkt; [| intros [] | intros []]. apply KK_add_expected.
        apply (KK_dr hist G fut (with_hs s1 h2) d'); [| exact Hg].
        replace d' with (snd (pop_pk (dr (with_hs s1 h2)))) by (rewrite Ep; reflexivity). apply Sufd_pop. }
      apply KK_with_hs; [exact H5 |]. apply ActSubH_ar_insert. intros [].
Qed.

Lemma KQ_send_pending_requests c s na now : KQ s (send_pending_requests c s na now).
Proof.
  unfold send_pending_requests. destruct (alist_get na (pending (hs s))) as [l |]; [| apply KQ_refl].
  eapply KQ_trans; [| apply (fold_left_rel KQ); [apply KQ_refl | apply KQ_trans |]].
  - intros hist G fut HK. apply KK_same_active; [exact HK | reflexivity].
  - intros a q. pose proof (KQ_send_request c a (pq_contact q) (pq_ext q) (pq_rid q) (pq_body q) now) as H.
    destruct (send_request c a (pq_contact q) (pq_ext q) (pq_rid q) (pq_body q) now) as [s' ok].
    cbn [fst] in H. destruct ok; [exact H |]. destruct (pq_ext q); [| exact H].
    intros hist G fut HK. apply KK_emit_event. apply H. exact HK.
Qed.

Lemma KQ_fail_session c s na err rm : KQ s (fail_session c s na err rm).
Proof.
  intros hist G fut HK. destruct (QuietF_fail_session c s na err rm) as [_ Ho].
  eapply KK_events; [exact HK | apply fail_session_dr | apply ActSubH_fail_session |].
  eapply OutsExt_weaken; [| exact Ho]. apply failed_out_nohs.
Qed.
Lemma KQ_fail_request c s r err rm : KQ s (fail_request c s r err rm).
Proof.
  unfold fail_request. eapply KQ_trans; [| apply KQ_fail_session].
  destruct (rc_ext r); [| apply KQ_refl]. intros hist G fut HK. apply KK_emit_event. exact HK.
Qed.
Lemma KQ_remove_expired_sessions c s : KQ s (remove_expired_sessions c s).
Proof.
  intros hist G fut HK. destruct (QuietF_remove_expired c s) as [_ Ho].
  eapply KK_events; [exact HK | apply HandlerInv.remove_expired_sessions_dr | |
                     eapply OutsExt_weaken; [apply failed_out_nohs | exact Ho]].
  apply ActSubH_same. destruct (remove_expired_sessions_hs c s) as [E | E]; rewrite E; reflexivity.
Qed.

(* replay_active_requests: first all requests are encrypted (the draws are popped), then the packets
   are stored and sent *)
Lemma replay_fold1_K c na dst reqs : forall s se pk hist G fut O,
  KC hist G fut (hs s) (dr s) O ->
  let g := (fun (acc : st * session * list (nonce * packet)) r =>
        let '(s, se, pk) := acc in
        let '(s', se', p) := encrypt_message c s na se (MReq (rc_rid r) (rc_body r)) in
        (s', se', pk ++ [(rc_nonce r, p)])) in
  let res := fold_left g reqs (s, se, pk) in
  exists ws, snd res = pk ++ ws /\ hs (fst (fst res)) = hs s /\ outs (fst (fst res)) = outs s /\
    (forall x, In x ws -> ~ is_hpkt (snd x)) /\
    KC hist G fut (hs s) (dr (fst (fst res))) (O ++ map (fun x => OWire dst (snd x)) ws).
Proof.
  induction reqs as [| r reqs IH]; intros s se pk hist G fut O HK; cbn zeta; cbn [fold_left].
  - exists []. cbn [fst snd map]. rewrite !app_nil_r.
    split; [reflexivity | split; [reflexivity | split; [reflexivity | split; [intros x [] | exact HK]]]].
  - rewrite encrypt_message_eq.
    set (p := PMsg (cfg_local c) (s_counter se + 1, pk_r (dr s)) (pk_aad (dr s))
                (CEnc (s_enc se) (s_counter se + 1, pk_r (dr s)) (MReq (rc_rid r) (rc_body r)) (pk_aad (dr s)))).
    pose proof (KC_encrypt hist G fut (hs s) (dr s) O dst (cfg_local c) (s_counter se + 1) (pk_aad (dr s))
                  (s_enc se) (MReq (rc_rid r) (rc_body r)) HK) as HK1.
    specialize (IH {| hs := hs s; dr := snd (pop_pk (dr s)); outs := outs s |} (bump se)
                  (pk ++ [(rc_nonce r, p)]) hist G fut _ HK1).
    cbn zeta in IH. destruct IH as [ws [E1 [E2 [E3 [E4 HK2]]]]].
    exists ((rc_nonce r, p) :: ws). cbn [hs outs] in E2, E3.
    split; [rewrite E1, <- app_assoc; reflexivity | split; [exact E2 | split; [exact E3 | split]]].
    + intros x [<- | Hx]; [intros [] | apply E4; exact Hx].
    + cbn [map snd]. cbn [hs] in HK2. rewrite <- app_assoc in HK2. exact HK2.
Qed.

Lemma replay_fold2_H c na now pkts : forall s,
  let f := (fun s (x : nonce * packet) =>
              let s' := with_hs s (ar_update_packet c (hs s) (fst x) (snd x) now) in send s' na (snd x)) in
  let s' := fold_left f pkts s in
  outs s' = outs s ++ map (fun x => OWire na (snd x)) pkts /\ dr s' = dr s /\
  forall H, (forall x, In x pkts -> ~ is_hpkt (snd x)) -> ActSubH H (hs s) (hs s').
Proof.
  induction pkts as [| x pkts IH]; intros s; cbn zeta; cbn [fold_left map].
  - rewrite app_nil_r. split; [reflexivity | split; [reflexivity |]]. intros H _. apply ActSubH_same. reflexivity.
  - specialize (IH (send (with_hs s (ar_update_packet c (hs s) (fst x) (snd x) now)) na (snd x))).
    cbn zeta in IH. destruct IH as [E1 [E2 E3]]. split; [| split].
    + rewrite E1. cbn [send emit outs with_hs]. rewrite <- app_assoc. reflexivity.
    + rewrite E2. reflexivity.
    + intros H Hp. eapply ActSubH_trans; [| apply E3; intros y Hy; apply Hp; right; exact Hy].
      cbn [send emit hs with_hs]. apply ActSubH_ar_update_packet. intros Hh. exfalso.
      exact (Hp x (or_introl eq_refl) Hh).
Qed.

Lemma KQ_replay c s na skip now : KQ s (replay_active_requests c s na skip now).
Proof.
  intros hist G fut HK. unfold replay_active_requests.
  pose proof (active_sess_get c (hs s) na) as Eg.
  destruct (sess_get c (hs s) na) as [h1 se]. cbn [fst] in Eg.
  assert (Hg : KK hist G fut (with_hs s h1)) by (apply KK_same_active; assumption).
  destruct se as [se0 |]; [| exact Hg].
  set (reqs := filter _ _).
  pose proof (replay_fold1_K c na na reqs (with_hs s h1) se0 [] hist G fut (outs s) Hg) as Hf.
  cbn zeta in Hf.
  destruct (fold_left _ reqs (with_hs s h1, se0, [])) as [[s2 se2] pkts]. cbn [fst snd] in Hf.
  destruct Hf as [ws [E0 [E1 [E2 [E3 HK2]]]]]. cbn [app] in E0. subst ws. cbn [hs with_hs outs] in E1, E2, HK2.
  pose proof (replay_fold2_H c na now pkts (with_hs s2 (sess_put (hs s2) na se2))) as Hf2. cbn zeta in Hf2.
  destruct Hf2 as [O2 [D2 A2]]. cbn [outs hs dr with_hs] in O2, D2, A2.
  unfold KK. rewrite O2, D2, E2.
  eapply KC_state; [exact HK2 |].
  eapply ActSubH_trans; [| apply A2; exact E3]. apply ActSubH_same. rewrite E1. reflexivity.
Qed.

Lemma KQ_send_response c s na rid rb : KQ s (send_response c s na rid rb).
Proof.
  intros hist G fut HK. unfold send_response.
  pose proof (active_sess_get c (hs s) na) as Eg.
  destruct (sess_get c (hs s) na) as [h1 se]. cbn [fst] in Eg.
  assert (Hg : KK hist G fut (with_hs s h1)) by (apply KK_same_active; assumption).
  destruct se as [se |]; [| exact Hg].
  rewrite encrypt_message_eq.
  eapply (KK_encrypt_send hist G fut (with_hs s h1) _ na); [exact Hg | reflexivity | reflexivity |].
  apply ActSubH_same. reflexivity.
Qed.

Lemma KQ_send_challenge c s na n known now : KQ s (send_challenge c s na n known now).
Proof.
  intros hist G fut HK. unfold send_challenge. destruct (has_challenge (hs s) na); [exact HK |].
  destruct (pop_pk (dr s)) as [[[[idn r] cd] e0] d'] eqn:Ep.
  match goal with |- KK _ _ _ (with_hs ?s3 _) => assert (H3 : KK hist G fut s3) end.
  { apply KK_send_pkt; [| intros [] | intros []]. apply KK_add_expected.
    apply (KK_dr hist G fut s d'); [| exact HK].
    replace d' with (snd (pop_pk (dr s))) by (rewrite Ep; reflexivity). apply Sufd_pop. }
  apply KK_same_active; [exact H3 | reflexivity].
Qed.

Lemma KQ_handle_response c s na rid rb now : KQ s (handle_response c s na rid rb now).
Proof.
  intros hist G fut [Ex | HK0].
  { (* exhausted: nothing is claimed, and no function un-exhausts the draws *)
    left. rewrite handle_response_dr. exact Ex. }
  assert (HK : KK hist G fut s) by (right; exact HK0).
  unfold handle_response.
  pose proof (ActSubH_ar_remove_request (hist ++ outs s) (hs s) na rid) as Ha.
  pose proof (ar_remove_request_found (hs s) na rid) as Hf.
  destruct (ar_remove_request (hs s) na rid) as [h1 found]. cbn [fst snd] in Ha, Hf.
  destruct found as [r |]; [| exact HK].
  destruct (Hf r eq_refl) as [na0 [l0 [Hl Hr]]].
  assert (H1 : KK hist G fut (with_hs s h1)) by (apply KK_with_hs; assumption).
  pose proof (K_B _ _ _ _ HK0 _ _ _ Hl Hr) as Hpk.
  assert (Hre : forall rem,
            KK hist G fut (emit (with_hs (with_hs s h1) (ar_insert c (hs (with_hs s h1)) na
              {| rc_contact := rc_contact r; rc_pkt := rc_pkt r; rc_ext := rc_ext r; rc_rid := rc_rid r;
                 rc_body := rc_body r; rc_hs_sent := rc_hs_sent r; rc_retries := rc_retries r;
                 rc_remaining := rem; rc_init := rc_init r |} now)) (OEvent (HResponse na rid rb)))).
  { intros rem. apply KK_emit_event. apply KK_with_hs; [exact H1 |].
    apply ActSubH_ar_insert. exact Hpk. }
  assert (Hfin : KK hist G fut (emit (remove_expected (with_hs s h1) (snd na)) (OEvent (HResponse na rid rb)))).
  { apply KK_emit_event. apply KK_remove_expected. exact H1. }
  destruct rb as [total recs | tag]; [| exact Hfin].
  destruct (N.ltb 1 total); [| exact Hfin].
  destruct (rc_remaining r) as [rem |]; [| apply Hre].
  destruct (negb (N.eqb (rem - 1) 0)); [apply Hre | exact Hfin].
Qed.

Lemma KQ_handle_message c s na n aad ct now : KQ s (handle_message c s na n aad ct now).
Proof.
  intros hist G fut HK. unfold handle_message.
  pose proof (active_sess_get c (hs s) na) as Eg.
  destruct (sess_get c (hs s) na) as [h1 se]. cbn [fst] in Eg.
  assert (Hg : KK hist G fut (with_hs s h1)) by (apply KK_same_active; assumption).
  destruct se as [se |]; [| apply KK_emit_event; exact Hg].
  destruct (decrypt_message se n aad ct) as [se' m].
  set (s2 := with_hs (with_hs s h1) (sess_put (hs (with_hs s h1)) na se')).
  assert (H2 : KK hist G fut s2) by (apply KK_same_active; [exact Hg | reflexivity]).
  destruct m as [[rid body | rid rb | j] |].
  - apply KK_emit_event. exact H2.
  - assert (Hresp : KK hist G fut (handle_response c s2 na rid rb now)) by (apply KQ_handle_response; exact H2).
    destruct (s_await se') as [arid |]; [| exact Hresp].
    destruct (N.eqb rid arid); [| exact Hresp].
    set (se'' := {| s_enc := s_enc se'; s_dec := s_dec se'; s_old := s_old se'; s_await := None;
                    s_counter := s_counter se'; s_used := s_used se' |}).
    set (s3a := with_hs s2 (sess_put (hs s2) na se'')).
    assert (H3a : KK hist G fut s3a) by (apply KK_same_active; [exact H2 | reflexivity]).
    set (s3 := if fix_d2b c then _ else s3a).
    assert (H3 : KK hist G fut s3).
    { unfold s3. destruct (fix_d2b c); [| exact H3a].
      pose proof (ActSubH_ar_remove_request (hist ++ outs s3a) (hs s3a) na rid) as Ha.
      destruct (ar_remove_request (hs s3a) na rid) as [h4 found]. cbn [fst] in Ha.
      destruct found; [| exact H3a]. apply KK_remove_expected. apply KK_with_hs; assumption. }
    destruct rb as [total recs | tag]; [| apply KQ_fail_session; exact H3].
    destruct (rev recs) as [| e recs']; [apply KQ_fail_session; exact H3 |].
    destruct (verify_enr e na).
    + apply KK_emit_event. exact H3.
    + apply KQ_fail_session. apply KK_emit_event. exact H3.
  - exact H2.
  - assert (H3 : KK hist G fut (fail_session c s2 na ERR_INVALID_REMOTE_PACKET true)) by (apply KQ_fail_session; exact H2).
    destruct (has_challenge _ na); [exact H3 | apply KK_emit_event; exact H3].
Qed.

(* installing session keys does not touch the requests *)
Lemma KQ_install c s na se : KQ s (install c s na se).
Proof.
  intros hist G fut HK. unfold install.
  pose proof (active_sess_get c (hs s) na) as Eg.
  destruct (sess_get c (hs s) na) as [h1 cur]. cbn [fst] in Eg.
  destruct cur as [cs |]; apply KK_same_active; try exact HK; exact Eg.
Qed.

Lemma KQ_new_session c s na se skip now : KQ s (new_session c s na se skip now).
Proof.
  rewrite new_session_install. cbn zeta.
  assert (Hi : KQ s (install c (remove_expired_sessions c s) na se)).
  { eapply KQ_trans; [apply KQ_remove_expired_sessions | apply KQ_install]. }
  destruct (snd (sess_get c (hs (remove_expired_sessions c s)) na)).
  - assert (Hr : KQ s (replay_active_requests c (install c (remove_expired_sessions c s) na se) na skip now)).
    { eapply KQ_trans; [exact Hi | apply KQ_replay]. }
    destruct (fix_d2a c); [| exact Hr]. eapply KQ_trans; [exact Hr | apply KQ_send_pending_requests].
  - eapply KQ_trans; [exact Hi | apply KQ_send_pending_requests].
Qed.

Lemma KQ_handle_auth_message c s na n aad sg eph eph_ok rec ct now :
  KQ s (handle_auth_message c s na n aad sg eph eph_ok rec ct now).
Proof.
  intros hist G fut HK. unfold handle_auth_message.
  destruct (chall_get na (challenges (hs s))) as [ch |]; [| exact HK].
  set (s1 := with_hs s (set_challenges (hs s) (chall_remove na (challenges (hs s))))).
  assert (H1 : KK hist G fut s1) by (apply KK_same_active; [exact HK | reflexivity]).
  destruct (establish c (fst na) ch sg eph eph_ok rec) as [se e | |].
  - apply KQ_handle_message. apply KQ_new_session.
    destruct (verify_enr e na); apply KK_emit_event; apply KK_remove_expected; exact H1.
  - apply KK_same_active; [exact H1 | reflexivity].
  - apply KQ_fail_session. destruct (fix_d6 c); [apply KK_remove_expected |]; exact H1.
Qed.

(* ------------------------------------------------------------------------------------------ *)
(* the request timer: the stored packet - message packet (J_B) or handshake packet (K_B) - is sent
   again.  These functions need both invariants; K may run with a larger ghost key list than J. *)

Definition KP (s s' : st) : Prop :=
  JP s s' /\ forall hist G G2 fut, JJ hist G s -> KK hist G2 fut s -> KK hist G2 fut s'.
Lemma KP_refl s : KP s s.
Proof. split; [apply JP_refl | auto]. Qed.
Lemma KP_trans a b d : KP a b -> KP b d -> KP a d.
Proof.
  intros [J1 K1] [J2 K2]. split; [eapply JP_trans; eauto |].
  intros hist G G2 fut HJ HK. apply (K2 hist G G2 fut); [apply J1; exact HJ | eapply K1; eauto].
Qed.
Lemma KQ_KP s s' : JP s s' -> KQ s s' -> KP s s'.
Proof. intros HJ HQ. split; [exact HJ |]. intros hist G G2 fut _ HK. apply HQ. exact HK. Qed.

Lemma KK_handle_request_timeout c s na r now hist G fut :
  KK hist G fut s -> PktOK (hist ++ outs s) r -> HP (hist ++ outs s) r ->
  KK hist G fut (handle_request_timeout c s na r now).
Proof.
  intros HK Hc Hh. unfold handle_request_timeout. destruct (N.leb (cfg_retries c) (rc_retries r)).
  - apply KQ_fail_request. apply KK_remove_expected. exact HK.
  - match goal with |- KK _ _ _ (with_hs ?s1 _) => assert (H1 : KK hist G fut s1) by (apply KK_send_pkt; assumption) end.
    apply KK_with_hs; [exact H1 |].
    apply ActSubH_ar_insert. intros Hx. cbn [rc_pkt] in *. cbn [send emit outs]. rewrite app_assoc.
    apply InH_app. apply Hh. exact Hx.
Qed.

Lemma KP_fire_request c s n na now : KP s (fire_request c s n na now).
Proof.
  split; [apply JP_fire_request |]. intros hist G G2 fut HJ [Ex | HK0].
  { left. pose proof (Suf_fire_request c s n na now) as HS. exact (Sufd_exh _ _ HS Ex). }
  assert (HK : KK hist G2 fut s) by (right; exact HK0).
  unfold fire_request.
  assert (Hnm : forall nm, KK hist G2 fut (with_hs s (set_active (hs s) (active (hs s)) nm))).
  { intros nm. apply KK_same_active; [exact HK | reflexivity]. }
  destruct (alist_get na (active (hs s))) as [l |] eqn:Eg; [| apply Hnm].
  destruct (remove_first _ l) as [[r l'] |] eqn:Er; [| apply Hnm].
  destruct (remove_first_In _ _ _ _ Er) as [Hr Hl'].
  pose proof (HandlerB_Trace.J_B _ _ _ HJ na l r (alist_get_In _ _ _ Eg) Hr) as Hpk.
  pose proof (K_B _ _ _ _ HK0 na l r (alist_get_In _ _ _ Eg) Hr) as Hhp.
  apply KK_handle_request_timeout; [| exact Hpk | exact Hhp].
  apply KK_with_hs; [exact HK |].
  intros na' l0 r' Hin Hr'. cbn [active set_active] in Hin. left.
  apply In_put_list in Hin. destruct Hin as [Hin | ->]; [eauto |].
  exists na, l. split; [apply alist_get_In; exact Eg | apply Hl'; exact Hr'].
Qed.

Lemma KP_fire_group c s g d ft : KP s (fire_group c s g d ft).
Proof.
  unfold fire_group. apply (fold_left_rel KP); [apply KP_refl | apply KP_trans |].
  intros a x. destruct (nmap_deadline (fst x) (nmap (hs a))) as [d' |]; [| apply KP_refl].
  destruct (N.eqb d' d); [apply KP_fire_request | apply KP_refl].
Qed.

Lemma KP_fire_due c now fuel s : KP s (fire_due c s now fuel).
Proof.
  apply fire_due_rel; [apply KP_refl | apply KP_trans | |].
  - intros s0 d. unfold fire_req_of.
    destruct (group_of d (nmap (hs s0))) as [| x [| y g]]; try apply KP_fire_group.
    destruct (pop_rev (dr s0)) as [rv d'] eqn:Ep.
    eapply KP_trans; [| apply KP_fire_group]. split; [intros hist G HJ; exact HJ |].
    intros hist G G2 fut _ HK. apply (KK_dr hist G2 fut s0 d'); [| exact HK].
    replace d' with (snd (pop_rev (dr s0))) by (rewrite Ep; reflexivity). apply Sufd_pop_rev.
  - intros s0 na t. unfold fire_challenge. apply KQ_KP.
    + eapply JP_trans; [| apply JP_send_pending_requests].
      intros hist G HJ. apply JJ_remove_expected.
      apply JJ_with_hs; [exact HJ | apply SessD_same; reflexivity | apply UPres_same; reflexivity |
                         apply ActSubP_same; reflexivity].
    + eapply KQ_trans; [| apply KQ_send_pending_requests].
      intros hist G fut HK. apply KK_remove_expected. apply KK_same_active; [exact HK | reflexivity].
Qed.

(* ------------------------------------------------------------------------------------------ *)
(* Handler::handle_challenge: the only place where a handshake packet is created.
   Hypotheses: the keys it installs are new (fresh_installs), and the random part of the nonce it
   draws is not among the parts still to be drawn. *)

Definition hs_fresh (c : config) (s : st) (src : addr) (n : nonce) (cd : N) (fut : list N) : Prop :=
  hc_keys c s src n cd <> [] ->
  forall q t, d_pk (dr s) = q :: t -> ~ In (rnd q) (map rnd t ++ fut).

Lemma KK_handle_challenge hist G fut c s src n seq cd now :
  JJ hist G s -> KK hist G fut s ->
  (forall k, In k (hc_keys c s src n cd) -> ~ In k G) ->
  hs_fresh c s src n cd fut ->
  KK hist (G ++ hc_keys c s src n cd) fut (handle_challenge c s src n seq cd now).
Proof.
  intros HJ [Ex | HK0].
  { intros _ _. left. pose proof (Suf_handle_challenge c s src n seq cd now) as HS. exact (Sufd_exh _ _ HS Ex). }
  assert (HK : KK hist G fut s) by (right; exact HK0).
  assert (Hnil : forall s', KK hist G fut s' -> KK hist (G ++ []) fut s') by (intros s'; rewrite app_nil_r; auto).
  pose proof (Suf_handle_challenge c s src n seq cd now) as HSuf.
  revert HSuf. unfold hs_fresh, handle_challenge, hc_keys.
  destruct (nmap_get n (nmap (hs s))) as [na0 |]; [| intros _ _ _; apply Hnil; exact HK].
  pose proof (ActSubH_ar_remove_by_nonce (hist ++ outs s) (hs s) n) as Ha.
  pose proof (ar_remove_by_nonce_found (hs s) n) as Hf.
  destruct (ar_remove_by_nonce (hs s) n) as [h1 found]. cbn [fst snd] in Ha, Hf |- *.
  assert (H1 : KK hist G fut (with_hs s h1)) by (apply KK_with_hs; assumption).
  destruct found as [[na r] |]; [| intros _ _ _; apply Hnil; exact H1].
  destruct (Hf na r eq_refl) as [nax [lx [Hl Hr]]].
  pose proof (K_B _ _ _ _ HK0 _ _ _ Hl Hr) as Hhp.
  destruct (negb (N.eqb (snd na) src)).
  { intros _ _ _. apply Hnil. apply KK_with_hs; [exact HK |].
    eapply ActSubH_trans; [exact Ha | apply ActSubH_ar_insert; exact Hhp]. }
  destruct (rc_hs_sent r || c_ed (rc_contact r)).
  { intros _ _ _. apply Hnil. apply KQ_fail_request.
    destruct (fix_d6 c); [apply KK_remove_expected |]; exact H1. }
  cbn zeta. set (ct := rc_contact r).
  change (dr (with_hs s h1)) with (dr s).
  destruct (d_pk (dr s)) as [| q t] eqn:Ed.
  { (* the draw of the handshake nonce finds the list exhausted: so is every later state *)
    intros HSuf _ _. left. exact (Sufd_exh _ _ HSuf Ed). }
  rewrite (pop_pk_cons _ _ _ Ed). destruct q as [[[cn rr] aad] eph]. cbn [fst snd].
  set (d' := {| d_pk := t; d_rid := d_rid (dr s); d_rev := d_rev (dr s) |}).
  intros _ HF HF2.
  set (ke := mk_key eph (c_id ct) cd (cfg_local c) (c_id ct) false) in *.
  set (kd := mk_key eph (c_id ct) cd (cfg_local c) (c_id ct) true) in *.
  set (auth := PHs (cfg_local c) (cn, rr) aad (Sig (cfg_local c) cd eph (c_id ct)) eph true
                 (if N.ltb seq (e_seq (cfg_enr c)) then Some (cfg_enr c) else None)
                 (CEnc ke (cn, rr) (MReq (rc_rid r) (rc_body r)) aad)).
  assert (Hrr : ~ In rr (rpool d' ++ fut)).
  { apply (HF2 ltac:(discriminate) (cn, rr, aad, eph) t eq_refl). }
  (* state after re-inserting the request with the handshake packet and sending it *)
  assert (H4 : forall r', rc_pkt r' = auth ->
            KK hist (G ++ [ke; kd]) fut
               (send (with_hs {| hs := hs (with_hs s h1); dr := d'; outs := outs (with_hs s h1) |}
                        (ar_insert c (hs {| hs := hs (with_hs s h1); dr := d'; outs := outs (with_hs s h1) |})
                           (c_naddr ct) r' now)) (c_naddr ct) auth)).
  { intros r' Er'. unfold KK. cbn [send emit with_hs hs dr outs]. right.
    rewrite app_assoc.
    eapply K_state; [| apply ActSubH_ar_insert; unfold HP; rewrite Er'; intros _; apply InH_last].
    eapply (K_emit_hs _ G); [| exact (HandlerB_Trace.J_G2 _ _ _ HJ) | apply HF; left; reflexivity | exact Hrr |
                              apply incl_appl; apply incl_refl | apply in_or_app; right; left; reflexivity].
    eapply K_pool; [eapply K_state; [exact HK0 | exact Ha] |].
    unfold rpool. rewrite Ed. cbn [d' d_pk map app]. apply incl_tl. apply incl_refl. }
  destruct (c_enr ct) as [e |].
  - apply KQ_new_session. apply KK_emit_event. apply H4. reflexivity.
  - destruct (pop_rid _) as [irid d''] eqn:Ep.
    match goal with |- context [send_request c ?s5 ct false irid 0 now] =>
      pose proof (KQ_send_request c s5 ct false irid 0 now hist (G ++ [ke; kd]) fut) as H6;
      destruct (send_request c s5 ct false irid 0 now) as [s6 ok] end.
    cbn [fst] in H6.
    apply KQ_new_session. apply H6.
    match goal with |- KK _ _ _ {| hs := hs ?s4; dr := d''; outs := outs ?s4 |} =>
      apply (KK_dr hist (G ++ [ke; kd]) fut s4 d''); [| apply H4; reflexivity] end.
    replace d'' with (snd (pop_rid d')) by (cbn [send emit with_hs dr] in Ep; rewrite Ep; reflexivity).
    apply Sufd_pop_rid.
Qed.

(* ------------------------------------------------------------------------------------------ *)
(* the step and the run *)

(* the freshness hypothesis of a step: if the event makes the handler build a handshake packet
   ([hc_keys] is not empty: an accepted WHOAREYOU), the random part of the nonce it draws - the head
   of the draws the implicit tick left over - is not among the random parts drawn later ([fut]: those
   of the later steps) *)
Definition hs_fresh_at (c : config) (s0 : st) (e : event) (fut : list N) : Prop :=
  match e with
  | EvInbound from (PWho n idn seq cd) => hs_fresh c s0 from n cd fut
  | _ => True
  end.

Lemma KK_dispatch hist G fut c s0 e now :
  JJ hist G s0 -> KK hist G fut s0 ->
  (forall k, In k (installed_keys c s0 e) -> ~ In k G) -> hs_fresh_at c s0 e fut ->
  KK hist (G ++ installed_keys c s0 e) fut (dispatch c s0 e now).
Proof.
  intros HJ HK HF HF2.
  assert (Hmono : forall s', KK hist G fut s' -> KK hist (G ++ installed_keys c s0 e) fut s').
  { intros s'. apply KK_G. apply incl_appl. apply incl_refl. }
  destruct e as [ct rid body | na rid rb | na n known | from p |]; cbn [dispatch].
  - apply Hmono. pose proof (KQ_send_request c s0 ct true rid body now hist G fut HK) as H.
    destruct (send_request c s0 ct true rid body now) as [s1 ok]. cbn [fst] in H.
    destruct ok; [exact H | apply KK_emit_event; exact H].
  - apply Hmono. apply KQ_send_response. exact HK.
  - apply Hmono. apply KQ_send_challenge. exact HK.
  - destruct p as [src n aad ct | n idn seq cd | src n aad sg eph eph_ok rec ct].
    + apply Hmono. apply KQ_handle_message. exact HK.
    + cbn [installed_keys hs_fresh_at] in *. apply KK_handle_challenge; assumption.
    + apply Hmono. apply KQ_handle_auth_message. exact HK.
  - apply Hmono. exact HK.
Qed.

Local Transparent tick.
Lemma tick_KP c h now d : KP {| hs := h; dr := d; outs := [] |} (tick c h now d).
Proof. unfold tick. apply KP_fire_due. Qed.
Lemma tick_Sufd c h now d : Sufd d (dr (tick c h now d)).
Proof. unfold tick. apply (Suf_fire_due (with_clock c now) now TICK_FUEL {| hs := h; dr := d; outs := [] |}). Qed.
Global Opaque tick.

Definition run_rpool (evs : list (event * N * draws)) : list N := flat_map (fun x => rpool (snd x)) evs.

(* one step: history hist, ghost keys G, random parts still to be drawn: those of this step's draws and
   [fut] *)
Lemma K_step c h e now d hist G fut :
  HandlerB_Trace.J hist G h -> K hist G (rpool d ++ fut) h ->
  let ik := installed_keys c (tick c h now d) e in
  (forall k, In k ik -> ~ In k G) ->
  hs_fresh_at c (tick c h now d) e fut ->
  d_pk (dr (step_end c h e now d)) <> [] ->
  K (hist ++ snd (step c h e now d)) (G ++ ik) fut (fst (step c h e now d)).
Proof.
  intros HJ HK ik HF HF2 NE. rewrite step_eq. cbn [fst snd].
  destruct (tick_KP c h now d) as [TJ TK].
  assert (J0 : JJ hist G (tick c h now d)).
  { apply (TJ hist G). unfold JJ. cbn [outs hs]. rewrite app_nil_r. exact HJ. }
  assert (K0 : KK hist G fut (tick c h now d)).
  { apply (TK hist G G fut).
    - unfold JJ. cbn [outs hs]. rewrite app_nil_r. exact HJ.
    - right. cbn [outs hs dr]. rewrite app_nil_r. exact HK. }
  pose proof (KK_dispatch hist G fut (with_clock c now) (tick c h now d) e now J0 K0 HF HF2) as H1.
  fold (step_end c h e now d) in H1 |- *. unfold step_end in NE. fold (step_end c h e now d) in NE.
  destruct H1 as [Ex | H1]; [contradiction |].
  eapply K_pool; [exact H1 |]. apply incl_appr. apply incl_refl.
Qed.

(* the hypothesis on the random number generator: the 8 random bytes of a handshake nonce are not
   drawn again later in the run - neither in the rest of the draws of the step that builds the
   handshake packet nor in the draws of the later steps.  Nothing is said about the draws of steps that
   build no handshake packet, nor about the other three components of a draw. *)
Fixpoint fresh_hs_nonces (c : config) (h : hstate) (evs : list (event * N * draws)) : Prop :=
  match evs with
  | [] => True
  | (e, now, d) :: rest =>
    hs_fresh_at c (tick c h now d) e (run_rpool rest) /\ fresh_hs_nonces c (fst (step c h e now d)) rest
  end.

Lemma JK_run c evs : forall h hist G,
  HandlerB_Trace.J hist G h -> K hist G (run_rpool evs) h ->
  fresh_installs c h G evs -> fresh_hs_nonces c h evs -> draws_suffice c h evs ->
  exists G', HandlerB_Trace.J (hist ++ concat (snd (run c h evs))) G' (fst (run c h evs)) /\
             K (hist ++ concat (snd (run c h evs))) G' [] (fst (run c h evs)).
Proof.
  induction evs as [| [[e now] d] rest IH]; intros h hist G HJ HK HF HN HS.
  - exists G. cbn [run fst snd concat]. rewrite app_nil_r. split; [exact HJ | exact HK].
  - cbn [fresh_installs] in HF. destruct HF as [HF1 HF2].
    cbn [fresh_hs_nonces] in HN. destruct HN as [HN1 HN2].
    cbn [draws_suffice] in HS. destruct HS as [HS1 HS2].
    pose proof (J_step c h e now d hist G HJ HF1) as J1. cbn zeta in J1.
    assert (HK' : K hist G (rpool d ++ run_rpool rest) h) by exact HK.
    pose proof (K_step c h e now d hist G (run_rpool rest) HJ HK' HF1 HN1 HS1) as K1. cbn zeta in K1.
    destruct (IH _ _ _ J1 K1 HF2 HN2 HS2) as [G' [J2 K2]]. exists G'.
    rewrite run_snd_cons, run_fst_cons. cbn [concat]. rewrite app_assoc. split; assumption.
Qed.

(* no_nonce_reuse.  In every run from the initial state - all events, times, configurations - any two
   datagrams emitted (in any steps) that carry ciphertexts under the same key with the same 12-byte
   nonce, message packets or handshake packets, are the same packet: a byte-identical retransmission.
   Hypotheses, all three about the random number generator:
   - [fresh_installs]: key terms are not installed twice (freshness of the (ephemeral key, challenge
     data) draws of distinct handshakes);
   - [fresh_hs_nonces]: the 8 random bytes of the nonce of a handshake packet are not drawn again later
     in the run.  Needed because the handshake message is encrypted under the new initiator key with a
     raw random nonce (cn, rr), and the later message packets under that key carry (counter, r): the
     two collide iff cn = counter and r = rr;
   - [draws_suffice]: no step exhausts the draws it is given (the model's oracle then returns zeros). *)
Theorem no_nonce_reuse c evs :
  fresh_installs c init_state [] evs -> fresh_hs_nonces c init_state evs -> draws_suffice c init_state evs ->
  NoReuseAll (concat (snd (run c init_state evs))).
Proof.
  intros HF HN HS.
  destruct (JK_run c evs init_state [] [] (J_init []) (K_init [] _) HF HN HS) as [G' [HJ HK]].
  cbn [app] in HJ, HK. intros o1 o2 k n p1 p2 H1 H2 E1 E2.
  destruct (apkt_of_cases _ _ E1) as [C1 | C1]; destruct (apkt_of_cases _ _ E2) as [C2 | C2].
  - exact (HandlerB_Trace.J_D _ _ _ HJ _ _ _ _ _ _ H1 H2 C1 C2).
  - exfalso. exact (K_X _ _ _ _ HK _ _ _ _ _ _ H2 H1 C2 C1).
  - exfalso. exact (K_X _ _ _ _ HK _ _ _ _ _ _ H1 H2 C1 C2).
  - exact (K_D _ _ _ _ HK _ _ _ _ _ _ _ H1 H2 C1 C2).
Qed.

(* the same, spelled out on packets: [pkt_ct p] is the ciphertext a datagram carries *)
Definition pkt_ct (p : packet) : option ctext :=
  match p with PMsg _ _ _ ct => Some ct | PHs _ _ _ _ _ _ _ ct => Some ct | PWho _ _ _ _ => None end.

Lemma apkt_of_ct d p k n m a : pkt_ct p = Some (CEnc k n m a) -> apkt_of (OWire d p) = Some (k, n, p).
Proof. destruct p as [s n0 a0 ct | | s n0 a0 sg e ok rc ct]; cbn; try discriminate; intros H; inversion H; reflexivity. Qed.

Corollary no_nonce_reuse_all_packets c evs d1 d2 p1 p2 k n m m' a a' :
  fresh_installs c init_state [] evs -> fresh_hs_nonces c init_state evs -> draws_suffice c init_state evs ->
  let W := concat (snd (run c init_state evs)) in
  In (OWire d1 p1) W -> In (OWire d2 p2) W ->
  pkt_ct p1 = Some (CEnc k n m a) -> pkt_ct p2 = Some (CEnc k n m' a') ->
  p1 = p2.
Proof.
  intros HF HN HS W H1 H2 C1 C2.
  exact (no_nonce_reuse c evs HF HN HS _ _ k n _ _ H1 H2 (apkt_of_ct _ _ _ _ _ _ C1) (apkt_of_ct _ _ _ _ _ _ C2)).
Qed.

(* in particular: the nonce of a handshake ciphertext differs from the nonce of every message
   ciphertext under the same key *)
Corollary hs_msg_nonces_differ c evs d1 d2 s1 n1 a1 sg eph ok rc s2 n2 a2 k n n' m m' a a' :
  fresh_installs c init_state [] evs -> fresh_hs_nonces c init_state evs -> draws_suffice c init_state evs ->
  let W := concat (snd (run c init_state evs)) in
  In (OWire d1 (PHs s1 n1 a1 sg eph ok rc (CEnc k n m a))) W ->
  In (OWire d2 (PMsg s2 n2 a2 (CEnc k n' m' a'))) W ->
  n <> n'.
Proof.
  intros HF HN HS W H1 H2 E. subst n'.
  pose proof (no_nonce_reuse_all_packets c evs _ _ _ _ k n m m' a a' HF HN HS H1 H2 eq_refl eq_refl) as X.
  discriminate X.
Qed.

(* ------------------------------------------------------------------------------------------ *)
(* [fresh_hs_nonces] follows from the plain statement "the random 8-byte parts of all nonces drawn in
   the run are pairwise distinct" (which is much stronger: under it ALL nonces differ, counters or
   not) *)

Lemma run_rpool_pool evs : run_rpool evs = map snd (run_pool evs).
Proof.
  unfold run_rpool, run_pool. induction evs as [| x evs IH]; cbn [flat_map map]; [reflexivity |].
  rewrite map_app, IH. f_equal. unfold rpool, pool. rewrite map_map. reflexivity.
Qed.

Lemma NoDup_app_l {A} (l1 l2 : list A) : NoDup (l1 ++ l2) -> NoDup l1.
Proof.
  induction l1 as [| a l1 IH]; cbn [app]; [constructor |]. intros H. inversion H; subst.
  constructor; [intros Hin; apply H2; apply in_or_app; left; exact Hin | apply IH; exact H3].
Qed.

Lemma distinct_fresh_hs_nonces c evs : forall h, NoDup (run_rpool evs) -> fresh_hs_nonces c h evs.
Proof.
  induction evs as [| [[e now] d] rest IH]; intros h HN; cbn [fresh_hs_nonces]; [exact I |].
  unfold run_rpool in HN. cbn [flat_map snd] in HN. fold (run_rpool rest) in HN. split.
  - destruct e as [| | | from [| n idn seq cd |] |]; cbn [hs_fresh_at]; try exact I.
    intros _ q t Ed. destruct (tick_Sufd c h now d) as [p Ep]. rewrite Ed in Ep.
    unfold rpool in HN. rewrite Ep, map_app in HN. cbn [map] in HN. rewrite <- app_assoc in HN.
    apply NoDup_suffix in HN. cbn [app] in HN. inversion HN; subst. assumption.
  - apply IH. eapply NoDup_suffix. exact HN.
Qed.

Corollary no_nonce_reuse_distinct_draws c evs :
  fresh_installs c init_state [] evs -> NoDup (run_rpool evs) -> draws_suffice c init_state evs ->
  NoReuseAll (concat (snd (run c init_state evs))).
Proof. intros HF HN HS. apply no_nonce_reuse; [exact HF | apply distinct_fresh_hs_nonces; exact HN | exact HS]. Qed.

(* ------------------------------------------------------------------------------------------ *)
(* Examples.  (1) The three hypotheses are jointly satisfiable by a run with a handshake packet, its
   retransmission by the request timer and later message packets under the same key.  (2)-(4) Each
   hypothesis is needed: a run that satisfies the other two and in which two DIFFERENT datagrams share
   key and nonce. *)
From Discv5V Require Import Proofs.HandlerB_Examples.

Definition Reuse (W : list output) : Prop :=
  exists o1 o2 k n p1 p2, In o1 W /\ In o2 W /\ apkt_of o1 = Some (k, n, p1) /\ apkt_of o2 = Some (k, n, p2) /\ p1 <> p2.
Lemma Reuse_not W : Reuse W -> ~ NoReuseAll W.
Proof. intros [o1 [o2 [k [n [p1 [p2 [H1 [H2 [E1 [E2 Hne]]]]]]]]]] HN. exact (Hne (HN _ _ _ _ _ _ H1 H2 E1 E2)). Qed.

(* what a run put on the wire: per datagram, whether it is a handshake packet, and key and nonce of
   its ciphertext *)
Definition wire_summary (W : list output) : list (option (bool * key * nonce)) :=
  map (fun o => match o with
                | OWire _ (PMsg _ _ _ (CEnc k n _ _)) => Some (false, k, n)
                | OWire _ (PHs _ _ _ _ _ _ _ (CEnc k n _ _)) => Some (true, k, n)
                | _ => None
                end) W.

Ltac hyp_tac :=
  vm_compute;
  repeat match goal with
  | |- _ /\ _ => split
  | |- True => exact I
  | |- ~ _ => intro
  | |- forall _, _ => intro
  | H : False |- _ => destruct H
  | H : _ \/ _ |- _ => destruct H
  | H : _ :: _ = _ :: _ |- _ => inversion H; clear H; subst
  | H : In _ _ |- _ => cbn in H
  end; try discriminate; try congruence.

(* retries 3: the request timer sends a request again *)
Definition hs_cfg : config :=
  {| cfg_local := 1; cfg_enr := {| e_id := 1; e_seq := 1; e_ip4 := None; e_ip6 := None |};
     cfg_retries := 3; cfg_timeout := 1000; cfg_listen := []; cfg_capacity := 10%nat;
     cfg_session_ttl := 1000000; cfg_clock := 0; cfg_grid := 0;
     fix_d1 := true; fix_d2a := true; fix_d2b := true; fix_d6 := true |}.
Definition ke8 : key := mk_key 9 8 6 1 8 false.

(* (1) request 20 to node 8 (random packet), its WHOAREYOU, our handshake packet with nonce (5, 5) under
   ke8; at time 2000 the request timer sends the handshake packet again; requests 21 and 22 go out as
   message packets under ke8 with nonces (1, 70) and (2, 71) *)
Definition evs_hs (cn rr : N) (d21 : list (N * N * N * N)) : list (event * N * draws) :=
  [ (EvRequest ct8 20 0, 10, dk [(4, 4, 60, 0); (0, 1, 0, 0)]);
    (EvInbound 200 (PWho (4, 4) 12 0 6), 11, dk [(cn, rr, 61, 9); (0, 2, 0, 0)]);
    (EvTick, 2000, dk [(0, 3, 0, 0)]);
    (EvRequest ct8 21 0, 2010, dk d21);
    (EvRequest ct8 22 0, 2020, dk [(8, 71, 63, 0); (0, 7, 0, 0)]) ].
Definition evs_hs_ok := evs_hs 5 5 [(8, 70, 62, 0); (0, 6, 0, 0)].

Example evs_hs_ok_wire :
  wire_summary (concat (snd (run hs_cfg init_state evs_hs_ok))) =
  [None; Some (true, ke8, (5, 5)); None; Some (true, ke8, (5, 5)); Some (false, ke8, (1, 70)); Some (false, ke8, (2, 71))].
Proof. vm_compute. reflexivity. Qed.
Example evs_hs_ok_installs : fresh_installs hs_cfg init_state [] evs_hs_ok.
Proof. hyp_tac. Qed.
Example evs_hs_ok_nonces : fresh_hs_nonces hs_cfg init_state evs_hs_ok.
Proof. hyp_tac. Qed.
Example evs_hs_ok_draws : draws_suffice hs_cfg init_state evs_hs_ok.
Proof. hyp_tac. Qed.
Example evs_hs_ok_no_reuse : NoReuseAll (concat (snd (run hs_cfg init_state evs_hs_ok))).
Proof. apply no_nonce_reuse; [exact evs_hs_ok_installs | exact evs_hs_ok_nonces | exact evs_hs_ok_draws]. Qed.

(* (2) [fresh_hs_nonces] is needed: the handshake nonce is (1, 5) and the 8 random bytes 5 are drawn
   again for request 21, whose counter is 1: handshake packet and message packet under ke8 with nonce
   (1, 5).  The 12-byte nonces of the draws, (1, 5) and (8, 5), are distinct: distinctness of the
   drawn 12-byte nonces ([NoDup (run_pool evs)]) is not enough. *)
Definition evs_hs_clash := evs_hs 1 5 [(8, 5, 62, 0); (0, 6, 0, 0)].
Example hs_nonce_freshness_needed :
  fresh_installs hs_cfg init_state [] evs_hs_clash /\ draws_suffice hs_cfg init_state evs_hs_clash /\
  NoDup (run_pool evs_hs_clash) /\
  ~ fresh_hs_nonces hs_cfg init_state evs_hs_clash /\
  Reuse (concat (snd (run hs_cfg init_state evs_hs_clash))).
Proof.
  split; [hyp_tac | split; [hyp_tac | split; [| split]]].
  - vm_compute. repeat constructor; cbn; intuition discriminate.
  - intros [_ [H _]]. vm_compute in H.
    apply (H ltac:(discriminate) (1, 5, 61, 9) [(0, 2, 0, 0)] eq_refl). vm_compute. tauto.
  - exists (OWire (8, 200) (PHs 1 (1, 5) 61 (Sig 1 6 9 8) 9 true (Some (cfg_enr hs_cfg)) (CEnc ke8 (1, 5) (MReq 20 0) 61))),
           (OWire (8, 200) (PMsg 1 (1, 5) 62 (CEnc ke8 (1, 5) (MReq 21 0) 62))), ke8, (1, 5). do 2 eexists.
    split; [vm_compute; tauto | split; [vm_compute; tauto | split; [reflexivity | split; [reflexivity | discriminate]]]].
Qed.

(* (3) [draws_suffice] is needed: the handshake nonce is (1, 0); the step of request 21 is given no
   draws, the model's oracle returns zeros and the message nonce is (1, 0) *)
Definition evs_hs_dry := evs_hs 1 0 [].
Example draws_suffice_needed :
  fresh_installs hs_cfg init_state [] evs_hs_dry /\ fresh_hs_nonces hs_cfg init_state evs_hs_dry /\
  ~ draws_suffice hs_cfg init_state evs_hs_dry /\
  Reuse (concat (snd (run hs_cfg init_state evs_hs_dry))).
Proof.
  split; [hyp_tac | split; [hyp_tac | split]].
  - intros [_ [_ [_ [H _]]]]. vm_compute in H. apply H. reflexivity.
  - exists (OWire (8, 200) (PHs 1 (1, 0) 61 (Sig 1 6 9 8) 9 true (Some (cfg_enr hs_cfg)) (CEnc ke8 (1, 0) (MReq 20 0) 61))),
           (OWire (8, 200) (PMsg 1 (1, 0) 0 (CEnc ke8 (1, 0) (MReq 21 0) 0))), ke8, (1, 0). do 2 eexists.
    split; [vm_compute; tauto | split; [vm_compute; tauto | split; [reflexivity | split; [reflexivity | discriminate]]]].
Qed.

(* (4) [fresh_installs] is needed: the session with node 8 expires (time to live 100), request 22 at
   time 5000 starts a second handshake, and the oracle returns the ephemeral key 9 again while node 8
   repeats its challenge data 6: the same key ke8 is installed in a new session whose counter restarts
   at 0.  Requests 21 and 23 are both encrypted under ke8 with nonce (1, 70) - the 8 random bytes of a
   MESSAGE nonce may repeat, that is what the counter is for.  The random parts of the two handshake
   nonces (5 and 15) are not drawn again. *)
Definition exp_cfg : config :=
  {| cfg_local := 1; cfg_enr := {| e_id := 1; e_seq := 1; e_ip4 := None; e_ip6 := None |};
     cfg_retries := 1; cfg_timeout := 1000; cfg_listen := []; cfg_capacity := 10%nat;
     cfg_session_ttl := 100; cfg_clock := 0; cfg_grid := 0;
     fix_d1 := true; fix_d2a := true; fix_d2b := true; fix_d6 := true |}.
Definition evs_rekey : list (event * N * draws) :=
  [ (EvRequest ct8 20 0, 10, dk [(4, 4, 60, 0); (0, 1, 0, 0)]);
    (EvInbound 200 (PWho (4, 4) 12 0 6), 11, dk [(5, 5, 61, 9); (0, 2, 0, 0)]);
    (EvRequest ct8 21 0, 20, dk [(8, 70, 62, 0); (0, 3, 0, 0)]);
    (EvRequest ct8 22 0, 5000, dk [(14, 14, 63, 0); (0, 6, 0, 0)]);
    (EvInbound 200 (PWho (14, 14) 13 0 6), 5001, dk [(15, 15, 64, 9); (0, 7, 0, 0)]);
    (EvRequest ct8 23 0, 5002, dk [(8, 70, 65, 0); (0, 8, 0, 0)]) ].
Example evs_rekey_wire :
  wire_summary (concat (snd (run exp_cfg init_state evs_rekey))) =
  [None; Some (true, ke8, (5, 5)); None; Some (false, ke8, (1, 70)); None; None; None;
   Some (true, ke8, (15, 15)); None; Some (false, ke8, (1, 70))].
Proof. vm_compute. reflexivity. Qed.
Example fresh_installs_needed :
  fresh_hs_nonces exp_cfg init_state evs_rekey /\ draws_suffice exp_cfg init_state evs_rekey /\
  ~ fresh_installs exp_cfg init_state [] evs_rekey /\
  Reuse (concat (snd (run exp_cfg init_state evs_rekey))).
Proof.
  split; [hyp_tac | split; [hyp_tac | split]].
  - intros [_ [_ [_ [_ [H _]]]]]. vm_compute in H. apply (H ke8); vm_compute; tauto.
  - exists (OWire (8, 200) (PMsg 1 (1, 70) 62 (CEnc ke8 (1, 70) (MReq 21 0) 62))),
           (OWire (8, 200) (PMsg 1 (1, 70) 65 (CEnc ke8 (1, 70) (MReq 23 0) 65))), ke8, (1, 70). do 2 eexists.
    split; [vm_compute; tauto | split; [vm_compute; tauto | split; [reflexivity | split; [reflexivity | discriminate]]]].
Qed.
