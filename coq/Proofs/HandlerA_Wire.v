(* C04 - the two statements of the property text that Properties/C04.v lists as not proved:

     "A request is put on the wire at most 1+retries times per session key"       (wire_bound)
     "a timeout is reported only if some request to that peer really went
      unanswered for a full timeout period"                                        (timeout_justified)

   Statements about Model/Handler.v over whole runs from the initial state (any events, times and
   oracle draws).  The invariants and their preservation by every handler function are in
   Proofs/HandlerA_Wire2.v (wire_bound) and Proofs/HandlerA_Wire3.v (timeout_justified); this file
   states the theorems in self-explanatory terms, shows the hypotheses are satisfiable (and needed)
   on concrete runs, and pins the statements. *)
From Coq Require Import List Arith NArith Bool Lia.
From Discv5V Require Import Model.Handler Proofs.HandlerInv Proofs.HandlerA_Ledger Proofs.HandlerA_Nonce.
From Discv5V Require Import Proofs.HandlerB_Base Proofs.HandlerB_Trace3.
From Discv5V Require Import Proofs.HandlerA_Wire2 Proofs.HandlerA_Wire3 Proofs.HandlerA_Wire4.
Import ListNotations.

(* ------------------------------------------------------------------------------------------ *)
(* wire_bound *)

(* a datagram whose message is the ciphertext of a request with id [rid] under key [k]: an ordinary
   message packet or a handshake packet *)
Definition is_req_datagram (rid : N) (k : key) (o : output) : bool :=
  match o with
  | OWire _ (PMsg _ _ _ (CEnc k' _ (MReq rid' _) _)) => N.eqb rid' rid && key_eqb k' k
  | OWire _ (PHs _ _ _ _ _ _ _ (CEnc k' _ (MReq rid' _) _)) => N.eqb rid' rid && key_eqb k' k
  | _ => false
  end.
Definition req_datagrams (rid : N) (k : key) (W : list output) : nat := length (filter (is_req_datagram rid k) W).

Lemma is_req_datagram_carries rid k o :
  is_req_datagram rid k o = match o with OWire _ p => carries rid k p | OEvent _ => false end.
Proof.
  destruct o as [e|d p]; [reflexivity|]. unfold carries.
  destruct p as [s n a [k' n' [r b|r b|j] a'|j]|n i s cd|s n a sg eph ok rec [k' n' [r b|r b|j] a'|j]]; reflexivity.
Qed.
Lemma req_datagrams_wcnt rid k W : req_datagrams rid k W = wcnt rid k W.
Proof.
  unfold req_datagrams. rewrite wcnt_filter. f_equal. apply filter_ext. intros o. apply is_req_datagram_carries.
Qed.

(* wire_bound.  In any run from the initial state - any events, times and draws - in which the request
   ids are fresh ([NoDup (run_new_ids evs)]: the ids the application submits and the internal ids the
   handler draws are pairwise distinct; the hypothesis of C04 part 1) and key terms are not installed
   twice ([fresh_installs]: freshness of the ephemeral-key / id-nonce draws; the hypothesis of C19):
   for every request id and every key, at most max(1, retries) of all datagrams emitted in the run
   carry that request under that key.  The bound is the tightest possible: the transmission counter
   of a request starts at 1 and the timeout handler re-sends while it is below cfg_retries. *)
Theorem wire_bound : forall c evs rid k,
  NoDup (run_new_ids evs) -> fresh_installs c init_state [] evs ->
  req_datagrams rid k (concat (snd (run c init_state evs))) <= N.to_nat (N.max 1 (cfg_retries c)).
Proof. intros c evs rid k Hn HF. rewrite req_datagrams_wcnt. apply wire_bound_run; assumption. Qed.

(* the bound of the property text: "at most 1+retries times per session key" *)
Corollary wire_bound_property_text : forall c evs rid k,
  NoDup (run_new_ids evs) -> fresh_installs c init_state [] evs ->
  req_datagrams rid k (concat (snd (run c init_state evs))) <= 1 + N.to_nat (cfg_retries c).
Proof. intros c evs rid k Hn HF. pose proof (wire_bound c evs rid k Hn HF). lia. Qed.

(* The hypotheses are satisfiable and the bound is reached: in the run ex_outcome_events (session
   established by a handshake, request 100 answered, request 101 never answered; cfg_retries = 2)
   request 101 is transmitted exactly twice under the session key and then fails with a timeout. *)
Local Open Scope N_scope.
Definition ex_ke : key := mk_key 63 2 9 1 2 false.

Example ex_outcome_installs : fresh_installs (ex_cfg true) init_state [] ex_outcome_events.
Proof. vm_compute. repeat split; intros; intuition (subst; discriminate). Qed.

Example wire_bound_reached :
  NoDup (run_new_ids ex_outcome_events) /\ fresh_installs (ex_cfg true) init_state [] ex_outcome_events /\
  let W := concat (snd (run (ex_cfg true) init_state ex_outcome_events)) in
  req_datagrams 101 ex_ke W = N.to_nat (N.max 1 (cfg_retries (ex_cfg true))) /\
  req_datagrams 100 ex_ke W = 1%nat /\
  last W (OEvent (HRequestFailed 0 1)) = OEvent (HRequestFailed 101 ERR_TIMEOUT).
Proof.
  split; [exact ex_outcome_fresh|]. split; [exact ex_outcome_installs|]. vm_compute. repeat split.
Qed.

(* Both hypotheses are needed.  (1) Request ids: if the application submits the same id twice to a peer
   with an established session, both copies are transmitted cfg_retries times under the session key. *)
Definition ex_dup_events : list (event * N * draws) :=
  [ (EvRequest ex_peer 100 7, 0, ex_draws 50);
    (EvInbound 20 (PWho (50, 51) 1 0 9), 10, ex_draws 60);
    (EvInbound 20 (ex_resp (1, 1) 100 (ROther 1)), 20, ex_draws 70);
    (EvRequest ex_peer 101 8, 40, ex_draws 90);
    (EvRequest ex_peer 101 8, 41, ex_draws 95);
    (EvTick, 5000, ex_draws 100) ].
Example wire_bound_needs_fresh_ids :
  ~ NoDup (run_new_ids ex_dup_events) /\ fresh_installs (ex_cfg true) init_state [] ex_dup_events /\
  req_datagrams 101 ex_ke (concat (snd (run (ex_cfg true) init_state ex_dup_events))) = 4%nat.
Proof.
  split; [|split].
  - intros H. rewrite (NoDup_count_occ N.eq_dec) in H. specialize (H 101%N). vm_compute in H. lia.
  - vm_compute. repeat split; intros; intuition (subst; discriminate).
  - vm_compute. reflexivity.
Qed.

(* (2) Key terms: request 101 goes out under the session key; the peer answers with a WHOAREYOU that
   repeats the challenge data of the first handshake, and the oracle repeats the ephemeral key: the
   handshake packet carries request 101 under the SAME key term, and the timeout handler re-sends
   it: three datagrams with (101, key), retries = 2. *)
Definition ex_rekey_events : list (event * N * draws) :=
  [ (EvRequest ex_peer 100 7, 0, ex_draws 50);
    (EvInbound 20 (PWho (50, 51) 1 0 9), 10, ex_draws 60);
    (EvInbound 20 (ex_resp (1, 1) 100 (ROther 1)), 20, ex_draws 70);
    (EvRequest ex_peer 101 8, 40, ex_draws 90);
    (EvInbound 20 (PWho (1, 91) 1 0 9), 50, {| d_pk := [(60, 61, 62, 63)]; d_rid := [777]; d_rev := [] |});
    (EvTick, 5000, ex_draws 100) ].
Example wire_bound_needs_fresh_installs :
  NoDup (run_new_ids ex_rekey_events) /\ ~ fresh_installs (ex_cfg true) init_state [] ex_rekey_events /\
  req_datagrams 101 ex_ke (concat (snd (run (ex_cfg true) init_state ex_rekey_events))) = 3%nat.
Proof.
  split; [|split].
  - vm_compute. repeat constructor; cbn; intuition discriminate.
  - vm_compute. intros (_ & _ & _ & _ & H & _). apply (H ex_ke); left; reflexivity.
  - vm_compute. reflexivity.
Qed.
Local Close Scope N_scope.

(* ------------------------------------------------------------------------------------------ *)
(* the companion for random packets *)

(* a random packet (sent when there is no session with the contact) with the 12-byte nonce n *)
Definition is_random_datagram (n : nonce) (o : output) : bool :=
  match o with
  | OWire _ (PMsg _ n' _ (CJunk _)) => nonce_eqb n' n
  | _ => false
  end.
Definition random_datagrams (n : nonce) (W : list output) : nat := length (filter (is_random_datagram n) W).

Lemma random_datagrams_jcnt n W : random_datagrams n W = jcnt n W.
Proof.
  unfold random_datagrams. rewrite jcnt_filter. f_equal. apply filter_ext. intros o.
  destruct o as [e|d p]; [reflexivity|]. unfold jcar.
  destruct p as [s n' a [k n'' m a'|j]|n' i s cd|s n' a sg eph ok rec ct]; reflexivity.
Qed.

(* random_bound.  A random packet carries no request; what identifies it on the wire is its 12-byte
   nonce, an oracle draw.  In any run in which the nonces of all draws are pairwise distinct
   ([NoDup (run_pool evs)]) and no step exhausts the draws it is given ([draws_suffice]; pop_pk on an
   exhausted list returns zeros) - both statements about rand - at most max(1, retries) random packets
   with one and the same nonce are emitted: the random packet of a request is transmitted at most
   max(1, retries) times.  No hypothesis on request ids or session keys. *)
Theorem random_bound : forall c evs n,
  NoDup (run_pool evs) -> draws_suffice c init_state evs ->
  random_datagrams n (concat (snd (run c init_state evs))) <= N.to_nat (N.max 1 (cfg_retries c)).
Proof. intros c evs n Hn HS. rewrite random_datagrams_jcnt. apply random_bound_run; assumption. Qed.

(* the hypotheses are satisfiable and the bound is reached: a request to a peer without a session is
   sent as a random packet, re-sent once by the timeout handler (retries = 2) and then failed *)
Local Open Scope N_scope.
Definition ex_random_events : list (event * N * draws) :=
  [ (EvRequest ex_peer 100 7, 0, ex_draws2 50);
    (EvTick, 5000, ex_draws2 60);
    (EvTick, 10000, ex_draws2 70) ].
Example random_bound_reached :
  NoDup (run_pool ex_random_events) /\ draws_suffice (ex_cfg true) init_state ex_random_events /\
  let W := concat (snd (run (ex_cfg true) init_state ex_random_events)) in
  random_datagrams (50, 51) W = N.to_nat (N.max 1 (cfg_retries (ex_cfg true))) /\
  last W (OEvent (HRequestFailed 0 1)) = OEvent (HRequestFailed 100 ERR_TIMEOUT).
Proof.
  split; [|split].
  - vm_compute. repeat constructor; cbn; intuition discriminate.
  - vm_compute. repeat split; discriminate.
  - vm_compute. split; reflexivity.
Qed.

(* the freshness of the nonce draws is needed: two requests (to two peers without sessions) get
   random packets with the same nonce; three such datagrams are emitted (the second insertion into the
   nonce map replaces the timer of the first request, which is therefore not re-sent) *)
Definition ex_peer3 : contact := {| c_id := 3; c_addr := 30; c_enr := Some (ex_enr 3 30); c_ed := false |}.
Definition ex_random_dup_events : list (event * N * draws) :=
  [ (EvRequest ex_peer 100 7, 0, ex_draws2 50);
    (EvRequest ex_peer3 101 7, 1, ex_draws2 50);
    (EvTick, 5000, ex_draws2 60) ].
Example random_bound_needs_fresh_nonces :
  ~ NoDup (run_pool ex_random_dup_events) /\ draws_suffice (ex_cfg true) init_state ex_random_dup_events /\
  random_datagrams (50, 51) (concat (snd (run (ex_cfg true) init_state ex_random_dup_events))) = 3%nat.
Proof.
  split; [|split].
  - intros H. apply NoDup_cons_iff in H. destruct H as [H _]. apply H. vm_compute. right. left. reflexivity.
  - vm_compute. repeat split; discriminate.
  - vm_compute. reflexivity.
Qed.
Local Close Scope N_scope.

(* ------------------------------------------------------------------------------------------ *)
(* timeout_justified *)

(* [request_to h rid na]: the handler state h holds (stored as an active request, or queued) a request
   with id rid whose contact has node address na *)
Definition request_to (h : hstate) (rid : N) (na : naddr) : Prop :=
  (exists key l r, In (key, l) (active h) /\ In r l /\ rc_rid r = rid /\ c_naddr (rc_contact r) = na) \/
  (exists key l q, In (key, l) (pending h) /\ In q l /\ pq_rid q = rid /\ c_naddr (pq_contact q) = na).

Lemma HeldC_request_to h rid na : HeldC h rid na <-> request_to h rid na.
Proof.
  unfold HeldC, request_to, StoredIn. split.
  - intros [(r & (k & l & H1 & H2) & H3 & H4)|(q & (k & l & H1 & H2) & H3 & H4)]; [left|right]; eauto 8.
  - intros [(k & l & r & H1 & H2 & H3 & H4)|(k & l & q & H1 & H2 & H3 & H4)]; [left; exists r|right; exists q]; eauto 8.
Qed.

(* requests are stored and queued under the node address of their contact, in every reachable state *)
Theorem stored_under_contact : forall c evs,
  let h := fst (run c init_state evs) in
  (forall na l r, In (na, l) (active h) -> In r l -> c_naddr (rc_contact r) = na) /\
  (forall na l q, In (na, l) (pending h) -> In q l -> c_naddr (pq_contact q) = na).
Proof. intros c evs. exact (reachable_KeyWF c evs). Qed.

(* the deadlines of the request timers: a timer in the nonce map after a step was there before the
   step, or the step armed it with deadline t0 + cfg_timeout, where t0 is the time of the step or
   (clock grid) the fire time of a timer that the step's timer stream fired *)
Theorem timer_deadline_origin : forall c h e now d n na dl,
  In (n, na, dl) (nmap (fst (step c h e now d))) ->
  In (n, na, dl) (nmap h) \/
  exists t0, (t0 = now \/ exists d0, (d0 < now)%N /\ t0 = fire_time c d0 now) /\ dl = (t0 + cfg_timeout c)%N.
Proof. exact step_timer_origin. Qed.

(* timeout_justified, step level.  If a step at time [now] from a state h (with requests stored under
   the address of their contact: every reachable state) reports ERR_TIMEOUT for request rid, then there
   is a request timer (n, na, dl) whose deadline has passed, dl < now - a timer of h, or (clock grid
   only) one armed by the timer stream of this step at a fire time t - and rid is a request to the
   node address na of that timer, held in h.  (The report comes from fire_request ->
   handle_request_timeout of that timer: for its own request, or through fail_session for the other
   requests to the same node address, active or queued, which get the same error.) *)
Theorem timeout_justified_step : forall c h e now d rid,
  KeyWF h ->
  In (OEvent (HRequestFailed rid ERR_TIMEOUT)) (snd (step c h e now d)) ->
  exists n na dl, (dl < now)%N /\ request_to h rid na /\
    (In (n, na, dl) (nmap h) \/
     exists t, (exists d0, (d0 < now)%N /\ t = fire_time c d0 now) /\ dl = (t + cfg_timeout c)%N).
Proof.
  intros c h e now d rid K Hin.
  destruct (step_timeout_due c h e now d rid K Hin) as (n & na & dl & H1 & H2 & H3).
  exists n, na, dl. split; [exact H1|split; [apply HeldC_request_to; exact H3|exact H2]].
Qed.

(* timeout_justified, runs.  In any run from the initial state: if the step (e, now, d) that follows
   the events [pre] reports ERR_TIMEOUT for request rid, then there are a node address na - rid is a
   request to na, held before the step - and a request timer (n, na, t0 + cfg_timeout) with
   t0 + cfg_timeout < now such that
   - the timer was armed at time t0 by an earlier step (e1, t1, d1) of the run (t0 = t1, or with a
     clock grid a fire time of that step's timer stream) and is in the nonce map after that step and
     after every later step up to the report: the request it belongs to stayed unanswered for more
     than a full timeout period (a response removes the entry or re-arms it with a new deadline); or
   - (clock grid only) the timer was armed by the timer stream of the reporting step itself, at an
     earlier fire time t0 of that step. *)
Theorem timeout_justified : forall c pre e now d rid,
  let h := fst (run c init_state pre) in
  In (OEvent (HRequestFailed rid ERR_TIMEOUT)) (snd (step c h e now d)) ->
  exists n na t0,
    (t0 + cfg_timeout c < now)%N /\ request_to h rid na /\
    ((exists pre1 e1 t1 d1 mid,
        pre = pre1 ++ (e1, t1, d1) :: mid /\
        (t0 = t1 \/ exists d0, (d0 < t1)%N /\ t0 = fire_time c d0 t1) /\
        forall mid1 mid2, mid = mid1 ++ mid2 ->
          In (n, na, (t0 + cfg_timeout c)%N) (nmap (fst (run c init_state (pre1 ++ (e1, t1, d1) :: mid1)))))
     \/ (exists d0, (d0 < now)%N /\ t0 = fire_time c d0 now)).
Proof.
  intros c pre e now d rid h Hin.
  destruct (timeout_justified_run c pre e now d rid Hin) as (n & na & dl & t0 & Hdl & Hlt & Hh & Ha).
  exists n, na, t0. split; [exact Hlt|split; [apply HeldC_request_to; exact Hh|]].
  destruct Ha as [(pre1 & e1 & t1 & d1 & mid & E & Hat & _ & Hc)|Ht]; [left|right; exact Ht].
  exists pre1, e1, t1, d1, mid. split; [exact E|split; [exact Hat|]]. rewrite <- Hdl. exact Hc.
Qed.

(* ... without a clock grid (cfg_grid = 0: timers fire, and are re-armed, at the time of the step that
   finds them expired): the timer was armed at the time t1 of an earlier step, t1 + cfg_timeout < now,
   and has been in the nonce map ever since *)
Theorem timeout_justified_nogrid : forall c pre e now d rid,
  cfg_grid c = 0%N ->
  let h := fst (run c init_state pre) in
  In (OEvent (HRequestFailed rid ERR_TIMEOUT)) (snd (step c h e now d)) ->
  exists n na pre1 e1 t1 d1 mid,
    pre = pre1 ++ (e1, t1, d1) :: mid /\ (t1 + cfg_timeout c < now)%N /\ request_to h rid na /\
    forall mid1 mid2, mid = mid1 ++ mid2 ->
      In (n, na, (t1 + cfg_timeout c)%N) (nmap (fst (run c init_state (pre1 ++ (e1, t1, d1) :: mid1)))).
Proof.
  intros c pre e now d rid Eg h Hin.
  destruct (timeout_justified_realtime c pre e now d rid Eg Hin) as (n & na & pre1 & e1 & t1 & d1 & mid & A & B & C & D).
  exists n, na, pre1, e1, t1, d1, mid. split; [exact A|split; [exact B|split; [apply HeldC_request_to; exact C|exact D]]].
Qed.

(* ... and under freshness of the nonce draws ([fresh_run], the hypothesis of C04 part 2) every entry
   of the nonce map is the timer of a stored request: a request to na with the nonce of the timer was
   stored as an active request after the arming step and after every later step up to the report *)
Lemma fresh_run_app c : forall a h b, fresh_run c h (a ++ b) -> fresh_run c h a.
Proof.
  induction a as [|[[e now] d] rest IH]; intros h b F; [exact I|].
  cbn [app fresh_run] in *. destruct F as (F1 & F2 & F3). split; [exact F1|split; [exact F2|]].
  eapply IH. exact F3.
Qed.

Theorem timeout_justified_request_stored : forall c pre e now d rid,
  cfg_grid c = 0%N -> fresh_run c init_state pre ->
  let h := fst (run c init_state pre) in
  In (OEvent (HRequestFailed rid ERR_TIMEOUT)) (snd (step c h e now d)) ->
  exists n na pre1 e1 t1 d1 mid,
    pre = pre1 ++ (e1, t1, d1) :: mid /\ (t1 + cfg_timeout c < now)%N /\ request_to h rid na /\
    forall mid1 mid2, mid = mid1 ++ mid2 ->
      let hm := fst (run c init_state (pre1 ++ (e1, t1, d1) :: mid1)) in
      In (n, na, (t1 + cfg_timeout c)%N) (nmap hm) /\
      exists l r, alist_get na (active hm) = Some l /\ In r l /\ rc_nonce r = n /\ c_naddr (rc_contact r) = na.
Proof.
  intros c pre e now d rid Eg F h Hin.
  destruct (timeout_justified_nogrid c pre e now d rid Eg Hin) as (n & na & pre1 & e1 & t1 & d1 & mid & A & B & C & D).
  exists n, na, pre1, e1, t1, d1, mid. split; [exact A|split; [exact B|split; [exact C|]]].
  intros mid1 mid2 Em hm. pose proof (D mid1 mid2 Em) as Hin'. fold hm in Hin'. split; [exact Hin'|].
  assert (F' : fresh_run c init_state (pre1 ++ (e1, t1, d1) :: mid1)).
  { apply (fresh_run_app c _ init_state mid2). rewrite <- app_assoc. cbn [app]. rewrite <- Em, <- A. exact F. }
  destruct (maps_in_sync c _ F') as (S1 & _). fold hm in S1.
  destruct (S1 _ _ _ Hin') as (l & r & G & Hr & Hn). exists l, r. split; [exact G|split; [exact Hr|split; [exact Hn|]]].
  destruct (reachable_KeyWF c (pre1 ++ (e1, t1, d1) :: mid1)) as [Ka _]. fold hm in Ka.
  apply alist_get_In in G. exact (Ka _ _ _ G Hr).
Qed.

(* Non-trivial instance: in ex_outcome_events the last step (a tick at time 10000) reports the timeout
   of request 101.  Its timer ((1, 91), (2, 20), 6000) was armed by the previous tick, at time 5000,
   when the first timer (armed at 40, deadline 1040) was found expired and the request was re-sent;
   5000 + 1000 < 10000. *)
Local Open Scope N_scope.
(* ex_outcome_events with two quadruples of draws per step (fresh_run wants the draws not exhausted) *)
Definition ex_timeout_events : list (event * N * draws) :=
  [ (EvRequest ex_peer 100 7, 0, ex_draws2 50);
    (EvInbound 20 (PWho (50, 51) 1 0 9), 10, ex_draws2 60);
    (EvInbound 20 (ex_resp (1, 1) 100 (RNodes 2 [])), 20, ex_draws2 70);
    (EvInbound 20 (ex_resp (2, 2) 100 (RNodes 2 [])), 30, ex_draws2 80);
    (EvRequest ex_peer 101 8, 40, ex_draws2 90);
    (EvTick, 5000, ex_draws2 100) ].
Example timeout_justified_instance :
  cfg_grid (ex_cfg true) = 0 /\ fresh_run (ex_cfg true) init_state ex_timeout_events /\
  let h := fst (run (ex_cfg true) init_state ex_timeout_events) in
  snd (step (ex_cfg true) h EvTick 10000 (ex_draws2 110)) = [OEvent (HRequestFailed 101 ERR_TIMEOUT)] /\
  nmap h = [((1, 91), (2, 20), 5000 + cfg_timeout (ex_cfg true))] /\
  nmap (fst (run (ex_cfg true) init_state (firstn 5 ex_timeout_events))) = [((1, 91), (2, 20), 40 + cfg_timeout (ex_cfg true))] /\
  request_to h 101 (2, 20).
Proof.
  split; [reflexivity|]. split.
  - vm_compute.
    repeat match goal with
    | |- _ /\ _ => split
    | |- NoDup _ => constructor
    | |- ~ _ => intro
    | |- forall _, _ => intro
    | H : _ \/ _ |- _ => destruct H
    | H : False |- _ => destruct H
    | H : In _ (_ :: _) |- _ => cbn [In] in H
    | H : In _ [] |- _ => destruct H
    | H : _ :: _ = [] |- _ => discriminate H
    | |- True => exact I
    end; try discriminate; subst; try discriminate.
  - vm_compute. split; [reflexivity|split; [reflexivity|split; [reflexivity|]]].
    left. eexists _, _, _. split; [left; reflexivity|]. split; [left; reflexivity|]. split; reflexivity.
Qed.
Local Close Scope N_scope.

(* ------------------------------------------------------------------------------------------ *)
(* the statements, pinned *)

Check wire_bound : forall c evs rid k,
  NoDup (run_new_ids evs) -> fresh_installs c init_state [] evs ->
  req_datagrams rid k (concat (snd (run c init_state evs))) <= N.to_nat (N.max 1 (cfg_retries c)).
Check wire_bound_property_text : forall c evs rid k,
  NoDup (run_new_ids evs) -> fresh_installs c init_state [] evs ->
  req_datagrams rid k (concat (snd (run c init_state evs))) <= 1 + N.to_nat (cfg_retries c).
Check random_bound : forall c evs n,
  NoDup (run_pool evs) -> draws_suffice c init_state evs ->
  random_datagrams n (concat (snd (run c init_state evs))) <= N.to_nat (N.max 1 (cfg_retries c)).
Check stored_under_contact : forall c evs,
  let h := fst (run c init_state evs) in
  (forall na l r, In (na, l) (active h) -> In r l -> c_naddr (rc_contact r) = na) /\
  (forall na l q, In (na, l) (pending h) -> In q l -> c_naddr (pq_contact q) = na).
Check timer_deadline_origin : forall c h e now d n na dl,
  In (n, na, dl) (nmap (fst (step c h e now d))) ->
  In (n, na, dl) (nmap h) \/
  exists t0, (t0 = now \/ exists d0, (d0 < now)%N /\ t0 = fire_time c d0 now) /\ dl = (t0 + cfg_timeout c)%N.
Check timeout_justified_step : forall c h e now d rid,
  KeyWF h ->
  In (OEvent (HRequestFailed rid ERR_TIMEOUT)) (snd (step c h e now d)) ->
  exists n na dl, (dl < now)%N /\ request_to h rid na /\
    (In (n, na, dl) (nmap h) \/
     exists t, (exists d0, (d0 < now)%N /\ t = fire_time c d0 now) /\ dl = (t + cfg_timeout c)%N).
Check timeout_justified : forall c pre e now d rid,
  let h := fst (run c init_state pre) in
  In (OEvent (HRequestFailed rid ERR_TIMEOUT)) (snd (step c h e now d)) ->
  exists n na t0,
    (t0 + cfg_timeout c < now)%N /\ request_to h rid na /\
    ((exists pre1 e1 t1 d1 mid,
        pre = pre1 ++ (e1, t1, d1) :: mid /\
        (t0 = t1 \/ exists d0, (d0 < t1)%N /\ t0 = fire_time c d0 t1) /\
        forall mid1 mid2, mid = mid1 ++ mid2 ->
          In (n, na, (t0 + cfg_timeout c)%N) (nmap (fst (run c init_state (pre1 ++ (e1, t1, d1) :: mid1)))))
     \/ (exists d0, (d0 < now)%N /\ t0 = fire_time c d0 now)).
Check timeout_justified_nogrid : forall c pre e now d rid,
  cfg_grid c = 0%N ->
  let h := fst (run c init_state pre) in
  In (OEvent (HRequestFailed rid ERR_TIMEOUT)) (snd (step c h e now d)) ->
  exists n na pre1 e1 t1 d1 mid,
    pre = pre1 ++ (e1, t1, d1) :: mid /\ (t1 + cfg_timeout c < now)%N /\ request_to h rid na /\
    forall mid1 mid2, mid = mid1 ++ mid2 ->
      In (n, na, (t1 + cfg_timeout c)%N) (nmap (fst (run c init_state (pre1 ++ (e1, t1, d1) :: mid1)))).
Check timeout_justified_request_stored : forall c pre e now d rid,
  cfg_grid c = 0%N -> fresh_run c init_state pre ->
  let h := fst (run c init_state pre) in
  In (OEvent (HRequestFailed rid ERR_TIMEOUT)) (snd (step c h e now d)) ->
  exists n na pre1 e1 t1 d1 mid,
    pre = pre1 ++ (e1, t1, d1) :: mid /\ (t1 + cfg_timeout c < now)%N /\ request_to h rid na /\
    forall mid1 mid2, mid = mid1 ++ mid2 ->
      let hm := fst (run c init_state (pre1 ++ (e1, t1, d1) :: mid1)) in
      In (n, na, (t1 + cfg_timeout c)%N) (nmap hm) /\
      exists l r, alist_get na (active hm) = Some l /\ In r l /\ rc_nonce r = n /\ c_naddr (rc_contact r) = na.

Print Assumptions wire_bound.
Print Assumptions wire_bound_property_text.
Print Assumptions wire_bound_reached.
Print Assumptions wire_bound_needs_fresh_ids.
Print Assumptions wire_bound_needs_fresh_installs.
Print Assumptions random_bound.
Print Assumptions random_bound_reached.
Print Assumptions random_bound_needs_fresh_nonces.
Print Assumptions stored_under_contact.
Print Assumptions timer_deadline_origin.
Print Assumptions timeout_justified_step.
Print Assumptions timeout_justified.
Print Assumptions timeout_justified_nogrid.
Print Assumptions timeout_justified_request_stored.
Print Assumptions timeout_justified_instance.
