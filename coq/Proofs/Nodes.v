(* Proofs about Model/Nodes.v (property C11): the distance filter, the packet collection and
   findnode_log2distance.  The theorem about honest responders needs the serving model and is in
   Proofs/Serve.v. *)
From Coq Require Import List Arith NArith Bool Lia.
From Discv5V Require Import Generated.Params Model.Nodes.
Import ListNotations.
Local Open Scope N_scope.

(* ------------------------------------------------------------------------------------------ *)
(* generic facts about filter *)

Lemma filter_length_le {A} (f : A -> bool) l : (length (filter f l) <= length l)%nat.
Proof. induction l as [|x l IH]; simpl; [lia|]. destruct (f x); simpl; lia. Qed.

Lemma filter_all_true {A} (f : A -> bool) l : (forall x, In x l -> f x = true) -> filter f l = l.
Proof.
  induction l as [|x l IH]; simpl; intros H; [reflexivity|].
  rewrite (H x (or_introl eq_refl)). f_equal. apply IH. intros y Hy. apply H. now right.
Qed.

Lemma filter_length_lt {A} (f : A -> bool) l :
  (exists x, In x l /\ f x = false) -> (length (filter f l) < length l)%nat.
Proof.
  induction l as [|x l IH]; simpl; intros (y & Hy & Hf); [tauto|].
  destruct Hy as [->|Hy].
  - rewrite Hf. pose proof (filter_length_le f l). lia.
  - destruct (f x); simpl; [|pose proof (filter_length_le f l); lia].
    assert (length (filter f l) < length l)%nat by (apply IH; eauto). lia.
Qed.

Lemma filter_length_eq_all {A} (f : A -> bool) l :
  length (filter f l) = length l -> forall x, In x l -> f x = true.
Proof.
  intros H x Hx. destruct (f x) eqn:E; [reflexivity|].
  assert (length (filter f l) < length l)%nat by (apply filter_length_lt; eauto). lia.
Qed.

(* ------------------------------------------------------------------------------------------ *)
(* the filter *)

Lemma dist_requested_on_distance fx peer ds r :
  fix_d4 fx = true -> dist_requested fx peer ds r = on_distance peer ds r.
Proof.
  intros H. unfold dist_requested, on_distance, log2dist.
  destruct (log2_distance peer (e_id r)); [reflexivity|]. now rewrite H.
Qed.

Lemma filter_response_repaired fx peer ds records :
  fix_enr1 fx = true ->
  filter_response fx peer ds records =
  (filter (dist_requested fx peer ds) records,
   Nat.ltb (length (filter (dist_requested fx peer ds) records)) (length records)).
Proof. intros H. unfold filter_response. rewrite H, andb_false_r. reflexivity. Qed.

(* kept = the records at a requested distance, the responder's own record counting as 0 *)
Lemma kept_exact fx peer ds records :
  fix_d4 fx = true -> fix_enr1 fx = true ->
  fst (filter_response fx peer ds records) = filter (on_distance peer ds) records.
Proof.
  intros H4 H1. rewrite filter_response_repaired by exact H1. cbn [fst].
  apply filter_ext. intro r. now apply dist_requested_on_distance.
Qed.

Lemma off_distance_banned fx peer ds records :
  fix_d4 fx = true -> fix_enr1 fx = true ->
  (exists r, In r records /\ on_distance peer ds r = false) ->
  snd (filter_response fx peer ds records) = true.
Proof.
  intros H4 H1 (r & Hr & Hoff). rewrite filter_response_repaired by exact H1. cbn [snd].
  apply Nat.ltb_lt. apply filter_length_lt. exists r. split; [exact Hr|].
  now rewrite dist_requested_on_distance.
Qed.

Lemma on_distance_not_banned fx peer ds records :
  fix_d4 fx = true -> fix_enr1 fx = true ->
  (forall r, In r records -> on_distance peer ds r = true) ->
  filter_response fx peer ds records = (records, false).
Proof.
  intros H4 H1 Hall. rewrite filter_response_repaired by exact H1.
  rewrite (filter_all_true (dist_requested fx peer ds) records).
  - now rewrite Nat.ltb_irrefl.
  - intros r Hr. rewrite dist_requested_on_distance by exact H4. now apply Hall.
Qed.

(* banned exactly when some record is off-distance *)
Lemma banned_iff fx peer ds records :
  fix_d4 fx = true -> fix_enr1 fx = true ->
  snd (filter_response fx peer ds records) = true <->
  exists r, In r records /\ on_distance peer ds r = false.
Proof.
  intros H4 H1. split; [|now apply off_distance_banned].
  intros Hb. destruct (forallb (on_distance peer ds) records) eqn:E.
  - rewrite forallb_forall in E. rewrite (on_distance_not_banned fx peer ds records H4 H1 E) in Hb.
    discriminate.
  - clear Hb. induction records as [|x l IH]; simpl in E; [discriminate|].
    destruct (on_distance peer ds x) eqn:Ex; simpl in E.
    + destruct (IH E) as (r & Hr & Hf). exists r. split; [now right|exact Hf].
    + exists x. split; [now left|exact Ex].
Qed.

(* what is needed for an answer to pass unharmed, whatever the flags: every record requested in
   the sense of the closure of the code *)
Lemma all_requested_not_banned fx peer ds records :
  is_enr_request ds && negb (fix_enr1 fx) = false ->
  (forall r, In r records -> dist_requested fx peer ds r = true) ->
  filter_response fx peer ds records = (records, false).
Proof.
  intros Hsp Hall. unfold filter_response. rewrite Hsp.
  rewrite (filter_all_true _ _ Hall). now rewrite Nat.ltb_irrefl.
Qed.

(* The pinned tree: an honest answer to [1; 2; 0] that contains the responder's own record. *)
Lemma pinned_own_record_banned :
  exists peer ds r, is_own peer r = true /\ mem 0 ds = true /\
    filter_response pinned peer ds [r] = ([], true).
Proof.
  exists 5, [1; 2; 0], {| e_vid := 1; e_id := 5; e_seq := 1; e_udp4 := None; e_udp6 := None;
                         e_sub := None; e_size := 100 |}.
  vm_compute. auto.
Qed.

(* The pinned tree: a single record at an unrequested distance answering a request for [0] is kept
   and the responder is not banned. *)
Lemma pinned_single_record_unfiltered :
  exists peer r, on_distance peer [0] r = false /\ filter_response pinned peer [0] [r] = ([r], false).
Proof.
  exists 5, {| e_vid := 1; e_id := 4; e_seq := 1; e_udp4 := None; e_udp6 := None;
               e_sub := None; e_size := 100 |}.
  vm_compute. auto.
Qed.

(* ------------------------------------------------------------------------------------------ *)
(* packet collection *)

Definition wf_state (st : option active_req) : Prop :=
  match st with
  | Some ar => match ar_partial ar with Some c => (nr_count c <= MAXRESP)%nat | None => True end
  | None => True
  end.

(* how many further packets a request can still collect *)
Definition budget (st : option active_req) : nat :=
  match st with
  | None => 0
  | Some ar =>
    if ar_user ar then 1 else
    match ar_partial ar with
    | None => MAXRESP
    | Some c => S MAXRESP - nr_count c
    end
  end.

Lemma on_pkt_budget fx maxn st p :
  wf_state st ->
  let (st', o) := on_pkt fx maxn st p in
  wf_state st' /\ ((if collected o then 1 else 0) + budget st' <= budget st)%nat.
Proof.
  intros Hwf. destruct p as [total nodes|]; cbn [on_pkt].
  - unfold on_nodes. destruct st as [ar|]; [|simpl; split; [exact I|lia]].
    destruct (ar_user ar) eqn:Eu.
    + cbn [wf_state budget collected]. rewrite Eu. split; [exact I|lia].
    + destruct (filter_response fx (ar_peer ar) (ar_ds ar) nodes) as [kept banned].
      destruct (1 <? total).
      * set (cur := match ar_partial ar with Some c => c | None => nr_default end).
        assert (Hcur : (nr_count cur <= MAXRESP)%nat /\
                       budget (Some ar) = (S MAXRESP - nr_count cur)%nat).
        { unfold cur, budget. rewrite Eu. simpl in Hwf.
          destruct (ar_partial ar) as [c|]; [split; [exact Hwf|reflexivity]|].
          cbn [nr_default nr_count]. vm_compute. split; [lia|reflexivity]. }
        destruct Hcur as (Hle & Hb).
        destruct (Nat.ltb (length (nr_received cur)) maxn && (N.of_nat (nr_count cur) <? total)
                  && Nat.ltb (nr_count cur) MAXRESP) eqn:Ec.
        -- apply andb_prop in Ec. destruct Ec as (_ & Hlt). apply Nat.ltb_lt in Hlt.
           cbn [wf_state ar_partial nr_count collected]. split; [lia|].
           rewrite Hb. unfold budget. cbn [ar_user ar_partial nr_count]. lia.
        -- cbn [wf_state collected]. split; [exact I|]. rewrite Hb. cbn [budget]. lia.
      * cbn [wf_state collected]. split; [exact I|].
        unfold budget. rewrite Eu. simpl in Hwf.
        destruct (ar_partial ar) as [c|]; [lia|]. vm_compute. lia.
  - unfold on_failure. destruct st as [ar|]; [|simpl; split; [exact I|lia]].
    destruct (ar_user ar); [simpl; split; [exact I|lia]|].
    destruct (ar_partial ar) as [c|]; [destruct (Nat.eqb _ _)|]; simpl; split; try exact I; lia.
Qed.

Lemma collected_le_budget fx maxn ps : forall st,
  wf_state st -> (length (filter collected (run_pkts fx maxn st ps)) <= budget st)%nat.
Proof.
  induction ps as [|p ps IH]; intros st Hwf; cbn [run_pkts]; [simpl; lia|].
  pose proof (on_pkt_budget fx maxn st p Hwf) as H.
  destruct (on_pkt fx maxn st p) as [st' o]. destruct H as (Hwf' & Hb).
  cbn [filter]. specialize (IH st' Hwf').
  destruct (collected o); cbn [length]; lia.
Qed.

(* A responder cannot make the node collect more than MAX_NODES_RESPONSES packets for a request *)
Lemma packets_bounded fx maxn peer ds user ps :
  (length (filter collected
     (run_pkts fx maxn (Some {| ar_peer := peer; ar_ds := ds; ar_user := user; ar_partial := None |}) ps))
   <= MAXRESP)%nat.
Proof.
  eapply Nat.le_trans; [apply collected_le_budget; exact I|].
  unfold budget. cbn [ar_user ar_partial]. destruct user; [vm_compute; lia|lia].
Qed.

(* once the request has completed (no active request under the id) everything is ignored *)
Lemma completed_ignores fx maxn ps :
  Forall (fun o => o = SONodes PIgnored \/ o = SOFail FIgnored) (run_pkts fx maxn None ps).
Proof.
  induction ps as [|p ps IH]; cbn [run_pkts]; [constructor|].
  destruct p; cbn [on_pkt on_nodes on_failure]; constructor; auto.
Qed.

(* every output that hands records on ends the request *)
Lemma completion_is_final fx maxn st p :
  match snd (on_pkt fx maxn st p) with
  | SONodes (PDone _ _) | SONodes (PUser _) | SOFail (FPartial _) | SOFail FNothing | SOFail FUser =>
    fst (on_pkt fx maxn st p) = None
  | _ => True
  end.
Proof.
  destruct p as [total nodes|]; cbn [on_pkt].
  - unfold on_nodes. destruct st as [ar|]; [|exact I].
    destruct (ar_user ar); [reflexivity|].
    destruct (filter_response fx (ar_peer ar) (ar_ds ar) nodes) as [kept banned].
    destruct (1 <? total); [|reflexivity].
    destruct (_ && _ && _); [exact I|reflexivity].
  - unfold on_failure. destruct st as [ar|]; [|exact I].
    destruct (ar_user ar); [reflexivity|].
    destruct (ar_partial ar) as [c|]; [destruct (Nat.eqb _ _)|]; reflexivity.
Qed.

(* ------------------------------------------------------------------------------------------ *)
(* findnode_log2distance *)

Fixpoint nodupb (l : list N) : bool :=
  match l with
  | [] => true
  | x :: l' => negb (mem x l') && nodupb l'
  end.

Lemma nodupb_NoDup l : nodupb l = true -> NoDup l.
Proof.
  induction l as [|x l IH]; simpl; intros H; [constructor|].
  apply andb_prop in H. destruct H as (H1 & H2). constructor; [|auto].
  intros Hin. apply negb_true_iff in H1. unfold mem in H1.
  assert (existsb (N.eqb x) l = true) by (apply existsb_exists; exists x; split; [exact Hin|apply N.eqb_refl]).
  congruence.
Qed.

Definition near (d : N) (size : nat) (x : N) : bool :=
  (x <=? d + N.of_nat size) && (d <=? x + N.of_nat size).

(* the specification of the result for an exact distance d and a size *)
Definition fd_ok (d : N) (size : nat) : bool :=
  match fd_from_distance d size with
  | FDSome l =>
    Nat.eqb (length l) size && forallb (fun x => x <=? 256) l && nodupb l
    && forallb (near d size) l
    && match l with x :: _ => x =? d | [] => Nat.eqb size 0 end
  | _ => false
  end.

Definition all_distances : list N := map N.of_nat (seq 1 256).
Definition all_sizes : list nat := seq 0 128.

(* 256 x 128 runs of the model, evaluated once by the kernel's VM when the proof term is checked *)
Lemma fd_sweep : forallb (fun d => forallb (fd_ok d) all_sizes) all_distances = true.
Proof. vm_cast_no_check (eq_refl true). Qed.

Lemma fd_ok_all d size : 1 <= d <= 256 -> (size <= 127)%nat -> fd_ok d size = true.
Proof.
  intros Hd Hs. pose proof fd_sweep as H. rewrite forallb_forall in H.
  assert (Hin : In d all_distances).
  { unfold all_distances. replace d with (N.of_nat (N.to_nat d)) by apply N2Nat.id.
    apply in_map. apply in_seq. lia. }
  specialize (H d Hin). rewrite forallb_forall in H. apply H. apply in_seq. lia.
Qed.

Lemma log2_distance_range a b d :
  a < 2 ^ 256 -> b < 2 ^ 256 -> log2_distance a b = Some d -> 1 <= d <= 256.
Proof.
  unfold log2_distance. intros Ha Hb. destruct (N.lxor a b =? 0) eqn:E; [discriminate|].
  intros H. inversion H; subst d. clear H. apply N.eqb_neq in E.
  assert (N.log2 (N.lxor a b) < 256); [|lia].
  pose proof (N.log2_lxor a b) as Hl.
  assert (Hla : a = 0 \/ N.log2 a < 256).
  { destruct (N.eq_dec a 0); [now left|right]. apply N.log2_lt_pow2; lia. }
  assert (Hlb : b = 0 \/ N.log2 b < 256).
  { destruct (N.eq_dec b 0); [now left|right]. apply N.log2_lt_pow2; lia. }
  assert (N.log2 a < 256) by (destruct Hla as [->|]; [vm_compute; reflexivity|assumption]).
  assert (N.log2 b < 256) by (destruct Hlb as [->|]; [vm_compute; reflexivity|assumption]).
  lia.
Qed.

Lemma log2_distance_none a b : log2_distance a b = None <-> a = b.
Proof.
  unfold log2_distance. destruct (N.lxor a b =? 0) eqn:E.
  - apply N.eqb_eq in E. apply N.lxor_eq in E. split; auto.
  - split; [discriminate|]. intros ->. rewrite N.lxor_nilpotent in E. discriminate.
Qed.

(* The distances a lookup requests from a peer: for 256-bit ids and at most 127 distances the
   function neither panics nor runs out of the model's fuel; it returns None exactly for
   target = peer (the caller then asks for [0]); otherwise [size] distinct distances <= 256, all
   within [size] of the exact distance, the exact distance first. *)
Lemma findnode_distances_spec target peer size :
  target < 2 ^ 256 -> peer < 2 ^ 256 -> (size <= 127)%nat ->
  match findnode_distances target peer size with
  | FDNone => target = peer
  | FDSome l =>
    exists d, log2_distance peer target = Some d /\ 1 <= d <= 256 /\
    length l = size /\ NoDup l /\ (forall x, In x l -> x <= 256 /\ x <= d + N.of_nat size /\ d <= x + N.of_nat size) /\
    (size <> 0%nat -> hd_error l = Some d)
  | FDPanic | FDOutOfFuel => False
  end.
Proof.
  intros Ht Hp Hs. unfold findnode_distances.
  destruct (Nat.ltb 127 size) eqn:E; [apply Nat.ltb_lt in E; lia|].
  destruct (log2_distance peer target) as [d|] eqn:Ed.
  - pose proof (log2_distance_range _ _ _ Hp Ht Ed) as Hr.
    pose proof (fd_ok_all d size Hr Hs) as Hok. unfold fd_ok in Hok.
    destruct (fd_from_distance d size) as [| |l|]; try discriminate.
    repeat (apply andb_prop in Hok; destruct Hok as (Hok & ?)).
    exists d. split; [reflexivity|]. split; [exact Hr|].
    split; [now apply Nat.eqb_eq|]. split; [now apply nodupb_NoDup|]. split.
    + intros x Hx. rewrite forallb_forall in H2, H0.
      specialize (H2 x Hx). specialize (H0 x Hx). unfold near in H0.
      apply andb_prop in H0. destruct H0 as (Ha & Hb).
      apply N.leb_le in H2, Ha, Hb. lia.
    + intros Hne. destruct l as [|x l]; [apply Nat.eqb_eq in H; congruence|].
      apply N.eqb_eq in H. now subst x.
  - apply log2_distance_none in Ed. congruence.
Qed.
