(* C13 - the exemption map of the handler model tracks the outstanding exchanges exactly.
   Generic lemmas about the association-list helpers of Model/Handler.v, the invariant [ExpInv],
   one preservation lemma per model function, the lift to [step] and [run].
   See DESIGN.md section 6 (Handler model, C13). *)
From Coq Require Import List Arith NArith Bool Lia.
From Discv5V Require Import Model.Handler.
Import ListNotations.

(* ------------------------------------------------------------------------------------------ *)
(* equality tests *)

Lemma naddr_eqb_spec : forall a b : naddr, naddr_eqb a b = true <-> a = b.
Proof.
  intros [a1 a2] [b1 b2]. unfold naddr_eqb. cbn [fst snd].
  rewrite andb_true_iff, !N.eqb_eq. split.
  - intros [-> ->]. reflexivity.
  - intros H. inversion H. auto.
Qed.
Lemma naddr_eqb_refl : forall a, naddr_eqb a a = true.
Proof. intros a. apply naddr_eqb_spec. reflexivity. Qed.
Lemma naddr_eqb_neq : forall a b : naddr, naddr_eqb a b = false <-> a <> b.
Proof.
  intros a b. split.
  - intros H E. apply naddr_eqb_spec in E. congruence.
  - intros H. destruct (naddr_eqb a b) eqn:E; auto. apply naddr_eqb_spec in E. contradiction.
Qed.
Lemma naddr_eqb_sym : forall a b, naddr_eqb a b = naddr_eqb b a.
Proof.
  intros a b. destruct (naddr_eqb a b) eqn:E.
  - apply naddr_eqb_spec in E. subst. symmetry. apply naddr_eqb_refl.
  - symmetry. apply naddr_eqb_neq. apply naddr_eqb_neq in E. congruence.
Qed.

Lemma nonce_eqb_spec : forall a b : nonce, nonce_eqb a b = true <-> a = b.
Proof. exact naddr_eqb_spec. Qed.
Lemma nonce_eqb_refl : forall a, nonce_eqb a a = true.
Proof. exact naddr_eqb_refl. Qed.
Lemma nonce_eqb_neq : forall a b : nonce, nonce_eqb a b = false <-> a <> b.
Proof. exact naddr_eqb_neq. Qed.

(* ------------------------------------------------------------------------------------------ *)
(* association lists keyed by node address *)

Section Alist.
Context {A : Type}.
Implicit Types (l : list (naddr * A)) (k : naddr) (v : A).

Lemma alist_get_in : forall l k v, alist_get k l = Some v -> In (k, v) l.
Proof.
  induction l as [|[k' v'] r IH]; cbn [alist_get]; intros k v H; [discriminate|].
  destruct (naddr_eqb k k') eqn:E.
  - apply naddr_eqb_spec in E. inversion H. subst. left. reflexivity.
  - right. auto.
Qed.

Lemma alist_get_none : forall l k, alist_get k l = None <-> ~ In k (map fst l).
Proof.
  induction l as [|[k' v'] r IH]; cbn [alist_get map fst In]; intros k.
  - tauto.
  - destruct (naddr_eqb k k') eqn:E.
    + apply naddr_eqb_spec in E. subst. split; [discriminate|]. intros H. exfalso. apply H. auto.
    + apply naddr_eqb_neq in E. rewrite IH. split; [intros H [H1|H1]; [congruence|tauto] | tauto].
Qed.

Lemma alist_get_some_key : forall l k v, alist_get k l = Some v -> In k (map fst l).
Proof. intros l k v H. apply alist_get_in in H. apply (in_map fst) in H. exact H. Qed.

Lemma alist_set_keys : forall l k v v0, alist_get k l = Some v0 -> map fst (alist_set k v l) = map fst l.
Proof.
  induction l as [|[k' v'] r IH]; cbn [alist_get alist_set map fst]; intros k v v0 H; [discriminate|].
  destruct (naddr_eqb k k') eqn:E; cbn [map fst].
  - apply naddr_eqb_spec in E. subst. reflexivity.
  - f_equal. eauto.
Qed.

Lemma alist_set_in : forall l k v x, In x (alist_set k v l) -> x = (k, v) \/ In x l.
Proof.
  induction l as [|[k' v'] r IH]; cbn [alist_set In]; intros k v x H.
  - destruct H as [H|[]]. auto.
  - destruct (naddr_eqb k k'); cbn [In] in H.
    + destruct H as [H|H]; auto.
    + destruct H as [H|H]; auto. apply IH in H. tauto.
Qed.

Lemma alist_remove_in : forall l k x, In x (alist_remove k l) -> In x l.
Proof.
  induction l as [|[k' v'] r IH]; cbn [alist_remove In]; intros k x H; auto.
  destruct (naddr_eqb k k'); cbn [In] in H; auto.
  destruct H as [H|H]; eauto.
Qed.

Lemma alist_remove_keys_nodup : forall l k, NoDup (map fst l) -> NoDup (map fst (alist_remove k l)).
Proof.
  induction l as [|[k' v'] r IH]; cbn [alist_remove map fst]; intros k H; auto.
  inversion H; subst. destruct (naddr_eqb k k'); cbn [map fst]; auto.
  constructor; auto. intros Hin. apply H2.
  apply in_map_iff in Hin. destruct Hin as [x [Hx Hin]]. apply alist_remove_in in Hin.
  apply in_map_iff. eauto.
Qed.

Lemma alist_remove_key_gone : forall l k, NoDup (map fst l) -> ~ In k (map fst (alist_remove k l)).
Proof.
  induction l as [|[k' v'] r IH]; cbn [alist_remove map fst]; intros k H; auto.
  inversion H; subst. destruct (naddr_eqb k k') eqn:E; cbn [map fst In].
  - apply naddr_eqb_spec in E. subst. assumption.
  - apply naddr_eqb_neq in E. intros [H1|H1]; [congruence|]. eapply IH; eauto.
Qed.

Lemma Forall_alist_set : forall (P : naddr * A -> Prop) l k v,
  Forall P l -> P (k, v) -> Forall P (alist_set k v l).
Proof.
  intros P l k v H Hp. apply Forall_forall. intros x Hx. apply alist_set_in in Hx.
  destruct Hx as [->|Hx]; auto. rewrite Forall_forall in H. auto.
Qed.
Lemma Forall_alist_remove : forall (P : naddr * A -> Prop) l k, Forall P l -> Forall P (alist_remove k l).
Proof.
  intros P l k H. apply Forall_forall. intros x Hx. apply alist_remove_in in Hx.
  rewrite Forall_forall in H. auto.
Qed.
End Alist.

Lemma NoDup_snoc : forall {A} (l : list A) x, NoDup l -> ~ In x l -> NoDup (l ++ [x]).
Proof.
  intros A l x. induction l as [|y r IH]; cbn [app]; intros H Hx.
  - constructor; [intros []|constructor].
  - inversion H; subst. constructor.
    + rewrite in_app_iff. cbn [In]. intros [H1|[H1|[]]]; [tauto|]. subst. apply Hx. left. reflexivity.
    + apply IH; auto. intros H1. apply Hx. right. assumption.
Qed.

Lemma remove_first_spec : forall {A} (p : A -> bool) (l : list A) x l',
  remove_first p l = Some (x, l') ->
  p x = true /\ length l = S (length l') /\ In x l /\ (forall y, In y l' -> In y l)
  /\ (forall y, In y l -> y = x \/ In y l').
Proof.
  intros A p. induction l as [|y r IH]; cbn [remove_first]; intros x l' H; [discriminate|].
  destruct (p y) eqn:E.
  - inversion H; subst. cbn [length In]. repeat split; auto. intros z [Hz|Hz]; auto.
  - destruct (remove_first p r) as [[z r']|] eqn:E2; [|discriminate]. inversion H; subst.
    destruct (IH _ _ eq_refl) as (H1 & H2 & H3 & H4 & H5). cbn [length In].
    repeat split; auto.
    + intros w [Hw|Hw]; auto.
    + intros w [Hw|Hw]; auto. destruct (H5 _ Hw); auto.
Qed.

Lemma remove_first_Forall : forall {A} (P : A -> Prop) (p : A -> bool) (l : list A) x l',
  remove_first p l = Some (x, l') -> Forall P l -> P x /\ Forall P l'.
Proof.
  intros A P p l x l' H HF. apply remove_first_spec in H. destruct H as (_ & _ & H3 & H4 & _).
  rewrite Forall_forall in HF. split; auto. apply Forall_forall. auto.
Qed.

(* ------------------------------------------------------------------------------------------ *)
(* the exemption map *)

Definition ExpWF (e : list (addr * nat)) : Prop :=
  NoDup (map fst e) /\ Forall (fun x => 0 < snd x) e.

Lemma exp_get_nil : forall a, exp_get a [] = 0.
Proof. reflexivity. Qed.

Lemma exp_get_cons : forall a a' n r,
  exp_get a ((a', n) :: r) = if N.eqb a' a then n else exp_get a r.
Proof. intros. unfold exp_get. cbn [find fst]. destruct (N.eqb a' a); reflexivity. Qed.

Lemma exp_get_notin : forall e a, ~ In a (map fst e) -> exp_get a e = 0.
Proof.
  induction e as [|[a' n] r IH]; intros a H; [reflexivity|]. rewrite exp_get_cons.
  cbn [map fst In] in H. destruct (N.eqb a' a) eqn:E.
  - apply N.eqb_eq in E. tauto.
  - apply IH. tauto.
Qed.

Lemma exp_add_keys : forall e a x, In x (map fst (exp_add a e)) -> x = a \/ In x (map fst e).
Proof.
  induction e as [|[a' n] r IH]; cbn [exp_add map fst In]; intros a x H.
  - destruct H as [H|[]]; auto.
  - destruct (N.eqb a a') eqn:E; cbn [map fst In] in H.
    + tauto.
    + destruct H as [H|H]; auto. apply IH in H. tauto.
Qed.

Lemma exp_add_wf : forall e a, ExpWF e -> ExpWF (exp_add a e).
Proof.
  unfold ExpWF. induction e as [|[a' n] r IH]; cbn [exp_add]; intros a [H1 H2].
  - cbn. split; [constructor; [intros []|constructor] | repeat constructor].
  - inversion H1; subst. inversion H2; subst. cbn [fst snd map] in *.
    destruct (N.eqb a a') eqn:E; cbn [map fst].
    + split; constructor; auto. cbn [snd]. lia.
    + destruct (IH a (conj H4 H6)) as [I1 I2]. split; constructor; auto.
      intros Hin. apply exp_add_keys in Hin. apply N.eqb_neq in E. destruct Hin; [congruence|tauto].
Qed.

Lemma exp_get_add : forall e a a', exp_get a (exp_add a' e) = exp_get a e + (if N.eqb a' a then 1 else 0).
Proof.
  induction e as [|[b n] r IH]; intros a a'; cbn [exp_add].
  - rewrite exp_get_cons, exp_get_nil. destruct (N.eqb a' a); reflexivity.
  - destruct (N.eqb a' b) eqn:E.
    + apply N.eqb_eq in E. subst b. rewrite !exp_get_cons. destruct (N.eqb a' a); lia.
    + rewrite !exp_get_cons. destruct (N.eqb b a) eqn:E2.
      * apply N.eqb_eq in E2. subst b. rewrite E. lia.
      * apply IH.
Qed.

Lemma exp_remove_keys : forall e a x, In x (map fst (exp_remove a e)) -> In x (map fst e).
Proof.
  induction e as [|[a' n] r IH]; cbn [exp_remove map fst In]; intros a x H; auto.
  destruct (N.eqb a a').
  - destruct n as [|[|m]]; cbn [map fst In] in H; tauto.
  - cbn [map fst In] in H. destruct H as [H|H]; eauto.
Qed.

Lemma exp_remove_wf : forall e a, ExpWF e -> ExpWF (exp_remove a e).
Proof.
  unfold ExpWF. induction e as [|[a' n] r IH]; cbn [exp_remove]; intros a [H1 H2]; auto.
  inversion H1; subst. inversion H2; subst. cbn [fst snd map] in *.
  destruct (N.eqb a a') eqn:E.
  - destruct n as [|[|m]]; auto. cbn [map fst]. split; constructor; auto. cbn [snd]. lia.
  - destruct (IH a (conj H4 H6)) as [I1 I2]. cbn [map fst]. split; constructor; auto.
    intros Hin. apply exp_remove_keys in Hin. tauto.
Qed.

Lemma exp_get_remove : forall e a a', ExpWF e ->
  exp_get a (exp_remove a' e) = exp_get a e - (if N.eqb a' a then 1 else 0).
Proof.
  unfold ExpWF. induction e as [|[b n] r IH]; intros a a' [H1 H2]; cbn [exp_remove].
  - rewrite exp_get_nil. reflexivity.
  - inversion H1; subst. inversion H2; subst. cbn [fst snd map] in *.
    destruct (N.eqb a' b) eqn:E.
    + apply N.eqb_eq in E. subst b. destruct (N.eqb a' a) eqn:E2.
      * apply N.eqb_eq in E2. subst a'.
        destruct n as [|[|m]]; [lia| |].
        -- rewrite exp_get_cons, N.eqb_refl. rewrite exp_get_notin by assumption. reflexivity.
        -- rewrite !exp_get_cons, N.eqb_refl. lia.
      * destruct n as [|[|m]]; rewrite ?exp_get_cons, ?E2; lia.
    + rewrite !exp_get_cons. destruct (N.eqb b a) eqn:E2.
      * apply N.eqb_eq in E2. subst b. rewrite E. lia.
      * apply IH. auto.
Qed.

Lemma exp_all_zero_nil : forall e, ExpWF e -> (forall a, exp_get a e = 0) -> e = [].
Proof.
  intros [|[a n] r] [_ H2] H; auto. specialize (H a). rewrite exp_get_cons, N.eqb_refl in H.
  inversion H2; subst. cbn [snd] in *. lia.
Qed.

(* ------------------------------------------------------------------------------------------ *)
(* counting outstanding items per socket address *)

Definition ind (a : addr) (na : naddr) (n : nat) : nat := if N.eqb (snd na) a then n else 0.

Fixpoint cnt_act (a : addr) (l : list (naddr * list rcall)) : nat :=
  match l with
  | [] => 0
  | (na, rs) :: t => ind a na (length rs) + cnt_act a t
  end.
Fixpoint cnt_ch (a : addr) (l : list (naddr * chall * N)) : nat :=
  match l with
  | [] => 0
  | (na, _, _) :: t => ind a na 1 + cnt_ch a t
  end.

(* number of request calls stored under node addresses with socket address [a] *)
Definition cnt_active (a : addr) (h : hstate) : nat := cnt_act a (active h).
(* number of challenges whose node address has socket address [a] *)
Definition cnt_chall (a : addr) (h : hstate) : nat := cnt_ch a (challenges h).

Lemma cnt_act_app : forall a l1 l2, cnt_act a (l1 ++ l2) = cnt_act a l1 + cnt_act a l2.
Proof. induction l1 as [|[na rs] t IH]; intros l2; cbn [cnt_act app]; [reflexivity|]. rewrite IH. lia. Qed.
Lemma cnt_ch_app : forall a l1 l2, cnt_ch a (l1 ++ l2) = cnt_ch a l1 + cnt_ch a l2.
Proof. induction l1 as [|[[na c] d] t IH]; intros l2; cbn [cnt_ch app]; [reflexivity|]. rewrite IH. lia. Qed.

Lemma cnt_act_set : forall a act na l l', alist_get na act = Some l ->
  cnt_act a (alist_set na l' act) + ind a na (length l) = cnt_act a act + ind a na (length l').
Proof.
  induction act as [|[k v] r IH]; cbn [alist_get alist_set]; intros na l l' H; [discriminate|].
  destruct (naddr_eqb na k) eqn:E; cbn [cnt_act].
  - apply naddr_eqb_spec in E. subst k. inversion H; subst. lia.
  - specialize (IH _ _ l' H). lia.
Qed.
Lemma cnt_act_remove : forall a act na l, alist_get na act = Some l ->
  cnt_act a (alist_remove na act) + ind a na (length l) = cnt_act a act.
Proof.
  induction act as [|[k v] r IH]; cbn [alist_get alist_remove]; intros na l H; [discriminate|].
  destruct (naddr_eqb na k) eqn:E; cbn [cnt_act].
  - apply naddr_eqb_spec in E. subst k. inversion H; subst. lia.
  - specialize (IH _ _ H). lia.
Qed.
Lemma cnt_act_put : forall a act na l l', alist_get na act = Some l ->
  cnt_act a (put_list na l' act) + ind a na (length l) = cnt_act a act + ind a na (length l').
Proof.
  intros a act na l l' H. unfold put_list. destruct l' as [|x l'].
  - rewrite (cnt_act_remove a act na l H). unfold ind. cbn [length]. destruct (N.eqb (snd na) a); lia.
  - apply cnt_act_set. assumption.
Qed.

Lemma chall_get_remove : forall a l na ch, chall_get na l = Some ch ->
  cnt_ch a (chall_remove na l) + ind a na 1 = cnt_ch a l.
Proof.
  induction l as [|[[k c] d] r IH]; cbn [chall_get chall_remove]; intros na ch H; [discriminate|].
  destruct (naddr_eqb k na) eqn:E; cbn [cnt_ch].
  - apply naddr_eqb_spec in E. subst k. lia.
  - specialize (IH _ _ H). lia.
Qed.

Lemma chall_get_in : forall l na c d, In (na, c, d) l -> chall_get na l <> None.
Proof.
  induction l as [|[[k c'] d'] r IH]; cbn [chall_get In]; intros na c d H; [tauto|].
  destruct (naddr_eqb k na) eqn:E; [discriminate|]. destruct H as [H|H].
  - inversion H; subst. rewrite naddr_eqb_refl in E. discriminate.
  - eauto.
Qed.

(* ------------------------------------------------------------------------------------------ *)
(* well-formedness of the stored request calls *)

Definition req_ok (na : naddr) (r : rcall) : Prop := c_naddr (rc_contact r) = na.
Definition entry_ok (x : naddr * list rcall) : Prop := snd x <> [] /\ Forall (req_ok (fst x)) (snd x).
Definition ActWF (act : list (naddr * list rcall)) : Prop := NoDup (map fst act) /\ Forall entry_ok act.

Lemma ActWF_get : forall act na l, ActWF act -> alist_get na act = Some l -> l <> [] /\ Forall (req_ok na) l.
Proof.
  intros act na l [_ H] Hg. apply alist_get_in in Hg. rewrite Forall_forall in H. apply (H _ Hg).
Qed.

Lemma ActWF_set : forall act na l l', ActWF act -> alist_get na act = Some l ->
  l' <> [] -> Forall (req_ok na) l' -> ActWF (alist_set na l' act).
Proof.
  intros act na l l' [H1 H2] Hg Hne Hok. split.
  - rewrite (alist_set_keys _ _ _ _ Hg). assumption.
  - apply Forall_alist_set; auto. split; assumption.
Qed.
Lemma ActWF_remove : forall act na, ActWF act -> ActWF (alist_remove na act).
Proof.
  intros act na [H1 H2]. split; [apply alist_remove_keys_nodup | apply Forall_alist_remove]; assumption.
Qed.
Lemma ActWF_put : forall act na l l', ActWF act -> alist_get na act = Some l ->
  Forall (req_ok na) l' -> ActWF (put_list na l' act).
Proof.
  intros act na l l' H Hg Hok. unfold put_list. destruct l' as [|x l'].
  - apply ActWF_remove. assumption.
  - eapply ActWF_set; eauto. discriminate.
Qed.
Lemma ActWF_app_new : forall act na r, ActWF act -> alist_get na act = None -> req_ok na r ->
  ActWF (act ++ [(na, [r])]).
Proof.
  intros act na r [H1 H2] Hg Hok. split.
  - rewrite map_app. cbn [map fst]. apply alist_get_none in Hg.
    apply NoDup_snoc; auto.
  - apply Forall_app. split; auto. constructor; [|constructor]. split; cbn [fst snd]; [discriminate|].
    constructor; auto.
Qed.

(* ------------------------------------------------------------------------------------------ *)
(* the invariant.  [Sur k a0 h]: as [ExpInv h], but address [a0] holds [k] exemptions more than
   outstanding items: the shape of the intermediate states inside a handler function (a request
   was taken out of the active requests and its exemption is about to be returned or the
   request is about to be re-inserted). *)

Definition SurT (k : nat) (a0 : addr) (act : list (naddr * list rcall)) (ch : list (naddr * chall * N))
  (ex : list (addr * nat)) : Prop :=
  ActWF act /\ ExpWF ex /\
  forall a, exp_get a ex = cnt_act a act + cnt_ch a ch + (if N.eqb a0 a then k else 0).
Definition Sur (k : nat) (a0 : addr) (h : hstate) : Prop := SurT k a0 (active h) (challenges h) (expected h).

Definition ExpInv (h : hstate) : Prop :=
  (ActWF (active h) /\ ExpWF (expected h)) /\
  forall a, exp_get a (expected h) = cnt_active a h + cnt_chall a h.

Lemma Sur0_iff : forall a0 h, Sur 0 a0 h <-> ExpInv h.
Proof.
  intros a0 h. unfold Sur, SurT, ExpInv, cnt_active, cnt_chall. split.
  - intros (H1 & H2 & H3). split; auto. intros a. rewrite H3. destruct (N.eqb a0 a); lia.
  - intros ((H1 & H2) & H3). split; [exact H1 | split; [exact H2|]].
    intros a. rewrite H3. destruct (N.eqb a0 a); lia.
Qed.
Lemma Sur0_any : forall a0 a1 h, Sur 0 a0 h -> Sur 0 a1 h.
Proof. intros a0 a1 h H. apply Sur0_iff. apply Sur0_iff in H. exact H. Qed.

Lemma Sur_ext : forall k a h h', active h' = active h -> challenges h' = challenges h -> expected h' = expected h ->
  Sur k a h -> Sur k a h'.
Proof. intros k a h h' H1 H2 H3. unfold Sur. rewrite H1, H2, H3. auto. Qed.
Lemma ExpInv_ext : forall h h', active h' = active h -> challenges h' = challenges h -> expected h' = expected h ->
  ExpInv h -> ExpInv h'.
Proof. intros h h' H1 H2 H3 H. apply (Sur0_iff 0%N). apply (Sur0_iff 0%N) in H. eapply Sur_ext; eauto. Qed.

Lemma init_ExpInv : ExpInv init_state.
Proof.
  unfold ExpInv, ActWF, ExpWF, cnt_active, cnt_chall. cbn. repeat split; constructor.
Qed.

(* frame: operations that leave active requests, challenges and exemptions alone *)
Definition same_ace (h' h : hstate) : Prop :=
  active h' = active h /\ challenges h' = challenges h /\ expected h' = expected h.
Lemma same_ace_refl : forall h, same_ace h h.
Proof. intros h. repeat split. Qed.
Lemma same_ace_trans : forall h1 h2 h3, same_ace h1 h2 -> same_ace h2 h3 -> same_ace h1 h3.
Proof. intros h1 h2 h3 (A1 & A2 & A3) (B1 & B2 & B3). repeat split; congruence. Qed.
Lemma Sur_same : forall k a h h', same_ace h' h -> Sur k a h -> Sur k a h'.
Proof. intros k a h h' (H1 & H2 & H3). apply Sur_ext; assumption. Qed.
Lemma ExpInv_same : forall h h', same_ace h' h -> ExpInv h -> ExpInv h'.
Proof. intros h h' (H1 & H2 & H3). apply ExpInv_ext; assumption. Qed.

(* the clock of the environment: [with_clock] changes nothing but [cfg_clock] *)
Lemma with_clock_local : forall c t, cfg_local (with_clock c t) = cfg_local c. Proof. reflexivity. Qed.
Lemma with_clock_enr : forall c t, cfg_enr (with_clock c t) = cfg_enr c. Proof. reflexivity. Qed.
Lemma with_clock_retries : forall c t, cfg_retries (with_clock c t) = cfg_retries c. Proof. reflexivity. Qed.
Lemma with_clock_timeout : forall c t, cfg_timeout (with_clock c t) = cfg_timeout c. Proof. reflexivity. Qed.
Lemma with_clock_listen : forall c t, cfg_listen (with_clock c t) = cfg_listen c. Proof. reflexivity. Qed.
Lemma with_clock_capacity : forall c t, cfg_capacity (with_clock c t) = cfg_capacity c. Proof. reflexivity. Qed.
Lemma with_clock_session_ttl : forall c t, cfg_session_ttl (with_clock c t) = cfg_session_ttl c. Proof. reflexivity. Qed.
Lemma with_clock_clock : forall c t, cfg_clock (with_clock c t) = t. Proof. reflexivity. Qed.
Lemma with_clock_grid : forall c t, cfg_grid (with_clock c t) = cfg_grid c. Proof. reflexivity. Qed.
Lemma with_clock_fix_d1 : forall c t, fix_d1 (with_clock c t) = fix_d1 c. Proof. reflexivity. Qed.
Lemma with_clock_fix_d2a : forall c t, fix_d2a (with_clock c t) = fix_d2a c. Proof. reflexivity. Qed.
Lemma with_clock_fix_d2b : forall c t, fix_d2b (with_clock c t) = fix_d2b c. Proof. reflexivity. Qed.
Lemma with_clock_fix_d6 : forall c t, fix_d6 (with_clock c t) = fix_d6 c. Proof. reflexivity. Qed.
Lemma with_clock_idem : forall c t t', with_clock (with_clock c t) t' = with_clock c t'. Proof. reflexivity. Qed.
Lemma fire_time_with_clock : forall c t d now, fire_time (with_clock c t) d now = fire_time c d now.
Proof. reflexivity. Qed.

(* sessions: time stamps *)
Lemma touch_enc : forall se t, s_enc (touch se t) = s_enc se. Proof. reflexivity. Qed.
Lemma touch_dec : forall se t, s_dec (touch se t) = s_dec se. Proof. reflexivity. Qed.
Lemma touch_old : forall se t, s_old (touch se t) = s_old se. Proof. reflexivity. Qed.
Lemma touch_await : forall se t, s_await (touch se t) = s_await se. Proof. reflexivity. Qed.
Lemma touch_counter : forall se t, s_counter (touch se t) = s_counter se. Proof. reflexivity. Qed.
Lemma touch_used : forall se t, s_used (touch se t) = t. Proof. reflexivity. Qed.
Lemma touch_touch : forall se t t', touch (touch se t) t' = touch se t'. Proof. reflexivity. Qed.

(* [sess_get] in its three cases *)
Lemma sess_get_cases : forall c h na,
  (alist_get na (sessions h) = None /\ sess_get c h na = (h, None)) \/
  (exists s0, alist_get na (sessions h) = Some s0 /\ sess_expired c s0 = true /\
     sess_get c h na = (set_sessions h (alist_remove na (sessions h)), None)) \/
  (exists s0, alist_get na (sessions h) = Some s0 /\ sess_expired c s0 = false /\
     sess_get c h na = (set_sessions h (alist_remove na (sessions h) ++ [(na, touch s0 (cfg_clock c))]),
                        Some (touch s0 (cfg_clock c)))).
Proof.
  intros c h na. unfold sess_get. destruct (alist_get na (sessions h)) as [s0|]; [|left; auto].
  right. destruct (sess_expired c s0) eqn:E; [left|right]; exists s0; auto.
Qed.
Lemma sess_get_some_inv : forall c h na h' se, sess_get c h na = (h', Some se) ->
  exists s0, alist_get na (sessions h) = Some s0 /\ sess_expired c s0 = false /\ se = touch s0 (cfg_clock c) /\
    h' = set_sessions h (alist_remove na (sessions h) ++ [(na, se)]).
Proof.
  intros c h na h' se E. destruct (sess_get_cases c h na) as [[_ X]|[(s0 & _ & _ & X)|(s0 & G & Ex & X)]];
    rewrite X in E; inversion E; subst. eauto.
Qed.
Lemma sess_get_none_inv : forall c h na h', sess_get c h na = (h', None) ->
  h' = set_sessions h (alist_remove na (sessions h)) /\
  (alist_get na (sessions h) = None \/ exists s0, alist_get na (sessions h) = Some s0 /\ sess_expired c s0 = true).
Proof.
  assert (R : forall {A} k (l : list (naddr * A)), alist_get k l = None -> alist_remove k l = l).
  { intros A k. induction l as [|[k' v] r IH]; cbn [alist_get alist_remove]; intros H; [reflexivity|].
    destruct (naddr_eqb k k'); [discriminate|]. rewrite IH by assumption. reflexivity. }
  intros c h na h' E. destruct (sess_get_cases c h na) as [[G X]|[(s0 & G & Ex & X)|(s0 & _ & _ & X)]];
    rewrite X in E; [injection E as E1; subst h'|injection E as E1; subst h'|discriminate].
  - split; [|left; exact G]. rewrite (R _ _ _ G). destruct h; reflexivity.
  - split; [reflexivity|right; eauto].
Qed.
(* [sess_get] changes nothing but the sessions *)
Lemma sess_get_frame : forall c h na,
  active (fst (sess_get c h na)) = active h /\ nmap (fst (sess_get c h na)) = nmap h /\
  pending (fst (sess_get c h na)) = pending h /\ challenges (fst (sess_get c h na)) = challenges h /\
  expected (fst (sess_get c h na)) = expected h.
Proof.
  intros c h na. unfold sess_get. destruct (alist_get na (sessions h)) as [s0|]; [|repeat split].
  destruct (sess_expired c s0); repeat split.
Qed.
Lemma sess_get_same : forall c h na, same_ace (fst (sess_get c h na)) h.
Proof. intros c h na. destruct (sess_get_frame c h na) as (A & _ & _ & B & C). repeat split; assumption. Qed.

(* [drop_expired] splits the list: the purged keys are those of a prefix *)
Lemma drop_expired_split : forall c l, exists pre,
  l = pre ++ snd (drop_expired c l) /\ fst (drop_expired c l) = map fst pre /\
  Forall (fun x => sess_expired c (snd x) = true) pre.
Proof.
  intros c. induction l as [|[na se] r IH]; cbn [drop_expired].
  - exists []. repeat split. constructor.
  - destruct (sess_expired c se) eqn:E.
    + destruct IH as (pre & H1 & H2 & H3). destruct (drop_expired c r) as [ks r'] eqn:D. cbn [fst snd] in *.
      exists ((na, se) :: pre). cbn [app map fst]. repeat split; [congruence|congruence|].
      constructor; [exact E|exact H3].
    + exists []. repeat split. constructor.
Qed.
Lemma drop_expired_in : forall c l x, In x (snd (drop_expired c l)) -> In x l.
Proof.
  intros c l x H. destruct (drop_expired_split c l) as (pre & H1 & _). rewrite H1. apply in_or_app. auto.
Qed.

(* [remove_expired_sessions] changes nothing but the sessions and emits at most one event, which
   is neither a wire output nor about a request *)
Lemma remove_expired_sessions_hs : forall c s,
  hs (remove_expired_sessions c s) = set_sessions (hs s) (snd (drop_expired c (sessions (hs s)))).
Proof.
  intros c s. unfold remove_expired_sessions.
  destruct (drop_expired_split c (sessions (hs s))) as (pre & H1 & H2 & _).
  destruct (drop_expired c (sessions (hs s))) as [ks l]. cbn [fst snd] in *.
  destruct ks as [|k ks]; [|reflexivity].
  destruct pre; [|discriminate]. cbn [app] in H1. rewrite <- H1. destruct s as [[] ? ?]; reflexivity.
Qed.
Lemma remove_expired_sessions_dr : forall c s, dr (remove_expired_sessions c s) = dr s.
Proof.
  intros c s. unfold remove_expired_sessions. destruct (drop_expired c (sessions (hs s))) as [[|k ks] l]; reflexivity.
Qed.
Lemma remove_expired_sessions_outs : forall c s,
  outs (remove_expired_sessions c s) = outs s \/
  exists ks, outs (remove_expired_sessions c s) = outs s ++ [OEvent (HExpiredSessions ks)].
Proof.
  intros c s. unfold remove_expired_sessions. destruct (drop_expired c (sessions (hs s))) as [[|k ks] l]; [left; reflexivity|].
  right. eexists. reflexivity.
Qed.
Lemma remove_expired_sessions_frame : forall c s,
  active (hs (remove_expired_sessions c s)) = active (hs s) /\ nmap (hs (remove_expired_sessions c s)) = nmap (hs s) /\
  pending (hs (remove_expired_sessions c s)) = pending (hs s) /\
  challenges (hs (remove_expired_sessions c s)) = challenges (hs s) /\
  expected (hs (remove_expired_sessions c s)) = expected (hs s).
Proof. intros c s. rewrite remove_expired_sessions_hs. repeat split. Qed.
Lemma remove_expired_sessions_same : forall c s, same_ace (hs (remove_expired_sessions c s)) (hs s).
Proof. intros c s. rewrite remove_expired_sessions_hs. repeat split. Qed.
Lemma sess_put_same : forall h na se, same_ace (sess_put h na se) h.
Proof. repeat split. Qed.
Lemma sess_insert_same : forall c h na se, same_ace (sess_insert c h na se) h.
Proof. repeat split. Qed.
Lemma sess_remove_same : forall h na, same_ace (sess_remove h na) h.
Proof. repeat split. Qed.
Lemma set_pending_same : forall h p, same_ace (set_pending h p) h.
Proof. repeat split. Qed.
Lemma push_pending_same : forall h na q, same_ace (push_pending h na q) h.
Proof. intros h na q. unfold push_pending. destruct (alist_get na (pending h)); repeat split. Qed.

Lemma encrypt_message_hs : forall c s na se m, hs (fst (fst (encrypt_message c s na se m))) = hs s.
Proof.
  intros c s na se m. unfold encrypt_message. destruct (pop_pk (dr s)) as [[[[x1 x2] x3] x4] d']. reflexivity.
Qed.

Lemma is_awaiting_session_same : forall c s na, same_ace (hs (fst (is_awaiting_session c s na))) (hs s).
Proof.
  intros c s na. unfold is_awaiting_session. pose proof (sess_get_same c (hs s) na) as H.
  destruct (sess_get c (hs s) na) as [h se]. cbn [fst] in H. destruct se; exact H.
Qed.

(* primitive transformers *)
Lemma Sur_add_expected : forall k a s, Sur k a (hs s) -> Sur (S k) a (hs (add_expected s a)).
Proof.
  intros k a s (H1 & H2 & H3). unfold Sur, SurT. cbn [add_expected with_hs hs active challenges expected].
  split; [assumption|split].
  - apply exp_add_wf; assumption.
  - intros b. rewrite exp_get_add, H3. destruct (N.eqb a b); lia.
Qed.
Lemma Sur_remove_expected : forall k a s, Sur (S k) a (hs s) -> Sur k a (hs (remove_expected s a)).
Proof.
  intros k a s (H1 & H2 & H3). unfold Sur, SurT. cbn [remove_expected with_hs hs active challenges expected].
  split; [assumption|split].
  - apply exp_remove_wf; assumption.
  - intros b. rewrite exp_get_remove, H3 by assumption. destruct (N.eqb a b); lia.
Qed.

Lemma Sur_ar_insert : forall c k na r now h, Sur (S k) (snd na) h -> req_ok na r ->
  Sur k (snd na) (ar_insert c h na r now).
Proof.
  intros c k na r now h (H1 & H2 & H3) Hok. unfold Sur, SurT, ar_insert.
  cbn [set_active active challenges expected]. destruct (alist_get na (active h)) as [l|] eqn:G.
  - destruct (ActWF_get _ _ _ H1 G) as [Hne HF]. split; [|split; [assumption|]].
    + eapply ActWF_set; eauto.
      * destruct l; discriminate.
      * apply Forall_app. split; auto.
    + intros a. rewrite H3. pose proof (cnt_act_set a _ _ _ (l ++ [r]) G) as E.
      rewrite app_length in E. cbn [length] in E. unfold ind in E. destruct (N.eqb (snd na) a); lia.
  - split; [|split; [assumption|]].
    + apply ActWF_app_new; assumption.
    + intros a. rewrite H3, cnt_act_app. cbn [cnt_act length]. unfold ind. destruct (N.eqb (snd na) a); lia.
Qed.

Lemma emit_hs : forall s o, hs (emit s o) = hs s.
Proof. reflexivity. Qed.
Lemma send_hs : forall s na p, hs (send s na p) = hs s.
Proof. reflexivity. Qed.

Lemma fold_left_inv : forall {A B} (P : A -> Prop) (f : A -> B -> A) (l : list B),
  (forall a b, In b l -> P a -> P (f a b)) -> forall a, P a -> P (fold_left f l a).
Proof.
  intros A B P f. induction l as [|b r IH]; cbn [fold_left]; intros Hf a Ha; auto.
  apply IH.
  - intros a' b' Hin. apply Hf. right. assumption.
  - apply Hf; auto. left. reflexivity.
Qed.

(* ------------------------------------------------------------------------------------------ *)
(* one lemma per model function *)

Lemma send_request_inv : forall c s ct ext rid body now,
  ExpInv (hs s) -> ExpInv (hs (fst (send_request c s ct ext rid body now))).
Proof.
  intros c s ct ext rid body now H. unfold send_request.
  destruct (existsb (N.eqb (c_addr ct)) (cfg_listen c)); [exact H|].
  assert (H1 : same_ace (hs (fst (if has_challenge (hs s) (c_naddr ct) then (s, true)
                                    else is_awaiting_session c s (c_naddr ct)))) (hs s)).
  { destruct (has_challenge (hs s) (c_naddr ct)); [apply same_ace_refl | apply is_awaiting_session_same]. }
  destruct (if has_challenge (hs s) (c_naddr ct) then (s, true) else is_awaiting_session c s (c_naddr ct))
    as [s1 aw]. cbn [fst] in H1.
  destruct aw; cbn [fst].
  - cbn [with_hs hs]. eapply ExpInv_same; [|exact H].
    eapply same_ace_trans; [apply push_pending_same | exact H1].
  - pose proof (sess_get_same c (hs s1) (c_naddr ct)) as H2.
    destruct (sess_get c (hs s1) (c_naddr ct)) as [h2 se]. cbn [fst] in H2.
    assert (H3 : ExpInv h2). { eapply ExpInv_same; [|exact H]. eapply same_ace_trans; eauto. }
    destruct se as [se|].
    + pose proof (encrypt_message_hs c (with_hs s1 h2) (c_naddr ct) se (MReq rid body)) as H4.
      destruct (encrypt_message c (with_hs s1 h2) (c_naddr ct) se (MReq rid body)) as [[s3 se'] p].
      cbn [fst with_hs hs] in H4. cbn [fst with_hs hs send emit].
      apply (Sur0_iff (snd (c_naddr ct))). apply Sur_ar_insert; [|reflexivity].
      apply (Sur_add_expected 0). cbn [hs]. apply (Sur0_iff (c_addr ct)).
      eapply ExpInv_same; [apply sess_put_same|]. rewrite H4. exact H3.
    + destruct (pop_pk (dr (with_hs s1 h2))) as [[[[cn r] aad] x4] d']. cbn [fst with_hs hs send emit].
      apply (Sur0_iff (snd (c_naddr ct))). apply Sur_ar_insert; [|reflexivity].
      apply (Sur_add_expected 0). cbn [hs]. apply (Sur0_iff (c_addr ct)). exact H3.
Qed.

Lemma send_pending_requests_inv : forall c s na now,
  ExpInv (hs s) -> ExpInv (hs (send_pending_requests c s na now)).
Proof.
  intros c s na now H. unfold send_pending_requests.
  destruct (alist_get na (pending (hs s))) as [l|]; [|exact H].
  apply (fold_left_inv (fun s => ExpInv (hs s))).
  - intros s' q _ Hs'. pose proof (send_request_inv c s' (pq_contact q) (pq_ext q) (pq_rid q) (pq_body q) now Hs') as X.
    destruct (send_request c s' (pq_contact q) (pq_ext q) (pq_rid q) (pq_body q) now) as [s'' ok].
    cbn [fst] in X. destruct ok; [exact X|]. destruct (pq_ext q); exact X.
  - cbn [with_hs hs]. eapply ExpInv_same; [apply set_pending_same | exact H].
Qed.

Lemma fold_emit_hs : forall {B} (g : B -> option output) (l : list B) (s : st),
  hs (fold_left (fun s q => match g q with Some o => emit s o | None => s end) l s) = hs s.
Proof.
  intros B g l. induction l as [|q r IH]; intros s; cbn [fold_left]; [reflexivity|].
  rewrite IH. destruct (g q); reflexivity.
Qed.

Lemma ar_remove_requests_Sur : forall h na h' reqs,
  ar_remove_requests h na = (h', reqs) -> ExpInv h -> Sur (length reqs) (snd na) h'.
Proof.
  intros h na h' reqs E H. unfold ar_remove_requests in E.
  apply (Sur0_iff (snd na)) in H. destruct H as (H1 & H2 & H3).
  destruct (alist_get na (active h)) as [l|] eqn:G; inversion E; subst.
  - unfold Sur, SurT. cbn [set_active active challenges expected]. split; [|split; [assumption|]].
    + apply ActWF_remove. assumption.
    + intros a. rewrite H3. pose proof (cnt_act_remove a _ _ _ G) as X. unfold ind in X.
      destruct (N.eqb (snd na) a); lia.
  - split; [assumption|split; [assumption|]]. exact H3.
Qed.

Lemma fold_remove_expected_Sur : forall (g : rcall -> option output) a (reqs : list rcall) (s : st),
  Sur (length reqs) a (hs s) ->
  Sur 0 a (hs (fold_left (fun s r => remove_expected (match g r with Some o => emit s o | None => s end) a) reqs s)).
Proof.
  intros g a. induction reqs as [|r t IH]; intros s H; cbn [fold_left]; [exact H|].
  apply IH. apply Sur_remove_expected. destruct (g r); exact H.
Qed.

Lemma fail_session_inv : forall c s na err rm,
  ExpInv (hs s) -> ExpInv (hs (fail_session c s na err rm)).
Proof.
  intros c s na err rm H. unfold fail_session.
  set (s1 := if rm then let s0 := remove_expired_sessions c s in with_hs s0 (sess_remove (hs s0) na) else s).
  assert (H1 : ExpInv (hs s1)).
  { subst s1. destruct rm; [|exact H]. cbn [with_hs hs]. eapply ExpInv_same; [apply sess_remove_same|].
    eapply ExpInv_same; [apply remove_expired_sessions_same|exact H]. }
  clearbody s1.
  set (s2 := match alist_get na (pending (hs s1)) with Some l => _ | None => s1 end).
  assert (H2 : ExpInv (hs s2)).
  { subst s2. destruct (alist_get na (pending (hs s1))) as [l|]; [|exact H1].
    match goal with |- ExpInv (hs (fold_left ?f l ?s0)) =>
      assert (X : hs (fold_left f l s0) = hs s0) end.
    { generalize (with_hs s1 (set_pending (hs s1) (alist_remove na (pending (hs s1))))).
      induction l as [|q r IH]; intros s0; cbn [fold_left]; [reflexivity|].
      rewrite IH. destruct (pq_ext q); reflexivity. }
    rewrite X. cbn [with_hs hs]. eapply ExpInv_same; [apply set_pending_same|exact H1]. }
  clearbody s2.
  destruct (ar_remove_requests (hs s2) na) as [h3 reqs] eqn:E.
  pose proof (ar_remove_requests_Sur _ _ _ _ E H2) as H3.
  apply (Sur0_iff (snd na)).
  assert (X : forall (l : list rcall) s0, Sur (length l) (snd na) (hs s0) ->
    Sur 0 (snd na) (hs (fold_left (fun s r =>
      let s' := if rc_ext r then emit s (OEvent (HRequestFailed (rc_rid r) err)) else s in
      remove_expected s' (snd na)) l s0))).
  { induction l as [|r t IH]; intros s0 Hs0; cbn [fold_left]; [exact Hs0|].
    apply IH. apply Sur_remove_expected. destruct (rc_ext r); exact Hs0. }
  apply X. exact H3.
Qed.

Lemma fail_request_inv : forall c s r err rm,
  ExpInv (hs s) -> ExpInv (hs (fail_request c s r err rm)).
Proof.
  intros c s r err rm H. unfold fail_request. apply fail_session_inv. destruct (rc_ext r); exact H.
Qed.

(* the local fixpoint of ar_update_packet *)
Definition upd_pkt (old : nonce) (p : packet) := fix upd_pkt (l : list rcall) (done : bool) : list rcall :=
  match l with
  | [] => []
  | r :: rest =>
    if negb done && nonce_eqb (rc_nonce r) old then
      {| rc_contact := rc_contact r; rc_pkt := p; rc_ext := rc_ext r; rc_rid := rc_rid r;
         rc_body := rc_body r; rc_hs_sent := rc_hs_sent r; rc_retries := rc_retries r;
         rc_remaining := rc_remaining r; rc_init := rc_init r |} :: upd_pkt rest true
    else r :: upd_pkt rest done
  end.

Lemma ar_update_packet_eq : forall c h old p now,
  ar_update_packet c h old p now =
  match nmap_get old (nmap h) with
  | None => h
  | Some na =>
    let nm := nmap_insert (pkt_nonce p) na (now + cfg_timeout c)%N (nmap_remove old (nmap h)) in
    match alist_get na (active h) with
    | None => set_active h (active h) nm
    | Some l => set_active h (alist_set na (upd_pkt old p l false) (active h)) nm
    end
  end.
Proof. reflexivity. Qed.

Lemma upd_pkt_length : forall old p l done, length (upd_pkt old p l done) = length l.
Proof.
  intros old p. induction l as [|r t IH]; intros done; cbn [upd_pkt length]; [reflexivity|].
  destruct (negb done && nonce_eqb (rc_nonce r) old); cbn [length]; rewrite IH; reflexivity.
Qed.
Lemma upd_pkt_ok : forall na old p l done, Forall (req_ok na) l -> Forall (req_ok na) (upd_pkt old p l done).
Proof.
  intros na old p. induction l as [|r t IH]; intros done H; cbn [upd_pkt]; [constructor|].
  inversion H; subst. destruct (negb done && nonce_eqb (rc_nonce r) old); constructor; auto.
Qed.

Lemma ar_update_packet_Sur : forall c k a h old p now, Sur k a h -> Sur k a (ar_update_packet c h old p now).
Proof.
  intros c k a h old p now H. rewrite ar_update_packet_eq.
  destruct (nmap_get old (nmap h)) as [na|]; [|exact H]. cbv zeta.
  destruct (alist_get na (active h)) as [l|] eqn:G; [|exact H].
  destruct H as (H1 & H2 & H3). unfold Sur, SurT. cbn [set_active active challenges expected].
  destruct (ActWF_get _ _ _ H1 G) as [Hne HF]. split; [|split; [assumption|]].
  - eapply ActWF_set; eauto.
    + intros E. apply (f_equal (@length _)) in E. rewrite upd_pkt_length in E. destruct l; [congruence|discriminate].
    + apply upd_pkt_ok. assumption.
  - intros b. rewrite H3. pose proof (cnt_act_set b _ _ _ (upd_pkt old p l false) G) as X.
    rewrite upd_pkt_length in X. lia.
Qed.

Lemma replay_active_requests_inv : forall c s na skip now,
  ExpInv (hs s) -> ExpInv (hs (replay_active_requests c s na skip now)).
Proof.
  intros c s na skip now H. unfold replay_active_requests.
  pose proof (sess_get_same c (hs s) na) as H1.
  destruct (sess_get c (hs s) na) as [h1 se]. cbn [fst] in H1.
  destruct se as [se0|]; [|cbn [with_hs hs]; eapply ExpInv_same; eauto].
  match goal with |- context [fold_left ?f ?l (with_hs s h1, se0, [])] =>
    assert (X : hs (fst (fst (fold_left f l (with_hs s h1, se0, [])))) = h1) end.
  { apply (fold_left_inv (fun acc : st * session * list (nonce * packet) => hs (fst (fst acc)) = h1)).
    - intros [[s' se'] pk] r _ Ha. cbn [fst] in Ha.
      pose proof (encrypt_message_hs c s' na se' (MReq (rc_rid r) (rc_body r))) as Y.
      destruct (encrypt_message c s' na se' (MReq (rc_rid r) (rc_body r))) as [[s'' se''] p].
      cbn [fst] in *. congruence.
    - reflexivity. }
  match goal with |- context [fold_left ?f ?l (with_hs s h1, se0, [])] =>
    destruct (fold_left f l (with_hs s h1, se0, [])) as [[s2 se2] pkts] end.
  cbn [fst] in X.
  apply (fold_left_inv (fun s => ExpInv (hs s))).
  - intros s' x _ Hs'. cbn [send emit with_hs hs]. apply (Sur0_iff 0%N). apply ar_update_packet_Sur.
    apply Sur0_iff. exact Hs'.
  - cbn [with_hs hs]. eapply ExpInv_same; [apply sess_put_same|]. rewrite X.
    eapply ExpInv_same; [exact H1|exact H].
Qed.

Lemma new_session_inv : forall c s na se skip now,
  ExpInv (hs s) -> ExpInv (hs (new_session c s na se skip now)).
Proof.
  intros c s na se skip now H. unfold new_session.
  assert (H0 : ExpInv (hs (remove_expired_sessions c s))).
  { eapply ExpInv_same; [apply remove_expired_sessions_same|exact H]. }
  clear H. revert H0. generalize (remove_expired_sessions c s). clear s. intros s H.
  pose proof (sess_get_same c (hs s) na) as H1.
  destruct (sess_get c (hs s) na) as [h1 cur]. cbn [fst] in H1.
  assert (H2 : ExpInv h1) by (eapply ExpInv_same; eauto).
  destruct cur as [cs|].
  - match goal with |- context [replay_active_requests c ?s1 na skip now] =>
      assert (X : ExpInv (hs (replay_active_requests c s1 na skip now))) end.
    { apply replay_active_requests_inv. cbn [with_hs hs]. eapply ExpInv_same; [apply sess_put_same|exact H2]. }
    destruct (fix_d2a c); [apply send_pending_requests_inv|]; exact X.
  - apply send_pending_requests_inv. cbn [with_hs hs]. eapply ExpInv_same; [apply sess_insert_same|exact H2].
Qed.

Lemma handle_request_timeout_inv : forall c s na r now,
  Sur 1 (snd na) (hs s) -> req_ok na r -> ExpInv (hs (handle_request_timeout c s na r now)).
Proof.
  intros c s na r now H Hok. unfold handle_request_timeout.
  destruct (N.leb (cfg_retries c) (rc_retries r)).
  - apply fail_request_inv. apply (Sur0_iff (snd na)). apply Sur_remove_expected. exact H.
  - cbn [send emit with_hs hs]. apply (Sur0_iff (snd na)). apply Sur_ar_insert; [exact H|exact Hok].
Qed.

Lemma send_response_inv : forall c s na rid rb, ExpInv (hs s) -> ExpInv (hs (send_response c s na rid rb)).
Proof.
  intros c s na rid rb H. unfold send_response.
  pose proof (sess_get_same c (hs s) na) as H1.
  destruct (sess_get c (hs s) na) as [h1 se]. cbn [fst] in H1.
  destruct se as [se|]; [|cbn [with_hs hs]; eapply ExpInv_same; eauto].
  pose proof (encrypt_message_hs c (with_hs s h1) na se (MResp rid rb)) as Y.
  destruct (encrypt_message c (with_hs s h1) na se (MResp rid rb)) as [[s2 se'] p].
  cbn [fst with_hs hs] in Y. cbn [send emit with_hs hs].
  eapply ExpInv_same; [apply sess_put_same|]. rewrite Y. eapply ExpInv_same; eauto.
Qed.

Lemma send_challenge_inv : forall c s na n known now,
  ExpInv (hs s) -> ExpInv (hs (send_challenge c s na n known now)).
Proof.
  intros c s na n known now H. unfold send_challenge.
  destruct (has_challenge (hs s) na); [exact H|].
  destruct (pop_pk (dr s)) as [[[[idn x2] cd] x4] d'].
  cbn [send emit with_hs hs add_expected set_challenges].
  apply (Sur0_iff (snd na)) in H. destruct H as (H1 & H2 & H3).
  apply (Sur0_iff (snd na)). unfold Sur, SurT. cbn [active challenges expected set_challenges].
  split; [assumption|split].
  - apply exp_add_wf; assumption.
  - intros a. rewrite exp_get_add, H3, cnt_ch_app. cbn [cnt_ch]. unfold ind. destruct (N.eqb (snd na) a); lia.
Qed.

Lemma ar_remove_request_Sur : forall h na rid h' r,
  ar_remove_request h na rid = (h', Some r) -> ExpInv h -> Sur 1 (snd na) h' /\ req_ok na r.
Proof.
  intros h na rid h' r E H. unfold ar_remove_request in E.
  apply (Sur0_iff (snd na)) in H. destruct H as (H1 & H2 & H3).
  destruct (alist_get na (active h)) as [l|] eqn:G; [|discriminate].
  destruct (remove_first (fun r0 => N.eqb (rc_rid r0) rid) l) as [[r0 l']|] eqn:R; [|discriminate].
  inversion E; subst. destruct (ActWF_get _ _ _ H1 G) as [Hne HF].
  destruct (remove_first_Forall _ _ _ _ _ R HF) as [Hr HF'].
  apply remove_first_spec in R. destruct R as (_ & Hlen & _).
  split; [|exact Hr]. unfold Sur, SurT. cbn [set_active active challenges expected].
  split; [|split; [assumption|]].
  - eapply ActWF_put; eauto.
  - intros a. rewrite H3. pose proof (cnt_act_put a _ _ _ l' G) as X. rewrite Hlen in X.
    unfold ind in X. destruct (N.eqb (snd na) a); lia.
Qed.

Lemma ar_remove_request_none : forall h na rid h', ar_remove_request h na rid = (h', None) -> h' = h.
Proof.
  intros h na rid h' E. unfold ar_remove_request in E.
  destruct (alist_get na (active h)) as [l|]; [|congruence].
  destruct (remove_first (fun r0 => N.eqb (rc_rid r0) rid) l) as [[r0 l']|]; [discriminate|congruence].
Qed.

Lemma handle_response_inv : forall c s na rid rb now,
  ExpInv (hs s) -> ExpInv (hs (handle_response c s na rid rb now)).
Proof.
  intros c s na rid rb now H. unfold handle_response.
  destruct (ar_remove_request (hs s) na rid) as [h1 found] eqn:E.
  destruct found as [r|]; [|exact H].
  destruct (ar_remove_request_Sur _ _ _ _ _ E H) as [H1 Hok].
  assert (R : forall rem ev, ExpInv (hs (emit (with_hs (with_hs s h1)
             (ar_insert c (hs (with_hs s h1)) na
                {| rc_contact := rc_contact r; rc_pkt := rc_pkt r; rc_ext := rc_ext r; rc_rid := rc_rid r;
                   rc_body := rc_body r; rc_hs_sent := rc_hs_sent r; rc_retries := rc_retries r;
                   rc_remaining := rem; rc_init := rc_init r |} now)) ev))).
  { intros rem ev. cbn [emit with_hs hs]. apply (Sur0_iff (snd na)). apply Sur_ar_insert; [exact H1|exact Hok]. }
  assert (F : forall ev, ExpInv (hs (emit (remove_expected (with_hs s h1) (snd na)) ev))).
  { intros ev. rewrite emit_hs. apply (Sur0_iff (snd na)). apply Sur_remove_expected. exact H1. }
  cbv zeta. destruct rb as [total recs|tag]; [|apply F].
  destruct (N.ltb 1 total); [|apply F].
  destruct (rc_remaining r) as [rem|]; [|apply R].
  destruct (negb (N.eqb (rem - 1) 0)); [apply R|apply F].
Qed.

Lemma handle_message_inv : forall c s na n aad ct now,
  ExpInv (hs s) -> ExpInv (hs (handle_message c s na n aad ct now)).
Proof.
  intros c s na n aad ct now H. unfold handle_message.
  pose proof (sess_get_same c (hs s) na) as H1.
  destruct (sess_get c (hs s) na) as [h1 se]. cbn [fst] in H1.
  destruct se as [se|]; [|cbn [emit with_hs hs]; eapply ExpInv_same; eauto].
  destruct (decrypt_message se n aad ct) as [se' m].
  set (s2 := with_hs (with_hs s h1) (sess_put (hs (with_hs s h1)) na se')).
  assert (H2 : ExpInv (hs s2)).
  { subst s2. cbn [with_hs hs]. eapply ExpInv_same; [apply sess_put_same|]. eapply ExpInv_same; eauto. }
  clearbody s2.
  destruct m as [[rid body|rid rb|j]|].
  - exact H2.
  - assert (HR : ExpInv (hs (handle_response c s2 na rid rb now))) by (apply handle_response_inv; exact H2).
    destruct (s_await se') as [arid|]; [|exact HR].
    destruct (N.eqb rid arid); [|exact HR].
    match goal with |- context [fail_session c ?x na ERR_INVALID_REMOTE_ENR true] => set (s3 := x) end.
    assert (H3 : ExpInv (hs s3)).
    { subst s3.
      assert (H3 : ExpInv (hs (with_hs s2 (sess_put (hs s2) na
                   {| s_enc := s_enc se'; s_dec := s_dec se'; s_old := s_old se'; s_await := None;
                      s_counter := s_counter se'; s_used := s_used se' |})))).
      { cbn [with_hs hs]. eapply ExpInv_same; [apply sess_put_same|exact H2]. }
      destruct (fix_d2b c); [|exact H3].
      match goal with |- context [ar_remove_request ?h na rid] =>
        destruct (ar_remove_request h na rid) as [h4 found] eqn:E end.
      destruct found as [r|]; [|exact H3].
      destruct (ar_remove_request_Sur _ _ _ _ _ E H3) as [H4 _].
      apply (Sur0_iff (snd na)). apply Sur_remove_expected. exact H4. }
    clearbody s3.
    destruct rb as [total recs|tag]; [|apply fail_session_inv; exact H3].
    destruct (rev recs) as [|e t]; [apply fail_session_inv; exact H3|].
    destruct (verify_enr e na); [exact H3|]. apply fail_session_inv. exact H3.
  - exact H2.
  - match goal with |- context [has_challenge (hs ?x) na] => assert (H3 : ExpInv (hs x)) end.
    { apply fail_session_inv. exact H2. }
    destruct (has_challenge _ na); exact H3.
Qed.

Lemma chall_remove_Sur : forall s na ch, chall_get na (challenges (hs s)) = Some ch -> ExpInv (hs s) ->
  Sur 1 (snd na) (hs (with_hs s (set_challenges (hs s) (chall_remove na (challenges (hs s)))))).
Proof.
  intros s na ch G H. apply (Sur0_iff (snd na)) in H. destruct H as (H1 & H2 & H3).
  unfold Sur, SurT. cbn [with_hs hs set_challenges active challenges expected].
  split; [assumption|split; [assumption|]]. intros a. rewrite H3.
  pose proof (chall_get_remove a _ _ _ G) as X. unfold ind in X. destruct (N.eqb (snd na) a); lia.
Qed.

Lemma handle_auth_message_inv : forall c s na n aad sg eph eph_ok rec ct now,
  fix_d6 c = true ->
  ExpInv (hs s) -> ExpInv (hs (handle_auth_message c s na n aad sg eph eph_ok rec ct now)).
Proof.
  intros c s na n aad sg eph eph_ok rec ct now D6 H. unfold handle_auth_message.
  destruct (chall_get na (challenges (hs s))) as [ch|] eqn:G; [|exact H].
  pose proof (chall_remove_Sur s na ch G H) as H1.
  set (s1 := with_hs s (set_challenges (hs s) (chall_remove na (challenges (hs s))))) in *. clearbody s1.
  destruct (establish c (fst na) ch sg eph eph_ok rec) as [se e| |].
  - apply handle_message_inv. apply new_session_inv.
    assert (H2 : ExpInv (hs (remove_expected s1 (snd na)))).
    { apply (Sur0_iff (snd na)). apply Sur_remove_expected. exact H1. }
    destruct (verify_enr e na); exact H2.
  - destruct H1 as (H1 & H2 & H3). apply (Sur0_iff (snd na)). unfold Sur, SurT.
    cbn [with_hs hs set_challenges active challenges expected].
    split; [assumption|split; [assumption|]]. intros a. rewrite H3, cnt_ch_app. cbn [cnt_ch]. unfold ind.
    destruct (N.eqb (snd na) a); lia.
  - rewrite D6. apply fail_session_inv. apply (Sur0_iff (snd na)). apply Sur_remove_expected. exact H1.
Qed.

Lemma put_list_same_cnt : forall a act na l, alist_get na act = Some l -> cnt_act a (put_list na l act) = cnt_act a act.
Proof. intros a act na l G. pose proof (cnt_act_put a act na l l G). lia. Qed.

Lemma ar_remove_by_nonce_Sur : forall h n h' found,
  ar_remove_by_nonce h n = (h', found) -> ExpInv h ->
  match found with
  | Some (na, r) => Sur 1 (snd na) h' /\ req_ok na r
  | None => ExpInv h'
  end.
Proof.
  intros h n h' found E H. unfold ar_remove_by_nonce in E.
  destruct (nmap_get n (nmap h)) as [na|]; [|inversion E; subst; exact H].
  destruct (alist_get na (active h)) as [l|] eqn:G.
  2:{ inversion E; subst. eapply ExpInv_ext; [| | |exact H]; reflexivity. }
  pose proof H as H0. apply (Sur0_iff (snd na)) in H. destruct H as (H1 & H2 & H3).
  destruct (ActWF_get _ _ _ H1 G) as [Hne HF].
  destruct (remove_first (fun r => nonce_eqb (rc_nonce r) n) l) as [[r l']|] eqn:R; inversion E; subst.
  - destruct (remove_first_Forall _ _ _ _ _ R HF) as [Hr HF'].
    apply remove_first_spec in R. destruct R as (_ & Hlen & _).
    split; [|exact Hr]. unfold Sur, SurT. cbn [set_active active challenges expected].
    split; [|split; [assumption|]].
    + eapply ActWF_put; eauto.
    + intros a. rewrite H3. pose proof (cnt_act_put a _ _ _ l' G) as X. rewrite Hlen in X.
      unfold ind in X. destruct (N.eqb (snd na) a); lia.
  - apply (Sur0_iff (snd na)). unfold Sur, SurT. cbn [set_active active challenges expected].
    split; [|split; [assumption|]].
    + eapply ActWF_put; eauto.
    + intros a. rewrite H3, put_list_same_cnt by assumption. reflexivity.
Qed.

Lemma handle_challenge_inv : forall c s src n seq cd now,
  fix_d6 c = true ->
  ExpInv (hs s) -> ExpInv (hs (handle_challenge c s src n seq cd now)).
Proof.
  intros c s src n seq cd now D6 H. unfold handle_challenge.
  destruct (nmap_get n (nmap (hs s))) as [na0|]; [|exact H].
  destruct (ar_remove_by_nonce (hs s) n) as [h1 found] eqn:E.
  pose proof (ar_remove_by_nonce_Sur _ _ _ _ E H) as H1.
  destruct found as [[na r]|]; [|exact H1]. destruct H1 as [H1 Hok].
  destruct (N.eqb (snd na) src) eqn:Esrc; cbn [negb].
  2:{ cbn [with_hs hs]. apply (Sur0_iff (snd na)). apply Sur_ar_insert; assumption. }
  apply N.eqb_eq in Esrc. subst src.
  destruct (rc_hs_sent r || c_ed (rc_contact r)).
  { rewrite D6. apply fail_request_inv. apply (Sur0_iff (snd na)). apply Sur_remove_expected. exact H1. }
  destruct (pop_pk (dr (with_hs s h1))) as [[[[cn rr] aad] eph] d'].
  unfold req_ok in Hok. rewrite Hok. cbn [with_hs hs].
  destruct (c_enr (rc_contact r)) as [e|].
  - apply new_session_inv. cbn [emit send with_hs hs]. apply (Sur0_iff (snd na)).
    apply Sur_ar_insert; [exact H1|]. unfold req_ok. cbn [rc_contact]. exact Hok.
  - destruct (pop_rid _) as [irid d''].
    match goal with |- context [send_request c ?s5 ?ct false irid 0%N now] =>
      pose proof (send_request_inv c s5 ct false irid 0%N now) as X;
      destruct (send_request c s5 ct false irid 0%N now) as [s6 ok] end.
    cbn [fst] in X. apply new_session_inv. apply X. cbn [emit send with_hs hs].
    apply (Sur0_iff (snd na)). apply Sur_ar_insert; [exact H1|]. unfold req_ok. cbn [rc_contact]. exact Hok.
Qed.

Lemma fire_request_inv : forall c s n na now, ExpInv (hs s) -> ExpInv (hs (fire_request c s n na now)).
Proof.
  intros c s n na now H. unfold fire_request.
  assert (H0 : ExpInv (hs (with_hs s (set_active (hs s) (active (hs s)) (nmap_remove n (nmap (hs s))))))).
  { cbn [with_hs hs]. eapply ExpInv_ext; [| | |exact H]; reflexivity. }
  destruct (alist_get na (active (hs s))) as [l|] eqn:G; [|exact H0].
  destruct (remove_first (fun r => nonce_eqb (rc_nonce r) n) l) as [[r l']|] eqn:R; [|exact H0].
  apply (Sur0_iff (snd na)) in H. destruct H as (H1 & H2 & H3).
  destruct (ActWF_get _ _ _ H1 G) as [Hne HF].
  destruct (remove_first_Forall _ _ _ _ _ R HF) as [Hr HF'].
  apply remove_first_spec in R. destruct R as (_ & Hlen & _).
  apply handle_request_timeout_inv; [|exact Hr].
  unfold Sur, SurT. cbn [with_hs hs set_active active challenges expected].
  split; [|split; [assumption|]].
  - eapply ActWF_put; eauto.
  - intros a. rewrite H3. pose proof (cnt_act_put a _ _ _ l' G) as X. rewrite Hlen in X.
    unfold ind in X. destruct (N.eqb (snd na) a); lia.
Qed.

Lemma fire_challenge_inv : forall c s na now,
  chall_get na (challenges (hs s)) <> None ->
  ExpInv (hs s) -> ExpInv (hs (fire_challenge c s na now)).
Proof.
  intros c s na now G H. unfold fire_challenge.
  destruct (chall_get na (challenges (hs s))) as [ch|] eqn:G'; [|congruence].
  apply send_pending_requests_inv. apply (Sur0_iff (snd na)). apply Sur_remove_expected.
  eapply chall_remove_Sur; eauto.
Qed.

Lemma fire_group_inv : forall c g s d ft, ExpInv (hs s) -> ExpInv (hs (fire_group c s g d ft)).
Proof.
  intros c g s d ft H. unfold fire_group. apply (fold_left_inv (fun s => ExpInv (hs s))); [|exact H].
  intros s' x _ Hs'. destruct (nmap_deadline (fst x) (nmap (hs s'))) as [d'|]; [|exact Hs'].
  destruct (N.eqb d' d); [|exact Hs']. apply fire_request_inv. exact Hs'.
Qed.

Lemma min_deadline_ch_in : forall l best x, min_deadline_ch l best = Some x -> In x l \/ best = Some x.
Proof.
  induction l as [|[[a ch] d] r IH]; cbn [min_deadline_ch In]; intros best x H; [auto|].
  apply IH in H. destruct H as [H|H]; [auto|].
  destruct best as [[[ba bc] bd]|].
  - destruct (N.ltb d bd); [inversion H; auto|auto].
  - inversion H; auto.
Qed.

Lemma fire_due_inv : forall c now fuel s, ExpInv (hs s) -> ExpInv (hs (fire_due c s now fuel)).
Proof.
  intros c now. induction fuel as [|f IH]; intros s H; cbn [fire_due]; [exact H|].
  assert (FR : forall d, ExpInv (hs (match group_of d (nmap (hs s)) with
      | _ :: _ :: _ =>
        let (rev_order, d') := pop_rev (dr s) in
        fire_group (with_clock c (fire_time c d now)) {| hs := hs s; dr := d'; outs := outs s |}
          (if rev_order then rev (group_of d (nmap (hs s))) else group_of d (nmap (hs s))) d (fire_time c d now)
      | _ => fire_group (with_clock c (fire_time c d now)) s (group_of d (nmap (hs s))) d (fire_time c d now)
      end))).
  { intros d. destruct (group_of d (nmap (hs s))) as [|x [|y g]]; try (apply fire_group_inv; exact H).
    destruct (pop_rev (dr s)) as [ro d']. apply fire_group_inv. exact H. }
  assert (FC : forall cna cc cd, min_deadline_ch (challenges (hs s)) None = Some (cna, cc, cd) ->
    ExpInv (hs (fire_challenge (with_clock c (fire_time c cd now)) s cna (fire_time c cd now)))).
  { intros cna cc cd E. apply fire_challenge_inv; [|exact H].
    apply min_deadline_ch_in in E. destruct E as [E|E]; [|discriminate]. eapply chall_get_in; eauto. }
  destruct (min_deadline_nmap (nmap (hs s)) None) as [[[rn ra] rd]|];
  destruct (min_deadline_ch (challenges (hs s)) None) as [[[cna cc] cd]|] eqn:EC.
  - destruct (N.ltb rd now && (negb (N.ltb cd now) || N.leb rd cd)); [apply IH; apply FR|].
    destruct (N.ltb cd now); [apply IH; eapply FC; reflexivity|exact H].
  - destruct (N.ltb rd now); [apply IH; apply FR|exact H].
  - destruct (N.ltb cd now); [apply IH; eapply FC; reflexivity|exact H].
  - exact H.
Qed.

(* the part of a step after the due timers have fired *)
Definition step_event (c : config) (s0 : st) (e : event) (now : N) : st :=
  match e with
  | EvTick => s0
  | EvRequest ct rid body =>
    let (s1, ok) := send_request c s0 ct true rid body now in
    if ok then s1 else emit s1 (OEvent (HRequestFailed rid ERR_SELF_REQUEST))
  | EvResponse na rid rb => send_response c s0 na rid rb
  | EvWhoAreYou na n known => send_challenge c s0 na n known now
  | EvInbound from p =>
    match p with
    | PWho n idn seq cd => handle_challenge c s0 from n seq cd now
    | PHs src n aad sg eph eph_ok rec ct => handle_auth_message c s0 (src, from) n aad sg eph eph_ok rec ct now
    | PMsg src n aad ct => handle_message c s0 (src, from) n aad ct now
    end
  end.
(* [step] runs under the clock [now] *)
Lemma step_unfold : forall c h e now d,
  step c h e now d =
  (hs (step_event (with_clock c now) (fire_due (with_clock c now) {| hs := h; dr := d; outs := [] |} now TICK_FUEL) e now),
   outs (step_event (with_clock c now) (fire_due (with_clock c now) {| hs := h; dr := d; outs := [] |} now TICK_FUEL) e now)).
Proof. reflexivity. Qed.

Definition fixed_cfg (c : config) : Prop :=
  fix_d1 c = true /\ fix_d2a c = true /\ fix_d2b c = true /\ fix_d6 c = true.
Lemma fixed_cfg_with_clock : forall c t, fixed_cfg (with_clock c t) <-> fixed_cfg c.
Proof. intros c t. unfold fixed_cfg. cbn [with_clock fix_d1 fix_d2a fix_d2b fix_d6]. tauto. Qed.

Lemma step_inv_d6 : forall c h e now d, fix_d6 c = true -> ExpInv h -> ExpInv (fst (step c h e now d)).
Proof.
  intros c0 h e now d D6 H. unfold step. cbv zeta. cbn [fst].
  assert (D6' : fix_d6 (with_clock c0 now) = true) by exact D6.
  clear D6. revert D6'. generalize (with_clock c0 now). intros c D6.
  assert (H0 : ExpInv (hs (fire_due c {| hs := h; dr := d; outs := [] |} now TICK_FUEL))).
  { apply fire_due_inv. exact H. }
  set (s0 := fire_due c {| hs := h; dr := d; outs := [] |} now TICK_FUEL) in *. clearbody s0.
  destruct e as [ct rid body|na rid rb|na n known|from p|].
  - pose proof (send_request_inv c s0 ct true rid body now H0) as X.
    destruct (send_request c s0 ct true rid body now) as [s1 ok]. cbn [fst] in X. destruct ok; exact X.
  - apply send_response_inv. exact H0.
  - apply send_challenge_inv. exact H0.
  - destruct p.
    + apply handle_message_inv. exact H0.
    + apply handle_challenge_inv; assumption.
    + apply handle_auth_message_inv; assumption.
  - exact H0.
Qed.

Lemma step_inv : forall c h e now d, fixed_cfg c -> ExpInv h -> ExpInv (fst (step c h e now d)).
Proof. intros c h e now d (_ & _ & _ & D6). apply step_inv_d6. exact D6. Qed.

Lemma run_inv_d6 : forall c evs h, fix_d6 c = true -> ExpInv h -> ExpInv (fst (run c h evs)).
Proof.
  intros c. induction evs as [|[[e now] d] rest IH]; intros h D6 H; cbn [run]; [exact H|].
  pose proof (step_inv_d6 c h e now d D6 H) as X. destruct (step c h e now d) as [h1 o]. cbn [fst] in X.
  specialize (IH h1 D6 X). destruct (run c h1 rest) as [h2 os]. exact IH.
Qed.

(* every reachable state *)
Theorem expected_exact : forall c evs, fixed_cfg c -> ExpInv (fst (run c init_state evs)).
Proof. intros c evs (_ & _ & _ & D6). apply run_inv_d6; [exact D6|exact init_ExpInv]. Qed.

Theorem all_done_no_exemption : forall h, ExpInv h -> active h = [] -> challenges h = [] -> expected h = [].
Proof.
  intros h ((H1 & H2) & H3) Ha Hc. apply exp_all_zero_nil; [exact H2|].
  intros a. rewrite H3. unfold cnt_active, cnt_chall. rewrite Ha, Hc. reflexivity.
Qed.

(* the filter asks whether the address is a key of the map (contains_key) *)
Lemma exp_key_iff : forall e a, ExpWF e -> (In a (map fst e) <-> 0 < exp_get a e).
Proof.
  unfold ExpWF. induction e as [|[b n] r IH]; intros a [H1 H2].
  - cbn. split; [tauto|lia].
  - inversion H1; subst. inversion H2; subst. cbn [fst snd map In] in *. rewrite exp_get_cons.
    destruct (N.eqb b a) eqn:E.
    + apply N.eqb_eq in E. subst. split; auto.
    + apply N.eqb_neq in E. rewrite <- IH by auto. split; [intros [H|H]; [congruence|assumption]|auto].
Qed.

Theorem exempt_iff_waiting : forall h a, ExpInv h ->
  (In a (map fst (expected h)) <-> 0 < cnt_active a h + cnt_chall a h).
Proof. intros h a ((H1 & H2) & H3). rewrite <- H3. apply exp_key_iff. exact H2. Qed.

(* ------------------------------------------------------------------------------------------ *)
(* a concrete configuration and concrete runs: the hypotheses are satisfiable by non-trivial
   reachable states, and the pinned behaviour (fix_d6 = false) leaked an exemption *)

Local Open Scope N_scope.
Definition ex_enr (i a : N) : enr := {| e_id := i; e_seq := 1; e_ip4 := Some a; e_ip6 := None |}.
Definition ex_cfg (fixes : bool) : config :=
  {| cfg_local := 1; cfg_enr := ex_enr 1 10; cfg_retries := 2; cfg_timeout := 1000; cfg_listen := [10%N];
     cfg_capacity := 8%nat; cfg_session_ttl := 1000000; cfg_clock := 0; cfg_grid := 0;
     fix_d1 := fixes; fix_d2a := fixes; fix_d2b := fixes; fix_d6 := fixes |}.
Definition ex_peer : contact := {| c_id := 2; c_addr := 20; c_enr := Some (ex_enr 2 20); c_ed := false |}.
Definition ex_draws (x : N) : draws := {| d_pk := [(x, x + 1, x + 2, x + 3)%N]; d_rid := []; d_rev := [] |}.

Lemma ex_cfg_fixed : fixed_cfg (ex_cfg true).
Proof. repeat split. Qed.

(* request to the peer, the peer challenges it, we answer with a handshake; then the peer challenges
   the handshake packet again *)
Definition ex_leak_events : list (event * N * draws) :=
  [ (EvRequest ex_peer 100 7, 0%N, ex_draws 50);
    (EvInbound 20 (PWho (50, 51)%N 1 0 9), 10%N, ex_draws 60);
    (EvInbound 20 (PWho (60, 61)%N 2 0 9), 20%N, ex_draws 70) ].

Theorem pinned_exemption_leak_refuted :
  exists c evs, fix_d6 c = false /\
    let h := fst (run c init_state evs) in active h = [] /\ challenges h = [] /\ expected h <> [].
Proof.
  exists (ex_cfg false), ex_leak_events. vm_compute. repeat split; discriminate.
Qed.

(* the same events with the repair: nothing is left *)
Example fixed_no_leak :
  let h := fst (run (ex_cfg true) init_state ex_leak_events) in active h = [] /\ challenges h = [] /\ expected h = [].
Proof. vm_compute. repeat split. Qed.

(* a reachable state with an established session, an active request and a pending challenge;
   one exemption for each *)
Definition ex_busy_events : list (event * N * draws) :=
  [ (EvRequest ex_peer 100 7, 0%N, ex_draws 50);
    (EvInbound 20 (PWho (50, 51)%N 1 0 9), 10%N, ex_draws 60);
    (EvRequest ex_peer 101 8, 20%N, ex_draws 70);
    (EvWhoAreYou (3, 30)%N (5, 5)%N None, 30%N, ex_draws 80) ].
Example busy_state :
  let h := fst (run (ex_cfg true) init_state ex_busy_events) in
  ExpInv h /\ length (sessions h) = 1%nat /\ cnt_active 20 h = 2%nat /\ cnt_chall 30 h = 1%nat /\
  expected h = [(20, 2%nat); (30, 1%nat)].
Proof.
  split; [apply expected_exact; exact ex_cfg_fixed|]. vm_compute. repeat split.
Qed.
