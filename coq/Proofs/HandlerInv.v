(* C13 - the exemption map of the handler model tracks the outstanding exchanges exactly.
   Generic lemmas about the association-list helpers of Model/Handler.v, the invariant [ExpInv],
   one preservation lemma per model function, the lift to [step] and [run].
   See DESIGN.md section 6 (Handler model, C13). *)
From Coq Require Import List Arith NArith Bool Lia.
From Discv5V Require Import Model.Handler.
Import ListNotations.

(* ------------------------------------------------------------------------------------------ *)
(* equality tests *)

Lemma naddr_eqb_spec : forall a b : naddr, naddr_eqb a b = true <-> a = b.
Proof.
  intros [a1 a2] [b1 b2]. unfold naddr_eqb. cbn [fst snd].
  rewrite andb_true_iff, !N.eqb_eq. split.
  - intros [-> ->]. reflexivity.
  - intros H. inversion H. auto.
Qed.
Lemma naddr_eqb_refl : forall a, naddr_eqb a a = true.
Proof. intros a. apply naddr_eqb_spec. reflexivity. Qed.
Lemma naddr_eqb_neq : forall a b : naddr, naddr_eqb a b = false <-> a <> b.
Proof.
  intros a b. split.
  - intros H E. apply naddr_eqb_spec in E. congruence.
  - intros H. destruct (naddr_eqb a b) eqn:E; auto. apply naddr_eqb_spec in E. contradiction.
Qed.
Lemma naddr_eqb_sym : forall a b, naddr_eqb a b = naddr_eqb b a.
Proof.
  intros a b. destruct (naddr_eqb a b) eqn:E.
  - apply naddr_eqb_spec in E. subst. symmetry. apply naddr_eqb_refl.
  - symmetry. apply naddr_eqb_neq. apply naddr_eqb_neq in E. congruence.
Qed.

Lemma nonce_eqb_spec : forall a b : nonce, nonce_eqb a b = true <-> a = b.
Proof. exact naddr_eqb_spec. Qed.
Lemma nonce_eqb_refl : forall a, nonce_eqb a a = true.
Proof. exact naddr_eqb_refl. Qed.
Lemma nonce_eqb_neq : forall a b : nonce, nonce_eqb a b = false <-> a <> b.
Proof. exact naddr_eqb_neq. Qed.

(* ------------------------------------------------------------------------------------------ *)
(* association lists keyed by node address *)

Section Alist.
Context {A : Type}.
Implicit Types (l : list (naddr * A)) (k : naddr) (v : A).

Lemma alist_get_in : forall l k v, alist_get k l = Some v -> In (k, v) l.
Proof.
  induction l as [|[k' v'] r IH]; cbn [alist_get]; intros k v H; [discriminate|].
  destruct (naddr_eqb k k') eqn:E.
  - apply naddr_eqb_spec in E. inversion H. subst. left. reflexivity.
  - right. auto.
Qed.

Lemma alist_get_none : forall l k, alist_get k l = None <-> ~ In k (map fst l).
Proof.
  induction l as [|[k' v'] r IH]; cbn [alist_get map fst In]; intros k.
  - tauto.
  - destruct (naddr_eqb k k') eqn:E.
    + apply naddr_eqb_spec in E. subst. split; [discriminate|]. intros H. exfalso. apply H. auto.
    + apply naddr_eqb_neq in E. rewrite IH. split; [intros H [H1|H1]; [congruence|tauto] | tauto].
Qed.

Lemma alist_get_some_key : forall l k v, alist_get k l = Some v -> In k (map fst l).
Proof. intros l k v H. apply alist_get_in in H. apply (in_map fst) in H. exact H. Qed.

Lemma alist_set_keys : forall l k v v0, alist_get k l = Some v0 -> map fst (alist_set k v l) = map fst l.
Proof.
  induction l as [|[k' v'] r IH]; cbn [alist_get alist_set map fst]; intros k v v0 H; [discriminate|].
  destruct (naddr_eqb k k') eqn:E; cbn [map fst].
  - apply naddr_eqb_spec in E. subst. reflexivity.
  - f_equal. eauto.
Qed.

Lemma alist_set_in : forall l k v x, In x (alist_set k v l) -> x = (k, v) \/ In x l.
Proof.
  induction l as [|[k' v'] r IH]; cbn [alist_set In]; intros k v x H.
  - destruct H as [H|[]]. auto.
  - destruct (naddr_eqb k k'); cbn [In] in H.
    + destruct H as [H|H]; auto.
    + destruct H as [H|H]; auto. apply IH in H. tauto.
Qed.

Lemma alist_remove_in : forall l k x, In x (alist_remove k l) -> In x l.
Proof.
  induction l as [|[k' v'] r IH]; cbn [alist_remove In]; intros k x H; auto.
  destruct (naddr_eqb k k'); cbn [In] in H; auto.
  destruct H as [H|H]; eauto.
Qed.

Lemma alist_remove_keys_nodup : forall l k, NoDup (map fst l) -> NoDup (map fst (alist_remove k l)).
Proof.
  induction l as [|[k' v'] r IH]; cbn [alist_remove map fst]; intros k H; auto.
  inversion H; subst. destruct (naddr_eqb k k'); cbn [map fst]; auto.
  constructor; auto. intros Hin. apply H2.
  apply in_map_iff in Hin. destruct Hin as [x [Hx Hin]]. apply alist_remove_in in Hin.
  apply in_map_iff. eauto.
Qed.

Lemma alist_remove_key_gone : forall l k, NoDup (map fst l) -> ~ In k (map fst (alist_remove k l)).
Proof.
  induction l as [|[k' v'] r IH]; cbn [alist_remove map fst]; intros k H; auto.
  inversion H; subst. destruct (naddr_eqb k k') eqn:E; cbn [map fst In].
  - apply naddr_eqb_spec in E. subst. assumption.
  - apply naddr_eqb_neq in E. intros [H1|H1]; [congruence|]. eapply IH; eauto.
Qed.

Lemma Forall_alist_set : forall (P : naddr * A -> Prop) l k v,
  Forall P l -> P (k, v) -> Forall P (alist_set k v l).
Proof.
  intros P l k v H Hp. apply Forall_forall. intros x Hx. apply alist_set_in in Hx.
  destruct Hx as [->|Hx]; auto. rewrite Forall_forall in H. auto.
Qed.
Lemma Forall_alist_remove : forall (P : naddr * A -> Prop) l k, Forall P l -> Forall P (alist_remove k l).
Proof.
  intros P l k H. apply Forall_forall. intros x Hx. apply alist_remove_in in Hx.
  rewrite Forall_forall in H. auto.
Qed.
End Alist.

Lemma NoDup_snoc : forall {A} (l : list A) x, NoDup l -> ~ In x l -> NoDup (l ++ [x]).
Proof.
  intros A l x. induction l as [|y r IH]; cbn [app]; intros H Hx.
  - constructor; [intros []|constructor].
  - inversion H; subst. constructor.
    + rewrite in_app_iff. cbn [In]. intros [H1|[H1|[]]]; [tauto|]. subst. apply Hx. left. reflexivity.
    + apply IH; auto. intros H1. apply Hx. right. assumption.
Qed.

Lemma remove_first_spec : forall {A} (p : A -> bool) (l : list A) x l',
  remove_first p l = Some (x, l') ->
  p x = true /\ length l = S (length l') /\ In x l /\ (forall y, In y l' -> In y l)
  /\ (forall y, In y l -> y = x \/ In y l').
Proof.
  intros A p. induction l as [|y r IH]; cbn [remove_first]; intros x l' H; [discriminate|].
  destruct (p y) eqn:E.
  - inversion H; subst. cbn [length In]. repeat split; auto. intros z [Hz|Hz]; auto.
  - destruct (remove_first p r) as [[z r']|] eqn:E2; [|discriminate]. inversion H; subst.
    destruct (IH _ _ eq_refl) as (H1 & H2 & H3 & H4 & H5). cbn [length In].
    repeat split; auto.
    + intros w [Hw|Hw]; auto.
    + intros w [Hw|Hw]; auto. destruct (H5 _ Hw); auto.
Qed.

Lemma remove_first_Forall : forall {A} (P : A -> Prop) (p : A -> bool) (l : list A) x l',
  remove_first p l = Some (x, l') -> Forall P l -> P x /\ Forall P l'.
Proof.
  intros A P p l x l' H HF. apply remove_first_spec in H. destruct H as (_ & _ & H3 & H4 & _).
  rewrite Forall_forall in HF. split; auto. apply Forall_forall. auto.
Qed.

(* ------------------------------------------------------------------------------------------ *)
(* the exemption map *)

Definition ExpWF (e : list (addr * nat)) : Prop :=
  NoDup (map fst e) /\ Forall (fun x => 0 < snd x) e.

Lemma exp_get_nil : forall a, exp_get a [] = 0.
Proof. reflexivity. Qed.

Lemma exp_get_cons : forall a a' n r,
  exp_get a ((a', n) :: r) = if N.eqb a' a then n else exp_get a r.
Proof. intros. unfold exp_get. cbn [find fst]. destruct (N.eqb a' a); reflexivity. Qed.

Lemma exp_get_notin : forall e a, ~ In a (map fst e) -> exp_get a e = 0.
Proof.
  induction e as [|[a' n] r IH]; intros a H; [reflexivity|]. rewrite exp_get_cons.
  cbn [map fst In] in H. destruct (N.eqb a' a) eqn:E.
  - apply N.eqb_eq in E. tauto.
  - apply IH. tauto.
Qed.

Lemma exp_add_keys : forall e a x, In x (map fst (exp_add a e)) -> x = a \/ In x (map fst e).
Proof.
  induction e as [|[a' n] r IH]; cbn [exp_add map fst In]; intros a x H.
  - destruct H as [H|[]]; auto.
  - destruct (N.eqb a a') eqn:E; cbn [map fst In] in H.
    + tauto.
    + destruct H as [H|H]; auto. apply IH in H. tauto.
Qed.

Lemma exp_add_wf : forall e a, ExpWF e -> ExpWF (exp_add a e).
Proof.
  unfold ExpWF. induction e as [|[a' n] r IH]; cbn [exp_add]; intros a [H1 H2].
  - cbn. split; [constructor; [intros []|constructor] | repeat constructor].
  - inversion H1; subst. inversion H2; subst. cbn [fst snd map] in *.
    destruct (N.eqb a a') eqn:E; cbn [map fst].
    + split; constructor; auto. cbn [snd]. lia.
    + destruct (IH a (conj H4 H6)) as [I1 I2]. split; constructor; auto.
      intros Hin. apply exp_add_keys in Hin. apply N.eqb_neq in E. destruct Hin; [congruence|tauto].
Qed.

Lemma exp_get_add : forall e a a', exp_get a (exp_add a' e) = exp_get a e + (if N.eqb a' a then 1 else 0).
Proof.
  induction e as [|[b n] r IH]; intros a a'; cbn [exp_add].
  - rewrite exp_get_cons, exp_get_nil. destruct (N.eqb a' a); reflexivity.
  - destruct (N.eqb a' b) eqn:E.
    + apply N.eqb_eq in E. subst b. rewrite !exp_get_cons. destruct (N.eqb a' a); lia.
    + rewrite !exp_get_cons. destruct (N.eqb b a) eqn:E2.
      * apply N.eqb_eq in E2. subst b. rewrite E. lia.
      * apply IH.
Qed.

Lemma exp_remove_keys : forall e a x, In x (map fst (exp_remove a e)) -> In x (map fst e).
Proof.
  induction e as [|[a' n] r IH]; cbn [exp_remove map fst In]; intros a x H; auto.
  destruct (N.eqb a a').
  - destruct n as [|[|m]]; cbn [map fst In] in H; tauto.
  - cbn [map fst In] in H. destruct H as [H|H]; eauto.
Qed.

Lemma exp_remove_wf : forall e a, ExpWF e -> ExpWF (exp_remove a e).
Proof.
  unfold ExpWF. induction e as [|[a' n] r IH]; cbn [exp_remove]; intros a [H1 H2]; auto.
  inversion H1; subst. inversion H2; subst. cbn [fst snd map] in *.
  destruct (N.eqb a a') eqn:E.
  - destruct n as [|[|m]]; auto. cbn [map fst]. split; constructor; auto. cbn [snd]. lia.
  - destruct (IH a (conj H4 H6)) as [I1 I2]. cbn [map fst]. split; constructor; auto.
    intros Hin. apply exp_remove_keys in Hin. tauto.
Qed.

Lemma exp_get_remove : forall e a a', ExpWF e ->
  exp_get a (exp_remove a' e) = exp_get a e - (if N.eqb a' a then 1 else 0).
Proof.
  unfold ExpWF. induction e as [|[b n] r IH]; intros a a' [H1 H2]; cbn [exp_remove].
  - rewrite exp_get_nil. reflexivity.
  - inversion H1; subst. inversion H2; subst. cbn [fst snd map] in *.
    destruct (N.eqb a' b) eqn:E.
    + apply N.eqb_eq in E. subst b. destruct (N.eqb a' a) eqn:E2.
      * apply N.eqb_eq in E2. subst a'.
        destruct n as [|[|m]]; [lia| |].
        -- rewrite exp_get_cons, N.eqb_refl. rewrite exp_get_notin by assumption. reflexivity.
        -- rewrite !exp_get_cons, N.eqb_refl. lia.
      * destruct n as [|[|m]]; rewrite ?exp_get_cons, ?E2; lia.
    + rewrite !exp_get_cons. destruct (N.eqb b a) eqn:E2.
      * apply N.eqb_eq in E2. subst b. rewrite E. lia.
      * apply IH. auto.
Qed.

Lemma exp_all_zero_nil : forall e, ExpWF e -> (forall a, exp_get a e = 0) -> e = [].
Proof.
  intros [|[a n] r] [_ H2] H; auto. specialize (H a). rewrite exp_get_cons, N.eqb_refl in H.
  inversion H2; subst. cbn [snd] in *. lia.
Qed.

(* ------------------------------------------------------------------------------------------ *)
(* counting outstanding items per socket address *)

Definition ind (a : addr) (na : naddr) (n : nat) : nat := if N.eqb (snd na) a then n else 0.

Fixpoint cnt_act (a : addr) (l : list (naddr * list rcall)) : nat :=
  match l with
  | [] => 0
  | (na, rs) :: t => ind a na (length rs) + cnt_act a t
  end.
Fixpoint cnt_ch (a : addr) (l : list (naddr * chall * N)) : nat :=
  match l with
  | [] => 0
  | (na, _, _) :: t => ind a na 1 + cnt_ch a t
  end.

(* number of request calls stored under node addresses with socket address [a] *)
Definition cnt_active (a : addr) (h : hstate) : nat := cnt_act a (active h).
(* number of challenges whose node address has socket address [a] *)
Definition cnt_chall (a : addr) (h : hstate) : nat := cnt_ch a (challenges h).

Lemma cnt_act_app : forall a l1 l2, cnt_act a (l1 ++ l2) = cnt_act a l1 + cnt_act a l2.
Proof. induction l1 as [|[na rs] t IH]; intros l2; cbn [cnt_act app]; [reflexivity|]. rewrite IH. lia. Qed.
Lemma cnt_ch_app : forall a l1 l2, cnt_ch a (l1 ++ l2) = cnt_ch a l1 + cnt_ch a l2.
Proof. induction l1 as [|[[na c] d] t IH]; intros l2; cbn [cnt_ch app]; [reflexivity|]. rewrite IH. lia. Qed.

Lemma cnt_act_set : forall a act na l l', alist_get na act = Some l ->
  cnt_act a (alist_set na l' act) + ind a na (length l) = cnt_act a act + ind a na (length l').
Proof.
  induction act as [|[k v] r IH]; cbn [alist_get alist_set]; intros na l l' H; [discriminate|].
  destruct (naddr_eqb na k) eqn:E; cbn [cnt_act].
  - apply naddr_eqb_spec in E. subst k. inversion H; subst. lia.
  - specialize (IH _ _ l' H). lia.
Qed.
Lemma cnt_act_remove : forall a act na l, alist_get na act = Some l ->
  cnt_act a (alist_remove na act) + ind a na (length l) = cnt_act a act.
Proof.
  induction act as [|[k v] r IH]; cbn [alist_get alist_remove]; intros na l H; [discriminate|].
  destruct (naddr_eqb na k) eqn:E; cbn [cnt_act].
  - apply naddr_eqb_spec in E. subst k. inversion H; subst. lia.
  - specialize (IH _ _ H). lia.
Qed.
Lemma cnt_act_put : forall a act na l l', alist_get na act = Some l ->
  cnt_act a (put_list na l' act) + ind a na (length l) = cnt_act a act + ind a na (length l').
Proof.
  intros a act na l l' H. unfold put_list. destruct l' as [|x l'].
  - rewrite (cnt_act_remove a act na l H). unfold ind. cbn [length]. destruct (N.eqb (snd na) a); lia.
  - apply cnt_act_set. assumption.
Qed.

Lemma chall_get_remove : forall a l na ch, chall_get na l = Some ch ->
  cnt_ch a (chall_remove na l) + ind a na 1 = cnt_ch a l.
Proof.
  induction l as [|[[k c] d] r IH]; cbn [chall_get chall_remove]; intros na ch H; [discriminate|].
  destruct (naddr_eqb k na) eqn:E; cbn [cnt_ch].
  - apply naddr_eqb_spec in E. subst k. lia.
  - specialize (IH _ _ H). lia.
Qed.

Lemma chall_get_in : forall l na c d, In (na, c, d) l -> chall_get na l <> None.
Proof.
  induction l as [|[[k c'] d'] r IH]; cbn [chall_get In]; intros na c d H; [tauto|].
  destruct (naddr_eqb k na) eqn:E; [discriminate|]. destruct H as [H|H].
  - inversion H; subst. rewrite naddr_eqb_refl in E. discriminate.
  - eauto.
Qed.

(* ------------------------------------------------------------------------------------------ *)
(* well-formedness of the stored request calls *)

Definition req_ok (na : naddr) (r : rcall) : Prop := c_naddr (rc_contact r) = na.
Definition entry_ok (x : naddr * list rcall) : Prop := snd x <> [] /\ Forall (req_ok (fst x)) (snd x).
Definition ActWF (act : list (naddr * list rcall)) : Prop := NoDup (map fst act) /\ Forall entry_ok act.

Lemma ActWF_get : forall act na l, ActWF act -> alist_get na act = Some l -> l <> [] /\ Forall (req_ok na) l.
Proof.
  intros act na l [_ H] Hg. apply alist_get_in in Hg. rewrite Forall_forall in H. apply (H _ Hg).
Qed.

Lemma ActWF_set : forall act na l l', ActWF act -> alist_get na act = Some l ->
  l' <> [] -> Forall (req_ok na) l' -> ActWF (alist_set na l' act).
Proof.
  intros act na l l' [H1 H2] Hg Hne Hok. split.
  - rewrite (alist_set_keys _ _ _ _ Hg). assumption.
  - apply Forall_alist_set; auto. split; assumption.
Qed.
Lemma ActWF_remove : forall act na, ActWF act -> ActWF (alist_remove na act).
Proof.
  intros act na [H1 H2]. split; [apply alist_remove_keys_nodup | apply Forall_alist_remove]; assumption.
Qed.
Lemma ActWF_put : forall act na l l', ActWF act -> alist_get na act = Some l ->
  Forall (req_ok na) l' -> ActWF (put_list na l' act).
Proof.
  intros act na l l' H Hg Hok. unfold put_list. destruct l' as [|x l'].
  - apply ActWF_remove. assumption.
  - eapply ActWF_set; eauto. discriminate.
Qed.
Lemma ActWF_app_new : forall act na r, ActWF act -> alist_get na act = None -> req_ok na r ->
  ActWF (act ++ [(na, [r])]).
Proof.
  intros act na r [H1 H2] Hg Hok. split.
  - rewrite map_app. cbn [map fst]. apply alist_get_none in Hg.
    apply NoDup_snoc; auto.
  - apply Forall_app. split; auto. constructor; [|constructor]. split; cbn [fst snd]; [discriminate|].
    constructor; auto.
Qed.
