(* C13 - the exemption map of the handler model tracks the outstanding exchanges exactly.
   Generic lemmas about the association-list helpers of Model/Handler.v, the invariant [ExpInv],
   one preservation lemma per model function, the lift to [step] and [run].
   See DESIGN.md section 6 (Handler model, C13). *)
From Coq Require Import List Arith NArith Bool Lia.
From Discv5V Require Import Model.Handler.
Import ListNotations.

(* ------------------------------------------------------------------------------------------ *)
(* equality tests *)

Lemma naddr_eqb_spec : forall a b : naddr, naddr_eqb a b = true <-> a = b.
Proof.
  intros [a1 a2] [b1 b2]. unfold naddr_eqb. cbn [fst snd].
  rewrite andb_true_iff, !N.eqb_eq. split.
  - intros [-> ->]. reflexivity.
  - intros H. inversion H. auto.
Qed.
Lemma naddr_eqb_refl : forall a, naddr_eqb a a = true.
Proof. intros a. apply naddr_eqb_spec. reflexivity. Qed.
Lemma naddr_eqb_neq : forall a b : naddr, naddr_eqb a b = false <-> a <> b.
Proof.
  intros a b. split.
  - intros H E. apply naddr_eqb_spec in E. congruence.
  - intros H. destruct (naddr_eqb a b) eqn:E; auto. apply naddr_eqb_spec in E. contradiction.
Qed.
Lemma naddr_eqb_sym : forall a b, naddr_eqb a b = naddr_eqb b a.
Proof.
  intros a b. destruct (naddr_eqb a b) eqn:E.
  - apply naddr_eqb_spec in E. subst. symmetry. apply naddr_eqb_refl.
  - symmetry. apply naddr_eqb_neq. apply naddr_eqb_neq in E. congruence.
Qed.

Lemma nonce_eqb_spec : forall a b : nonce, nonce_eqb a b = true <-> a = b.
Proof. exact naddr_eqb_spec. Qed.
Lemma nonce_eqb_refl : forall a, nonce_eqb a a = true.
Proof. exact naddr_eqb_refl. Qed.
Lemma nonce_eqb_neq : forall a b : nonce, nonce_eqb a b = false <-> a <> b.
Proof. exact naddr_eqb_neq. Qed.

(* ------------------------------------------------------------------------------------------ *)
(* association lists keyed by node address *)

Section Alist.
Context {A : Type}.
Implicit Types (l : list (naddr * A)) (k : naddr) (v : A).

Lemma alist_get_in : forall l k v, alist_get k l = Some v -> In (k, v) l.
Proof.
  induction l as [|[k' v'] r IH]; cbn [alist_get]; intros k v H; [discriminate|].
  destruct (naddr_eqb k k') eqn:E.
  - apply naddr_eqb_spec in E. inversion H. subst. left. reflexivity.
  - right. auto.
Qed.

Lemma alist_get_none : forall l k, alist_get k l = None <-> ~ In k (map fst l).
Proof.
  induction l as [|[k' v'] r IH]; cbn [alist_get map fst In]; intros k.
  - tauto.
  - destruct (naddr_eqb k k') eqn:E.
    + apply naddr_eqb_spec in E. subst. split; [discriminate|]. intros H. exfalso. apply H. auto.
    + apply naddr_eqb_neq in E. rewrite IH. split; [intros H [H1|H1]; [congruence|tauto] | tauto].
Qed.

Lemma alist_get_some_key : forall l k v, alist_get k l = Some v -> In k (map fst l).
Proof. intros l k v H. apply alist_get_in in H. apply (in_map fst) in H. exact H. Qed.

Lemma alist_set_keys : forall l k v v0, alist_get k l = Some v0 -> map fst (alist_set k v l) = map fst l.
Proof.
  induction l as [|[k' v'] r IH]; cbn [alist_get alist_set map fst]; intros k v v0 H; [discriminate|].
  destruct (naddr_eqb k k') eqn:E; cbn [map fst].
  - apply naddr_eqb_spec in E. subst. reflexivity.
  - f_equal. eauto.
Qed.

Lemma alist_set_in : forall l k v x, In x (alist_set k v l) -> x = (k, v) \/ In x l.
Proof.
  induction l as [|[k' v'] r IH]; cbn [alist_set In]; intros k v x H.
  - destruct H as [H|[]]. auto.
  - destruct (naddr_eqb k k'); cbn [In] in H.
    + destruct H as [H|H]; auto.
    + destruct H as [H|H]; auto. apply IH in H. tauto.
Qed.

Lemma alist_remove_in : forall l k x, In x (alist_remove k l) -> In x l.
Proof.
  induction l as [|[k' v'] r IH]; cbn [alist_remove In]; intros k x H; auto.
  destruct (naddr_eqb k k'); cbn [In] in H; auto.
  destruct H as [H|H]; eauto.
Qed.

Lemma alist_remove_keys_nodup : forall l k, NoDup (map fst l) -> NoDup (map fst (alist_remove k l)).
Proof.
  induction l as [|[k' v'] r IH]; cbn [alist_remove map fst]; intros k H; auto.
  inversion H; subst. destruct (naddr_eqb k k'); cbn [map fst]; auto.
  constructor; auto. intros Hin. apply H2.
  apply in_map_iff in Hin. destruct Hin as [x [Hx Hin]]. apply alist_remove_in in Hin.
  apply in_map_iff. eauto.
Qed.

Lemma alist_remove_key_gone : forall l k, NoDup (map fst l) -> ~ In k (map fst (alist_remove k l)).
Proof.
  induction l as [|[k' v'] r IH]; cbn [alist_remove map fst]; intros k H; auto.
  inversion H; subst. destruct (naddr_eqb k k') eqn:E; cbn [map fst In].
  - apply naddr_eqb_spec in E. subst. assumption.
  - apply naddr_eqb_neq in E. intros [H1|H1]; [congruence|]. eapply IH; eauto.
Qed.

Lemma Forall_alist_set : forall (P : naddr * A -> Prop) l k v,
  Forall P l -> P (k, v) -> Forall P (alist_set k v l).
Proof.
  intros P l k v H Hp. apply Forall_forall. intros x Hx. apply alist_set_in in Hx.
  destruct Hx as [->|Hx]; auto. rewrite Forall_forall in H. auto.
Qed.
Lemma Forall_alist_remove : forall (P : naddr * A -> Prop) l k, Forall P l -> Forall P (alist_remove k l).
Proof.
  intros P l k H. apply Forall_forall. intros x Hx. apply alist_remove_in in Hx.
  rewrite Forall_forall in H. auto.
Qed.
End Alist.

Lemma NoDup_snoc : forall {A} (l : list A) x, NoDup l -> ~ In x l -> NoDup (l ++ [x]).
Proof.
  intros A l x. induction l as [|y r IH]; cbn [app]; intros H Hx.
  - constructor; [intros []|constructor].
  - inversion H; subst. constructor.
    + rewrite in_app_iff. cbn [In]. intros [H1|[H1|[]]]; [tauto|]. subst. apply Hx. left. reflexivity.
    + apply IH; auto. intros H1. apply Hx. right. assumption.
Qed.

Lemma remove_first_spec : forall {A} (p : A -> bool) (l : list A) x l',
  remove_first p l = Some (x, l') ->
  p x = true /\ length l = S (length l') /\ In x l /\ (forall y, In y l' -> In y l)
  /\ (forall y, In y l -> y = x \/ In y l').
Proof.
  intros A p. induction l as [|y r IH]; cbn [remove_first]; intros x l' H; [discriminate|].
  destruct (p y) eqn:E.
  - inversion H; subst. cbn [length In]. repeat split; auto. intros z [Hz|Hz]; auto.
  - destruct (remove_first p r) as [[z r']|] eqn:E2; [|discriminate]. inversion H; subst.
    destruct (IH _ _ eq_refl) as (H1 & H2 & H3 & H4 & H5). cbn [length In].
    repeat split; auto.
    + intros w [Hw|Hw]; auto.
    + intros w [Hw|Hw]; auto. destruct (H5 _ Hw); auto.
Qed.

Lemma remove_first_Forall : forall {A} (P : A -> Prop) (p : A -> bool) (l : list A) x l',
  remove_first p l = Some (x, l') -> Forall P l -> P x /\ Forall P l'.
Proof.
  intros A P p l x l' H HF. apply remove_first_spec in H. destruct H as (_ & _ & H3 & H4 & _).
  rewrite Forall_forall in HF. split; auto. apply Forall_forall. auto.
Qed.

(* ------------------------------------------------------------------------------------------ *)
(* the exemption map *)

Definition ExpWF (e : list (addr * nat)) : Prop :=
  NoDup (map fst e) /\ Forall (fun x => 0 < snd x) e.

Lemma exp_get_nil : forall a, exp_get a [] = 0.
Proof. reflexivity. Qed.

Lemma exp_get_cons : forall a a' n r,
  exp_get a ((a', n) :: r) = if N.eqb a' a then n else exp_get a r.
Proof. intros. unfold exp_get. cbn [find fst]. destruct (N.eqb a' a); reflexivity. Qed.

Lemma exp_get_notin : forall e a, ~ In a (map fst e) -> exp_get a e = 0.
Proof.
  induction e as [|[a' n] r IH]; intros a H; [reflexivity|]. rewrite exp_get_cons.
  cbn [map fst In] in H. destruct (N.eqb a' a) eqn:E.
  - apply N.eqb_eq in E. tauto.
  - apply IH. tauto.
Qed.

Lemma exp_add_keys : forall e a x, In x (map fst (exp_add a e)) -> x = a \/ In x (map fst e).
Proof.
  induction e as [|[a' n] r IH]; cbn [exp_add map fst In]; intros a x H.
  - destruct H as [H|[]]; auto.
  - destruct (N.eqb a a') eqn:E; cbn [map fst In] in H.
    + tauto.
    + destruct H as [H|H]; auto. apply IH in H. tauto.
Qed.

Lemma exp_add_wf : forall e a, ExpWF e -> ExpWF (exp_add a e).
Proof.
  unfold ExpWF. induction e as [|[a' n] r IH]; cbn [exp_add]; intros a [H1 H2].
  - cbn. split; [constructor; [intros []|constructor] | repeat constructor].
  - inversion H1; subst. inversion H2; subst. cbn [fst snd map] in *.
    destruct (N.eqb a a') eqn:E; cbn [map fst].
    + split; constructor; auto. cbn [snd]. lia.
    + destruct (IH a (conj H4 H6)) as [I1 I2]. split; constructor; auto.
      intros Hin. apply exp_add_keys in Hin. apply N.eqb_neq in E. destruct Hin; [congruence|tauto].
Qed.

Lemma exp_get_add : forall e a a', exp_get a (exp_add a' e) = exp_get a e + (if N.eqb a' a then 1 else 0).
Proof.
  induction e as [|[b n] r IH]; intros a a'; cbn [exp_add].
  - rewrite exp_get_cons, exp_get_nil. destruct (N.eqb a' a); reflexivity.
  - destruct (N.eqb a' b) eqn:E.
    + apply N.eqb_eq in E. subst b. rewrite !exp_get_cons. destruct (N.eqb a' a); lia.
    + rewrite !exp_get_cons. destruct (N.eqb b a) eqn:E2.
      * apply N.eqb_eq in E2. subst b. rewrite E. lia.
      * apply IH.
Qed.

Lemma exp_remove_keys : forall e a x, In x (map fst (exp_remove a e)) -> In x (map fst e).
Proof.
  induction e as [|[a' n] r IH]; cbn [exp_remove map fst In]; intros a x H; auto.
  destruct (N.eqb a a').
  - destruct n as [|[|m]]; cbn [map fst In] in H; tauto.
  - cbn [map fst In] in H. destruct H as [H|H]; eauto.
Qed.

Lemma exp_remove_wf : forall e a, ExpWF e -> ExpWF (exp_remove a e).
Proof.
  unfold ExpWF. induction e as [|[a' n] r IH]; cbn [exp_remove]; intros a [H1 H2]; auto.
  inversion H1; subst. inversion H2; subst. cbn [fst snd map] in *.
  destruct (N.eqb a a') eqn:E.
  - destruct n as [|[|m]]; auto. cbn [map fst]. split; constructor; auto. cbn [snd]. lia.
  - destruct (IH a (conj H4 H6)) as [I1 I2]. cbn [map fst]. split; constructor; auto.
    intros Hin. apply exp_remove_keys in Hin. tauto.
Qed.

Lemma exp_get_remove : forall e a a', ExpWF e ->
  exp_get a (exp_remove a' e) = exp_get a e - (if N.eqb a' a then 1 else 0).
Proof.
  unfold ExpWF. induction e as [|[b n] r IH]; intros a a' [H1 H2]; cbn [exp_remove].
  - rewrite exp_get_nil. reflexivity.
  - inversion H1; subst. inversion H2; subst. cbn [fst snd map] in *.
    destruct (N.eqb a' b) eqn:E.
    + apply N.eqb_eq in E. subst b. destruct (N.eqb a' a) eqn:E2.
      * apply N.eqb_eq in E2. subst a'.
        destruct n as [|[|m]]; [lia| |].
        -- rewrite exp_get_cons, N.eqb_refl. rewrite exp_get_notin by assumption. reflexivity.
        -- rewrite !exp_get_cons, N.eqb_refl. lia.
      * destruct n as [|[|m]]; rewrite ?exp_get_cons, ?E2; lia.
    + rewrite !exp_get_cons. destruct (N.eqb b a) eqn:E2.
      * apply N.eqb_eq in E2. subst b. rewrite E. lia.
      * apply IH. auto.
Qed.

Lemma exp_all_zero_nil : forall e, ExpWF e -> (forall a, exp_get a e = 0) -> e = [].
Proof.
  intros [|[a n] r] [_ H2] H; auto. specialize (H a). rewrite exp_get_cons, N.eqb_refl in H.
  inversion H2; subst. cbn [snd] in *. lia.
Qed.

(* ------------------------------------------------------------------------------------------ *)
(* counting outstanding items per socket address *)

Definition ind (a : addr) (na : naddr) (n : nat) : nat := if N.eqb (snd na) a then n else 0.

Fixpoint cnt_act (a : addr) (l : list (naddr * list rcall)) : nat :=
  match l with
  | [] => 0
  | (na, rs) :: t => ind a na (length rs) + cnt_act a t
  end.
Fixpoint cnt_ch (a : addr) (l : list (naddr * chall * N)) : nat :=
  match l with
  | [] => 0
  | (na, _, _) :: t => ind a na 1 + cnt_ch a t
  end.

(* number of request calls stored under node addresses with socket address [a] *)
Definition cnt_active (a : addr) (h : hstate) : nat := cnt_act a (active h).
(* number of challenges whose node address has socket address [a] *)
Definition cnt_chall (a : addr) (h : hstate) : nat := cnt_ch a (challenges h).

Lemma cnt_act_app : forall a l1 l2, cnt_act a (l1 ++ l2) = cnt_act a l1 + cnt_act a l2.
Proof. induction l1 as [|[na rs] t IH]; intros l2; cbn [cnt_act app]; [reflexivity|]. rewrite IH. lia. Qed.
Lemma cnt_ch_app : forall a l1 l2, cnt_ch a (l1 ++ l2) = cnt_ch a l1 + cnt_ch a l2.
Proof. induction l1 as [|[[na c] d] t IH]; intros l2; cbn [cnt_ch app]; [reflexivity|]. rewrite IH. lia. Qed.

Lemma cnt_act_set : forall a act na l l', alist_get na act = Some l ->
  cnt_act a (alist_set na l' act) + ind a na (length l) = cnt_act a act + ind a na (length l').
Proof.
  induction act as [|[k v] r IH]; cbn [alist_get alist_set]; intros na l l' H; [discriminate|].
  destruct (naddr_eqb na k) eqn:E; cbn [cnt_act].
  - apply naddr_eqb_spec in E. subst k. inversion H; subst. lia.
  - specialize (IH _ _ l' H). lia.
Qed.
Lemma cnt_act_remove : forall a act na l, alist_get na act = Some l ->
  cnt_act a (alist_remove na act) + ind a na (length l) = cnt_act a act.
Proof.
  induction act as [|[k v] r IH]; cbn [alist_get alist_remove]; intros na l H; [discriminate|].
  destruct (naddr_eqb na k) eqn:E; cbn [cnt_act].
  - apply naddr_eqb_spec in E. subst k. inversion H; subst. lia.
  - specialize (IH _ _ H). lia.
Qed.
Lemma cnt_act_put : forall a act na l l', alist_get na act = Some l ->
  cnt_act a (put_list na l' act) + ind a na (length l) = cnt_act a act + ind a na (length l').
Proof.
  intros a act na l l' H. unfold put_list. destruct l' as [|x l'].
  - rewrite (cnt_act_remove a act na l H). unfold ind. cbn [length]. destruct (N.eqb (snd na) a); lia.
  - apply cnt_act_set. assumption.
Qed.

Lemma chall_get_remove : forall a l na ch, chall_get na l = Some ch ->
  cnt_ch a (chall_remove na l) + ind a na 1 = cnt_ch a l.
Proof.
  induction l as [|[[k c] d] r IH]; cbn [chall_get chall_remove]; intros na ch H; [discriminate|].
  destruct (naddr_eqb k na) eqn:E; cbn [cnt_ch].
  - apply naddr_eqb_spec in E. subst k. lia.
  - specialize (IH _ _ H). lia.
Qed.

Lemma chall_get_in : forall l na c d, In (na, c, d) l -> chall_get na l <> None.
Proof.
  induction l as [|[[k c'] d'] r IH]; cbn [chall_get In]; intros na c d H; [tauto|].
  destruct (naddr_eqb k na) eqn:E; [discriminate|]. destruct H as [H|H].
  - inversion H; subst. rewrite naddr_eqb_refl in E. discriminate.
  - eauto.
Qed.

(* ------------------------------------------------------------------------------------------ *)
(* well-formedness of the stored request calls *)

Definition req_ok (na : naddr) (r : rcall) : Prop := c_naddr (rc_contact r) = na.
Definition entry_ok (x : naddr * list rcall) : Prop := snd x <> [] /\ Forall (req_ok (fst x)) (snd x).
Definition ActWF (act : list (naddr * list rcall)) : Prop := NoDup (map fst act) /\ Forall entry_ok act.

Lemma ActWF_get : forall act na l, ActWF act -> alist_get na act = Some l -> l <> [] /\ Forall (req_ok na) l.
Proof.
  intros act na l [_ H] Hg. apply alist_get_in in Hg. rewrite Forall_forall in H. apply (H _ Hg).
Qed.

Lemma ActWF_set : forall act na l l', ActWF act -> alist_get na act = Some l ->
  l' <> [] -> Forall (req_ok na) l' -> ActWF (alist_set na l' act).
Proof.
  intros act na l l' [H1 H2] Hg Hne Hok. split.
  - rewrite (alist_set_keys _ _ _ _ Hg). assumption.
  - apply Forall_alist_set; auto. split; assumption.
Qed.
Lemma ActWF_remove : forall act na, ActWF act -> ActWF (alist_remove na act).
Proof.
  intros act na [H1 H2]. split; [apply alist_remove_keys_nodup | apply Forall_alist_remove]; assumption.
Qed.
Lemma ActWF_put : forall act na l l', ActWF act -> alist_get na act = Some l ->
  Forall (req_ok na) l' -> ActWF (put_list na l' act).
Proof.
  intros act na l l' H Hg Hok. unfold put_list. destruct l' as [|x l'].
  - apply ActWF_remove. assumption.
  - eapply ActWF_set; eauto. discriminate.
Qed.
Lemma ActWF_app_new : forall act na r, ActWF act -> alist_get na act = None -> req_ok na r ->
  ActWF (act ++ [(na, [r])]).
Proof.
  intros act na r [H1 H2] Hg Hok. split.
  - rewrite map_app. cbn [map fst]. apply alist_get_none in Hg.
    apply NoDup_snoc; auto.
  - apply Forall_app. split; auto. constructor; [|constructor]. split; cbn [fst snd]; [discriminate|].
    constructor; auto.
Qed.

(* ------------------------------------------------------------------------------------------ *)
(* the invariant.  [Sur k a0 h]: as [ExpInv h], but address [a0] holds [k] exemptions more than
   outstanding items: the shape of the intermediate states inside a handler function (a request
   was taken out of the active requests and its exemption is about to be returned or the
   request is about to be re-inserted). *)

Definition SurT (k : nat) (a0 : addr) (act : list (naddr * list rcall)) (ch : list (naddr * chall * N))
  (ex : list (addr * nat)) : Prop :=
  ActWF act /\ ExpWF ex /\
  forall a, exp_get a ex = cnt_act a act + cnt_ch a ch + (if N.eqb a0 a then k else 0).
Definition Sur (k : nat) (a0 : addr) (h : hstate) : Prop := SurT k a0 (active h) (challenges h) (expected h).

Definition ExpInv (h : hstate) : Prop :=
  (ActWF (active h) /\ ExpWF (expected h)) /\
  forall a, exp_get a (expected h) = cnt_active a h + cnt_chall a h.

Lemma Sur0_iff : forall a0 h, Sur 0 a0 h <-> ExpInv h.
Proof.
  intros a0 h. unfold Sur, SurT, ExpInv, cnt_active, cnt_chall. split.
  - intros (H1 & H2 & H3). split; auto. intros a. rewrite H3. destruct (N.eqb a0 a); lia.
  - intros ((H1 & H2) & H3). repeat split; auto. intros a. rewrite H3. destruct (N.eqb a0 a); lia.
Qed.
Lemma Sur0_any : forall a0 a1 h, Sur 0 a0 h -> Sur 0 a1 h.
Proof. intros a0 a1 h H. apply Sur0_iff. apply Sur0_iff in H. exact H. Qed.

Lemma Sur_ext : forall k a h h', active h' = active h -> challenges h' = challenges h -> expected h' = expected h ->
  Sur k a h -> Sur k a h'.
Proof. intros k a h h' H1 H2 H3. unfold Sur. rewrite H1, H2, H3. auto. Qed.
Lemma ExpInv_ext : forall h h', active h' = active h -> challenges h' = challenges h -> expected h' = expected h ->
  ExpInv h -> ExpInv h'.
Proof. intros h h' H1 H2 H3 H. apply (Sur0_iff 0%N). apply (Sur0_iff 0%N) in H. eapply Sur_ext; eauto. Qed.

Lemma init_ExpInv : ExpInv init_state.
Proof.
  unfold ExpInv, ActWF, ExpWF, cnt_active, cnt_chall. cbn. repeat split; constructor.
Qed.

(* frame: operations that leave active requests, challenges and exemptions alone *)
Definition same_ace (h' h : hstate) : Prop :=
  active h' = active h /\ challenges h' = challenges h /\ expected h' = expected h.
Lemma same_ace_refl : forall h, same_ace h h.
Proof. intros h. repeat split. Qed.
Lemma same_ace_trans : forall h1 h2 h3, same_ace h1 h2 -> same_ace h2 h3 -> same_ace h1 h3.
Proof. intros h1 h2 h3 (A1 & A2 & A3) (B1 & B2 & B3). repeat split; congruence. Qed.
Lemma Sur_same : forall k a h h', same_ace h' h -> Sur k a h -> Sur k a h'.
Proof. intros k a h h' (H1 & H2 & H3). apply Sur_ext; assumption. Qed.
Lemma ExpInv_same : forall h h', same_ace h' h -> ExpInv h -> ExpInv h'.
Proof. intros h h' (H1 & H2 & H3). apply ExpInv_ext; assumption. Qed.

Lemma sess_get_same : forall h na, same_ace (fst (sess_get h na)) h.
Proof. intros h na. unfold sess_get. destruct (alist_get na (sessions h)); repeat split. Qed.
Lemma sess_put_same : forall h na se, same_ace (sess_put h na se) h.
Proof. repeat split. Qed.
Lemma sess_insert_same : forall c h na se, same_ace (sess_insert c h na se) h.
Proof. repeat split. Qed.
Lemma sess_remove_same : forall h na, same_ace (sess_remove h na) h.
Proof. repeat split. Qed.
Lemma set_pending_same : forall h p, same_ace (set_pending h p) h.
Proof. repeat split. Qed.
Lemma push_pending_same : forall h na q, same_ace (push_pending h na q) h.
Proof. intros h na q. unfold push_pending. destruct (alist_get na (pending h)); repeat split. Qed.

Lemma encrypt_message_hs : forall c s na se m, hs (fst (fst (encrypt_message c s na se m))) = hs s.
Proof.
  intros c s na se m. unfold encrypt_message. destruct (pop_pk (dr s)) as [[[[x1 x2] x3] x4] d']. reflexivity.
Qed.

Lemma is_awaiting_session_same : forall s na, same_ace (hs (fst (is_awaiting_session s na))) (hs s).
Proof.
  intros s na. unfold is_awaiting_session. pose proof (sess_get_same (hs s) na) as H.
  destruct (sess_get (hs s) na) as [h se]. cbn [fst] in H. destruct se; exact H.
Qed.

(* primitive transformers *)
Lemma Sur_add_expected : forall k a s, Sur k a (hs s) -> Sur (S k) a (hs (add_expected s a)).
Proof.
  intros k a s (H1 & H2 & H3). unfold Sur, SurT. cbn [add_expected with_hs hs active challenges expected].
  repeat split; auto.
  - apply exp_add_wf; assumption.
  - intros b. rewrite exp_get_add, H3. destruct (N.eqb a b); lia.
Qed.
Lemma Sur_remove_expected : forall k a s, Sur (S k) a (hs s) -> Sur k a (hs (remove_expected s a)).
Proof.
  intros k a s (H1 & H2 & H3). unfold Sur, SurT. cbn [remove_expected with_hs hs active challenges expected].
  repeat split; auto.
  - apply exp_remove_wf; assumption.
  - intros b. rewrite exp_get_remove, H3 by assumption. destruct (N.eqb a b); lia.
Qed.

Lemma Sur_ar_insert : forall c k na r now h, Sur (S k) (snd na) h -> req_ok na r ->
  Sur k (snd na) (ar_insert c h na r now).
Proof.
  intros c k na r now h (H1 & H2 & H3) Hok. unfold Sur, SurT, ar_insert.
  cbn [set_active active challenges expected]. destruct (alist_get na (active h)) as [l|] eqn:G.
  - destruct (ActWF_get _ _ _ H1 G) as [Hne HF]. repeat split; auto.
    + eapply ActWF_set; eauto.
      * destruct l; discriminate.
      * apply Forall_app. split; auto.
    + intros a. rewrite H3. pose proof (cnt_act_set a _ _ _ (l ++ [r]) G) as E.
      rewrite app_length in E. cbn [length] in E. unfold ind in E. destruct (N.eqb (snd na) a); lia.
  - repeat split; auto.
    + apply ActWF_app_new; assumption.
    + intros a. rewrite H3, cnt_act_app. cbn [cnt_act length]. unfold ind. destruct (N.eqb (snd na) a); lia.
Qed.

Lemma emit_hs : forall s o, hs (emit s o) = hs s.
Proof. reflexivity. Qed.
Lemma send_hs : forall s na p, hs (send s na p) = hs s.
Proof. reflexivity. Qed.

Lemma fold_left_inv : forall {A B} (P : A -> Prop) (f : A -> B -> A) (l : list B),
  (forall a b, In b l -> P a -> P (f a b)) -> forall a, P a -> P (fold_left f l a).
Proof.
  intros A B P f. induction l as [|b r IH]; cbn [fold_left]; intros Hf a Ha; auto.
  apply IH.
  - intros a' b' Hin. apply Hf. right. assumption.
  - apply Hf; auto. left. reflexivity.
Qed.

(* ------------------------------------------------------------------------------------------ *)
(* one lemma per model function *)

Lemma send_request_inv : forall c s ct ext rid body now,
  ExpInv (hs s) -> ExpInv (hs (fst (send_request c s ct ext rid body now))).
Proof.
  intros c s ct ext rid body now H. unfold send_request.
  destruct (existsb (N.eqb (c_addr ct)) (cfg_listen c)); [exact H|].
  assert (H1 : same_ace (hs (fst (if has_challenge (hs s) (c_naddr ct) then (s, true)
                                    else is_awaiting_session s (c_naddr ct)))) (hs s)).
  { destruct (has_challenge (hs s) (c_naddr ct)); [apply same_ace_refl | apply is_awaiting_session_same]. }
  destruct (if has_challenge (hs s) (c_naddr ct) then (s, true) else is_awaiting_session s (c_naddr ct))
    as [s1 aw]. cbn [fst] in H1.
  destruct aw; cbn [fst].
  - cbn [with_hs hs]. eapply ExpInv_same; [|exact H].
    eapply same_ace_trans; [apply push_pending_same | exact H1].
  - pose proof (sess_get_same (hs s1) (c_naddr ct)) as H2.
    destruct (sess_get (hs s1) (c_naddr ct)) as [h2 se]. cbn [fst] in H2.
    assert (H3 : ExpInv h2). { eapply ExpInv_same; [|exact H]. eapply same_ace_trans; eauto. }
    destruct se as [se|].
    + pose proof (encrypt_message_hs c (with_hs s1 h2) (c_naddr ct) se (MReq rid body)) as H4.
      destruct (encrypt_message c (with_hs s1 h2) (c_naddr ct) se (MReq rid body)) as [[s3 se'] p].
      cbn [fst with_hs hs] in H4. cbn [fst with_hs hs send emit].
      apply (Sur0_iff (snd (c_naddr ct))). apply Sur_ar_insert; [|reflexivity].
      apply (Sur_add_expected 0). cbn [hs]. apply (Sur0_iff (c_addr ct)).
      eapply ExpInv_same; [apply sess_put_same|]. rewrite H4. exact H3.
    + destruct (pop_pk (dr (with_hs s1 h2))) as [[[[cn r] aad] x4] d']. cbn [fst with_hs hs send emit].
      apply (Sur0_iff (snd (c_naddr ct))). apply Sur_ar_insert; [|reflexivity].
      apply (Sur_add_expected 0). cbn [hs]. apply (Sur0_iff (c_addr ct)). exact H3.
Qed.
