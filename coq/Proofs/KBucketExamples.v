(* C07: non-vacuity.  Concrete tables obtained by running literal operation lists on the model
   satisfy the invariant, and they are not trivial: a full bucket with a pending node and mixed
   connection states; a promotion of a pending node that evicts the head. *)
From Coq Require Import List Arith NArith Lia Bool Permutation Sorted.
From Discv5V Require Import Generated.Params Lib.ListX Model.KBucket
  Proofs.KBucketInv Proofs.KBucketTable Proofs.KBucketPending.
Import ListNotations.
Local Open Scope N_scope.

Definition ex_cfg : config :=
  {| max_incoming := 5; pending_timeout := 100; bfilter := None; tfilter := None |}.
Definition ex_val (k : N) : val := {| vid := k; vsub := None |}.

(* local id 0: the keys 32..63 all belong to bucket 5.
   32..39 are inserted disconnected, 40..47 connected (some incoming), then 48 (connected) finds the
   bucket full with a disconnected head and becomes pending; finally 45 is reported disconnected. *)
Definition ex_ops : list (op * N) :=
  map (fun k => (OInsertOrUpdate k (ex_val k) false false, k - 31)) [32;33;34;35;36;37;38;39] ++
  map (fun k => (OInsertOrUpdate k (ex_val k) true (N.even k), k - 31)) [40;41;42;43;44;45;46;47] ++
  [(OInsertOrUpdate 48 (ex_val 48) true false, 17);
   (OUpdateStatus 45 false None, 18);
   (OInsertOrUpdate 100 (ex_val 100) true true, 19)].

Definition ex_table : table := fst (run true ex_cfg (new_table 0) ex_ops).

Example ex_table_inv : TInvAt ex_cfg 19 ex_table.
Proof.
  apply (reachable_inv_at true ex_cfg 0 ex_ops 0). simpl. repeat split; lia.
Qed.

Example ex_table_shape :
  let b := get_bucket ex_table 5 in
  length (nodes b) = K /\
  map nkey (nodes b) = [32;33;34;35;36;37;38;39;45;40;41;42;43;44;46;47] /\
  map nconn (nodes b) = [false;false;false;false;false;false;false;false;false;
                         true;true;true;true;true;true;true] /\
  fcp b = Some 9%nat /\
  option_map (fun p => (nkey (pn p), preplace p)) (pend b) = Some (48, 117) /\
  map nkey (nodes (get_bucket ex_table 6)) = [100].
Proof. vm_compute. repeat split. Qed.

(* later the pending timeout elapses: the next operation that touches the bucket promotes 48 and
   evicts the head 32 (least recently active disconnected node) *)
Definition ex_ops2 : list (op * N) := ex_ops ++ [(OIter, 200); (OTakeApplied, 201)].
Definition ex_table2 : table := fst (run true ex_cfg (new_table 0) ex_ops2).

Example ex_table2_inv : TInvAt ex_cfg 201 ex_table2.
Proof.
  apply (reachable_inv_at true ex_cfg 0 ex_ops2 0). simpl. repeat split; lia.
Qed.

Example ex_table2_shape :
  let b := get_bucket ex_table2 5 in
  map nkey (nodes b) = [33;34;35;36;37;38;39;45;40;41;42;43;44;46;47;48] /\
  fcp b = Some 8%nat /\ pend b = None /\
  nth 20 (snd (run true ex_cfg (new_table 0) ex_ops2)) RUnit = RApplied (Some (48, Some 32)).
Proof. vm_compute. repeat split. Qed.

(* the reconnect rule: if instead the head 32 reports "connected" before the timeout, the pending
   node is dropped *)
Definition ex_ops3 : list (op * N) := ex_ops ++ [(OUpdateStatus 32 true None, 50); (OIter, 200)].
Example ex_table3_shape :
  let b := get_bucket (fst (run true ex_cfg (new_table 0) ex_ops3)) 5 in
  pend b = None /\ length (nodes b) = K /\ existsb (fun n => N.eqb (nkey n) 48) (nodes b) = false.
Proof. vm_compute. repeat split. Qed.

(* hypotheses of the no-panic lemmas are satisfiable: 256-bit ids *)
Example ex_index_in_range :
  bucket_index (2 ^ 255 + 5) 7 = Some 255%nat /\ (2 ^ 255 + 5 < 2 ^ NUM_BUCKETS) /\ (255 < NB)%nat.
Proof.
  split; [vm_compute; reflexivity|]. split; [reflexivity|]. apply Nat.ltb_lt. reflexivity.
Qed.
