(* C12, part 2: what Service::discovered does to the STORED entry of a record learnt from the network.
   - the complete case analysis of one record of discovered() (discovered_one_table);
   - a record that is not newer than the stored one changes nothing;
   - a newer record that is not contactable / fails the table filter removes a stored NODE
     (under the routing-table invariant of C07) ...
   - ... but not a stored PENDING node: PendingEntry::remove calls KBucket::remove, which only
     searches [nodes] (observation, with a reachable witness). *)
From Coq Require Import List Arith NArith Bool Lia.
From Discv5V Require Import Generated.Params Lib.ListX Lib.ListY Model.KBucket Model.Nodes Model.Admission
  Proofs.KBucketInv Proofs.KBucketTable Proofs.KBucketPending Proofs.KBucketEntries
  Proofs.KBMembers Proofs.Admission Proofs.Serve Proofs.ServiceInv.
Import ListNotations.
Local Open Scope N_scope.

(* ------------------------------------------------------------------------------------------ *)
(* applying the pending node of a bucket twice at the same time is applying it once *)

Lemma b_insert_not_full_pend c b n now :
  is_full b = false -> pend b = None -> pend (fst (b_insert c b n now)) = None.
Proof.
  intros Hf Hp. unfold b_insert. rewrite Hf, Hp.
  destruct (position _ _); [exact Hp|].
  destruct (negb _); [exact Hp|].
  destruct (nconn (set_stamp n now)).
  - destruct (_ && _); [exact Hp|]. reflexivity.
  - destruct (fcp b); reflexivity.
Qed.

Lemma apply_pending_pend c b now :
  pend (fst (b_apply_pending c b now)) = None \/
  (b_apply_pending c b now = (b, None) /\ exists p, pend b = Some p /\ N.leb (preplace p) now = false).
Proof.
  unfold b_apply_pending. destruct (pend b) as [p|] eqn:Ep; [|left; exact Ep].
  destruct (N.leb (preplace p) now) eqn:El; [left|right; split; [reflexivity|eauto]].
  set (b0 := {| nodes := nodes b; fcp := fcp b; pend := None |}).
  destruct (is_full b0) eqn:Ef.
  - destruct (nodes b0) as [|h rest]; [reflexivity|].
    destruct (nconn h); [reflexivity|].
    destruct (negb _); [reflexivity|].
    destruct (_ && _ && _); [reflexivity|].
    destruct (nconn (set_stamp (pn p) now)); [reflexivity|].
    destruct (fcp b0) as [[|q]|]; reflexivity.
  - pose proof (b_insert_not_full_pend c b0 (pn p) now Ef eq_refl) as H.
    destruct (b_insert c b0 (pn p) now) as [b1 r]. cbn [fst] in H. destruct r; exact H.
Qed.

Lemma apply_pending_idem c b now :
  b_apply_pending c (fst (b_apply_pending c b now)) now = (fst (b_apply_pending c b now), None).
Proof.
  destruct (apply_pending_pend c b now) as [H|(H & _)].
  - unfold b_apply_pending at 1. rewrite H. reflexivity.
  - rewrite H. cbn [fst]. exact H.
Qed.

(* ------------------------------------------------------------------------------------------ *)
(* the table after a look-up of [k] (KBucketsTable::entry): the bucket of [k] with its pending node
   applied; looking again at the same time changes nothing more *)

Lemma t_entry_look_eq c t k now :
  t_entry c t k ALook now =
  match bucket_index (local t) k with
  | None => (t, (ESelf, EONone))
  | Some i => let (b, app) := applied_bucket c t i now in (set_bucket t i b app, (classify b k, EONone))
  end.
Proof.
  unfold t_entry. destruct (bucket_index (local t) k) as [i|]; [|reflexivity].
  destruct (applied_bucket c t i now) as [b app]. destruct (classify b k); reflexivity.
Qed.

Lemma applied_bucket_after_look c t k i now :
  bucket_index (local t) k = Some i ->
  let t1 := fst (t_entry c t k ALook now) in
  get_bucket t1 i = fst (applied_bucket c t i now) /\
  applied_bucket c t1 i now = (fst (applied_bucket c t i now), applied t1).
Proof.
  intros Ei. cbv zeta. rewrite t_entry_look_eq, Ei.
  unfold applied_bucket.
  destruct (b_apply_pending c (get_bucket t i) now) as [b a] eqn:Ea. cbn [fst].
  set (t1 := set_bucket t i b (push_applied (applied t) a)).
  assert (Hb : b = fst (b_apply_pending c (get_bucket t i) now)) by now rewrite Ea.
  assert (Hg : get_bucket t1 i = b).
  { destruct (Nat.lt_ge_cases i (length (buckets t))) as [L|L].
    - unfold t1. now apply get_set_bucket_same.
    - unfold t1. rewrite get_set_bucket_overflow by exact L.
      rewrite Hb. rewrite (get_bucket_default t i L). symmetry. apply apply_pending_empty. }
  split; [exact Hg|].
  rewrite Hg, Hb, apply_pending_idem. reflexivity.
Qed.

(* the kind of entry found by the look-up and what [stored] reads afterwards *)
Lemma look_kind_stored c t k now :
  let t1 := fst (t_entry c t k ALook now) in
  match fst (snd (t_entry c t k ALook now)) with
  | EPresent _ _ => exists v, stored t1 k = Some (false, v)
  | EPendingE _ _ => exists v, stored t1 k = Some (true, v)
  | EAbsent | ESelf => stored t1 k = None
  end.
Proof.
  cbv zeta. unfold stored. rewrite t_entry_local.
  destruct (bucket_index (local t) k) as [i|] eqn:Ei.
  - destruct (applied_bucket_after_look c t k i now Ei) as (Hg & _). rewrite Hg.
    rewrite t_entry_look_eq, Ei.
    destruct (applied_bucket c t i now) as [b app]. cbn [fst snd].
    unfold classify.
    destruct (get k (nodes b)) as [n|]; [eauto|].
    destruct (pend b) as [p|]; [|reflexivity].
    destruct (nkey (pn p) =? k); [eauto|reflexivity].
  - rewrite t_entry_look_eq, Ei. reflexivity.
Qed.

(* ------------------------------------------------------------------------------------------ *)
(* one record of discovered(): the complete case analysis of its effect on the table *)

Section Gap.
  Variable rec_of : N -> enr.
  Variable tf : enr -> bool.
  Variable mode : ip_mode.
  Variable c : config.

  (* the stored record (node or pending node) is older than [e] *)
  Definition stored_older (t1 : table) (e : enr) : bool :=
    match stored_rec rec_of t1 (e_id e) with Some old => e_seq old <? e_seq e | None => false end.

  Theorem discovered_one_table t src e now :
    let t1 := fst (t_entry c t (e_id e) ALook now) in
    fst (discovered_one rec_of tf mode c t src e now) =
      if e_id e =? local t then t
      else if negb (stored_older t1 e) then t1
      else if tf e && contactable mode e then fst (t_update_node c t1 (e_id e) (to_val e) None now)
      else fst (t_entry c t1 (e_id e) ARemove now).
  Proof.
    cbv zeta. unfold discovered_one, stored_older.
    destruct (e_id e =? local t); [reflexivity|].
    pose proof (look_kind_stored c t (e_id e) now) as Hk. cbv zeta in Hk.
    destruct (t_entry c t (e_id e) ALook now) as [t1 ko]. cbn [fst snd] in *.
    unfold stored_rec in *.
    destruct (tf e && contactable mode e).
    - destruct (fst ko).
      + destruct Hk as (v & ->). destruct (e_seq (rec_of (vid v)) <? e_seq e); cbn [negb]; [|reflexivity].
        destruct (t_update_node c t1 (e_id e) (to_val e) None now) as [t2 r]. destruct r; reflexivity.
      + destruct Hk as (v & ->). destruct (e_seq (rec_of (vid v)) <? e_seq e); cbn [negb]; [|reflexivity].
        destruct (t_update_node c t1 (e_id e) (to_val e) None now) as [t2 r]. destruct r; reflexivity.
      + rewrite Hk. reflexivity.
      + rewrite Hk. reflexivity.
    - destruct (fst ko).
      + destruct Hk as (v & ->). destruct (e_seq (rec_of (vid v)) <? e_seq e); reflexivity.
      + destruct Hk as (v & ->). destruct (e_seq (rec_of (vid v)) <? e_seq e); reflexivity.
      + rewrite Hk. reflexivity.
      + rewrite Hk. reflexivity.
  Qed.

  (* a record that is not admissible is never kept for the query, and brings nothing into the table *)
  Theorem discovered_one_inadmissible t src e now :
    tf e && contactable mode e = false ->
    snd (discovered_one rec_of tf mode c t src e now) = false /\
    forall x, In x (tmem (fst (discovered_one rec_of tf mode c t src e now))) -> In x (tmem t).
  Proof.
    intros Hin. split.
    - unfold discovered_one. destruct (e_id e =? local t); [reflexivity|]. rewrite Hin.
      destruct (t_entry c t (e_id e) ALook now) as [t1 ko].
      destruct (fst ko); try reflexivity;
        match goal with |- context [if ?m then _ else _] => destruct m end; reflexivity.
    - intros x Hx. apply discovered_one_mem in Hx. destruct Hx as [Hx|(_ & _ & Hf & Hc & _)]; [exact Hx|].
      rewrite Hf, Hc in Hin. discriminate.
  Qed.

  (* lower or equal sequence number (or no stored entry): nothing but the look-up happens *)
  Theorem discovered_one_not_newer t src e now :
    let t1 := fst (t_entry c t (e_id e) ALook now) in
    stored_older t1 e = false ->
    fst (discovered_one rec_of tf mode c t src e now) = (if e_id e =? local t then t else t1).
  Proof.
    cbv zeta. intros H. rewrite discovered_one_table. rewrite H. reflexivity.
  Qed.
End Gap.

(* ------------------------------------------------------------------------------------------ *)
(* removal of a stored node *)

Lemma In_tmem_iff t x : In x (tmem t) <-> exists j, In x (bmem (get_bucket t j)).
Proof.
  unfold tmem. rewrite in_flat_map. split.
  - intros (b & Hb & He). apply In_nth_error in Hb. destruct Hb as [j Hj].
    exists j. rewrite (nth_error_get_bucket _ _ _ Hj). exact He.
  - intros (j & He). destruct (Nat.lt_ge_cases j (length (buckets t))) as [L|L].
    + exists (get_bucket t j). split; [apply nth_In; exact L|exact He].
    + rewrite get_bucket_default in He by exact L. destruct He.
Qed.

Lemma NoDup_map_remove_at {A B} (f : A -> B) l pos x :
  NoDup (map f l) -> nth_error l pos = Some x -> ~ In (f x) (map f (remove_at pos l)).
Proof.
  intros Hnd Hn. pose proof (remove_at_perm pos x l Hn) as Hp.
  apply (Permutation.Permutation_map f) in Hp. cbn [map] in Hp.
  apply (Permutation.Permutation_NoDup Hp) in Hnd. now inversion Hnd.
Qed.

(* KBucket::remove of a key found in [nodes] leaves no trace of the key in the bucket *)
Lemma b_remove_key_gone c T loc i b k now pos :
  BInv c T loc i b -> position k (nodes b) = Some pos ->
  ~ In k (bkeys (fst (b_remove c b k now))).
Proof.
  intros HB Hpos Hin. unfold b_remove in Hin. rewrite Hpos in Hin. cbv zeta in Hin. cbn [fst] in Hin.
  destruct (position_some _ _ _ Hpos) as (old & Hn & Hk).
  unfold bkeys in Hin. apply in_map_iff in Hin. destruct Hin as (x & Hx1 & Hx2).
  apply b_apply_pending_entries in Hx2.
  assert (Hk1 : In k (bkeys {| nodes := remove_at pos (nodes b);
                               fcp := fcp_after_removal (fcp b) pos (length (remove_at pos (nodes b)));
                               pend := pend b |})).
  { unfold bkeys. apply in_map_iff. eauto. }
  rewrite bkeys_eq in Hk1. cbn [nodes pend] in Hk1.
  pose proof (bi_nodup _ _ _ _ _ HB) as Hnd. rewrite bkeys_eq in Hnd.
  apply in_app_or in Hk1. destruct Hk1 as [Hk1|Hk1].
  - apply NoDup_app_remove_r in Hnd. rewrite <- Hk in Hk1.
    exact (NoDup_map_remove_at nkey _ _ _ Hnd Hn Hk1).
  - apply NoDup_app_iff in Hnd. destruct Hnd as (_ & _ & Hd).
    apply (Hd k); [|exact Hk1]. rewrite <- Hk. apply in_map. eapply nth_error_In; eauto.
Qed.

Lemma bmem_bkeys b k v : In (k, v) (bmem b) -> In k (bkeys b).
Proof. intros H. apply bmem_bentries in H. unfold bkeys. apply in_map_iff. exists (k, v). auto. Qed.

(* PresentEntry::remove: the key is in no bucket afterwards *)
Lemma t_entry_remove_node_gone c t k now v :
  TInv c t -> stored (fst (t_entry c t k ALook now)) k = Some (false, v) ->
  ~ In k (tkeys (fst (t_entry c (fst (t_entry c t k ALook now)) k ARemove now))).
Proof.
  intros HT Hst.
  pose proof (t_entry_inv c None now (tm_None None now) t k ALook HT) as HT1.
  set (t1 := fst (t_entry c t k ALook now)) in *.
  assert (El : local t1 = local t) by apply t_entry_local.
  unfold stored in Hst. rewrite El in Hst.
  destruct (bucket_index (local t) k) as [i|] eqn:Ei; [|discriminate].
  destruct (applied_bucket_after_look c t k i now Ei) as (Hg & Ha). fold t1 in Hg, Ha.
  set (b := fst (applied_bucket c t i now)) in *.
  rewrite Hg in Hst.
  destruct (get k (nodes b)) as [n|] eqn:Eg.
  2:{ destruct (pend b) as [p|]; [|discriminate]. destruct (nkey (pn p) =? k); discriminate. }
  pose proof (get_position k (nodes b)) as Hgp. rewrite Eg in Hgp. destruct Hgp as (pos & Hpos & Hnth).
  assert (HB : BInv c None (local t) i b).
  { rewrite <- Hg, <- El. apply (proj2 HT1). }
  unfold t_entry. rewrite El, Ei, Ha. unfold classify. rewrite Eg. cbn [fst].
  intros Hin. apply In_tkeys in Hin. destruct Hin as (v' & Hv').
  apply In_tmem_iff in Hv'. destruct Hv' as (j & Hj).
  rewrite get_set_bucket in Hj.
  destruct (Nat.eqb_spec i j) as [E|Hne]; cbn [andb] in Hj.
  - subst j. destruct (Nat.ltb_spec i (length (buckets t1))) as [L|L].
    + apply bmem_bkeys in Hj. exact (b_remove_key_gone c None (local t) i b k now pos HB Hpos Hj).
    + (* index beyond the bucket array: the bucket read back is the empty one, but [k] is in it *)
      rewrite (get_bucket_default t1 i L) in Hg. rewrite <- Hg in Eg. discriminate.
  - apply bmem_bkeys in Hj.
    pose proof (bi_idx _ _ _ _ _ (proj2 HT1 j) k Hj) as Hidx. rewrite El, Ei in Hidx. congruence.
Qed.

(* A newer record that is not contactable or fails the table filter removes the stored NODE:
   under the routing-table invariant, the node id is in no bucket (nor pending slot) afterwards. *)
Theorem discovered_one_inadmissible_newer_removes rec_of tf mode c t src e now v :
  TInv c t -> e_id e <> local t -> tf e && contactable mode e = false ->
  let t1 := fst (t_entry c t (e_id e) ALook now) in
  stored t1 (e_id e) = Some (false, v) -> e_seq (rec_of (vid v)) < e_seq e ->
  ~ In (e_id e) (tkeys (fst (discovered_one rec_of tf mode c t src e now))).
Proof.
  intros HT Hl Hin. cbv zeta. intros Hst Hseq.
  rewrite discovered_one_table.
  apply N.eqb_neq in Hl. rewrite Hl.
  unfold stored_older, stored_rec. rewrite Hst. apply N.ltb_lt in Hseq. rewrite Hseq. cbn [negb].
  rewrite Hin. eapply t_entry_remove_node_gone; eauto.
Qed.

(* ------------------------------------------------------------------------------------------ *)
(* Observation: a stored PENDING node is not removed.  discovered() calls PendingEntry::remove,
   which is KBucket::remove(key): it searches [nodes] only and does nothing for the pending slot.
   Witness (reachable through the service's own operations): local id 0, IPv4 mode; the user adds
   the sixteen nodes 32..47 (bucket 5 is full, all disconnected), a session with node 48 makes it
   the pending node of that bucket; then a NODES response carries a newer record of node 48
   without an IPv4 address.  The pending node stays, with its old record. *)
Definition obs_rec (v : N) : enr :=
  if v <? 100
  then {| e_vid := v; e_id := v; e_seq := 1; e_udp4 := Some (167772160 + v, 30303); e_udp6 := None;
          e_sub := None; e_size := 120 |}
  else {| e_vid := v; e_id := v - 100; e_seq := 2; e_udp4 := None; e_udp6 := None;
          e_sub := None; e_size := 100 |}.
Definition obs_cfg : config :=
  {| max_incoming := 16; pending_timeout := 60; bfilter := None; tfilter := None |}.
Definition obs_ops : list (aop * N) :=
  map (fun k => (AAddEnr (obs_rec (N.of_nat k)), 1)) (seq 32 16) ++ [(AEstablished (obs_rec 48) false, 2)].

Theorem pending_entry_not_removed_observation :
  let rec_of := obs_rec in
  let tf := fun _ : enr => true in
  let e := obs_rec 148 in
  let t := arun rec_of tf Ip4 repaired obs_cfg (new_table 0) obs_ops in
  Forall (fun on => op_interned rec_of (fst on)) obs_ops /\ interned rec_of e /\
  TInv obs_cfg t /\ e_id e <> local t /\ tf e && contactable Ip4 e = false /\
  (exists v, stored (fst (t_entry obs_cfg t (e_id e) ALook 3)) (e_id e) = Some (true, v) /\
             e_seq (rec_of (vid v)) < e_seq e) /\
  let t' := fst (discovered_one rec_of tf Ip4 obs_cfg t 40 e 3) in
  stored t' (e_id e) = Some (true, to_val (obs_rec 48)) /\ In (e_id e) (tkeys t').
Proof.
  intros rec_of tf e t. split; [|split; [|split; [|split; [|split; [|split]]]]].
  - unfold obs_ops. apply Forall_forall. intros on Hon. apply in_app_or in Hon.
    destruct Hon as [Hon|[<-|[]]]; [|vm_compute; reflexivity].
    apply in_map_iff in Hon. destruct Hon as (k & <- & Hk). apply in_seq in Hk.
    cbn [fst op_interned]. unfold interned, rec_of, obs_rec.
    assert (Hlt : N.of_nat k < 100) by lia. apply N.ltb_lt in Hlt. rewrite Hlt. cbn [e_vid]. now rewrite Hlt.
  - vm_compute. reflexivity.
  - apply service_table_tinv.
  - vm_compute. discriminate.
  - vm_compute. reflexivity.
  - exists (to_val (obs_rec 48)). split; vm_compute; reflexivity.
  - intros t'.
    assert (Hs : stored t' (e_id e) = Some (true, to_val (obs_rec 48))) by (vm_compute; reflexivity).
    split; [exact Hs|].
    apply (proj2 (In_tkeys t' (e_id e))). exists (to_val (obs_rec 48)).
    exact (stored_in t' (e_id e) true (to_val (obs_rec 48)) Hs).
Qed.

(* ------------------------------------------------------------------------------------------ *)
(* the update of a stored value (the "replaces" of the property): KBucketsTable::update_node with
   the state argument None either fails - and then the entry was REMOVED by the routing table's own
   table / bucket filter, or the key is not there - or the entry keeps its place (node or pending
   node) and carries the new value *)

Lemma get_after_update k l : forall pos old v,
  position k l = Some pos -> nth_error l pos = Some old ->
  get k (insert_at pos (set_val old v) (remove_at pos l)) = Some (set_val old v).
Proof.
  unfold position, get. induction l as [|x l IH]; intros [|pos] old v Hp Hn; cbn in Hp, Hn; try discriminate.
  - destruct (nkey x =? k) eqn:E; [|destruct (find_index _ l); discriminate].
    inversion Hn; subst old. cbn. rewrite E. reflexivity.
  - destruct (nkey x =? k) eqn:E; [discriminate|].
    destruct (find_index (fun n => nkey n =? k) l) as [q|] eqn:F; [|discriminate].
    cbn in Hp. inversion Hp; subst q. cbn. rewrite E. apply IH; auto.
Qed.

Lemma b_update_value_stored c b k v :
  match snd (b_update_value c b k v) with
  | UFailed _ => True
  | _ =>
    let b' := fst (b_update_value c b k v) in
    (exists n, get k (nodes b) = Some n /\ exists n', get k (nodes b') = Some n' /\ vid (nval n') = vid v) \/
    (get k (nodes b) = None /\ get k (nodes b') = None /\
     exists p p', pend b = Some p /\ nkey (pn p) = k /\ pend b' = Some p' /\ nkey (pn p') = k /\ nval (pn p') = v)
  end.
Proof.
  unfold b_update_value.
  pose proof (get_position k (nodes b)) as Hg.
  destruct (position k (nodes b)) as [pos|] eqn:Hpos.
  - destruct (position_some _ _ _ Hpos) as (old & Hn & Hk). rewrite Hn.
    destruct (get k (nodes b)) as [n|] eqn:Eg; [|congruence].
    destruct Hg as (pos' & Hp' & Hn'). assert (pos' = pos) by congruence. subst pos'.
    assert (n = old) by congruence. subst n.
    destruct (val_eqb (nval old) v) eqn:Ev.
    + cbn [snd fst]. left. exists old. split; [reflexivity|]. exists old. split; [exact Eg|].
      unfold val_eqb in Ev. now apply N.eqb_eq in Ev.
    + cbv zeta. destruct (negb _); cbn [snd fst]; [exact I|].
      left. exists old. split; [reflexivity|]. exists (set_val old v). cbn [nodes].
      split; [now apply get_after_update|reflexivity].
  - destruct (get k (nodes b)) as [n|] eqn:Eg.
    { destruct Hg as (pos' & Hp' & _). congruence. }
    destruct (pend b) as [p|] eqn:Ep; [|exact I].
    destruct (N.eqb_spec (nkey (pn p)) k) as [E|E]; cbn [snd fst]; [|exact I].
    right. split; [reflexivity|]. cbn [nodes pend]. split; [exact Eg|].
    exists p. eexists. split; [reflexivity|]. split; [exact E|]. split; [reflexivity|]. cbn [pn set_val nkey nval]. auto.
Qed.

Lemma t_update_node_stored c t k v now i :
  bucket_index (local t) k = Some i ->
  applied_bucket c t i now = (get_bucket t i, applied t) ->
  match snd (t_update_node c t k v None now) with
  | UFailed _ => True
  | _ => exists pending v0 v', stored t k = Some (pending, v0) /\
                               stored (fst (t_update_node c t k v None now)) k = Some (pending, v') /\ vid v' = vid v
  end.
Proof.
  intros Ei Ha. unfold t_update_node. rewrite Ei, Ha.
  destruct (negb (passes_table_filter c t k v)); [exact I|].
  pose proof (b_update_value_stored c (get_bucket t i) k v) as Hb.
  destruct (b_update_value c (get_bucket t i) k v) as [b1 ur]. cbn [fst snd] in Hb.
  assert (Hst : forall b', (i < length (buckets t))%nat ->
            stored (set_bucket t i b' (applied t)) k =
            match get k (nodes b') with
            | Some n => Some (false, nval n)
            | None => match pend b' with
                      | Some p => if nkey (pn p) =? k then Some (true, nval (pn p)) else None
                      | None => None
                      end
            end).
  { intros b' L. unfold stored. rewrite set_bucket_local, Ei, get_set_bucket_same by exact L. reflexivity. }
  assert (Hst0 : stored t k =
            match get k (nodes (get_bucket t i)) with
            | Some n => Some (false, nval n)
            | None => match pend (get_bucket t i) with
                      | Some p => if nkey (pn p) =? k then Some (true, nval (pn p)) else None
                      | None => None
                      end
            end).
  { unfold stored. rewrite Ei. reflexivity. }
  assert (Hlen : ur <> UFailed FKeyNonExistent -> (forall f, ur <> UFailed f) -> (i < length (buckets t))%nat).
  { intros _ Hnf. destruct (Nat.lt_ge_cases i (length (buckets t))) as [L|L]; [exact L|exfalso].
    rewrite (get_bucket_default t i L) in Hb.
    destruct ur; try (eapply Hnf; reflexivity);
      (destruct Hb as [(n & Hn & _)|(_ & _ & p & p' & Hp & _)]; [discriminate Hn|discriminate Hp]). }
  destruct ur as [| | |f|]; cbn [snd]; try exact I.
  all: (assert (L : (i < length (buckets t))%nat) by (apply Hlen; intros; discriminate);
        cbn [fst]; rewrite (Hst b1 L), Hst0;
        destruct Hb as [(n & Hn & n' & Hn' & Hv)|(Hg0 & Hg1 & p & p' & Hp & Hk & Hp' & Hk' & Hv)];
        [rewrite Hn, Hn'; exists false, (nval n), (nval n'); auto
        |rewrite Hg0, Hg1, Hp, Hp'; apply N.eqb_eq in Hk; apply N.eqb_eq in Hk'; rewrite Hk, Hk';
         exists true, (nval (pn p)), (nval (pn p')); rewrite Hv; auto]).
Qed.

(* an admissible, strictly newer record: the stored entry is updated in place (node stays a node,
   pending stays pending) and carries the new record - unless the routing table's update_node
   reports a failure (its own table / bucket filter rejected the new value and removed the entry),
   in which case the record is also dropped from the list handed to the lookup *)
Theorem discovered_one_admissible_newer_updates rec_of tf mode c t src e now :
  e_id e <> local t -> tf e && contactable mode e = true ->
  let t1 := fst (t_entry c t (e_id e) ALook now) in
  stored_older rec_of t1 e = true ->
  fst (discovered_one rec_of tf mode c t src e now) = fst (t_update_node c t1 (e_id e) (to_val e) None now) /\
  match snd (t_update_node c t1 (e_id e) (to_val e) None now) with
  | UFailed _ => snd (discovered_one rec_of tf mode c t src e now) = false
  | _ => exists pending v0 v',
           stored t1 (e_id e) = Some (pending, v0) /\
           stored (fst (discovered_one rec_of tf mode c t src e now)) (e_id e) = Some (pending, v') /\
           vid v' = e_vid e
  end.
Proof.
  intros Hl Hadm. cbv zeta. intros Hold.
  pose proof (discovered_one_table rec_of tf mode c t src e now) as Ht. cbv zeta in Ht.
  apply N.eqb_neq in Hl. rewrite Hl, Hold, Hadm in Ht. cbn [negb] in Ht.
  split; [exact Ht|]. rewrite Ht.
  set (t1 := fst (t_entry c t (e_id e) ALook now)) in *.
  destruct (bucket_index (local t) (e_id e)) as [i|] eqn:Ei.
  2:{ (* the local id: excluded *)
      unfold bucket_index in Ei. destruct (N.eqb_spec (N.lxor (local t) (e_id e)) 0) as [E|E]; [|discriminate].
      apply N.lxor_eq in E. apply N.eqb_neq in Hl. congruence. }
  destruct (applied_bucket_after_look c t (e_id e) i now Ei) as (Hg & Ha). fold t1 in Hg, Ha.
  assert (El : local t1 = local t) by apply t_entry_local.
  assert (Ei1 : bucket_index (local t1) (e_id e) = Some i) by now rewrite El.
  rewrite <- Hg in Ha.
  pose proof (t_update_node_stored c t1 (e_id e) (to_val e) now i Ei1 Ha) as Hu.
  destruct (snd (t_update_node c t1 (e_id e) (to_val e) None now)) eqn:Er; try exact Hu.
  (* failure: the record is dropped from the list *)
  unfold discovered_one. rewrite Hl, Hadm.
  pose proof (look_kind_stored c t (e_id e) now) as Hk. cbv zeta in Hk.
  unfold stored_older, stored_rec in Hold. fold t1 in Hk.
  destruct (t_entry c t (e_id e) ALook now) as [t1' ko] eqn:E1. cbn [fst snd] in *. subst t1.
  unfold stored_rec.
  destruct (fst ko).
  - destruct Hk as (v & Hv). rewrite Hv in *. rewrite Hold.
    destruct (t_update_node c t1' (e_id e) (to_val e) None now) as [t2 r]. cbn [snd] in Er. subst r. reflexivity.
  - destruct Hk as (v & Hv). rewrite Hv in *. rewrite Hold.
    destruct (t_update_node c t1' (e_id e) (to_val e) None now) as [t2 r]. cbn [snd] in Er. subst r. reflexivity.
  - rewrite Hk in Hold. discriminate.
  - rewrite Hk in Hold. discriminate.
Qed.
