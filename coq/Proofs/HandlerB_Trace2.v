(* C19, trace level: every handler function preserves the invariant J of HandlerB_Trace.v. *)
From Coq Require Import List Arith NArith Bool Lia.
From Discv5V Require Import Model.Handler Proofs.HandlerB_Base Proofs.HandlerB_Frame Proofs.HandlerB_Session
  Proofs.HandlerB_Auth Proofs.HandlerB_Step Proofs.HandlerB_Nonce Proofs.HandlerB_Trace.
Import ListNotations.
Local Open Scope N_scope.

Lemma active_sess_get c h na : active (fst (sess_get c h na)) = active h.
Proof. apply (sess_get_frame c h na). Qed.
Lemma active_push_pending h na q : active (push_pending h na q) = active h.
Proof. unfold push_pending. destruct (alist_get na (pending h)); reflexivity. Qed.

Lemma JJ_sess_get hist G c s na : JJ hist G s -> JJ hist G (with_hs s (fst (sess_get c (hs s) na))).
Proof.
  intros HJ. apply JJ_with_hs_QH; [exact HJ | apply QH_sess_get | apply ActSubP_same; apply active_sess_get].
Qed.

Lemma JP_is_awaiting c s na : JP s (fst (is_awaiting_session c s na)).
Proof.
  intros hist G HJ. unfold is_awaiting_session. pose proof (JJ_sess_get hist G c s na HJ) as H.
  destruct (sess_get c (hs s) na) as [h se]. cbn [fst] in H. destruct se; exact H.
Qed.

(* encrypt under the session of [na], store it, then any state change that keeps the sessions and adds
   only requests whose packet is the one just sent *)
Lemma JJ_encrypt_send hist G (s : st) h na se dst src r aad m hfin ofin :
  J (hist ++ outs s) G h -> In (na, se) (sessions h) ->
  let p := PMsg src (s_counter se + 1, r) aad (CEnc (s_enc se) (s_counter se + 1, r) m aad) in
  ofin = outs s ++ [OWire dst p] ->
  sessions hfin = sessions (sess_put h na (bump se)) ->
  ActSubP ((hist ++ outs s) ++ [OWire dst p]) (sess_put h na (bump se)) hfin ->
  J (hist ++ ofin) G hfin.
Proof.
  intros HJ Hin p Eo Es HA. rewrite Eo, app_assoc.
  eapply J_state; [apply J_encrypt; eassumption | apply SessD_same; exact Es | apply UPres_same; exact Es | exact HA].
Qed.

Lemma JP_send_request c s ct ext rid body now : JP s (fst (send_request c s ct ext rid body now)).
Proof.
  intros hist G HJ. unfold send_request.
  destruct (existsb (N.eqb (c_addr ct)) (cfg_listen c)); [exact HJ |].
  set (na := c_naddr ct).
  assert (Ha : JJ hist G (fst (if has_challenge (hs s) na then (s, true) else is_awaiting_session c s na))).
  { destruct (has_challenge (hs s) na); [exact HJ | apply JP_is_awaiting; exact HJ]. }
  destruct (if has_challenge (hs s) na then (s, true) else is_awaiting_session c s na) as [s1 awaiting].
  cbn [fst] in Ha. destruct awaiting; cbn [fst].
  - apply JJ_with_hs_QH; [exact Ha | apply QH_push_pending | apply ActSubP_same; apply active_push_pending].
  - pose proof (JJ_sess_get hist G c s1 na Ha) as Hg. pose proof (sess_get_got c (hs s1) na) as Hgot.
    destruct (sess_get c (hs s1) na) as [h2 se]. cbn [fst snd] in Hg, Hgot.
    destruct se as [se |].
    + rewrite encrypt_message_eq. cbn [fst]. unfold JJ.
      eapply (JJ_encrypt_send hist G (with_hs s1 h2) h2 na se na (cfg_local c) _ _ _);
        [exact Hg | apply Hgot; reflexivity | reflexivity | reflexivity |].
      cbn [hs with_hs send emit add_expected outs].
      match goal with |- ActSubP ?H ?h0 (ar_insert _ ?h1 _ _ _) =>
        apply (ActSubP_trans H h0 h1); [apply ActSubP_same; reflexivity | apply ActSubP_ar_insert] end.
      intros _. cbn [rc_pkt]. apply InH_last.
    + destruct (pop_pk (dr (with_hs s1 h2))) as [[[[cn r] aad] e0] d'] eqn:Ep. cbn [fst].
      match goal with |- JJ _ _ (with_hs ?s5 (ar_insert _ _ _ ?call _)) =>
        assert (H5 : JJ hist G s5) end.
      { apply JJ_send_pkt; [| intros []]. apply JJ_add_expected. exact Hg. }
      apply JJ_with_hs; [exact H5 | apply SessD_same; reflexivity | apply UPres_same; reflexivity |].
      apply ActSubP_ar_insert. intros [].
Qed.

Lemma JP_send_pending_requests c s na now : JP s (send_pending_requests c s na now).
Proof.
  unfold send_pending_requests. destruct (alist_get na (pending (hs s))) as [l |]; [| apply JP_refl].
  eapply JP_trans; [| apply (fold_left_rel JP); [apply JP_refl | apply JP_trans |]].
  - intros hist G HJ. apply JJ_with_hs_QH; [exact HJ | apply QH_set_pending | apply ActSubP_same; reflexivity].
  - intros a q. pose proof (JP_send_request c a (pq_contact q) (pq_ext q) (pq_rid q) (pq_body q) now) as H.
    destruct (send_request c a (pq_contact q) (pq_ext q) (pq_rid q) (pq_body q) now) as [s' ok].
    cbn [fst] in H. destruct ok; [exact H |]. destruct (pq_ext q); [| exact H].
    intros hist G HJ. apply JJ_emit_event. apply H. exact HJ.
Qed.

(* fail_session: requests are only removed, only events are emitted *)
Lemma active_fold_keep {B} (f : st -> B -> st) l :
  (forall a b, active (hs (f a b)) = active (hs a)) -> forall s, active (hs (fold_left f l s)) = active (hs s).
Proof.
  intros Hf. induction l as [| b l IH]; intros s; cbn [fold_left]; [reflexivity |]. rewrite IH. apply Hf.
Qed.

Lemma ActSub_fail_session H c s na err rm : ActSubP H (hs s) (hs (fail_session c s na err rm)).
Proof.
  unfold fail_session.
  set (s1 := if rm then with_hs (remove_expired_sessions c s) (sess_remove (hs (remove_expired_sessions c s)) na) else s).
  assert (E1 : active (hs s1) = active (hs s)).
  { unfold s1. destruct rm; [| reflexivity]. cbn [hs with_hs sess_remove active set_sessions].
    destruct (remove_expired_sessions_hs c s) as [E | E]; rewrite E; reflexivity. }
  set (s2 := match alist_get na (pending (hs s1)) with Some l => _ | None => s1 end).
  assert (E2 : active (hs s2) = active (hs s1)).
  { unfold s2. destruct (alist_get na (pending (hs s1))) as [l |]; [| reflexivity].
    rewrite active_fold_keep; [reflexivity |]. intros a q. destruct (pq_ext q); reflexivity. }
  pose proof (ActSubP_ar_remove_requests H (hs s2) na) as H3.
  destruct (ar_remove_requests (hs s2) na) as [h3 reqs]. cbn [fst] in H3.
  assert (E4 : forall x : st, active (hs (fold_left (fun s r =>
              let s' := if rc_ext r then emit s (OEvent (HRequestFailed (rc_rid r) err)) else s in
              remove_expected s' (snd na)) reqs x)) = active (hs x)).
  { apply active_fold_keep. intros a r. destruct (rc_ext r); reflexivity. }
  eapply ActSubP_trans; [apply ActSubP_same; exact E1 |].
  eapply ActSubP_trans; [apply ActSubP_same; exact E2 |].
  eapply ActSubP_trans; [exact H3 |]. apply ActSubP_same. rewrite E4. reflexivity.
Qed.

Lemma JP_fail_session c s na err rm : JP s (fail_session c s na err rm).
Proof.
  intros hist G HJ. destruct (QuietF_fail_session c s na err rm) as [Hq Ho].
  eapply JJ_events; [exact HJ | exact Hq | apply ActSub_fail_session |].
  eapply OutsExt_weaken; [| exact Ho]. apply failed_out_none.
Qed.

Lemma JP_fail_request c s r err rm : JP s (fail_request c s r err rm).
Proof.
  unfold fail_request. eapply JP_trans; [| apply JP_fail_session].
  destruct (rc_ext r); [| apply JP_refl]. intros hist G HJ. apply JJ_emit_event. exact HJ.
Qed.

(* ------------------------------------------------------------------------------------------ *)
(* replay_active_requests *)

Lemma alist_set_set {A} (k : naddr) (a b : A) l : alist_set k b (alist_set k a l) = alist_set k b l.
Proof.
  induction l as [| [k' v'] r IH]; cbn [alist_set].
  - rewrite naddr_eqb_refl. reflexivity.
  - destruct (naddr_eqb k k') eqn:E; cbn [alist_set].
    + rewrite naddr_eqb_refl. reflexivity.
    + rewrite E, IH. reflexivity.
Qed.
Lemma sess_put_put h na a b : sess_put (sess_put h na a) na b = sess_put h na b.
Proof. unfold sess_put. cbn [sessions set_sessions]. rewrite alist_set_set. reflexivity. Qed.

Lemma replay_fold1_J c na dst reqs : forall s se pk H G h,
  J H G h -> In (na, se) (sessions h) ->
  let g := (fun (acc : st * session * list (nonce * packet)) r =>
        let '(s, se, pk) := acc in
        let '(s', se', p) := encrypt_message c s na se (MReq (rc_rid r) (rc_body r)) in
        (s', se', pk ++ [(rc_nonce r, p)])) in
  let res := fold_left g reqs (s, se, pk) in
  exists ws, snd res = pk ++ ws /\ hs (fst (fst res)) = hs s /\ outs (fst (fst res)) = outs s /\
    J (H ++ map (fun x => OWire dst (snd x)) ws) G (sess_put h na (snd (fst res))).
Proof.
  induction reqs as [| r reqs IH]; intros s se pk H G h HJ Hin; cbn zeta; cbn [fold_left].
  - exists []. cbn [fst snd map]. rewrite !app_nil_r. split; [reflexivity | split; [reflexivity | split; [reflexivity |]]].
    destruct (QH_sess_put h na se se Hin (sess_desc_refl se)) as [_ [HD HU]].
    eapply J_state; [exact HJ | exact HD | exact HU | apply ActSubP_same; reflexivity].
  - rewrite encrypt_message_eq.
    set (p := PMsg (cfg_local c) (s_counter se + 1, pk_r (dr s)) (pk_aad (dr s))
                (CEnc (s_enc se) (s_counter se + 1, pk_r (dr s)) (MReq (rc_rid r) (rc_body r)) (pk_aad (dr s)))).
    pose proof (J_encrypt H G h na se dst (cfg_local c) (pk_r (dr s)) (pk_aad (dr s))
                  (MReq (rc_rid r) (rc_body r)) HJ Hin) as HJ1.
    assert (Hin1 : In (na, bump se) (sessions (sess_put h na (bump se)))).
    { cbn [sess_put sessions set_sessions]. apply alist_set_has. }
    specialize (IH {| hs := hs s; dr := snd (pop_pk (dr s)); outs := outs s |} (bump se)
                  (pk ++ [(rc_nonce r, p)]) _ G _ HJ1 Hin1).
    cbn zeta in IH. destruct IH as [ws [E1 [E2 [E3 HJ2]]]].
    exists ((rc_nonce r, p) :: ws). cbn [hs outs] in E2, E3.
    split; [rewrite E1, <- app_assoc; reflexivity | split; [exact E2 | split; [exact E3 |]]].
    rewrite sess_put_put in HJ2. cbn [map snd]. rewrite <- app_assoc in HJ2. exact HJ2.
Qed.

Lemma replay_fold2 c na now pkts : forall s,
  let f := (fun s (x : nonce * packet) =>
              let s' := with_hs s (ar_update_packet c (hs s) (fst x) (snd x) now) in send s' na (snd x)) in
  let s' := fold_left f pkts s in
  outs s' = outs s ++ map (fun x => OWire na (snd x)) pkts /\
  sessions (hs s') = sessions (hs s) /\
  forall H, (forall x, In x pkts -> is_cpkt (snd x) -> InH H (snd x)) -> ActSubP H (hs s) (hs s').
Proof.
  induction pkts as [| x pkts IH]; intros s; cbn zeta; cbn [fold_left map].
  - rewrite app_nil_r. split; [reflexivity | split; [reflexivity |]]. intros H _. apply ActSubP_same. reflexivity.
  - specialize (IH (send (with_hs s (ar_update_packet c (hs s) (fst x) (snd x) now)) na (snd x))).
    cbn zeta in IH. destruct IH as [E1 [E2 E3]]. split; [| split].
    + rewrite E1. cbn [send emit outs with_hs]. rewrite <- app_assoc. reflexivity.
    + rewrite E2. cbn [send emit hs with_hs].
      unfold ar_update_packet. destruct (nmap_get (fst x) (nmap (hs s))); [| reflexivity].
      destruct (alist_get n (active (hs s))); reflexivity.
    + intros H Hp. eapply ActSubP_trans; [| apply E3; intros y Hy; apply Hp; right; exact Hy].
      cbn [send emit hs with_hs]. apply ActSubP_ar_update_packet. apply Hp. left; reflexivity.
Qed.

Lemma JP_replay c s na skip now : JP s (replay_active_requests c s na skip now).
Proof.
  intros hist G HJ. unfold replay_active_requests.
  pose proof (JJ_sess_get hist G c s na HJ) as Hg. pose proof (sess_get_got c (hs s) na) as Hgot.
  destruct (sess_get c (hs s) na) as [h1 se]. cbn [fst snd] in Hg, Hgot.
  destruct se as [se0 |]; [| exact Hg].
  set (reqs := filter _ _).
  pose proof (replay_fold1_J c na na reqs (with_hs s h1) se0 [] _ G h1 Hg (Hgot _ eq_refl)) as Hf.
  cbn zeta in Hf.
  destruct (fold_left _ reqs (with_hs s h1, se0, [])) as [[s2 se2] pkts]. cbn [fst snd] in Hf.
  destruct Hf as [ws [E0 [E1 [E2 HJ2]]]]. cbn [app] in E0. subst ws. cbn [hs with_hs outs] in E1, E2, HJ2.
  rewrite E1.
  pose proof (replay_fold2 c na now pkts (with_hs s2 (sess_put h1 na se2))) as Hf2. cbn zeta in Hf2.
  destruct Hf2 as [O2 [S2 A2]]. cbn [outs hs with_hs] in O2, S2, A2.
  unfold JJ. rewrite O2, E2, app_assoc.
  eapply J_state; [exact HJ2 | apply SessD_same; rewrite S2; reflexivity |
                   apply UPres_same; rewrite S2; reflexivity |].
  apply A2. intros x Hx _. exists na. apply in_or_app. right.
  apply in_map_iff. exists x. auto.
Qed.

(* ------------------------------------------------------------------------------------------ *)

Lemma JP_handle_request_timeout c s na r now :
  forall hist G, JJ hist G s -> PktOK (hist ++ outs s) r -> JJ hist G (handle_request_timeout c s na r now).
Proof.
  intros hist G HJ Hr. unfold handle_request_timeout. destruct (N.leb (cfg_retries c) (rc_retries r)).
  - apply JP_fail_request. apply JJ_remove_expected. exact HJ.
  - match goal with |- JJ _ _ (with_hs ?s1 _) => assert (H1 : JJ hist G s1) by (apply JJ_send_pkt; assumption) end.
    apply JJ_with_hs; [exact H1 | apply SessD_same; reflexivity | apply UPres_same; reflexivity |].
    apply ActSubP_ar_insert. intros Hc. cbn [rc_pkt] in *. cbn [send emit outs]. rewrite app_assoc.
    apply InH_app. apply Hr. exact Hc.
Qed.

Lemma JP_send_response c s na rid rb : JP s (send_response c s na rid rb).
Proof.
  intros hist G HJ. unfold send_response.
  pose proof (JJ_sess_get hist G c s na HJ) as Hg. pose proof (sess_get_got c (hs s) na) as Hgot.
  destruct (sess_get c (hs s) na) as [h1 se]. cbn [fst snd] in Hg, Hgot.
  destruct se as [se |]; [| exact Hg].
  rewrite encrypt_message_eq. unfold JJ.
  eapply (JJ_encrypt_send hist G (with_hs s h1) h1 na se na (cfg_local c) _ _ _);
    [exact Hg | apply Hgot; reflexivity | reflexivity | reflexivity |].
  apply ActSubP_same. reflexivity.
Qed.

Lemma JP_fire_request c s n na now : JP s (fire_request c s n na now).
Proof.
  intros hist G HJ. unfold fire_request.
  assert (Hnm : forall nm, JJ hist G (with_hs s (set_active (hs s) (active (hs s)) nm))).
  { intros nm. apply JJ_with_hs_QH; [exact HJ | apply QH_set_active | apply ActSubP_same; reflexivity]. }
  destruct (alist_get na (active (hs s))) as [l |] eqn:Eg; [| apply Hnm].
  destruct (remove_first _ l) as [[r l'] |] eqn:Er; [| apply Hnm].
  destruct (remove_first_In _ _ _ _ Er) as [Hr Hl'].
  pose proof (J_B _ _ _ HJ na l r (alist_get_In _ _ _ Eg) Hr) as Hpk.
  apply JP_handle_request_timeout; [| exact Hpk].
  apply JJ_with_hs_QH; [exact HJ | apply QH_set_active |].
  intros na' l0 r' Hin Hr'. cbn [active set_active] in Hin. left.
  apply In_put_list in Hin. destruct Hin as [Hin | ->]; [eauto |].
  exists na, l. split; [apply alist_get_In; exact Eg | apply Hl'; exact Hr'].
Qed.

Lemma JP_fire_group c s g d ft : JP s (fire_group c s g d ft).
Proof.
  unfold fire_group. apply (fold_left_rel JP); [apply JP_refl | apply JP_trans |].
  intros a x. destruct (nmap_deadline (fst x) (nmap (hs a))) as [d' |]; [| apply JP_refl].
  destruct (N.eqb d' d); [apply JP_fire_request | apply JP_refl].
Qed.

Lemma JP_fire_due c now fuel s : JP s (fire_due c s now fuel).
Proof.
  apply fire_due_rel; [apply JP_refl | apply JP_trans | |].
  - intros s0 d. unfold fire_req_of.
    destruct (group_of d (nmap (hs s0))) as [| x [| y g]]; try apply JP_fire_group.
    destruct (pop_rev (dr s0)) as [rv d'].
    eapply JP_trans; [| apply JP_fire_group]. intros hist G HJ. exact HJ.
  - intros s0 na t. unfold fire_challenge. eapply JP_trans; [| apply JP_send_pending_requests].
    intros hist G HJ. apply JJ_remove_expected.
    apply JJ_with_hs; [exact HJ | apply SessD_same; reflexivity | apply UPres_same; reflexivity |
                       apply ActSubP_same; reflexivity].
Qed.

Lemma JP_send_challenge c s na n known now : JP s (send_challenge c s na n known now).
Proof.
  intros hist G HJ. unfold send_challenge. destruct (has_challenge (hs s) na); [exact HJ |].
  destruct (pop_pk (dr s)) as [[[[idn r] cd] e0] d'].
  match goal with |- JJ _ _ (with_hs ?s3 _) => assert (H3 : JJ hist G s3) end.
  { apply JJ_send_pkt; [| intros []]. apply JJ_add_expected. exact HJ. }
  apply JJ_with_hs; [exact H3 | apply SessD_same; reflexivity | apply UPres_same; reflexivity |
                     apply ActSubP_same; reflexivity].
Qed.

Lemma JP_handle_response c s na rid rb now : JP s (handle_response c s na rid rb now).
Proof.
  intros hist G HJ. unfold handle_response.
  pose proof (QH_ar_remove_request (hs s) na rid) as Hq.
  pose proof (ActSubP_ar_remove_request (hist ++ outs s) (hs s) na rid) as Ha.
  pose proof (ar_remove_request_found (hs s) na rid) as Hf.
  destruct (ar_remove_request (hs s) na rid) as [h1 found]. cbn [fst snd] in Hq, Ha, Hf.
  destruct found as [r |]; [| exact HJ].
  destruct (Hf r eq_refl) as [na0 [l0 [Hl Hr]]].
  pose proof (J_B _ _ _ HJ _ _ _ Hl Hr) as Hpk.
  assert (H1 : JJ hist G (with_hs s h1)) by (apply JJ_with_hs_QH; assumption).
  assert (Hre : forall rem,
            JJ hist G (emit (with_hs (with_hs s h1) (ar_insert c (hs (with_hs s h1)) na
              {| rc_contact := rc_contact r; rc_pkt := rc_pkt r; rc_ext := rc_ext r; rc_rid := rc_rid r;
                 rc_body := rc_body r; rc_hs_sent := rc_hs_sent r; rc_retries := rc_retries r;
                 rc_remaining := rem; rc_init := rc_init r |} now)) (OEvent (HResponse na rid rb)))).
  { intros rem. apply JJ_emit_event.
    apply JJ_with_hs; [exact H1 | apply SessD_same; reflexivity | apply UPres_same; reflexivity |].
    apply ActSubP_ar_insert. exact Hpk. }
  assert (Hfin : JJ hist G (emit (remove_expected (with_hs s h1) (snd na)) (OEvent (HResponse na rid rb)))).
  { apply JJ_emit_event. apply JJ_remove_expected. exact H1. }
  destruct rb as [total recs | tag]; [| exact Hfin].
  destruct (N.ltb 1 total); [| exact Hfin].
  destruct (rc_remaining r) as [rem |]; [| apply Hre].
  destruct (negb (N.eqb (rem - 1) 0)); [apply Hre | exact Hfin].
Qed.

Lemma JP_handle_message c s na n aad ct now : JP s (handle_message c s na n aad ct now).
Proof.
  intros hist G HJ. unfold handle_message.
  pose proof (JJ_sess_get hist G c s na HJ) as Hg. pose proof (sess_get_got c (hs s) na) as Hgot.
  destruct (sess_get c (hs s) na) as [h1 se]. cbn [fst snd] in Hg, Hgot.
  destruct se as [se |]; [| apply JJ_emit_event; exact Hg].
  pose proof (decrypt_message_desc se n aad ct) as Hd.
  destruct (decrypt_message se n aad ct) as [se' m]. cbn [fst] in Hd.
  set (s2 := with_hs (with_hs s h1) (sess_put (hs (with_hs s h1)) na se')).
  assert (H2 : JJ hist G s2).
  { apply JJ_with_hs_QH; [exact Hg | eapply QH_sess_put; [apply Hgot; reflexivity | exact Hd] |
                          apply ActSubP_same; reflexivity]. }
  assert (Hin2 : In (na, se') (sessions (hs s2))).
  { cbn [s2 hs with_hs sess_put sessions set_sessions]. apply alist_set_has. }
  destruct m as [[rid body | rid rb | j] |].
  - apply JJ_emit_event. exact H2.
  - assert (Hresp : JJ hist G (handle_response c s2 na rid rb now)) by (apply JP_handle_response; exact H2).
    destruct (s_await se') as [arid |]; [| exact Hresp].
    destruct (N.eqb rid arid); [| exact Hresp].
    set (se'' := {| s_enc := s_enc se'; s_dec := s_dec se'; s_old := s_old se'; s_await := None;
                    s_counter := s_counter se'; s_used := s_used se' |}).
    set (s3a := with_hs s2 (sess_put (hs s2) na se'')).
    assert (H3a : JJ hist G s3a).
    { apply JJ_with_hs_QH; [exact H2 | | apply ActSubP_same; reflexivity].
      eapply QH_sess_put; [exact Hin2 |]. split; [apply incl_refl | cbn; lia]. }
    set (s3 := if fix_d2b c then _ else s3a).
    assert (H3 : JJ hist G s3).
    { unfold s3. destruct (fix_d2b c); [| exact H3a].
      pose proof (QH_ar_remove_request (hs s3a) na rid) as Hq.
      pose proof (ActSubP_ar_remove_request (hist ++ outs s3a) (hs s3a) na rid) as Ha.
      destruct (ar_remove_request (hs s3a) na rid) as [h4 found]. cbn [fst] in Hq, Ha.
      destruct found; [| exact H3a]. apply JJ_remove_expected. apply JJ_with_hs_QH; assumption. }
    destruct rb as [total recs | tag]; [| apply JP_fail_session; exact H3].
    destruct (rev recs) as [| e recs']; [apply JP_fail_session; exact H3 |].
    destruct (verify_enr e na).
    + apply JJ_emit_event. exact H3.
    + apply JP_fail_session. apply JJ_emit_event. exact H3.
  - exact H2.
  - assert (H3 : JJ hist G (fail_session c s2 na ERR_INVALID_REMOTE_PACKET true)) by (apply JP_fail_session; exact H2).
    destruct (has_challenge _ na); [exact H3 | apply JJ_emit_event; exact H3].
Qed.
