(* C15, handler level: a session that has not been used for longer than the configured session
   timeout is never used again to encrypt or accept a message; the next exchange with that peer goes
   through a fresh handshake.

   1. sess_get (LruTimeCache::get_mut), the only access path to a stored session, never returns a
      stale entry: an entry that has expired is removed and nothing is found;
   2. consequences for send_request / send_response / handle_message and for the steps built on them;
   3. the cache stays ordered by the time of last use (front = least recently used) and no stamp lies
      in the future, along every run with non-decreasing step times;
   4. the cache never holds more than cfg_capacity sessions. *)
From Coq Require Import List Arith NArith Bool Lia.
From Discv5V Require Import Model.Handler Proofs.HandlerB_Base Proofs.HandlerB_Frame Proofs.HandlerB_Session
  Proofs.HandlerB_Auth Proofs.HandlerB_Step Proofs.HandlerB_Nonce Proofs.HandlerB_Trace Proofs.HandlerB_Trace2
  Proofs.HandlerB_Examples.
Import ListNotations.
Local Open Scope N_scope.

(* ------------------------------------------------------------------------------------------ *)
(* 1. sess_get never returns a stale session *)

Lemma sess_expired_false c se : sess_expired c se = false <-> cfg_clock c <= s_used se + cfg_session_ttl c.
Proof. unfold sess_expired. apply N.ltb_ge. Qed.
Lemma sess_expired_true c se : sess_expired c se = true <-> s_used se + cfg_session_ttl c < cfg_clock c.
Proof. unfold sess_expired. apply N.ltb_lt. Qed.

(* a session is handed out only if the stored entry had not expired; it is stamped with the current
   time and moved to the back *)
Theorem sess_get_never_stale c h na h' s :
  sess_get c h na = (h', Some s) ->
  exists s0, alist_get na (sessions h) = Some s0 /\
    cfg_clock c <= s_used s0 + cfg_session_ttl c /\
    s = touch s0 (cfg_clock c) /\ s_used s = cfg_clock c /\
    h' = set_sessions h (alist_remove na (sessions h) ++ [(na, s)]).
Proof.
  unfold sess_get. destruct (alist_get na (sessions h)) as [s0 |]; [| discriminate].
  destruct (sess_expired c s0) eqn:X; [discriminate |]. intros E; inversion E; subst.
  exists s0. split; [reflexivity | split; [apply sess_expired_false; exact X |]]. auto.
Qed.

(* an expired entry: nothing is found, the entry is removed *)
Theorem sess_get_expired_gone c h na s0 :
  alist_get na (sessions h) = Some s0 -> s_used s0 + cfg_session_ttl c < cfg_clock c ->
  sess_get c h na = (sess_remove h na, None) /\
  (SessUniq h -> alist_get na (sessions (sess_remove h na)) = None).
Proof.
  intros E X. apply sess_expired_true in X. split.
  - rewrite (sess_get_expired c h na s0 E X). reflexivity.
  - intros HU. cbn [sess_remove sessions set_sessions]. apply alist_get_remove_same. exact HU.
Qed.

(* whatever happens, what is found is fresh *)
Corollary sess_get_result_fresh c h na s :
  snd (sess_get c h na) = Some s -> s_used s = cfg_clock c /\ sess_expired c s = false.
Proof.
  intros H. destruct (sess_get_stored c h na s H) as [s0 [_ [_ E]]]. subst s. split; [reflexivity |].
  apply sess_expired_false. cbn [touch s_used]. lia.
Qed.

(* ------------------------------------------------------------------------------------------ *)
(* 2. the functions that use a session, when the stored session has expired *)

(* a response to a peer whose session has expired is dropped, the session is removed *)
Theorem send_response_expired c s na rid rb s0 :
  alist_get na (sessions (hs s)) = Some s0 -> sess_expired c s0 = true ->
  send_response c s na rid rb = with_hs s (sess_remove (hs s) na).
Proof.
  intros E X. unfold send_response. rewrite (sess_get_expired c (hs s) na s0 E X). reflexivity.
Qed.

(* a message packet from a peer whose session has expired is not even tried: the session is removed
   and the service is asked for a WHOAREYOU (fresh handshake); no request or response is delivered *)
Theorem handle_message_expired c s na n aad ct now s0 :
  alist_get na (sessions (hs s)) = Some s0 -> sess_expired c s0 = true ->
  handle_message c s na n aad ct now =
  emit (with_hs s (sess_remove (hs s) na)) (OEvent (HWhoAreYou na n)).
Proof.
  intros E X. unfold handle_message. rewrite (sess_get_expired c (hs s) na s0 E X). reflexivity.
Qed.

(* a request to a peer whose session has expired: nothing is encrypted under the old keys - the
   request is queued (a handshake with the peer is in progress) or goes out as a random packet, which
   starts a fresh handshake; once the cache has been consulted the expired session is gone *)
Theorem send_request_expired c s ct ext rid body now s0 :
  let na := c_naddr ct in
  let s' := fst (send_request c s ct ext rid body now) in
  SessUniq (hs s) ->
  alist_get na (sessions (hs s)) = Some s0 -> sess_expired c s0 = true ->
  (outs s' = outs s \/
   exists n aad, outs s' = outs s ++ [OWire na (PMsg (cfg_local c) n aad (CJunk aad))]) /\
  (existsb (N.eqb (c_addr ct)) (cfg_listen c) = false -> has_challenge (hs s) na = false ->
   alist_get na (sessions (hs s')) = None).
Proof.
  cbn zeta. intros HU E X. unfold send_request.
  destruct (existsb (N.eqb (c_addr ct)) (cfg_listen c)); [split; [left; reflexivity | discriminate] |].
  set (na := c_naddr ct) in *.
  destruct (has_challenge (hs s) na).
  { cbn [fst]. split; [left; reflexivity | discriminate]. }
  unfold is_awaiting_session. rewrite (sess_get_expired c (hs s) na s0 E X).
  set (h1 := set_sessions (hs s) (alist_remove na (sessions (hs s)))).
  assert (Hgone : alist_get na (sessions h1) = None) by (apply alist_get_remove_same; exact HU).
  destruct (match alist_get na (active h1) with Some l => existsb rc_init l | None => false end).
  - cbn [fst]. split; [left; reflexivity |]. intros _ _. cbn [hs with_hs].
    rewrite sessions_push_pending. exact Hgone.
  - cbn [hs with_hs]. rewrite (sess_get_none c h1 na Hgone).
    destruct (pop_pk _) as [[[[cn r] aad] e0] d']. cbn [fst]. split.
    + right. exists (cn, r), aad. reflexivity.
    + intros _ _. exact Hgone.
Qed.

(* the same for whole steps; [tick c h now d] is the state after the implicit tick, the clock of the
   handler call is the time of the step *)

(* an inbound message packet: no decryption is attempted, nothing is delivered, the service is asked to
   challenge the sender; the session is removed *)
Theorem step_message_expired c h from src n aad ct now d s0 :
  alist_get (src, from) (sessions (hs (tick c h now d))) = Some s0 ->
  s_used s0 + cfg_session_ttl c < now ->
  step c h (EvInbound from (PMsg src n aad ct)) now d =
  (sess_remove (hs (tick c h now d)) (src, from),
   outs (tick c h now d) ++ [OEvent (HWhoAreYou (src, from) n)]).
Proof.
  rewrite step_PMsg. generalize (tick c h now d). intros T E X.
  rewrite (handle_message_expired (with_clock c now) T (src, from) n aad ct now s0 E);
    [reflexivity | apply sess_expired_true; exact X].
Qed.

Corollary step_message_expired_delivers_nothing c h from src n aad ct now d s0 o :
  alist_get (src, from) (sessions (hs (tick c h now d))) = Some s0 ->
  s_used s0 + cfg_session_ttl c < now ->
  In o (snd (step c h (EvInbound from (PMsg src n aad ct)) now d)) ->
  ~ attributing o /\
  (SessUniq h -> alist_get (src, from) (sessions (fst (step c h (EvInbound from (PMsg src n aad ct)) now d))) = None).
Proof.
  intros E X. rewrite (step_message_expired c h from src n aad ct now d s0 E X). cbn [fst snd].
  pose proof (tick_outs c h now d) as F. pose proof (tick_UPres c h now d) as U.
  revert F U. clear E. generalize (tick c h now d). intros T F U Hin. split.
  - apply in_app_or in Hin. destruct Hin as [Hin | [Hin | []]].
    + rewrite Forall_forall in F. intros Ha. exact (quiet_not_attributing _ (F _ Hin) Ha).
    + subst o. intros [].
  - intros HU. cbn [sess_remove sessions set_sessions]. apply alist_get_remove_same. apply U. exact HU.
Qed.

(* a response of the application: dropped *)
Theorem step_response_expired c h na rid rb now d s0 :
  alist_get na (sessions (hs (tick c h now d))) = Some s0 ->
  s_used s0 + cfg_session_ttl c < now ->
  step c h (EvResponse na rid rb) now d = (sess_remove (hs (tick c h now d)) na, outs (tick c h now d)).
Proof.
  rewrite step_eq. cbn [dispatch]. generalize (tick c h now d). intros T E X.
  rewrite (send_response_expired (with_clock c now) T na rid rb s0 E);
    [reflexivity | apply sess_expired_true; exact X].
Qed.

(* a request of the application: queued or sent as a random packet (fresh handshake) *)
Theorem step_request_expired c h ct rid body now d s0 :
  let na := c_naddr ct in
  let s0' := tick c h now d in
  SessUniq h ->
  alist_get na (sessions (hs s0')) = Some s0 -> s_used s0 + cfg_session_ttl c < now ->
  existsb (N.eqb (c_addr ct)) (cfg_listen c) = false ->
  let res := step c h (EvRequest ct rid body) now d in
  (snd res = outs s0' \/
   exists n aad, snd res = outs s0' ++ [OWire na (PMsg (cfg_local c) n aad (CJunk aad))]) /\
  (has_challenge (hs s0') na = false -> alist_get na (sessions (fst res)) = None).
Proof.
  cbn zeta. intros HU. rewrite step_eq. cbn [dispatch fst snd].
  assert (HU0 : SessUniq (hs (tick c h now d))) by (apply tick_UPres; exact HU).
  revert HU0. generalize (tick c h now d). intros T HU0 E X Hl.
  pose proof (send_request_expired (with_clock c now) T ct true rid body now s0 HU0 E) as H.
  cbn zeta in H. specialize (H (proj2 (sess_expired_true (with_clock c now) s0) X)).
  assert (Hok : snd (send_request (with_clock c now) T ct true rid body now) = true).
  { unfold send_request. cbn [cfg_listen with_clock]. rewrite Hl.
    destruct (if has_challenge _ _ then _ else _) as [s1 aw]. destruct aw; [reflexivity |].
    destruct (sess_get _ _ _) as [h2 se]. destruct se as [se |].
    - destruct (encrypt_message _ _ _ _ _) as [[s3 se'] p]. reflexivity.
    - destruct (pop_pk _) as [[[[cn r] aad] e0] d']. reflexivity. }
  destruct (send_request (with_clock c now) T ct true rid body now) as [s1 ok].
  cbn [fst snd] in H, Hok. subst ok. destruct H as [H1 H2]. split; [exact H1 |].
  intros Hc. apply H2; [exact Hl | exact Hc].
Qed.

(* ------------------------------------------------------------------------------------------ *)
(* the session cache as a list: every handler function changes it by a sequence of the primitive
   operations of LruTimeCache *)

Inductive sop (c : config) : list (naddr * session) -> list (naddr * session) -> Prop :=
| sop_refl l : sop c l l
| sop_trans l1 l2 l3 : sop c l1 l2 -> sop c l2 l3 -> sop c l1 l3
  (* get_mut of a live entry: stamped, moved to the back *)
| sop_touch l na s0 :
    alist_get na l = Some s0 -> sess_expired c s0 = false ->
    sop c l (alist_remove na l ++ [(na, touch s0 (cfg_clock c))])
  (* get_mut of an expired entry; remove *)
| sop_remove l na : sop c l (alist_remove na l)
  (* write through the reference obtained by get_mut: position and stamp unchanged *)
| sop_put l na v v0 : alist_get na l = Some v0 -> s_used v = s_used v0 -> sop c l (alist_set na v l)
  (* insert *)
| sop_insert l na se :
    sop c l (let l' := alist_remove na l ++ [(na, touch se (cfg_clock c))] in
             if Nat.ltb (cfg_capacity c) (length l') then tl l' else l')
  (* remove_expired_values *)
| sop_drop l : sop c l (snd (drop_expired c l)).

Lemma sop_NoDup c l l' : sop c l l' -> NoDup (map fst l) -> NoDup (map fst l').
Proof.
  induction 1 as [l | l1 l2 l3 _ IH1 _ IH2 | l na s0 E X | l na | l na v v0 E Hu | l na se | l]; intros HN.
  - exact HN.
  - auto.
  - apply to_back_NoDup. exact HN.
  - apply alist_remove_NoDup. exact HN.
  - rewrite alist_set_keys; [exact HN |]. apply in_map_iff. exists (na, v0). split; [reflexivity |].
    apply alist_get_In. exact E.
  - cbn zeta. pose proof (to_back_NoDup na (touch se (cfg_clock c)) _ HN) as H.
    destruct (Nat.ltb _ _); [| exact H]. rewrite map_tl'. apply NoDup_tl. exact H.
  - apply drop_expired_NoDup. exact HN.
Qed.

(* states: [SO c h h'] - in states with at most one session per address *)
Definition SO (c : config) (h h' : hstate) : Prop := SessUniq h -> sop c (sessions h) (sessions h').
Definition SOs (c : config) (s s' : st) : Prop := SO c (hs s) (hs s').

Lemma SO_uniq c h h' : SO c h h' -> SessUniq h -> SessUniq h'.
Proof. intros H HU. exact (sop_NoDup c _ _ (H HU) HU). Qed.
Lemma SO_refl c h : SO c h h.
Proof. intros _. apply sop_refl. Qed.
Lemma SO_trans c a b d : SO c a b -> SO c b d -> SO c a d.
Proof. intros H1 H2 HU. eapply sop_trans; [exact (H1 HU) | apply H2; eapply SO_uniq; eauto]. Qed.
Lemma SO_same c h h' : sessions h' = sessions h -> SO c h h'.
Proof. intros E _. rewrite E. apply sop_refl. Qed.
(* only the session lists matter *)
Lemma SO_ext c a a' b b' : sessions a' = sessions a -> sessions b' = sessions b -> SO c a b -> SO c a' b'.
Proof. unfold SO, SessUniq. intros -> ->. auto. Qed.

Lemma SOs_refl c s : SOs c s s. Proof. apply SO_refl. Qed.
Lemma SOs_trans c a b d : SOs c a b -> SOs c b d -> SOs c a d. Proof. apply SO_trans. Qed.
Lemma SOs_same c s s' : sessions (hs s') = sessions (hs s) -> SOs c s s'. Proof. apply SO_same. Qed.

Lemma SO_sess_get c h na : SO c h (fst (sess_get c h na)).
Proof.
  intros _. unfold sess_get. destruct (alist_get na (sessions h)) as [s0 |] eqn:E; [| apply sop_refl].
  destruct (sess_expired c s0) eqn:X; cbn [fst sessions set_sessions].
  - apply sop_remove.
  - apply sop_touch; assumption.
Qed.
Lemma SO_sess_put c h na se v : In (na, se) (sessions h) -> s_used v = s_used se -> SO c h (sess_put h na v).
Proof.
  intros Hin Hu HU. cbn [sess_put sessions set_sessions].
  eapply sop_put; [apply alist_In_uniq; [exact HU | exact Hin] | exact Hu].
Qed.
Lemma SO_sess_insert c h na se : SO c h (sess_insert c h na se).
Proof. intros _. cbn [sess_insert sessions set_sessions]. apply sop_insert. Qed.
Lemma SO_sess_remove c h na : SO c h (sess_remove h na).
Proof. intros _. cbn [sess_remove sessions set_sessions]. apply sop_remove. Qed.
Lemma SOs_remove_expired c s : SOs c s (remove_expired_sessions c s).
Proof.
  intros _. destruct (remove_expired_sessions_hs c s) as [E | E]; rewrite E; [apply sop_refl |].
  cbn [sessions set_sessions]. apply sop_drop.
Qed.

Lemma SOs_is_awaiting c s na : SOs c s (fst (is_awaiting_session c s na)).
Proof.
  unfold is_awaiting_session. pose proof (SO_sess_get c (hs s) na) as H.
  destruct (sess_get c (hs s) na) as [h se]. cbn [fst] in H. destruct se; exact H.
Qed.

Lemma bump_used se : s_used (bump se) = s_used se.
Proof. reflexivity. Qed.

Lemma SOs_send_request c s ct ext rid body now : SOs c s (fst (send_request c s ct ext rid body now)).
Proof.
  unfold send_request.
  destruct (existsb (N.eqb (c_addr ct)) (cfg_listen c)); [apply SOs_refl |].
  set (na := c_naddr ct).
  assert (Ha : SOs c s (fst (if has_challenge (hs s) na then (s, true) else is_awaiting_session c s na))).
  { destruct (has_challenge (hs s) na); [apply SOs_refl | apply SOs_is_awaiting]. }
  destruct (if has_challenge (hs s) na then (s, true) else is_awaiting_session c s na) as [s1 awaiting].
  cbn [fst] in Ha. destruct awaiting; cbn [fst].
  - eapply SOs_trans; [exact Ha |]. apply SOs_same. cbn [hs with_hs]. apply sessions_push_pending.
  - pose proof (SO_sess_get c (hs s1) na) as Hg. pose proof (sess_get_got c (hs s1) na) as Hgot.
    destruct (sess_get c (hs s1) na) as [h2 se]. cbn [fst snd] in Hg, Hgot.
    eapply SOs_trans; [exact Ha |]. unfold SOs. eapply SO_trans; [exact Hg |].
    destruct se as [se |].
    + rewrite encrypt_message_eq. cbn [fst].
      apply (SO_ext c h2 h2 (sess_put h2 na (bump se))); [reflexivity | reflexivity |].
      eapply SO_sess_put; [apply Hgot; reflexivity | apply bump_used].
    + destruct (pop_pk (dr (with_hs s1 h2))) as [[[[cn r] aad] e0] d'] eqn:Ep.
      apply SO_same. reflexivity.
Qed.

Lemma SOs_send_pending_requests c s na now : SOs c s (send_pending_requests c s na now).
Proof.
  unfold send_pending_requests. destruct (alist_get na (pending (hs s))) as [l |]; [| apply SOs_refl].
  apply (SOs_trans c _ (with_hs s (set_pending (hs s) (alist_remove na (pending (hs s))))));
    [apply SOs_same; reflexivity |].
  apply (fold_left_rel (SOs c)); [apply SOs_refl | apply SOs_trans |].
  intros a q. pose proof (SOs_send_request c a (pq_contact q) (pq_ext q) (pq_rid q) (pq_body q) now) as H.
  destruct (send_request c a (pq_contact q) (pq_ext q) (pq_rid q) (pq_body q) now) as [s' ok].
  cbn [fst] in H. destruct ok; [exact H |]. destruct (pq_ext q); exact H.
Qed.

(* fail_session: the purge and the removal, nothing else *)
Lemma fail_session_sessions c s na err rm :
  sessions (hs (fail_session c s na err rm)) =
  if rm then alist_remove na (sessions (hs (remove_expired_sessions c s))) else sessions (hs s).
Proof.
  unfold fail_session.
  set (s1 := if rm then with_hs (remove_expired_sessions c s) (sess_remove (hs (remove_expired_sessions c s)) na) else s).
  assert (E1 : sessions (hs s1) =
               if rm then alist_remove na (sessions (hs (remove_expired_sessions c s))) else sessions (hs s))
    by (unfold s1; destruct rm; reflexivity).
  rewrite <- E1. clearbody s1.
  set (s2 := match alist_get na (pending (hs s1)) with Some l => _ | None => s1 end).
  assert (H2 : sessions (hs s2) = sessions (hs s1)).
  { unfold s2. destruct (alist_get na (pending (hs s1))) as [l |]; [| reflexivity].
    set (s1' := with_hs s1 _). change (sessions (hs s1)) with (sessions (hs s1')).
    apply (fold_left_rel (fun a b : st => sessions (hs b) = sessions (hs a))); [reflexivity | congruence |].
    intros a q. destruct (pq_ext q); reflexivity. }
  pose proof (sessions_ar_remove_requests (hs s2) na) as H3.
  destruct (ar_remove_requests (hs s2) na) as [h3 reqs]. cbn [fst] in H3.
  rewrite <- H2, <- H3. change (sessions h3) with (sessions (hs (with_hs s2 h3))).
  apply (fold_left_rel (fun a b : st => sessions (hs b) = sessions (hs a))); [reflexivity | congruence |].
  intros a r. destruct (rc_ext r); reflexivity.
Qed.

Lemma SOs_fail_session c s na err rm : SOs c s (fail_session c s na err rm).
Proof.
  destruct rm.
  - eapply SOs_trans; [apply (SOs_remove_expired c s) |].
    eapply (SO_ext c _ _ (sess_remove (hs (remove_expired_sessions c s)) na));
      [reflexivity | | apply SO_sess_remove].
    rewrite fail_session_sessions. reflexivity.
  - apply SOs_same. rewrite fail_session_sessions. reflexivity.
Qed.
Lemma SOs_fail_request c s r err rm : SOs c s (fail_request c s r err rm).
Proof.
  unfold fail_request. eapply SOs_trans; [| apply SOs_fail_session].
  destruct (rc_ext r); apply SOs_same; reflexivity.
Qed.

(* replay_active_requests *)
Lemma replay_fold_used c na reqs : forall s se pk,
  let g := (fun (acc : st * session * list (nonce * packet)) r =>
        let '(s, se, pk) := acc in
        let '(s', se', p) := encrypt_message c s na se (MReq (rc_rid r) (rc_body r)) in
        (s', se', pk ++ [(rc_nonce r, p)])) in
  s_used (snd (fst (fold_left g reqs (s, se, pk)))) = s_used se.
Proof.
  induction reqs as [| r reqs IH]; intros s se pk; cbn zeta; cbn [fold_left]; [reflexivity |].
  rewrite encrypt_message_eq. cbn zeta in IH. rewrite IH. reflexivity.
Qed.

Lemma SOs_replay c s na skip now : SOs c s (replay_active_requests c s na skip now).
Proof.
  unfold replay_active_requests.
  pose proof (SO_sess_get c (hs s) na) as Hg. pose proof (sess_get_got c (hs s) na) as Hgot.
  destruct (sess_get c (hs s) na) as [h1 se]. cbn [fst snd] in Hg, Hgot.
  destruct se as [se0 |]; [| exact Hg].
  set (reqs := filter _ _).
  pose proof (replay_fold c na reqs (with_hs s h1) se0 []) as Hf. cbn zeta in Hf.
  pose proof (replay_fold_used c na reqs (with_hs s h1) se0 []) as Hu. cbn zeta in Hu.
  destruct (fold_left _ reqs (with_hs s h1, se0, [])) as [[s2 se2] pkts]. cbn [fst snd] in Hf, Hu.
  destruct Hf as [E1 [E2 E3]]. cbn [hs with_hs outs] in E1, E2.
  pose proof (replay_fold2 c na now pkts (with_hs s2 (sess_put (hs s2) na se2))) as Hf2. cbn zeta in Hf2.
  destruct Hf2 as [_ [S2 _]]. cbn [hs with_hs] in S2.
  unfold SOs. eapply SO_trans; [exact Hg |].
  eapply (SO_ext c h1 h1 (sess_put h1 na se2)); [reflexivity | rewrite S2, E1; reflexivity |].
  eapply SO_sess_put; [apply Hgot; reflexivity | exact Hu].
Qed.

Lemma SOs_new_session c s na se skip now : SOs c s (new_session c s na se skip now).
Proof.
  unfold new_session. eapply SOs_trans; [apply (SOs_remove_expired c s) |].
  generalize (remove_expired_sessions c s). clear s. intros s.
  pose proof (SO_sess_get c (hs s) na) as Hg. pose proof (sess_get_got c (hs s) na) as Hgot.
  destruct (sess_get c (hs s) na) as [h1 cur]. cbn [fst snd] in Hg, Hgot.
  destruct cur as [cs |].
  - set (cs' := {| s_enc := s_enc se; s_dec := s_dec se; s_old := Some (s_enc cs, s_dec cs);
                   s_await := s_await se; s_counter := s_counter cs; s_used := s_used cs |}).
    assert (H1 : SOs c s (with_hs s (sess_put h1 na cs'))).
    { unfold SOs. cbn [hs with_hs]. eapply SO_trans; [exact Hg |].
      eapply SO_sess_put; [apply Hgot; reflexivity | reflexivity]. }
    eapply SOs_trans; [exact H1 |]. destruct (fix_d2a c).
    + eapply SOs_trans; [apply SOs_replay | apply SOs_send_pending_requests].
    + apply SOs_replay.
  - eapply SOs_trans; [| apply SOs_send_pending_requests].
    unfold SOs. cbn [hs with_hs]. eapply SO_trans; [exact Hg | apply SO_sess_insert].
Qed.

Lemma SOs_handle_request_timeout c s na r now : SOs c s (handle_request_timeout c s na r now).
Proof.
  unfold handle_request_timeout. destruct (N.leb (cfg_retries c) (rc_retries r)).
  - eapply SOs_trans; [| apply SOs_fail_request]. apply SOs_same. reflexivity.
  - apply SOs_same. reflexivity.
Qed.

Lemma SOs_send_response c s na rid rb : SOs c s (send_response c s na rid rb).
Proof.
  unfold send_response.
  pose proof (SO_sess_get c (hs s) na) as Hg. pose proof (sess_get_got c (hs s) na) as Hgot.
  destruct (sess_get c (hs s) na) as [h1 se]. cbn [fst snd] in Hg, Hgot.
  destruct se as [se |]; [| exact Hg].
  rewrite encrypt_message_eq. unfold SOs. eapply SO_trans; [exact Hg |].
  apply (SO_ext c h1 h1 (sess_put h1 na (bump se))); [reflexivity | reflexivity |].
  eapply SO_sess_put; [apply Hgot; reflexivity | apply bump_used].
Qed.

Lemma SOs_send_challenge c s na n known now : SOs c s (send_challenge c s na n known now).
Proof. apply SOs_same. apply (send_challenge_frame c s na n known now). Qed.

Lemma SOs_handle_response c s na rid rb now : SOs c s (handle_response c s na rid rb now).
Proof. apply SOs_same. apply (handle_response_frame c s na rid rb now). Qed.

Lemma decrypt_message_used se n aad ct : s_used (fst (decrypt_message se n aad ct)) = s_used se.
Proof.
  unfold decrypt_message. destruct (decrypt (s_dec se) n aad ct); [reflexivity |].
  destruct (s_old se) as [[oe od] |]; [| reflexivity]. destruct (decrypt od n aad ct); reflexivity.
Qed.

Lemma sessions_ar_remove_request h na rid : sessions (fst (ar_remove_request h na rid)) = sessions h.
Proof.
  unfold ar_remove_request. destruct (alist_get na (active h)); [| reflexivity].
  destruct (remove_first _ l) as [[r l'] |]; reflexivity.
Qed.

Lemma SOs_handle_message c s na n aad ct now : SOs c s (handle_message c s na n aad ct now).
Proof.
  unfold handle_message.
  pose proof (SO_sess_get c (hs s) na) as Hg. pose proof (sess_get_got c (hs s) na) as Hgot.
  destruct (sess_get c (hs s) na) as [h1 se]. cbn [fst snd] in Hg, Hgot.
  destruct se as [se |]; [| exact Hg].
  pose proof (decrypt_message_used se n aad ct) as Hd.
  destruct (decrypt_message se n aad ct) as [se' m]. cbn [fst] in Hd.
  set (s2 := with_hs (with_hs s h1) (sess_put (hs (with_hs s h1)) na se')).
  assert (H2 : SOs c s s2).
  { unfold SOs, s2. cbn [hs with_hs]. eapply SO_trans; [exact Hg |].
    eapply SO_sess_put; [apply Hgot; reflexivity | exact Hd]. }
  assert (Hin2 : In (na, se') (sessions (hs s2))).
  { cbn [s2 hs with_hs sess_put sessions set_sessions]. apply alist_set_has. }
  destruct m as [[rid body | rid rb | j] |].
  - eapply SOs_trans; [exact H2 | apply SOs_same; reflexivity].
  - assert (Hresp : SOs c s (handle_response c s2 na rid rb now))
      by (eapply SOs_trans; [exact H2 | apply SOs_handle_response]).
    destruct (s_await se') as [arid |]; [| exact Hresp].
    destruct (N.eqb rid arid); [| exact Hresp].
    set (se'' := {| s_enc := s_enc se'; s_dec := s_dec se'; s_old := s_old se'; s_await := None;
                    s_counter := s_counter se'; s_used := s_used se' |}).
    set (s3a := with_hs s2 (sess_put (hs s2) na se'')).
    assert (H3a : SOs c s s3a).
    { eapply SOs_trans; [exact H2 |]. unfold SOs, s3a. cbn [hs with_hs].
      eapply SO_sess_put; [exact Hin2 | reflexivity]. }
    set (s3 := if fix_d2b c then _ else s3a).
    assert (H3 : SOs c s s3).
    { unfold s3. destruct (fix_d2b c); [| exact H3a].
      pose proof (sessions_ar_remove_request (hs s3a) na rid) as Hr.
      destruct (ar_remove_request (hs s3a) na rid) as [h4 found]. cbn [fst] in Hr.
      destruct found; [| exact H3a].
      eapply SOs_trans; [exact H3a |]. apply SOs_same. cbn [hs remove_expected with_hs sessions]. exact Hr. }
    assert (Hfail : forall x err, SOs c s x -> SOs c s (fail_session c x na err true)).
    { intros x err Hx. eapply SOs_trans; [exact Hx | apply SOs_fail_session]. }
    destruct rb as [total recs | tag]; [| apply Hfail; exact H3].
    destruct (rev recs) as [| e recs']; [apply Hfail; exact H3 |].
    destruct (verify_enr e na).
    + eapply SOs_trans; [exact H3 | apply SOs_same; reflexivity].
    + apply Hfail. eapply SOs_trans; [exact H3 | apply SOs_same; reflexivity].
  - exact H2.
  - assert (H3 : SOs c s (fail_session c s2 na ERR_INVALID_REMOTE_PACKET true))
      by (eapply SOs_trans; [exact H2 | apply SOs_fail_session]).
    destruct (has_challenge _ na); [exact H3 |].
    eapply SOs_trans; [exact H3 | apply SOs_same; reflexivity].
Qed.

Lemma SOs_handle_auth_message c s na n aad sg eph eph_ok rec ct now :
  SOs c s (handle_auth_message c s na n aad sg eph eph_ok rec ct now).
Proof.
  unfold handle_auth_message.
  destruct (chall_get na (challenges (hs s))) as [ch |]; [| apply SOs_refl].
  set (s1 := with_hs s (set_challenges (hs s) (chall_remove na (challenges (hs s))))).
  assert (H1 : SOs c s s1) by (apply SOs_same; reflexivity).
  destruct (establish c (fst na) ch sg eph eph_ok rec) as [se e | |].
  - eapply SOs_trans; [| apply SOs_handle_message].
    eapply SOs_trans; [| apply SOs_new_session].
    eapply SOs_trans; [exact H1 |]. destruct (verify_enr e na); apply SOs_same; reflexivity.
  - apply SOs_same. reflexivity.
  - eapply SOs_trans; [| apply SOs_fail_session].
    eapply SOs_trans; [exact H1 |]. destruct (fix_d6 c); apply SOs_same; reflexivity.
Qed.

Lemma sessions_ar_remove_by_nonce h n : sessions (fst (ar_remove_by_nonce h n)) = sessions h.
Proof.
  unfold ar_remove_by_nonce. destruct (nmap_get n (nmap h)); [| reflexivity].
  destruct (alist_get n0 (active h)); [| reflexivity].
  destruct (remove_first _ l) as [[r l'] |]; reflexivity.
Qed.

Lemma SOs_handle_challenge c s src n seq cd now : SOs c s (handle_challenge c s src n seq cd now).
Proof.
  unfold handle_challenge.
  destruct (nmap_get n (nmap (hs s))) as [na0 |]; [| apply SOs_refl].
  pose proof (sessions_ar_remove_by_nonce (hs s) n) as Sr.
  destruct (ar_remove_by_nonce (hs s) n) as [h1 found]. cbn [fst] in Sr.
  assert (H1 : SOs c s (with_hs s h1)) by (apply SOs_same; exact Sr).
  destruct found as [[na r] |]; [| exact H1].
  destruct (negb (N.eqb (snd na) src)).
  { apply SOs_same. cbn [hs with_hs ar_insert set_active sessions]. exact Sr. }
  destruct (rc_hs_sent r || c_ed (rc_contact r)).
  { eapply SOs_trans; [| apply SOs_fail_request].
    eapply SOs_trans; [exact H1 |]. destruct (fix_d6 c); apply SOs_same; reflexivity. }
  set (ct := rc_contact r).
  destruct (pop_pk (dr (with_hs s h1))) as [[[[cn rr] aad] eph] d'].
  destruct (c_enr ct) as [e |].
  - eapply SOs_trans; [| apply SOs_new_session].
    eapply SOs_trans; [exact H1 |]. apply SOs_same. reflexivity.
  - destruct (pop_rid _) as [irid d''].
    match goal with |- context [send_request c ?s5 ct false irid 0 now] =>
      pose proof (SOs_send_request c s5 ct false irid 0 now) as H6;
      assert (H5 : SOs c s s5) by (eapply SOs_trans; [exact H1 |]; apply SOs_same; reflexivity);
      destruct (send_request c s5 ct false irid 0 now) as [s6 ok]
    end.
    cbn [fst] in H6. eapply SOs_trans; [| apply SOs_new_session].
    eapply SOs_trans; [exact H5 | exact H6].
Qed.

Lemma SOs_fire_request c s n na now : SOs c s (fire_request c s n na now).
Proof.
  unfold fire_request. destruct (alist_get na (active (hs s))) as [l |].
  - destruct (remove_first _ l) as [[r l'] |].
    + eapply SOs_trans; [| apply SOs_handle_request_timeout]. apply SOs_same. reflexivity.
    + apply SOs_same. reflexivity.
  - apply SOs_same. reflexivity.
Qed.
Lemma SOs_fire_group c s g d ft : SOs c s (fire_group c s g d ft).
Proof.
  unfold fire_group. apply (fold_left_rel (SOs c)); [apply SOs_refl | apply SOs_trans |].
  intros a x. destruct (nmap_deadline (fst x) (nmap (hs a))) as [d' |]; [| apply SOs_refl].
  destruct (N.eqb d' d); [apply SOs_fire_request | apply SOs_refl].
Qed.
Lemma SOs_fire_challenge c s na now : SOs c s (fire_challenge c s na now).
Proof.
  unfold fire_challenge. eapply SOs_trans; [| apply SOs_send_pending_requests]. apply SOs_same. reflexivity.
Qed.

Lemma SOs_dispatch c s0 e now : SOs c s0 (dispatch c s0 e now).
Proof.
  destruct e as [ct rid body | na rid rb | na n known | from p |]; cbn [dispatch].
  - pose proof (SOs_send_request c s0 ct true rid body now) as H.
    destruct (send_request c s0 ct true rid body now) as [s1 ok]. cbn [fst] in H. destruct ok; exact H.
  - apply SOs_send_response.
  - apply SOs_send_challenge.
  - destruct p as [src n aad ct | n idn seq cd | src n aad sg eph eph_ok rec ct].
    + apply SOs_handle_message.
    + apply SOs_handle_challenge.
    + apply SOs_handle_auth_message.
  - apply SOs_refl.
Qed.

(* ------------------------------------------------------------------------------------------ *)
(* 4. capacity: the cache never grows beyond cfg_capacity *)

Lemma alist_remove_length {A} (k : naddr) (l : list (naddr * A)) : (length (alist_remove k l) <= length l)%nat.
Proof.
  induction l as [| [k' v'] r IH]; cbn [alist_remove length]; [lia |].
  destruct (naddr_eqb k k'); cbn [length]; lia.
Qed.
Lemma alist_remove_length_some {A} (k : naddr) (l : list (naddr * A)) v :
  alist_get k l = Some v -> S (length (alist_remove k l)) = length l.
Proof.
  induction l as [| [k' v'] r IH]; cbn [alist_get alist_remove length]; [discriminate |].
  destruct (naddr_eqb k k'); [reflexivity |]. intros E. cbn [length]. rewrite (IH E). reflexivity.
Qed.
Lemma alist_set_length {A} (k : naddr) (l : list (naddr * A)) v v0 :
  alist_get k l = Some v0 -> length (alist_set k v l) = length l.
Proof.
  induction l as [| [k' v'] r IH]; cbn [alist_get alist_set length]; [discriminate |].
  destruct (naddr_eqb k k'); [reflexivity |]. intros E. cbn [length]. rewrite (IH E). reflexivity.
Qed.

Lemma sop_length c l l' : sop c l l' -> (length l' <= Nat.max (length l) (cfg_capacity c))%nat.
Proof.
  induction 1 as [l | l1 l2 l3 _ IH1 _ IH2 | l na s0 E X | l na | l na v v0 E Hu | l na se | l].
  - lia.
  - lia.
  - rewrite app_length. cbn [length]. pose proof (alist_remove_length_some na l s0 E). lia.
  - pose proof (alist_remove_length na l). lia.
  - rewrite (alist_set_length na l v v0 E). lia.
  - cbn zeta. set (l' := alist_remove na l ++ _).
    assert (Hl : (length l' <= S (length l))%nat).
    { unfold l'. rewrite app_length. cbn [length]. pose proof (alist_remove_length na l). lia. }
    destruct (Nat.ltb (cfg_capacity c) (length l')) eqn:Eb.
    + destruct l' as [| x r]; cbn [tl length] in *; lia.
    + apply Nat.ltb_ge in Eb. lia.
  - destruct (drop_expired_split c l) as [pre [E _]]. rewrite E at 2. rewrite app_length. lia.
Qed.

(* the relation carried through the implicit tick (whose timers run under other clocks) *)
Definition CapR (cap : nat) (s s' : st) : Prop :=
  SessUniq (hs s) ->
  SessUniq (hs s') /\ (length (sessions (hs s')) <= Nat.max (length (sessions (hs s))) cap)%nat.
Lemma CapR_refl cap s : CapR cap s s.
Proof. intros HU. split; [exact HU | lia]. Qed.
Lemma CapR_trans cap a b d : CapR cap a b -> CapR cap b d -> CapR cap a d.
Proof. intros H1 H2 HU. destruct (H1 HU) as [U1 L1]. destruct (H2 U1) as [U2 L2]. split; [exact U2 | lia]. Qed.
Lemma SOs_CapR c s s' : SOs c s s' -> CapR (cfg_capacity c) s s'.
Proof. intros H HU. split; [eapply SO_uniq; eauto | apply (sop_length c); apply H; exact HU]. Qed.

Lemma CapR_fire_due c now fuel s : CapR (cfg_capacity c) s (fire_due c s now fuel).
Proof.
  apply fire_due_rel; [apply CapR_refl | apply CapR_trans | |].
  - intros s0 d. unfold fire_req_of.
    destruct (group_of d (nmap (hs s0))) as [| x [| y g]];
      try (apply (SOs_CapR (with_clock c (fire_time c d now))); apply SOs_fire_group).
    destruct (pop_rev (dr s0)) as [rv d'].
    apply (CapR_trans _ _ {| hs := hs s0; dr := d'; outs := outs s0 |});
      [| apply (SOs_CapR (with_clock c (fire_time c d now))); apply SOs_fire_group].
    intros HU. split; [exact HU | cbn [hs]; lia].
  - intros s0 na t. apply (SOs_CapR (with_clock c t)). apply SOs_fire_challenge.
Qed.

Local Transparent tick.
Lemma tick_CapR c h now d : CapR (cfg_capacity c) {| hs := h; dr := d; outs := [] |} (tick c h now d).
Proof. unfold tick. apply (CapR_fire_due (with_clock c now)). Qed.
Global Opaque tick.

(* one step: the cache does not grow beyond max (what it held, capacity) *)
Theorem step_capacity c h e now d :
  SessUniq h ->
  (length (sessions (fst (step c h e now d))) <= Nat.max (length (sessions h)) (cfg_capacity c))%nat.
Proof.
  intros HU. rewrite step_eq. cbn [fst].
  destruct (tick_CapR c h now d HU) as [U1 L1]. cbn [hs] in L1.
  destruct (SOs_CapR (with_clock c now) _ _ (SOs_dispatch (with_clock c now) (tick c h now d) e now) U1) as [_ L2].
  cbn [cfg_capacity with_clock] in L2. lia.
Qed.

(* every reachable state *)
Theorem run_capacity c evs : (length (sessions (fst (run c init_state evs))) <= cfg_capacity c)%nat.
Proof.
  assert (H : forall evs h, SessUniq h -> (length (sessions h) <= cfg_capacity c)%nat ->
            (length (sessions (fst (run c h evs))) <= cfg_capacity c)%nat).
  { clear evs. intros evs. induction evs as [| [[e now] d] rest IH]; intros h HU HL; [exact HL |].
    rewrite run_fst_cons. apply IH; [apply step_SessUniq; exact HU |].
    pose proof (step_capacity c h e now d HU). lia. }
  apply H; [constructor | cbn; lia].
Qed.

(* ------------------------------------------------------------------------------------------ *)
(* 3. the cache is ordered by the time of last use, and no stamp lies in the future *)

(* [lru_ord T l]: the stamps are non-decreasing from the front (least recently used) to the back and
   none exceeds T *)
Fixpoint lru_ord (T : N) (l : list (naddr * session)) : Prop :=
  match l with
  | [] => True
  | x :: r => s_used (snd x) <= T /\ Forall (fun y => s_used (snd x) <= s_used (snd y)) r /\ lru_ord T r
  end.

(* what it says, spelled out *)
Lemma lru_ord_sorted T l : lru_ord T l ->
  forall l1 x l2, l = l1 ++ x :: l2 ->
    s_used (snd x) <= T /\ forall y, In y l2 -> s_used (snd x) <= s_used (snd y).
Proof.
  induction l as [| a r IH]; intros H l1 x l2 E.
  - destruct l1; discriminate.
  - destruct H as [H1 [H2 H3]]. destruct l1 as [| b l1]; cbn [app] in E; inversion E; subst.
    + split; [exact H1 |]. rewrite Forall_forall in H2. exact H2.
    + eapply IH; [exact H3 | reflexivity].
Qed.
Lemma lru_ord_bound T l : lru_ord T l -> forall x, In x l -> s_used (snd x) <= T.
Proof.
  intros H x Hin. apply in_split in Hin. destruct Hin as [l1 [l2 E]].
  exact (proj1 (lru_ord_sorted T l H l1 x l2 E)).
Qed.

Lemma lru_ord_mono T T' l : T <= T' -> lru_ord T l -> lru_ord T' l.
Proof.
  intros HT. induction l as [| x r IH]; cbn [lru_ord]; [auto |].
  intros [H1 [H2 H3]]. split; [lia | split; [exact H2 | auto]].
Qed.
Lemma Forall_alist_remove {A} (P : naddr * A -> Prop) k l : Forall P l -> Forall P (alist_remove k l).
Proof.
  intros H. rewrite Forall_forall in *. intros x Hx. apply H. eapply In_alist_remove; eauto.
Qed.
Lemma lru_ord_remove T k l : lru_ord T l -> lru_ord T (alist_remove k l).
Proof.
  induction l as [| [k' v'] r IH]; cbn [lru_ord alist_remove]; [auto |].
  intros [H1 [H2 H3]]. destruct (naddr_eqb k k'); [exact H3 |].
  cbn [lru_ord]. split; [exact H1 | split; [apply Forall_alist_remove; exact H2 | auto]].
Qed.
Lemma lru_ord_snoc T t l x : lru_ord T l -> T <= t -> s_used (snd x) = t -> lru_ord t (l ++ [x]).
Proof.
  intros H HT Hx. induction l as [| y r IH]; cbn [app lru_ord].
  - split; [lia | split; [constructor | exact I]].
  - destruct H as [H1 [H2 H3]]. split; [lia | split; [| auto]].
    apply Forall_app. split; [exact H2 |]. constructor; [lia | constructor].
Qed.
Lemma lru_ord_tl T l : lru_ord T l -> lru_ord T (tl l).
Proof. destruct l as [| x r]; cbn [tl lru_ord]; [auto | tauto]. Qed.
Lemma lru_ord_app_r T l1 l2 : lru_ord T (l1 ++ l2) -> lru_ord T l2.
Proof. induction l1 as [| x r IH]; cbn [app lru_ord]; [auto | tauto]. Qed.
Lemma lru_ord_set T k v v0 l :
  alist_get k l = Some v0 -> s_used v = s_used v0 -> lru_ord T l -> lru_ord T (alist_set k v l).
Proof.
  intros E Hu. revert E. induction l as [| [k' v'] r IH]; cbn [alist_get alist_set lru_ord]; [discriminate |].
  destruct (naddr_eqb k k') eqn:Ek.
  - intros E; inversion E; subst v'. cbn [lru_ord snd]. rewrite Hu. tauto.
  - intros E [H1 [H2 H3]]. cbn [lru_ord snd] in *. split; [exact H1 | split; [| auto]].
    (* the entries behind: the same stamps *)
    clear IH H3 H1. revert E H2. induction r as [| [k2 v2] r IH2]; cbn [alist_get alist_set]; [discriminate |].
    destruct (naddr_eqb k k2).
    + intros E H2; inversion E; subst v2. inversion H2; subst. constructor; [cbn [snd] in *; lia | assumption].
    + intros E H2. inversion H2; subst. constructor; [assumption | auto].
Qed.

Lemma sop_ord c l l' T :
  sop c l l' -> T <= cfg_clock c -> lru_ord T l -> lru_ord (cfg_clock c) l'.
Proof.
  intros H. revert T.
  induction H as [l | l1 l2 l3 _ IH1 _ IH2 | l na s0 E X | l na | l na v v0 E Hu | l na se | l]; intros T HT HO.
  - eapply lru_ord_mono; eauto.
  - eapply IH2; [apply N.le_refl | eapply IH1; eauto].
  - eapply lru_ord_snoc; [apply lru_ord_remove; exact HO | exact HT | reflexivity].
  - eapply lru_ord_mono; [exact HT | apply lru_ord_remove; exact HO].
  - eapply lru_ord_mono; [exact HT | eapply lru_ord_set; eauto].
  - cbn zeta.
    assert (H : lru_ord (cfg_clock c) (alist_remove na l ++ [(na, touch se (cfg_clock c))])).
    { eapply lru_ord_snoc; [apply lru_ord_remove; exact HO | exact HT | reflexivity]. }
    destruct (Nat.ltb _ _); [apply lru_ord_tl |]; exact H.
  - destruct (drop_expired_split c l) as [pre [E _]]. rewrite E in HO.
    eapply lru_ord_mono; [exact HT | eapply lru_ord_app_r; exact HO].
Qed.

(* a handler call at clock t keeps the order, stamps at most t *)
Definition LI (t : N) (h : hstate) : Prop := SessUniq h /\ lru_ord t (sessions h).
Definition OrdR (t : N) (s s' : st) : Prop := LI t (hs s) -> LI t (hs s').
Lemma OrdR_refl t s : OrdR t s s. Proof. intros H; exact H. Qed.
Lemma OrdR_trans t a b d : OrdR t a b -> OrdR t b d -> OrdR t a d. Proof. unfold OrdR. auto. Qed.
Lemma SOs_OrdR c s s' : SOs c s s' -> OrdR (cfg_clock c) s s'.
Proof.
  intros H [HU HO]. split; [eapply SO_uniq; eauto |].
  eapply (sop_ord c); [apply H; exact HU | apply N.le_refl | exact HO].
Qed.

(* With cfg_grid = 0 every timer of the implicit tick fires "at the time of the step": all accesses of
   a step carry the same clock.  (With a grid the timers carry their own fire times; the order
   invariant then additionally needs that those do not run backwards, see the remark at the end.) *)
Lemma fire_time_grid0 c d now : cfg_grid c = 0 -> fire_time c d now = now.
Proof. intros H. unfold fire_time. rewrite H. reflexivity. Qed.

(* the induction principle of HandlerB_Frame.fire_due_rel with the actual clock of the challenge timers *)
Lemma fire_due_rel_ft (R : st -> st -> Prop) c now :
  (forall a, R a a) -> (forall a b d, R a b -> R b d -> R a d) ->
  (forall s d, R s (fire_req_of c s now d)) ->
  (forall s na cd, R s (fire_challenge (with_clock c (fire_time c cd now)) s na (fire_time c cd now))) ->
  forall fuel s, R s (fire_due c s now fuel).
Proof.
  intros Hr Ht Hreq Hch. induction fuel as [| f IH]; intros s; cbn [fire_due]; [apply Hr |].
  fold (fire_req_of c s now).
  destruct (min_deadline_nmap (nmap (hs s)) None) as [[[n a] d] |];
    destruct (min_deadline_ch (challenges (hs s)) None) as [[[cna ch] cd] |].
  - fold (fire_req_of c s now d). destruct (_ && _).
    + eapply Ht; [apply Hreq | apply IH].
    + destruct (N.ltb cd now); [| apply Hr].
      eapply Ht; [apply Hch | apply IH].
  - fold (fire_req_of c s now d). destruct (N.ltb d now); [| apply Hr]. eapply Ht; [apply Hreq | apply IH].
  - destruct (N.ltb cd now); [| apply Hr].
    eapply Ht; [apply Hch | apply IH].
  - apply Hr.
Qed.

Lemma OrdR_fire_due c now fuel s : cfg_grid c = 0 -> OrdR now s (fire_due c s now fuel).
Proof.
  intros Hg. apply fire_due_rel_ft; [apply OrdR_refl | apply OrdR_trans | |].
  - intros s0 d. unfold fire_req_of. rewrite (fire_time_grid0 c d now Hg).
    destruct (group_of d (nmap (hs s0))) as [| x [| y g]];
      try (apply (SOs_OrdR (with_clock c now)); apply SOs_fire_group).
    destruct (pop_rev (dr s0)) as [rv d'].
    apply (OrdR_trans _ _ {| hs := hs s0; dr := d'; outs := outs s0 |});
      [intros H; exact H | apply (SOs_OrdR (with_clock c now)); apply SOs_fire_group].
  - intros s0 na cd. rewrite (fire_time_grid0 c cd now Hg).
    apply (SOs_OrdR (with_clock c now)). apply SOs_fire_challenge.
Qed.

Local Transparent tick.
Lemma tick_OrdR c h now d :
  cfg_grid c = 0 -> OrdR now {| hs := h; dr := d; outs := [] |} (tick c h now d).
Proof. intros Hg. unfold tick. apply (OrdR_fire_due (with_clock c now)). exact Hg. Qed.
Global Opaque tick.

(* one step at time [now], not earlier than the stamps of the cache *)
Theorem step_lru_order c h e now d T :
  cfg_grid c = 0 -> SessUniq h -> lru_ord T (sessions h) -> T <= now ->
  lru_ord now (sessions (fst (step c h e now d))).
Proof.
  intros Hg HU HO HT. rewrite step_eq. cbn [fst].
  assert (H0 : LI now h) by (split; [exact HU | eapply lru_ord_mono; eauto]).
  pose proof (tick_OrdR c h now d Hg H0) as H1.
  exact (proj2 (SOs_OrdR (with_clock c now) _ _ (SOs_dispatch (with_clock c now) (tick c h now d) e now) H1)).
Qed.

(* runs with non-decreasing step times *)
Fixpoint times_nondecreasing (t0 : N) (evs : list (event * N * draws)) : Prop :=
  match evs with
  | [] => True
  | (_, now, _) :: rest => t0 <= now /\ times_nondecreasing now rest
  end.
Fixpoint last_time (t0 : N) (evs : list (event * N * draws)) : N :=
  match evs with
  | [] => t0
  | (_, now, _) :: rest => last_time now rest
  end.

Theorem run_lru_order_from c evs : cfg_grid c = 0 -> forall h t0,
  SessUniq h -> lru_ord t0 (sessions h) -> times_nondecreasing t0 evs ->
  lru_ord (last_time t0 evs) (sessions (fst (run c h evs))).
Proof.
  intros Hg. induction evs as [| [[e now] d] rest IH]; intros h t0 HU HO HT; [exact HO |].
  cbn [times_nondecreasing] in HT. destruct HT as [HT1 HT2]. rewrite run_fst_cons. cbn [last_time].
  apply IH; [apply step_SessUniq; exact HU | | exact HT2].
  eapply step_lru_order; eauto.
Qed.

(* in every reachable state the sessions are ordered by the time of their last use (front = least
   recently used) and no session carries a stamp later than the time of the last step *)
Theorem run_lru_order c evs :
  cfg_grid c = 0 -> times_nondecreasing 0 evs ->
  lru_ord (last_time 0 evs) (sessions (fst (run c init_state evs))).
Proof. intros Hg HT. apply run_lru_order_from; [exact Hg | constructor | exact I | exact HT]. Qed.

Corollary run_lru_sorted c evs l1 x l2 :
  cfg_grid c = 0 -> times_nondecreasing 0 evs ->
  sessions (fst (run c init_state evs)) = l1 ++ x :: l2 ->
  s_used (snd x) <= last_time 0 evs /\ forall y, In y l2 -> s_used (snd x) <= s_used (snd y).
Proof. intros Hg HT E. exact (lru_ord_sorted _ _ (run_lru_order c evs Hg HT) l1 x l2 E). Qed.

(* without any assumption on the grid: a single handler call whose clock is not earlier than the stamps
   of the cache keeps the order (the timers of the implicit tick are such calls, with the clock set to
   their fire time; the order along a run therefore holds whenever the clocks of successive calls do
   not run backwards - with cfg_grid = 0 this is "step times are non-decreasing", shown above) *)
Theorem dispatch_lru_order c s0 e now T :
  SessUniq (hs s0) -> lru_ord T (sessions (hs s0)) -> T <= cfg_clock c ->
  lru_ord (cfg_clock c) (sessions (hs (dispatch c s0 e now))).
Proof.
  intros HU HO HT. eapply (sop_ord c); [apply (SOs_dispatch c s0 e now); exact HU | exact HT | exact HO].
Qed.
Theorem fire_request_lru_order c s n na ft T :
  SessUniq (hs s) -> lru_ord T (sessions (hs s)) -> T <= cfg_clock c ->
  lru_ord (cfg_clock c) (sessions (hs (fire_request c s n na ft))).
Proof.
  intros HU HO HT. eapply (sop_ord c); [apply (SOs_fire_request c s n na ft); exact HU | exact HT | exact HO].
Qed.
Theorem fire_challenge_lru_order c s na ft T :
  SessUniq (hs s) -> lru_ord T (sessions (hs s)) -> T <= cfg_clock c ->
  lru_ord (cfg_clock c) (sessions (hs (fire_challenge c s na ft))).
Proof.
  intros HU HO HT. eapply (sop_ord c); [apply (SOs_fire_challenge c s na ft); exact HU | exact HT | exact HO].
Qed.

(* ------------------------------------------------------------------------------------------ *)
(* 3', with a grid: the timers of the implicit tick carry their own fire times.  The order is kept
   along a run if the step times are non-decreasing and lie on the grid (so that no timer fires
   "after" the step that fires it), and if every step leaves no overdue timer behind (the timer loop
   of a step is bounded by TICK_FUEL; an overdue timer left behind would later fire with a clock
   reading in the past). *)

Definition aligned (c : config) (now : N) : Prop := forall d, d < now -> fire_time c d now <= now.
Lemma aligned_grid0 c now : cfg_grid c = 0 -> aligned c now.
Proof. intros H d _. rewrite (fire_time_grid0 c d now H). lia. Qed.
Lemma aligned_multiple c now k : now = k * cfg_grid c -> aligned c now.
Proof.
  intros E d Hd. unfold fire_time. destruct (N.eqb (cfg_grid c) 0) eqn:Eg; [lia |].
  apply N.eqb_neq in Eg. subst now.
  assert (d / cfg_grid c < k) by (apply N.div_lt_upper_bound; [exact Eg | lia]).
  apply N.mul_le_mono_r. lia.
Qed.
Lemma fire_time_mono c d d' now : d <= d' -> fire_time c d now <= fire_time c d' now.
Proof.
  intros H. unfold fire_time. destruct (N.eqb (cfg_grid c) 0) eqn:Eg; [lia |].
  apply N.eqb_neq in Eg. apply N.mul_le_mono_r. apply N.add_le_mono_r. apply N.div_le_mono; assumption.
Qed.
Lemma fire_time_gt c d now : d < now -> d < fire_time c d now.
Proof.
  intros H. unfold fire_time. destruct (N.eqb (cfg_grid c) 0) eqn:Eg; [exact H |].
  apply N.eqb_neq in Eg. pose proof (N.mul_succ_div_gt d (cfg_grid c) Eg). lia.
Qed.

(* all timers (request timers and challenge timers) have a deadline >= D *)
Definition DLge (D : N) (h : hstate) : Prop :=
  Forall (fun x => D <= snd x) (nmap h) /\ Forall (fun x => D <= snd x) (challenges h).
Definition DLR (D : N) (s s' : st) : Prop := DLge D (hs s) -> DLge D (hs s').
Lemma DLR_refl D s : DLR D s s. Proof. intros H; exact H. Qed.
Lemma DLR_trans D a b d : DLR D a b -> DLR D b d -> DLR D a d. Proof. unfold DLR. auto. Qed.
Lemma DLge_ext D h h' : nmap h' = nmap h -> challenges h' = challenges h -> DLge D h -> DLge D h'.
Proof. unfold DLge. intros -> ->. auto. Qed.
(* functions that leave both timer tables alone *)
Definition NC (s s' : st) : Prop := nmap (hs s') = nmap (hs s) /\ challenges (hs s') = challenges (hs s).
Lemma NC_refl s : NC s s. Proof. split; reflexivity. Qed.
Lemma NC_trans a b d : NC a b -> NC b d -> NC a d. Proof. intros [A B] [C E]. split; congruence. Qed.
Lemma NC_DLR D s s' : NC s s' -> DLR D s s'.
Proof. intros [A B] H. eapply DLge_ext; eauto. Qed.

Lemma Forall_nmap_remove (P : nonce * naddr * N -> Prop) n l : Forall P l -> Forall P (nmap_remove n l).
Proof.
  induction l as [| [[n' a] d] r IH]; cbn [nmap_remove]; [auto |].
  intros H. inversion H; subst. destruct (nonce_eqb n n'); [assumption | constructor; auto].
Qed.
Lemma Forall_chall_remove (P : naddr * chall * N -> Prop) na l : Forall P l -> Forall P (chall_remove na l).
Proof. intros H. rewrite Forall_forall in *. intros x Hx. apply H. eapply chall_remove_incl; eauto. Qed.

Lemma DLge_ar_insert D c h na r now : D <= now -> DLge D h -> DLge D (ar_insert c h na r now).
Proof.
  intros HD [Hn Hc]. split; [| exact Hc]. cbn [ar_insert nmap set_active]. unfold nmap_insert.
  apply Forall_app. split; [apply Forall_nmap_remove; exact Hn |]. constructor; [cbn [snd]; lia | constructor].
Qed.

Lemma NC_is_awaiting c s na : NC s (fst (is_awaiting_session c s na)).
Proof.
  unfold is_awaiting_session. pose proof (sess_get_frame c (hs s) na) as H. cbn zeta in H.
  destruct (sess_get c (hs s) na) as [h se]. cbn [fst] in H. destruct H as [_ [H1 [_ [H2 _]]]].
  destruct se; split; assumption.
Qed.

Lemma DLR_send_request D c s ct ext rid body now :
  D <= now -> DLR D s (fst (send_request c s ct ext rid body now)).
Proof.
  intros HD. unfold send_request.
  destruct (existsb (N.eqb (c_addr ct)) (cfg_listen c)); [apply DLR_refl |].
  set (na := c_naddr ct).
  assert (Ha : NC s (fst (if has_challenge (hs s) na then (s, true) else is_awaiting_session c s na))).
  { destruct (has_challenge (hs s) na); [apply NC_refl | apply NC_is_awaiting]. }
  destruct (if has_challenge (hs s) na then (s, true) else is_awaiting_session c s na) as [s1 awaiting].
  cbn [fst] in Ha. destruct awaiting; cbn [fst].
  - apply NC_DLR. eapply NC_trans; [exact Ha |]. unfold push_pending.
    destruct (alist_get na (pending (hs s1))); split; reflexivity.
  - eapply DLR_trans; [apply NC_DLR; exact Ha |].
    pose proof (sess_get_frame c (hs s1) na) as Hf. cbn zeta in Hf.
    destruct (sess_get c (hs s1) na) as [h2 se]. cbn [fst] in Hf. destruct Hf as [_ [F1 [_ [F2 _]]]].
    intros H1. assert (H2 : DLge D h2) by (eapply DLge_ext; eauto).
    destruct se as [se |].
    + rewrite encrypt_message_eq. cbn [fst hs with_hs send emit add_expected].
      apply DLge_ar_insert; [exact HD |]. eapply DLge_ext; [| | exact H2]; reflexivity.
    + destruct (pop_pk (dr (with_hs s1 h2))) as [[[[cn r] aad] e0] d'] eqn:Ep.
      cbn [fst hs with_hs send emit add_expected].
      apply DLge_ar_insert; [exact HD |]. eapply DLge_ext; [| | exact H2]; reflexivity.
Qed.

Lemma DLR_send_pending_requests D c s na now : D <= now -> DLR D s (send_pending_requests c s na now).
Proof.
  intros HD. unfold send_pending_requests. destruct (alist_get na (pending (hs s))) as [l |]; [| apply DLR_refl].
  apply (DLR_trans D _ (with_hs s (set_pending (hs s) (alist_remove na (pending (hs s))))));
    [apply NC_DLR; split; reflexivity |].
  apply (fold_left_rel (DLR D)); [apply DLR_refl | apply DLR_trans |].
  intros a q. pose proof (DLR_send_request D c a (pq_contact q) (pq_ext q) (pq_rid q) (pq_body q) now HD) as H.
  destruct (send_request c a (pq_contact q) (pq_ext q) (pq_rid q) (pq_body q) now) as [s' ok].
  cbn [fst] in H. destruct ok; [exact H |]. destruct (pq_ext q); exact H.
Qed.

Lemma NC_remove_expired c s : NC s (remove_expired_sessions c s).
Proof. unfold NC. destruct (remove_expired_sessions_hs c s) as [E | E]; rewrite E; split; reflexivity. Qed.

Lemma DLR_fail_session D c s na err rm : DLR D s (fail_session c s na err rm).
Proof.
  unfold fail_session.
  set (s1 := if rm then with_hs (remove_expired_sessions c s) (sess_remove (hs (remove_expired_sessions c s)) na) else s).
  assert (H1 : NC s s1).
  { unfold s1. destruct rm; [| apply NC_refl]. eapply NC_trans; [apply (NC_remove_expired c s) |]. split; reflexivity. }
  set (s2 := match alist_get na (pending (hs s1)) with Some l => _ | None => s1 end).
  assert (H2 : NC s1 s2).
  { unfold s2. destruct (alist_get na (pending (hs s1))) as [l |]; [| apply NC_refl].
    apply (NC_trans _ (with_hs s1 (set_pending (hs s1) (alist_remove na (pending (hs s1)))))); [split; reflexivity |].
    apply (fold_left_rel NC); [apply NC_refl | apply NC_trans |].
    intros a q. destruct (pq_ext q); split; reflexivity. }
  eapply DLR_trans; [apply NC_DLR; eapply NC_trans; [exact H1 | exact H2] |].
  assert (H3 : DLge D (hs s2) -> DLge D (fst (ar_remove_requests (hs s2) na))).
  { unfold ar_remove_requests. destruct (alist_get na (active (hs s2))) as [l |]; [| auto].
    intros [Hn Hc]. split; [| exact Hc]. cbn [fst nmap set_active].
    clear -Hn. revert Hn. generalize (nmap (hs s2)). induction l as [| r l IH]; intros nm Hn; cbn [fold_left]; [exact Hn |].
    apply IH. apply Forall_nmap_remove. exact Hn. }
  destruct (ar_remove_requests (hs s2) na) as [h3 reqs]. cbn [fst] in H3.
  intros H. specialize (H3 H).
  assert (H4 : NC (with_hs s2 h3) (fold_left (fun s r =>
              let s' := if rc_ext r then emit s (OEvent (HRequestFailed (rc_rid r) err)) else s in
              remove_expected s' (snd na)) reqs (with_hs s2 h3))).
  { apply (fold_left_rel NC); [apply NC_refl | apply NC_trans |].
    intros a r. destruct (rc_ext r); split; reflexivity. }
  exact (NC_DLR D _ _ H4 H3).
Qed.
Lemma DLR_fail_request D c s r err rm : DLR D s (fail_request c s r err rm).
Proof.
  unfold fail_request. eapply DLR_trans; [| apply DLR_fail_session].
  apply NC_DLR. destruct (rc_ext r); split; reflexivity.
Qed.

Lemma DLR_handle_request_timeout D c s na r now :
  D <= now -> DLR D s (handle_request_timeout c s na r now).
Proof.
  intros HD. unfold handle_request_timeout. destruct (N.leb (cfg_retries c) (rc_retries r)).
  - eapply DLR_trans; [| apply DLR_fail_request]. apply NC_DLR. split; reflexivity.
  - intros H. cbn [hs with_hs send emit]. apply DLge_ar_insert; [exact HD | exact H].
Qed.

Lemma DLR_fire_request D c s n na now : D <= now -> DLR D s (fire_request c s n na now).
Proof.
  intros HD. unfold fire_request.
  assert (Hnm : forall act, DLR D s (with_hs s (set_active (hs s) act (nmap_remove n (nmap (hs s)))))).
  { intros act [Hn Hc]. split; [| exact Hc]. cbn [hs with_hs nmap set_active]. apply Forall_nmap_remove. exact Hn. }
  destruct (alist_get na (active (hs s))) as [l |]; [| apply Hnm].
  destruct (remove_first _ l) as [[r l'] |]; [| apply Hnm].
  eapply DLR_trans; [apply Hnm | apply DLR_handle_request_timeout; exact HD].
Qed.
Lemma DLR_fire_group D c s g d ft : D <= ft -> DLR D s (fire_group c s g d ft).
Proof.
  intros HD. unfold fire_group. apply (fold_left_rel (DLR D)); [apply DLR_refl | apply DLR_trans |].
  intros a x. destruct (nmap_deadline (fst x) (nmap (hs a))) as [d' |]; [| apply DLR_refl].
  destruct (N.eqb d' d); [apply DLR_fire_request; exact HD | apply DLR_refl].
Qed.
Lemma DLR_fire_challenge D c s na ft : D <= ft -> DLR D s (fire_challenge c s na ft).
Proof.
  intros HD. unfold fire_challenge. eapply DLR_trans; [| apply DLR_send_pending_requests; exact HD].
  intros [Hn Hc]. split; [exact Hn |]. cbn [hs with_hs remove_expected challenges set_challenges].
  apply Forall_chall_remove. exact Hc.
Qed.
Lemma DLR_fire_req_of D c s now d : D <= fire_time c d now -> DLR D s (fire_req_of c s now d).
Proof.
  intros HD. unfold fire_req_of.
  destruct (group_of d (nmap (hs s))) as [| x [| y g]]; try (apply DLR_fire_group; exact HD).
  destruct (pop_rev (dr s)) as [rv d'].
  apply (DLR_trans D _ {| hs := hs s; dr := d'; outs := outs s |}); [intros H; exact H |].
  apply DLR_fire_group. exact HD.
Qed.
Lemma SOs_fire_req_of c s now d : SOs (with_clock c (fire_time c d now)) s (fire_req_of c s now d).
Proof.
  unfold fire_req_of.
  destruct (group_of d (nmap (hs s))) as [| x [| y g]]; try apply SOs_fire_group.
  destruct (pop_rev (dr s)) as [rv d'].
  apply (SOs_trans _ _ {| hs := hs s; dr := d'; outs := outs s |}); [apply SOs_same; reflexivity |].
  apply SOs_fire_group.
Qed.

(* the earliest deadline *)
Lemma min_deadline_nmap_gen l : forall best,
  match min_deadline_nmap l best with
  | Some (n, a, d) =>
    (forall x, In x l -> d <= snd x) /\ match best with Some (_, _, bd) => d <= bd | None => True end /\
    (In d (map snd l) \/ match best with Some (_, _, bd) => d = bd | None => False end)
  | None => l = [] /\ best = None
  end.
Proof.
  induction l as [| [[n a] d] r IH]; intros best; cbn [min_deadline_nmap].
  - destruct best as [[[bn ba] bd] |]; [split; [intros x [] | split; [lia | right; reflexivity]] | auto].
  - match goal with |- context [min_deadline_nmap r ?b] => specialize (IH b); destruct (min_deadline_nmap r b) as [[[n1 a1] d1] |] end.
    + destruct IH as [H1 [H2 H3]]. cbn [map snd In]. destruct best as [[[bn ba] bd] |].
      * destruct (N.ltb d bd) eqn:E.
        -- apply N.ltb_lt in E. split; [| split; [lia |]].
           ++ intros x [Hx | Hx]; [subst; cbn [snd]; exact H2 | auto].
           ++ destruct H3 as [H3 | H3]; [left; right; exact H3 | left; left; symmetry; exact H3].
        -- apply N.ltb_ge in E. split; [| split; [exact H2 |]].
           ++ intros x [Hx | Hx]; [subst; cbn [snd]; lia | auto].
           ++ destruct H3 as [H3 | H3]; [left; right; exact H3 | right; exact H3].
      * split; [| split; [exact I |]].
        -- intros x [Hx | Hx]; [subst; cbn [snd]; exact H2 | auto].
        -- destruct H3 as [H3 | H3]; [left; right; exact H3 | left; left; symmetry; exact H3].
    + destruct IH as [_ H2]. destruct best as [[[bn ba] bd] |]; [destruct (N.ltb d bd) |]; discriminate.
Qed.
Lemma min_deadline_ch_gen l : forall best,
  match min_deadline_ch l best with
  | Some (n, a, d) =>
    (forall x, In x l -> d <= snd x) /\ match best with Some (_, _, bd) => d <= bd | None => True end /\
    (In d (map snd l) \/ match best with Some (_, _, bd) => d = bd | None => False end)
  | None => l = [] /\ best = None
  end.
Proof.
  induction l as [| [[n a] d] r IH]; intros best; cbn [min_deadline_ch].
  - destruct best as [[[bn ba] bd] |]; [split; [intros x [] | split; [lia | right; reflexivity]] | auto].
  - match goal with |- context [min_deadline_ch r ?b] => specialize (IH b); destruct (min_deadline_ch r b) as [[[n1 a1] d1] |] end.
    + destruct IH as [H1 [H2 H3]]. cbn [map snd In]. destruct best as [[[bn ba] bd] |].
      * destruct (N.ltb d bd) eqn:E.
        -- apply N.ltb_lt in E. split; [| split; [lia |]].
           ++ intros x [Hx | Hx]; [subst; cbn [snd]; exact H2 | auto].
           ++ destruct H3 as [H3 | H3]; [left; right; exact H3 | left; left; symmetry; exact H3].
        -- apply N.ltb_ge in E. split; [| split; [exact H2 |]].
           ++ intros x [Hx | Hx]; [subst; cbn [snd]; lia | auto].
           ++ destruct H3 as [H3 | H3]; [left; right; exact H3 | right; exact H3].
      * split; [| split; [exact I |]].
        -- intros x [Hx | Hx]; [subst; cbn [snd]; exact H2 | auto].
        -- destruct H3 as [H3 | H3]; [left; right; exact H3 | left; left; symmetry; exact H3].
    + destruct IH as [_ H2]. destruct best as [[[bn ba] bd] |]; [destruct (N.ltb d bd) |]; discriminate.
Qed.

(* the loop invariant of the implicit tick: the cache is ordered with stamps <= T <= now, all timers
   have deadlines >= D, and a timer with such a deadline fires with a clock reading >= T *)
Definition K (c : config) (now : N) (s : st) : Prop :=
  SessUniq (hs s) /\
  exists T D, lru_ord T (sessions (hs s)) /\ T <= now /\ DLge D (hs s) /\
              forall d', D <= d' -> d' < now -> T <= fire_time c d' now.

(* one round: the timers with the earliest deadline d fire, at fire_time c d now *)
Lemma K_round c now s s' d :
  aligned c now -> K c now s -> d < now ->
  (forall x, In x (nmap (hs s)) -> d <= snd x) -> (forall x, In x (challenges (hs s)) -> d <= snd x) ->
  (In d (map snd (nmap (hs s))) \/ In d (map snd (challenges (hs s)))) ->
  SOs (with_clock c (fire_time c d now)) s s' -> DLR d s s' ->
  K c now s'.
Proof.
  intros Hal [HU [T [D [HO [HT [[Dn Dc] Hft]]]]]] Hd Mn Mc Hin HS HD.
  assert (HDd : D <= d).
  { destruct Hin as [Hin | Hin]; apply in_map_iff in Hin; destruct Hin as [x [E Hx]]; subst d.
    - rewrite Forall_forall in Dn. exact (Dn _ Hx).
    - rewrite Forall_forall in Dc. exact (Dc _ Hx). }
  pose proof (Hft d HDd Hd) as HTft. pose proof (Hal d Hd) as Hftnow.
  split; [eapply SO_uniq; [exact HS | exact HU] |].
  exists (fire_time c d now), d. split; [| split; [exact Hftnow | split]].
  - apply (sop_ord (with_clock c (fire_time c d now)) (sessions (hs s)) (sessions (hs s')) T);
      [apply HS; exact HU | exact HTft | exact HO].
  - apply HD. split; apply Forall_forall; assumption.
  - intros d' H1 _. apply fire_time_mono. exact H1.
Qed.

Lemma K_fire_due c now : aligned c now -> forall fuel s, K c now s -> K c now (fire_due c s now fuel).
Proof.
  intros Hal. induction fuel as [| f IH]; intros s HK; cbn [fire_due]; [exact HK |].
  fold (fire_req_of c s now).
  pose proof (min_deadline_nmap_gen (nmap (hs s)) None) as Mn.
  pose proof (min_deadline_ch_gen (challenges (hs s)) None) as Mc.
  (* the two kinds of rounds *)
  assert (Rreq : forall d, d < now -> (forall x, In x (nmap (hs s)) -> d <= snd x) ->
            (forall x, In x (challenges (hs s)) -> d <= snd x) -> In d (map snd (nmap (hs s))) ->
            K c now (fire_req_of c s now d)).
  { intros d Hd M1 M2 Hin. eapply (K_round c now s _ d); try eassumption.
    - left. exact Hin.
    - apply SOs_fire_req_of.
    - apply DLR_fire_req_of. pose proof (fire_time_gt c d now Hd). lia. }
  assert (Rch : forall na cd, cd < now -> (forall x, In x (nmap (hs s)) -> cd <= snd x) ->
            (forall x, In x (challenges (hs s)) -> cd <= snd x) -> In cd (map snd (challenges (hs s))) ->
            K c now (fire_challenge (with_clock c (fire_time c cd now)) s na (fire_time c cd now))).
  { intros na cd Hd M1 M2 Hin. eapply (K_round c now s _ cd); try eassumption.
    - right. exact Hin.
    - apply SOs_fire_challenge.
    - apply DLR_fire_challenge. pose proof (fire_time_gt c cd now Hd). lia. }
  destruct (min_deadline_nmap (nmap (hs s)) None) as [[[n a] d] |];
    destruct (min_deadline_ch (challenges (hs s)) None) as [[[cna ch] cd] |].
  - destruct Mn as [Mn1 [_ [Mn2 | []]]]. destruct Mc as [Mc1 [_ [Mc2 | []]]].
    fold (fire_req_of c s now d).
    destruct (N.ltb d now) eqn:Ed; destruct (N.ltb cd now) eqn:Ecd; cbn [andb negb orb].
    + destruct (N.leb d cd) eqn:El.
      * apply N.ltb_lt in Ed. apply N.leb_le in El. apply IH. apply Rreq; auto.
        intros x Hx. specialize (Mc1 x Hx). lia.
      * apply N.ltb_lt in Ecd. apply N.leb_gt in El. apply IH. apply Rch; auto.
        intros x Hx. specialize (Mn1 x Hx). lia.
    + apply N.ltb_lt in Ed. apply N.ltb_ge in Ecd. apply IH. apply Rreq; auto.
      intros x Hx. specialize (Mc1 x Hx). lia.
    + apply N.ltb_ge in Ed. apply N.ltb_lt in Ecd. apply IH. apply Rch; auto.
      intros x Hx. specialize (Mn1 x Hx). lia.
    + exact HK.
  - destruct Mn as [Mn1 [_ [Mn2 | []]]]. destruct Mc as [Mc1 _].
    fold (fire_req_of c s now d). destruct (N.ltb d now) eqn:Ed; [| exact HK].
    apply N.ltb_lt in Ed. apply IH. apply Rreq; auto. rewrite Mc1. intros x [].
  - destruct Mc as [Mc1 [_ [Mc2 | []]]]. destruct Mn as [Mn1 _].
    destruct (N.ltb cd now) eqn:Ecd; [| exact HK].
    apply N.ltb_lt in Ecd. apply IH. apply Rch; auto. rewrite Mn1. intros x [].
  - exact HK.
Qed.

Local Transparent tick.
Lemma tick_K c h now d :
  aligned c now -> K c now {| hs := h; dr := d; outs := [] |} -> K c now (tick c h now d).
Proof.
  intros Hal HK. unfold tick.
  assert (Hal' : aligned (with_clock c now) now) by exact Hal.
  exact (K_fire_due (with_clock c now) now Hal' TICK_FUEL _ HK).
Qed.
Global Opaque tick.

(* one step at a time on the grid, not earlier than the stamps of the cache and than no timer *)
Theorem step_lru_order_grid c h e now d T :
  aligned c now -> SessUniq h -> lru_ord T (sessions h) -> DLge T h -> T <= now ->
  lru_ord now (sessions (fst (step c h e now d))).
Proof.
  intros Hal HU HO HD HT. rewrite step_eq. cbn [fst].
  assert (HK : K c now {| hs := h; dr := d; outs := [] |}).
  { split; [exact HU |]. exists T, T. cbn [hs]. split; [exact HO | split; [exact HT | split; [exact HD |]]].
    intros d' H1 H2. pose proof (fire_time_gt c d' now H2). lia. }
  destruct (tick_K c h now d Hal HK) as [U1 [T1 [D1 [O1 [HT1 _]]]]].
  eapply (sop_ord (with_clock c now));
    [apply (SOs_dispatch (with_clock c now) (tick c h now d) e now); exact U1 | exact HT1 | exact O1].
Qed.

(* runs: step times on the grid, and no step leaves an overdue timer behind *)
Fixpoint steps_complete (c : config) (h : hstate) (evs : list (event * N * draws)) : Prop :=
  match evs with
  | [] => True
  | (e, now, d) :: rest =>
    aligned c now /\ DLge now (fst (step c h e now d)) /\ steps_complete c (fst (step c h e now d)) rest
  end.

Theorem run_lru_order_grid_from c evs : forall h t0,
  SessUniq h -> lru_ord t0 (sessions h) -> DLge t0 h ->
  times_nondecreasing t0 evs -> steps_complete c h evs ->
  lru_ord (last_time t0 evs) (sessions (fst (run c h evs))).
Proof.
  induction evs as [| [[e now] d] rest IH]; intros h t0 HU HO HD HT HC; [exact HO |].
  cbn [times_nondecreasing steps_complete] in HT, HC. destruct HT as [HT1 HT2]. destruct HC as [HC1 [HC2 HC3]].
  rewrite run_fst_cons. cbn [last_time].
  apply IH; [apply step_SessUniq; exact HU | | exact HC2 | exact HT2 | exact HC3].
  eapply step_lru_order_grid; eauto.
Qed.

Theorem run_lru_order_grid c evs :
  times_nondecreasing 0 evs -> steps_complete c init_state evs ->
  lru_ord (last_time 0 evs) (sessions (fst (run c init_state evs))).
Proof.
  intros HT HC. apply run_lru_order_grid_from; [constructor | exact I | split; constructor | exact HT | exact HC].
Qed.

(* ------------------------------------------------------------------------------------------ *)
(* Examples (session timeout 100) *)

Definition ex_ttl : config :=
  {| cfg_local := 1; cfg_enr := {| e_id := 1; e_seq := 1; e_ip4 := None; e_ip6 := None |};
     cfg_retries := 1; cfg_timeout := 1000; cfg_listen := []; cfg_capacity := 10%nat;
     cfg_session_ttl := 100; cfg_clock := 0; cfg_grid := 0;
     fix_d1 := true; fix_d2a := true; fix_d2b := true; fix_d6 := true |}.
Definition ct7 : contact := {| c_id := 7; c_addr := 100; c_enr := Some enr7; c_ed := false |}.
(* the incoming handshake with node 7 of HandlerB_Examples (times 10..14: the session is last used at
   14), a request to node 7 at time 100 (idle for 86 <= 100: encrypted under the session, counter 2),
   and another one at time 300 (idle for 200 > 100) *)
Definition ev_req_live := (EvRequest ct7 30 0, 100, dk [(0, 78, 54, 0)]).
Definition ev_req_late := (EvRequest ct7 31 0, 300, dk [(8, 79, 55, 0)]).
Definition h_live : hstate := fst (run ex_ttl init_state (evs_in ++ [ev_req_live])).

Example live_session_is_used :
  snd (step ex_ttl (fst (run ex_ttl init_state evs_in)) (EvRequest ct7 30 0) 100 (dk [(0, 78, 54, 0)])) =
  [OWire (7, 100) (PMsg 1 (2, 78) 54 (CEnc (mk_key 3 1 5 7 1 true) (2, 78) (MReq 30 0) 54))] /\
  alist_get (7, 100) (sessions h_live) =
  Some {| s_enc := mk_key 3 1 5 7 1 true; s_dec := kd7; s_old := None; s_await := None; s_counter := 2;
          s_used := 100 |}.
Proof. vm_compute. split; reflexivity. Qed.

(* the session expires; the next request goes out as a random packet (fresh handshake) and the
   session is gone *)
Example expired_session_is_not_used :
  step ex_ttl h_live (EvRequest ct7 31 0) 300 (dk [(8, 79, 55, 0)]) =
  (fst (run ex_ttl init_state (evs_in ++ [ev_req_live; ev_req_late])),
   [OWire (7, 100) (PMsg 1 (8, 79) 55 (CJunk 55))]) /\
  sessions (fst (run ex_ttl init_state (evs_in ++ [ev_req_live; ev_req_late]))) = [].
Proof. vm_compute. split; reflexivity. Qed.

(* the hypotheses of step_request_expired hold for this step *)
Example expired_step_hypotheses :
  SessUniq h_live /\
  exists s0, alist_get (7, 100) (sessions (hs (tick ex_ttl h_live 300 (dk [(8, 79, 55, 0)])))) = Some s0 /\
             s_used s0 + cfg_session_ttl ex_ttl < 300.
Proof.
  split; [apply (run_SessUniq ex_ttl) |]. eexists. split; [vm_compute; reflexivity | vm_compute; reflexivity].
Qed.

(* a message packet under the expired session is not accepted either: WHOAREYOU *)
Example expired_session_rejects_messages :
  step ex_ttl h_live (EvInbound 100 (PMsg 7 (4, 4) 57 (CEnc kd7 (4, 4) (MReq 12 0) 57))) 300 nod =
  (sess_remove h_live (7, 100), [OEvent (HWhoAreYou (7, 100) (4, 4))]) /\
  snd (step ex_ttl h_live (EvInbound 100 (PMsg 7 (4, 4) 57 (CEnc kd7 (4, 4) (MReq 12 0) 57))) 150 nod) =
  [OEvent (HRequest (7, 100) 12 0)].
Proof. vm_compute. split; reflexivity. Qed.

(* The counter of a session object restarts when an expired session is re-established in one step:
   at time 250 the application has the node challenged, at 260 node 7 completes the handshake.  The
   state before that step holds the (expired) session with counter 2, the state after it a session
   with counter 0 - under NEW keys.  (This refutes the pre-expiry statements of counter_monotone_step /
   counter_monotone / new_session_counter, which HandlerB_Nonce.v now states with the alternative
   "or the session is one that this step has just installed" resp. for sessions that have not expired.) *)
Definition ev_who_again := (EvWhoAreYou (7, 100) (9, 9) (Some enr7), 250, dk [(12, 0, 6, 0)]).
Definition pkt_handshake2 := PHs 7 (2, 3) 56 (Sig 7 6 4 1) 4 true None (CEnc (mk_key 4 1 6 7 1 false) (2, 3) (MReq 11 0) 56).
Definition h_rechallenged : hstate := fst (run ex_ttl h_live [ev_who_again]).
Example counter_restarts_after_expiry :
  option_map s_counter (alist_get (7, 100) (sessions h_rechallenged)) = Some 2 /\
  option_map s_enc (alist_get (7, 100) (sessions h_rechallenged)) = Some (mk_key 3 1 5 7 1 true) /\
  let h' := fst (step ex_ttl h_rechallenged (EvInbound 100 pkt_handshake2) 260 nod) in
  option_map s_counter (alist_get (7, 100) (sessions h')) = Some 0 /\
  option_map s_enc (alist_get (7, 100) (sessions h')) = Some (mk_key 4 1 6 7 1 true) /\
  snd (step ex_ttl h_rechallenged (EvInbound 100 pkt_handshake2) 260 nod) =
  [OEvent (HEstablished enr7 100 true); OEvent (HExpiredSessions [(7, 100)]); OEvent (HRequest (7, 100) 11 0)].
Proof. vm_compute. repeat split; reflexivity. Qed.

(* order and capacity in the example run *)
Example example_run_order :
  lru_ord 300 (sessions (fst (run ex_ttl init_state (evs_in ++ [ev_req_live; ev_req_late])))) /\
  lru_ord 100 (sessions h_live).
Proof.
  split.
  - apply (run_lru_order ex_ttl (evs_in ++ [ev_req_live; ev_req_late])); [reflexivity |].
    cbn. repeat split; discriminate.
  - apply (run_lru_order ex_ttl (evs_in ++ [ev_req_live])); [reflexivity |].
    cbn. repeat split; discriminate.
Qed.

(* the same run on a grid of 10 (all step times are multiples of 10): the hypotheses of
   run_lru_order_grid hold *)
Definition ex_grid : config :=
  {| cfg_local := 1; cfg_enr := {| e_id := 1; e_seq := 1; e_ip4 := None; e_ip6 := None |};
     cfg_retries := 1; cfg_timeout := 1000; cfg_listen := []; cfg_capacity := 10%nat;
     cfg_session_ttl := 100; cfg_clock := 0; cfg_grid := 10;
     fix_d1 := true; fix_d2a := true; fix_d2b := true; fix_d6 := true |}.
Definition evs_grid5 : list (event * N * draws) :=
  [(EvInbound 100 (PMsg 7 (1, 1) 50 (CJunk 50)), 10, nod);
   (EvWhoAreYou (7, 100) (1, 1) (Some enr7), 20, dk [(11, 0, 5, 0)]);
   (EvInbound 100 pkt_handshake, 30, nod);
   (EvResponse (7, 100) 9 (ROther 1), 40, dk [(0, 77, 52, 0)]);
   (EvRequest ct7 30 0, 100, dk [(0, 78, 54, 0)])].
Definition evs_grid : list (event * N * draws) :=
  evs_grid5 ++ [(EvRequest ct7 31 0, 300, dk [(8, 79, 55, 0)]); (EvTick, 1200, nod)].
Example evs_grid_run :
  snd (run ex_grid init_state evs_grid) =
  [[OEvent (HWhoAreYou (7, 100) (1, 1))]; [OWire (7, 100) (PWho (1, 1) 11 1 5)];
   [OEvent (HEstablished enr7 100 true); OEvent (HRequest (7, 100) 9 0)];
   [OWire (7, 100) (PMsg 1 (1, 77) 52 (CEnc (mk_key 3 1 5 7 1 true) (1, 77) (MResp 9 (ROther 1)) 52))];
   [OWire (7, 100) (PMsg 1 (2, 78) 54 (CEnc (mk_key 3 1 5 7 1 true) (2, 78) (MReq 30 0) 54))];
   [OWire (7, 100) (PMsg 1 (8, 79) 55 (CJunk 55))];
   [OEvent (HRequestFailed 30 ERR_TIMEOUT); OEvent (HRequestFailed 31 ERR_TIMEOUT)]] /\
  option_map s_used (alist_get (7, 100) (sessions (fst (run ex_grid init_state evs_grid5)))) = Some 100.
Proof. vm_compute. split; reflexivity. Qed.

Ltac solve_steps_complete :=
  repeat match goal with
         | |- aligned _ _ /\ _ => split
         | |- DLge _ _ /\ _ => split
         | |- aligned ex_grid 10 => apply (aligned_multiple ex_grid 10 1); reflexivity
         | |- aligned ex_grid 20 => apply (aligned_multiple ex_grid 20 2); reflexivity
         | |- aligned ex_grid 30 => apply (aligned_multiple ex_grid 30 3); reflexivity
         | |- aligned ex_grid 40 => apply (aligned_multiple ex_grid 40 4); reflexivity
         | |- aligned ex_grid 100 => apply (aligned_multiple ex_grid 100 10); reflexivity
         | |- aligned ex_grid 300 => apply (aligned_multiple ex_grid 300 30); reflexivity
         | |- aligned ex_grid 1200 => apply (aligned_multiple ex_grid 1200 120); reflexivity
         | |- DLge _ _ => vm_compute; split; repeat constructor; discriminate
         | |- True => exact I
         end.
Example evs_grid_hypotheses :
  times_nondecreasing 0 evs_grid /\ steps_complete ex_grid init_state evs_grid.
Proof.
  split; [cbn; repeat split; discriminate |].
  cbn [steps_complete evs_grid evs_grid5 app]. solve_steps_complete.
Qed.
Example evs_grid5_hypotheses :
  times_nondecreasing 0 evs_grid5 /\ steps_complete ex_grid init_state evs_grid5.
Proof.
  split; [cbn; repeat split; discriminate |].
  cbn [steps_complete evs_grid5]. solve_steps_complete.
Qed.
Example evs_grid_order :
  lru_ord 1200 (sessions (fst (run ex_grid init_state evs_grid))) /\
  lru_ord 100 (sessions (fst (run ex_grid init_state evs_grid5))).
Proof.
  split.
  - apply (run_lru_order_grid ex_grid evs_grid); apply evs_grid_hypotheses.
  - apply (run_lru_order_grid ex_grid evs_grid5); apply evs_grid5_hypotheses.
Qed.

(* ------------------------------------------------------------------------------------------ *)
(* the statements, and their assumptions *)

Check sess_get_never_stale :
  forall c h na h' s, sess_get c h na = (h', Some s) ->
  exists s0, alist_get na (sessions h) = Some s0 /\
    cfg_clock c <= s_used s0 + cfg_session_ttl c /\
    s = touch s0 (cfg_clock c) /\ s_used s = cfg_clock c /\
    h' = set_sessions h (alist_remove na (sessions h) ++ [(na, s)]).
Check sess_get_expired_gone :
  forall c h na s0, alist_get na (sessions h) = Some s0 -> s_used s0 + cfg_session_ttl c < cfg_clock c ->
  sess_get c h na = (sess_remove h na, None) /\
  (SessUniq h -> alist_get na (sessions (sess_remove h na)) = None).
Check send_response_expired :
  forall c s na rid rb s0, alist_get na (sessions (hs s)) = Some s0 -> sess_expired c s0 = true ->
  send_response c s na rid rb = with_hs s (sess_remove (hs s) na).
Check handle_message_expired :
  forall c s na n aad ct now s0, alist_get na (sessions (hs s)) = Some s0 -> sess_expired c s0 = true ->
  handle_message c s na n aad ct now = emit (with_hs s (sess_remove (hs s) na)) (OEvent (HWhoAreYou na n)).
Check send_request_expired :
  forall c s ct ext rid body now s0,
  let na := c_naddr ct in
  let s' := fst (send_request c s ct ext rid body now) in
  SessUniq (hs s) -> alist_get na (sessions (hs s)) = Some s0 -> sess_expired c s0 = true ->
  (outs s' = outs s \/
   exists n aad, outs s' = outs s ++ [OWire na (PMsg (cfg_local c) n aad (CJunk aad))]) /\
  (existsb (N.eqb (c_addr ct)) (cfg_listen c) = false -> has_challenge (hs s) na = false ->
   alist_get na (sessions (hs s')) = None).
Check step_message_expired :
  forall c h from src n aad ct now d s0,
  alist_get (src, from) (sessions (hs (tick c h now d))) = Some s0 -> s_used s0 + cfg_session_ttl c < now ->
  step c h (EvInbound from (PMsg src n aad ct)) now d =
  (sess_remove (hs (tick c h now d)) (src, from), outs (tick c h now d) ++ [OEvent (HWhoAreYou (src, from) n)]).
Check step_message_expired_delivers_nothing :
  forall c h from src n aad ct now d s0 o,
  alist_get (src, from) (sessions (hs (tick c h now d))) = Some s0 -> s_used s0 + cfg_session_ttl c < now ->
  In o (snd (step c h (EvInbound from (PMsg src n aad ct)) now d)) ->
  ~ attributing o /\
  (SessUniq h -> alist_get (src, from) (sessions (fst (step c h (EvInbound from (PMsg src n aad ct)) now d))) = None).
Check step_response_expired :
  forall c h na rid rb now d s0,
  alist_get na (sessions (hs (tick c h now d))) = Some s0 -> s_used s0 + cfg_session_ttl c < now ->
  step c h (EvResponse na rid rb) now d = (sess_remove (hs (tick c h now d)) na, outs (tick c h now d)).
Check step_request_expired :
  forall c h ct rid body now d s0,
  let na := c_naddr ct in
  let s0' := tick c h now d in
  SessUniq h -> alist_get na (sessions (hs s0')) = Some s0 -> s_used s0 + cfg_session_ttl c < now ->
  existsb (N.eqb (c_addr ct)) (cfg_listen c) = false ->
  let res := step c h (EvRequest ct rid body) now d in
  (snd res = outs s0' \/
   exists n aad, snd res = outs s0' ++ [OWire na (PMsg (cfg_local c) n aad (CJunk aad))]) /\
  (has_challenge (hs s0') na = false -> alist_get na (sessions (fst res)) = None).
Check step_capacity :
  forall c h e now d, SessUniq h ->
  (length (sessions (fst (step c h e now d))) <= Nat.max (length (sessions h)) (cfg_capacity c))%nat.
Check run_capacity :
  forall c evs, (length (sessions (fst (run c init_state evs))) <= cfg_capacity c)%nat.
Check step_lru_order :
  forall c h e now d T, cfg_grid c = 0 -> SessUniq h -> lru_ord T (sessions h) -> T <= now ->
  lru_ord now (sessions (fst (step c h e now d))).
Check run_lru_order :
  forall c evs, cfg_grid c = 0 -> times_nondecreasing 0 evs ->
  lru_ord (last_time 0 evs) (sessions (fst (run c init_state evs))).
Check run_lru_sorted :
  forall c evs l1 x l2, cfg_grid c = 0 -> times_nondecreasing 0 evs ->
  sessions (fst (run c init_state evs)) = l1 ++ x :: l2 ->
  s_used (snd x) <= last_time 0 evs /\ forall y, In y l2 -> s_used (snd x) <= s_used (snd y).
Check step_lru_order_grid :
  forall c h e now d T, aligned c now -> SessUniq h -> lru_ord T (sessions h) -> DLge T h -> T <= now ->
  lru_ord now (sessions (fst (step c h e now d))).
Check run_lru_order_grid :
  forall c evs, times_nondecreasing 0 evs -> steps_complete c init_state evs ->
  lru_ord (last_time 0 evs) (sessions (fst (run c init_state evs))).
Check dispatch_lru_order :
  forall c s0 e now T, SessUniq (hs s0) -> lru_ord T (sessions (hs s0)) -> T <= cfg_clock c ->
  lru_ord (cfg_clock c) (sessions (hs (dispatch c s0 e now))).

Print Assumptions sess_get_never_stale.
Print Assumptions sess_get_expired_gone.
Print Assumptions send_response_expired.
Print Assumptions handle_message_expired.
Print Assumptions send_request_expired.
Print Assumptions step_message_expired.
Print Assumptions step_message_expired_delivers_nothing.
Print Assumptions step_response_expired.
Print Assumptions step_request_expired.
Print Assumptions step_capacity.
Print Assumptions run_capacity.
Print Assumptions step_lru_order.
Print Assumptions run_lru_order.
Print Assumptions run_lru_sorted.
Print Assumptions dispatch_lru_order.
Print Assumptions step_lru_order_grid.
Print Assumptions run_lru_order_grid.
Print Assumptions evs_grid_order.
Print Assumptions expired_session_is_not_used.
Print Assumptions counter_restarts_after_expiry.
