(* Basic lemmas about Model/Handler.v used by the C01/C02/C03/C19 proofs (HandlerB_*.v):
   reflection of the decidable equalities, association lists, the frame relations
   ("which part of the state / which outputs can a handler function touch"). *)
From Coq Require Import List Arith NArith Bool Lia.
From Discv5V Require Import Model.Handler.
Import ListNotations.
Local Open Scope N_scope.

(* all repairs of DESIGN.md section 7 that concern the handler are enabled *)
Definition fixed_cfg (c : config) : Prop :=
  fix_d1 c = true /\ fix_d2a c = true /\ fix_d2b c = true /\ fix_d6 c = true.

(* ------------------------------------------------------------------------------------------ *)
(* reflection *)

Lemma naddr_eqb_eq (a b : naddr) : naddr_eqb a b = true <-> a = b.
Proof.
  destruct a as [a1 a2], b as [b1 b2]. unfold naddr_eqb. cbn [fst snd].
  rewrite andb_true_iff, !N.eqb_eq. split; [intros [-> ->]; reflexivity | intros H; inversion H; auto].
Qed.
Lemma naddr_eqb_refl (a : naddr) : naddr_eqb a a = true.
Proof. apply naddr_eqb_eq. reflexivity. Qed.
Lemma naddr_eqb_neq (a b : naddr) : naddr_eqb a b = false <-> a <> b.
Proof.
  split.
  - intros H E. apply naddr_eqb_eq in E. congruence.
  - intros H. destruct (naddr_eqb a b) eqn:E; [apply naddr_eqb_eq in E; contradiction | reflexivity].
Qed.
Lemma naddr_eqb_sym (a b : naddr) : naddr_eqb a b = naddr_eqb b a.
Proof.
  destruct (naddr_eqb a b) eqn:E.
  - apply naddr_eqb_eq in E. subst. symmetry. apply naddr_eqb_refl.
  - symmetry. apply naddr_eqb_neq. apply naddr_eqb_neq in E. congruence.
Qed.

Lemma nonce_eqb_eq (a b : nonce) : nonce_eqb a b = true <-> a = b.
Proof.
  destruct a as [a1 a2], b as [b1 b2]. unfold nonce_eqb. cbn [fst snd].
  rewrite andb_true_iff, !N.eqb_eq. split; [intros [-> ->]; reflexivity | intros H; inversion H; auto].
Qed.
Lemma nonce_eqb_refl (a : nonce) : nonce_eqb a a = true.
Proof. apply nonce_eqb_eq. reflexivity. Qed.
Lemma nonce_eqb_neq (a b : nonce) : nonce_eqb a b = false <-> a <> b.
Proof.
  split.
  - intros H E. apply nonce_eqb_eq in E. congruence.
  - intros H. destruct (nonce_eqb a b) eqn:E; [apply nonce_eqb_eq in E; contradiction | reflexivity].
Qed.

Lemma key_eqb_eq (a b : key) : key_eqb a b = true <-> a = b.
Proof.
  destruct a as [a1 a2 a3 a4 a5 a6], b as [b1 b2 b3 b4 b5 b6]. unfold key_eqb.
  cbn [k_eph k_static k_cd k_ida k_idb k_half].
  rewrite !andb_true_iff, !N.eqb_eq, Bool.eqb_true_iff.
  split.
  - intros [[[[[-> ->] ->] ->] ->] ->]. reflexivity.
  - intros H. inversion H. auto 10.
Qed.
Lemma key_eqb_refl (a : key) : key_eqb a a = true.
Proof. apply key_eqb_eq. reflexivity. Qed.

(* the symbolic AEAD: decryption succeeds exactly on the matching term *)
Lemma decrypt_Some k n a ct m : decrypt k n a ct = Some m <-> ct = CEnc k n m a.
Proof.
  unfold decrypt. destruct ct as [k' n' m' a' | j].
  - destruct (key_eqb k k') eqn:Ek; cbn [andb].
    + destruct (nonce_eqb n n') eqn:En; cbn [andb].
      * destruct (N.eqb a a') eqn:Ea.
        -- apply key_eqb_eq in Ek. apply nonce_eqb_eq in En. apply N.eqb_eq in Ea. subst.
           split; intros H; inversion H; reflexivity.
        -- apply N.eqb_neq in Ea. split; [discriminate | intros H; inversion H; subst; contradiction].
      * apply nonce_eqb_neq in En. split; [discriminate | intros H; inversion H; subst; contradiction].
    + split; [discriminate |].
      intros H; inversion H; subst. rewrite key_eqb_refl in Ek. discriminate.
  - split; discriminate.
Qed.

(* the symbolic signature: verification succeeds exactly on the matching term *)
Lemma verify_sig_true pk cd eph dst s :
  verify_sig pk cd eph dst s = true <-> s = Sig pk cd eph dst.
Proof.
  unfold verify_sig. destruct s as [k cd' eph' dst' | j].
  - rewrite !andb_true_iff, !N.eqb_eq. split.
    + intros [[[-> ->] ->] ->]. reflexivity.
    + intros H; inversion H; auto.
  - split; discriminate.
Qed.

(* ------------------------------------------------------------------------------------------ *)
(* association lists *)

Section Alist.
  Context {A : Type}.
  Implicit Types (l : list (naddr * A)) (k : naddr) (v : A).

  Lemma alist_get_In k l v : alist_get k l = Some v -> In (k, v) l.
  Proof.
    induction l as [| [k' v'] r IH]; cbn [alist_get]; [discriminate |].
    destruct (naddr_eqb k k') eqn:E.
    - intros H; inversion H; subst. apply naddr_eqb_eq in E. subst. left; reflexivity.
    - intros H. right. auto.
  Qed.

  Lemma alist_get_None k l : alist_get k l = None -> forall v, ~ In (k, v) l.
  Proof.
    induction l as [| [k' v'] r IH]; cbn [alist_get]; [intros _ v [] |].
    destruct (naddr_eqb k k') eqn:E; [discriminate |].
    intros H v [H1 | H1].
    - inversion H1; subst. rewrite naddr_eqb_refl in E. discriminate.
    - exact (IH H v H1).
  Qed.

  Lemma In_alist_get k v l : In (k, v) l -> exists v', alist_get k l = Some v'.
  Proof.
    intros H. destruct (alist_get k l) eqn:E; [eauto |]. exfalso. exact (alist_get_None _ _ E _ H).
  Qed.

  Lemma In_alist_remove k l x : In x (alist_remove k l) -> In x l.
  Proof.
    induction l as [| [k' v'] r IH]; cbn [alist_remove]; [auto |].
    destruct (naddr_eqb k k'); intros H; [right; exact H |].
    destruct H as [H | H]; [left; exact H | right; auto].
  Qed.

  Lemma In_alist_set k v l x : In x (alist_set k v l) -> x = (k, v) \/ In x l.
  Proof.
    induction l as [| [k' v'] r IH]; cbn [alist_set].
    - intros [H | []]. left; auto.
    - destruct (naddr_eqb k k'); intros [H | H]; auto.
      + right; right; exact H.
      + right; left; exact H.
      + destruct (IH H); auto. right; right; auto.
  Qed.

  (* forward direction: an entry survives alist_set unless it is the one being replaced *)
  Lemma In_alist_set_fwd k v v0 l x :
    alist_get k l = Some v0 -> In x l -> x = (k, v0) \/ In x (alist_set k v l).
  Proof.
    induction l as [| [k' v'] r IH]; cbn [alist_get alist_set]; [discriminate |].
    destruct (naddr_eqb k k') eqn:E.
    - intros H; inversion H; subst. apply naddr_eqb_eq in E. subst.
      intros [H1 | H1]; [left; auto | right; right; exact H1].
    - intros H [H1 | H1]; [right; left; exact H1 |].
      destruct (IH H H1); auto. right; right; auto.
  Qed.

  Lemma alist_set_has k v l : In (k, v) (alist_set k v l).
  Proof.
    induction l as [| [k' v'] r IH]; cbn [alist_set]; [left; reflexivity |].
    destruct (naddr_eqb k k'); [left; reflexivity | right; exact IH].
  Qed.

  (* to_back: the same entries *)
  Lemma In_to_back k v l x :
    alist_get k l = Some v -> (In x (alist_remove k l ++ [(k, v)]) <-> In x l).
  Proof.
    intros G. split.
    - intros H. apply in_app_or in H. destruct H as [H | [H | []]].
      + eapply In_alist_remove; eauto.
      + subst. apply alist_get_In; auto.
    - revert G. induction l as [| [k' v'] r IH]; cbn [alist_get alist_remove]; [discriminate |].
      destruct (naddr_eqb k k') eqn:E.
      + intros G; inversion G; subst. apply naddr_eqb_eq in E. subst.
        intros [H | H]; apply in_or_app; [right; left; auto | left; auto].
      + intros G [H | H]; [left; auto |]. right. auto.
  Qed.
  (* keys *)
  Lemma alist_set_keys k v l : In k (map fst l) -> map fst (alist_set k v l) = map fst l.
  Proof.
    induction l as [| [k' v'] r IH]; cbn [alist_set map fst]; [intros [] |].
    destruct (naddr_eqb k k') eqn:E.
    - apply naddr_eqb_eq in E. subst. reflexivity.
    - intros [H | H]; [subst; rewrite naddr_eqb_refl in E; discriminate |].
      cbn [map fst]. rewrite IH; auto.
  Qed.
  Lemma alist_remove_keys_incl k l : incl (map fst (alist_remove k l)) (map fst l).
  Proof. apply incl_map. intros x. apply In_alist_remove. Qed.
  Lemma alist_remove_NoDup k l : NoDup (map fst l) -> NoDup (map fst (alist_remove k l)).
  Proof.
    induction l as [| [k' v'] r IH]; cbn [alist_remove map fst]; [auto |].
    intros H. inversion H as [| x y H1 H2]; subst. destruct (naddr_eqb k k'); [exact H2 |].
    cbn [map fst]. constructor; [| auto]. intros Hin. apply H1. eapply alist_remove_keys_incl; eauto.
  Qed.
  Lemma alist_remove_gone k l : NoDup (map fst l) -> ~ In k (map fst (alist_remove k l)).
  Proof.
    induction l as [| [k' v'] r IH]; cbn [alist_remove map fst]; [auto |].
    intros H. inversion H as [| x y H1 H2]; subst. destruct (naddr_eqb k k') eqn:E.
    - apply naddr_eqb_eq in E. subst. exact H1.
    - cbn [map fst]. intros [Hin | Hin]; [subst; rewrite naddr_eqb_refl in E; discriminate |].
      exact (IH H2 Hin).
  Qed.
  Lemma to_back_NoDup k v l : NoDup (map fst l) -> NoDup (map fst (alist_remove k l ++ [(k, v)])).
  Proof.
    intros H. rewrite map_app. cbn [map fst].
    assert (Hs : forall (l0 : list naddr) x, NoDup l0 -> ~ In x l0 -> NoDup (l0 ++ [x])).
    { intros l0 x. induction l0 as [| a l0 IH]; cbn.
      - intros _ _. constructor; [intros [] | constructor].
      - intros Hn Hx. inversion Hn; subst. constructor.
        + intros Hin. apply in_app_or in Hin. destruct Hin as [Hin | [Hin | []]]; [contradiction | subst; apply Hx; left; reflexivity].
        + apply IH; [assumption | intros Hin; apply Hx; right; exact Hin]. }
    apply Hs; [apply alist_remove_NoDup; exact H | apply alist_remove_gone; exact H].
  Qed.
End Alist.

Lemma tl_In {A} (l : list A) x : In x (tl l) -> In x l.
Proof. destruct l; cbn; auto. Qed.

(* generic: a reflexive and transitive relation is preserved by fold_left *)
Lemma fold_left_rel {S B} (R : S -> S -> Prop) (f : S -> B -> S) :
  (forall a, R a a) -> (forall a b c, R a b -> R b c -> R a c) ->
  (forall a b, R a (f a b)) -> forall l a, R a (fold_left f l a).
Proof.
  intros Hr Ht Hf l. induction l as [| b l IH]; intros a; cbn [fold_left]; [apply Hr |].
  eapply Ht; [apply Hf | apply IH].
Qed.

(* ------------------------------------------------------------------------------------------ *)
(* sessions: keys and counters *)

Definition sess_keys (se : session) : list key :=
  s_enc se :: s_dec se :: match s_old se with Some (a, b) => [a; b] | None => [] end.

(* [SessD h h']: every session of h' descends from a session of h under the same node address:
   no new key, counter not smaller.  Reflexive and transitive. *)
Definition sess_desc (se se' : session) : Prop :=
  incl (sess_keys se') (sess_keys se) /\ s_counter se <= s_counter se'.
Definition SessD (h h' : hstate) : Prop :=
  forall na se', In (na, se') (sessions h') -> exists se, In (na, se) (sessions h) /\ sess_desc se se'.

Lemma sess_desc_refl se : sess_desc se se.
Proof. split; [apply incl_refl | lia]. Qed.
Lemma sess_desc_trans a b d : sess_desc a b -> sess_desc b d -> sess_desc a d.
Proof. intros [H1 H2] [H3 H4]. split; [eapply incl_tran; eauto | lia]. Qed.

Lemma SessD_refl h : SessD h h.
Proof. intros na se H. exists se. split; [exact H | apply sess_desc_refl]. Qed.
Lemma SessD_trans a b d : SessD a b -> SessD b d -> SessD a d.
Proof.
  intros H1 H2 na se H. destruct (H2 _ _ H) as [se1 [H3 H4]]. destruct (H1 _ _ H3) as [se0 [H5 H6]].
  exists se0. split; [exact H5 | eapply sess_desc_trans; eauto].
Qed.
Lemma SessD_same h h' : sessions h' = sessions h -> SessD h h'.
Proof. intros E na se H. rewrite E in H. exists se. split; [exact H | apply sess_desc_refl]. Qed.

(* [SessF h h']: no session of h is lost (forward simulation); holds for the functions that never
   remove a session. *)
Definition SessF (h h' : hstate) : Prop :=
  forall na se, In (na, se) (sessions h) -> exists se', In (na, se') (sessions h').
Lemma SessF_refl h : SessF h h.
Proof. intros na se H; eauto. Qed.
Lemma SessF_trans a b d : SessF a b -> SessF b d -> SessF a d.
Proof. intros H1 H2 na se H. destruct (H1 _ _ H) as [se1 H3]. exact (H2 _ _ H3). Qed.
Lemma SessF_same h h' : sessions h' = sessions h -> SessF h h'.
Proof. intros E na se H. rewrite E. eauto. Qed.

(* at most one session per node address *)
Definition SessUniq (h : hstate) : Prop := NoDup (map fst (sessions h)).
Definition UPres (h h' : hstate) : Prop := SessUniq h -> SessUniq h'.
Lemma UPres_same h h' : sessions h' = sessions h -> UPres h h'.
Proof. unfold UPres, SessUniq. intros ->. auto. Qed.

(* ------------------------------------------------------------------------------------------ *)
(* outputs: a step only appends *)

Definition OutsExt (P : output -> Prop) (s s' : st) : Prop :=
  exists l, outs s' = outs s ++ l /\ Forall P l.
Lemma OutsExt_refl P s : OutsExt P s s.
Proof. exists []. rewrite app_nil_r. auto. Qed.
Lemma OutsExt_trans P a b d : OutsExt P a b -> OutsExt P b d -> OutsExt P a d.
Proof.
  intros [l1 [E1 F1]] [l2 [E2 F2]]. exists (l1 ++ l2). rewrite E2, E1, app_assoc.
  split; [reflexivity | apply Forall_app; auto].
Qed.
Lemma OutsExt_same P s s' : outs s' = outs s -> OutsExt P s s'.
Proof. intros E. exists []. rewrite app_nil_r. auto. Qed.
Lemma OutsExt_emit (P : output -> Prop) s o : P o -> OutsExt P s (emit s o).
Proof. intros H. exists [o]. split; [reflexivity | auto]. Qed.
Lemma OutsExt_weaken (P Q : output -> Prop) s s' :
  (forall o, P o -> Q o) -> OutsExt P s s' -> OutsExt Q s s'.
Proof. intros H [l [E F]]. exists l. split; [exact E | eapply Forall_impl; eauto]. Qed.
Lemma OutsExt_In P s s' o : OutsExt P s s' -> In o (outs s') -> In o (outs s) \/ P o.
Proof.
  intros [l [E F]] H. rewrite E in H. apply in_app_or in H. destruct H as [H | H]; [left; exact H |].
  right. rewrite Forall_forall in F. auto.
Qed.

(* outputs of the "quiet" functions: datagrams and RequestFailed only *)
Definition quiet_out (o : output) : Prop :=
  match o with
  | OWire _ _ => True
  | OEvent (HRequestFailed _ _) => True
  | OEvent _ => False
  end.
(* ... that additionally send no handshake packet *)
Definition failed_out (o : output) : Prop :=
  match o with OEvent (HRequestFailed _ _) => True | _ => False end.
Lemma failed_quiet o : failed_out o -> quiet_out o.
Proof. destruct o as [[]|]; cbn; auto. Qed.

(* ------------------------------------------------------------------------------------------ *)
(* the frame of the "quiet" handler functions: challenges untouched, no new session / key, counters
   monotone, outputs appended are datagrams or RequestFailed *)

Definition QH (h h' : hstate) : Prop := challenges h' = challenges h /\ SessD h h' /\ UPres h h'.
Definition Quiet (s s' : st) : Prop := QH (hs s) (hs s') /\ OutsExt quiet_out s s'.

Lemma QH_refl h : QH h h.
Proof. split; [reflexivity | split; [apply SessD_refl | intros H; exact H]]. Qed.
Lemma QH_trans a b d : QH a b -> QH b d -> QH a d.
Proof.
  intros [E1 [D1 U1]] [E2 [D2 U2]]. split; [congruence | split; [eapply SessD_trans; eauto |]].
  intros H. apply U2. apply U1. exact H.
Qed.
Lemma QH_same h h' : challenges h' = challenges h -> sessions h' = sessions h -> QH h h'.
Proof. intros E1 E2. split; [exact E1 | split; [apply SessD_same; exact E2 | apply UPres_same; exact E2]]. Qed.

Lemma Quiet_refl s : Quiet s s.
Proof. split; [apply QH_refl | apply OutsExt_refl]. Qed.
Lemma Quiet_trans a b d : Quiet a b -> Quiet b d -> Quiet a d.
Proof. intros [H1 O1] [H2 O2]. split; [eapply QH_trans; eauto | eapply OutsExt_trans; eauto]. Qed.
Lemma Quiet_with_hs s h : QH (hs s) h -> Quiet s (with_hs s h).
Proof. intros H. split; [exact H | apply OutsExt_same; reflexivity]. Qed.
Lemma Quiet_emit s o : quiet_out o -> Quiet s (emit s o).
Proof. intros H. split; [apply QH_refl | apply OutsExt_emit; exact H]. Qed.
Lemma Quiet_send s na p : Quiet s (send s na p).
Proof. apply Quiet_emit. exact I. Qed.
Lemma Quiet_add_expected s a : Quiet s (add_expected s a).
Proof. apply Quiet_with_hs. apply QH_same; reflexivity. Qed.
Lemma Quiet_remove_expected s a : Quiet s (remove_expected s a).
Proof. apply Quiet_with_hs. apply QH_same; reflexivity. Qed.

(* primitive state operations *)
Lemma QH_set_active h a n : QH h (set_active h a n).
Proof. apply QH_same; reflexivity. Qed.
Lemma QH_set_pending h p : QH h (set_pending h p).
Proof. apply QH_same; reflexivity. Qed.
Lemma QH_ar_insert c h na r now : QH h (ar_insert c h na r now).
Proof. apply QH_same; reflexivity. Qed.
Lemma QH_push_pending h na q : QH h (push_pending h na q).
Proof. unfold push_pending. destruct (alist_get na (pending h)); apply QH_same; reflexivity. Qed.
Lemma QH_ar_remove_by_nonce h n : QH h (fst (ar_remove_by_nonce h n)).
Proof.
  unfold ar_remove_by_nonce. destruct (nmap_get n (nmap h)); [| apply QH_refl].
  destruct (alist_get n0 (active h)); [| apply QH_same; reflexivity].
  destruct (remove_first _ l) as [[r l'] |]; apply QH_same; reflexivity.
Qed.
Lemma QH_ar_remove_request h na rid : QH h (fst (ar_remove_request h na rid)).
Proof.
  unfold ar_remove_request. destruct (alist_get na (active h)); [| apply QH_refl].
  destruct (remove_first _ l) as [[r l'] |]; [apply QH_same; reflexivity | apply QH_refl].
Qed.
Lemma QH_ar_remove_requests h na : QH h (fst (ar_remove_requests h na)).
Proof.
  unfold ar_remove_requests. destruct (alist_get na (active h)); [| apply QH_refl].
  apply QH_same; reflexivity.
Qed.
Lemma QH_ar_update_packet c h old p now : QH h (ar_update_packet c h old p now).
Proof.
  unfold ar_update_packet. destruct (nmap_get old (nmap h)); [| apply QH_refl].
  destruct (alist_get n (active h)); apply QH_same; reflexivity.
Qed.

(* session cache *)
Lemma sess_get_some h na se :
  alist_get na (sessions h) = Some se ->
  sess_get h na = (set_sessions h (alist_remove na (sessions h) ++ [(na, se)]), Some se).
Proof. intros E. unfold sess_get. rewrite E. reflexivity. Qed.
Lemma sess_get_none h na : alist_get na (sessions h) = None -> sess_get h na = (h, None).
Proof. intros E. unfold sess_get. rewrite E. reflexivity. Qed.

Lemma sess_get_snd h na : snd (sess_get h na) = alist_get na (sessions h).
Proof. unfold sess_get. destruct (alist_get na (sessions h)); reflexivity. Qed.

Lemma sess_get_In h na : forall x, In x (sessions (fst (sess_get h na))) <-> In x (sessions h).
Proof.
  intros x. unfold sess_get. destruct (alist_get na (sessions h)) eqn:E; cbn [fst]; [| tauto].
  cbn [sessions set_sessions]. apply In_to_back. exact E.
Qed.
Lemma sess_get_got h na se : snd (sess_get h na) = Some se -> In (na, se) (sessions (fst (sess_get h na))).
Proof. rewrite sess_get_snd. intros E. apply sess_get_In. apply alist_get_In. exact E. Qed.

Lemma QH_sess_get h na : QH h (fst (sess_get h na)).
Proof.
  split; [| split].
  - unfold sess_get. destruct (alist_get na (sessions h)); reflexivity.
  - intros x se H. apply sess_get_In in H. exists se. split; [exact H | apply sess_desc_refl].
  - unfold UPres, SessUniq, sess_get. destruct (alist_get na (sessions h)); cbn [fst]; [| auto].
    cbn [sessions set_sessions]. apply to_back_NoDup.
Qed.
Lemma SessF_sess_get h na : SessF h (fst (sess_get h na)).
Proof. intros x se H. exists se. apply sess_get_In. exact H. Qed.

Lemma QH_sess_put h na se se' :
  In (na, se) (sessions h) -> sess_desc se se' -> QH h (sess_put h na se').
Proof.
  intros Hin Hd. split; [reflexivity | split].
  - intros x y H. cbn [sess_put sessions set_sessions] in H. apply In_alist_set in H.
    destruct H as [H | H].
    + inversion H; subst. exists se. auto.
    + exists y. split; [exact H | apply sess_desc_refl].
  - unfold UPres, SessUniq. cbn [sess_put sessions set_sessions]. rewrite alist_set_keys; [auto |].
    apply in_map_iff. exists (na, se). auto.
Qed.
Lemma SessF_sess_put h na se' : SessF h (sess_put h na se').
Proof.
  intros x y H. cbn [sess_put sessions set_sessions].
  destruct (alist_get na (sessions h)) as [v0 |] eqn:E.
  - destruct (In_alist_set_fwd na se' v0 _ _ E H) as [H1 | H1].
    + inversion H1; subst. exists se'. apply alist_set_has.
    + eauto.
  - destruct (naddr_eqb x na) eqn:E1.
    + apply naddr_eqb_eq in E1. subst. exists se'. apply alist_set_has.
    + exists y. revert H. generalize (sessions h). intros l.
      induction l as [| [k' v'] r IH]; cbn [alist_set]; [intros [] |].
      destruct (naddr_eqb na k') eqn:E2.
      * apply naddr_eqb_eq in E2. subst. intros [H | H]; [| right; exact H].
        inversion H; subst. rewrite naddr_eqb_refl in E1. discriminate.
      * intros [H | H]; [left; exact H | right; auto].
Qed.
Lemma QH_sess_remove h na : QH h (sess_remove h na).
Proof.
  split; [reflexivity | split].
  - intros x y H. cbn [sess_remove sessions set_sessions] in H.
    apply In_alist_remove in H. exists y. split; [exact H | apply sess_desc_refl].
  - unfold UPres, SessUniq. cbn [sess_remove sessions set_sessions]. apply alist_remove_NoDup.
Qed.

(* encrypt_message: only the counter, the draws and nothing of the state *)
Lemma encrypt_message_hs c s na se m : hs (fst (fst (encrypt_message c s na se m))) = hs s.
Proof. unfold encrypt_message. destruct (pop_pk (dr s)) as [[[[? ?] ?] ?] ?]. reflexivity. Qed.
Lemma encrypt_message_outs c s na se m : outs (fst (fst (encrypt_message c s na se m))) = outs s.
Proof. unfold encrypt_message. destruct (pop_pk (dr s)) as [[[[? ?] ?] ?] ?]. reflexivity. Qed.
Lemma encrypt_message_sess c s na se m :
  let se' := snd (fst (encrypt_message c s na se m)) in
  s_enc se' = s_enc se /\ s_dec se' = s_dec se /\ s_old se' = s_old se /\ s_await se' = s_await se /\
  s_counter se' = s_counter se + 1.
Proof. unfold encrypt_message. destruct (pop_pk (dr s)) as [[[[? ?] ?] ?] ?]. cbn. auto. Qed.
Lemma encrypt_message_desc c s na se m : sess_desc se (snd (fst (encrypt_message c s na se m))).
Proof.
  destruct (encrypt_message_sess c s na se m) as [E1 [E2 [E3 [_ E5]]]].
  split; [| lia]. unfold sess_keys. rewrite E1, E2, E3. apply incl_refl.
Qed.

(* decrypt_message: the keys are permuted or the old pair is dropped *)
Lemma decrypt_message_desc se n aad ct : sess_desc se (fst (decrypt_message se n aad ct)).
Proof.
  unfold decrypt_message. destruct (decrypt (s_dec se) n aad ct); [apply sess_desc_refl |].
  destruct (s_old se) as [[oe od] |] eqn:Eo; [| apply sess_desc_refl].
  destruct (decrypt od n aad ct); cbn [fst]; (split; [| cbn; lia]); unfold sess_keys; cbn; rewrite Eo;
    intros k; cbn; tauto.
Qed.
