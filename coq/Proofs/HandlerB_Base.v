(* Basic lemmas about Model/Handler.v used by the C01/C02/C03/C19 proofs (HandlerB_*.v):
   reflection of the decidable equalities, association lists, the frame relations
   ("which part of the state / which outputs can a handler function touch"). *)
From Coq Require Import List Arith NArith Bool Lia.
From Discv5V Require Import Model.Handler.
Import ListNotations.
Local Open Scope N_scope.

(* all repairs of DESIGN.md section 7 that concern the handler are enabled *)
Definition fixed_cfg (c : config) : Prop :=
  fix_d1 c = true /\ fix_d2a c = true /\ fix_d2b c = true /\ fix_d6 c = true.


(* ------------------------------------------------------------------------------------------ *)
(* the clock component of the environment: [with_clock] changes nothing else *)

Lemma with_clock_local c t : cfg_local (with_clock c t) = cfg_local c. Proof. reflexivity. Qed.
Lemma with_clock_enr c t : cfg_enr (with_clock c t) = cfg_enr c. Proof. reflexivity. Qed.
Lemma with_clock_retries c t : cfg_retries (with_clock c t) = cfg_retries c. Proof. reflexivity. Qed.
Lemma with_clock_timeout c t : cfg_timeout (with_clock c t) = cfg_timeout c. Proof. reflexivity. Qed.
Lemma with_clock_listen c t : cfg_listen (with_clock c t) = cfg_listen c. Proof. reflexivity. Qed.
Lemma with_clock_capacity c t : cfg_capacity (with_clock c t) = cfg_capacity c. Proof. reflexivity. Qed.
Lemma with_clock_ttl c t : cfg_session_ttl (with_clock c t) = cfg_session_ttl c. Proof. reflexivity. Qed.
Lemma with_clock_grid c t : cfg_grid (with_clock c t) = cfg_grid c. Proof. reflexivity. Qed.
Lemma with_clock_clock c t : cfg_clock (with_clock c t) = t. Proof. reflexivity. Qed.
Lemma with_clock_d1 c t : fix_d1 (with_clock c t) = fix_d1 c. Proof. reflexivity. Qed.
Lemma with_clock_d2a c t : fix_d2a (with_clock c t) = fix_d2a c. Proof. reflexivity. Qed.
Lemma with_clock_d2b c t : fix_d2b (with_clock c t) = fix_d2b c. Proof. reflexivity. Qed.
Lemma with_clock_d6 c t : fix_d6 (with_clock c t) = fix_d6 c. Proof. reflexivity. Qed.
Lemma with_clock_twice c t u : with_clock (with_clock c t) u = with_clock c u. Proof. reflexivity. Qed.
Lemma fixed_cfg_with_clock c t : fixed_cfg (with_clock c t) <-> fixed_cfg c.
Proof. unfold fixed_cfg. cbn [with_clock fix_d1 fix_d2a fix_d2b fix_d6]. tauto. Qed.
Lemma fire_time_with_clock c t d now : fire_time (with_clock c t) d now = fire_time c d now.
Proof. reflexivity. Qed.
Lemma establish_with_clock c t : establish (with_clock c t) = establish c.
Proof. reflexivity. Qed.

(* [touch] only stamps the entry *)
Lemma touch_enc se t : s_enc (touch se t) = s_enc se. Proof. reflexivity. Qed.
Lemma touch_dec se t : s_dec (touch se t) = s_dec se. Proof. reflexivity. Qed.
Lemma touch_old se t : s_old (touch se t) = s_old se. Proof. reflexivity. Qed.
Lemma touch_await se t : s_await (touch se t) = s_await se. Proof. reflexivity. Qed.
Lemma touch_counter se t : s_counter (touch se t) = s_counter se. Proof. reflexivity. Qed.
Lemma touch_used se t : s_used (touch se t) = t. Proof. reflexivity. Qed.
Lemma sess_expired_with_clock c t se :
  sess_expired (with_clock c t) se = N.ltb (s_used se + cfg_session_ttl c) t.
Proof. reflexivity. Qed.

(* ------------------------------------------------------------------------------------------ *)
(* reflection *)

Lemma naddr_eqb_eq (a b : naddr) : naddr_eqb a b = true <-> a = b.
Proof.
  destruct a as [a1 a2], b as [b1 b2]. unfold naddr_eqb. cbn [fst snd].
  rewrite andb_true_iff, !N.eqb_eq. split; [intros [-> ->]; reflexivity | intros H; inversion H; auto].
Qed.
Lemma naddr_eqb_refl (a : naddr) : naddr_eqb a a = true.
Proof. apply naddr_eqb_eq. reflexivity. Qed.
Lemma naddr_eqb_neq (a b : naddr) : naddr_eqb a b = false <-> a <> b.
Proof.
  split.
  - intros H E. apply naddr_eqb_eq in E. congruence.
  - intros H. destruct (naddr_eqb a b) eqn:E; [apply naddr_eqb_eq in E; contradiction | reflexivity].
Qed.
Lemma naddr_eqb_sym (a b : naddr) : naddr_eqb a b = naddr_eqb b a.
Proof.
  destruct (naddr_eqb a b) eqn:E.
  - apply naddr_eqb_eq in E. subst. symmetry. apply naddr_eqb_refl.
  - symmetry. apply naddr_eqb_neq. apply naddr_eqb_neq in E. congruence.
Qed.

Lemma nonce_eqb_eq (a b : nonce) : nonce_eqb a b = true <-> a = b.
Proof.
  destruct a as [a1 a2], b as [b1 b2]. unfold nonce_eqb. cbn [fst snd].
  rewrite andb_true_iff, !N.eqb_eq. split; [intros [-> ->]; reflexivity | intros H; inversion H; auto].
Qed.
Lemma nonce_eqb_refl (a : nonce) : nonce_eqb a a = true.
Proof. apply nonce_eqb_eq. reflexivity. Qed.
Lemma nonce_eqb_neq (a b : nonce) : nonce_eqb a b = false <-> a <> b.
Proof.
  split.
  - intros H E. apply nonce_eqb_eq in E. congruence.
  - intros H. destruct (nonce_eqb a b) eqn:E; [apply nonce_eqb_eq in E; contradiction | reflexivity].
Qed.

Lemma key_eqb_eq (a b : key) : key_eqb a b = true <-> a = b.
Proof.
  destruct a as [a1 a2 a3 a4 a5 a6], b as [b1 b2 b3 b4 b5 b6]. unfold key_eqb.
  cbn [k_eph k_static k_cd k_ida k_idb k_half].
  rewrite !andb_true_iff, !N.eqb_eq, Bool.eqb_true_iff.
  split.
  - intros [[[[[-> ->] ->] ->] ->] ->]. reflexivity.
  - intros H. inversion H. auto 10.
Qed.
Lemma key_eqb_refl (a : key) : key_eqb a a = true.
Proof. apply key_eqb_eq. reflexivity. Qed.

(* the symbolic AEAD: decryption succeeds exactly on the matching term *)
Lemma decrypt_Some k n a ct m : decrypt k n a ct = Some m <-> ct = CEnc k n m a.
Proof.
  unfold decrypt. destruct ct as [k' n' m' a' | j].
  - destruct (key_eqb k k') eqn:Ek; cbn [andb].
    + destruct (nonce_eqb n n') eqn:En; cbn [andb].
      * destruct (N.eqb a a') eqn:Ea.
        -- apply key_eqb_eq in Ek. apply nonce_eqb_eq in En. apply N.eqb_eq in Ea. subst.
           split; intros H; inversion H; reflexivity.
        -- apply N.eqb_neq in Ea. split; [discriminate | intros H; inversion H; subst; contradiction].
      * apply nonce_eqb_neq in En. split; [discriminate | intros H; inversion H; subst; contradiction].
    + split; [discriminate |].
      intros H; inversion H; subst. rewrite key_eqb_refl in Ek. discriminate.
  - split; discriminate.
Qed.

(* the symbolic signature: verification succeeds exactly on the matching term *)
Lemma verify_sig_true pk cd eph dst s :
  verify_sig pk cd eph dst s = true <-> s = Sig pk cd eph dst.
Proof.
  unfold verify_sig. destruct s as [k cd' eph' dst' | j].
  - rewrite !andb_true_iff, !N.eqb_eq. split.
    + intros [[[-> ->] ->] ->]. reflexivity.
    + intros H; inversion H; auto.
  - split; discriminate.
Qed.

(* ------------------------------------------------------------------------------------------ *)
(* association lists *)

Section Alist.
  Context {A : Type}.
  Implicit Types (l : list (naddr * A)) (k : naddr) (v : A).

  Lemma alist_get_In k l v : alist_get k l = Some v -> In (k, v) l.
  Proof.
    induction l as [| [k' v'] r IH]; cbn [alist_get]; [discriminate |].
    destruct (naddr_eqb k k') eqn:E.
    - intros H; inversion H; subst. apply naddr_eqb_eq in E. subst. left; reflexivity.
    - intros H. right. auto.
  Qed.

  Lemma alist_get_None k l : alist_get k l = None -> forall v, ~ In (k, v) l.
  Proof.
    induction l as [| [k' v'] r IH]; cbn [alist_get]; [intros _ v [] |].
    destruct (naddr_eqb k k') eqn:E; [discriminate |].
    intros H v [H1 | H1].
    - inversion H1; subst. rewrite naddr_eqb_refl in E. discriminate.
    - exact (IH H v H1).
  Qed.

  Lemma In_alist_get k v l : In (k, v) l -> exists v', alist_get k l = Some v'.
  Proof.
    intros H. destruct (alist_get k l) eqn:E; [eauto |]. exfalso. exact (alist_get_None _ _ E _ H).
  Qed.

  Lemma In_alist_remove k l x : In x (alist_remove k l) -> In x l.
  Proof.
    induction l as [| [k' v'] r IH]; cbn [alist_remove]; [auto |].
    destruct (naddr_eqb k k'); intros H; [right; exact H |].
    destruct H as [H | H]; [left; exact H | right; auto].
  Qed.

  Lemma In_alist_set k v l x : In x (alist_set k v l) -> x = (k, v) \/ In x l.
  Proof.
    induction l as [| [k' v'] r IH]; cbn [alist_set].
    - intros [H | []]. left; auto.
    - destruct (naddr_eqb k k'); intros [H | H]; auto.
      + right; right; exact H.
      + right; left; exact H.
      + destruct (IH H); auto. right; right; auto.
  Qed.

  (* forward direction: an entry survives alist_set unless it is the one being replaced *)
  Lemma In_alist_set_fwd k v v0 l x :
    alist_get k l = Some v0 -> In x l -> x = (k, v0) \/ In x (alist_set k v l).
  Proof.
    induction l as [| [k' v'] r IH]; cbn [alist_get alist_set]; [discriminate |].
    destruct (naddr_eqb k k') eqn:E.
    - intros H; inversion H; subst. apply naddr_eqb_eq in E. subst.
      intros [H1 | H1]; [left; auto | right; right; exact H1].
    - intros H [H1 | H1]; [right; left; exact H1 |].
      destruct (IH H H1); auto. right; right; auto.
  Qed.

  Lemma alist_set_has k v l : In (k, v) (alist_set k v l).
  Proof.
    induction l as [| [k' v'] r IH]; cbn [alist_set]; [left; reflexivity |].
    destruct (naddr_eqb k k'); [left; reflexivity | right; exact IH].
  Qed.

  (* to_back: the same entries *)
  Lemma In_to_back k v l x :
    alist_get k l = Some v -> (In x (alist_remove k l ++ [(k, v)]) <-> In x l).
  Proof.
    intros G. split.
    - intros H. apply in_app_or in H. destruct H as [H | [H | []]].
      + eapply In_alist_remove; eauto.
      + subst. apply alist_get_In; auto.
    - revert G. induction l as [| [k' v'] r IH]; cbn [alist_get alist_remove]; [discriminate |].
      destruct (naddr_eqb k k') eqn:E.
      + intros G; inversion G; subst. apply naddr_eqb_eq in E. subst.
        intros [H | H]; apply in_or_app; [right; left; auto | left; auto].
      + intros G [H | H]; [left; auto |]. right. auto.
  Qed.
  (* keys *)
  Lemma alist_set_keys k v l : In k (map fst l) -> map fst (alist_set k v l) = map fst l.
  Proof.
    induction l as [| [k' v'] r IH]; cbn [alist_set map fst]; [intros [] |].
    destruct (naddr_eqb k k') eqn:E.
    - apply naddr_eqb_eq in E. subst. reflexivity.
    - intros [H | H]; [subst; rewrite naddr_eqb_refl in E; discriminate |].
      cbn [map fst]. rewrite IH; auto.
  Qed.
  Lemma alist_remove_keys_incl k l : incl (map fst (alist_remove k l)) (map fst l).
  Proof. apply incl_map. intros x. apply In_alist_remove. Qed.
  Lemma alist_remove_NoDup k l : NoDup (map fst l) -> NoDup (map fst (alist_remove k l)).
  Proof.
    induction l as [| [k' v'] r IH]; cbn [alist_remove map fst]; [auto |].
    intros H. inversion H as [| x y H1 H2]; subst. destruct (naddr_eqb k k'); [exact H2 |].
    cbn [map fst]. constructor; [| auto]. intros Hin. apply H1. eapply alist_remove_keys_incl; eauto.
  Qed.
  Lemma alist_remove_gone k l : NoDup (map fst l) -> ~ In k (map fst (alist_remove k l)).
  Proof.
    induction l as [| [k' v'] r IH]; cbn [alist_remove map fst]; [auto |].
    intros H. inversion H as [| x y H1 H2]; subst. destruct (naddr_eqb k k') eqn:E.
    - apply naddr_eqb_eq in E. subst. exact H1.
    - cbn [map fst]. intros [Hin | Hin]; [subst; rewrite naddr_eqb_refl in E; discriminate |].
      exact (IH H2 Hin).
  Qed.
  Lemma to_back_NoDup k v l : NoDup (map fst l) -> NoDup (map fst (alist_remove k l ++ [(k, v)])).
  Proof.
    intros H. rewrite map_app. cbn [map fst].
    assert (Hs : forall (l0 : list naddr) x, NoDup l0 -> ~ In x l0 -> NoDup (l0 ++ [x])).
    { intros l0 x. induction l0 as [| a l0 IH]; cbn.
      - intros _ _. constructor; [intros [] | constructor].
      - intros Hn Hx. inversion Hn; subst. constructor.
        + intros Hin. apply in_app_or in Hin. destruct Hin as [Hin | [Hin | []]]; [contradiction | subst; apply Hx; left; reflexivity].
        + apply IH; [assumption | intros Hin; apply Hx; right; exact Hin]. }
    apply Hs; [apply alist_remove_NoDup; exact H | apply alist_remove_gone; exact H].
  Qed.

  (* lookups and membership coincide when keys are unique *)
  Lemma alist_In_uniq k v l : NoDup (map fst l) -> In (k, v) l -> alist_get k l = Some v.
  Proof.
    induction l as [| [k' v'] r IH]; cbn [alist_get map fst]; [intros _ [] |].
    intros H [Hin | Hin].
    - inversion Hin; subst. rewrite naddr_eqb_refl. reflexivity.
    - inversion H as [| x y H1 H2]; subst. destruct (naddr_eqb k k') eqn:E.
      + apply naddr_eqb_eq in E. subst. exfalso. apply H1. apply in_map_iff. exists (k', v). auto.
      + apply IH; assumption.
  Qed.
  Lemma alist_set_uniq k v x l :
    NoDup (map fst l) -> In (k, x) (alist_set k v l) -> x = v.
  Proof.
    induction l as [| [k' v'] r IH]; cbn [alist_set map fst].
    - intros _ [H | []]. inversion H; reflexivity.
    - intros Hn. inversion Hn as [| a b H1 H2]; subst. destruct (naddr_eqb k k') eqn:E.
      + apply naddr_eqb_eq in E. subst. intros [H | H]; [inversion H; reflexivity |].
        exfalso. apply H1. apply in_map_iff. exists (k', x). auto.
      + intros [H | H]; [inversion H; subst; rewrite naddr_eqb_refl in E; discriminate | auto].
  Qed.
  Lemma alist_get_remove_same k l : NoDup (map fst l) -> alist_get k (alist_remove k l) = None.
  Proof.
    intros H. destruct (alist_get k (alist_remove k l)) as [v |] eqn:E; [| reflexivity].
    exfalso. apply (alist_remove_gone k l H). apply alist_get_In in E. apply in_map_iff. exists (k, v). auto.
  Qed.
  Lemma alist_get_remove_other k k' l : k' <> k -> alist_get k' (alist_remove k l) = alist_get k' l.
  Proof.
    intros Hne. induction l as [| [k0 v0] r IH]; cbn [alist_remove alist_get]; [reflexivity |].
    destruct (naddr_eqb k k0) eqn:E.
    - apply naddr_eqb_eq in E. subst k0. destruct (naddr_eqb k' k) eqn:E'; [| reflexivity].
      apply naddr_eqb_eq in E'. contradiction.
    - cbn [alist_get]. destruct (naddr_eqb k' k0); [reflexivity | exact IH].
  Qed.
  Lemma alist_get_app k l1 l2 :
    alist_get k (l1 ++ l2) = match alist_get k l1 with Some v => Some v | None => alist_get k l2 end.
  Proof.
    induction l1 as [| [k0 v0] r IH]; cbn [app alist_get]; [reflexivity |].
    destruct (naddr_eqb k k0); [reflexivity | exact IH].
  Qed.
End Alist.

Lemma tl_In {A} (l : list A) x : In x (tl l) -> In x l.
Proof. destruct l; cbn; auto. Qed.

(* generic: a reflexive and transitive relation is preserved by fold_left *)
Lemma fold_left_rel {S B} (R : S -> S -> Prop) (f : S -> B -> S) :
  (forall a, R a a) -> (forall a b c, R a b -> R b c -> R a c) ->
  (forall a b, R a (f a b)) -> forall l a, R a (fold_left f l a).
Proof.
  intros Hr Ht Hf l. induction l as [| b l IH]; intros a; cbn [fold_left]; [apply Hr |].
  eapply Ht; [apply Hf | apply IH].
Qed.

(* ------------------------------------------------------------------------------------------ *)
(* sessions: keys and counters *)

Definition sess_keys (se : session) : list key :=
  s_enc se :: s_dec se :: match s_old se with Some (a, b) => [a; b] | None => [] end.

(* [SessD h h']: every session of h' descends from a session of h under the same node address:
   no new key, counter not smaller.  Reflexive and transitive. *)
Definition sess_desc (se se' : session) : Prop :=
  incl (sess_keys se') (sess_keys se) /\ s_counter se <= s_counter se'.
Definition SessD (h h' : hstate) : Prop :=
  forall na se', In (na, se') (sessions h') -> exists se, In (na, se) (sessions h) /\ sess_desc se se'.

Lemma sess_desc_refl se : sess_desc se se.
Proof. split; [apply incl_refl | lia]. Qed.
Lemma sess_desc_trans a b d : sess_desc a b -> sess_desc b d -> sess_desc a d.
Proof. intros [H1 H2] [H3 H4]. split; [eapply incl_tran; eauto | lia]. Qed.

Lemma SessD_refl h : SessD h h.
Proof. intros na se H. exists se. split; [exact H | apply sess_desc_refl]. Qed.
Lemma SessD_trans a b d : SessD a b -> SessD b d -> SessD a d.
Proof.
  intros H1 H2 na se H. destruct (H2 _ _ H) as [se1 [H3 H4]]. destruct (H1 _ _ H3) as [se0 [H5 H6]].
  exists se0. split; [exact H5 | eapply sess_desc_trans; eauto].
Qed.
Lemma SessD_same h h' : sessions h' = sessions h -> SessD h h'.
Proof. intros E na se H. rewrite E in H. exists se. split; [exact H | apply sess_desc_refl]. Qed.

(* [SessF h h']: no session of h is lost (forward simulation); holds for the functions that never
   remove a session. *)
Definition SessF (h h' : hstate) : Prop :=
  forall na se, In (na, se) (sessions h) -> exists se', In (na, se') (sessions h').
Lemma SessF_refl h : SessF h h.
Proof. intros na se H; eauto. Qed.
Lemma SessF_trans a b d : SessF a b -> SessF b d -> SessF a d.
Proof. intros H1 H2 na se H. destruct (H1 _ _ H) as [se1 H3]. exact (H2 _ _ H3). Qed.
Lemma SessF_same h h' : sessions h' = sessions h -> SessF h h'.
Proof. intros E na se H. rewrite E. eauto. Qed.

(* at most one session per node address *)
Definition SessUniq (h : hstate) : Prop := NoDup (map fst (sessions h)).
Definition UPres (h h' : hstate) : Prop := SessUniq h -> SessUniq h'.
Lemma UPres_same h h' : sessions h' = sessions h -> UPres h h'.
Proof. unfold UPres, SessUniq. intros ->. auto. Qed.

(* ------------------------------------------------------------------------------------------ *)
(* outputs: a step only appends *)

Definition OutsExt (P : output -> Prop) (s s' : st) : Prop :=
  exists l, outs s' = outs s ++ l /\ Forall P l.
Lemma OutsExt_refl P s : OutsExt P s s.
Proof. exists []. rewrite app_nil_r. auto. Qed.
Lemma OutsExt_trans P a b d : OutsExt P a b -> OutsExt P b d -> OutsExt P a d.
Proof.
  intros [l1 [E1 F1]] [l2 [E2 F2]]. exists (l1 ++ l2). rewrite E2, E1, app_assoc.
  split; [reflexivity | apply Forall_app; auto].
Qed.
Lemma OutsExt_same P s s' : outs s' = outs s -> OutsExt P s s'.
Proof. intros E. exists []. rewrite app_nil_r. auto. Qed.
Lemma OutsExt_emit (P : output -> Prop) s o : P o -> OutsExt P s (emit s o).
Proof. intros H. exists [o]. split; [reflexivity | auto]. Qed.
Lemma OutsExt_weaken (P Q : output -> Prop) s s' :
  (forall o, P o -> Q o) -> OutsExt P s s' -> OutsExt Q s s'.
Proof. intros H [l [E F]]. exists l. split; [exact E | eapply Forall_impl; eauto]. Qed.
Lemma OutsExt_In P s s' o : OutsExt P s s' -> In o (outs s') -> In o (outs s) \/ P o.
Proof.
  intros [l [E F]] H. rewrite E in H. apply in_app_or in H. destruct H as [H | H]; [left; exact H |].
  right. rewrite Forall_forall in F. auto.
Qed.

(* outputs of the "quiet" functions: datagrams, RequestFailed and the report of purged (expired)
   sessions only *)
Definition quiet_out (o : output) : Prop :=
  match o with
  | OWire _ _ => True
  | OEvent (HRequestFailed _ _) => True
  | OEvent (HExpiredSessions _) => True
  | OEvent _ => False
  end.
(* ... that additionally send no datagram *)
Definition failed_out (o : output) : Prop :=
  match o with OEvent (HRequestFailed _ _) => True | OEvent (HExpiredSessions _) => True | _ => False end.
Lemma failed_quiet o : failed_out o -> quiet_out o.
Proof. destruct o as [[]|]; cbn; auto. Qed.

(* ------------------------------------------------------------------------------------------ *)
(* the frame of the "quiet" handler functions: challenges untouched, no new session / key, counters
   monotone, outputs appended are datagrams or RequestFailed *)

Definition QH (h h' : hstate) : Prop := challenges h' = challenges h /\ SessD h h' /\ UPres h h'.
Definition Quiet (s s' : st) : Prop := QH (hs s) (hs s') /\ OutsExt quiet_out s s'.

Lemma QH_refl h : QH h h.
Proof. split; [reflexivity | split; [apply SessD_refl | intros H; exact H]]. Qed.
Lemma QH_trans a b d : QH a b -> QH b d -> QH a d.
Proof.
  intros [E1 [D1 U1]] [E2 [D2 U2]]. split; [congruence | split; [eapply SessD_trans; eauto |]].
  intros H. apply U2. apply U1. exact H.
Qed.
Lemma QH_same h h' : challenges h' = challenges h -> sessions h' = sessions h -> QH h h'.
Proof. intros E1 E2. split; [exact E1 | split; [apply SessD_same; exact E2 | apply UPres_same; exact E2]]. Qed.

Lemma Quiet_refl s : Quiet s s.
Proof. split; [apply QH_refl | apply OutsExt_refl]. Qed.
Lemma Quiet_trans a b d : Quiet a b -> Quiet b d -> Quiet a d.
Proof. intros [H1 O1] [H2 O2]. split; [eapply QH_trans; eauto | eapply OutsExt_trans; eauto]. Qed.
Lemma Quiet_with_hs s h : QH (hs s) h -> Quiet s (with_hs s h).
Proof. intros H. split; [exact H | apply OutsExt_same; reflexivity]. Qed.
Lemma Quiet_emit s o : quiet_out o -> Quiet s (emit s o).
Proof. intros H. split; [apply QH_refl | apply OutsExt_emit; exact H]. Qed.
Lemma Quiet_send s na p : Quiet s (send s na p).
Proof. apply Quiet_emit. exact I. Qed.
Lemma Quiet_add_expected s a : Quiet s (add_expected s a).
Proof. apply Quiet_with_hs. apply QH_same; reflexivity. Qed.
Lemma Quiet_remove_expected s a : Quiet s (remove_expected s a).
Proof. apply Quiet_with_hs. apply QH_same; reflexivity. Qed.

(* primitive state operations *)
Lemma QH_set_active h a n : QH h (set_active h a n).
Proof. apply QH_same; reflexivity. Qed.
Lemma QH_set_pending h p : QH h (set_pending h p).
Proof. apply QH_same; reflexivity. Qed.
Lemma QH_ar_insert c h na r now : QH h (ar_insert c h na r now).
Proof. apply QH_same; reflexivity. Qed.
Lemma QH_push_pending h na q : QH h (push_pending h na q).
Proof. unfold push_pending. destruct (alist_get na (pending h)); apply QH_same; reflexivity. Qed.
Lemma QH_ar_remove_by_nonce h n : QH h (fst (ar_remove_by_nonce h n)).
Proof.
  unfold ar_remove_by_nonce. destruct (nmap_get n (nmap h)); [| apply QH_refl].
  destruct (alist_get n0 (active h)); [| apply QH_same; reflexivity].
  destruct (remove_first _ l) as [[r l'] |]; apply QH_same; reflexivity.
Qed.
Lemma QH_ar_remove_request h na rid : QH h (fst (ar_remove_request h na rid)).
Proof.
  unfold ar_remove_request. destruct (alist_get na (active h)); [| apply QH_refl].
  destruct (remove_first _ l) as [[r l'] |]; [apply QH_same; reflexivity | apply QH_refl].
Qed.
Lemma QH_ar_remove_requests h na : QH h (fst (ar_remove_requests h na)).
Proof.
  unfold ar_remove_requests. destruct (alist_get na (active h)); [| apply QH_refl].
  apply QH_same; reflexivity.
Qed.
Lemma QH_ar_update_packet c h old p now : QH h (ar_update_packet c h old p now).
Proof.
  unfold ar_update_packet. destruct (nmap_get old (nmap h)); [| apply QH_refl].
  destruct (alist_get n (active h)); apply QH_same; reflexivity.
Qed.

(* session cache *)
Lemma sess_keys_touch se t : sess_keys (touch se t) = sess_keys se.
Proof. reflexivity. Qed.
Lemma touch_desc se t : sess_desc se (touch se t).
Proof. split; [apply incl_refl | cbn; lia]. Qed.

(* the three cases of LruTimeCache::get_mut *)
Lemma sess_get_some c h na se :
  alist_get na (sessions h) = Some se -> sess_expired c se = false ->
  sess_get c h na = (set_sessions h (alist_remove na (sessions h) ++ [(na, touch se (cfg_clock c))]),
                     Some (touch se (cfg_clock c))).
Proof. intros E X. unfold sess_get. rewrite E, X. reflexivity. Qed.
Lemma sess_get_expired c h na se :
  alist_get na (sessions h) = Some se -> sess_expired c se = true ->
  sess_get c h na = (set_sessions h (alist_remove na (sessions h)), None).
Proof. intros E X. unfold sess_get. rewrite E, X. reflexivity. Qed.
Lemma sess_get_none c h na : alist_get na (sessions h) = None -> sess_get c h na = (h, None).
Proof. intros E. unfold sess_get. rewrite E. reflexivity. Qed.

Lemma sess_get_snd c h na :
  snd (sess_get c h na) =
  match alist_get na (sessions h) with
  | Some s => if sess_expired c s then None else Some (touch s (cfg_clock c))
  | None => None
  end.
Proof.
  unfold sess_get. destruct (alist_get na (sessions h)) as [s |]; [| reflexivity].
  destruct (sess_expired c s); reflexivity.
Qed.
(* the session returned is the stored one, stamped; the stored one had not expired *)
Lemma sess_get_stored c h na se :
  snd (sess_get c h na) = Some se ->
  exists s0, alist_get na (sessions h) = Some s0 /\ sess_expired c s0 = false /\ se = touch s0 (cfg_clock c).
Proof.
  rewrite sess_get_snd. destruct (alist_get na (sessions h)) as [s0 |]; [| discriminate].
  destruct (sess_expired c s0) eqn:X; [discriminate |]. intros E; inversion E. eauto.
Qed.

(* the other fields are untouched *)
Lemma sess_get_frame c h na :
  let h' := fst (sess_get c h na) in
  active h' = active h /\ nmap h' = nmap h /\ pending h' = pending h /\ challenges h' = challenges h /\
  expected h' = expected h.
Proof.
  cbn zeta. unfold sess_get. destruct (alist_get na (sessions h)) as [s |]; [| cbn; auto].
  destruct (sess_expired c s); cbn; auto.
Qed.

(* every entry afterwards was there before, except that the entry found is stamped *)
Lemma sess_get_In c h na x :
  In x (sessions (fst (sess_get c h na))) ->
  In x (sessions h) \/
  exists s0, alist_get na (sessions h) = Some s0 /\ sess_expired c s0 = false /\ x = (na, touch s0 (cfg_clock c)).
Proof.
  unfold sess_get. destruct (alist_get na (sessions h)) as [s |] eqn:E; cbn [fst]; [| auto].
  destruct (sess_expired c s) eqn:X; cbn [fst sessions set_sessions].
  - intros H. left. eapply In_alist_remove; eauto.
  - intros H. apply in_app_or in H. destruct H as [H | [H | []]].
    + left. eapply In_alist_remove; eauto.
    + right. exists s. auto.
Qed.
Lemma sess_get_got c h na se :
  snd (sess_get c h na) = Some se -> In (na, se) (sessions (fst (sess_get c h na))).
Proof.
  unfold sess_get. destruct (alist_get na (sessions h)) as [s |]; [| discriminate].
  destruct (sess_expired c s); [discriminate |]. cbn [fst snd sessions set_sessions].
  intros E; inversion E; subst. apply in_or_app. right. left. reflexivity.
Qed.
(* nothing found: no entry under [na] is left (at most one entry per address) *)
Lemma sess_get_gone c h na :
  SessUniq h -> snd (sess_get c h na) = None -> forall se, ~ In (na, se) (sessions (fst (sess_get c h na))).
Proof.
  intros HU. unfold sess_get. destruct (alist_get na (sessions h)) as [s |] eqn:E.
  - destruct (sess_expired c s); [| discriminate]. intros _ se Hin. cbn [fst sessions set_sessions] in Hin.
    apply (alist_remove_gone na (sessions h) HU). apply in_map_iff. exists (na, se). auto.
  - intros _ se Hin. exact (alist_get_None _ _ E _ Hin).
Qed.

Lemma SessD_sess_get c h na : SessD h (fst (sess_get c h na)).
Proof.
  intros x se H. destruct (sess_get_In c h na (x, se) H) as [H1 | [s0 [E [_ H1]]]].
  - exists se. split; [exact H1 | apply sess_desc_refl].
  - inversion H1; subst. exists s0. split; [apply alist_get_In; exact E | apply touch_desc].
Qed.
Lemma QH_sess_get c h na : QH h (fst (sess_get c h na)).
Proof.
  split; [| split].
  - apply (sess_get_frame c h na).
  - apply SessD_sess_get.
  - unfold UPres, SessUniq, sess_get. destruct (alist_get na (sessions h)) as [s |]; cbn [fst]; [| auto].
    destruct (sess_expired c s); cbn [fst sessions set_sessions].
    + apply alist_remove_NoDup.
    + apply to_back_NoDup.
Qed.

(* LruTimeCache::remove_expired_values: a prefix of expired entries is dropped *)
Lemma drop_expired_split c l :
  exists pre, l = pre ++ snd (drop_expired c l) /\ map fst pre = fst (drop_expired c l) /\
    Forall (fun x => sess_expired c (snd x) = true) pre.
Proof.
  induction l as [| [na se] r IH]; cbn [drop_expired].
  - exists []. auto.
  - destruct (sess_expired c se) eqn:X.
    + destruct IH as [pre [E1 [E2 F]]]. destruct (drop_expired c r) as [ks r']. cbn [fst snd] in *.
      exists ((na, se) :: pre). cbn [app map fst]. rewrite <- E1, E2. split; [reflexivity | split; [reflexivity |]].
      constructor; [exact X | exact F].
    + exists []. cbn. auto.
Qed.
Lemma drop_expired_incl c l : incl (snd (drop_expired c l)) l.
Proof.
  destruct (drop_expired_split c l) as [pre [E _]]. intros x H. rewrite E. apply in_or_app. right. exact H.
Qed.
(* an entry that has not expired survives *)
Lemma drop_expired_keeps c l na se :
  alist_get na l = Some se -> sess_expired c se = false -> alist_get na (snd (drop_expired c l)) = Some se.
Proof.
  induction l as [| [k v] r IH]; cbn [alist_get drop_expired]; [discriminate |].
  destruct (sess_expired c v) eqn:X.
  - destruct (naddr_eqb na k); [intros E; inversion E; subst; congruence |].
    intros E Hx. specialize (IH E Hx). destruct (drop_expired c r) as [ks r']. exact IH.
  - intros E _. cbn [snd alist_get]. exact E.
Qed.
Lemma NoDup_app_r {A} (l1 l2 : list A) : NoDup (l1 ++ l2) -> NoDup l2.
Proof. induction l1 as [| a l1 IH]; cbn; [auto |]. intros H. inversion H; auto. Qed.
Lemma drop_expired_NoDup c l : NoDup (map fst l) -> NoDup (map fst (snd (drop_expired c l))).
Proof.
  destruct (drop_expired_split c l) as [pre [E _]]. intros H. rewrite E, map_app in H.
  eapply NoDup_app_r; eauto.
Qed.
Lemma QH_drop_expired c h : QH h (set_sessions h (snd (drop_expired c (sessions h)))).
Proof.
  split; [reflexivity | split].
  - intros na se H. cbn [sessions set_sessions] in H. exists se.
    split; [apply (drop_expired_incl c); exact H | apply sess_desc_refl].
  - unfold UPres, SessUniq. cbn [sessions set_sessions]. apply drop_expired_NoDup.
Qed.
(* Handler::remove_expired_sessions in closed form *)
Lemma remove_expired_sessions_eq c s :
  remove_expired_sessions c s =
  match fst (drop_expired c (sessions (hs s))) with
  | [] => s
  | ks => emit (with_hs s (set_sessions (hs s) (snd (drop_expired c (sessions (hs s))))))
            (OEvent (HExpiredSessions ks))
  end.
Proof.
  unfold remove_expired_sessions. destruct (drop_expired c (sessions (hs s))) as [ks l]. cbn [fst snd].
  destruct ks; reflexivity.
Qed.
Lemma remove_expired_sessions_hs c s :
  hs (remove_expired_sessions c s) = hs s \/
  hs (remove_expired_sessions c s) = set_sessions (hs s) (snd (drop_expired c (sessions (hs s)))).
Proof.
  rewrite remove_expired_sessions_eq. destruct (fst (drop_expired c (sessions (hs s)))); [left | right]; reflexivity.
Qed.
Lemma remove_expired_sessions_keeps c s na se :
  alist_get na (sessions (hs s)) = Some se -> sess_expired c se = false ->
  alist_get na (sessions (hs (remove_expired_sessions c s))) = Some se.
Proof.
  intros E X. destruct (remove_expired_sessions_hs c s) as [H | H]; rewrite H; [exact E |].
  cbn [sessions set_sessions]. apply drop_expired_keeps; assumption.
Qed.
Lemma QH_remove_expired_sessions c s : QH (hs s) (hs (remove_expired_sessions c s)).
Proof.
  destruct (remove_expired_sessions_hs c s) as [E | E]; rewrite E; [apply QH_refl | apply QH_drop_expired].
Qed.
Lemma remove_expired_sessions_outs c s :
  OutsExt failed_out s (remove_expired_sessions c s).
Proof.
  rewrite remove_expired_sessions_eq. destruct (fst (drop_expired c (sessions (hs s)))) as [| k ks].
  - apply OutsExt_refl.
  - exists [OEvent (HExpiredSessions (k :: ks))]. split; [reflexivity |]. constructor; [exact I | constructor].
Qed.

Lemma QH_sess_put h na se se' :
  In (na, se) (sessions h) -> sess_desc se se' -> QH h (sess_put h na se').
Proof.
  intros Hin Hd. split; [reflexivity | split].
  - intros x y H. cbn [sess_put sessions set_sessions] in H. apply In_alist_set in H.
    destruct H as [H | H].
    + inversion H; subst. exists se. auto.
    + exists y. split; [exact H | apply sess_desc_refl].
  - unfold UPres, SessUniq. cbn [sess_put sessions set_sessions]. rewrite alist_set_keys; [auto |].
    apply in_map_iff. exists (na, se). auto.
Qed.
Lemma SessF_sess_put h na se' : SessF h (sess_put h na se').
Proof.
  intros x y H. cbn [sess_put sessions set_sessions].
  destruct (alist_get na (sessions h)) as [v0 |] eqn:E.
  - destruct (In_alist_set_fwd na se' v0 _ _ E H) as [H1 | H1].
    + inversion H1; subst. exists se'. apply alist_set_has.
    + eauto.
  - destruct (naddr_eqb x na) eqn:E1.
    + apply naddr_eqb_eq in E1. subst. exists se'. apply alist_set_has.
    + exists y. revert H. generalize (sessions h). intros l.
      induction l as [| [k' v'] r IH]; cbn [alist_set]; [intros [] |].
      destruct (naddr_eqb na k') eqn:E2.
      * apply naddr_eqb_eq in E2. subst. intros [H | H]; [| right; exact H].
        inversion H; subst. rewrite naddr_eqb_refl in E1. discriminate.
      * intros [H | H]; [left; exact H | right; auto].
Qed.
Lemma QH_sess_remove h na : QH h (sess_remove h na).
Proof.
  split; [reflexivity | split].
  - intros x y H. cbn [sess_remove sessions set_sessions] in H.
    apply In_alist_remove in H. exists y. split; [exact H | apply sess_desc_refl].
  - unfold UPres, SessUniq. cbn [sess_remove sessions set_sessions]. apply alist_remove_NoDup.
Qed.

(* encrypt_message: only the counter, the draws and nothing of the state *)
Lemma encrypt_message_hs c s na se m : hs (fst (fst (encrypt_message c s na se m))) = hs s.
Proof. unfold encrypt_message. destruct (pop_pk (dr s)) as [[[[? ?] ?] ?] ?]. reflexivity. Qed.
Lemma encrypt_message_outs c s na se m : outs (fst (fst (encrypt_message c s na se m))) = outs s.
Proof. unfold encrypt_message. destruct (pop_pk (dr s)) as [[[[? ?] ?] ?] ?]. reflexivity. Qed.
Lemma encrypt_message_sess c s na se m :
  let se' := snd (fst (encrypt_message c s na se m)) in
  s_enc se' = s_enc se /\ s_dec se' = s_dec se /\ s_old se' = s_old se /\ s_await se' = s_await se /\
  s_counter se' = s_counter se + 1 /\ s_used se' = s_used se.
Proof. unfold encrypt_message. destruct (pop_pk (dr s)) as [[[[? ?] ?] ?] ?]. cbn. auto 10. Qed.
Lemma encrypt_message_desc c s na se m : sess_desc se (snd (fst (encrypt_message c s na se m))).
Proof.
  destruct (encrypt_message_sess c s na se m) as [E1 [E2 [E3 [_ [E5 _]]]]].
  split; [| lia]. unfold sess_keys. rewrite E1, E2, E3. apply incl_refl.
Qed.

(* decrypt_message: the keys are permuted or the old pair is dropped *)
Lemma decrypt_message_desc se n aad ct : sess_desc se (fst (decrypt_message se n aad ct)).
Proof.
  unfold decrypt_message. destruct (decrypt (s_dec se) n aad ct); [apply sess_desc_refl |].
  destruct (s_old se) as [[oe od] |] eqn:Eo; [| apply sess_desc_refl].
  destruct (decrypt od n aad ct); cbn [fst]; (split; [| cbn; lia]); unfold sess_keys; cbn; rewrite Eo;
    intros k; cbn; tauto.
Qed.
