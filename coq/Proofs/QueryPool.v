(* Proofs about the query pool of Model/Query.v (C09): every query in the pool is a reachable
   state of its state machine, poll never panics, a query past its deadline makes the pool
   progress, results are handed out at most once per add. *)
From Coq Require Import List Arith NArith Bool Lia Sorted.
From Discv5V Require Import Model.Query Proofs.Query.
Import ListNotations.
Local Open Scope N_scope.

Definition ids (qs : list (N * pquery)) : list N := map fst qs.

(* the query is a state its state machine can reach from with_config *)
Definition qreach (q : query) : Prop :=
  exists k c t known evs os, run evs (with_config k c t known) = Some (q, os).

Lemma qreach_init k c t known : qreach (with_config k c t known).
Proof. exists k, c, t, known, [], []. reflexivity. Qed.

Lemma qreach_step q e q' o : qreach q -> step q e = Some (q', o) -> qreach q'.
Proof.
  intros (k & c & t & known & evs & os & R) S. exists k, c, t, known, (evs ++ [e]), (os ++ [o]).
  rewrite run_app, R. cbn [run]. rewrite S. reflexivity.
Qed.

Lemma qreach_wf q : qreach q -> wf q.
Proof.
  intros (k & c & t & known & evs & os & R).
  eapply run_wf; [|exact R]. apply (io_wf _ _ (with_config_init k c t known)).
Qed.

Lemma qreach_fin q : qreach q -> fin_inv q.
Proof.
  intros (k & c & t & known & evs & os & R). eapply run_fin; [|exact R]. intros F; cbn in F; discriminate.
Qed.

Record pinv (qs : list (N * pquery)) : Prop := {
  pi_nodup : NoDup (ids qs);
  pi_reach : forall i x, In (i, x) qs -> qreach (qiter x)
}.

(* ------------------------------------------------------------------------------------------ *)
(* the association list *)

Lemma q_find_in i qs x : q_find i qs = Some x -> In (i, x) qs.
Proof.
  induction qs as [|[j y] r IH]; cbn [q_find]; [discriminate|].
  destruct (N.eqb_spec i j); intros H; [inversion H; subst; left; reflexivity|right; auto].
Qed.

Lemma q_find_none i qs : q_find i qs = None <-> ~ In i (ids qs).
Proof.
  induction qs as [|[j y] r IH]; cbn [q_find ids map fst]; [tauto|].
  destruct (N.eqb_spec i j).
  - split; [discriminate|]. intros H; exfalso; apply H; left; auto.
  - rewrite IH. unfold ids. split; [intros H [E|I]; [congruence|auto]|intros H I; apply H; right; exact I].
Qed.

Lemma q_find_some_ids i qs x : q_find i qs = Some x -> In i (ids qs).
Proof. intros H. apply q_find_in in H. apply in_map_iff. exists (i, x); auto. Qed.

Lemma in_q_find i x qs : NoDup (ids qs) -> In (i, x) qs -> q_find i qs = Some x.
Proof.
  induction qs as [|[j y] r IH]; cbn [q_find ids map fst]; intros ND I; [destruct I|].
  apply NoDup_cons_iff in ND as [NI ND]. destruct I as [E|I].
  - inversion E; subst. rewrite N.eqb_refl. reflexivity.
  - destruct (N.eqb_spec i j); [|auto]. subst. exfalso. apply NI. apply in_map_iff. exists (j, x); auto.
Qed.

Lemma q_insert_ids_present i x qs : In i (ids qs) -> ids (q_insert i x qs) = ids qs.
Proof.
  induction qs as [|[j y] r IH]; cbn [q_insert ids map fst]; [intros []|].
  destruct (N.eqb_spec i j); [reflexivity|]. intros [E|I]; [congruence|].
  cbn [map fst]. f_equal. apply IH; exact I.
Qed.

Lemma q_insert_ids_absent i x qs : ~ In i (ids qs) -> ids (q_insert i x qs) = ids qs ++ [i].
Proof.
  induction qs as [|[j y] r IH]; cbn [q_insert ids map fst]; [reflexivity|].
  intros NI. destruct (N.eqb_spec i j); [exfalso; apply NI; left; auto|].
  cbn [map fst app]. f_equal. apply IH. intros I; apply NI; right; exact I.
Qed.

Lemma q_insert_back i x qs j y : In (j, y) (q_insert i x qs) -> (j = i /\ y = x) \/ In (j, y) qs.
Proof.
  induction qs as [|[j0 y0] r IH]; cbn [q_insert].
  - intros [E|[]]; inversion E; auto.
  - destruct (N.eqb_spec i j0); intros [E|I].
    + inversion E; subst; auto.
    + right; right; exact I.
    + right; left; exact E.
    + destruct (IH I); auto. right; right; auto.
Qed.

Lemma q_find_insert_same i x qs : q_find i (q_insert i x qs) = Some x.
Proof.
  induction qs as [|[j y] r IH]; cbn [q_insert q_find]; [rewrite N.eqb_refl; reflexivity|].
  destruct (N.eqb_spec i j); cbn [q_find].
  - subst. rewrite N.eqb_refl. reflexivity.
  - destruct (N.eqb_spec i j); [contradiction|exact IH].
Qed.

Lemma q_find_insert_other i j x qs : i <> j -> q_find i (q_insert j x qs) = q_find i qs.
Proof.
  intros ne. induction qs as [|[j0 y] r IH]; cbn [q_insert q_find].
  - destruct (N.eqb_spec i j); [contradiction|reflexivity].
  - destruct (N.eqb_spec j j0); cbn [q_find].
    + subst. destruct (N.eqb_spec i j0); [contradiction|reflexivity].
    + destruct (i =? j0); [reflexivity|exact IH].
Qed.

Lemma q_remove_ids i qs : NoDup (ids qs) -> NoDup (ids (q_remove i qs)) /\ ~ In i (ids (q_remove i qs)) /\
  (forall j, j <> i -> (In j (ids (q_remove i qs)) <-> In j (ids qs))) /\
  (forall j y, In (j, y) (q_remove i qs) -> In (j, y) qs).
Proof.
  induction qs as [|[j0 y0] r IH]; cbn [q_remove ids map fst]; intros ND.
  - repeat split; auto; tauto.
  - apply NoDup_cons_iff in ND as [NI ND]. destruct (N.eqb_spec i j0).
    + subst. repeat split; auto.
      * intros I; right; exact I.
      * intros [E|I]; [congruence|auto].
      * intros; right; auto.
    + destruct (IH ND) as (A & B & C & D). cbn [ids map fst]. repeat split.
      * constructor; [|exact A]. intros I. apply NI. destruct (N.eq_dec j0 i); [congruence|]. apply (C j0); auto.
      * intros [E|I]; [congruence|auto].
      * intros [E|I]; [left; exact E|right; apply (C j); auto].
      * intros [E|I]; [left; exact E|right; apply (C j); auto].
      * intros j y [E|I]; [left; exact E|right; apply D; exact I].
Qed.

Lemma pinv_insert i x qs : pinv qs -> qreach (qiter x) -> pinv (q_insert i x qs).
Proof.
  intros [ND RE] Rx. constructor.
  - destruct (in_dec N.eq_dec i (ids qs)) as [I|NI].
    + rewrite q_insert_ids_present; auto.
    + rewrite q_insert_ids_absent; auto. apply NoDup_snoc; auto.
  - intros j y I. apply q_insert_back in I as [[-> ->]|I]; [exact Rx|eauto].
Qed.

Lemma pinv_remove i qs : pinv qs -> pinv (q_remove i qs).
Proof.
  intros [ND RE]. destruct (q_remove_ids i qs ND) as (A & _ & _ & D). constructor; [exact A|].
  intros j y I. eapply RE. apply D. exact I.
Qed.

(* ------------------------------------------------------------------------------------------ *)
(* the weight of the pool: one per query plus its NotContacted peers *)

Definition qweight (x : pquery) : N := 1 + cnt fNC (peers (qiter x)).
Fixpoint mu (qs : list (N * pquery)) : N :=
  match qs with [] => 0 | (_, x) :: r => qweight x + mu r end.

Lemma mu_insert i x x' qs : q_find i qs = Some x -> mu (q_insert i x' qs) + qweight x = mu qs + qweight x'.
Proof.
  induction qs as [|[j y] r IH]; cbn [q_find q_insert]; [discriminate|].
  destruct (N.eqb_spec i j); intros H.
  - inversion H; subst. cbn [mu]. lia.
  - cbn [mu]. specialize (IH H). lia.
Qed.

Lemma mu_remove i x qs : q_find i qs = Some x -> mu (q_remove i qs) + qweight x = mu qs.
Proof.
  induction qs as [|[j y] r IH]; cbn [q_find q_remove]; [discriminate|].
  destruct (N.eqb_spec i j); intros H.
  - inversion H; subst. cbn [mu]. lia.
  - cbn [mu]. specialize (IH H). lia.
Qed.

(* ------------------------------------------------------------------------------------------ *)
(* the scan of poll *)

Definition overdue (now timeout : N) (x : pquery) : Prop :=
  exists s, started x = Some s /\ timeout <= now - s.

Definition scan_post (now timeout : N) (qs' : list (N * pquery)) (sc : scan) : Prop :=
  match sc with
  | ScNone => True
  | ScFinished i => exists x, q_find i qs' = Some x /\ prog (qiter x) = Finished
  | ScWaiting i p => exists x, q_find i qs' = Some x /\ prog (qiter x) <> Finished
  | ScTimeout i => exists x, q_find i qs' = Some x /\ overdue now timeout x
  end.

Lemma poll_scan_spec now timeout order : forall qs qs' sc,
  pinv qs -> poll_scan now timeout order qs = Some (qs', sc) ->
  pinv qs' /\ ids qs' = ids qs /\ scan_post now timeout qs' sc /\
  (forall i x, q_find i qs = Some x -> exists x', q_find i qs' = Some x' /\
                  (started x' = started x \/ (started x = None /\ started x' = Some now))) /\
  match sc with ScWaiting _ _ => mu qs' + 1 = mu qs | _ => mu qs' = mu qs end.
Proof.
  induction order as [|i rest IH]; intros qs qs' sc PI H; cbn [poll_scan] in H.
  - inversion H; subst. split; [exact PI|]. split; [reflexivity|]. split; [exact I|].
    split; [intros i x F; exists x; auto|reflexivity].
  - destruct (q_find i qs) as [x|] eqn:F; [|apply IH; auto].
    destruct (next (qiter x) now) as [[q1 s]|] eqn:E; [|discriminate].
    set (st := match started x with Some s0 => s0 | None => now end) in *.
    set (x1 := {| qiter := q1; started := Some st |}) in *.
    set (qs1 := q_insert i x1 qs) in *.
    assert (R1 : qreach q1).
    { eapply (qreach_step _ (ENext now)); [eapply pi_reach; [exact PI|apply q_find_in; exact F]|].
      cbn [step]. rewrite E. reflexivity. }
    assert (PI1 : pinv qs1) by (apply pinv_insert; auto).
    assert (ID1 : ids qs1 = ids qs) by (apply q_insert_ids_present; eapply q_find_some_ids; eauto).
    assert (ST1 : forall j y, q_find j qs = Some y -> exists y', q_find j qs1 = Some y' /\
                    (started y' = started y \/ (started y = None /\ started y' = Some now))).
    { intros j y Fj. destruct (N.eq_dec j i) as [->|ne].
      - rewrite F in Fj. inversion Fj; subst y. exists x1. split; [apply q_find_insert_same|].
        cbn [x1 started]. unfold st. destruct (started x); auto.
      - exists y. split; [|auto]. unfold qs1. rewrite q_find_insert_other; auto. }
    assert (MU1 : mu qs1 + cnt fNC (peers (qiter x)) = mu qs + cnt fNC (peers q1)).
    { pose proof (mu_insert i x x1 qs F) as M. unfold qweight in M. cbn [x1 qiter] in M. fold qs1 in M. lia. }
    assert (FOUND : q_find i qs1 = Some x1) by apply q_find_insert_same.
    assert (DONE : forall sc0, Some (qs1, sc0) = Some (qs', sc) ->
              scan_post now timeout qs1 sc0 ->
              match sc0 with ScWaiting _ _ => mu qs1 + 1 = mu qs | _ => mu qs1 = mu qs end ->
              pinv qs' /\ ids qs' = ids qs /\ scan_post now timeout qs' sc /\
              (forall i x, q_find i qs = Some x -> exists x', q_find i qs' = Some x' /\
                  (started x' = started x \/ (started x = None /\ started x' = Some now))) /\
              match sc with ScWaiting _ _ => mu qs' + 1 = mu qs | _ => mu qs' = mu qs end).
    { intros sc0 E0 SP M. inversion E0; subst. split; [exact PI1|]. split; [exact ID1|]. split; [exact SP|].
      split; [exact ST1|exact M]. }
    assert (CONT : poll_scan now timeout rest qs1 = Some (qs', sc) -> mu qs1 = mu qs ->
              pinv qs' /\ ids qs' = ids qs /\ scan_post now timeout qs' sc /\
              (forall i x, q_find i qs = Some x -> exists x', q_find i qs' = Some x' /\
                  (started x' = started x \/ (started x = None /\ started x' = Some now))) /\
              match sc with ScWaiting _ _ => mu qs' + 1 = mu qs | _ => mu qs' = mu qs end).
    { intros H' M. destruct (IH _ _ _ PI1 H') as (A & B & C & D & G).
      split; [exact A|]. split; [congruence|]. split; [exact C|]. split.
      - intros j y Fj. destruct (ST1 _ _ Fj) as (y1 & Fj1 & S1). destruct (D _ _ Fj1) as (y2 & Fj2 & S2).
        exists y2. split; [exact Fj2|]. destruct S1 as [S1|[S1 S1']], S2 as [S2|[S2 S2']]; try congruence; auto.
        + left; congruence.
        + right; split; congruence.
        + right; split; congruence.
      - destruct sc; lia. }
    destruct s as [[p|]| |].
    + (* Waiting(Some p) *)
      apply next_emit in E as (NF & PR & _ & B & _).
      apply DONE in H; auto.
      * cbn [scan_post]. exists x1. split; [exact FOUND|]. cbn [x1 qiter]. congruence.
      * lia.
    + (* Waiting(None) *)
      pose proof (next_no_emit _ _ _ _ E ltac:(intros; discriminate)) as B.
      destruct (timeout <=? now - st) eqn:TO.
      * apply DONE in H; auto; [|lia].
        cbn [scan_post]. exists x1. split; [exact FOUND|]. exists st. split; [reflexivity|].
        apply N.leb_le; exact TO.
      * apply CONT; auto. lia.
    + (* WaitingAtCapacity *)
      pose proof (next_no_emit _ _ _ _ E ltac:(intros; discriminate)) as B.
      destruct (timeout <=? now - st) eqn:TO.
      * apply DONE in H; auto; [|lia].
        cbn [scan_post]. exists x1. split; [exact FOUND|]. exists st. split; [reflexivity|].
        apply N.leb_le; exact TO.
      * apply CONT; auto. lia.
    + (* Finished *)
      pose proof (next_no_emit _ _ _ _ E ltac:(intros; discriminate)) as B.
      apply DONE in H; auto; [|lia].
      cbn [scan_post]. exists x1. split; [exact FOUND|]. cbn [x1 qiter].
      apply next_inv in E as [(Fin & -> & _)|(_ & _ & lo & _ & M)]; [exact Fin|].
      destruct lo; try (destruct M as [M _]; discriminate); [tauto|].
      destruct M as [(_ & M & _)|(_ & _ & M)]; [discriminate|exact M].
Qed.

Lemma poll_scan_no_panic now timeout order : forall qs, pinv qs -> poll_scan now timeout order qs <> None.
Proof.
  induction order as [|i rest IH]; intros qs PI; cbn [poll_scan]; [discriminate|].
  destruct (q_find i qs) as [x|] eqn:F; [|apply IH; exact PI].
  assert (Rx : qreach (qiter x)) by (eapply pi_reach; [exact PI|apply q_find_in; exact F]).
  pose proof (step_no_panic (qiter x) (ENext now) (qreach_wf _ Rx)) as NP. cbn [step] in NP.
  destruct (next (qiter x) now) as [[q1 s]|] eqn:E; [|congruence].
  assert (PI1 : pinv (q_insert i {| qiter := q1; started := Some match started x with Some s0 => s0 | None => now end |} qs)).
  { apply pinv_insert; [exact PI|]. cbn [qiter]. eapply (qreach_step _ (ENext now)); [exact Rx|].
    cbn [step]. rewrite E. reflexivity. }
  destruct s as [[p|]| |]; try discriminate; (destruct (timeout <=? _); [discriminate|apply IH; exact PI1]).
Qed.

(* a query past the deadline stops the scan: at it or before it *)
Lemma poll_scan_overdue now timeout order : forall qs qs' sc i x,
  In i order -> q_find i qs = Some x -> overdue now timeout x ->
  poll_scan now timeout order qs = Some (qs', sc) -> sc <> ScNone.
Proof.
  induction order as [|j rest IH]; intros qs qs' sc i x I F OD H; [destruct I|]. cbn [poll_scan] in H.
  destruct (q_find j qs) as [y|] eqn:Fj.
  - destruct (next (qiter y) now) as [[q1 s]|] eqn:E; [|discriminate].
    assert (CONT : timeout <=? now - match started y with Some s0 => s0 | None => now end = false ->
              poll_scan now timeout rest
                (q_insert j {| qiter := q1; started := Some match started y with Some s0 => s0 | None => now end |} qs)
              = Some (qs', sc) -> sc <> ScNone).
    { intros TO H'. destruct (N.eq_dec i j) as [->|ne].
      - exfalso. rewrite F in Fj. inversion Fj; subst y. destruct OD as (s0 & St & L). rewrite St in TO.
        apply N.leb_gt in TO. lia.
      - destruct I as [->|I]; [congruence|]. eapply IH; [exact I| |exact OD|exact H'].
        rewrite q_find_insert_other; auto. }
    destruct s as [[p|]| |]; try (inversion H; subst; discriminate);
      (destruct (timeout <=? _) eqn:TO; [inversion H; subst; discriminate|apply CONT; auto]).
  - destruct I as [->|I]; [congruence|]. eapply IH; eauto.
Qed.

Lemma mem_N_spec i l : mem_N i l = true <-> In i l.
Proof.
  unfold mem_N. rewrite existsb_exists. split.
  - intros (x & I & E). apply N.eqb_eq in E. subst; exact I.
  - intros I. exists i. split; [exact I|apply N.eqb_refl].
Qed.

Lemma visit_order_complete order qs i x : q_find i qs = Some x -> In i (visit_order order qs).
Proof.
  intros F. unfold visit_order. apply in_or_app.
  destruct (mem_N i order) eqn:M; [left; apply mem_N_spec; exact M|right].
  apply filter_In. split; [eapply q_find_some_ids; eauto|]. rewrite M. reflexivity.
Qed.

(* ------------------------------------------------------------------------------------------ *)
(* the pool *)

Definition ppinv (p : pool) : Prop := pinv (queries p).

Lemma pool_new_inv timeout : ppinv (pool_new timeout).
Proof. constructor; [constructor|intros i x []]. Qed.

(* the outcome of a poll in terms of the pool before and after *)
Lemma pool_poll_spec p now order p' out : ppinv p -> pool_poll p now order = Some (p', out) ->
  ppinv p' /\ next_id p' = next_id p /\ query_timeout p' = query_timeout p /\
  match out with
  | PIdle => queries p' = [] /\ mu (queries p') = mu (queries p) /\ ids (queries p') = ids (queries p)
  | PWaiting None => mu (queries p') = mu (queries p) /\ ids (queries p') = ids (queries p)
  | PWaiting (Some (i, peer)) =>
    mu (queries p') + 1 = mu (queries p) /\ ids (queries p') = ids (queries p) /\
    exists x, q_find i (queries p') = Some x /\ prog (qiter x) <> Finished
  | PFinished i x =>
    mu (queries p') < mu (queries p) /\ In i (ids (queries p)) /\ ~ In i (ids (queries p')) /\
    (forall j, j <> i -> (In j (ids (queries p')) <-> In j (ids (queries p)))) /\
    qreach (qiter x) /\ prog (qiter x) = Finished
  | PTimeout i x =>
    mu (queries p') < mu (queries p) /\ In i (ids (queries p)) /\ ~ In i (ids (queries p')) /\
    (forall j, j <> i -> (In j (ids (queries p')) <-> In j (ids (queries p)))) /\
    qreach (qiter x) /\ overdue now (query_timeout p) x
  end /\
  (forall i x, q_find i (queries p) = Some x ->
     q_find i (queries p') = None \/
     exists x', q_find i (queries p') = Some x' /\
                (started x' = started x \/ (started x = None /\ started x' = Some now))).
Proof.
  unfold pool_poll, ppinv. intros PI H.
  destruct (poll_scan now (query_timeout p) (visit_order order (queries p)) (queries p)) as [[qs sc]|] eqn:SC;
    [|discriminate].
  destruct (poll_scan_spec _ _ _ _ _ _ PI SC) as (PI' & ID & SP & ST & MU).
  assert (REM : forall i x, q_find i qs = Some x ->
            mu (q_remove i qs) < mu qs /\ ~ In i (ids (q_remove i qs)) /\
            (forall j, j <> i -> In j (ids (q_remove i qs)) <-> In j (ids qs)) /\ qreach (qiter x)).
  { intros i x F. pose proof (mu_remove _ _ _ F) as M. unfold qweight in M.
    destruct (q_remove_ids i qs (pi_nodup _ PI')) as (_ & B & C & _).
    split; [lia|]. split; [exact B|]. split; [exact C|].
    eapply pi_reach; [exact PI'|apply q_find_in; exact F]. }
  destruct sc as [|i|i peer|i]; cbn [scan_post] in SP.
  - (* nothing to report *)
    assert (E : (p', out) = ({| next_id := next_id p; query_timeout := query_timeout p; queries := qs |},
                             match qs with [] => PIdle | _ => PWaiting None end)).
    { destruct qs; inversion H; reflexivity. }
    inversion E; subst; clear E H. cbn [queries next_id query_timeout].
    split; [exact PI'|]. split; [reflexivity|]. split; [reflexivity|]. split.
    + destruct qs; auto.
    + intros i x F. right. destruct (ST _ _ F) as (x' & F' & S'). eauto.
  - (* finished *)
    destruct SP as (x & F & Fin). rewrite F in H. inversion H; subst; clear H.
    cbn [queries next_id query_timeout]. destruct (REM _ _ F) as (A & B & C & D).
    split; [apply pinv_remove; exact PI'|]. split; [reflexivity|]. split; [reflexivity|]. split.
    + split; [lia|]. split; [rewrite <- ID; eapply q_find_some_ids; eauto|]. split; [exact B|].
      split; [intros j ne; rewrite (C j ne), ID; tauto|]. auto.
    + intros j y Fj. destruct (ST _ _ Fj) as (y' & Fj' & S').
      destruct (N.eq_dec j i) as [->|ne].
      * left. apply q_find_none. exact B.
      * right. exists y'. split; [|exact S'].
        apply in_q_find; [apply (pi_nodup _ (pinv_remove i _ PI'))|].
        clear - Fj' ne. induction qs as [|[j0 y0] r IH]; cbn [q_find q_remove] in *; [discriminate|].
        destruct (N.eqb_spec j j0).
        -- inversion Fj'; subst. destruct (N.eqb_spec i j0); [congruence|left; reflexivity].
        -- destruct (N.eqb_spec i j0); [apply q_find_in; exact Fj'|right; apply IH; exact Fj'].
  - (* a new request *)
    destruct SP as (x & F & NF). inversion H; subst; clear H. cbn [queries next_id query_timeout].
    split; [exact PI'|]. split; [reflexivity|]. split; [reflexivity|]. split.
    + split; [exact MU|]. split; [exact ID|]. eauto.
    + intros j y Fj. right. destruct (ST _ _ Fj) as (y' & Fj' & S'). eauto.
  - (* timeout *)
    destruct SP as (x & F & OD). rewrite F in H. inversion H; subst; clear H.
    cbn [queries next_id query_timeout]. destruct (REM _ _ F) as (A & B & C & D).
    split; [apply pinv_remove; exact PI'|]. split; [reflexivity|]. split; [reflexivity|]. split.
    + split; [lia|]. split; [rewrite <- ID; eapply q_find_some_ids; eauto|]. split; [exact B|].
      split; [intros j ne; rewrite (C j ne), ID; tauto|]. auto.
    + intros j y Fj. destruct (ST _ _ Fj) as (y' & Fj' & S').
      destruct (N.eq_dec j i) as [->|ne].
      * left. apply q_find_none. exact B.
      * right. exists y'. split; [|exact S'].
        apply in_q_find; [apply (pi_nodup _ (pinv_remove i _ PI'))|].
        clear - Fj' ne. induction qs as [|[j0 y0] r IH]; cbn [q_find q_remove] in *; [discriminate|].
        destruct (N.eqb_spec j j0).
        -- inversion Fj'; subst. destruct (N.eqb_spec i j0); [congruence|left; reflexivity].
        -- destruct (N.eqb_spec i j0); [apply q_find_in; exact Fj'|right; apply IH; exact Fj'].
Qed.

Lemma pool_poll_no_panic p now order : ppinv p -> pool_poll p now order <> None.
Proof.
  unfold pool_poll, ppinv. intros PI.
  pose proof (poll_scan_no_panic now (query_timeout p) (visit_order order (queries p)) _ PI) as NP.
  destruct (poll_scan _ _ _ _) as [[qs sc]|] eqn:SC; [|congruence].
  destruct (poll_scan_spec _ _ _ _ _ _ PI SC) as (_ & _ & SP & _).
  destruct sc as [|i|i peer|i]; cbn [scan_post] in SP.
  - destruct qs; discriminate.
  - destruct SP as (x & -> & _). discriminate.
  - discriminate.
  - destruct SP as (x & -> & _). discriminate.
Qed.

(* poll_after_deadline *)
Lemma poll_after_deadline p now order i x p' out :
  ppinv p -> q_find i (queries p) = Some x -> overdue now (query_timeout p) x ->
  pool_poll p now order = Some (p', out) ->
  match out with
  | PFinished _ _ | PTimeout _ _ | PWaiting (Some _) => True
  | PIdle | PWaiting None => False
  end.
Proof.
  unfold pool_poll, ppinv. intros PI F OD H.
  destruct (poll_scan _ _ _ _) as [[qs sc]|] eqn:SC; [|discriminate].
  pose proof (poll_scan_overdue _ _ _ _ _ _ _ _ (visit_order_complete order _ _ _ F) F OD SC) as NN.
  destruct sc as [|j|j peer|j]; [congruence| | |].
  - destruct (q_find j qs); inversion H; subst; exact I.
  - inversion H; subst; exact I.
  - destruct (q_find j qs); inversion H; subst; exact I.
Qed.

(* ------------------------------------------------------------------------------------------ *)
(* every event keeps the pool invariant; no event panics *)

Lemma pstep_inv p e p' o : ppinv p -> pstep p e = Some (p', o) -> ppinv p'.
Proof.
  unfold ppinv. intros PI H. destruct e as [k c t known|now order|i node closer|i node]; cbn [pstep] in H.
  - unfold pool_add in H. inversion H; subst; clear H. cbn [queries].
    apply pinv_insert; [exact PI|]. apply qreach_init.
  - destruct (pool_poll p now order) as [[p1 s]|] eqn:E; [|discriminate]. inversion H; subst.
    apply (pool_poll_spec _ _ _ _ _ PI E).
  - unfold pool_on_success in H. destruct (q_find i (queries p)) as [x|] eqn:F; [|inversion H; subst; exact PI].
    destruct (on_success (qiter x) node closer) as [q1|] eqn:E; [|discriminate]. inversion H; subst; clear H.
    cbn [queries]. apply pinv_insert; [exact PI|]. cbn [qiter].
    eapply (qreach_step _ (ESuccess node closer)); [eapply pi_reach; [exact PI|apply q_find_in; exact F]|].
    cbn [step]. rewrite E. reflexivity.
  - unfold pool_on_failure in H. destruct (q_find i (queries p)) as [x|] eqn:F; [|inversion H; subst; exact PI].
    destruct (on_failure (qiter x) node) as [q1|] eqn:E; [|discriminate]. inversion H; subst; clear H.
    cbn [queries]. apply pinv_insert; [exact PI|]. cbn [qiter].
    eapply (qreach_step _ (EFailure node)); [eapply pi_reach; [exact PI|apply q_find_in; exact F]|].
    cbn [step]. rewrite E. reflexivity.
Qed.

Lemma pstep_no_panic p e : ppinv p -> pstep p e <> None.
Proof.
  intros PI. destruct e as [k c t known|now order|i node closer|i node]; cbn [pstep].
  - destruct (pool_add p k c t known); discriminate.
  - pose proof (pool_poll_no_panic p now order PI). destruct (pool_poll p now order) as [[? ?]|]; congruence.
  - unfold pool_on_success. destruct (q_find i (queries p)) as [x|] eqn:F; [|discriminate].
    assert (W : wf (qiter x)) by (apply qreach_wf; eapply pi_reach; [exact PI|apply q_find_in; exact F]).
    pose proof (step_no_panic _ (ESuccess node closer) W) as NP. cbn [step] in NP.
    destruct (on_success (qiter x) node closer); [discriminate|congruence].
  - unfold pool_on_failure. destruct (q_find i (queries p)) as [x|] eqn:F; [|discriminate].
    assert (W : wf (qiter x)) by (apply qreach_wf; eapply pi_reach; [exact PI|apply q_find_in; exact F]).
    pose proof (step_no_panic _ (EFailure node) W) as NP. cbn [step] in NP.
    destruct (on_failure (qiter x) node); [discriminate|congruence].
Qed.

Lemma prun_inv evs : forall p p' os, ppinv p -> prun evs p = Some (p', os) -> ppinv p'.
Proof.
  induction evs as [|e evs IH]; intros p p' os PI H; cbn [prun] in H.
  - inversion H; subst; exact PI.
  - destruct (pstep p e) as [[p1 o]|] eqn:S; [|discriminate].
    destruct (prun evs p1) as [[p2 os1]|] eqn:R; [|discriminate]. inversion H; subst.
    eapply IH; [|exact R]. eapply pstep_inv; eauto.
Qed.

Lemma prun_no_panic evs : forall p, ppinv p -> prun evs p <> None.
Proof.
  induction evs as [|e evs IH]; intros p PI; cbn [prun]; [discriminate|].
  pose proof (pstep_no_panic p e PI). destruct (pstep p e) as [[p1 o]|] eqn:S; [|congruence].
  specialize (IH p1 (pstep_inv _ _ _ _ PI S)). destruct (prun evs p1) as [[? ?]|]; congruence.
Qed.

(* ------------------------------------------------------------------------------------------ *)
(* result_once: per id, results handed out <= adds; strictly fewer while the id is in the pool *)

Definition is_terminal (i : N) (o : pout) : bool :=
  match o with
  | POPoll (PFinished j _) | POPoll (PTimeout j _) => i =? j
  | _ => false
  end.
Definition is_added (i : N) (o : pout) : bool :=
  match o with POAdded j => i =? j | _ => false end.
Definition count_out (f : pout -> bool) (os : list pout) : nat := length (filter f os).

Definition once_inv (p : pool) (nterm nadd : N -> nat) : Prop :=
  forall i, (In i (ids (queries p)) -> (nterm i + 1 <= nadd i)%nat) /\
            (~ In i (ids (queries p)) -> (nterm i <= nadd i)%nat).

Lemma pstep_once p e p' o nterm nadd : ppinv p -> pstep p e = Some (p', o) -> once_inv p nterm nadd ->
  once_inv p' (fun i => (nterm i + if is_terminal i o then 1 else 0)%nat)
              (fun i => (nadd i + if is_added i o then 1 else 0)%nat).
Proof.
  intros PI H OI. destruct e as [k c t known|now order|j node closer|j node]; cbn [pstep] in H.
  - unfold pool_add in H. inversion H; subst; clear H. intros i. cbn [queries is_terminal is_added].
    destruct (OI i) as [A B].
    destruct (in_dec N.eq_dec (next_id p) (ids (queries p))) as [I|NI].
    + rewrite q_insert_ids_present by exact I. destruct (N.eqb_spec i (next_id p)); split; intros Hi.
      * specialize (A Hi). lia.
      * exfalso. apply Hi. subst. exact I.
      * specialize (A Hi). lia.
      * specialize (B Hi). lia.
    + rewrite q_insert_ids_absent by exact NI. destruct (N.eqb_spec i (next_id p)); split; intros Hi.
      * subst. specialize (B NI). lia.
      * exfalso. apply Hi. apply in_or_app. right. left. auto.
      * apply in_app_or in Hi as [Hi|[E|[]]]; [specialize (A Hi); lia|congruence].
      * assert (~ In i (ids (queries p))) by (intros I; apply Hi; apply in_or_app; left; exact I).
        specialize (B H). lia.
  - destruct (pool_poll p now order) as [[p1 s]|] eqn:E; [|discriminate]. inversion H; subst; clear H.
    destruct (pool_poll_spec _ _ _ _ _ PI E) as (_ & _ & _ & OUT & _). intros i. destruct (OI i) as [A B].
    cbn [is_added]. destruct s as [|[[j peer]|]|j x|j x]; cbn [is_terminal].
    + destruct OUT as (_ & _ & ID). rewrite ID. split; intros; [specialize (A H)|specialize (B H)]; lia.
    + destruct OUT as (_ & ID & _). rewrite ID. split; intros; [specialize (A H)|specialize (B H)]; lia.
    + destruct OUT as (_ & ID). rewrite ID. split; intros; [specialize (A H)|specialize (B H)]; lia.
    + destruct OUT as (_ & IN & NIN & OTH & _). destruct (N.eqb_spec i j).
      * subst. split; intros; [contradiction|]. specialize (A IN). lia.
      * rewrite (OTH i n). split; intros; [specialize (A H)|specialize (B H)]; lia.
    + destruct OUT as (_ & IN & NIN & OTH & _). destruct (N.eqb_spec i j).
      * subst. split; intros; [contradiction|]. specialize (A IN). lia.
      * rewrite (OTH i n). split; intros; [specialize (A H)|specialize (B H)]; lia.
  - assert (ID : ids (queries p') = ids (queries p)).
    { unfold pool_on_success in H. destruct (q_find j (queries p)) as [x|] eqn:F; [|inversion H; subst; reflexivity].
      destruct (on_success (qiter x) node closer); [|discriminate]. inversion H; subst. cbn [queries].
      apply q_insert_ids_present. eapply q_find_some_ids; eauto. }
    assert (O : o = POUnit).
    { unfold pool_on_success in H. destruct (q_find j (queries p)); [|inversion H; reflexivity].
      destruct (on_success _ _ _); inversion H; reflexivity. }
    subst o. cbn [is_terminal is_added]. intros i. rewrite ID. destruct (OI i) as [A B].
    split; intros Hi; [specialize (A Hi)|specialize (B Hi)]; lia.
  - assert (ID : ids (queries p') = ids (queries p)).
    { unfold pool_on_failure in H. destruct (q_find j (queries p)) as [x|] eqn:F; [|inversion H; subst; reflexivity].
      destruct (on_failure (qiter x) node); [|discriminate]. inversion H; subst. cbn [queries].
      apply q_insert_ids_present. eapply q_find_some_ids; eauto. }
    assert (O : o = POUnit).
    { unfold pool_on_failure in H. destruct (q_find j (queries p)); [|inversion H; reflexivity].
      destruct (on_failure _ _); inversion H; reflexivity. }
    subst o. cbn [is_terminal is_added]. intros i. rewrite ID. destruct (OI i) as [A B].
    split; intros Hi; [specialize (A Hi)|specialize (B Hi)]; lia.
Qed.

Lemma prun_once evs : forall p p' os nterm nadd, ppinv p -> prun evs p = Some (p', os) -> once_inv p nterm nadd ->
  once_inv p' (fun i => (nterm i + count_out (is_terminal i) os)%nat)
              (fun i => (nadd i + count_out (is_added i) os)%nat).
Proof.
  induction evs as [|e evs IH]; intros p p' os nterm nadd PI H OI; cbn [prun] in H.
  - inversion H; subst. intros i. unfold count_out; cbn. rewrite !Nat.add_0_r. apply OI.
  - destruct (pstep p e) as [[p1 o]|] eqn:S; [|discriminate].
    destruct (prun evs p1) as [[p2 os1]|] eqn:R; [|discriminate]. inversion H; subst; clear H.
    pose proof (IH _ _ _ _ _ (pstep_inv _ _ _ _ PI S) R (pstep_once _ _ _ _ _ _ PI S OI)) as OI'.
    intros i. specialize (OI' i). unfold count_out in *. cbn [filter].
    destruct (is_terminal i o), (is_added i o); cbn [length]; destruct OI' as [A B]; split; intros Hi;
      try specialize (A Hi); try specialize (B Hi); lia.
Qed.

Lemma result_once timeout evs p os i :
  prun evs (pool_new timeout) = Some (p, os) ->
  (count_out (is_terminal i) os <= count_out (is_added i) os)%nat /\
  (In i (ids (queries p)) -> (count_out (is_terminal i) os < count_out (is_added i) os)%nat).
Proof.
  intros R.
  pose proof (prun_once evs _ _ _ (fun _ => 0%nat) (fun _ => 0%nat) (pool_new_inv timeout) R) as OI.
  assert (OI0 : once_inv (pool_new timeout) (fun _ => 0%nat) (fun _ => 0%nat)).
  { intros j. cbn. split; [intros []|lia]. }
  specialize (OI OI0 i). cbn in OI. destruct OI as [A B]. split.
  - destruct (in_dec N.eq_dec i (ids (queries p))) as [I|NI]; [specialize (A I)|specialize (B NI)]; lia.
  - intros I. specialize (A I). lia.
Qed.

(* ------------------------------------------------------------------------------------------ *)
(* progress: the weight of the pool *)

Lemma pool_mu_poll p now order p' out : ppinv p -> pool_poll p now order = Some (p', out) ->
  mu (queries p') <= mu (queries p) /\
  (match out with PIdle | PWaiting None => True | _ => mu (queries p') < mu (queries p) end) /\
  (forall j, In j (ids (queries p')) -> In j (ids (queries p))).
Proof.
  intros PI H. destruct (pool_poll_spec _ _ _ _ _ PI H) as (_ & _ & _ & OUT & _).
  destruct out as [|[[j peer]|]|j x|j x].
  - destruct OUT as (_ & M & ID). rewrite ID. repeat split; auto; lia.
  - destruct OUT as (M & ID & _). rewrite ID. repeat split; auto; lia.
  - destruct OUT as (M & ID). rewrite ID. repeat split; auto; lia.
  - destruct OUT as (M & _ & NIN & OTH & _). repeat split; try lia.
    intros i I. destruct (N.eq_dec i j); [subst; contradiction|]. apply (OTH i); auto.
  - destruct OUT as (M & _ & NIN & OTH & _). repeat split; try lia.
    intros i I. destruct (N.eq_dec i j); [subst; contradiction|]. apply (OTH i); auto.
Qed.

Lemma pool_mu_failure p i node p' : pool_on_failure p i node = Some p' -> mu (queries p') = mu (queries p).
Proof.
  unfold pool_on_failure. destruct (q_find i (queries p)) as [x|] eqn:F; [|intros H; inversion H; reflexivity].
  destruct (on_failure (qiter x) node) as [q1|] eqn:E; [|discriminate]. intros H; inversion H; subst; clear H.
  cbn [queries]. pose proof (mu_insert i x {| qiter := q1; started := started x |} _ F) as M.
  unfold qweight in M. cbn [qiter] in M. rewrite (on_failure_budget _ _ _ E) in M. lia.
Qed.

Lemma pool_mu_success p i node closer p' : pool_on_success p i node closer = Some p' ->
  mu (queries p') <= mu (queries p) + N.of_nat (length closer).
Proof.
  unfold pool_on_success. destruct (q_find i (queries p)) as [x|] eqn:F; [|intros H; inversion H; lia].
  destruct (on_success (qiter x) node closer) as [q1|] eqn:E; [|discriminate]. intros H; inversion H; subst; clear H.
  cbn [queries]. pose proof (mu_insert i x {| qiter := q1; started := started x |} _ F) as M.
  unfold qweight in M. cbn [qiter] in M. pose proof (on_success_budget _ _ _ _ E). lia.
Qed.

Definition polls (l : list (N * list N)) : list pevent := map (fun no => PPoll (fst no) (snd no)) l.

Lemma polls_absent l : forall p p' os i, ppinv p -> prun (polls l) p = Some (p', os) ->
  q_find i (queries p) = None -> q_find i (queries p') = None.
Proof.
  induction l as [|[now order] l IH]; intros p p' os i PI R F; cbn [polls map prun] in R.
  - inversion R; subst; exact F.
  - cbn [pstep fst snd] in R. destruct (pool_poll p now order) as [[p1 s]|] eqn:E; [|discriminate].
    destruct (prun (map _ l) p1) as [[p2 os1]|] eqn:R1; [|discriminate]. inversion R; subst; clear R.
    destruct (pool_poll_spec _ _ _ _ _ PI E) as (PI1 & _). destruct (pool_mu_poll _ _ _ _ _ PI E) as (_ & _ & SUB).
    eapply IH; [exact PI1|exact R1|]. apply q_find_none. intros I. apply q_find_none in F. apply F. apply SUB. exact I.
Qed.

(* past its deadline a query leaves the pool within mu polls (no new ids are reported meanwhile) *)
Lemma pool_drains l : forall p p' os i x s,
  ppinv p -> q_find i (queries p) = Some x -> started x = Some s ->
  (forall no, In no l -> query_timeout p <= fst no - s) ->
  prun (polls l) p = Some (p', os) ->
  mu (queries p) < N.of_nat (length l) ->
  q_find i (queries p') = None.
Proof.
  induction l as [|[now order] l IH]; intros p p' os i x s PI F St DL R M; cbn [length] in M; [lia|].
  cbn [polls map prun pstep fst snd] in R.
  destruct (pool_poll p now order) as [[p1 out]|] eqn:E; [|discriminate].
  destruct (prun (map _ l) p1) as [[p2 os1]|] eqn:R1; [|discriminate]. inversion R; subst; clear R.
  destruct (pool_poll_spec _ _ _ _ _ PI E) as (PI1 & _ & QT & _ & ST).
  assert (OD : overdue now (query_timeout p) x).
  { exists s. split; [exact St|]. apply (DL (now, order)). left; reflexivity. }
  pose proof (poll_after_deadline _ _ _ _ _ _ _ PI F OD E) as NI.
  destruct (pool_mu_poll _ _ _ _ _ PI E) as (_ & LT & _).
  destruct (ST _ _ F) as [Gone|(x' & F' & S')].
  - eapply polls_absent; eauto.
  - eapply (IH p1 _ _ i x' s PI1 F').
    + destruct S' as [S'|[S' _]]; congruence.
    + intros no I. rewrite QT. apply DL. right; exact I.
    + exact R1.
    + destruct out as [|[[j peer]|]|j y|j y]; try contradiction; lia.
Qed.

(* every query the pool hands out is a reachable state of its state machine *)
Lemma prun_outputs_reach evs : forall p p' os, ppinv p -> prun evs p = Some (p', os) ->
  forall i x, (In (POPoll (PFinished i x)) os -> qreach (qiter x) /\ prog (qiter x) = Finished) /\
              (In (POPoll (PTimeout i x)) os -> qreach (qiter x)).
Proof.
  induction evs as [|e evs IH]; intros p p' os PI H i x; cbn [prun] in H.
  - inversion H; subst. split; intros [].
  - destruct (pstep p e) as [[p1 o]|] eqn:S; [|discriminate].
    destruct (prun evs p1) as [[p2 os1]|] eqn:R; [|discriminate]. inversion H; subst; clear H.
    destruct (IH _ _ _ (pstep_inv _ _ _ _ PI S) R i x) as [A B].
    split; intros [E|I]; auto; subst o.
    + destruct e as [k c t known|now order|j node closer|j node]; cbn [pstep] in S.
      * destruct (pool_add p k c t known); discriminate.
      * destruct (pool_poll p now order) as [[p3 s]|] eqn:E; [|discriminate]. inversion S; subst.
        destruct (pool_poll_spec _ _ _ _ _ PI E) as (_ & _ & _ & OUT & _). cbn in OUT. tauto.
      * destruct (pool_on_success p j node closer); discriminate.
      * destruct (pool_on_failure p j node); discriminate.
    + destruct e as [k c t known|now order|j node closer|j node]; cbn [pstep] in S.
      * destruct (pool_add p k c t known); discriminate.
      * destruct (pool_poll p now order) as [[p3 s]|] eqn:E; [|discriminate]. inversion S; subst.
        destruct (pool_poll_spec _ _ _ _ _ PI E) as (_ & _ & _ & OUT & _). cbn in OUT. tauto.
      * destruct (pool_on_success p j node closer); discriminate.
      * destruct (pool_on_failure p j node); discriminate.
Qed.

(* after a result is handed out the id is no longer in the pool *)
Lemma absent_after_result p now order p' i x : ppinv p ->
  (pool_poll p now order = Some (p', PFinished i x) \/ pool_poll p now order = Some (p', PTimeout i x)) ->
  q_find i (queries p) <> None /\ q_find i (queries p') = None.
Proof.
  intros PI [H|H]; destruct (pool_poll_spec _ _ _ _ _ PI H) as (_ & _ & _ & OUT & _);
    destruct OUT as (_ & IN & NIN & _); (split; [intros F; apply q_find_none in F; contradiction|apply q_find_none; exact NIN]).
Qed.
