(* Proofs about the query pool of Model/Query.v (C09): every query in the pool is a reachable
   state of its state machine, poll never panics, a query past its deadline makes the pool
   progress, results are handed out at most once per add. *)
From Coq Require Import List NArith Bool Lia Sorted.
From Discv5V Require Import Model.Query Proofs.Query.
Import ListNotations.
Local Open Scope N_scope.

Definition ids (qs : list (N * pquery)) : list N := map fst qs.

(* the query is a state its state machine can reach from with_config *)
Definition qreach (q : query) : Prop :=
  exists k c t known evs os, run evs (with_config k c t known) = Some (q, os).

Lemma qreach_init k c t known : qreach (with_config k c t known).
Proof. exists k, c, t, known, [], []. reflexivity. Qed.

Lemma qreach_step q e q' o : qreach q -> step q e = Some (q', o) -> qreach q'.
Proof.
  intros (k & c & t & known & evs & os & R) S. exists k, c, t, known, (evs ++ [e]), (os ++ [o]).
  rewrite run_app, R. cbn [run]. rewrite S. reflexivity.
Qed.

Lemma qreach_wf q : qreach q -> wf q.
Proof.
  intros (k & c & t & known & evs & os & R).
  eapply run_wf; [|exact R]. apply (io_wf _ _ (with_config_init k c t known)).
Qed.

Lemma qreach_fin q : qreach q -> fin_inv q.
Proof.
  intros (k & c & t & known & evs & os & R). eapply run_fin; [|exact R]. intros F; cbn in F; discriminate.
Qed.

Record pinv (qs : list (N * pquery)) : Prop := {
  pi_nodup : NoDup (ids qs);
  pi_reach : forall i x, In (i, x) qs -> qreach (qiter x)
}.

(* ------------------------------------------------------------------------------------------ *)
(* the association list *)

Lemma q_find_in i qs x : q_find i qs = Some x -> In (i, x) qs.
Proof.
  induction qs as [|[j y] r IH]; cbn [q_find]; [discriminate|].
  destruct (N.eqb_spec i j); intros H; [inversion H; subst; left; reflexivity|right; auto].
Qed.

Lemma q_find_none i qs : q_find i qs = None <-> ~ In i (ids qs).
Proof.
  induction qs as [|[j y] r IH]; cbn [q_find ids map fst]; [tauto|].
  destruct (N.eqb_spec i j).
  - split; [discriminate|]. intros H; exfalso; apply H; left; auto.
  - rewrite IH. unfold ids. split; [intros H [E|I]; [congruence|auto]|intros H I; apply H; right; exact I].
Qed.

Lemma q_find_some_ids i qs x : q_find i qs = Some x -> In i (ids qs).
Proof. intros H. apply q_find_in in H. apply in_map_iff. exists (i, x); auto. Qed.

Lemma in_q_find i x qs : NoDup (ids qs) -> In (i, x) qs -> q_find i qs = Some x.
Proof.
  induction qs as [|[j y] r IH]; cbn [q_find ids map fst]; intros ND I; [destruct I|].
  apply NoDup_cons_iff in ND as [NI ND]. destruct I as [E|I].
  - inversion E; subst. rewrite N.eqb_refl. reflexivity.
  - destruct (N.eqb_spec i j); [|auto]. subst. exfalso. apply NI. apply in_map_iff. exists (j, x); auto.
Qed.

Lemma q_insert_ids_present i x qs : In i (ids qs) -> ids (q_insert i x qs) = ids qs.
Proof.
  induction qs as [|[j y] r IH]; cbn [q_insert ids map fst]; [intros []|].
  destruct (N.eqb_spec i j); [reflexivity|]. intros [E|I]; [congruence|].
  cbn [map fst]. f_equal. apply IH; exact I.
Qed.

Lemma q_insert_ids_absent i x qs : ~ In i (ids qs) -> ids (q_insert i x qs) = ids qs ++ [i].
Proof.
  induction qs as [|[j y] r IH]; cbn [q_insert ids map fst]; [reflexivity|].
  intros NI. destruct (N.eqb_spec i j); [exfalso; apply NI; left; auto|].
  cbn [map fst app]. f_equal. apply IH. intros I; apply NI; right; exact I.
Qed.

Lemma q_insert_back i x qs j y : In (j, y) (q_insert i x qs) -> (j = i /\ y = x) \/ In (j, y) qs.
Proof.
  induction qs as [|[j0 y0] r IH]; cbn [q_insert].
  - intros [E|[]]; inversion E; auto.
  - destruct (N.eqb_spec i j0); intros [E|I].
    + inversion E; subst; auto.
    + right; right; exact I.
    + right; left; exact E.
    + destruct (IH I); auto. right; right; auto.
Qed.

Lemma q_find_insert_same i x qs : q_find i (q_insert i x qs) = Some x.
Proof.
  induction qs as [|[j y] r IH]; cbn [q_insert q_find]; [rewrite N.eqb_refl; reflexivity|].
  destruct (N.eqb_spec i j); cbn [q_find].
  - subst. rewrite N.eqb_refl. reflexivity.
  - destruct (N.eqb_spec i j); [contradiction|exact IH].
Qed.

Lemma q_find_insert_other i j x qs : i <> j -> q_find i (q_insert j x qs) = q_find i qs.
Proof.
  intros ne. induction qs as [|[j0 y] r IH]; cbn [q_insert q_find].
  - destruct (N.eqb_spec i j); [contradiction|reflexivity].
  - destruct (N.eqb_spec j j0); cbn [q_find].
    + subst. destruct (N.eqb_spec i j0); [contradiction|reflexivity].
    + destruct (i =? j0); [reflexivity|exact IH].
Qed.

Lemma q_remove_ids i qs : NoDup (ids qs) -> NoDup (ids (q_remove i qs)) /\ ~ In i (ids (q_remove i qs)) /\
  (forall j, j <> i -> (In j (ids (q_remove i qs)) <-> In j (ids qs))) /\
  (forall j y, In (j, y) (q_remove i qs) -> In (j, y) qs).
Proof.
  induction qs as [|[j0 y0] r IH]; cbn [q_remove ids map fst]; intros ND.
  - repeat split; auto; tauto.
  - apply NoDup_cons_iff in ND as [NI ND]. destruct (N.eqb_spec i j0).
    + subst. repeat split; auto.
      * intros I; right; exact I.
      * intros [E|I]; [congruence|auto].
      * intros; right; auto.
    + destruct (IH ND) as (A & B & C & D). cbn [ids map fst]. repeat split.
      * constructor; [|exact A]. intros I. apply NI. destruct (N.eq_dec j0 i); [congruence|]. apply (C j0); auto.
      * intros [E|I]; [congruence|auto].
      * intros [E|I]; [left; exact E|right; apply (C j); auto].
      * intros [E|I]; [left; exact E|right; apply (C j); auto].
      * intros j y [E|I]; [left; exact E|right; apply D; exact I].
Qed.

Lemma pinv_insert i x qs : pinv qs -> qreach (qiter x) -> pinv (q_insert i x qs).
Proof.
  intros [ND RE] Rx. constructor.
  - destruct (in_dec N.eq_dec i (ids qs)) as [I|NI].
    + rewrite q_insert_ids_present; auto.
    + rewrite q_insert_ids_absent; auto. apply NoDup_snoc; auto.
  - intros j y I. apply q_insert_back in I as [[-> ->]|I]; [exact Rx|eauto].
Qed.

Lemma pinv_remove i qs : pinv qs -> pinv (q_remove i qs).
Proof.
  intros [ND RE]. destruct (q_remove_ids i qs ND) as (A & _ & _ & D). constructor; [exact A|].
  intros j y I. eapply RE. apply D. exact I.
Qed.

(* ------------------------------------------------------------------------------------------ *)
(* the weight of the pool: one per query plus its NotContacted peers *)

Definition qweight (x : pquery) : N := 1 + cnt fNC (peers (qiter x)).
Fixpoint mu (qs : list (N * pquery)) : N :=
  match qs with [] => 0 | (_, x) :: r => qweight x + mu r end.

Lemma mu_insert i x x' qs : q_find i qs = Some x -> mu (q_insert i x' qs) + qweight x = mu qs + qweight x'.
Proof.
  induction qs as [|[j y] r IH]; cbn [q_find q_insert]; [discriminate|].
  destruct (N.eqb_spec i j); intros H.
  - inversion H; subst. cbn [mu]. lia.
  - cbn [mu]. specialize (IH H). lia.
Qed.

Lemma mu_remove i x qs : q_find i qs = Some x -> mu (q_remove i qs) + qweight x = mu qs.
Proof.
  induction qs as [|[j y] r IH]; cbn [q_find q_remove]; [discriminate|].
  destruct (N.eqb_spec i j); intros H.
  - inversion H; subst. cbn [mu]. lia.
  - cbn [mu]. specialize (IH H). lia.
Qed.

(* ------------------------------------------------------------------------------------------ *)
(* the scan of poll *)

Definition overdue (now timeout : N) (x : pquery) : Prop :=
  exists s, started x = Some s /\ timeout <= now - s.

Definition scan_post (now timeout : N) (qs' : list (N * pquery)) (sc : scan) : Prop :=
  match sc with
  | ScNone => True
  | ScFinished i => exists x, q_find i qs' = Some x /\ prog (qiter x) = Finished
  | ScWaiting i p => exists x, q_find i qs' = Some x /\ prog (qiter x) <> Finished
  | ScTimeout i => exists x, q_find i qs' = Some x /\ overdue now timeout x
  end.

Lemma poll_scan_spec now timeout order : forall qs qs' sc,
  pinv qs -> poll_scan now timeout order qs = Some (qs', sc) ->
  pinv qs' /\ ids qs' = ids qs /\ scan_post now timeout qs' sc /\
  (forall i x, q_find i qs = Some x -> exists x', q_find i qs' = Some x' /\
                  (started x' = started x \/ (started x = None /\ started x' = Some now))) /\
  match sc with ScWaiting _ _ => mu qs' + 1 = mu qs | _ => mu qs' = mu qs end.
Proof.
  induction order as [|i rest IH]; intros qs qs' sc PI H; cbn [poll_scan] in H.
  - inversion H; subst. split; [exact PI|]. split; [reflexivity|]. split; [exact I|].
    split; [intros i x F; exists x; auto|reflexivity].
  - destruct (q_find i qs) as [x|] eqn:F; [|apply IH; auto].
    destruct (next (qiter x) now) as [[q1 s]|] eqn:E; [|discriminate].
    set (st := match started x with Some s0 => s0 | None => now end) in *.
    set (x1 := {| qiter := q1; started := Some st |}) in *.
    set (qs1 := q_insert i x1 qs) in *.
    assert (R1 : qreach q1).
    { eapply (qreach_step _ (ENext now)); [eapply pi_reach; [exact PI|apply q_find_in; exact F]|].
      cbn [step]. rewrite E. reflexivity. }
    assert (PI1 : pinv qs1) by (apply pinv_insert; auto).
    assert (ID1 : ids qs1 = ids qs) by (apply q_insert_ids_present; eapply q_find_some_ids; eauto).
    assert (ST1 : forall j y, q_find j qs = Some y -> exists y', q_find j qs1 = Some y' /\
                    (started y' = started y \/ (started y = None /\ started y' = Some now))).
    { intros j y Fj. destruct (N.eq_dec j i) as [->|ne].
      - rewrite F in Fj. inversion Fj; subst y. exists x1. split; [apply q_find_insert_same|].
        cbn [x1 started]. unfold st. destruct (started x); auto.
      - exists y. split; [|auto]. unfold qs1. rewrite q_find_insert_other; auto. }
    assert (MU1 : mu qs1 + cnt fNC (peers (qiter x)) = mu qs + cnt fNC (peers q1)).
    { pose proof (mu_insert i x x1 qs F) as M. unfold qweight in M. cbn [x1 qiter] in M. fold qs1 in M. lia. }
    assert (FOUND : q_find i qs1 = Some x1) by apply q_find_insert_same.
    assert (DONE : forall sc0, Some (qs1, sc0) = Some (qs', sc) ->
              scan_post now timeout qs1 sc0 ->
              match sc0 with ScWaiting _ _ => mu qs1 + 1 = mu qs | _ => mu qs1 = mu qs end ->
              pinv qs' /\ ids qs' = ids qs /\ scan_post now timeout qs' sc /\
              (forall i x, q_find i qs = Some x -> exists x', q_find i qs' = Some x' /\
                  (started x' = started x \/ (started x = None /\ started x' = Some now))) /\
              match sc with ScWaiting _ _ => mu qs' + 1 = mu qs | _ => mu qs' = mu qs end).
    { intros sc0 E0 SP M. inversion E0; subst. split; [exact PI1|]. split; [exact ID1|]. split; [exact SP|].
      split; [exact ST1|exact M]. }
    assert (CONT : poll_scan now timeout rest qs1 = Some (qs', sc) -> mu qs1 = mu qs ->
              pinv qs' /\ ids qs' = ids qs /\ scan_post now timeout qs' sc /\
              (forall i x, q_find i qs = Some x -> exists x', q_find i qs' = Some x' /\
                  (started x' = started x \/ (started x = None /\ started x' = Some now))) /\
              match sc with ScWaiting _ _ => mu qs' + 1 = mu qs | _ => mu qs' = mu qs end).
    { intros H' M. destruct (IH _ _ _ PI1 H') as (A & B & C & D & G).
      split; [exact A|]. split; [congruence|]. split; [exact C|]. split.
      - intros j y Fj. destruct (ST1 _ _ Fj) as (y1 & Fj1 & S1). destruct (D _ _ Fj1) as (y2 & Fj2 & S2).
        exists y2. split; [exact Fj2|]. destruct S1 as [S1|[S1 S1']], S2 as [S2|[S2 S2']]; try congruence; auto.
        + left; congruence.
        + right; split; congruence.
        + right; split; congruence.
      - destruct sc; lia. }
    destruct s as [[p|]| |].
    + (* Waiting(Some p) *)
      apply next_emit in E as (NF & PR & _ & B & _).
      apply DONE in H; auto.
      * cbn [scan_post]. exists x1. split; [exact FOUND|]. cbn [x1 qiter]. congruence.
      * lia.
    + (* Waiting(None) *)
      pose proof (next_no_emit _ _ _ _ E ltac:(intros; discriminate)) as B.
      destruct (timeout <=? now - st) eqn:TO.
      * apply DONE in H; auto; [|lia].
        cbn [scan_post]. exists x1. split; [exact FOUND|]. exists st. split; [reflexivity|].
        apply N.leb_le; exact TO.
      * apply CONT; auto. lia.
    + (* WaitingAtCapacity *)
      pose proof (next_no_emit _ _ _ _ E ltac:(intros; discriminate)) as B.
      destruct (timeout <=? now - st) eqn:TO.
      * apply DONE in H; auto; [|lia].
        cbn [scan_post]. exists x1. split; [exact FOUND|]. exists st. split; [reflexivity|].
        apply N.leb_le; exact TO.
      * apply CONT; auto. lia.
    + (* Finished *)
      pose proof (next_no_emit _ _ _ _ E ltac:(intros; discriminate)) as B.
      apply DONE in H; auto; [|lia].
      cbn [scan_post]. exists x1. split; [exact FOUND|]. cbn [x1 qiter].
      apply next_inv in E as [(Fin & -> & _)|(_ & _ & lo & _ & M)]; [exact Fin|].
      destruct lo; try (destruct M as [M _]; discriminate); [tauto|].
      destruct M as [(_ & M & _)|(_ & _ & M)]; [discriminate|exact M].
Qed.

Lemma poll_scan_no_panic now timeout order : forall qs, pinv qs -> poll_scan now timeout order qs <> None.
Proof.
  induction order as [|i rest IH]; intros qs PI; cbn [poll_scan]; [discriminate|].
  destruct (q_find i qs) as [x|] eqn:F; [|apply IH; exact PI].
  assert (Rx : qreach (qiter x)) by (eapply pi_reach; [exact PI|apply q_find_in; exact F]).
  pose proof (step_no_panic (qiter x) (ENext now) (qreach_wf _ Rx)) as NP. cbn [step] in NP.
  destruct (next (qiter x) now) as [[q1 s]|] eqn:E; [|congruence].
  assert (PI1 : pinv (q_insert i {| qiter := q1; started := Some match started x with Some s0 => s0 | None => now end |} qs)).
  { apply pinv_insert; [exact PI|]. cbn [qiter]. eapply (qreach_step _ (ENext now)); [exact Rx|].
    cbn [step]. rewrite E. reflexivity. }
  destruct s as [[p|]| |]; try discriminate; (destruct (timeout <=? _); [discriminate|apply IH; exact PI1]).
Qed.

(* a query past the deadline stops the scan: at it or before it *)
Lemma poll_scan_overdue now timeout order : forall qs qs' sc i x,
  In i order -> q_find i qs = Some x -> overdue now timeout x ->
  poll_scan now timeout order qs = Some (qs', sc) -> sc <> ScNone.
Proof.
  induction order as [|j rest IH]; intros qs qs' sc i x I F OD H; [destruct I|]. cbn [poll_scan] in H.
  destruct (q_find j qs) as [y|] eqn:Fj.
  - destruct (next (qiter y) now) as [[q1 s]|] eqn:E; [|discriminate].
    assert (CONT : timeout <=? now - match started y with Some s0 => s0 | None => now end = false ->
              poll_scan now timeout rest
                (q_insert j {| qiter := q1; started := Some match started y with Some s0 => s0 | None => now end |} qs)
              = Some (qs', sc) -> sc <> ScNone).
    { intros TO H'. destruct (N.eq_dec i j) as [->|ne].
      - exfalso. rewrite F in Fj. inversion Fj; subst y. destruct OD as (s0 & St & L). rewrite St in TO.
        apply N.leb_gt in TO. lia.
      - destruct I as [->|I]; [congruence|]. eapply IH; [exact I| |exact OD|exact H'].
        rewrite q_find_insert_other; auto. }
    destruct s as [[p|]| |]; try (inversion H; subst; discriminate);
      (destruct (timeout <=? _) eqn:TO; [inversion H; subst; discriminate|apply CONT; auto]).
  - destruct I as [->|I]; [congruence|]. eapply IH; eauto.
Qed.

Lemma mem_N_spec i l : mem_N i l = true <-> In i l.
Proof.
  unfold mem_N. rewrite existsb_exists. split.
  - intros (x & I & E). apply N.eqb_eq in E. subst; exact I.
  - intros I. exists i. split; [exact I|apply N.eqb_refl].
Qed.

Lemma visit_order_complete order qs i x : q_find i qs = Some x -> In i (visit_order order qs).
Proof.
  intros F. unfold visit_order. apply in_or_app.
  destruct (mem_N i order) eqn:M; [left; apply mem_N_spec; exact M|right].
  apply filter_In. split; [eapply q_find_some_ids; eauto|]. rewrite M. reflexivity.
Qed.

(* ------------------------------------------------------------------------------------------ *)
(* the pool *)

Definition ppinv (p : pool) : Prop := pinv (queries p).

Lemma pool_new_inv timeout : ppinv (pool_new timeout).
Proof. constructor; [constructor|intros i x []]. Qed.

(* the outcome of a poll in terms of the pool before and after *)
Lemma pool_poll_spec p now order p' out : ppinv p -> pool_poll p now order = Some (p', out) ->
  ppinv p' /\ next_id p' = next_id p /\ query_timeout p' = query_timeout p /\
  match out with
  | PIdle => queries p' = [] /\ mu (queries p') = mu (queries p) /\ ids (queries p') = ids (queries p)
  | PWaiting None => mu (queries p') = mu (queries p) /\ ids (queries p') = ids (queries p)
  | PWaiting (Some (i, peer)) =>
    mu (queries p') + 1 = mu (queries p) /\ ids (queries p') = ids (queries p) /\
    exists x, q_find i (queries p') = Some x /\ prog (qiter x) <> Finished
  | PFinished i x =>
    mu (queries p') < mu (queries p) /\ In i (ids (queries p)) /\ ~ In i (ids (queries p')) /\
    (forall j, j <> i -> (In j (ids (queries p')) <-> In j (ids (queries p)))) /\
    qreach (qiter x) /\ prog (qiter x) = Finished
  | PTimeout i x =>
    mu (queries p') < mu (queries p) /\ In i (ids (queries p)) /\ ~ In i (ids (queries p')) /\
    (forall j, j <> i -> (In j (ids (queries p')) <-> In j (ids (queries p)))) /\
    qreach (qiter x) /\ overdue now (query_timeout p) x
  end /\
  (forall i x, q_find i (queries p) = Some x ->
     q_find i (queries p') = None \/
     exists x', q_find i (queries p') = Some x' /\
                (started x' = started x \/ (started x = None /\ started x' = Some now))).
Proof.
  unfold pool_poll, ppinv. intros PI H.
  destruct (poll_scan now (query_timeout p) (visit_order order (queries p)) (queries p)) as [[qs sc]|] eqn:SC;
    [|discriminate].
  destruct (poll_scan_spec _ _ _ _ _ _ PI SC) as (PI' & ID & SP & ST & MU).
  assert (REM : forall i x, q_find i qs = Some x ->
            mu (q_remove i qs) < mu qs /\ ~ In i (ids (q_remove i qs)) /\
            (forall j, j <> i -> In j (ids (q_remove i qs)) <-> In j (ids qs)) /\ qreach (qiter x)).
  { intros i x F. pose proof (mu_remove _ _ _ F) as M. unfold qweight in M.
    destruct (q_remove_ids i qs (pi_nodup _ PI')) as (_ & B & C & _).
    split; [lia|]. split; [exact B|]. split; [exact C|].
    eapply pi_reach; [exact PI'|apply q_find_in; exact F]. }
  assert (STR : forall i0 (qs0 : list (N * pquery)), (forall j y, q_find j qs0 = Some y -> j <> i0 /\ q_find j qs = Some y) \/ True) by auto.
  destruct sc as [|i|i peer|i]; cbn [scan_post] in SP.
  - (* nothing to report *)
    assert (E : (p', out) = ({| next_id := next_id p; query_timeout := query_timeout p; queries := qs |},
                             match qs with [] => PIdle | _ => PWaiting None end)).
    { destruct qs; inversion H; reflexivity. }
    inversion E; subst; clear E H. cbn [queries next_id query_timeout].
    split; [exact PI'|]. split; [reflexivity|]. split; [reflexivity|]. split.
    + destruct qs; auto.
    + intros i x F. right. destruct (ST _ _ F) as (x' & F' & S'). eauto.
  - (* finished *)
    destruct SP as (x & F & Fin). rewrite F in H. inversion H; subst; clear H.
    cbn [queries next_id query_timeout]. destruct (REM _ _ F) as (A & B & C & D).
    split; [apply pinv_remove; exact PI'|]. split; [reflexivity|]. split; [reflexivity|]. split.
    + split; [lia|]. split; [rewrite <- ID; eapply q_find_some_ids; eauto|]. split; [exact B|].
      split; [intros j ne; rewrite (C j ne), ID; tauto|]. auto.
    + intros j y Fj. destruct (ST _ _ Fj) as (y' & Fj' & S').
      destruct (N.eq_dec j i) as [->|ne].
      * left. apply q_find_none. exact B.
      * right. exists y'. split; [|exact S'].
        apply in_q_find; [apply (pi_nodup _ (pinv_remove i _ PI'))|].
        clear - Fj' ne. induction qs as [|[j0 y0] r IH]; cbn [q_find q_remove] in *; [discriminate|].
        destruct (N.eqb_spec j j0).
        -- inversion Fj'; subst. destruct (N.eqb_spec i j0); [congruence|left; reflexivity].
        -- destruct (N.eqb_spec i j0); [apply q_find_in; exact Fj'|right; apply IH; exact Fj'].
  - (* a new request *)
    destruct SP as (x & F & NF). inversion H; subst; clear H. cbn [queries next_id query_timeout].
    split; [exact PI'|]. split; [reflexivity|]. split; [reflexivity|]. split.
    + split; [exact MU|]. split; [exact ID|]. eauto.
    + intros j y Fj. right. destruct (ST _ _ Fj) as (y' & Fj' & S'). eauto.
  - (* timeout *)
    destruct SP as (x & F & OD). rewrite F in H. inversion H; subst; clear H.
    cbn [queries next_id query_timeout]. destruct (REM _ _ F) as (A & B & C & D).
    split; [apply pinv_remove; exact PI'|]. split; [reflexivity|]. split; [reflexivity|]. split.
    + split; [lia|]. split; [rewrite <- ID; eapply q_find_some_ids; eauto|]. split; [exact B|].
      split; [intros j ne; rewrite (C j ne), ID; tauto|]. auto.
    + intros j y Fj. destruct (ST _ _ Fj) as (y' & Fj' & S').
      destruct (N.eq_dec j i) as [->|ne].
      * left. apply q_find_none. exact B.
      * right. exists y'. split; [|exact S'].
        apply in_q_find; [apply (pi_nodup _ (pinv_remove i _ PI'))|].
        clear - Fj' ne. induction qs as [|[j0 y0] r IH]; cbn [q_find q_remove] in *; [discriminate|].
        destruct (N.eqb_spec j j0).
        -- inversion Fj'; subst. destruct (N.eqb_spec i j0); [congruence|left; reflexivity].
        -- destruct (N.eqb_spec i j0); [apply q_find_in; exact Fj'|right; apply IH; exact Fj'].
Qed.

Lemma pool_poll_no_panic p now order : ppinv p -> pool_poll p now order <> None.
Proof.
  unfold pool_poll, ppinv. intros PI.
  pose proof (poll_scan_no_panic now (query_timeout p) (visit_order order (queries p)) _ PI) as NP.
  destruct (poll_scan _ _ _ _) as [[qs sc]|] eqn:SC; [|congruence].
  destruct (poll_scan_spec _ _ _ _ _ _ PI SC) as (_ & _ & SP & _).
  destruct sc as [|i|i peer|i]; cbn [scan_post] in SP.
  - destruct qs; discriminate.
  - destruct SP as (x & -> & _). discriminate.
  - discriminate.
  - destruct SP as (x & -> & _). discriminate.
Qed.

(* poll_after_deadline *)
Lemma poll_after_deadline p now order i x p' out :
  ppinv p -> q_find i (queries p) = Some x -> overdue now (query_timeout p) x ->
  pool_poll p now order = Some (p', out) ->
  match out with
  | PFinished _ _ | PTimeout _ _ | PWaiting (Some _) => True
  | PIdle | PWaiting None => False
  end.
Proof.
  unfold pool_poll, ppinv. intros PI F OD H.
  destruct (poll_scan _ _ _ _) as [[qs sc]|] eqn:SC; [|discriminate].
  pose proof (poll_scan_overdue _ _ _ _ _ _ _ _ (visit_order_complete order _ _ _ F) F OD SC) as NN.
  destruct sc as [|j|j peer|j]; [congruence| | |].
  - destruct (q_find j qs); inversion H; subst; exact I.
  - inversion H; subst; exact I.
  - destruct (q_find j qs); inversion H; subst; exact I.
Qed.
