(* C04 wire_bound, companion for random packets: "the random packet of a request is sent at most
   max(1, retries) times too".  A random packet (Packet::new_random: sent when there is no session
   with the contact) carries no request; it is identified on the wire by its 12-byte nonce, which is
   an oracle draw.  Hypotheses (statements about rand): the nonces of all draws of the run are pairwise
   distinct, and no step exhausts the draws it is given (pop_pk on an exhausted list returns zeros).
   Same technique as Proofs/HandlerA_Wire2.v: an invariant relating, for every stored request whose
   packet is a random packet, the number of datagrams with its nonce emitted so far to the
   transmission counter.  Ghost state: the pool of nonces still to be drawn. *)
From Coq Require Import List Arith NArith Bool Lia.
From Discv5V Require Import Model.Handler Proofs.HandlerInv Proofs.HandlerA_Ledger.
From Discv5V Require Import Proofs.HandlerB_Base Proofs.HandlerB_Frame Proofs.HandlerB_Step.
From Discv5V Require Import Proofs.HandlerA_Wire2.
Import ListNotations.

(* ------------------------------------------------------------------------------------------ *)
(* random packets on the wire *)

Definition jnonce (p : packet) : option nonce :=
  match p with PMsg _ n _ (CJunk _) => Some n | _ => None end.
Definition jcar (n : nonce) (p : packet) : bool :=
  match jnonce p with Some n' => nonce_eqb n' n | None => false end.
Definition jbit (n : nonce) (o : output) : nat :=
  match o with OWire _ p => b2n (jcar n p) | OEvent _ => 0 end.
Fixpoint jcnt (n : nonce) (l : list output) : nat :=
  match l with [] => 0 | o :: t => jbit n o + jcnt n t end.

Lemma jcar_iff n p : jcar n p = true <-> jnonce p = Some n.
Proof.
  unfold jcar. destruct (jnonce p) as [n'|]; [|split; discriminate].
  rewrite nonce_eqb_eq. split; [intros ->; reflexivity|intros H; inversion H; reflexivity].
Qed.
Lemma jcar_none n p : jnonce p = None -> jcar n p = false.
Proof. unfold jcar. intros ->. reflexivity. Qed.
Lemma jcar_self p n : jnonce p = Some n -> jcar n p = true.
Proof. intros E. apply jcar_iff. exact E. Qed.
Lemma jcar_some n p n' : jnonce p = Some n' -> jcar n p = true -> n' = n.
Proof. intros E H. apply jcar_iff in H. congruence. Qed.

Lemma jcnt_app n l1 l2 : jcnt n (l1 ++ l2) = jcnt n l1 + jcnt n l2.
Proof. induction l1 as [|o t IH]; cbn [jcnt app]; [reflexivity|]. rewrite IH. lia. Qed.
Lemma jcnt_snoc n l o : jcnt n (l ++ [o]) = jcnt n l + jbit n o.
Proof. rewrite jcnt_app. cbn [jcnt]. lia. Qed.
Lemma jcnt_filter n l :
  jcnt n l = length (filter (fun o => match o with OWire _ p => jcar n p | OEvent _ => false end) l).
Proof.
  induction l as [|o t IH]; cbn [jcnt filter]; [reflexivity|]. rewrite IH.
  destruct o as [e|d p]; cbn [jbit]; [reflexivity|]. destruct (jcar n p); reflexivity.
Qed.
Lemma jbit_wire n d p : jbit n (OWire d p) = b2n (jcar n p).
Proof. reflexivity. Qed.
Lemma jbit_none n d p : jnonce p = None -> jbit n (OWire d p) = 0.
Proof. intros E. cbn [jbit]. rewrite jcar_none by exact E. reflexivity. Qed.

Definition jhold (n : nonce) (l : list rcall) : nat := cntb (fun r => jcar n (rc_pkt r)) l.
Definition jholdA (n : nonce) (act : list (naddr * list rcall)) : nat := asum (jhold n) act.

Lemma jhold_in n l r : In r l -> jcar n (rc_pkt r) = true -> 1 <= jhold n l.
Proof. intros H1 H2. exact (cntb_in (fun r => jcar n (rc_pkt r)) l r H1 H2). Qed.
Lemma jhold_pos n l : 1 <= jhold n l -> exists r, In r l /\ jcar n (rc_pkt r) = true.
Proof. intros H. exact (cntb_pos (fun r => jcar n (rc_pkt r)) l H). Qed.
Lemma jholdA_in n act na l r : In (na, l) act -> In r l -> jcar n (rc_pkt r) = true -> 1 <= jholdA n act.
Proof.
  unfold jholdA. induction act as [|[na0 l0] t IH]; cbn [In asum]; [tauto|]. intros [H|H] Hr Hc.
  - inversion H; subst. pose proof (jhold_in n l r Hr Hc). lia.
  - specialize (IH H Hr Hc). lia.
Qed.
Lemma jholdA_pos n act : 1 <= jholdA n act -> exists na l r, In (na, l) act /\ In r l /\ jcar n (rc_pkt r) = true.
Proof.
  unfold jholdA. induction act as [|[na0 l0] t IH]; cbn [asum]; [lia|]. intros H.
  destruct (jhold n l0) eqn:E.
  - destruct IH as (na & l & r & H1 & H2 & H3); [lia|]. exists na, l, r. split; [right; exact H1|auto].
  - destruct (jhold_pos n l0) as (r & H1 & H2); [lia|]. exists na0, l0, r. split; [left; reflexivity|auto].
Qed.
Lemma jholdA_ins n act na r : jholdA n (ins_act na r act) = jholdA n act + b2n (jcar n (rc_pkt r)).
Proof.
  unfold jholdA. apply (asum_ins (jhold n) (fun r => b2n (jcar n (rc_pkt r)))).
  - intros l. unfold jhold. rewrite cntb_app. cbn [cntb]. lia.
  - unfold jhold. cbn [cntb]. lia.
Qed.

(* ------------------------------------------------------------------------------------------ *)
(* the invariant on the components of the state.  P: the nonces still to be drawn. *)

Definition JROK (c : config) (H : list output) (r : rcall) : Prop :=
  (1 <= rc_retries r)%N /\ (rc_retries r <= N.max 1 (cfg_retries c))%N /\
  forall n, jnonce (rc_pkt r) = Some n -> 1 <= jcnt n H /\ jcnt n H <= N.to_nat (rc_retries r).

Record JIP (c : config) (H : list output) (P : list nonce) (ex : list rcall)
  (act : list (naddr * list rcall)) : Prop := {
  J_Rx : forall r, In r ex -> JROK c H r;
  J_Ra : AllR (JROK c H) act;
  J_H : forall n, jholdA n act + jhold n ex <= 1;
  J_B : forall n, jcnt n H <= Mx c;
  J_P1 : NoDup P;
  J_P2 : forall n, 1 <= jcnt n H -> ~ In n P
}.

Lemma NoDup_suffix {A} (p l : list A) : NoDup (p ++ l) -> NoDup l.
Proof. induction p as [|a p IH]; cbn [app]; [auto|]. intros H. inversion H; subst. auto. Qed.

(* the pool shrinks to a suffix *)
Lemma JIP_pool c H p P ex act : JIP c H (p ++ P) ex act -> JIP c H P ex act.
Proof.
  intros [A1 A2 A3 A4 A5 A6]. split; auto.
  - eapply NoDup_suffix. exact A5.
  - intros n Hn Hin. apply (A6 n Hn). apply in_or_app. right. exact Hin.
Qed.

Lemma JIP_drop c H P r ex act : JIP c H P (r :: ex) act -> JIP c H P ex act.
Proof.
  intros [A1 A2 A3 A4 A5 A6]. split; auto.
  - intros r0 H0. apply A1. right. exact H0.
  - intros n. specialize (A3 n). unfold jhold in *. cbn [cntb] in A3. lia.
Qed.
Lemma JIP_drop_all c H P l ex act : JIP c H P (l ++ ex) act -> JIP c H P ex act.
Proof. induction l as [|r t IH]; cbn [app]; [auto|]. intros W. apply IH. eapply JIP_drop. exact W. Qed.

Lemma JIP_take c H P ex act na l q r l' :
  alist_get na act = Some l -> remove_first q l = Some (r, l') ->
  JIP c H P ex act -> JIP c H P (r :: ex) (put_list na l' act).
Proof.
  intros Hg Hr [A1 A2 A3 A4 A5 A6].
  destruct (remove_first_spec _ _ _ _ Hr) as (_ & _ & Hin & Hsub & _).
  pose proof (AllR_get _ _ _ _ A2 Hg) as Hl.
  split; auto.
  - intros r0 [<-|H0]; [apply Hl; exact Hin|apply A1; exact H0].
  - apply AllR_put; [exact A2|]. intros r0 H0. apply Hl. apply Hsub. exact H0.
  - intros n. specialize (A3 n). unfold jholdA in *.
    pose proof (asum_put_gen (jhold n) act na l l' Hg eq_refl) as X.
    unfold jhold in *. rewrite (remove_first_cntb _ _ _ _ _ Hr) in X. cbn [cntb]. lia.
Qed.
Lemma JIP_take_all c H P ex act na l :
  alist_get na act = Some l -> JIP c H P ex act -> JIP c H P (l ++ ex) (alist_remove na act).
Proof.
  intros Hg [A1 A2 A3 A4 A5 A6]. pose proof (AllR_get _ _ _ _ A2 Hg) as Hl.
  split; auto.
  - intros r0 H0. apply in_app_or in H0. destruct H0 as [H0|H0]; [apply Hl; exact H0|apply A1; exact H0].
  - apply AllR_remove. exact A2.
  - intros n. specialize (A3 n). unfold jholdA in *.
    pose proof (asum_remove (jhold n) act na l Hg) as X. unfold jhold in *. rewrite cntb_app. lia.
Qed.
Lemma JIP_put_same c H P ex act na l :
  alist_get na act = Some l -> JIP c H P ex act -> JIP c H P ex (put_list na l act).
Proof.
  intros Hg [A1 A2 A3 A4 A5 A6]. split; auto.
  - apply AllR_put; [exact A2|]. apply (AllR_get _ _ _ _ A2 Hg).
  - intros n. specialize (A3 n). unfold jholdA in *.
    pose proof (asum_put_gen (jhold n) act na l l Hg eq_refl). lia.
Qed.
Lemma JIP_insert c H P r ex act na : JIP c H P (r :: ex) act -> JIP c H P ex (ins_act na r act).
Proof.
  intros [A1 A2 A3 A4 A5 A6]. split; auto.
  - intros r0 H0. apply A1. right. exact H0.
  - apply AllR_ins; [exact A2|]. apply A1. left. reflexivity.
  - intros n. specialize (A3 n). rewrite jholdA_ins. unfold jhold in *. cbn [cntb] in A3. lia.
Qed.
(* only the packet and the counter matter *)
Lemma JIP_sim c H P r r' ex act :
  rc_pkt r' = rc_pkt r -> rc_retries r' = rc_retries r ->
  JIP c H P (r :: ex) act -> JIP c H P (r' :: ex) act.
Proof.
  intros E1 E3 [A1 A2 A3 A4 A5 A6]. split; auto.
  - intros r0 [<-|H0]; [|apply A1; right; exact H0].
    destruct (A1 r (or_introl eq_refl)) as (B1 & B2 & B3). unfold JROK. rewrite E1, E3. auto.
  - intros n. specialize (A3 n). unfold jhold in *. cbn [cntb] in *. rewrite E1. exact A3.
Qed.

(* an output that is not a random packet *)
Lemma JROK_snoc_none c H o r : (forall n, jbit n o = 0) -> JROK c H r -> JROK c (H ++ [o]) r.
Proof.
  intros Ho (B1 & B2 & B3). split; [exact B1|split; [exact B2|]]. intros n E.
  rewrite jcnt_snoc, Ho. destruct (B3 n E). lia.
Qed.
Lemma JIP_out_none c H P ex act o :
  (forall n, jbit n o = 0) -> JIP c H P ex act -> JIP c (H ++ [o]) P ex act.
Proof.
  intros Ho [A1 A2 A3 A4 A5 A6]. split; auto.
  - intros r H0. apply JROK_snoc_none; auto.
  - eapply AllR_mono; [|exact A2]. intros r. apply JROK_snoc_none. exact Ho.
  - intros n. rewrite jcnt_snoc, Ho. specialize (A4 n). lia.
  - intros n. rewrite jcnt_snoc, Ho. intros Hx. apply (A6 n). lia.
Qed.

Lemma JROK_snoc_other c H d p n0 r :
  jnonce p = Some n0 -> jcar n0 (rc_pkt r) = false -> JROK c H r -> JROK c (H ++ [OWire d p]) r.
Proof.
  intros Ep Hn (B1 & B2 & B3). split; [exact B1|split; [exact B2|]]. intros n E.
  rewrite jcnt_snoc, jbit_wire. destruct (B3 n E) as [C1 C2].
  destruct (jcar n p) eqn:Ec; cbn [b2n]; [|lia].
  pose proof (jcar_some _ _ _ Ep Ec). subst n0. apply jcar_iff in E. congruence.
Qed.

(* the in-hand request gets a packet that is not a random packet (and which is sent), or a request
   with such a packet is created *)
Lemma JIP_new_inhand c H P r' ex act d :
  jnonce (rc_pkt r') = None -> (1 <= rc_retries r')%N -> (rc_retries r' <= N.max 1 (cfg_retries c))%N ->
  JIP c H P ex act -> JIP c (H ++ [OWire d (rc_pkt r')]) P (r' :: ex) act.
Proof.
  intros Ep B1 B2 W.
  assert (Ho : forall n, jbit n (OWire d (rc_pkt r')) = 0) by (intros; apply jbit_none; exact Ep).
  apply (JIP_out_none _ _ _ _ _ _ Ho) in W. destruct W as [A1 A2 A3 A4 A5 A6].
  split; auto.
  - intros r0 [<-|H0]; [|apply A1; exact H0]. split; [exact B1|split; [exact B2|]]. intros n E. congruence.
  - intros n. specialize (A3 n). unfold jhold in *. cbn [cntb]. rewrite jcar_none by exact Ep. cbn [b2n]. lia.
Qed.

(* the timeout handler re-sends the stored packet of the in-hand request and increments its counter *)
Lemma JIP_resend c H P r ex act d :
  (rc_retries r < cfg_retries c)%N ->
  JIP c H P (r :: ex) act -> JIP c (H ++ [OWire d (rc_pkt r)]) P (bump_retries r :: ex) act.
Proof.
  intros Hlt W. pose proof W as [A1 A2 A3 A4 A5 A6].
  destruct (A1 r (or_introl eq_refl)) as (B1 & B2 & B3).
  destruct (jnonce (rc_pkt r)) as [n0|] eqn:Ep.
  - destruct (B3 n0 eq_refl) as [C1 C2].
    assert (Hself : jcar n0 (rc_pkt r) = true) by (apply jcar_self; exact Ep).
    assert (Hoth_ex : forall r0, In r0 ex -> jcar n0 (rc_pkt r0) = false).
    { intros r0 H0. destruct (jcar n0 (rc_pkt r0)) eqn:E0; [|reflexivity].
      pose proof (jhold_in n0 ex r0 H0 E0). specialize (A3 n0). unfold jhold in *. cbn [cntb] in A3.
      rewrite Hself in A3. cbn [b2n] in A3. lia. }
    assert (Hoth_act : forall na l r0, In (na, l) act -> In r0 l -> jcar n0 (rc_pkt r0) = false).
    { intros na l r0 H1 H2. destruct (jcar n0 (rc_pkt r0)) eqn:E0; [|reflexivity].
      pose proof (jholdA_in n0 act na l r0 H1 H2 E0). specialize (A3 n0). unfold jhold in *. cbn [cntb] in A3.
      rewrite Hself in A3. cbn [b2n] in A3. lia. }
    split.
    + intros r0 [<-|H0].
      * split; [cbn [bump_retries rc_retries]; lia|split; [cbn [bump_retries rc_retries]; lia|]].
        cbn [bump_retries rc_pkt rc_retries]. intros n E. rewrite Ep in E. inversion E; subst.
        rewrite jcnt_snoc, jbit_wire, Hself. cbn [b2n]. lia.
      * eapply JROK_snoc_other; [exact Ep|apply Hoth_ex; exact H0|apply A1; right; exact H0].
    + intros na l r0 H1 H2. eapply JROK_snoc_other; [exact Ep|eapply Hoth_act; eauto|eapply A2; eauto].
    + intros n. specialize (A3 n). unfold jhold in *. cbn [cntb bump_retries rc_pkt] in *. exact A3.
    + intros n. rewrite jcnt_snoc, jbit_wire. specialize (A4 n).
      destruct (jcar n (rc_pkt r)) eqn:Ec; cbn [b2n]; [|lia].
      pose proof (jcar_some _ _ _ Ep Ec). subst n0. unfold Mx. lia.
    + exact A5.
    + intros n. rewrite jcnt_snoc, jbit_wire. intros Hx.
      destruct (jcar n (rc_pkt r)) eqn:Ec; cbn [b2n] in Hx; [|apply (A6 n); lia].
      pose proof (jcar_some _ _ _ Ep Ec). subst n0. apply (A6 n). exact C1.
  - assert (Ho : forall n, jbit n (OWire d (rc_pkt r)) = 0) by (intros; apply jbit_none; exact Ep).
    apply (JIP_out_none _ _ _ _ _ _ Ho) in W. destruct W as [A1' A2' A3' A4' A5' A6'].
    split; [|exact A2'| |exact A4'|exact A5'|exact A6'].
    + intros r0 [<-|H0]; [|apply A1'; right; exact H0].
      split; [cbn [bump_retries rc_retries]; lia|split; [cbn [bump_retries rc_retries]; lia|]].
      cbn [bump_retries rc_pkt]. intros n E. congruence.
    + intros n. specialize (A3' n). unfold jhold in *. cbn [cntb bump_retries rc_pkt] in *. exact A3'.
Qed.

(* a random packet is created with the next nonce of the pool and sent *)
Lemma JIP_create c H P n0 r ex act d :
  jnonce (rc_pkt r) = Some n0 -> rc_retries r = 1%N ->
  JIP c H (n0 :: P) ex act -> JIP c (H ++ [OWire d (rc_pkt r)]) P (r :: ex) act.
Proof.
  intros Ep Eret W. pose proof W as [A1 A2 A3 A4 A5 A6].
  assert (Hf : jcnt n0 H = 0).
  { destruct (jcnt n0 H) eqn:E; [reflexivity|]. exfalso. apply (A6 n0); [lia|left; reflexivity]. }
  assert (Hself : jcar n0 (rc_pkt r) = true) by (apply jcar_self; exact Ep).
  assert (Hoth_ex : forall r0, In r0 ex -> jcar n0 (rc_pkt r0) = false).
  { intros r0 H0. destruct (jcar n0 (rc_pkt r0)) eqn:E0; [|reflexivity].
    apply jcar_iff in E0. destruct (A1 r0 H0) as (_ & _ & X). destruct (X n0 E0). lia. }
  assert (Hoth_act : forall na l r0, In (na, l) act -> In r0 l -> jcar n0 (rc_pkt r0) = false).
  { intros na l r0 H1 H2. destruct (jcar n0 (rc_pkt r0)) eqn:E0; [|reflexivity].
    apply jcar_iff in E0. destruct (A2 _ _ _ H1 H2) as (_ & _ & X). destruct (X n0 E0). lia. }
  assert (Hh : jholdA n0 act = 0 /\ jhold n0 ex = 0).
  { split.
    - destruct (jholdA n0 act) eqn:E; [reflexivity|]. destruct (jholdA_pos n0 act) as (na & l & r0 & H1 & H2 & H3); [lia|].
      rewrite (Hoth_act _ _ _ H1 H2) in H3. discriminate.
    - destruct (jhold n0 ex) eqn:E; [reflexivity|]. destruct (jhold_pos n0 ex) as (r0 & H1 & H2); [lia|].
      rewrite (Hoth_ex _ H1) in H2. discriminate. }
  inversion A5 as [|? ? Hn1 Hn2]; subst.
  split.
  - intros r0 [<-|H0].
    + split; [rewrite Eret; lia|split; [rewrite Eret; lia|]]. intros n E. rewrite Ep in E. inversion E; subst.
      rewrite jcnt_snoc, jbit_wire, Hself, Hf, Eret. cbn. lia.
    + eapply JROK_snoc_other; [exact Ep|apply Hoth_ex; exact H0|apply A1; exact H0].
  - intros na l r0 H1 H2. eapply JROK_snoc_other; [exact Ep|eapply Hoth_act; eauto|eapply A2; eauto].
  - intros n. specialize (A3 n). unfold jhold in *. cbn [cntb].
    destruct (jcar n (rc_pkt r)) eqn:Ec; cbn [b2n]; [|lia].
    pose proof (jcar_some _ _ _ Ep Ec). subst n0. destruct Hh. unfold jhold in *. lia.
  - intros n. rewrite jcnt_snoc, jbit_wire. specialize (A4 n).
    destruct (jcar n (rc_pkt r)) eqn:Ec; cbn [b2n]; [|lia].
    pose proof (jcar_some _ _ _ Ep Ec). subst n0. rewrite Hf. unfold Mx. lia.
  - exact Hn2.
  - intros n. rewrite jcnt_snoc, jbit_wire. intros Hx Hin.
    destruct (jcar n (rc_pkt r)) eqn:Ec; cbn [b2n] in Hx.
    + pose proof (jcar_some _ _ _ Ep Ec). subst n0. contradiction.
    + apply (A6 n); [lia|right; exact Hin].
Qed.

(* ar_update_packet with a packet that is not a random packet, which is sent *)
Lemma JIP_update c H P ex d p cfg h old now :
  jnonce p = None -> JIP c H P ex (active h) ->
  JIP c (H ++ [OWire d p]) P ex (active (ar_update_packet cfg h old p now)).
Proof.
  intros Ep W.
  assert (Ho : forall n, jbit n (OWire d p) = 0) by (intros; apply jbit_none; exact Ep).
  apply (JIP_out_none _ _ _ _ _ _ Ho) in W.
  rewrite ar_update_packet_eq. destruct (nmap_get old (nmap h)) as [na|]; [|exact W]. cbv zeta.
  destruct (alist_get na (active h)) as [l|] eqn:Eg; [|exact W]. cbn [set_active active].
  destruct W as [A1 A2 A3 A4 A5 A6]. split; auto.
  - apply AllR_set; [exact A2|]. intros r' Hr'. pose proof (AllR_get _ _ _ _ A2 Eg) as Hl.
    destruct (upd_pkt_in _ _ _ _ _ Hr') as [H3|(r0 & H3 & ->)]; [apply Hl; exact H3|].
    destruct (Hl r0 H3) as (B1 & B2 & _). split; [exact B1|split; [exact B2|]].
    cbn [set_pkt rc_pkt]. intros n E. congruence.
  - intros n. specialize (A3 n). unfold jholdA in *.
    pose proof (asum_set (jhold n) _ _ _ (upd_pkt old p l false) Eg) as X.
    assert (Y : forall done, jhold n (upd_pkt old p l done) <= jhold n l).
    { clear -Ep. unfold jhold. induction l as [|r t IH]; intros done; cbn [upd_pkt cntb]; [lia|].
      destruct (negb done && nonce_eqb (rc_nonce r) old); cbn [cntb rc_pkt].
      - rewrite (jcar_none n p Ep). specialize (IH true). cbn [b2n]. lia.
      - specialize (IH done). lia. }
    specialize (Y false). lia.
Qed.

(* ------------------------------------------------------------------------------------------ *)
(* the draws are consumed from the front *)

Definition qnonce (q : N * N * N * N) : nonce := (fst (fst (fst q)), snd (fst (fst q))).
Definition pool (d : draws) : list nonce := map qnonce (d_pk d).
Definition Sufd (d d' : draws) : Prop := exists p, d_pk d = p ++ d_pk d'.
Definition Suf (s s' : st) : Prop := Sufd (dr s) (dr s').

Lemma Sufd_refl d : Sufd d d.
Proof. exists []. reflexivity. Qed.
Lemma Sufd_trans a b d : Sufd a b -> Sufd b d -> Sufd a d.
Proof. intros [p E1] [q E2]. exists (p ++ q). rewrite E1, E2, app_assoc. reflexivity. Qed.
Lemma Sufd_pop d : Sufd d (snd (pop_pk d)).
Proof. unfold pop_pk. destruct (d_pk d) as [|x r] eqn:E; cbn [snd]; [exists []; rewrite E; reflexivity|exists [x]; rewrite E; reflexivity]. Qed.
Lemma Sufd_same_pk d d' : d_pk d' = d_pk d -> Sufd d d'.
Proof. intros E. exists []. rewrite E. reflexivity. Qed.

Lemma Suf_refl s : Suf s s.
Proof. apply Sufd_refl. Qed.
Lemma Suf_trans a b d : Suf a b -> Suf b d -> Suf a d.
Proof. apply Sufd_trans. Qed.
Lemma Suf_same s s' : dr s' = dr s -> Suf s s'.
Proof. intros E. unfold Suf. rewrite E. apply Sufd_refl. Qed.
Lemma Suf_k_same s x x' : Suf s x -> dr x' = dr x -> Suf s x'.
Proof. intros H E. unfold Suf in *. rewrite E. exact H. Qed.

Lemma Suf_is_awaiting c s na : Suf s (fst (is_awaiting_session c s na)).
Proof. apply Suf_same. unfold is_awaiting_session. destruct (sess_get c (hs s) na) as [h se]. destruct se; reflexivity. Qed.

Lemma Suf_send_request c s ct ext rid body now : Suf s (fst (send_request c s ct ext rid body now)).
Proof.
  unfold send_request. destruct (existsb (N.eqb (c_addr ct)) (cfg_listen c)); [apply Suf_refl|].
  set (na := c_naddr ct).
  assert (Ha : Suf s (fst (if has_challenge (hs s) na then (s, true) else is_awaiting_session c s na))).
  { destruct (has_challenge (hs s) na); [apply Suf_refl|apply Suf_is_awaiting]. }
  destruct (if has_challenge (hs s) na then (s, true) else is_awaiting_session c s na) as [s1 awaiting].
  cbn [fst] in Ha. destruct awaiting; cbn [fst].
  - eapply Suf_k_same; [exact Ha|reflexivity].
  - destruct (sess_get c (hs s1) na) as [h2 se]. destruct se as [se|].
    + rewrite encrypt_message_eq. cbn [fst snd]. eapply Suf_trans; [exact Ha|]. apply Sufd_pop.
    + pose proof (Sufd_pop (dr (with_hs s1 h2))) as X.
      destruct (pop_pk (dr (with_hs s1 h2))) as [[[[cn r] aad] e0] d']. cbn [fst snd] in *.
      eapply Suf_trans; [exact Ha|exact X].
Qed.

Lemma Suf_send_pending_requests c s na now : Suf s (send_pending_requests c s na now).
Proof.
  unfold send_pending_requests. destruct (alist_get na (pending (hs s))) as [l|]; [|apply Suf_refl].
  apply (Suf_trans _ (with_hs s (set_pending (hs s) (alist_remove na (pending (hs s)))))); [apply Suf_same; reflexivity|].
  apply fold_left_rel; [apply Suf_refl|apply Suf_trans|].
  intros a q. pose proof (Suf_send_request c a (pq_contact q) (pq_ext q) (pq_rid q) (pq_body q) now) as H.
  destruct (send_request c a (pq_contact q) (pq_ext q) (pq_rid q) (pq_body q) now) as [s' ok].
  cbn [fst] in H. destruct ok; [exact H|]. destruct (pq_ext q); exact H.
Qed.

Lemma fold_dr {B} (f : st -> B -> st) : (forall s q, dr (f s q) = dr s) ->
  forall l s0, dr (fold_left f l s0) = dr s0.
Proof. intros Hf. induction l as [|q t IH]; intros s0; cbn [fold_left]; [reflexivity|]. rewrite IH. apply Hf. Qed.

Lemma fail_session_dr c s na err rm : dr (fail_session c s na err rm) = dr s.
Proof.
  unfold fail_session.
  set (s1 := if rm then let s0 := remove_expired_sessions c s in with_hs s0 (sess_remove (hs s0) na) else s).
  assert (E1 : dr s1 = dr s).
  { unfold s1; destruct rm; [|reflexivity]. cbv zeta. cbn [with_hs dr]. apply remove_expired_sessions_dr. }
  clearbody s1.
  set (s2 := match alist_get na (pending (hs s1)) with Some l => _ | None => s1 end).
  assert (E2 : dr s2 = dr s).
  { unfold s2. destruct (alist_get na (pending (hs s1))) as [l|]; [|exact E1].
    rewrite fold_dr; [exact E1|]. intros s0 q. destruct (pq_ext q); reflexivity. }
  clearbody s2. destruct (ar_remove_requests (hs s2) na) as [h3 reqs].
  rewrite fold_dr; [exact E2|]. intros s0 r. destruct (rc_ext r); reflexivity.
Qed.
Lemma fail_request_dr c s r err rm : dr (fail_request c s r err rm) = dr s.
Proof. unfold fail_request. rewrite fail_session_dr. destruct (rc_ext r); reflexivity. Qed.

Lemma replay_fold_dr c na reqs : forall s se pk,
  let g := (fun (acc : st * session * list (nonce * packet)) r =>
        let '(s, se, pk) := acc in
        let '(s', se', p) := encrypt_message c s na se (MReq (rc_rid r) (rc_body r)) in
        (s', se', pk ++ [(rc_nonce r, p)])) in
  let res := fold_left g reqs (s, se, pk) in
  Suf s (fst (fst res)) /\
  exists pk', snd res = pk ++ pk' /\ forall x, In x pk' -> jnonce (snd x) = None.
Proof.
  induction reqs as [| r reqs IH]; intros s se pk; cbn zeta; cbn [fold_left].
  - cbn [fst snd]. split; [apply Suf_refl|]. exists []. rewrite app_nil_r. split; [reflexivity|intros x []].
  - rewrite encrypt_message_eq.
    specialize (IH {| hs := hs s; dr := snd (pop_pk (dr s)); outs := outs s |} (bump se)
      (pk ++ [(rc_nonce r, PMsg (cfg_local c) ((s_counter se + 1)%N, pk_r (dr s)) (pk_aad (dr s))
         (CEnc (s_enc se) ((s_counter se + 1)%N, pk_r (dr s)) (MReq (rc_rid r) (rc_body r)) (pk_aad (dr s))))])).
    cbn zeta in IH. destruct IH as (E1 & pk' & E4 & E5).
    split; [eapply Suf_trans; [|exact E1]; apply Sufd_pop|].
    eexists. split; [rewrite E4, <- app_assoc; reflexivity|].
    intros x [<-|Hx]; [reflexivity|apply E5; exact Hx].
Qed.

Lemma Suf_replay c s na skip now : Suf s (replay_active_requests c s na skip now).
Proof.
  unfold replay_active_requests. destruct (sess_get c (hs s) na) as [h1 se].
  destruct se as [se0|]; [|apply Suf_same; reflexivity].
  set (reqs := filter _ _).
  pose proof (replay_fold_dr c na reqs (with_hs s h1) se0 []) as Hf. cbn zeta in Hf.
  destruct (fold_left _ reqs (with_hs s h1, se0, [])) as [[s2 se2] pkts]. cbn [fst snd] in Hf.
  destruct Hf as [E1 _].
  apply (Suf_trans _ (with_hs s2 (sess_put (hs s2) na se2))); [exact E1|].
  apply fold_left_rel; [apply Suf_refl|apply Suf_trans|]. intros a x. apply Suf_same. reflexivity.
Qed.

Lemma Suf_new_session c s na se skip now : Suf s (new_session c s na se skip now).
Proof.
  unfold new_session.
  eapply Suf_trans; [apply (Suf_same s (remove_expired_sessions c s)); apply remove_expired_sessions_dr|].
  generalize (remove_expired_sessions c s). clear s. intros s.
  destruct (sess_get c (hs s) na) as [h1 cur]. destruct cur as [cs|].
  - match goal with |- context [replay_active_requests c ?s1 na skip now] =>
      assert (X : Suf s (replay_active_requests c s1 na skip now)) end.
    { eapply Suf_trans; [|apply Suf_replay]. apply Suf_same. reflexivity. }
    destruct (fix_d2a c); [|exact X]. eapply Suf_trans; [exact X|apply Suf_send_pending_requests].
  - eapply Suf_trans; [|apply Suf_send_pending_requests]. apply Suf_same. reflexivity.
Qed.

Lemma handle_request_timeout_dr c s na r now : dr (handle_request_timeout c s na r now) = dr s.
Proof.
  unfold handle_request_timeout. destruct (N.leb (cfg_retries c) (rc_retries r)); [|reflexivity].
  rewrite fail_request_dr. reflexivity.
Qed.

Lemma Suf_send_response c s na rid rb : Suf s (send_response c s na rid rb).
Proof.
  unfold send_response. destruct (sess_get c (hs s) na) as [h1 se]. destruct se as [se|]; [|apply Suf_same; reflexivity].
  rewrite encrypt_message_eq. apply Sufd_pop.
Qed.
Lemma Suf_send_challenge c s na n known now : Suf s (send_challenge c s na n known now).
Proof.
  unfold send_challenge. destruct (has_challenge (hs s) na); [apply Suf_refl|].
  pose proof (Sufd_pop (dr s)) as X. destruct (pop_pk (dr s)) as [[[[idn x2] cd] x4] d']. exact X.
Qed.
Lemma handle_response_dr c s na rid rb now : dr (handle_response c s na rid rb now) = dr s.
Proof.
  unfold handle_response. destruct (ar_remove_request (hs s) na rid) as [h1 found]. destruct found as [r|]; [|reflexivity].
  cbv zeta. destruct rb as [total recs|tag]; [|reflexivity].
  destruct (N.ltb 1 total); [|reflexivity]. destruct (rc_remaining r) as [rem|]; [|reflexivity].
  destruct (negb (N.eqb (rem - 1) 0)); reflexivity.
Qed.
Lemma handle_message_dr c s na n aad ct now : dr (handle_message c s na n aad ct now) = dr s.
Proof.
  unfold handle_message. destruct (sess_get c (hs s) na) as [h1 se]. destruct se as [se|]; [|reflexivity].
  destruct (decrypt_message se n aad ct) as [se' m].
  destruct m as [[rid body|rid rb|j]|]; try reflexivity.
  - destruct (s_await se') as [arid|]; [|rewrite handle_response_dr; reflexivity].
    destruct (N.eqb rid arid); [|rewrite handle_response_dr; reflexivity].
    match goal with |- context [fail_session c ?x na ERR_INVALID_REMOTE_ENR true] => set (s3 := x) end.
    assert (E3 : dr s3 = dr s).
    { unfold s3. destruct (fix_d2b c); [|reflexivity].
      match goal with |- context [ar_remove_request ?h na rid] => destruct (ar_remove_request h na rid) as [h4 found] end.
      destruct found; reflexivity. }
    clearbody s3.
    destruct rb as [total recs|tag]; [|rewrite fail_session_dr; exact E3].
    destruct (rev recs) as [|e t]; [rewrite fail_session_dr; exact E3|].
    destruct (verify_enr e na); [exact E3|rewrite fail_session_dr; exact E3].
  - match goal with |- context [has_challenge (hs ?x) na] => assert (E3 : dr x = dr s) by (rewrite fail_session_dr; reflexivity) end.
    destruct (has_challenge _ na); exact E3.
Qed.

Lemma Suf_handle_auth_message c s na n aad sg eph eph_ok rec ct now :
  Suf s (handle_auth_message c s na n aad sg eph eph_ok rec ct now).
Proof.
  unfold handle_auth_message. destruct (chall_get na (challenges (hs s))) as [ch|]; [|apply Suf_refl].
  destruct (establish c (fst na) ch sg eph eph_ok rec) as [se e| |].
  - match goal with |- Suf s (handle_message c ?x na n aad ct now) =>
      apply (Suf_k_same s x); [|apply handle_message_dr] end.
    eapply Suf_trans; [|apply Suf_new_session]. destruct (verify_enr e na); apply Suf_same; reflexivity.
  - apply Suf_same. reflexivity.
  - apply Suf_same. rewrite fail_session_dr. destruct (fix_d6 c); reflexivity.
Qed.

Lemma Sufd_pop_rid d : Sufd d (snd (pop_rid d)).
Proof. apply Sufd_same_pk. unfold pop_rid. destruct (d_rid d); reflexivity. Qed.
Lemma Sufd_pop_rev d : Sufd d (snd (pop_rev d)).
Proof. apply Sufd_same_pk. unfold pop_rev. destruct (d_rev d); reflexivity. Qed.

Lemma Suf_handle_challenge c s src n seq cd now : Suf s (handle_challenge c s src n seq cd now).
Proof.
  unfold handle_challenge. destruct (nmap_get n (nmap (hs s))) as [na0|]; [|apply Suf_refl].
  destruct (ar_remove_by_nonce (hs s) n) as [h1 found].
  destruct found as [[na r]|]; [|apply Suf_same; reflexivity].
  destruct (negb (N.eqb (snd na) src)); [apply Suf_same; reflexivity|].
  destruct (rc_hs_sent r || c_ed (rc_contact r)).
  { apply Suf_same. rewrite fail_request_dr. destruct (fix_d6 c); reflexivity. }
  pose proof (Sufd_pop (dr (with_hs s h1))) as X.
  destruct (pop_pk (dr (with_hs s h1))) as [[[[cn rr] aad] eph] d']. cbn [snd with_hs dr] in X.
  set (ct := rc_contact r).
  destruct (c_enr ct) as [e|].
  - eapply Suf_trans; [|apply Suf_new_session]. exact X.
  - match goal with |- context [pop_rid (dr ?s4)] => pose proof (Sufd_pop_rid (dr s4)) as Y; destruct (pop_rid (dr s4)) as [irid d''] end.
    cbn [snd send emit with_hs dr] in Y.
    match goal with |- context [send_request c ?s5 ct false irid 0%N now] =>
      pose proof (Suf_send_request c s5 ct false irid 0%N now) as Z;
      destruct (send_request c s5 ct false irid 0%N now) as [s6 ok] end.
    cbn [fst] in Z. eapply Suf_trans; [|apply Suf_new_session]. eapply Suf_trans; [|exact Z].
    unfold Suf. cbn [dr]. eapply Sufd_trans; [exact X|exact Y].
Qed.

Lemma Suf_fire_request c s n na now : Suf s (fire_request c s n na now).
Proof.
  apply Suf_same. unfold fire_request. destruct (alist_get na (active (hs s))) as [l|]; [|reflexivity].
  destruct (remove_first _ l) as [[r l']|]; [|reflexivity]. rewrite handle_request_timeout_dr. reflexivity.
Qed.
Lemma Suf_fire_challenge c s na now : Suf s (fire_challenge c s na now).
Proof. unfold fire_challenge. eapply Suf_trans; [|apply Suf_send_pending_requests]. apply Suf_same. reflexivity. Qed.
Lemma Suf_fire_group c s g d ft : Suf s (fire_group c s g d ft).
Proof.
  unfold fire_group. apply fold_left_rel; [apply Suf_refl|apply Suf_trans|].
  intros a x. destruct (nmap_deadline (fst x) (nmap (hs a))) as [d'|]; [|apply Suf_refl].
  destruct (N.eqb d' d); [apply Suf_fire_request|apply Suf_refl].
Qed.
Lemma Suf_fire_due c now fuel : forall s, Suf s (fire_due c s now fuel).
Proof.
  induction fuel as [|f IH]; intros s; cbn [fire_due]; [apply Suf_refl|].
  assert (FR : forall d, Suf s (match group_of d (nmap (hs s)) with
      | _ :: _ :: _ =>
        let (rev_order, d') := pop_rev (dr s) in
        fire_group (with_clock c (fire_time c d now)) {| hs := hs s; dr := d'; outs := outs s |}
          (if rev_order then rev (group_of d (nmap (hs s))) else group_of d (nmap (hs s))) d (fire_time c d now)
      | _ => fire_group (with_clock c (fire_time c d now)) s (group_of d (nmap (hs s))) d (fire_time c d now)
      end)).
  { intros d. destruct (group_of d (nmap (hs s))) as [|x [|y g]]; try apply Suf_fire_group.
    pose proof (Sufd_pop_rev (dr s)) as X. destruct (pop_rev (dr s)) as [ro d']. cbn [snd] in X.
    eapply Suf_trans; [|apply Suf_fire_group]. exact X. }
  destruct (min_deadline_nmap (nmap (hs s)) None) as [[[rn ra] rd]|];
  destruct (min_deadline_ch (challenges (hs s)) None) as [[[cna cc] cd]|].
  - destruct (N.ltb rd now && (negb (N.ltb cd now) || N.leb rd cd)); [eapply Suf_trans; [apply FR|apply IH]|].
    destruct (N.ltb cd now); [eapply Suf_trans; [apply Suf_fire_challenge|apply IH]|apply Suf_refl].
  - destruct (N.ltb rd now); [eapply Suf_trans; [apply FR|apply IH]|apply Suf_refl].
  - destruct (N.ltb cd now); [eapply Suf_trans; [apply Suf_fire_challenge|apply IH]|apply Suf_refl].
  - apply Suf_refl.
Qed.

Lemma Suf_dispatch c s0 e now : Suf s0 (dispatch c s0 e now).
Proof.
  destruct e as [ct rid body|na rid rb|na n known|from p|]; cbn [dispatch].
  - pose proof (Suf_send_request c s0 ct true rid body now) as X.
    destruct (send_request c s0 ct true rid body now) as [s1 ok]. cbn [fst] in X. destruct ok; exact X.
  - apply Suf_send_response.
  - apply Suf_send_challenge.
  - destruct p.
    + apply Suf_same. apply handle_message_dr.
    + apply Suf_handle_challenge.
    + apply Suf_handle_auth_message.
  - apply Suf_refl.
Qed.

(* ------------------------------------------------------------------------------------------ *)
(* the invariant on the step monad.  fut: the nonces of the draws of the later steps.
   [Exh s]: the draws of the step are exhausted - then nothing is claimed (the theorem assumes that
   no step exhausts its draws). *)

Definition JI (c : config) (fut : list nonce) (H0 : list output) (ex : list rcall) (s : st) : Prop :=
  JIP c (H0 ++ outs s) (pool (dr s) ++ fut) ex (active (hs s)).
Definition Exh (s : st) : Prop := d_pk (dr s) = [].
Definition J (c : config) (fut : list nonce) (H0 : list output) (ex : list rcall) (s : st) : Prop :=
  Exh s \/ JI c fut H0 ex s.

Lemma Exh_suf s s' : Suf s s' -> Exh s -> Exh s'.
Proof. intros [p E] H. unfold Exh in *. rewrite H in E. destruct p; [cbn in E; auto|discriminate]. Qed.

Lemma J_cases c fut H0 ex ex' s s' :
  Suf s s' -> (JI c fut H0 ex s -> J c fut H0 ex' s') -> J c fut H0 ex s -> J c fut H0 ex' s'.
Proof. intros HS HJ [U|W]; [left; eapply Exh_suf; eauto|apply HJ; exact W]. Qed.

Lemma JI_dr c fut H0 ex s d' :
  Sufd (dr s) d' -> JI c fut H0 ex s -> JI c fut H0 ex {| hs := hs s; dr := d'; outs := outs s |}.
Proof.
  intros [p E] W. unfold JI, pool in *. cbn [hs dr outs]. rewrite E, map_app, <- app_assoc in W.
  eapply JIP_pool. exact W.
Qed.
Lemma JI_frame c fut H0 ex s h : active h = active (hs s) -> JI c fut H0 ex s -> JI c fut H0 ex (with_hs s h).
Proof. intros E W. unfold JI in *. cbn [with_hs hs outs dr]. rewrite E. exact W. Qed.
Lemma JI_drop c fut H0 r ex s : JI c fut H0 (r :: ex) s -> JI c fut H0 ex s.
Proof. apply JIP_drop. Qed.
Lemma JI_emit_event c fut H0 ex s e : JI c fut H0 ex s -> JI c fut H0 ex (emit s (OEvent e)).
Proof. intros W. unfold JI. rewrite hist_emit. cbn [emit hs dr]. apply JIP_out_none; [reflexivity|exact W]. Qed.
Lemma JI_send_none c fut H0 ex s na p : jnonce p = None -> JI c fut H0 ex s -> JI c fut H0 ex (send s na p).
Proof.
  intros Ep W. unfold JI, send. rewrite hist_emit. cbn [emit hs dr].
  apply JIP_out_none; [intros; apply jbit_none; exact Ep|exact W].
Qed.
Lemma JI_insert c fut H0 r ex s cfg na now :
  JI c fut H0 (r :: ex) s -> JI c fut H0 ex (with_hs s (ar_insert cfg (hs s) na r now)).
Proof. intros W. unfold JI in *. cbn [with_hs hs outs dr]. rewrite active_ar_insert. apply JIP_insert. exact W. Qed.
Lemma JI_new_inhand c fut H0 r' ex s na :
  jnonce (rc_pkt r') = None -> (1 <= rc_retries r')%N -> (rc_retries r' <= N.max 1 (cfg_retries c))%N ->
  JI c fut H0 ex s -> JI c fut H0 (r' :: ex) (send s na (rc_pkt r')).
Proof. intros E B1 B2 W. unfold JI, send. rewrite hist_emit. cbn [emit hs dr]. apply JIP_new_inhand; assumption. Qed.
Lemma JI_sim c fut H0 r r' ex s :
  rc_pkt r' = rc_pkt r -> rc_retries r' = rc_retries r -> JI c fut H0 (r :: ex) s -> JI c fut H0 (r' :: ex) s.
Proof. intros E1 E2. apply JIP_sim; assumption. Qed.

(* lifting to J *)
Lemma J_frame c fut H0 ex s h : active h = active (hs s) -> J c fut H0 ex s -> J c fut H0 ex (with_hs s h).
Proof. intros E [U|W]; [left; exact U|right; apply JI_frame; assumption]. Qed.
Lemma J_emit_event c fut H0 ex s e : J c fut H0 ex s -> J c fut H0 ex (emit s (OEvent e)).
Proof. intros [U|W]; [left; exact U|right; apply JI_emit_event; exact W]. Qed.
Lemma J_drop c fut H0 r ex s : J c fut H0 (r :: ex) s -> J c fut H0 ex s.
Proof. intros [U|W]; [left; exact U|right; eapply JI_drop; exact W]. Qed.
Lemma J_add_expected c fut H0 ex s a : J c fut H0 ex s -> J c fut H0 ex (add_expected s a).
Proof. intros W. unfold add_expected. apply J_frame; [reflexivity|exact W]. Qed.
Lemma J_remove_expected c fut H0 ex s a : J c fut H0 ex s -> J c fut H0 ex (remove_expected s a).
Proof. intros W. unfold remove_expected. apply J_frame; [reflexivity|exact W]. Qed.
Lemma J_insert c fut H0 r ex s cfg na now :
  J c fut H0 (r :: ex) s -> J c fut H0 ex (with_hs s (ar_insert cfg (hs s) na r now)).
Proof. intros [U|W]; [left; exact U|right; apply JI_insert; exact W]. Qed.
Lemma J_dr_same c fut H0 ex s d' : d_pk d' = d_pk (dr s) -> J c fut H0 ex s -> J c fut H0 ex {| hs := hs s; dr := d'; outs := outs s |}.
Proof.
  intros E [U|W]; [left; unfold Exh in *; cbn [dr]; rewrite E; exact U|right].
  apply JI_dr; [apply Sufd_same_pk; exact E|exact W].
Qed.

Lemma active_sess_get4 c h na : active (fst (sess_get c h na)) = active h.
Proof. apply (sess_get_frame c h na). Qed.

Lemma J_is_awaiting c fut H0 ex s na : J c fut H0 ex s -> J c fut H0 ex (fst (is_awaiting_session c s na)).
Proof.
  intros W. unfold is_awaiting_session. pose proof (active_sess_get4 c (hs s) na) as E.
  destruct (sess_get c (hs s) na) as [h se]. cbn [fst] in E. destruct se; cbn [fst]; apply J_frame; assumption.
Qed.

(* Handler::remove_expired_sessions: the request lists are untouched, one event *)
Lemma J_remove_expired c fut H0 ex s : J c fut H0 ex s -> J c fut H0 ex (remove_expired_sessions c s).
Proof.
  intros W. rewrite remove_expired_sessions_eq. destruct (fst (drop_expired c (sessions (hs s)))) as [|k ks]; [exact W|].
  apply J_emit_event. apply J_frame; [reflexivity|exact W].
Qed.

Lemma pop_pk_pool d q d' : pop_pk d = (q, d') -> (d_pk d = [] /\ d' = d) \/ pool d = qnonce q :: pool d'.
Proof.
  intros H. unfold pop_pk in H. destruct (d_pk d) as [|x r] eqn:E.
  - left. inversion H; subst. auto.
  - right. inversion H; subst. unfold pool. cbn [d_pk]. rewrite E. reflexivity.
Qed.

(* Handler::send_request *)
Lemma J_send_request c fut H0 ex s ct ext rid body now :
  J c fut H0 ex s -> J c fut H0 ex (fst (send_request c s ct ext rid body now)).
Proof.
  apply J_cases; [apply Suf_send_request|]. intros W. unfold send_request.
  destruct (existsb (N.eqb (c_addr ct)) (cfg_listen c)); [right; exact W|].
  set (na := c_naddr ct).
  assert (Ha : J c fut H0 ex (fst (if has_challenge (hs s) na then (s, true) else is_awaiting_session c s na))).
  { destruct (has_challenge (hs s) na); [right; exact W|apply J_is_awaiting; right; exact W]. }
  destruct (if has_challenge (hs s) na then (s, true) else is_awaiting_session c s na) as [s1 awaiting].
  cbn [fst] in Ha. destruct awaiting; cbn [fst].
  - apply J_frame; [|exact Ha]. cbn [hs with_hs]. unfold push_pending. destruct (alist_get na (pending (hs s1))); reflexivity.
  - pose proof (active_sess_get4 c (hs s1) na) as Eg.
    destruct (sess_get c (hs s1) na) as [h2 se]. cbn [fst] in Eg.
    assert (Hg : J c fut H0 ex (with_hs s1 h2)) by (apply J_frame; assumption).
    destruct se as [se|].
    + rewrite encrypt_message_eq. cbn [fst snd].
      destruct Hg as [U|Hg].
      { left. unfold Exh in *. cbn [with_hs send emit add_expected dr] in *. unfold pop_pk. rewrite U. exact U. }
      right.
      match goal with |- JI _ _ _ _ (with_hs (send ?s4 _ ?p) (ar_insert _ _ _ ?call _)) =>
        change p with (rc_pkt call) end.
      apply JI_insert. apply JI_new_inhand; [reflexivity|cbn [rc_retries]; lia|cbn [rc_retries]; lia|].
      unfold add_expected. apply JI_frame; [reflexivity|]. apply JI_frame; [reflexivity|].
      apply (JI_dr c fut H0 ex (with_hs s1 h2)); [apply Sufd_pop|exact Hg].
    + destruct (pop_pk (dr (with_hs s1 h2))) as [[[[cn r] aad] e0] d'] eqn:Ep. cbn [fst snd].
      destruct Hg as [U|Hg].
      { left. unfold Exh in *. cbn [with_hs send emit add_expected dr] in *.
        unfold pop_pk in Ep. rewrite U in Ep. inversion Ep; subst. exact U. }
      destruct (pop_pk_pool _ _ _ Ep) as [[U E]|Epool].
      { left. subst d'. exact U. }
      right.
      match goal with |- JI _ _ _ _ (with_hs (send ?s4 _ ?p) (ar_insert _ _ _ ?call _)) =>
        change p with (rc_pkt call) end.
      apply JI_insert. unfold JI, send. rewrite hist_emit. cbn [emit add_expected with_hs hs dr outs].
      apply (JIP_create c _ _ (cn, r)); [reflexivity|reflexivity|].
      unfold JI in Hg. cbn [with_hs hs dr outs] in Hg, Epool. rewrite Epool in Hg. exact Hg.
Qed.

Lemma J_send_pending_requests c fut H0 ex s na now :
  J c fut H0 ex s -> J c fut H0 ex (send_pending_requests c s na now).
Proof.
  intros W. unfold send_pending_requests. destruct (alist_get na (pending (hs s))) as [l|]; [|exact W].
  apply (fold_left_inv (fun s => J c fut H0 ex s)).
  - intros s' q _ Hs'. pose proof (J_send_request c fut H0 ex s' (pq_contact q) (pq_ext q) (pq_rid q) (pq_body q) now Hs') as X.
    destruct (send_request c s' (pq_contact q) (pq_ext q) (pq_rid q) (pq_body q) now) as [s'' ok].
    cbn [fst] in X. destruct ok; [exact X|]. destruct (pq_ext q); [apply J_emit_event; exact X|exact X].
  - apply J_frame; [reflexivity|exact W].
Qed.

Lemma J_take_all c fut H0 ex s na h3 reqs :
  ar_remove_requests (hs s) na = (h3, reqs) -> J c fut H0 ex s -> J c fut H0 ex (with_hs s h3).
Proof.
  intros E [U|W]; [left; exact U|right]. unfold ar_remove_requests in E.
  destruct (alist_get na (active (hs s))) as [l|] eqn:Hg; inversion E; subst; [|exact W].
  unfold JI in *. cbn [with_hs hs outs dr set_active active]. eapply JIP_drop_all. apply JIP_take_all; eauto.
Qed.

Lemma J_fail_session c fut H0 ex s na err rm :
  J c fut H0 ex s -> J c fut H0 ex (fail_session c s na err rm).
Proof.
  intros W. unfold fail_session.
  set (s1 := if rm then let s0 := remove_expired_sessions c s in with_hs s0 (sess_remove (hs s0) na) else s).
  assert (W1 : J c fut H0 ex s1).
  { unfold s1. destruct rm; [|exact W]. cbv zeta. apply J_frame; [reflexivity|apply J_remove_expired; exact W]. }
  clearbody s1.
  set (s2 := match alist_get na (pending (hs s1)) with Some l => _ | None => s1 end).
  assert (W2 : J c fut H0 ex s2).
  { unfold s2. destruct (alist_get na (pending (hs s1))) as [l|]; [|exact W1].
    apply (fold_left_inv (fun s => J c fut H0 ex s)).
    - intros s' q _ Hs'. destruct (pq_ext q); [apply J_emit_event; exact Hs'|exact Hs'].
    - apply J_frame; [reflexivity|exact W1]. }
  clearbody s2.
  destruct (ar_remove_requests (hs s2) na) as [h3 reqs] eqn:E.
  apply (fold_left_inv (fun s => J c fut H0 ex s)).
  - intros s' r _ Hs'. apply J_remove_expected. destruct (rc_ext r); [apply J_emit_event; exact Hs'|exact Hs'].
  - eapply J_take_all; eauto.
Qed.

Lemma J_fail_request c fut H0 r ex s err rm :
  J c fut H0 (r :: ex) s -> J c fut H0 ex (fail_request c s r err rm).
Proof.
  intros W. unfold fail_request. apply J_fail_session. apply J_drop in W.
  destruct (rc_ext r); [apply J_emit_event; exact W|exact W].
Qed.

Lemma J_handle_request_timeout c fut H0 r ex s na now :
  J c fut H0 (r :: ex) s -> J c fut H0 ex (handle_request_timeout c s na r now).
Proof.
  intros W. unfold handle_request_timeout. destruct (N.leb (cfg_retries c) (rc_retries r)) eqn:E.
  - apply J_fail_request. apply J_remove_expected. exact W.
  - apply N.leb_gt in E. apply (J_insert c fut H0 (bump_retries r)).
    destruct W as [U|W]; [left; exact U|right].
    unfold JI, send. rewrite hist_emit. cbn [emit hs dr]. apply JIP_resend; assumption.
Qed.

Lemma J_send_response c fut H0 ex s na rid rb :
  J c fut H0 ex s -> J c fut H0 ex (send_response c s na rid rb).
Proof.
  apply J_cases; [apply Suf_send_response|]. intros W. right. unfold send_response.
  pose proof (active_sess_get4 c (hs s) na) as Eg.
  destruct (sess_get c (hs s) na) as [h1 se]. cbn [fst] in Eg. destruct se as [se|]; [|apply JI_frame; assumption].
  rewrite encrypt_message_eq. apply JI_send_none; [reflexivity|]. apply JI_frame; [reflexivity|].
  apply (JI_dr c fut H0 ex (with_hs s h1)); [apply Sufd_pop|]. apply JI_frame; assumption.
Qed.

Lemma J_send_challenge c fut H0 ex s na n known now :
  J c fut H0 ex s -> J c fut H0 ex (send_challenge c s na n known now).
Proof.
  apply J_cases; [apply Suf_send_challenge|]. intros W. right. unfold send_challenge.
  destruct (has_challenge (hs s) na); [exact W|].
  pose proof (Sufd_pop (dr s)) as X. destruct (pop_pk (dr s)) as [[[[idn x2] cd] x4] d']. cbn [snd] in X.
  apply JI_frame; [reflexivity|]. apply JI_send_none; [reflexivity|]. unfold add_expected. apply JI_frame; [reflexivity|].
  apply (JI_dr c fut H0 ex s); assumption.
Qed.

Lemma J_take_request c fut H0 ex s na rid h1 r :
  ar_remove_request (hs s) na rid = (h1, Some r) -> J c fut H0 ex s -> J c fut H0 (r :: ex) (with_hs s h1).
Proof.
  intros E [U|W]; [left; exact U|right]. unfold ar_remove_request in E.
  destruct (alist_get na (active (hs s))) as [l|] eqn:Hg; [|discriminate].
  destruct (remove_first (fun r0 => N.eqb (rc_rid r0) rid) l) as [[r0 l']|] eqn:R; [|discriminate].
  inversion E; subst. unfold JI in *. cbn [with_hs hs outs dr set_active active]. eapply JIP_take; eauto.
Qed.

Lemma J_sim c fut H0 r r' ex s :
  rc_pkt r' = rc_pkt r -> rc_retries r' = rc_retries r -> J c fut H0 (r :: ex) s -> J c fut H0 (r' :: ex) s.
Proof. intros E1 E2 [U|W]; [left; exact U|right; eapply JI_sim; eauto]. Qed.

Lemma J_handle_response c fut H0 ex s na rid rb now :
  J c fut H0 ex s -> J c fut H0 ex (handle_response c s na rid rb now).
Proof.
  intros W. unfold handle_response.
  destruct (ar_remove_request (hs s) na rid) as [h1 found] eqn:E.
  destruct found as [r|]; [|exact W].
  pose proof (J_take_request c fut H0 ex s na rid h1 r E W) as W1.
  assert (R : forall rem ev, J c fut H0 ex (emit (with_hs (with_hs s h1)
             (ar_insert c (hs (with_hs s h1)) na
                {| rc_contact := rc_contact r; rc_pkt := rc_pkt r; rc_ext := rc_ext r; rc_rid := rc_rid r;
                   rc_body := rc_body r; rc_hs_sent := rc_hs_sent r; rc_retries := rc_retries r;
                   rc_remaining := rem; rc_init := rc_init r |} now)) (OEvent ev))).
  { intros rem ev. apply J_emit_event. apply J_insert. eapply J_sim; [| |exact W1]; reflexivity. }
  assert (F : forall ev, J c fut H0 ex (emit (remove_expected (with_hs s h1) (snd na)) (OEvent ev))).
  { intros ev. apply J_emit_event. apply J_remove_expected. eapply J_drop. exact W1. }
  cbv zeta. destruct rb as [total recs|tag]; [|apply F].
  destruct (N.ltb 1 total); [|apply F].
  destruct (rc_remaining r) as [rem|]; [|apply R].
  destruct (negb (N.eqb (rem - 1) 0)); [apply R|apply F].
Qed.

Lemma J_handle_message c fut H0 ex s na n aad ct now :
  J c fut H0 ex s -> J c fut H0 ex (handle_message c s na n aad ct now).
Proof.
  intros W. unfold handle_message.
  pose proof (active_sess_get4 c (hs s) na) as Eg.
  destruct (sess_get c (hs s) na) as [h1 se]. cbn [fst] in Eg.
  destruct se as [se|]; [|apply J_emit_event; apply J_frame; assumption].
  destruct (decrypt_message se n aad ct) as [se' m].
  set (s2 := with_hs (with_hs s h1) (sess_put (hs (with_hs s h1)) na se')).
  assert (W2 : J c fut H0 ex s2).
  { unfold s2. apply J_frame; [reflexivity|]. apply J_frame; assumption. }
  clearbody s2.
  destruct m as [[rid body|rid rb|j]|].
  - apply J_emit_event. exact W2.
  - assert (HR : J c fut H0 ex (handle_response c s2 na rid rb now)) by (apply J_handle_response; exact W2).
    destruct (s_await se') as [arid|]; [|exact HR].
    destruct (N.eqb rid arid); [|exact HR].
    match goal with |- context [fail_session c ?x na ERR_INVALID_REMOTE_ENR true] => set (s3 := x) end.
    assert (W3 : J c fut H0 ex s3).
    { unfold s3.
      assert (W3 : J c fut H0 ex (with_hs s2 (sess_put (hs s2) na
                   {| s_enc := s_enc se'; s_dec := s_dec se'; s_old := s_old se'; s_await := None;
                      s_counter := s_counter se'; s_used := s_used se' |}))).
      { apply J_frame; [reflexivity|exact W2]. }
      destruct (fix_d2b c); [|exact W3].
      match goal with |- context [ar_remove_request ?h na rid] =>
        destruct (ar_remove_request h na rid) as [h4 found] eqn:E end.
      destruct found as [r|]; [|exact W3].
      apply J_remove_expected. eapply J_drop. eapply J_take_request; [exact E|exact W3]. }
    clearbody s3.
    destruct rb as [total recs|tag]; [|apply J_fail_session; exact W3].
    destruct (rev recs) as [|e t]; [apply J_fail_session; exact W3|].
    destruct (verify_enr e na); [apply J_emit_event; exact W3|].
    apply J_fail_session. apply J_emit_event. exact W3.
  - exact W2.
  - match goal with |- context [has_challenge (hs ?x) na] => assert (W3 : J c fut H0 ex x) end.
    { apply J_fail_session. exact W2. }
    destruct (has_challenge _ na); [exact W3|apply J_emit_event; exact W3].
Qed.

(* Handler::replay_active_requests: the re-encrypted packets are not random packets *)
Lemma J_replay_fold2 c fut H0 ex na now : forall pkts s,
  (forall x, In x pkts -> jnonce (snd x) = None) ->
  J c fut H0 ex s ->
  J c fut H0 ex
    (fold_left (fun s (x : nonce * packet) =>
       let s' := with_hs s (ar_update_packet c (hs s) (fst x) (snd x) now) in send s' na (snd x)) pkts s).
Proof.
  induction pkts as [|x t IH]; intros s Hp W; cbn [fold_left]; [exact W|].
  apply IH; [intros y Hy; apply Hp; right; exact Hy|]. cbv zeta.
  destruct W as [U|W]; [left; exact U|right].
  unfold JI, send. rewrite hist_emit. cbn [emit with_hs hs dr outs].
  apply JIP_update; [apply Hp; left; reflexivity|exact W].
Qed.

Lemma J_replay c fut H0 ex s na skip now :
  J c fut H0 ex s -> J c fut H0 ex (replay_active_requests c s na skip now).
Proof.
  intros W. unfold replay_active_requests.
  pose proof (active_sess_get4 c (hs s) na) as Eg.
  destruct (sess_get c (hs s) na) as [h1 se]. cbn [fst] in Eg.
  destruct se as [se0|]; [|apply J_frame; assumption].
  set (reqs := filter _ _).
  pose proof (replay_fold_dr c na reqs (with_hs s h1) se0 []) as Hf. cbn zeta in Hf.
  pose proof (replay_fold c na reqs (with_hs s h1) se0 []) as Hf2. cbn zeta in Hf2.
  destruct (fold_left _ reqs (with_hs s h1, se0, [])) as [[s2 se2] pkts]. cbn [fst snd] in Hf, Hf2.
  destruct Hf as (S1 & pk' & E4 & E5). destruct Hf2 as (E1 & E2 & _). cbn [hs with_hs outs app] in E1, E2, E4. subst pkts.
  apply J_replay_fold2; [exact E5|].
  apply J_frame; [reflexivity|].
  assert (W1 : J c fut H0 ex (with_hs s h1)) by (apply J_frame; assumption).
  destruct W1 as [U|W1]; [left; eapply (Exh_suf (with_hs s h1)); eauto|right].
  destruct S1 as [p Ep]. unfold JI, pool in *. cbn [with_hs hs dr outs] in *.
  rewrite E1, E2. rewrite Ep, map_app, <- app_assoc in W1. eapply JIP_pool. exact W1.
Qed.

Lemma J_new_session c fut H0 ex s na se skip now :
  J c fut H0 ex s -> J c fut H0 ex (new_session c s na se skip now).
Proof.
  intros W. unfold new_session.
  apply J_remove_expired in W. revert W. generalize (remove_expired_sessions c s). clear s. intros s W.
  pose proof (active_sess_get4 c (hs s) na) as Eg.
  destruct (sess_get c (hs s) na) as [h1 cur]. cbn [fst] in Eg.
  destruct cur as [cs|].
  - match goal with |- context [replay_active_requests c ?s1 na skip now] =>
      assert (X : J c fut H0 ex (replay_active_requests c s1 na skip now)) end.
    { apply J_replay. apply J_frame; [exact Eg|exact W]. }
    destruct (fix_d2a c); [apply J_send_pending_requests; exact X|exact X].
  - apply J_send_pending_requests. apply J_frame; [exact Eg|exact W].
Qed.

Lemma J_handle_auth_message c fut H0 ex s na n aad sg eph eph_ok rec ct now :
  J c fut H0 ex s -> J c fut H0 ex (handle_auth_message c s na n aad sg eph eph_ok rec ct now).
Proof.
  intros W. unfold handle_auth_message. destruct (chall_get na (challenges (hs s))) as [ch|]; [|exact W].
  set (s1 := with_hs s (set_challenges (hs s) (chall_remove na (challenges (hs s))))).
  assert (W1 : J c fut H0 ex s1) by (unfold s1; apply J_frame; [reflexivity|exact W]). clearbody s1.
  destruct (establish c (fst na) ch sg eph eph_ok rec) as [se e| |].
  - apply J_handle_message. apply J_new_session.
    destruct (verify_enr e na); apply J_emit_event; apply J_remove_expected; exact W1.
  - apply J_frame; [reflexivity|exact W1].
  - apply J_fail_session. destruct (fix_d6 c); [apply J_remove_expected|]; exact W1.
Qed.

Lemma J_take_by_nonce c fut H0 ex s n h1 found :
  ar_remove_by_nonce (hs s) n = (h1, found) -> J c fut H0 ex s ->
  match found with
  | Some (na, r) => J c fut H0 (r :: ex) (with_hs s h1)
  | None => J c fut H0 ex (with_hs s h1)
  end.
Proof.
  intros E W. unfold ar_remove_by_nonce in E.
  destruct (nmap_get n (nmap (hs s))) as [na|]; [|inversion E; subst; exact W].
  destruct (alist_get na (active (hs s))) as [l|] eqn:Hg.
  2:{ inversion E; subst. apply J_frame; [reflexivity|exact W]. }
  destruct (remove_first (fun r => nonce_eqb (rc_nonce r) n) l) as [[r l']|] eqn:R; inversion E; subst.
  - destruct W as [U|W]; [left; exact U|right].
    unfold JI in *. cbn [with_hs hs outs dr set_active active]. eapply JIP_take; eauto.
  - destruct W as [U|W]; [left; exact U|right].
    unfold JI in *. cbn [with_hs hs outs dr set_active active]. apply JIP_put_same; assumption.
Qed.

Lemma J_handle_challenge c fut H0 ex s src n seq cd now :
  J c fut H0 ex s -> J c fut H0 ex (handle_challenge c s src n seq cd now).
Proof.
  intros W. unfold handle_challenge.
  destruct (nmap_get n (nmap (hs s))) as [na0|]; [|exact W].
  pose proof (J_take_by_nonce c fut H0 ex s n) as Ht.
  destruct (ar_remove_by_nonce (hs s) n) as [h1 found]. specialize (Ht h1 found eq_refl W).
  destruct found as [[na r]|]; [|exact Ht].
  destruct (negb (N.eqb (snd na) src)).
  { apply (J_insert c fut H0 r ex (with_hs s h1) c na now). exact Ht. }
  destruct (rc_hs_sent r || c_ed (rc_contact r)).
  { apply J_fail_request. destruct (fix_d6 c); [apply J_remove_expected|]; exact Ht. }
  pose proof (Sufd_pop (dr (with_hs s h1))) as Xp.
  destruct (pop_pk (dr (with_hs s h1))) as [[[[cn rr] aad] eph] d']. cbn [snd] in Xp.
  set (ct := rc_contact r). set (na' := c_naddr ct).
  set (s2 := {| hs := hs (with_hs s h1); dr := d'; outs := outs (with_hs s h1) |}).
  assert (W2 : J c fut H0 (r :: ex) s2).
  { destruct Ht as [U|Ht]; [left; eapply (Exh_suf (with_hs s h1)); [exact Xp|exact U]|right].
    apply (JI_dr c fut H0 (r :: ex) (with_hs s h1)); assumption. }
  (* the state after re-inserting the request with the handshake packet and sending it *)
  assert (H4 : forall r' auth, rc_pkt r' = auth -> jnonce auth = None -> rc_retries r' = rc_retries r ->
            J c fut H0 ex (send (with_hs s2 (ar_insert c (hs s2) na' r' now)) na' auth)).
  { intros r' auth Ep Ej Et.
    change (send (with_hs s2 (ar_insert c (hs s2) na' r' now)) na' auth)
      with (with_hs (send s2 na' auth) (ar_insert c (hs (send s2 na' auth)) na' r' now)).
    apply J_insert. destruct W2 as [U|W2]; [left; exact U|right].
    destruct (J_Rx _ _ _ _ _ W2 r (or_introl eq_refl)) as (B1 & B2 & _).
    rewrite <- Ep. apply JI_new_inhand; [rewrite Ep; exact Ej|rewrite Et; exact B1|rewrite Et; exact B2|].
    eapply JI_drop. exact W2. }
  destruct (c_enr ct) as [e|].
  - apply J_new_session. apply J_emit_event. apply H4; reflexivity.
  - match goal with |- context [pop_rid (dr ?s4)] =>
      assert (W4 : J c fut H0 ex s4) by (apply H4; reflexivity); set (s4' := s4) in * end.
    pose proof (Sufd_pop_rid (dr s4')) as Y.
    destruct (pop_rid (dr s4')) as [irid d'']. cbn [snd] in Y.
    match goal with |- context [send_request c ?s5 ct false irid 0%N now] =>
      pose proof (J_send_request c fut H0 ex s5 ct false irid 0%N now) as Z;
      destruct (send_request c s5 ct false irid 0%N now) as [s6 ok] end.
    cbn [fst] in Z. apply J_new_session. apply Z.
    destruct W4 as [U|W4]; [left; eapply (Exh_suf s4'); [exact Y|exact U]|right].
    apply (JI_dr c fut H0 ex s4'); assumption.
Qed.

Lemma J_fire_request c fut H0 ex s n na now :
  J c fut H0 ex s -> J c fut H0 ex (fire_request c s n na now).
Proof.
  intros W. unfold fire_request.
  assert (W0 : J c fut H0 ex (with_hs s (set_active (hs s) (active (hs s)) (nmap_remove n (nmap (hs s)))))).
  { apply J_frame; [reflexivity|exact W]. }
  destruct (alist_get na (active (hs s))) as [l|] eqn:Hg; [|exact W0].
  destruct (remove_first (fun r => nonce_eqb (rc_nonce r) n) l) as [[r l']|] eqn:R; [|exact W0].
  apply J_handle_request_timeout. destruct W as [U|W]; [left; exact U|right].
  unfold JI in *. cbn [with_hs hs outs dr set_active active]. eapply JIP_take; eauto.
Qed.

Lemma J_fire_challenge c fut H0 ex s na now :
  J c fut H0 ex s -> J c fut H0 ex (fire_challenge c s na now).
Proof.
  intros W. unfold fire_challenge. apply J_send_pending_requests. apply J_remove_expected.
  apply J_frame; [reflexivity|exact W].
Qed.

Lemma J_fire_group c fut H0 ex g : forall s d ft,
  J c fut H0 ex s -> J c fut H0 ex (fire_group c s g d ft).
Proof.
  unfold fire_group. induction g as [|x t IH]; intros s d ft W; cbn [fold_left]; [exact W|].
  apply IH. destruct (nmap_deadline (fst x) (nmap (hs s))) as [d'|]; [|exact W].
  destruct (N.eqb d' d); [apply J_fire_request; exact W|exact W].
Qed.

(* the invariant does not look at the clock of the environment *)
Lemma J_clock c t fut H0 ex s : J (with_clock c t) fut H0 ex s <-> J c fut H0 ex s.
Proof.
  split; (intros [U|[A1 A2 A3 A4 A5 A6]]; [left; exact U|right; split; assumption]).
Qed.

Lemma J_fire_due c fut H0 ex now fuel : forall s,
  J c fut H0 ex s -> J c fut H0 ex (fire_due c s now fuel).
Proof.
  induction fuel as [|f IH]; intros s W; cbn [fire_due]; [exact W|].
  assert (FG : forall d g s', J c fut H0 ex s' ->
            J c fut H0 ex (fire_group (with_clock c (fire_time c d now)) s' g d (fire_time c d now))).
  { intros d g s' W'. apply (J_clock c (fire_time c d now)). apply J_fire_group. apply J_clock. exact W'. }
  assert (FR : forall d, J c fut H0 ex (match group_of d (nmap (hs s)) with
      | _ :: _ :: _ =>
        let (rev_order, d') := pop_rev (dr s) in
        fire_group (with_clock c (fire_time c d now)) {| hs := hs s; dr := d'; outs := outs s |}
          (if rev_order then rev (group_of d (nmap (hs s))) else group_of d (nmap (hs s))) d (fire_time c d now)
      | _ => fire_group (with_clock c (fire_time c d now)) s (group_of d (nmap (hs s))) d (fire_time c d now)
      end)).
  { intros d. destruct (group_of d (nmap (hs s))) as [|x [|y g]]; try (apply FG; exact W).
    assert (X : d_pk (snd (pop_rev (dr s))) = d_pk (dr s)) by (unfold pop_rev; destruct (d_rev (dr s)); reflexivity).
    destruct (pop_rev (dr s)) as [ro d']. cbn [snd] in X. apply FG. apply J_dr_same; assumption. }
  assert (FC : forall cna cd, J c fut H0 ex
            (fire_challenge (with_clock c (fire_time c cd now)) s cna (fire_time c cd now))).
  { intros cna cd. apply (J_clock c (fire_time c cd now)). apply J_fire_challenge. apply J_clock. exact W. }
  destruct (min_deadline_nmap (nmap (hs s)) None) as [[[rn ra] rd]|];
  destruct (min_deadline_ch (challenges (hs s)) None) as [[[cna cc] cd]|].
  - destruct (N.ltb rd now && (negb (N.ltb cd now) || N.leb rd cd)); [apply IH; apply FR|].
    destruct (N.ltb cd now); [apply IH; apply FC|exact W].
  - destruct (N.ltb rd now); [apply IH; apply FR|exact W].
  - destruct (N.ltb cd now); [apply IH; apply FC|exact W].
  - exact W.
Qed.

Lemma J_dispatch c fut H0 s0 e now : J c fut H0 [] s0 -> J c fut H0 [] (dispatch c s0 e now).
Proof.
  intros W. destruct e as [ct rid body|na rid rb|na n known|from p|]; cbn [dispatch].
  - pose proof (J_send_request c fut H0 [] s0 ct true rid body now W) as X.
    destruct (send_request c s0 ct true rid body now) as [s1 ok]. cbn [fst] in X.
    destruct ok; [exact X|apply J_emit_event; exact X].
  - apply J_send_response. exact W.
  - apply J_send_challenge. exact W.
  - destruct p.
    + apply J_handle_message. exact W.
    + apply J_handle_challenge. exact W.
    + apply J_handle_auth_message. exact W.
  - exact W.
Qed.

(* ------------------------------------------------------------------------------------------ *)
(* the step and the run *)

Local Transparent tick.
Lemma tick_J c fut H0 h now d :
  J c fut H0 [] {| hs := h; dr := d; outs := [] |} -> J c fut H0 [] (tick c h now d).
Proof. intros W. unfold tick. apply (J_clock c now). apply J_fire_due. apply J_clock. exact W. Qed.
Global Opaque tick.

(* the state of the step monad at the end of a step: its draws are what the step left over (the step
   runs with the clock of the environment set to its time) *)
Definition step_end (c : config) (h : hstate) (e : event) (now : N) (d : draws) : st :=
  dispatch (with_clock c now) (tick c h now d) e now.

(* no step exhausts the draws it is given (at least one quadruple is left over) *)
Fixpoint draws_suffice (c : config) (h : hstate) (evs : list (event * N * draws)) : Prop :=
  match evs with
  | [] => True
  | (e, now, d) :: rest => d_pk (dr (step_end c h e now d)) <> [] /\ draws_suffice c (fst (step c h e now d)) rest
  end.

(* the 12-byte nonces of all draws of a run *)
Definition run_pool (evs : list (event * N * draws)) : list nonce := flat_map (fun x => pool (snd x)) evs.

Definition JS (c : config) (P : list nonce) (hist : list output) (h : hstate) : Prop :=
  JIP c hist P [] (active h).

Lemma JS_step c h e now d hist fut :
  JS c (pool d ++ fut) hist h -> d_pk (dr (step_end c h e now d)) <> [] ->
  JS c fut (hist ++ snd (step c h e now d)) (fst (step c h e now d)).
Proof.
  intros W NE. rewrite step_eq. cbn [fst snd]. fold (step_end c h e now d) in *.
  assert (W0 : J c fut hist [] {| hs := h; dr := d; outs := [] |}).
  { right. unfold JI. cbn [hs dr outs]. rewrite app_nil_r. exact W. }
  pose proof (J_dispatch (with_clock c now) fut hist (tick c h now d) e now
                (proj2 (J_clock c now _ _ _ _) (tick_J c fut hist h now d W0))) as W1.
  apply J_clock in W1.
  fold (step_end c h e now d) in W1. destruct W1 as [U|W1]; [contradiction|].
  unfold JS. eapply JIP_pool. exact W1.
Qed.

Lemma JS_run c evs : forall h hist fut,
  JS c (run_pool evs ++ fut) hist h -> draws_suffice c h evs ->
  JS c fut (hist ++ concat (snd (run c h evs))) (fst (run c h evs)).
Proof.
  induction evs as [|[[e now] d] rest IH]; intros h hist fut W HS.
  - cbn [run fst snd concat]. rewrite app_nil_r. exact W.
  - cbn [draws_suffice] in HS. destruct HS as [HS1 HS2].
    assert (W' : JS c (pool d ++ (run_pool rest ++ fut)) hist h).
    { unfold run_pool in *. cbn [flat_map snd] in W. rewrite <- app_assoc in W. exact W. }
    pose proof (JS_step c h e now d hist _ W' HS1) as H1.
    pose proof (IH _ _ _ H1 HS2) as H2.
    rewrite HandlerB_Trace3.run_snd_cons, HandlerB_Nonce.run_fst_cons. cbn [concat]. rewrite app_assoc. exact H2.
Qed.

Lemma JS_init c P : NoDup P -> JS c P [] init_state.
Proof.
  intros Hn. split; cbn.
  - intros r [].
  - intros na l r [].
  - intros n. lia.
  - intros n. unfold Mx. lia.
  - exact Hn.
  - intros n Hx. lia.
Qed.

(* the companion of wire_bound: at most max(1, retries) random packets with one and the same nonce *)
Theorem random_bound_run c evs n :
  NoDup (run_pool evs) -> draws_suffice c init_state evs ->
  jcnt n (concat (snd (run c init_state evs))) <= N.to_nat (N.max 1 (cfg_retries c)).
Proof.
  intros Hn HS.
  assert (W0 : JS c (run_pool evs ++ []) [] init_state) by (rewrite app_nil_r; apply JS_init; exact Hn).
  pose proof (JS_run c evs init_state [] [] W0 HS) as W.
  exact (J_B _ _ _ _ _ W n).
Qed.
