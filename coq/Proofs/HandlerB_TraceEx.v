(* Example for the trace-level C19 theorem: a run with an incoming and an outgoing handshake satisfies
   the freshness hypothesis; the theorem applies to it. *)
From Coq Require Import List NArith Bool.
From Discv5V Require Import Model.Handler Proofs.HandlerB_Base Proofs.HandlerB_Step Proofs.HandlerB_Examples
  Proofs.HandlerB_Trace Proofs.HandlerB_Trace3.
Import ListNotations.
Local Open Scope N_scope.

(* incoming handshake with node 7 (response and request under the session), then a request to node 8,
   its WHOAREYOU and our handshake *)
Definition evs_both : list (event * N * draws) :=
  evs_in ++ [ev_app_request; (EvInbound 200 (PWho (4, 4) 12 0 6), 16, dk [(5, 5, 61, 9)])].

Example evs_both_fresh : fresh_installs ex_cfg init_state [] evs_both.
Proof. vm_compute. repeat split; intros; intuition (subst; discriminate). Qed.

Example evs_both_installs :
  map (fun o => match o with OWire _ (PMsg _ n _ (CEnc k _ _ _)) => Some (k, n) | _ => None end)
      (concat (snd (run ex_cfg init_state evs_both))) =
  [None; None; None; None; Some (mk_key 3 1 5 7 1 true, (1, 77)); None; None; None; None].
Proof. vm_compute. reflexivity. Qed.

Example evs_both_no_reuse : NoReuse (concat (snd (run ex_cfg init_state evs_both))).
Proof. apply no_nonce_reuse_partial. exact evs_both_fresh. Qed.
