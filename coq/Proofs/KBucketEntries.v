(* The (key, value) entries of a bucket after each bucket-level operation are entries of the bucket
   before it, or the entry that was inserted.  Used by C16 (Subnet.v). *)
From Coq Require Import List Arith NArith Lia Bool Permutation Sorted.
From Discv5V Require Import Generated.Params Lib.ListX Lib.ListY Model.KBucket
  Proofs.KBucketInv Proofs.KBucketTable Proofs.KBucketPending.
Import ListNotations.

Lemma in_bentries_node b n : In n (nodes b) -> In (ent n) (bentries b).
Proof. intros H. unfold bentries. apply in_or_app. left. apply in_map. exact H. Qed.

Lemma in_bentries_pend b p : pend b = Some p -> In (ent (pn p)) (bentries b).
Proof. intros H. unfold bentries. apply in_or_app. right. rewrite H. left. reflexivity. Qed.

Lemma bentries_incl b' L :
  (forall n, In n (nodes b') -> In (ent n) L) ->
  (forall p, pend b' = Some p -> In (ent (pn p)) L) ->
  incl (bentries b') L.
Proof.
  intros H1 H2 e He. unfold bentries in He. apply in_app_or in He. destruct He as [He|He].
  - apply in_map_iff in He. destruct He as (n & <- & Hn). apply H1. exact Hn.
  - destruct (pend b') as [p|]; simpl in He; [|destruct He]. destruct He as [<-|[]]. apply H2. reflexivity.
Qed.

Lemma b_insert_entries c b n0 now :
  incl (bentries (fst (b_insert c b n0 now))) (ent n0 :: bentries b).
Proof.
  pose proof (b_insert_spec c b n0 now) as S. cbv zeta in S.
  destruct (snd (b_insert c b n0 now)); try (rewrite S; apply incl_tl, incl_refl).
  - destruct S as (S1 & _ & S3 & _). apply bentries_incl.
    + intros n Hn. apply (Permutation_in _ S1) in Hn. destruct Hn as [<-|Hn]; [left; reflexivity|].
      right. apply in_bentries_node. exact Hn.
    + intros p Hp. rewrite S3 in Hp. right. apply in_bentries_pend.
      destruct (pend b) as [p0|]; [|discriminate]. destruct (N.eqb _ _); [discriminate|exact Hp].
  - destruct S as (S1 & _ & _ & S4 & _). apply bentries_incl.
    + intros n Hn. rewrite S1 in Hn. right. apply in_bentries_node. exact Hn.
    + intros p Hp. rewrite S4 in Hp. inversion Hp; subst. left. reflexivity.
Qed.

Lemma b_apply_pending_entries c b now :
  incl (bentries (fst (b_apply_pending c b now))) (bentries b).
Proof.
  pose proof (apply_pending_spec c b now) as S. cbv zeta in S.
  destruct (snd (b_apply_pending c b now)) as [[ins ev]|].
  - destruct S as (p & S1 & _ & _ & S4 & _ & S5). apply bentries_incl; [|intros p' Hp'; congruence].
    intros n Hn. destruct ev as [e|].
    + destruct S5 as (_ & h & rest & E1 & _ & _ & S6). apply (Permutation_in _ S6) in Hn.
      destruct Hn as [<-|Hn]; [apply (in_bentries_pend b p S1)|].
      apply in_bentries_node. rewrite E1. right. exact Hn.
    + destruct S5 as (_ & S6). apply (Permutation_in _ S6) in Hn.
      destruct Hn as [<-|Hn]; [apply (in_bentries_pend b p S1)|]. apply in_bentries_node. exact Hn.
  - destruct S as (S1 & _ & S3). apply bentries_incl.
    + intros n Hn. rewrite S1 in Hn. apply in_bentries_node. exact Hn.
    + intros p Hp. destruct S3 as [S3|S3]; rewrite S3 in Hp; [|discriminate]. apply in_bentries_pend. exact Hp.
Qed.

Lemma b_update_status_entries c b k conn dir now :
  incl (bentries (fst (b_update_status c b k conn dir now))) (bentries b).
Proof.
  unfold b_update_status. destruct (position k (nodes b)) as [pos|] eqn:Hpos.
  - destruct (position_some _ _ _ Hpos) as (old & Hn & Hk). rewrite Hn. cbv zeta.
    match goal with |- context [b_insert c ?b1 ?n now] => set (bb := b1); set (nn := n) end.
    assert (H1 : incl (bentries (fst (b_insert c bb nn now))) (bentries b)).
    { eapply incl_tran; [apply b_insert_entries|].
      intros e [<-|He]; [apply (in_bentries_node b old); eapply nth_error_In; exact Hn|].
      revert e He. apply bentries_incl.
      - intros n Hn'. apply in_bentries_node. eapply In_remove_at. exact Hn'.
      - intros p Hp. apply in_bentries_pend. simpl in Hp. destruct (Nat.eqb pos 0 && conn); [discriminate|exact Hp]. }
    destruct (b_insert c bb nn now) as [b2 r]. simpl in H1. destruct r; exact H1.
  - destruct (pend b) as [p|] eqn:Ep; [|apply incl_refl].
    destruct (N.eqb (nkey (pn p)) k); [|apply incl_refl].
    simpl fst. apply bentries_incl.
    + intros n Hn. apply in_bentries_node. exact Hn.
    + intros p' Hp'. simpl in Hp'. inversion Hp'; subst p'. apply (in_bentries_pend b p Ep).
Qed.

Lemma b_update_value_entries c b k v :
  incl (bentries (fst (b_update_value c b k v))) ((k, v) :: bentries b).
Proof.
  unfold b_update_value. destruct (position k (nodes b)) as [pos|] eqn:Hpos.
  - destruct (position_some _ _ _ Hpos) as (old & Hn & Hk). rewrite Hn.
    destruct (val_eqb (nval old) v); [apply incl_tl, incl_refl|]. cbv zeta.
    destruct (negb (run_filter (bfilter c) v (values (remove_at pos (nodes b))))); simpl fst; apply bentries_incl; simpl.
    + intros n Hn'. right. apply in_bentries_node. eapply In_remove_at. exact Hn'.
    + intros p Hp. right. apply in_bentries_pend. exact Hp.
    + intros n Hn'. apply In_insert_at in Hn'. destruct Hn' as [->|Hn'].
      * left. unfold ent. simpl. rewrite Hk. reflexivity.
      * right. apply in_bentries_node. eapply In_remove_at. exact Hn'.
    + intros p Hp. right. apply in_bentries_pend. exact Hp.
  - destruct (pend b) as [p|] eqn:Ep; [|apply incl_tl, incl_refl].
    destruct (N.eqb_spec (nkey (pn p)) k) as [E|E]; [|apply incl_tl, incl_refl].
    simpl fst. apply bentries_incl; simpl.
    + intros n Hn. right. apply in_bentries_node. exact Hn.
    + intros p' Hp'. inversion Hp'; subst p'. left. unfold ent. simpl. rewrite E. reflexivity.
Qed.

Lemma b_remove_entries c b k now :
  incl (bentries (fst (b_remove c b k now))) (bentries b).
Proof.
  unfold b_remove. destruct (position k (nodes b)) as [pos|] eqn:Hpos; [|apply incl_refl].
  cbv zeta. simpl fst. eapply incl_tran; [apply b_apply_pending_entries|].
  apply bentries_incl; simpl.
  - intros n Hn'. apply in_bentries_node. eapply In_remove_at. exact Hn'.
  - intros p Hp. apply in_bentries_pend. exact Hp.
Qed.

Lemma b_update_pending_entries b conn inc :
  incl (bentries (b_update_pending b conn inc)) (bentries b).
Proof.
  unfold b_update_pending. destruct (pend b) as [p|] eqn:Ep; [|apply incl_refl].
  apply bentries_incl; simpl.
  - intros n Hn. apply in_bentries_node. exact Hn.
  - intros p' Hp'. inversion Hp'; subst p'. apply (in_bentries_pend b p Ep).
Qed.

(* entries of the table *)
Lemma in_tentries t e : In e (tentries t) <-> exists j, In e (bentries (get_bucket t j)).
Proof.
  unfold tentries. rewrite in_flat_map. split.
  - intros (b & Hb & He). apply In_nth_error in Hb. destruct Hb as [j Hj].
    exists j. rewrite (nth_error_get_bucket _ _ _ Hj). exact He.
  - intros (j & He). destruct (Nat.lt_ge_cases j (length (buckets t))) as [L|L].
    + exists (get_bucket t j). split; [apply nth_In; exact L|exact He].
    + rewrite get_bucket_default in He by exact L. destruct He.
Qed.

Lemma table_values_entries t : table_values t = map snd (tentries t).
Proof.
  unfold table_values, tentries. induction (buckets t) as [|b bs IH]; [reflexivity|].
  simpl. rewrite map_app, IH. f_equal.
  unfold bucket_values, bentries, values. rewrite map_app, !map_map. f_equal.
  destruct (pend b); reflexivity.
Qed.
