(* Frame lemmas: what each handler function of Model/Handler.v can touch.
   [Quiet s s']: challenges unchanged, every session descends from one under the same address
   (no new key, counter not smaller), outputs appended are datagrams / RequestFailed only. *)
From Coq Require Import List Arith NArith Bool Lia.
From Discv5V Require Import Model.Handler Proofs.HandlerB_Base.
Import ListNotations.
Local Open Scope N_scope.

(* continuation-style versions, to peel a nested state expression from the outside *)
Lemma Quiet_k_with_hs s x h : Quiet s x -> QH (hs x) h -> Quiet s (with_hs x h).
Proof. intros H1 H2. eapply Quiet_trans; [exact H1 | apply Quiet_with_hs; exact H2]. Qed.
Lemma Quiet_k_send s x na p : Quiet s x -> Quiet s (send x na p).
Proof. intros H. eapply Quiet_trans; [exact H | apply Quiet_send]. Qed.
Lemma Quiet_k_emit s x o : quiet_out o -> Quiet s x -> Quiet s (emit x o).
Proof. intros Ho H. eapply Quiet_trans; [exact H | apply Quiet_emit; exact Ho]. Qed.
Lemma Quiet_k_add_expected s x a : Quiet s x -> Quiet s (add_expected x a).
Proof. intros H. eapply Quiet_trans; [exact H | apply Quiet_add_expected]. Qed.
Lemma Quiet_k_remove_expected s x a : Quiet s x -> Quiet s (remove_expected x a).
Proof. intros H. eapply Quiet_trans; [exact H | apply Quiet_remove_expected]. Qed.
Lemma Quiet_k_dr s x d : Quiet s x -> Quiet s {| hs := hs x; dr := d; outs := outs x |}.
Proof. intros [H1 [l [E F]]]. split; [exact H1 | exists l; auto]. Qed.

(* encrypt_message in closed form *)
Definition pk_r (d : draws) : N := snd (fst (fst (fst (pop_pk d)))).
Definition pk_aad (d : draws) : N := snd (fst (fst (pop_pk d))).
Definition bump (se : session) : session :=
  {| s_enc := s_enc se; s_dec := s_dec se; s_old := s_old se; s_await := s_await se;
     s_counter := s_counter se + 1; s_used := s_used se |}.
Lemma encrypt_message_eq c s na se m :
  encrypt_message c s na se m =
  ({| hs := hs s; dr := snd (pop_pk (dr s)); outs := outs s |}, bump se,
   PMsg (cfg_local c) (s_counter se + 1, pk_r (dr s)) (pk_aad (dr s))
     (CEnc (s_enc se) (s_counter se + 1, pk_r (dr s)) m (pk_aad (dr s)))).
Proof.
  unfold encrypt_message, pk_r, pk_aad, bump. destruct (pop_pk (dr s)) as [[[[? ?] ?] ?] ?]. reflexivity.
Qed.
Lemma bump_desc se : sess_desc se (bump se).
Proof. split; [apply incl_refl | cbn; lia]. Qed.

(* ------------------------------------------------------------------------------------------ *)

Lemma Quiet_is_awaiting c s na : Quiet s (fst (is_awaiting_session c s na)).
Proof.
  unfold is_awaiting_session. pose proof (QH_sess_get c (hs s) na) as H.
  destruct (sess_get c (hs s) na) as [h se]. cbn [fst] in H.
  destruct se; cbn [fst]; apply Quiet_with_hs; exact H.
Qed.

Lemma Quiet_send_request c s ct ext rid body now :
  Quiet s (fst (send_request c s ct ext rid body now)).
Proof.
  unfold send_request.
  destruct (existsb (N.eqb (c_addr ct)) (cfg_listen c)); [apply Quiet_refl |].
  set (na := c_naddr ct).
  assert (Ha : Quiet s (fst (if has_challenge (hs s) na then (s, true) else is_awaiting_session c s na))).
  { destruct (has_challenge (hs s) na); [apply Quiet_refl | apply Quiet_is_awaiting]. }
  destruct (if has_challenge (hs s) na then (s, true) else is_awaiting_session c s na) as [s1 awaiting].
  cbn [fst] in Ha. destruct awaiting; cbn [fst].
  - apply Quiet_k_with_hs; [exact Ha | apply QH_push_pending].
  - pose proof (QH_sess_get c (hs s1) na) as Hg. pose proof (sess_get_got c (hs s1) na) as Hgot.
    destruct (sess_get c (hs s1) na) as [h2 se]. cbn [fst snd] in Hg, Hgot.
    destruct se as [se |].
    + rewrite encrypt_message_eq. cbn [fst].
      apply Quiet_k_with_hs; [| apply QH_ar_insert].
      apply Quiet_k_send. apply Quiet_k_add_expected.
      apply Quiet_k_with_hs.
      * apply (Quiet_k_dr s (with_hs s1 h2)). apply Quiet_k_with_hs; assumption.
      * cbn [hs with_hs]. eapply QH_sess_put; [apply Hgot; reflexivity | apply bump_desc].
    + destruct (pop_pk (dr (with_hs s1 h2))) as [[[[cn r] aad] e0] d'] eqn:Ep. cbn [fst].
      apply Quiet_k_with_hs; [| apply QH_ar_insert].
      apply Quiet_k_send. apply Quiet_k_add_expected.
      apply (Quiet_k_dr s (with_hs s1 h2)). apply Quiet_k_with_hs; assumption.
Qed.

Lemma Quiet_send_pending_requests c s na now : Quiet s (send_pending_requests c s na now).
Proof.
  unfold send_pending_requests. destruct (alist_get na (pending (hs s))) as [l |]; [| apply Quiet_refl].
  eapply Quiet_trans; [apply Quiet_with_hs; apply QH_set_pending |].
  apply fold_left_rel; [apply Quiet_refl | apply Quiet_trans |].
  intros a q. pose proof (Quiet_send_request c a (pq_contact q) (pq_ext q) (pq_rid q) (pq_body q) now) as H.
  destruct (send_request c a (pq_contact q) (pq_ext q) (pq_rid q) (pq_body q) now) as [s' ok].
  cbn [fst] in H. destruct ok; [exact H |]. destruct (pq_ext q); [| exact H].
  apply Quiet_k_emit; [exact I | exact H].
Qed.

(* fail_session emits RequestFailed only *)
Definition QuietF (s s' : st) : Prop := QH (hs s) (hs s') /\ OutsExt failed_out s s'.
Lemma QuietF_refl s : QuietF s s.
Proof. split; [apply QH_refl | apply OutsExt_refl]. Qed.
Lemma QuietF_trans a b d : QuietF a b -> QuietF b d -> QuietF a d.
Proof. intros [H1 O1] [H2 O2]. split; [eapply QH_trans; eauto | eapply OutsExt_trans; eauto]. Qed.
Lemma QuietF_Quiet s s' : QuietF s s' -> Quiet s s'.
Proof. intros [H O]. split; [exact H | eapply OutsExt_weaken; [apply failed_quiet | exact O]]. Qed.
Lemma QuietF_with_hs s h : QH (hs s) h -> QuietF s (with_hs s h).
Proof. intros H. split; [exact H | apply OutsExt_same; reflexivity]. Qed.
Lemma QuietF_emit s o : failed_out o -> QuietF s (emit s o).
Proof. intros H. split; [apply QH_refl | apply OutsExt_emit; exact H]. Qed.

Lemma QuietF_remove_expired c s : QuietF s (remove_expired_sessions c s).
Proof. split; [apply QH_remove_expired_sessions | apply remove_expired_sessions_outs]. Qed.

Lemma QuietF_fail_session c s na err rm : QuietF s (fail_session c s na err rm).
Proof.
  unfold fail_session.
  set (s1 := if rm then with_hs (remove_expired_sessions c s) (sess_remove (hs (remove_expired_sessions c s)) na) else s).
  assert (H1 : QuietF s s1).
  { unfold s1. destruct rm; [| apply QuietF_refl].
    eapply QuietF_trans; [apply QuietF_remove_expired | apply QuietF_with_hs; apply QH_sess_remove]. }
  set (s2 := match alist_get na (pending (hs s1)) with Some l => _ | None => s1 end).
  assert (H2 : QuietF s1 s2).
  { unfold s2. destruct (alist_get na (pending (hs s1))) as [l |]; [| apply QuietF_refl].
    eapply QuietF_trans; [apply QuietF_with_hs; apply QH_set_pending |].
    apply fold_left_rel; [apply QuietF_refl | apply QuietF_trans |].
    intros a q. destruct (pq_ext q); [apply QuietF_emit; exact I | apply QuietF_refl]. }
  pose proof (QH_ar_remove_requests (hs s2) na) as H3.
  destruct (ar_remove_requests (hs s2) na) as [h3 reqs]. cbn [fst] in H3.
  eapply QuietF_trans; [exact H1 |]. eapply QuietF_trans; [exact H2 |].
  eapply QuietF_trans; [apply QuietF_with_hs; exact H3 |].
  apply fold_left_rel; [apply QuietF_refl | apply QuietF_trans |].
  intros a r. destruct (rc_ext r).
  - eapply QuietF_trans; [| unfold remove_expected; apply QuietF_with_hs; apply QH_same; reflexivity].
    apply QuietF_emit; exact I.
  - unfold remove_expected. apply QuietF_with_hs. apply QH_same; reflexivity.
Qed.

Lemma QuietF_fail_request c s r err rm : QuietF s (fail_request c s r err rm).
Proof.
  unfold fail_request. eapply QuietF_trans; [| apply QuietF_fail_session].
  destruct (rc_ext r); [apply QuietF_emit; exact I | apply QuietF_refl].
Qed.

(* replay_active_requests *)
Lemma replay_fold c na reqs : forall s se pk,
  let g := (fun (acc : st * session * list (nonce * packet)) r =>
        let '(s, se, pk) := acc in
        let '(s', se', p) := encrypt_message c s na se (MReq (rc_rid r) (rc_body r)) in
        (s', se', pk ++ [(rc_nonce r, p)])) in
  let res := fold_left g reqs (s, se, pk) in
  hs (fst (fst res)) = hs s /\ outs (fst (fst res)) = outs s /\ sess_desc se (snd (fst res)).
Proof.
  induction reqs as [| r reqs IH]; intros s se pk; cbn zeta; cbn [fold_left].
  - cbn [fst snd]. split; [reflexivity | split; [reflexivity | apply sess_desc_refl]].
  - rewrite encrypt_message_eq.
    specialize (IH {| hs := hs s; dr := snd (pop_pk (dr s)); outs := outs s |} (bump se)
      (pk ++ [(rc_nonce r, PMsg (cfg_local c) (s_counter se + 1, pk_r (dr s)) (pk_aad (dr s))
         (CEnc (s_enc se) (s_counter se + 1, pk_r (dr s)) (MReq (rc_rid r) (rc_body r)) (pk_aad (dr s))))])).
    cbn zeta in IH. destruct IH as [E1 [E2 E3]]. cbn [hs outs] in E1, E2.
    split; [exact E1 | split; [exact E2 |]]. eapply sess_desc_trans; [apply bump_desc | exact E3].
Qed.

Lemma Quiet_replay c s na skip now : Quiet s (replay_active_requests c s na skip now).
Proof.
  unfold replay_active_requests.
  pose proof (QH_sess_get c (hs s) na) as Hg. pose proof (sess_get_got c (hs s) na) as Hgot.
  destruct (sess_get c (hs s) na) as [h1 se]. cbn [fst snd] in Hg, Hgot.
  destruct se as [se0 |]; [| apply Quiet_with_hs; exact Hg].
  set (reqs := filter _ _).
  pose proof (replay_fold c na reqs (with_hs s h1) se0 []) as Hf. cbn zeta in Hf.
  destruct (fold_left _ reqs (with_hs s h1, se0, [])) as [[s2 se2] pkts]. cbn [fst snd] in Hf.
  destruct Hf as [E1 [E2 E3]]. cbn [hs with_hs outs] in E1, E2.
  assert (H2 : Quiet s (with_hs s2 (sess_put (hs s2) na se2))).
  { split.
    - cbn [hs with_hs]. rewrite E1. eapply QH_trans; [exact Hg |].
      eapply QH_sess_put; [apply Hgot; reflexivity | exact E3].
    - apply OutsExt_same. cbn [outs with_hs]. exact E2. }
  eapply Quiet_trans; [exact H2 |].
  apply fold_left_rel; [apply Quiet_refl | apply Quiet_trans |].
  intros a x. apply Quiet_k_send. apply Quiet_with_hs. apply QH_ar_update_packet.
Qed.

Lemma Quiet_handle_request_timeout c s na r now : Quiet s (handle_request_timeout c s na r now).
Proof.
  unfold handle_request_timeout. destruct (N.leb (cfg_retries c) (rc_retries r)).
  - eapply Quiet_trans; [apply Quiet_remove_expected | apply QuietF_Quiet; apply QuietF_fail_request].
  - apply Quiet_k_with_hs; [apply Quiet_send | apply QH_ar_insert].
Qed.

Lemma Quiet_send_response c s na rid rb : Quiet s (send_response c s na rid rb).
Proof.
  unfold send_response.
  pose proof (QH_sess_get c (hs s) na) as Hg. pose proof (sess_get_got c (hs s) na) as Hgot.
  destruct (sess_get c (hs s) na) as [h1 se]. cbn [fst snd] in Hg, Hgot.
  destruct se as [se |]; [| apply Quiet_with_hs; exact Hg].
  rewrite encrypt_message_eq. apply Quiet_k_send. apply Quiet_k_with_hs.
  - apply (Quiet_k_dr s (with_hs s h1)). apply Quiet_with_hs. exact Hg.
  - cbn [hs with_hs]. eapply QH_sess_put; [apply Hgot; reflexivity | apply bump_desc].
Qed.

Lemma Quiet_fire_request c s n na now : Quiet s (fire_request c s n na now).
Proof.
  unfold fire_request. destruct (alist_get na (active (hs s))) as [l |].
  - destruct (remove_first _ l) as [[r l'] |].
    + eapply Quiet_trans; [| apply Quiet_handle_request_timeout]. apply Quiet_with_hs. apply QH_set_active.
    + apply Quiet_with_hs. apply QH_set_active.
  - apply Quiet_with_hs. apply QH_set_active.
Qed.

Lemma Quiet_fire_group c s g d ft : Quiet s (fire_group c s g d ft).
Proof.
  unfold fire_group. apply fold_left_rel; [apply Quiet_refl | apply Quiet_trans |].
  intros a x. destruct (nmap_deadline (fst x) (nmap (hs a))) as [d' |]; [| apply Quiet_refl].
  destruct (N.eqb d' d); [apply Quiet_fire_request | apply Quiet_refl].
Qed.

(* ------------------------------------------------------------------------------------------ *)
(* the implicit tick: challenges only disappear *)

Definition chall_closed (P : list (naddr * chall * N) -> Prop) : Prop :=
  forall na l, P l -> P (chall_remove na l).

Definition QC (s s' : st) : Prop :=
  (forall P, chall_closed P -> P (challenges (hs s)) -> P (challenges (hs s'))) /\
  SessD (hs s) (hs s') /\ OutsExt quiet_out s s' /\ UPres (hs s) (hs s').

Lemma QC_refl s : QC s s.
Proof. split; [auto | split; [apply SessD_refl | split; [apply OutsExt_refl | intros H; exact H]]]. Qed.
Lemma QC_trans a b d : QC a b -> QC b d -> QC a d.
Proof.
  intros [H1 [D1 [O1 U1]]] [H2 [D2 [O2 U2]]].
  split; [| split; [eapply SessD_trans; eauto | split; [eapply OutsExt_trans; eauto |]]].
  - intros P HP H. apply H2; [exact HP |]. apply H1; assumption.
  - intros H. apply U2. apply U1. exact H.
Qed.
Lemma Quiet_QC s s' : Quiet s s' -> QC s s'.
Proof. intros [[E [D U]] O]. split; [intros P _ H; rewrite E; exact H | auto]. Qed.

Lemma QC_fire_challenge c s na now : QC s (fire_challenge c s na now).
Proof.
  unfold fire_challenge. eapply QC_trans; [| apply Quiet_QC; apply Quiet_send_pending_requests].
  eapply QC_trans; [| apply Quiet_QC; apply Quiet_remove_expected].
  split; [| split; [apply SessD_same; reflexivity | split; [apply OutsExt_same; reflexivity | apply UPres_same; reflexivity]]].
  intros P HP H. cbn [hs with_hs challenges set_challenges]. apply HP. exact H.
Qed.

(* one round of request timers, as in fire_due *)
Definition fire_req_of (c : config) (s : st) (now d : N) : st :=
  match group_of d (nmap (hs s)) with
  | _ :: _ :: _ =>
    let (rev_order, d') := pop_rev (dr s) in
    fire_group (with_clock c (fire_time c d now)) {| hs := hs s; dr := d'; outs := outs s |}
      (if rev_order then rev (group_of d (nmap (hs s))) else group_of d (nmap (hs s))) d (fire_time c d now)
  | _ => fire_group (with_clock c (fire_time c d now)) s (group_of d (nmap (hs s))) d (fire_time c d now)
  end.

(* induction principle for the implicit tick: a reflexive, transitive relation that holds for one
   round of request timers and for one challenge timer holds for fire_due; a timer runs with the
   clock set to its fire time *)
Lemma fire_due_rel (R : st -> st -> Prop) c now :
  (forall a, R a a) -> (forall a b d, R a b -> R b d -> R a d) ->
  (forall s d, R s (fire_req_of c s now d)) ->
  (forall s na t, R s (fire_challenge (with_clock c t) s na t)) ->
  forall fuel s, R s (fire_due c s now fuel).
Proof.
  intros Hr Ht Hreq Hch. induction fuel as [| f IH]; intros s; cbn [fire_due]; [apply Hr |].
  fold (fire_req_of c s now).
  destruct (min_deadline_nmap (nmap (hs s)) None) as [[[n a] d] |];
    destruct (min_deadline_ch (challenges (hs s)) None) as [[[cna ch] cd] |].
  - fold (fire_req_of c s now d). destruct (_ && _).
    + eapply Ht; [apply Hreq | apply IH].
    + destruct (N.ltb cd now); [| apply Hr].
      eapply Ht; [apply Hch | apply IH].
  - fold (fire_req_of c s now d). destruct (N.ltb d now); [| apply Hr]. eapply Ht; [apply Hreq | apply IH].
  - destruct (N.ltb cd now); [| apply Hr].
    eapply Ht; [apply Hch | apply IH].
  - apply Hr.
Qed.

Lemma Quiet_fire_req_of c s now d : Quiet s (fire_req_of c s now d).
Proof.
  unfold fire_req_of.
  destruct (group_of d (nmap (hs s))) as [| x [| y g]]; try apply Quiet_fire_group.
  destruct (pop_rev (dr s)) as [rv d'].
  eapply Quiet_trans; [| apply Quiet_fire_group]. apply (Quiet_k_dr s s). apply Quiet_refl.
Qed.

Lemma QC_fire_due c now fuel s : QC s (fire_due c s now fuel).
Proof.
  apply fire_due_rel; [apply QC_refl | apply QC_trans | |].
  - intros. apply Quiet_QC. apply Quiet_fire_req_of.
  - intros. apply QC_fire_challenge.
Qed.
