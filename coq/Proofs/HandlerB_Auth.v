(* establish (Session::establish_from_challenge), the challenge table, handle_auth_message and
   handle_challenge: case analyses and frames. *)
From Coq Require Import List Arith NArith Bool Lia.
From Discv5V Require Import Model.Handler Proofs.HandlerB_Base Proofs.HandlerB_Frame Proofs.HandlerB_Session.
Import ListNotations.
Local Open Scope N_scope.

(* ------------------------------------------------------------------------------------------ *)
(* establish *)

(* C01: with the repair of D1, a successful establish means: the record reported carries the
   claimed id, the id-signature is the term signed by the claimed id's key over exactly this
   challenge, this ephemeral key and this node's id, and the ephemeral key was valid. *)
Lemma establish_binds_id c remote ch sg eph eph_ok rec se e :
  fix_d1 c = true ->
  (forall known, ch_enr ch = Some known -> e_id known = remote) ->
  establish c remote ch sg eph eph_ok rec = EstOk se e ->
  e_id e = remote /\ sg = Sig remote (ch_cd ch) eph (cfg_local c) /\ eph_ok = true.
Proof.
  intros Hfix Hknown. unfold establish. rewrite Hfix. cbn [andb].
  assert (Hpick : forall e0, pick_enr rec (ch_enr ch) = Some e0 ->
            match rec with Some a => negb (N.eqb (e_id a) remote) | None => false end = false ->
            e_id e0 = remote).
  { intros e0. unfold pick_enr. destruct rec as [a |]; destruct (ch_enr ch) as [k |] eqn:Ek.
    - destruct (N.ltb (e_seq k) (e_seq a)); intros H1 H2; inversion H1; subst.
      + apply negb_false_iff in H2. apply N.eqb_eq in H2. exact H2.
      + apply Hknown. reflexivity.
    - intros H1 H2; inversion H1; subst. apply negb_false_iff in H2. apply N.eqb_eq in H2. exact H2.
    - intros H1 _; inversion H1; subst. apply Hknown. reflexivity.
    - discriminate. }
  destruct (match rec with Some a => negb (N.eqb (e_id a) remote) | None => false end) eqn:Ea; [discriminate |].
  destruct (pick_enr rec (ch_enr ch)) as [e0 |] eqn:Ep; [| discriminate].
  destruct (verify_sig (e_id e0) (ch_cd ch) eph (cfg_local c) sg) eqn:Ev; cbn [negb]; [| discriminate].
  destruct eph_ok; cbn [negb]; [| discriminate].
  intros H; inversion H; subst. pose proof (Hpick _ eq_refl eq_refl) as Hid.
  split; [exact Hid | split; [| reflexivity]]. rewrite <- Hid. apply verify_sig_true. exact Ev.
Qed.

(* the session an accepted handshake yields (independent of the repair) *)
Lemma establish_session c remote ch sg eph eph_ok rec se e :
  establish c remote ch sg eph eph_ok rec = EstOk se e ->
  se = {| s_enc := mk_key eph (cfg_local c) (ch_cd ch) remote (cfg_local c) true;
          s_dec := mk_key eph (cfg_local c) (ch_cd ch) remote (cfg_local c) false;
          s_old := None; s_await := None; s_counter := 0; s_used := 0 |} /\
  exists cdk ephk dst, sg = Sig (e_id e) cdk ephk dst /\ cdk = ch_cd ch /\ ephk = eph /\ dst = cfg_local c.
Proof.
  unfold establish. destruct (_ && _); [discriminate |].
  destruct (pick_enr rec (ch_enr ch)) as [e0 |]; [| discriminate].
  destruct (verify_sig (e_id e0) (ch_cd ch) eph (cfg_local c) sg) eqn:Ev; cbn [negb]; [| discriminate].
  destruct eph_ok; cbn [negb]; [| discriminate].
  intros H; inversion H; subst. split; [reflexivity |].
  apply verify_sig_true in Ev. exists (ch_cd ch), eph, (cfg_local c). auto.
Qed.

(* C03: a signature over another challenge-data never yields a session *)
Lemma stale_signature_rejected c remote ch k cd eph' dst eph eph_ok rec se e :
  cd <> ch_cd ch -> establish c remote ch (Sig k cd eph' dst) eph eph_ok rec <> EstOk se e.
Proof.
  intros Hcd H. apply establish_session in H. destruct H as [_ [cdk [ephk [dst' [H1 [H2 _]]]]]].
  inversion H1; subst. contradiction.
Qed.
Lemma bad_signature_rejected c remote ch j eph eph_ok rec se e :
  establish c remote ch (BadSig j) eph eph_ok rec <> EstOk se e.
Proof.
  intros H. apply establish_session in H. destruct H as [_ [cdk [ephk [dst' [H1 _]]]]]. discriminate.
Qed.

(* D1 on the pinned tree: a handshake claiming id 7, signed by the key of node 9 and carrying node 9's
   record, is accepted for a challenge sent to node 7 - the session is keyed to 7, node 9's record is
   reported. *)
Definition pinned_cfg : config :=
  {| cfg_local := 1; cfg_enr := {| e_id := 1; e_seq := 1; e_ip4 := None; e_ip6 := None |};
     cfg_retries := 1; cfg_timeout := 1000; cfg_listen := []; cfg_capacity := 10%nat;
     cfg_session_ttl := 1000000; cfg_clock := 0; cfg_grid := 0;
     fix_d1 := false; fix_d2a := false; fix_d2b := false; fix_d6 := false |}.
Lemma establish_pinned_refuted :
  exists c remote ch sg eph rec se e,
    fix_d1 c = false /\
    (forall known, ch_enr ch = Some known -> e_id known = remote) /\
    establish c remote ch sg eph true (Some rec) = EstOk se e /\
    e_id e <> remote /\ (forall cd eph' dst, sg <> Sig remote cd eph' dst) /\
    k_ida (s_dec se) = remote.
Proof.
  exists pinned_cfg, 7, {| ch_cd := 5; ch_enr := None |}, (Sig 9 5 3 1), 3,
    {| e_id := 9; e_seq := 1; e_ip4 := None; e_ip6 := None |}.
  eexists. eexists. split; [reflexivity |]. split; [discriminate |].
  split; [vm_compute; reflexivity |]. split; [vm_compute; discriminate |].
  split; [intros cd eph' dst H; discriminate | reflexivity].
Qed.

(* ------------------------------------------------------------------------------------------ *)
(* the challenge table *)

Definition chall_entry_ok (x : naddr * chall * N) : Prop :=
  match ch_enr (snd (fst x)) with Some e => e_id e = fst (fst (fst x)) | None => True end.
(* every stored challenge remembers a record of the node it was sent to (what the service guarantees
   when it answers HandlerOut::WhoAreYou, see [ev_wf]) *)
Definition ChallOK (h : hstate) : Prop := Forall chall_entry_ok (challenges h).
(* at most one challenge per node address *)
Definition chall_keys (l : list (naddr * chall * N)) : list naddr := map (fun x => fst (fst x)) l.
Definition ChallUniq (h : hstate) : Prop := NoDup (chall_keys (challenges h)).

Lemma chall_remove_incl na l : incl (chall_remove na l) l.
Proof.
  induction l as [| [[a ch] d] r IH]; cbn [chall_remove]; [apply incl_refl |].
  destruct (naddr_eqb a na); [apply incl_tl; apply incl_refl |].
  intros x [H | H]; [left; exact H | right; apply IH; exact H].
Qed.

Lemma chall_closed_Forall (Q : naddr * chall * N -> Prop) : chall_closed (Forall Q).
Proof.
  intros na l H. rewrite Forall_forall in *. intros x Hx. apply H. eapply chall_remove_incl; eauto.
Qed.
Lemma chall_closed_incl l0 : chall_closed (fun l => incl l l0).
Proof. intros na l H. eapply incl_tran; [apply chall_remove_incl | exact H]. Qed.

Lemma chall_keys_remove_incl na l : incl (chall_keys (chall_remove na l)) (chall_keys l).
Proof. unfold chall_keys. apply incl_map. apply chall_remove_incl. Qed.

Lemma chall_closed_NoDup : chall_closed (fun l => NoDup (chall_keys l)).
Proof.
  intros na l. induction l as [| [[a ch] d] r IH]; cbn [chall_remove chall_keys map fst]; [auto |].
  intros H. inversion H as [| x y H1 H2]; subst.
  destruct (naddr_eqb a na); [exact H2 |].
  cbn [chall_keys map fst]. constructor; [| apply IH; exact H2].
  intros Hin. apply H1. eapply chall_keys_remove_incl; eauto.
Qed.

Lemma chall_get_In na l ch : chall_get na l = Some ch -> exists d, In (na, ch, d) l.
Proof.
  induction l as [| [[a ch0] d] r IH]; cbn [chall_get]; [discriminate |].
  destruct (naddr_eqb a na) eqn:E.
  - intros H; inversion H; subst. apply naddr_eqb_eq in E. subst. exists d. left; reflexivity.
  - intros H. destruct (IH H) as [d' H']. exists d'. right; exact H'.
Qed.
Lemma chall_get_None na l : chall_get na l = None <-> ~ In na (chall_keys l).
Proof.
  induction l as [| [[a ch0] d] r IH]; cbn [chall_get chall_keys map fst]; [tauto |].
  destruct (naddr_eqb a na) eqn:E.
  - apply naddr_eqb_eq in E. subst. split; [discriminate | intros H; exfalso; apply H; left; reflexivity].
  - apply naddr_eqb_neq in E. rewrite IH. unfold chall_keys. cbn. tauto.
Qed.

Lemma chall_remove_gone na l : NoDup (chall_keys l) -> chall_get na (chall_remove na l) = None.
Proof.
  induction l as [| [[a ch0] d] r IH]; cbn [chall_remove chall_keys map fst]; [reflexivity |].
  intros H. inversion H as [| x y H1 H2]; subst.
  destruct (naddr_eqb a na) eqn:E.
  - apply naddr_eqb_eq in E. subst. apply chall_get_None. exact H1.
  - cbn [chall_get]. rewrite E. apply IH. exact H2.
Qed.

Lemma chall_get_app_new na ch d l :
  chall_get na l = None -> chall_get na (l ++ [(na, ch, d)]) = Some ch.
Proof.
  induction l as [| [[a ch0] d0] r IH]; cbn [chall_get app].
  - rewrite naddr_eqb_refl. reflexivity.
  - destruct (naddr_eqb a na); [discriminate | exact IH].
Qed.

Lemma has_challenge_false h na : has_challenge h na = false -> ~ In na (chall_keys (challenges h)).
Proof.
  unfold has_challenge, chall_keys. intros H Hin. apply in_map_iff in Hin. destruct Hin as [x [E Hx]].
  assert (existsb (fun x => naddr_eqb (fst (fst x)) na) (challenges h) = true).
  { apply existsb_exists. exists x. split; [exact Hx | rewrite E; apply naddr_eqb_refl]. }
  congruence.
Qed.

Lemma chall_keys_app l1 l2 : chall_keys (l1 ++ l2) = chall_keys l1 ++ chall_keys l2.
Proof. apply map_app. Qed.

Lemma NoDup_snoc {A} (l : list A) x : NoDup l -> ~ In x l -> NoDup (l ++ [x]).
Proof.
  induction l as [| a l IH]; cbn.
  - intros _ _. constructor; [intros [] | constructor].
  - intros H Hn. inversion H; subst. constructor.
    + intros Hin. apply in_app_or in Hin. destruct Hin as [Hin | [Hin | []]]; [contradiction | subst; apply Hn; left; reflexivity].
    + apply IH; [assumption | intros Hin; apply Hn; right; exact Hin].
Qed.

(* ------------------------------------------------------------------------------------------ *)
(* send_challenge *)

Lemma send_challenge_frame c s na n known now :
  let s' := send_challenge c s na n known now in
  sessions (hs s') = sessions (hs s) /\
  (s' = s \/
   (has_challenge (hs s) na = false /\
    exists cd, challenges (hs s') = challenges (hs s) ++ [(na, {| ch_cd := cd; ch_enr := known |}, now + cfg_timeout c)])) /\
  OutsExt quiet_out s s'.
Proof.
  cbn zeta. unfold send_challenge. destruct (has_challenge (hs s) na) eqn:Eh.
  - split; [reflexivity | split; [left; reflexivity | apply OutsExt_refl]].
  - destruct (pop_pk (dr s)) as [[[[idn r] cd] e0] d']. split; [reflexivity | split].
    + right. split; [reflexivity |]. exists cd. reflexivity.
    + exists [OWire na (PWho n idn (match known with Some e => e_seq e | None => 0 end) cd)].
      split; [reflexivity | constructor; [exact I | constructor]].
Qed.

(* ------------------------------------------------------------------------------------------ *)
(* handle_auth_message *)

Definition est_out (e : enr) (na : naddr) (o : output) : Prop :=
  quiet_out o \/ o = OEvent (HEstablished e (snd na) true) \/ o = OEvent (HUnverifiable e (snd na) (fst na)).

(* exhaustive description of handle_auth_message *)
Lemma handle_auth_message_frame c s na n aad sg eph eph_ok rec ct now :
  let s' := handle_auth_message c s na n aad sg eph eph_ok rec ct now in
  match chall_get na (challenges (hs s)) with
  | None => s' = s
  | Some ch =>
    match establish c (fst na) ch sg eph eph_ok rec with
    | EstOk se e =>
      exists s4,
        challenges (hs s4) = chall_remove na (challenges (hs s)) /\
        SessN na se (hs s) (hs s4) /\ UPres (hs s) (hs s4) /\
        OutsExt (est_out e na) s s4 /\
        (verify_enr e na = true -> In (OEvent (HEstablished e (snd na) true)) (outs s4)) /\
        MF na n aad ct s4 s'
    | EstBadSig =>
      s' = with_hs s (set_challenges (hs s)
             (chall_remove na (challenges (hs s)) ++ [(na, ch, now + cfg_timeout c)]))
    | EstErr =>
      challenges (hs s') = chall_remove na (challenges (hs s)) /\ SessD (hs s) (hs s') /\
      OutsExt failed_out s s' /\ UPres (hs s) (hs s')
    end
  end.
Proof.
  cbn zeta. unfold handle_auth_message.
  destruct (chall_get na (challenges (hs s))) as [ch |]; [| reflexivity].
  set (s1 := with_hs s (set_challenges (hs s) (chall_remove na (challenges (hs s))))).
  destruct (establish c (fst na) ch sg eph eph_ok rec) as [se e | |].
  - set (s2 := remove_expected s1 (snd na)).
    set (s3 := if verify_enr e na then emit s2 (OEvent (HEstablished e (snd na) true))
               else emit s2 (OEvent (HUnverifiable e (snd na) (fst na)))).
    exists (new_session c s3 na se None now).
    destruct (NS_new_session c s3 na se None now) as [E [HN [HO HU]]].
    assert (E3 : challenges (hs s3) = chall_remove na (challenges (hs s))).
    { unfold s3. destruct (verify_enr e na); reflexivity. }
    assert (S3 : sessions (hs s3) = sessions (hs s)).
    { unfold s3. destruct (verify_enr e na); reflexivity. }
    assert (O3 : OutsExt (est_out e na) s s3).
    { unfold s3. destruct (verify_enr e na).
      - exists [OEvent (HEstablished e (snd na) true)]. split; [reflexivity |].
        constructor; [right; left; reflexivity | constructor].
      - exists [OEvent (HUnverifiable e (snd na) (fst na))]. split; [reflexivity |].
        constructor; [right; right; reflexivity | constructor]. }
    split; [congruence | split; [| split; [| split; [| split]]]].
    + eapply SessD_N; [apply SessD_same; exact S3 | exact HN].
    + intros H. apply HU. unfold SessUniq. rewrite S3. exact H.
    + eapply OutsExt_trans; [exact O3 |]. eapply OutsExt_weaken; [| exact HO]. intros o H; left; exact H.
    + intros Hv. destruct HO as [l [El _]]. rewrite El. apply in_or_app. left.
      unfold s3. rewrite Hv. cbn [emit outs]. apply in_or_app. right. left. reflexivity.
    + apply handle_message_frame.
  - reflexivity.
  - set (s2 := if fix_d6 c then remove_expected s1 (snd na) else s1).
    destruct (QuietF_fail_session c s2 na ERR_INVALID_REMOTE_PACKET true) as [[E [D U]] O].
    assert (E2 : challenges (hs s2) = chall_remove na (challenges (hs s))) by (unfold s2; destruct (fix_d6 c); reflexivity).
    assert (S2 : sessions (hs s2) = sessions (hs s)) by (unfold s2; destruct (fix_d6 c); reflexivity).
    assert (O2 : outs s2 = outs s) by (unfold s2; destruct (fix_d6 c); reflexivity).
    split; [congruence | split; [| split]].
    + eapply SessD_trans; [apply SessD_same; exact S2 | exact D].
    + destruct O as [l [El Fl]]. exists l. rewrite El, O2. auto.
    + intros H. apply U. unfold SessUniq. rewrite S2. exact H.
Qed.

(* ------------------------------------------------------------------------------------------ *)
(* handle_challenge *)

(* keys a session under node id X may hold: derived with this node's static key for a handshake
   claimed by X (we challenged X), or with X's static key (we answered X's WHOAREYOU) *)
Definition key_for (c : config) (X : id) (k : key) : Prop :=
  (k_static k = cfg_local c /\ k_ida k = X /\ k_idb k = cfg_local c) \/
  (k_static k = X /\ k_ida k = cfg_local c /\ k_idb k = X).

Definition NH (na : naddr) (se : session) (h h' : hstate) : Prop :=
  challenges h' = challenges h /\ SessN na se h h' /\ UPres h h'.

Lemma NH_prefix na se a b d : QH a b -> NH na se b d -> NH na se a d.
Proof.
  intros [E [D U]] [E' [N U']]. split; [congruence | split; [eapply SessD_N; eauto |]].
  intros H. apply U'. apply U. exact H.
Qed.
Lemma NS_NH na se s s' : NS na se s s' -> NH na se (hs s) (hs s').
Proof. intros [E [N [_ U]]]. split; [assumption | split; assumption]. Qed.

Lemma handle_challenge_frame c s src n seq cd now :
  let s' := handle_challenge c s src n seq cd now in
  QH (hs s) (hs s') \/
  exists ct eph await,
    let se := {| s_enc := mk_key eph (c_id ct) cd (cfg_local c) (c_id ct) false;
                 s_dec := mk_key eph (c_id ct) cd (cfg_local c) (c_id ct) true;
                 s_old := None; s_await := await; s_counter := 0; s_used := 0 |} in
    NH (c_naddr ct) se (hs s) (hs s').
Proof.
  cbn zeta. unfold handle_challenge.
  destruct (nmap_get n (nmap (hs s))) as [na0 |]; [| left; apply QH_refl].
  pose proof (QH_ar_remove_by_nonce (hs s) n) as Hr.
  assert (Sr : sessions (fst (ar_remove_by_nonce (hs s) n)) = sessions (hs s)).
  { unfold ar_remove_by_nonce. destruct (nmap_get n (nmap (hs s))); [| reflexivity].
    destruct (alist_get n0 (active (hs s))); [| reflexivity].
    destruct (remove_first _ l) as [[r l'] |]; reflexivity. }
  destruct (ar_remove_by_nonce (hs s) n) as [h1 found]. cbn [fst] in Hr, Sr.
  destruct found as [[na r] |]; [| left; exact Hr].
  destruct (negb (N.eqb (snd na) src)).
  { left. eapply QH_trans; [exact Hr | apply QH_ar_insert]. }
  destruct (rc_hs_sent r || c_ed (rc_contact r)).
  { left. set (s2 := if fix_d6 c then _ else _).
    assert (H2 : QuietF s s2).
    { unfold s2. destruct (fix_d6 c).
      - eapply QuietF_trans; [apply QuietF_with_hs; exact Hr |].
        unfold remove_expected. apply QuietF_with_hs. apply QH_same; reflexivity.
      - apply QuietF_with_hs; exact Hr. }
    destruct (QuietF_trans _ _ _ H2 (QuietF_fail_request c s2 r ERR_INVALID_REMOTE_PACKET true)) as [H _].
    exact H. }
  right. set (ct := rc_contact r).
  destruct (pop_pk (dr (with_hs s h1))) as [[[[cn rr] aad] eph] d'].
  destruct (c_enr ct) as [e |].
  - exists ct, eph, None. cbn zeta.
    match goal with |- NH _ ?se _ (hs (new_session _ ?s5 _ _ _ _)) =>
      apply (NH_prefix _ _ _ (hs s5)); [| apply NS_NH; apply NS_new_session] end.
    eapply QH_trans; [exact Hr |]. apply QH_same; reflexivity.
  - destruct (pop_rid _) as [irid d''].
    match goal with |- context [send_request c ?s5 ct false irid 0 now] =>
      pose proof (Quiet_send_request c s5 ct false irid 0 now) as [Hq _];
      assert (H5 : QH (hs s) (hs s5)) by (eapply QH_trans; [exact Hr |]; apply QH_same; reflexivity);
      destruct (send_request c s5 ct false irid 0 now) as [s6 ok]
    end.
    cbn [fst] in Hq.
    exists ct, eph, (Some irid). cbn zeta.
    apply (NH_prefix _ _ _ (hs s6)); [| apply NS_NH; apply NS_new_session].
    eapply QH_trans; [exact H5 | exact Hq].
Qed.
