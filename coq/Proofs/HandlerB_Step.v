(* Step- and run-level theorems for C01 / C02 (identity, attribution, delivery) and the invariants
   they need (ChallOK, ChallUniq, session_origin). *)
From Coq Require Import List Arith NArith Bool Lia.
From Discv5V Require Import Model.Handler Proofs.HandlerB_Base Proofs.HandlerB_Frame Proofs.HandlerB_Session
  Proofs.HandlerB_Auth.
Import ListNotations.
Local Open Scope N_scope.

(* ------------------------------------------------------------------------------------------ *)
(* a step = the implicit tick, then the event's handler; both run with the clock of the environment set
   to the time of the step ([with_clock c now]; the timers fired by the tick set it to their fire time) *)

Definition tick (c : config) (h : hstate) (now : N) (d : draws) : st :=
  fire_due (with_clock c now) {| hs := h; dr := d; outs := [] |} now TICK_FUEL.

Definition dispatch (c : config) (s0 : st) (e : event) (now : N) : st :=
  match e with
  | EvTick => s0
  | EvRequest ct rid body =>
    let (s1, ok) := send_request c s0 ct true rid body now in
    if ok then s1 else emit s1 (OEvent (HRequestFailed rid ERR_SELF_REQUEST))
  | EvResponse na rid rb => send_response c s0 na rid rb
  | EvWhoAreYou na n known => send_challenge c s0 na n known now
  | EvInbound from p =>
    match p with
    | PWho n idn seq cd => handle_challenge c s0 from n seq cd now
    | PHs src n aad sg eph eph_ok rec ct => handle_auth_message c s0 (src, from) n aad sg eph eph_ok rec ct now
    | PMsg src n aad ct => handle_message c s0 (src, from) n aad ct now
    end
  end.

Lemma step_eq c h e now d :
  step c h e now d = (hs (dispatch (with_clock c now) (tick c h now d) e now),
                      outs (dispatch (with_clock c now) (tick c h now d) e now)).
Proof. unfold step, tick, dispatch. reflexivity. Qed.

Lemma tick_QC c h now d : QC {| hs := h; dr := d; outs := [] |} (tick c h now d).
Proof. apply QC_fire_due. Qed.

Lemma tick_SessD c h now d : SessD h (hs (tick c h now d)).
Proof. destruct (tick_QC c h now d) as [_ [H _]]. exact H. Qed.
Lemma tick_outs c h now d : Forall quiet_out (outs (tick c h now d)).
Proof. destruct (tick_QC c h now d) as [_ [_ [[l [E F]] _]]]. rewrite E. exact F. Qed.
Lemma tick_chall c h now d (P : list (naddr * chall * N) -> Prop) :
  chall_closed P -> P (challenges h) -> P (challenges (hs (tick c h now d))).
Proof. destruct (tick_QC c h now d) as [H _]. apply H. Qed.
Lemma tick_chall_incl c h now d : incl (challenges (hs (tick c h now d))) (challenges h).
Proof. apply (tick_chall c h now d (fun l => incl l (challenges h))); [apply chall_closed_incl | apply incl_refl]. Qed.

(* outputs of the whole step, given the outputs the handler appends *)
Lemma outs_after_tick (P : output -> Prop) c h now d s' o :
  OutsExt P (tick c h now d) s' -> In o (outs s') -> quiet_out o \/ P o.
Proof.
  intros HO Hin. destruct (OutsExt_In _ _ _ _ HO Hin) as [H | H]; [left | right; exact H].
  pose proof (tick_outs c h now d) as F. rewrite Forall_forall in F. auto.
Qed.

(* all that the proofs below use about the state after the implicit tick; the theorems are proved
   for an arbitrary such state ([..._gen]) so that the body of fire_due is never exposed to the
   unifier or the kernel's conversion *)
Definition AfterTick (h : hstate) (s0 : st) : Prop :=
  SessD h (hs s0) /\ Forall quiet_out (outs s0) /\
  incl (challenges (hs s0)) (challenges h).
Lemma tick_after c h now d : AfterTick h (tick c h now d).
Proof.
  split; [apply tick_SessD | split; [apply tick_outs | apply tick_chall_incl]].
Qed.

Lemma step_inv c h e now d h' out :
  step c h e now d = (h', out) ->
  h' = hs (dispatch (with_clock c now) (tick c h now d) e now) /\
  out = outs (dispatch (with_clock c now) (tick c h now d) e now).
Proof. rewrite step_eq. intros H. inversion H. split; reflexivity. Qed.

Lemma step_PHs c h from src n aad sg eph eph_ok rec ct now d :
  step c h (EvInbound from (PHs src n aad sg eph eph_ok rec ct)) now d =
  (hs (handle_auth_message (with_clock c now) (tick c h now d) (src, from) n aad sg eph eph_ok rec ct now),
   outs (handle_auth_message (with_clock c now) (tick c h now d) (src, from) n aad sg eph eph_ok rec ct now)).
Proof. unfold step, tick. reflexivity. Qed.
Lemma step_PMsg c h from src n aad ct now d :
  step c h (EvInbound from (PMsg src n aad ct)) now d =
  (hs (handle_message (with_clock c now) (tick c h now d) (src, from) n aad ct now),
   outs (handle_message (with_clock c now) (tick c h now d) (src, from) n aad ct now)).
Proof. unfold step, tick. reflexivity. Qed.
Lemma step_PWho c h from n idn seq cd now d :
  step c h (EvInbound from (PWho n idn seq cd)) now d =
  (hs (handle_challenge (with_clock c now) (tick c h now d) from n seq cd now),
   outs (handle_challenge (with_clock c now) (tick c h now d) from n seq cd now)).
Proof. unfold step, tick. reflexivity. Qed.

(* from here on the implicit tick is an abstract state transformer *)
Global Opaque tick.

Lemma outs_after (P : output -> Prop) s0 s' o :
  Forall quiet_out (outs s0) -> OutsExt P s0 s' -> In o (outs s') -> quiet_out o \/ P o.
Proof.
  intros F HO Hin. destruct (OutsExt_In _ _ _ _ HO Hin) as [H | H]; [left | right; exact H].
  rewrite Forall_forall in F. auto.
Qed.

(* ------------------------------------------------------------------------------------------ *)
(* well-formed events: the service answers HandlerOut::WhoAreYou(node_address) with the record it
   stores under that node id (or none) *)

Definition ev_wf (e : event) : Prop :=
  match e with
  | EvWhoAreYou na _ (Some known) => e_id known = fst na
  | _ => True
  end.

Definition ChallInv (h : hstate) : Prop := ChallOK h /\ ChallUniq h.

Lemma ChallInv_init : ChallInv init_state.
Proof. split; [constructor | constructor]. Qed.

Lemma ChallInv_eq h h' : challenges h' = challenges h -> ChallInv h -> ChallInv h'.
Proof. unfold ChallInv, ChallOK, ChallUniq. intros ->. auto. Qed.

Lemma ChallInv_remove h h' na :
  challenges h' = chall_remove na (challenges h) -> ChallInv h -> ChallInv h'.
Proof.
  unfold ChallInv, ChallOK, ChallUniq. intros -> [H1 H2]. split.
  - apply chall_closed_Forall. exact H1.
  - apply chall_closed_NoDup. exact H2.
Qed.

Lemma ChallInv_tick c h now d : ChallInv h -> ChallInv (hs (tick c h now d)).
Proof.
  intros [H1 H2]. split.
  - apply (tick_chall c h now d (Forall chall_entry_ok)); [apply chall_closed_Forall | exact H1].
  - apply (tick_chall c h now d (fun l => NoDup (chall_keys l))); [apply chall_closed_NoDup | exact H2].
Qed.

Lemma dispatch_ChallInv c s0 e now : ev_wf e -> ChallInv (hs s0) -> ChallInv (hs (dispatch c s0 e now)).
Proof.
  intros Hwf H0.
  destruct e as [ct rid body | na rid rb | na n known | from p |]; cbn [dispatch].
  - pose proof (Quiet_send_request c s0 ct true rid body now) as [[E _] _].
    destruct (send_request c s0 ct true rid body now) as [s1 ok]. cbn [fst] in E.
    destruct ok; (eapply ChallInv_eq; [| exact H0]); exact E.
  - pose proof (Quiet_send_response c s0 na rid rb) as [[E _] _]. eapply ChallInv_eq; [exact E | exact H0].
  - destruct (send_challenge_frame c s0 na n known now) as [_ [[E | [Hh [cd E]]] _]].
    + rewrite E. exact H0.
    + destruct H0 as [H1 H2]. unfold ChallInv, ChallOK, ChallUniq. rewrite E. split.
      * apply Forall_app. split; [exact H1 |]. constructor; [| constructor].
        unfold chall_entry_ok. cbn. destruct known as [k |]; [exact Hwf | exact I].
      * rewrite chall_keys_app. cbn. apply NoDup_snoc; [exact H2 | apply has_challenge_false; exact Hh].
  - destruct p as [src n aad ct | n idn seq cd | src n aad sg eph eph_ok rec ct].
    + pose proof (handle_message_frame c s0 (src, from) n aad ct now) as [[E _] _].
      eapply ChallInv_eq; [exact E | exact H0].
    + destruct (handle_challenge_frame c s0 from n seq cd now) as [[E _] | [ct [eph [aw [E _]]]]];
        (eapply ChallInv_eq; [exact E | exact H0]).
    + pose proof (handle_auth_message_frame c s0 (src, from) n aad sg eph eph_ok rec ct now) as H.
      cbn zeta in H. destruct (chall_get (src, from) (challenges (hs s0))) as [ch |] eqn:Eg.
      * destruct (establish c (fst (src, from)) ch sg eph eph_ok rec) as [se e | |].
        -- destruct H as [s4 [E4 [_ [_ [_ [_ [[E _] _]]]]]]].
           eapply ChallInv_eq; [exact E |]. eapply ChallInv_remove; [exact E4 | exact H0].
        -- rewrite H. cbn [hs with_hs]. destruct H0 as [H1 H2].
           destruct (chall_get_In _ _ _ Eg) as [d0 Hin].
           unfold ChallInv, ChallOK, ChallUniq. cbn [challenges set_challenges]. split.
           ++ apply Forall_app. split; [apply chall_closed_Forall; exact H1 |].
              constructor; [| constructor]. unfold ChallOK in H1. rewrite Forall_forall in H1.
              exact (H1 _ Hin).
           ++ rewrite chall_keys_app. cbn. apply NoDup_snoc; [apply chall_closed_NoDup; exact H2 |].
              apply chall_get_None. apply chall_remove_gone. exact H2.
        -- destruct H as [E _]. eapply ChallInv_remove; [exact E | exact H0].
      * rewrite H. exact H0.
  - exact H0.
Qed.

Lemma step_ChallInv c h e now d : ev_wf e -> ChallInv h -> ChallInv (fst (step c h e now d)).
Proof.
  intros Hwf Hinv. rewrite step_eq. cbn [fst]. apply (dispatch_ChallInv (with_clock c now)); [exact Hwf |].
  apply ChallInv_tick. exact Hinv.
Qed.

(* invariants along runs *)
Definition evs_wf (evs : list (event * N * draws)) : Prop := Forall (fun x => ev_wf (fst (fst x))) evs.

Lemma run_invariant (I : hstate -> Prop) c :
  (forall h e now d, ev_wf e -> I h -> I (fst (step c h e now d))) ->
  forall evs h, evs_wf evs -> I h -> I (fst (run c h evs)).
Proof.
  intros Hstep evs. induction evs as [| [[e now] d] rest IH]; intros h Hwf Hi; cbn [run]; [exact Hi |].
  inversion Hwf as [| x y Hx Hy]; subst. cbn [fst] in Hx.
  pose proof (Hstep h e now d Hx Hi) as H1.
  destruct (step c h e now d) as [h1 o]. cbn [fst] in H1.
  specialize (IH h1 Hy H1). destruct (run c h1 rest) as [h2 os]. exact IH.
Qed.

Lemma run_ChallInv c evs : evs_wf evs -> ChallInv (fst (run c init_state evs)).
Proof. intros H. apply run_invariant; [apply step_ChallInv | exact H | apply ChallInv_init]. Qed.

(* ------------------------------------------------------------------------------------------ *)
(* C01: incoming identity *)

(* outputs that attribute something to a remote node *)
Definition attributing (o : output) : Prop :=
  match o with
  | OEvent (HEstablished _ _ _) | OEvent (HUnverifiable _ _ _)
  | OEvent (HRequest _ _ _) | OEvent (HResponse _ _ _) => True
  | _ => False
  end.
Lemma quiet_not_attributing o : quiet_out o -> attributing o -> False.
Proof. destruct o as [[]|]; cbn; tauto. Qed.
Lemma failed_not_attributing o : failed_out o -> attributing o -> False.
Proof. intros H. apply quiet_not_attributing. apply failed_quiet. exact H. Qed.

(* some session of h' (under any node address) holds a key that no session of h under that address
   held: a session was created or re-keyed *)
Definition session_changed (h h' : hstate) : Prop :=
  exists na se' k, In (na, se') (sessions h') /\ In k (sess_keys se') /\
    forall se, In (na, se) (sessions h) -> ~ In k (sess_keys se).
Lemma SessD_not_changed h h' : SessD h h' -> ~ session_changed h h'.
Proof.
  intros HD [na [se' [k [H1 [H2 H3]]]]]. destruct (HD _ _ H1) as [se [H4 [H5 _]]].
  exact (H3 se H4 (H5 k H2)).
Qed.

Lemma incoming_identity_gen c h s0 from src n aad sg eph eph_ok rec ct now h' out :
  AfterTick h s0 ->
  fix_d1 c = true -> ChallOK h ->
  h' = hs (handle_auth_message c s0 (src, from) n aad sg eph eph_ok rec ct now) ->
  out = outs (handle_auth_message c s0 (src, from) n aad sg eph eph_ok rec ct now) ->
  (exists o, In o out /\ attributing o) \/ session_changed h h' ->
  exists ch deadline,
    In ((src, from), ch, deadline) (challenges h) /\
    sg = Sig src (ch_cd ch) eph (cfg_local c) /\ eph_ok = true.
Proof.
  intros [TD [TO TI]] Hfix Hok Eh Eo Heff. symmetry in Eh, Eo.
  pose proof (handle_auth_message_frame c s0 (src, from) n aad sg eph eph_ok rec ct now) as H.
  cbn zeta in H.
  assert (Hnone : forall s', hs s' = h' -> outs s' = out -> SessD (hs s0) (hs s') ->
            OutsExt failed_out s0 s' -> False).
  { intros s' E1 E2 HD HO. destruct Heff as [[o [Hin Ha]] | Hch].
    - rewrite <- E2 in Hin. destruct (outs_after _ s0 s' o TO HO Hin) as [Hq | Hq].
      + exact (quiet_not_attributing _ Hq Ha).
      + exact (failed_not_attributing _ Hq Ha).
    - apply (SessD_not_changed h h'); [| exact Hch]. rewrite <- E1.
      eapply SessD_trans; [exact TD | exact HD]. }
  destruct (chall_get (src, from) (challenges (hs s0))) as [ch |] eqn:Eg.
  - destruct (chall_get_In _ _ _ Eg) as [d0 Hin0].
    pose proof (TI _ Hin0) as Hin.
    destruct (establish c (fst (src, from)) ch sg eph eph_ok rec) as [se e | |] eqn:Ee.
    + exists ch, d0. split; [exact Hin |].
      assert (Hk : forall known, ch_enr ch = Some known -> e_id known = fst (src, from)).
      { intros known Ek. unfold ChallOK in Hok. rewrite Forall_forall in Hok.
        pose proof (Hok _ Hin) as H1. unfold chall_entry_ok in H1. cbn [fst snd] in H1. rewrite Ek in H1. exact H1. }
      destruct (establish_binds_id _ _ _ _ _ _ _ _ _ Hfix Hk Ee) as [_ [H2 H3]]. cbn [fst] in H2. auto.
    + exfalso. eapply Hnone; [exact Eh | exact Eo | |]; rewrite H.
      * apply SessD_same. reflexivity.
      * apply OutsExt_same. reflexivity.
    + exfalso. destruct H as [_ [HD [HO _]]]. eapply Hnone; eauto.
  - exfalso. eapply Hnone; [exact Eh | exact Eo | |]; rewrite H.
    + apply SessD_refl.
    + apply OutsExt_refl.
Qed.

Theorem incoming_identity c h from src n aad sg eph eph_ok rec ct now d h' out :
  fix_d1 c = true -> ChallOK h ->
  step c h (EvInbound from (PHs src n aad sg eph eph_ok rec ct)) now d = (h', out) ->
  (exists o, In o out /\ attributing o) \/ session_changed h h' ->
  exists ch deadline,
    In ((src, from), ch, deadline) (challenges h) /\
    sg = Sig src (ch_cd ch) eph (cfg_local c) /\ eph_ok = true.
Proof.
  intros Hfix Hok Hstep. rewrite step_PHs in Hstep. inversion Hstep as [[Eh Eo]].
  eapply (incoming_identity_gen (with_clock c now)); [apply (tick_after c h now d) | exact Hfix | exact Hok | reflexivity | reflexivity].
Qed.

(* Established(Incoming) is reported with a record of the claimed id: the record verified is X's *)
Lemma incoming_established_id_gen c h s0 from src n aad sg eph eph_ok rec ct now out e a nid :
  AfterTick h s0 ->
  fix_d1 c = true -> ChallOK h ->
  out = outs (handle_auth_message c s0 (src, from) n aad sg eph eph_ok rec ct now) ->
  In (OEvent (HEstablished e a true)) out \/ In (OEvent (HUnverifiable e a nid)) out ->
  a = from /\ (In (OEvent (HUnverifiable e a nid)) out -> nid = src) /\
  (In (OEvent (HEstablished e a true)) out -> e_id e = src).
Proof.
  intros [TD [TO TI]] Hfix Hok Eo Hin. symmetry in Eo.
  pose proof (handle_auth_message_frame c s0 (src, from) n aad sg eph eph_ok rec ct now) as H.
  cbn zeta in H.
  assert (Hnone : forall s', outs s' = out -> OutsExt failed_out s0 s' -> False).
  { intros s' E2 HO.
    assert (Hx : exists o, In o (outs s') /\ attributing o).
    { rewrite E2. destruct Hin as [Hin | Hin]; eexists; (split; [exact Hin | exact I]). }
    destruct Hx as [o [Hi Ha]].
    destruct (outs_after _ s0 s' o TO HO Hi) as [Hq | Hq].
    - exact (quiet_not_attributing _ Hq Ha).
    - exact (failed_not_attributing _ Hq Ha). }
  destruct (chall_get (src, from) (challenges (hs s0))) as [ch |] eqn:Eg.
  2:{ exfalso. eapply Hnone; [exact Eo |]. rewrite H. apply OutsExt_refl. }
  destruct (chall_get_In _ _ _ Eg) as [d0 Hin0].
  pose proof (TI _ Hin0) as Hinh.
  destruct (establish c (fst (src, from)) ch sg eph eph_ok rec) as [se e0 | |] eqn:Ee.
  - assert (Hk : forall known, ch_enr ch = Some known -> e_id known = fst (src, from)).
    { intros known Ek. unfold ChallOK in Hok. rewrite Forall_forall in Hok.
      pose proof (Hok _ Hinh) as H1. unfold chall_entry_ok in H1. cbn [fst snd] in H1. rewrite Ek in H1. exact H1. }
    destruct (establish_binds_id _ _ _ _ _ _ _ _ _ Hfix Hk Ee) as [Hid _]. cbn [fst] in Hid.
    destruct H as [s4 [_ [_ [_ [O4 [_ [_ OM]]]]]]].
    (* classify an output of the whole step *)
    assert (Hcls : forall o, In o out -> quiet_out o \/ est_out e0 (src, from) o \/
              msg_out_ok (hs s4) (src, from) n aad ct o).
    { intros o Ho. rewrite <- Eo in Ho.
      destruct (OutsExt_In _ _ _ _ OM Ho) as [Ho4 | Hm]; [| right; right; exact Hm].
      destruct (outs_after _ s0 s4 o TO O4 Ho4) as [Hq | Hq]; [left; exact Hq | right; left; exact Hq]. }
    assert (HE : In (OEvent (HEstablished e a true)) out -> a = from /\ e_id e = src).
    { intros Hi. destruct (Hcls _ Hi) as [Hq | [[Hq | [Hq | Hq]] | Hq]]; cbn in Hq; try contradiction.
      - inversion Hq; subst. auto.
      - discriminate.
      - destruct Hq as [_ [Hq _]]. discriminate. }
    assert (HU : In (OEvent (HUnverifiable e a nid)) out -> a = from /\ nid = src).
    { intros Hi. destruct (Hcls _ Hi) as [Hq | [[Hq | [Hq | Hq]] | Hq]]; cbn in Hq; try contradiction.
      - discriminate.
      - inversion Hq; subst. auto.
      - destruct Hq as [Hq1 [Hq2 _]]. cbn in Hq1, Hq2. auto. }
    split; [destruct Hin as [Hi | Hi]; [apply HE | apply HU]; exact Hi |].
    split; [intros Hi; apply HU; exact Hi | intros Hi; apply HE; exact Hi].
  - exfalso. eapply Hnone; [exact Eo |]. rewrite H. apply OutsExt_same. reflexivity.
  - exfalso. destruct H as [_ [_ [HO _]]]. eapply Hnone; eauto.
Qed.

Theorem incoming_established_id c h from src n aad sg eph eph_ok rec ct now d h' out e a nid :
  fix_d1 c = true -> ChallOK h ->
  step c h (EvInbound from (PHs src n aad sg eph eph_ok rec ct)) now d = (h', out) ->
  In (OEvent (HEstablished e a true)) out \/ In (OEvent (HUnverifiable e a nid)) out ->
  a = from /\ (In (OEvent (HUnverifiable e a nid)) out -> nid = src) /\
  (In (OEvent (HEstablished e a true)) out -> e_id e = src).
Proof.
  intros Hfix Hok Hstep. rewrite step_PHs in Hstep. inversion Hstep as [[Eh Eo]].
  eapply (incoming_established_id_gen (with_clock c now)); [apply (tick_after c h now d) | exact Hfix | exact Hok | reflexivity].
Qed.

(* every event other than an inbound WHOAREYOU / handshake packet: no session is created or re-keyed,
   counters do not decrease *)
Definition creates_sessions (e : event) : bool :=
  match e with
  | EvInbound _ (PWho _ _ _ _) | EvInbound _ (PHs _ _ _ _ _ _ _ _) => true
  | _ => false
  end.

Lemma dispatch_SessD c s0 e now :
  creates_sessions e = false -> SessD (hs s0) (hs (dispatch c s0 e now)).
Proof.
  intros He.
  destruct e as [ct rid body | na rid rb | na n known | from p |]; cbn [dispatch].
  - pose proof (Quiet_send_request c s0 ct true rid body now) as [[_ [D _]] _].
    destruct (send_request c s0 ct true rid body now) as [s1 ok]. cbn [fst] in D. destruct ok; exact D.
  - pose proof (Quiet_send_response c s0 na rid rb) as [[_ [D _]] _]. exact D.
  - destruct (send_challenge_frame c s0 na n known now) as [E _]. apply SessD_same. exact E.
  - destruct p as [src n aad ct | n idn seq cd | src n aad sg eph eph_ok rec ct]; try discriminate.
    pose proof (handle_message_frame c s0 (src, from) n aad ct now) as [[_ [D _]] _]. exact D.
  - apply SessD_refl.
Qed.

Theorem only_handshakes_create_sessions c h e now d :
  creates_sessions e = false -> SessD h (fst (step c h e now d)).
Proof.
  intros He. rewrite step_eq. cbn [fst]. eapply SessD_trans; [apply tick_SessD |].
  apply (dispatch_SessD (with_clock c now)). exact He.
Qed.

(* in particular an ordinary message packet never creates a session *)
Corollary message_never_creates_session c h from src n aad ct now d :
  let h' := fst (step c h (EvInbound from (PMsg src n aad ct)) now d) in
  SessD h h' /\ incl (map fst (sessions h')) (map fst (sessions h)).
Proof.
  cbn zeta. pose proof (only_handshakes_create_sessions c h (EvInbound from (PMsg src n aad ct)) now d eq_refl) as HD.
  split; [exact HD |]. intros na Hin. apply in_map_iff in Hin. destruct Hin as [[na' se'] [E Hin]].
  cbn [fst] in E. subst na'. destruct (HD _ _ Hin) as [se [H _]]. apply in_map_iff. exists (na, se). auto.
Qed.

(* ------------------------------------------------------------------------------------------ *)
(* C01 / C02: what a message packet can make the handler report *)

Theorem delivered_needs_session c h from src n aad ct now d h' out o :
  step c h (EvInbound from (PMsg src n aad ct)) now d = (h', out) -> In o out ->
  quiet_out o \/ msg_out_ok (hs (tick c h now d)) (src, from) n aad ct o.
Proof.
  intros Hstep Hin. rewrite step_PMsg in Hstep. inversion Hstep as [[Eh Eo]].
  pose proof (handle_message_frame (with_clock c now) (tick c h now d) (src, from) n aad ct now) as [_ HO].
  rewrite <- Eo in Hin. exact (outs_after _ _ _ o (tick_outs c h now d) HO Hin).
Qed.

Corollary request_delivered c h from src n aad ct now d h' out na rid body :
  step c h (EvInbound from (PMsg src n aad ct)) now d = (h', out) ->
  In (OEvent (HRequest na rid body)) out ->
  na = (src, from) /\ Delivered (hs (tick c h now d)) (src, from) n aad ct (MReq rid body).
Proof.
  intros Hs Hin. destruct (delivered_needs_session _ _ _ _ _ _ _ _ _ _ _ _ Hs Hin) as [H | H]; cbn [quiet_out msg_out_ok] in H; tauto.
Qed.
Corollary response_delivered c h from src n aad ct now d h' out na rid rb :
  step c h (EvInbound from (PMsg src n aad ct)) now d = (h', out) ->
  In (OEvent (HResponse na rid rb)) out ->
  na = (src, from) /\ Delivered (hs (tick c h now d)) (src, from) n aad ct (MResp rid rb).
Proof.
  intros Hs Hin. destruct (delivered_needs_session _ _ _ _ _ _ _ _ _ _ _ _ Hs Hin) as [H | H]; cbn [quiet_out msg_out_ok] in H; tauto.
Qed.

(* an attributing output of a message packet needs a ciphertext under a session key of exactly
   (src, from), bound to the packet's nonce and authenticated data *)
Lemma attributing_needs_delivery c h from src n aad ct now d h' out o :
  step c h (EvInbound from (PMsg src n aad ct)) now d = (h', out) -> In o out -> attributing o ->
  exists m, Delivered (hs (tick c h now d)) (src, from) n aad ct m.
Proof.
  intros Hs Hin Ha. destruct (delivered_needs_session _ _ _ _ _ _ _ _ _ _ _ _ Hs Hin) as [H | H].
  - exfalso. exact (quiet_not_attributing _ H Ha).
  - destruct o as [[e a inc | na rid body | na rid rb | na n0 | rid err | e a nid | ks] | dst p]; cbn [msg_out_ok attributing] in H, Ha;
      try contradiction.
    + destruct H as [_ [_ [_ [rid [rb H]]]]]. eauto.
    + destruct H as [_ H]. eauto.
    + destruct H as [_ H]. eauto.
    + destruct H as [_ [_ [rid [rb H]]]]. eauto.
Qed.

(* C02: any change of the nonce or of the authenticated data (= the datagram's header bytes), a
   ciphertext that is not a genuine one, or a ciphertext under a key the session does not hold, is
   not delivered *)
Theorem tamper_rejected c h from src n aad ct now d h' out o :
  step c h (EvInbound from (PMsg src n aad ct)) now d = (h', out) -> In o out -> attributing o ->
  exists k m, ct = CEnc k n m aad.
Proof.
  intros Hs Hin Ha. destruct (attributing_needs_delivery _ _ _ _ _ _ _ _ _ _ _ _ Hs Hin Ha) as [m [se [k [_ [_ H]]]]].
  eauto.
Qed.

Corollary tamper_rejected_cases c h from src n aad ct now d h' out o :
  step c h (EvInbound from (PMsg src n aad ct)) now d = (h', out) -> In o out ->
  (exists j, ct = CJunk j) \/ (exists k n' m a', ct = CEnc k n' m a' /\ (n' <> n \/ a' <> aad)) ->
  ~ attributing o.
Proof.
  intros Hs Hin Hbad Ha. destruct (tamper_rejected _ _ _ _ _ _ _ _ _ _ _ _ Hs Hin Ha) as [k [m E]].
  destruct Hbad as [[j Ej] | [k' [n' [m' [a' [E' Hne]]]]]]; [congruence |].
  rewrite E in E'. inversion E'; subst. destruct Hne; congruence.
Qed.

(* C02: the session used is the one stored under exactly (src, from): without one nothing is delivered,
   whatever sessions exist under other addresses or ids *)
Theorem other_address_other_session c h from src n aad ct now d h' out o :
  step c h (EvInbound from (PMsg src n aad ct)) now d = (h', out) ->
  alist_get (src, from) (sessions (hs (tick c h now d))) = None ->
  In o out -> ~ attributing o.
Proof.
  intros Hs Hnone Hin Ha.
  destruct (attributing_needs_delivery _ _ _ _ _ _ _ _ _ _ _ _ Hs Hin Ha) as [m [se [k [H _]]]]. congruence.
Qed.

(* ------------------------------------------------------------------------------------------ *)
(* session_origin: the keys of every session under (X, a) were derived for X *)

Definition KeyInv (c : config) (h : hstate) : Prop :=
  forall na se, In (na, se) (sessions h) -> forall k, In k (sess_keys se) -> key_for c (fst na) k.

Lemma KeyInv_init c : KeyInv c init_state.
Proof. intros na se []. Qed.

Lemma SessN_KeyInv c na se h h' :
  KeyInv c h -> SessN na se h h' -> (forall k, In k (sess_keys se) -> key_for c (fst na) k) -> KeyInv c h'.
Proof.
  intros Hi HN Hse na' se' Hin k Hk.
  destruct (HN _ _ Hin) as [[se0 [H1 [_ H2]]] | [H1 [H2 _]]].
  - destruct (H2 k Hk) as [H3 | [H3 H4]]; [exact (Hi _ _ H1 _ H3) | subst; auto].
  - subst. auto.
Qed.
Lemma SessD_KeyInv c h h' : KeyInv c h -> SessD h h' -> KeyInv c h'.
Proof.
  intros Hi HD na' se' Hin k Hk. destruct (HD _ _ Hin) as [se0 [H1 [H2 _]]]. exact (Hi _ _ H1 _ (H2 k Hk)).
Qed.

(* the step relation on sessions: every session of h' descends from one of h under the same node
   address, except that a WHOAREYOU / handshake packet may install the keys of [se] under [na] *)
Lemma dispatch_sessions c h s0 e now :
  AfterTick h s0 ->
  let h' := hs (dispatch c s0 e now) in
  SessD h h' \/
  exists na se, SessN na se h h' /\ s_counter se = 0 /\ s_old se = None /\
    exists eph cd,
      (s_dec se = mk_key eph (cfg_local c) cd (fst na) (cfg_local c) false /\
       s_enc se = mk_key eph (cfg_local c) cd (fst na) (cfg_local c) true /\
       exists from src n aad sg ok rec ct ch,
         e = EvInbound from (PHs src n aad sg eph ok rec ct) /\ na = (src, from) /\
         chall_get na (challenges (hs s0)) = Some ch /\ cd = ch_cd ch /\
         exists e0, establish c src ch sg eph ok rec = EstOk se e0)
      \/
      (s_enc se = mk_key eph (fst na) cd (cfg_local c) (fst na) false /\
       s_dec se = mk_key eph (fst na) cd (cfg_local c) (fst na) true /\
       exists from n idn seq, e = EvInbound from (PWho n idn seq cd)).
Proof.
  intros [TD [TO TI]]. cbn zeta. destruct (creates_sessions e) eqn:Ec.
  2:{ left. eapply SessD_trans; [exact TD | apply dispatch_SessD; exact Ec]. }
  destruct e as [| | | from p |]; try discriminate.
  destruct p as [| n idn seq cd | src n aad sg eph eph_ok rec ct]; try discriminate.
  - cbn [dispatch].
    destruct (handle_challenge_frame c s0 from n seq cd now) as [[_ [D _]] | [ct [eph [aw [E [HN _]]]]]].
    + left. eapply SessD_trans; [exact TD | exact D].
    + right. eexists. eexists. split; [eapply SessD_N; [exact TD | exact HN] |].
      split; [reflexivity | split; [reflexivity |]]. exists eph, cd. right.
      split; [reflexivity | split; [reflexivity |]]. eauto.
  - cbn [dispatch].
    pose proof (handle_auth_message_frame c s0 (src, from) n aad sg eph eph_ok rec ct now) as H.
    cbn zeta in H. destruct (chall_get (src, from) (challenges (hs s0))) as [ch |] eqn:Eg.
    + destruct (establish c (fst (src, from)) ch sg eph eph_ok rec) as [se e0 | |] eqn:Ee.
      * destruct H as [s4 [_ [HN [_ [_ [_ [[_ [D _]] _]]]]]]]. right. exists (src, from), se.
        destruct (establish_session _ _ _ _ _ _ _ _ _ Ee) as [Ese _].
        split; [eapply SessD_N; [exact TD | eapply SessN_D; eauto] |].
        rewrite Ese at 1 2. split; [reflexivity | split; [reflexivity |]].
        exists eph, (ch_cd ch). left. rewrite Ese at 1 2. cbn [s_dec s_enc fst].
        split; [reflexivity | split; [reflexivity |]].
        exists from, src, n, aad, sg, eph_ok, rec, ct, ch. cbn [fst] in Ee. eauto 10.
      * left. rewrite H. exact TD.
      * left. destruct H as [_ [D _]]. eapply SessD_trans; [exact TD | exact D].
    + left. rewrite H. exact TD.
Qed.

(* the same for a step; [tick c h now d] is the state after the implicit tick *)
Lemma step_sessions c h e now d :
  let h' := fst (step c h e now d) in
  SessD h h' \/
  exists na se, SessN na se h h' /\ s_counter se = 0 /\ s_old se = None /\
    exists eph cd,
      (s_dec se = mk_key eph (cfg_local c) cd (fst na) (cfg_local c) false /\
       s_enc se = mk_key eph (cfg_local c) cd (fst na) (cfg_local c) true /\
       exists from src n aad sg ok rec ct ch,
         e = EvInbound from (PHs src n aad sg eph ok rec ct) /\ na = (src, from) /\
         chall_get na (challenges (hs (tick c h now d))) = Some ch /\ cd = ch_cd ch /\
         exists e0, establish c src ch sg eph ok rec = EstOk se e0)
      \/
      (s_enc se = mk_key eph (fst na) cd (cfg_local c) (fst na) false /\
       s_dec se = mk_key eph (fst na) cd (cfg_local c) (fst na) true /\
       exists from n idn seq, e = EvInbound from (PWho n idn seq cd)).
Proof.
  cbn zeta. rewrite step_eq. cbn [fst]. apply (dispatch_sessions (with_clock c now)). apply tick_after.
Qed.

Theorem step_KeyInv c h e now d : KeyInv c h -> KeyInv c (fst (step c h e now d)).
Proof.
  intros Hi. destruct (step_sessions c h e now d) as [D | [na [se [HN [_ [Ho [eph [cd Hk]]]]]]]].
  - eapply SessD_KeyInv; eauto.
  - eapply SessN_KeyInv; [exact Hi | exact HN |].
    intros k Hin. unfold sess_keys in Hin. rewrite Ho in Hin.
    destruct Hk as [[E1 [E2 _]] | [E1 [E2 _]]]; rewrite E1, E2 in Hin;
      destruct Hin as [Hin | [Hin | []]]; subst k; unfold key_for; cbn; auto.
Qed.

(* session_origin: in every reachable state *)
Theorem session_origin c evs : KeyInv c (fst (run c init_state evs)).
Proof.
  assert (H : forall evs h, KeyInv c h -> KeyInv c (fst (run c h evs))).
  { clear evs. intros evs. induction evs as [| [[e now] d] rest IH]; intros h Hi; cbn [run]; [exact Hi |].
    pose proof (step_KeyInv c h e now d Hi) as H1.
    destruct (step c h e now d) as [h1 o]. cbn [fst] in H1.
    specialize (IH h1 H1). destruct (run c h1 rest) as [h2 os]. exact IH. }
  apply H. apply KeyInv_init.
Qed.

(* C01 + C02 combined: a message reported as coming from (X, a) by a message packet was encrypted
   under a key derived for X, in a state satisfying the session_origin invariant *)
Corollary delivered_under_key_for c h from src n aad ct now d h' out o :
  KeyInv c h ->
  step c h (EvInbound from (PMsg src n aad ct)) now d = (h', out) -> In o out -> attributing o ->
  exists k m, ct = CEnc k n m aad /\ key_for c src k.
Proof.
  intros Hi Hs Hin Ha.
  destruct (attributing_needs_delivery _ _ _ _ _ _ _ _ _ _ _ _ Hs Hin Ha) as [m [se [k [Hg [Hk E]]]]].
  exists k, m. split; [exact E |].
  assert (Hi1 : KeyInv c (hs (tick c h now d))) by (eapply SessD_KeyInv; [exact Hi | apply tick_SessD]).
  apply alist_get_In in Hg. apply (Hi1 _ _ Hg k). unfold sess_keys.
  destruct Hk as [-> | [oe Ho]]; [right; left; reflexivity |].
  rewrite Ho. right; right; right; left; reflexivity.
Qed.

(* ------------------------------------------------------------------------------------------ *)
(* at most one session per node address, in every reachable state *)

Lemma dispatch_UPres c s0 e now : UPres (hs s0) (hs (dispatch c s0 e now)).
Proof.
  destruct e as [ct rid body | na rid rb | na n known | from p |]; cbn [dispatch].
  - pose proof (Quiet_send_request c s0 ct true rid body now) as [[_ [_ U]] _].
    destruct (send_request c s0 ct true rid body now) as [s1 ok]. cbn [fst] in U. destruct ok; exact U.
  - pose proof (Quiet_send_response c s0 na rid rb) as [[_ [_ U]] _]. exact U.
  - destruct (send_challenge_frame c s0 na n known now) as [E _]. apply UPres_same. exact E.
  - destruct p as [src n aad ct | n idn seq cd | src n aad sg eph eph_ok rec ct].
    + pose proof (handle_message_frame c s0 (src, from) n aad ct now) as [[_ [_ U]] _]. exact U.
    + destruct (handle_challenge_frame c s0 from n seq cd now) as [[_ [_ U]] | [ct [eph [aw [_ [_ U]]]]]]; exact U.
    + pose proof (handle_auth_message_frame c s0 (src, from) n aad sg eph eph_ok rec ct now) as H.
      cbn zeta in H. destruct (chall_get (src, from) (challenges (hs s0))) as [ch |].
      * destruct (establish c (fst (src, from)) ch sg eph eph_ok rec) as [se e | |].
        -- destruct H as [s4 [_ [_ [U4 [_ [_ [[_ [_ U]] _]]]]]]]. intros HU. apply U. apply U4. exact HU.
        -- rewrite H. apply UPres_same. reflexivity.
        -- destruct H as [_ [_ [_ U]]]. exact U.
      * rewrite H. intros HU. exact HU.
  - intros HU. exact HU.
Qed.

Lemma tick_UPres c h now d : UPres h (hs (tick c h now d)).
Proof. destruct (tick_QC c h now d) as [_ [_ [_ U]]]. exact U. Qed.

Theorem step_SessUniq c h e now d : SessUniq h -> SessUniq (fst (step c h e now d)).
Proof.
  intros HU. rewrite step_eq. cbn [fst]. apply (dispatch_UPres (with_clock c now)). apply tick_UPres. exact HU.
Qed.

Theorem run_SessUniq c evs : SessUniq (fst (run c init_state evs)).
Proof.
  assert (H : forall evs h, SessUniq h -> SessUniq (fst (run c h evs))).
  { clear evs. intros evs. induction evs as [| [[e now] d] rest IH]; intros h Hi; cbn [run]; [exact Hi |].
    pose proof (step_SessUniq c h e now d Hi) as H1.
    destruct (step c h e now d) as [h1 o]. cbn [fst] in H1.
    specialize (IH h1 H1). destruct (run c h1 rest) as [h2 os]. exact IH. }
  apply H. constructor.
Qed.

(* ------------------------------------------------------------------------------------------ *)
(* C01, contrapositive: a handshake packet whose id-signature is not a term signed by the key of the
   claimed id (for any challenge data, ephemeral key and destination) has none of the effects, whatever
   record, ephemeral key, nonce or source address it presents *)
Corollary no_key_no_effect c h from src n aad sg eph eph_ok rec ct now d h' out :
  fix_d1 c = true -> ChallOK h ->
  step c h (EvInbound from (PHs src n aad sg eph eph_ok rec ct)) now d = (h', out) ->
  (forall cd e dst, sg <> Sig src cd e dst) ->
  (forall o, In o out -> ~ attributing o) /\ ~ session_changed h h'.
Proof.
  intros Hfix Hok Hs Hsg. split.
  - intros o Hin Ha.
    destruct (incoming_identity _ _ _ _ _ _ _ _ _ _ _ _ _ _ _ Hfix Hok Hs (or_introl (ex_intro _ o (conj Hin Ha))))
      as [ch [dl [_ [E _]]]].
    exact (Hsg _ _ _ E).
  - intros Hch.
    destruct (incoming_identity _ _ _ _ _ _ _ _ _ _ _ _ _ _ _ Hfix Hok Hs (or_intror Hch)) as [ch [dl [_ [E _]]]].
    exact (Hsg _ _ _ E).
Qed.
