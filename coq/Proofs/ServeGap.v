(* Gap-closing lemmas for C14 (Model/Serve.v): statements about the ANSWER as a whole (not only about
   the collection loop of nodes_by_distances) and a datagram bound whose hypotheses mention only the
   configuration and the request, not the emitted packets. *)
From Coq Require Import List Arith NArith Bool Lia.
From Discv5V Require Import Generated.Params Lib.ListX Model.KBucket Model.Nodes Model.Serve
  Proofs.Nodes Proofs.KBMembers Proofs.Serve.
Import ListNotations.
Local Open Scope N_scope.

(* ------------------------------------------------------------------------------------------ *)
(* "at most the configured maximum (plus its own record)" for the whole answer *)

Lemma own_part_length t lv ds : (length (own_part t lv ds) = if mem 0 ds then 1 else 0)%nat.
Proof. unfold own_part. destruct (mem 0 ds); reflexivity. Qed.

Lemma filter_length_le {A} (p : A -> bool) l : (length (filter p l) <= length l)%nat.
Proof. induction l as [|x l IH]; cbn [filter length]; [lia|]. destruct (p x); cbn [length]; lia. Qed.

Lemma answer_length c t lv requester ds maxn now :
  (length (snd (answer c t lv requester ds maxn now))
   <= (if mem 0 ds then 1 else 0) + Nat.max maxn 1)%nat.
Proof.
  unfold answer. cbn [snd]. rewrite app_length, map_length, own_part_length.
  pose proof (filter_length_le (fun n => negb (nkey n =? requester))
                (nbd_collect (nbd_apply c t (table_distances ds) 0 maxn now) (table_distances ds) 0 maxn)) as H1.
  pose proof (nbd_collect_length (nbd_apply c t (table_distances ds) 0 maxn now) maxn (table_distances ds) 0) as H2.
  rewrite Nat.add_0_r in H2. lia.
Qed.

(* with a configured maximum of at least one, the table part has at most that many records *)
Lemma answer_length_pos c t lv requester ds maxn now :
  (1 <= maxn)%nat ->
  (length (snd (answer c t lv requester ds maxn now)) <= (if mem 0 ds then 1 else 0) + maxn)%nat.
Proof. intros H. pose proof (answer_length c t lv requester ds maxn now). lia. Qed.

(* the corner max_nodes_response = 0: the collection loop pushes a node before it tests the limit,
   so one table entry is served although the configured maximum is zero *)
Lemma answer_max_zero_serves_one :
  exists c t lv requester ds now,
    length (snd (answer c t lv requester ds 0 now)) = 1%nat /\ mem 0 ds = false.
Proof.
  exists {| max_incoming := 16; pending_timeout := 60; bfilter := None; tfilter := None |},
         (fst (t_insert_or_update {| max_incoming := 16; pending_timeout := 60; bfilter := None; tfilter := None |}
                 (new_table 0) (2 ^ 255 + 1) {| vid := 1; vsub := None |} true false 1)),
         {| vid := 99; vsub := None |}, 7, [256], 2.
  vm_compute. split; reflexivity.
Qed.

(* ------------------------------------------------------------------------------------------ *)
(* "never the requester's own record": without any hypothesis on the table *)

Lemma answer_never_requester c t lv requester ds maxn now :
  forall s, In s (snd (answer c t lv requester ds maxn now)) ->
    (s = {| s_key := local t; s_val := lv |} /\ mem 0 ds = true) \/
    (s_key s <> requester /\
     exists n, s = item_of_node n /\
               In n (nbd_collect (fst (answer c t lv requester ds maxn now)) (table_distances ds) 0 maxn)).
Proof.
  intros s Hs. unfold answer in *. cbn [fst snd] in *. apply in_app_iff in Hs. destruct Hs as [Hs|Hs].
  - left. unfold own_part in Hs. destruct (mem 0 ds); [|destruct Hs]. destruct Hs as [<-|[]]. auto.
  - right. apply in_map_iff in Hs. destruct Hs as (n & <- & Hn). apply filter_In in Hn.
    destruct Hn as (Hn & Hreq). split.
    + cbn [item_of_node s_key]. apply negb_true_iff in Hreq. now apply N.eqb_neq in Hreq.
    + exists n. auto.
Qed.

(* ------------------------------------------------------------------------------------------ *)
(* the number of packets *)

Lemma concat_length_ge {A} (ls : list (list A)) :
  (forall ch, In ch ls -> ch <> []) -> (length ls <= length (concat ls))%nat.
Proof.
  induction ls as [|ch ls IH]; intros H; cbn [concat length]; [lia|].
  rewrite app_length. assert (ch <> []) by (apply H; now left).
  assert (length ls <= length (concat ls))%nat by (apply IH; intros; apply H; now right).
  destruct ch; [congruence|]. cbn [length]. lia.
Qed.

(* never more packets than records (one packet for an empty answer) *)
Lemma packets_count c t lv requester id ds maxn rsize now :
  (forall s, In s (snd (answer c t lv requester ds maxn now)) -> rsize (s_val s) < SPLIT_LIMIT) ->
  (length (snd (serve_findnode c t lv requester id ds maxn rsize now))
   <= Nat.max 1 (length (snd (answer c t lv requester ds maxn now))))%nat.
Proof.
  intros Hsz.
  pose proof (serve_findnode_packets c t lv requester id ds maxn rsize now) as H. cbv zeta in H.
  destruct H as (_ & _ & Hcat & Hempty & Hb).
  set (ps := snd (serve_findnode c t lv requester id ds maxn rsize now)) in *.
  set (recs := snd (answer c t lv requester ds maxn now)) in *.
  destruct recs as [|r0 recs'] eqn:Er.
  - rewrite (Hempty eq_refl). cbn. lia.
  - assert (Hne : forall ch, In ch (map p_nodes ps) -> ch <> []).
    { intros ch Hch. apply in_map_iff in Hch. destruct Hch as (p & <- & Hp).
      destruct (Hb p Hp Hsz) as (_ & Hn). apply Hn. discriminate. }
    apply concat_length_ge in Hne. rewrite Hcat, map_length in Hne. lia.
Qed.

(* Every packet of an answer fits a datagram, from hypotheses on the INPUT only: every record is at
   most MAX_ENR_SIZE bytes, the request id at most 8 bytes, max_nodes_response at most 254. *)
Lemma packet_fits_config c t lv requester id ds maxn rsize now :
  (forall v, rsize v <= MAX_ENR_SIZE) -> (length id <= 8)%nat -> (maxn <= 254)%nat ->
  forall p, In p (snd (serve_findnode c t lv requester id ds maxn rsize now)) ->
    wire_size (nodes_msg_size rsize p) <= MAX_PACKET_SIZE.
Proof.
  intros Hsz Hid Hmax p Hp.
  assert (Hlim : forall s, In s (snd (answer c t lv requester ds maxn now)) -> rsize (s_val s) < SPLIT_LIMIT).
  { intros s _. specialize (Hsz (s_val s)).
    assert (MAX_ENR_SIZE < SPLIT_LIMIT) by (vm_compute; reflexivity). lia. }
  pose proof (packets_count c t lv requester id ds maxn rsize now Hlim) as Hcnt.
  pose proof (answer_length c t lv requester ds maxn now) as Hlen.
  assert (Hn : (length (snd (serve_findnode c t lv requester id ds maxn rsize now)) <= 255)%nat).
  { destruct (mem 0 ds); lia. }
  pose proof (serve_findnode_packets c t lv requester id ds maxn rsize now) as H. cbv zeta in H.
  destruct H as (_ & Hidt & _ & _ & Hb). destruct (Hidt p Hp) as (Hpid & Htot).
  destruct (Hb p Hp Hlim) as (Hsum & _).
  apply nodes_packet_fits; [exact Hsum|now rewrite Hpid|rewrite Htot; lia].
Qed.

(* ------------------------------------------------------------------------------------------ *)
(* the collection loop of nodes_by_distances, exactly: the first max(maxn, 1) entries of the
   requested buckets, bucket by bucket in the order of the distances *)

Definition quota (maxn acc : nat) : nat := Nat.max (maxn - acc) 1.

Lemma take_upto_exact maxn l : forall acc,
  take_upto maxn acc l = (firstn (quota maxn acc) l, Nat.leb (quota maxn acc) (length l)).
Proof.
  unfold quota. induction l as [|y l IH]; intros acc; cbn [take_upto].
  - rewrite firstn_nil. cbn [length]. destruct (Nat.max (maxn - acc) 1) eqn:E; [lia|reflexivity].
  - destruct (Nat.leb_spec maxn (S acc)) as [L|L].
    + assert (E : Nat.max (maxn - acc) 1 = 1%nat) by lia. rewrite E. reflexivity.
    + rewrite IH. assert (E : Nat.max (maxn - acc) 1 = S (Nat.max (maxn - S acc) 1)) by lia.
      rewrite E. cbn [firstn length]. reflexivity.
Qed.

Lemma nbd_collect_exact_acc t maxn ds : forall acc,
  nbd_collect t ds acc maxn
  = firstn (quota maxn acc) (flat_map (fun d => nodes (get_bucket t (N.to_nat (d - 1)))) ds).
Proof.
  induction ds as [|d ds IH]; intros acc; cbn [nbd_collect flat_map]; [now rewrite firstn_nil|].
  rewrite take_upto_exact. set (l := nodes (get_bucket t (N.to_nat (d - 1)))).
  destruct (Nat.leb_spec (quota maxn acc) (length l)) as [L|L].
  - rewrite firstn_app. replace (quota maxn acc - length l)%nat with 0%nat by lia.
    cbn [firstn]. now rewrite app_nil_r.
  - assert (Ea : firstn (quota maxn acc) l = l) by (apply firstn_all2; lia).
    rewrite Ea, IH, firstn_app, Ea.
    f_equal. f_equal. unfold quota in *. lia.
Qed.

Lemma nbd_collect_exact t maxn ds :
  nbd_collect t ds 0 maxn
  = firstn (Nat.max maxn 1) (flat_map (fun d => nodes (get_bucket t (N.to_nat (d - 1)))) ds).
Proof. rewrite nbd_collect_exact_acc. unfold quota. now rewrite Nat.sub_0_r. Qed.

(* ------------------------------------------------------------------------------------------ *)
(* The bound on max_nodes_response in [packet_fits_config] cannot be dropped altogether: with a
   configured maximum of 1280, a table (built by insert_or_update) with 16 nodes in each of the
   buckets 177..256, records of 235 bytes, a request id of 8 bytes and a FINDNODE for these 80
   distances, the answer has 256 packets (total needs 3 RLP bytes) of 5 records each and every
   packet is 1281 bytes on the wire.  Configuration corner (the default maximum is 16). *)
Definition big_cfg : config := {| max_incoming := 16; pending_timeout := 60; bfilter := None; tfilter := None |}.
Definition big_keys : list N :=
  flat_map (fun i => map (fun j => 2 ^ N.of_nat i + N.of_nat j) (seq 0 16)) (seq 176 80).
Definition big_table : table :=
  fold_left (fun t k => fst (t_insert_or_update big_cfg t k {| vid := k; vsub := None |} true false 1))
            big_keys (new_table 0).

Lemma packet_over_1280_with_large_maximum :
  exists c t lv requester id ds maxn rsize now,
    (forall v, rsize v <= MAX_ENR_SIZE) /\ (length id <= 8)%nat /\ maxn = 1280%nat /\
    length (snd (serve_findnode c t lv requester id ds maxn rsize now)) = 256%nat /\
    forall p, In p (snd (serve_findnode c t lv requester id ds maxn rsize now)) ->
      wire_size (nodes_msg_size rsize p) = MAX_PACKET_SIZE + 1.
Proof.
  exists big_cfg, big_table, {| vid := 99; vsub := None |}, 7, [200; 1; 2; 3; 4; 5; 6; 7],
         (map N.of_nat (seq 177 80)), 1280%nat, (fun _ => 235), 2.
  split; [intros _; vm_compute; discriminate|]. split; [cbn; lia|]. split; [reflexivity|].
  split; [vm_compute; reflexivity|].
  assert (H : forallb (fun p => wire_size (nodes_msg_size (fun _ => 235) p) =? MAX_PACKET_SIZE + 1)
                (snd (serve_findnode big_cfg big_table {| vid := 99; vsub := None |} 7 [200; 1; 2; 3; 4; 5; 6; 7]
                        (map N.of_nat (seq 177 80)) 1280%nat (fun _ => 235) 2)) = true)
    by (vm_compute; reflexivity).
  intros p Hp. apply N.eqb_eq. exact (proj1 (forallb_forall _ _) H p Hp).
Qed.
